import Pearl.Proofs.BPTreeLeaves
/-
Helper lemmas for C09, part 3: reading inside the leaf region (`read_header_buf`, `get_leftmost`,
`go_left`, `go_right`, `go_right_file`), for any index file whose leaf region is sorted by key.
-/
set_option linter.unusedSectionVars false

namespace Pearl.BPTree

variable {H : Type} [Keyed H]

/-- key of the `i`-th header of a header list (0 past the end) -/
def keyIdx (L : List H) (i : Nat) : Nat := (L[i]?.map hkey).getD 0

theorem keyIdx_of_getElem? {L : List H} {i : Nat} {h : H} (e : L[i]? = some h) : keyIdx L i = hkey h := by
  simp [keyIdx, e]

/-- what the reader needs of the file around the leaf region -/
structure LeafOK (f : IndexFile H) : Prop where
  rhs_pos : 0 < f.p.rhs
  off_eq : f.leavesOffset = f.leavesStart
  cnt_eq : f.recordsCount = f.leaves.length
  sorted : f.leaves.Pairwise (fun a b => hkey a ≤ hkey b)

/-- the headers of key `k` occupy exactly the positions `[i0, i1)` of `L` -/
structure Run (L : List H) (k i0 i1 : Nat) : Prop where
  lt : i0 < i1
  le : i1 ≤ L.length
  before : ∀ i, i < i0 → keyIdx L i < k
  inside : ∀ i, i0 ≤ i → i < i1 → keyIdx L i = k
  after : ∀ i, i1 ≤ i → i < L.length → k < keyIdx L i

theorem keyIdx_mono {L : List H} (hs : L.Pairwise (fun a b => hkey a ≤ hkey b)) (i j : Nat)
    (hij : i ≤ j) (hj : j < L.length) : keyIdx L i ≤ keyIdx L j := by
  have hi : i < L.length := by omega
  rw [keyIdx_of_getElem? (List.getElem?_eq_getElem hi), keyIdx_of_getElem? (List.getElem?_eq_getElem hj)]
  rcases Nat.lt_or_eq_of_le hij with h | h
  · exact (List.pairwise_iff_getElem.1 hs) i j hi hj h
  · subst h; exact Nat.le_refl _

namespace IndexFile

theorem hdrAt_idx (f : IndexFile H) (hr : 0 < f.p.rhs) (t : Nat) :
    f.hdrAt (f.leavesStart + f.p.rhs * t) = f.leaves[t]? := by
  unfold hdrAt
  rw [if_neg (by omega), Nat.add_sub_cancel_left, Nat.mul_mod_right, Nat.mul_div_cancel_left _ hr]
  simp

theorem bufRead_idx (f : IndexFile H) (hr : 0 < f.p.rhs) (s len i : Nat)
    (hi : f.p.rhs * (i + 1) ≤ len) :
    f.bufRead (f.leavesStart + f.p.rhs * s) len (f.p.rhs * i) = f.leaves[s + i]? := by
  unfold bufRead
  have : f.p.rhs * (i + 1) = f.p.rhs * i + f.p.rhs := Nat.mul_succ _ _
  rw [if_pos (by omega), Nat.add_assoc, ← Nat.mul_add, hdrAt_idx f hr]

theorem fileSize_eq (f : IndexFile H) : f.fileSize = f.leavesStart + f.leaves.length * f.p.rhs := rfl

/-- the buffer read for the leaf that starts at header index `s` -/
theorem leafNodeBufSize_idx (f : IndexFile H) (s : Nat) (hs : s ≤ f.leaves.length) :
    f.leafNodeBufSize (f.leavesStart + f.p.rhs * s)
      = some (min ((f.leaves.length - s) * f.p.rhs) f.p.B) := by
  unfold leafNodeBufSize
  have h1 : f.p.rhs * s ≤ f.leaves.length * f.p.rhs := by
    rw [Nat.mul_comm]; exact Nat.mul_le_mul_right _ hs
  have h2 : (f.leaves.length - s) * f.p.rhs = f.leaves.length * f.p.rhs - f.p.rhs * s := by
    rw [Nat.sub_mul, Nat.mul_comm s]
  rw [fileSize_eq, if_neg (by omega), h2]
  congr 2
  omega

end IndexFile

/-- the window of a leaf: `len` bytes from header index `s`; `n = len / rhs` whole headers, all inside
    the file -/
structure Window (f : IndexFile H) (s len : Nat) : Prop where
  s_le : s ≤ f.leaves.length
  len_le : len ≤ (f.leaves.length - s) * f.p.rhs
  len_B : len ≤ f.p.B

theorem Window.idx {f : IndexFile H} {s len : Nat} (w : Window f s len) (hr : 0 < f.p.rhs) (i : Nat)
    (hi : i < len / f.p.rhs) : f.p.rhs * (i + 1) ≤ len ∧ s + i < f.leaves.length := by
  have h1 : (i + 1) * f.p.rhs ≤ len := (Nat.le_div_iff_mul_le hr).1 hi
  have h2 : (i + 1) * f.p.rhs ≤ (f.leaves.length - s) * f.p.rhs := Nat.le_trans h1 w.len_le
  have h3 : i + 1 ≤ f.leaves.length - s := Nat.le_of_mul_le_mul_right h2 hr
  rw [Nat.mul_comm]
  exact ⟨h1, by omega⟩

theorem Window.read {f : IndexFile H} {s len : Nat} (w : Window f s len) (hr : 0 < f.p.rhs) (i : Nat)
    (hi : i < len / f.p.rhs) :
    ∃ h, f.bufRead (f.leavesStart + f.p.rhs * s) len (f.p.rhs * i) = some h ∧
      f.leaves[s + i]? = some h ∧ hkey h = keyIdx f.leaves (s + i) := by
  obtain ⟨h1, h2⟩ := w.idx hr i hi
  refine ⟨f.leaves[s + i], ?_, List.getElem?_eq_getElem h2, ?_⟩
  · rw [IndexFile.bufRead_idx f hr s len i h1, List.getElem?_eq_getElem h2]
  · rw [keyIdx_of_getElem? (List.getElem?_eq_getElem h2)]

/-- `binsearch_buf`: `read_header_buf` returns a header of `k` (with its buffer offset) iff one lies in
    the window; here the two directions as one statement about the result -/
theorem readHeaderBuf_spec (f : IndexFile H) (ok : LeafOK f) (s len : Nat) (w : Window f s len) (k : Nat) :
    (∃ m0 h, m0 < len / f.p.rhs ∧ f.leaves[s + m0]? = some h ∧ hkey h = k ∧
        f.readHeaderBuf (f.leavesStart + f.p.rhs * s) len k = some (some (h, f.p.rhs * m0))) ∨
    ((∀ i, i < len / f.p.rhs → keyIdx f.leaves (s + i) ≠ k) ∧
        f.readHeaderBuf (f.leavesStart + f.p.rhs * s) len k = some none) := by
  have hr := ok.rhs_pos
  obtain ⟨res, hres, hspec⟩ := binSearch_spec
    (fun i => (f.bufRead (f.leavesStart + f.p.rhs * s) len (f.p.rhs * i)).map hkey)
    (fun i => keyIdx f.leaves (s + i)) (len / f.p.rhs) k
    (by
      intro i hi
      obtain ⟨h, h1, _, h3⟩ := w.read hr i hi
      simp [h1, h3])
    (by
      intro i j hij hj
      exact keyIdx_mono ok.sorted _ _ (by omega) (w.idx hr j hj).2)
  unfold IndexFile.readHeaderBuf
  rw [if_neg (by omega), hres]
  cases res with
  | found m0 =>
    obtain ⟨hm, hk⟩ := hspec
    obtain ⟨h, h1, h2, h3⟩ := w.read hr m0 hm
    left
    refine ⟨m0, h, hm, h2, by rw [h3]; exact hk, ?_⟩
    simp only [h1]
  | notFound l =>
    obtain ⟨_, hlo, hhi⟩ := hspec
    right
    refine ⟨?_, rfl⟩
    intro i hi
    by_cases hil : i < l
    · have := hlo i hil; simp only at this; omega
    · have := hhi i (by omega) hi; simp only at this; omega

end Pearl.BPTree

namespace Pearl.BPTree
variable {H : Type} [Keyed H]

theorem rhs_mul_pos {r j : Nat} (_hr : 0 < r) (hj : 0 < j) : r ≤ r * j := Nat.le_mul_of_pos_right _ hj

theorem rhs_mul_pred {r j : Nat} (_hj : 0 < j) : r * j - r = r * (j - 1) := by
  rw [Nat.mul_sub, Nat.mul_one]

/-- `leftmost`: `get_leftmost` walks from a header of `k` at window index `j` to the first header of `k`,
    provided the run starts inside the window (at window index `a`) -/
theorem getLeftmostAux_spec (f : IndexFile H) (ok : LeafOK f) (s len : Nat) (w : Window f s len)
    (k i0 i1 : Nat) (run : Run f.leaves k i0 i1) (hs : s ≤ i0) :
    ∀ (fuel j : Nat) (prev : H), i0 ≤ s + j → s + j < i1 → j < len / f.p.rhs → j + 2 ≤ fuel + (i0 - s) →
      f.leaves[s + j]? = some prev →
      f.getLeftmostAux (f.leavesStart + f.p.rhs * s) len k fuel (f.p.rhs * j) prev = f.leaves[i0]? := by
  have hr := ok.rhs_pos
  intro fuel
  induction fuel with
  | zero => intro j prev h1 _ _ h4 _; omega
  | succ fuel ih =>
    intro j prev h1 h2 h3 h4 hprev
    unfold IndexFile.getLeftmostAux
    by_cases hj : j = 0
    · subst hj
      have : s = i0 := by omega
      subst this
      simp only [Nat.mul_zero, Nat.lt_irrefl, if_false]
      simpa using hprev.symm
    · have hpos : 0 < f.p.rhs * j := Nat.mul_pos hr (by omega)
      simp only [hpos, if_true, rhs_mul_pred (Nat.pos_of_ne_zero hj)]
      obtain ⟨cur, hc1, hc2, hc3⟩ := w.read hr (j - 1) (by omega)
      rw [hc1]
      simp only
      by_cases hja : s + j = i0
      · have : keyIdx f.leaves (s + (j - 1)) < k := run.before _ (by omega)
        rw [if_pos (by omega), ← hja, hprev]
      · have : keyIdx f.leaves (s + (j - 1)) = k := run.inside _ (by omega) (by omega)
        rw [if_neg (by omega)]
        exact ih (j - 1) cur (by omega) (by omega) (by omega) (by omega) hc2

/-- `go_left` collects the headers of `k` to the left of window index `j`, nearest first, down to the
    start of the run -/
theorem goLeftAux_spec (f : IndexFile H) (ok : LeafOK f) (s len : Nat) (w : Window f s len)
    (k i0 i1 : Nat) (run : Run f.leaves k i0 i1) (hs : s ≤ i0) :
    ∀ (fuel j : Nat) (hs0 : List H), i0 ≤ s + j → s + j < i1 → j < len / f.p.rhs → j + 1 ≤ fuel →
      f.goLeftAux (f.leavesStart + f.p.rhs * s) len k fuel hs0 (f.p.rhs * j)
        = some (hs0 ++ ((f.leaves.drop i0).take (s + j - i0)).reverse) := by
  have hr := ok.rhs_pos
  intro fuel
  induction fuel with
  | zero => intro j _ _ _ _ h4; omega
  | succ fuel ih =>
    intro j hs0 h1 h2 h3 h4
    unfold IndexFile.goLeftAux
    by_cases hj : j = 0
    · subst hj
      have : s = i0 := by omega
      subst this
      simp only [Nat.mul_zero]
      rw [if_neg (by omega)]
      simp
    · rw [if_pos (rhs_mul_pos hr (Nat.pos_of_ne_zero hj))]
      simp only [rhs_mul_pred (Nat.pos_of_ne_zero hj)]
      obtain ⟨cur, hc1, hc2, hc3⟩ := w.read hr (j - 1) (by omega)
      rw [hc1]
      simp only
      by_cases hja : s + j = i0
      · have : keyIdx f.leaves (s + (j - 1)) < k := run.before _ (by omega)
        rw [if_neg (by omega)]
        have : s + j - i0 = 0 := by omega
        simp [this]
      · have : keyIdx f.leaves (s + (j - 1)) = k := run.inside _ (by omega) (by omega)
        rw [if_pos (by omega), ih (j - 1) (hs0 ++ [cur]) (by omega) (by omega) (by omega) (by omega)]
        have e1 : s + j - i0 = (s + (j - 1) - i0) + 1 := by omega
        have e2 : (f.leaves.drop i0)[s + (j - 1) - i0]? = some cur := by
          rw [List.getElem?_drop, ← hc2]; congr 1; omega
        rw [e1, List.take_add_one, e2]
        simp

/-- `go_right_file` continues the run from absolute header index `t` to its end: no loss, no extra -/
theorem goRightFileAux_spec (f : IndexFile H) (ok : LeafOK f) (k i0 i1 : Nat) (run : Run f.leaves k i0 i1) :
    ∀ (fuel t : Nat) (hs0 : List H) (h0 : H), hs0.head? = some h0 → hkey h0 = k →
      i0 ≤ t → t ≤ i1 → i1 - t + 1 ≤ fuel →
      f.goRightFileAux fuel hs0 (f.leavesStart + f.p.rhs * t)
        = some (hs0 ++ (f.leaves.drop t).take (i1 - t)) := by
  have hr := ok.rhs_pos
  intro fuel
  induction fuel with
  | zero => intro t _ _ _ _ _ _ h; omega
  | succ fuel ih =>
    intro t hs0 h0 hh0 hk0 h1 h2 h3
    unfold IndexFile.goRightFileAux
    have hend : f.leavesEnd = f.leavesStart + f.p.rhs * f.leaves.length := by
      simp [IndexFile.leavesEnd, ok.off_eq, ok.cnt_eq]
    have hmul : f.p.rhs * (t + 1) = f.p.rhs * t + f.p.rhs := Nat.mul_succ _ _
    by_cases ht : t < f.leaves.length
    · have hle : f.p.rhs * (t + 1) ≤ f.p.rhs * f.leaves.length := Nat.mul_le_mul_left _ ht
      rw [if_pos (by rw [hend]; omega)]
      rw [if_neg (by rw [IndexFile.fileSize_eq, Nat.mul_comm f.leaves.length]; omega)]
      rw [IndexFile.hdrAt_idx f hr, List.getElem?_eq_getElem ht, hh0]
      simp only
      have hkt : keyIdx f.leaves t = hkey f.leaves[t] := keyIdx_of_getElem? (List.getElem?_eq_getElem ht)
      by_cases hti : t < i1
      · have := run.inside t h1 hti
        rw [if_pos (by omega), Nat.add_assoc, ← hmul]
        rw [ih (t + 1) (hs0 ++ [f.leaves[t]]) h0 (by
          cases hs0 with
          | nil => simp at hh0
          | cons a as => simpa using hh0) hk0 (by omega) (by omega) (by omega)]
        have e1 : i1 - t = (i1 - (t + 1)) + 1 := by omega
        rw [e1, List.drop_eq_getElem_cons ht, List.take_succ_cons]
        simp
      · have := run.after t (by omega) ht
        rw [if_neg (by omega)]
        have : i1 - t = 0 := by omega
        simp [this]
    · have : f.leaves.length = t := by have := run.le; omega
      rw [if_neg (by rw [hend, this]; omega)]
      have : i1 - t = 0 := by have := run.le; omega
      simp [this]

theorem goRightFile_spec (f : IndexFile H) (ok : LeafOK f) (k i0 i1 : Nat) (run : Run f.leaves k i0 i1)
    (t : Nat) (hs0 : List H) (h0 : H) (hh0 : hs0.head? = some h0) (hk0 : hkey h0 = k)
    (h1 : i0 ≤ t) (h2 : t ≤ i1) :
    f.goRightFile hs0 (f.leavesStart + f.p.rhs * t) = some (hs0 ++ (f.leaves.drop t).take (i1 - t)) := by
  unfold IndexFile.goRightFile
  rw [if_neg (by have := ok.rhs_pos; omega)]
  apply goRightFileAux_spec f ok k i0 i1 run _ t hs0 h0 hh0 hk0 h1 h2
  rw [ok.cnt_eq]; have := run.le; omega

/-- the buffer part of `go_right` (bound `right_bound = len`), then the hand-over to `go_right_file`:
    together they collect the rest of the run exactly -/
theorem goRightAux_spec (f : IndexFile H) (ok : LeafOK f) (s len : Nat) (w : Window f s len)
    (k i0 i1 : Nat) (run : Run f.leaves k i0 i1) :
    ∀ (fuel j : Nat) (hs0 : List H) (h0 : H), hs0.head? = some h0 → hkey h0 = k →
      i0 ≤ s + j → s + j ≤ i1 → j ≤ len / f.p.rhs → len / f.p.rhs + 2 ≤ fuel + j →
      f.goRightAux (f.leavesStart + f.p.rhs * s) len len fuel hs0 (f.p.rhs * j)
        = some (hs0 ++ (f.leaves.drop (s + j)).take (i1 - (s + j))) := by
  have hr := ok.rhs_pos
  intro fuel
  induction fuel with
  | zero =>
    intro j hs0 h0 hh0 hk0 h1 h2 hjn h3
    omega
  | succ fuel ih =>
    intro j hs0 h0 hh0 hk0 h1 h2 _ h3
    unfold IndexFile.goRightAux
    have hmul : f.p.rhs * (j + 1) = f.p.rhs * j + f.p.rhs := Nat.mul_succ _ _
    by_cases hc : f.p.rhs * j + f.p.rhs < len
    · rw [if_pos hc]
      have hjn : j < len / f.p.rhs := by
        apply (Nat.le_div_iff_mul_le hr).2
        show (j + 1) * f.p.rhs ≤ len
        rw [Nat.mul_comm, hmul]; omega
      obtain ⟨cur, hc1, hc2, hc3⟩ := w.read hr j hjn
      rw [hc1, hh0]
      simp only
      have hlt := (w.idx hr j hjn).2
      by_cases hti : s + j < i1
      · have := run.inside (s + j) h1 hti
        rw [if_pos (by omega), ← hmul]
        rw [ih (j + 1) (hs0 ++ [cur]) h0 (by
          cases hs0 with
          | nil => simp at hh0
          | cons a as => simpa using hh0) hk0 (by omega) (by omega) (by omega) (by omega)]
        have e1 : i1 - (s + j) = (i1 - (s + (j + 1))) + 1 := by omega
        have e2 : f.leaves[s + j] = cur := by
          have := List.getElem?_eq_getElem hlt
          rw [hc2] at this; exact (Option.some.inj this).symm
        rw [e1, List.drop_eq_getElem_cons hlt, List.take_succ_cons, e2]
        simp [Nat.add_assoc]
      · have := run.after (s + j) (by omega) hlt
        rw [if_neg (by omega)]
        have : i1 - (s + j) = 0 := by omega
        simp [this]
    · rw [if_neg hc, Nat.add_assoc, ← Nat.mul_add]
      exact goRightFile_spec f ok k i0 i1 run (s + j) hs0 h0 hh0 hk0 h1 h2

end Pearl.BPTree

namespace Pearl.BPTree
variable {H : Type} [Keyed H]

theorem window_of_leaf (f : IndexFile H) (s : Nat) (hs : s ≤ f.leaves.length) :
    Window f s (min ((f.leaves.length - s) * f.p.rhs) f.p.B) :=
  ⟨hs, Nat.min_le_left _ _, Nat.min_le_right _ _⟩

/-- a header of the run that lies in the window is found inside the run -/
theorem Run.idx_of_key {L : List H} {k i0 i1 : Nat} (run : Run L k i0 i1) (i : Nat) (hi : i < L.length)
    (hk : keyIdx L i = k) : i0 ≤ i ∧ i < i1 := by
  constructor
  · apply Nat.le_of_not_lt; intro h; have := run.before i h; omega
  · apply Nat.lt_of_not_le; intro h; have := run.after i h hi; omega

/-- the first header of the run is inside the window when it lies wholly in the first block of the leaf -/
theorem first_in_window (f : IndexFile H) (hr : 0 < f.p.rhs) (s i0 : Nat) (hs : s ≤ i0)
    (hi0 : i0 < f.leaves.length) (hfirst : f.p.rhs * (i0 - s + 1) ≤ f.p.B) :
    i0 - s < min ((f.leaves.length - s) * f.p.rhs) f.p.B / f.p.rhs := by
  apply (Nat.le_div_iff_mul_le hr).2
  apply Nat.le_min.2
  constructor
  · exact Nat.mul_le_mul_right _ (by omega)
  · rw [Nat.mul_comm]; exact hfirst

/-- `read_header` on the leaf that starts at header index `s`, for a present key whose newest header
    lies wholly inside the first block: the newest header -/
theorem readHeader_present (f : IndexFile H) (ok : LeafOK f) (k i0 i1 : Nat) (run : Run f.leaves k i0 i1)
    (s : Nat) (hs : s ≤ i0) (hfirst : f.p.rhs * (i0 - s + 1) ≤ f.p.B) :
    f.readHeader (f.leavesStart + f.p.rhs * s) k = some (f.leaves[i0]?) := by
  have hr := ok.rhs_pos
  have hN := run.le
  have hlt := run.lt
  have hsN : s ≤ f.leaves.length := by omega
  have w := window_of_leaf f s hsN
  unfold IndexFile.readHeader
  rw [IndexFile.leafNodeBufSize_idx f s hsN]
  simp only
  rw [if_neg (by have := w.len_B; omega)]
  have hwin := first_in_window f hr s i0 hs (by omega) hfirst
  rcases readHeaderBuf_spec f ok s _ w k with ⟨m0, h, hm, hget, hk, hrd⟩ | ⟨hno, _⟩
  · rw [hrd]
    simp only
    have hin := run.idx_of_key (s + m0) (w.idx hr m0 hm).2 (by rw [keyIdx_of_getElem? hget]; exact hk)
    unfold IndexFile.getLeftmost
    rw [if_neg (by omega), Nat.mul_div_cancel_left _ hr]
    rw [getLeftmostAux_spec f ok s _ w k i0 i1 run hs (m0 + 2) m0 h hin.1 hin.2 hm (by omega) hget]
    rw [List.getElem?_eq_getElem (by omega)]
    rfl
  · exfalso
    have := hno (i0 - s) hwin
    apply this
    have e : s + (i0 - s) = i0 := by omega
    rw [e]
    exact run.inside i0 (Nat.le_refl _) hlt

theorem reverse_if_long (l : List H) : (if l.length > 1 then l.reverse else l) = l.reverse := by
  split
  · rfl
  · match l with
    | [] => rfl
    | [a] => rfl
    | a :: b :: t => rename_i h; simp at h

/-- `read_headers` on the same leaf: the whole run, newest first, nothing lost or duplicated -/
theorem readHeaders_present (f : IndexFile H) (ok : LeafOK f) (k i0 i1 : Nat) (run : Run f.leaves k i0 i1)
    (s : Nat) (hs : s ≤ i0) (hfirst : f.p.rhs * (i0 - s + 1) ≤ f.p.B) :
    f.readHeaders (f.leavesStart + f.p.rhs * s) k = some (some ((f.leaves.drop i0).take (i1 - i0))) := by
  have hr := ok.rhs_pos
  have hN := run.le
  have hlt := run.lt
  have hsN : s ≤ f.leaves.length := by omega
  have w := window_of_leaf f s hsN
  unfold IndexFile.readHeaders
  rw [IndexFile.leafNodeBufSize_idx f s hsN]
  simp only
  rw [if_neg (by have := w.len_B; omega)]
  have hwin := first_in_window f hr s i0 hs (by omega) hfirst
  rcases readHeaderBuf_spec f ok s _ w k with ⟨m0, h, hm, hget, hk, hrd⟩ | ⟨hno, _⟩
  · rw [hrd]
    simp only
    have hin := run.idx_of_key (s + m0) (w.idx hr m0 hm).2 (by rw [keyIdx_of_getElem? hget]; exact hk)
    unfold IndexFile.goLeft
    rw [if_neg (by omega), Nat.mul_div_cancel_left _ hr, hk]
    rw [goLeftAux_spec f ok s _ w k i0 i1 run hs (m0 + 1) m0 [] hin.1 hin.2 hm (Nat.le_refl _)]
    simp only [List.nil_append]
    rw [reverse_if_long, List.reverse_reverse]
    -- the collected prefix plus the found header
    have e2 : (f.leaves.drop i0)[s + m0 - i0]? = some h := by
      rw [List.getElem?_drop, ← hget]; congr 1; omega
    have hpre : (f.leaves.drop i0).take (s + m0 - i0) ++ [h] = (f.leaves.drop i0).take (s + m0 - i0 + 1) := by
      rw [List.take_add_one, e2]; rfl
    rw [hpre]
    have hhead : ((f.leaves.drop i0).take (s + m0 - i0 + 1)).head? = f.leaves[i0]? := by
      rw [List.head?_take, if_neg (by omega), List.head?_drop]
    have hi0 : f.leaves[i0]? = some f.leaves[i0] := List.getElem?_eq_getElem (by omega)
    have hk0 : hkey f.leaves[i0] = k := by
      rw [← keyIdx_of_getElem? hi0]; exact run.inside i0 (Nat.le_refl _) hlt
    unfold IndexFile.goRight
    have hend : f.leavesEnd = f.leavesStart + f.p.rhs * f.leaves.length := by
      simp [IndexFile.leavesEnd, ok.off_eq, ok.cnt_eq]
    have hle : f.p.rhs * s ≤ f.p.rhs * f.leaves.length := Nat.mul_le_mul_left _ hsN
    have hrb : min (f.leavesEnd - (f.leavesStart + f.p.rhs * s))
        (min ((f.leaves.length - s) * f.p.rhs) f.p.B) = min ((f.leaves.length - s) * f.p.rhs) f.p.B := by
      have : f.leavesEnd - (f.leavesStart + f.p.rhs * s) = (f.leaves.length - s) * f.p.rhs := by
        rw [hend, Nat.sub_mul, Nat.mul_comm s, Nat.mul_comm f.leaves.length]; omega
      rw [this]
      exact Nat.min_eq_right (Nat.min_le_left _ _)
    rw [if_neg (by omega), if_neg (by rw [hend]; omega)]
    simp only [hrb]
    rw [← Nat.mul_succ]
    rw [goRightAux_spec f ok s _ w k i0 i1 run _ (m0 + 1) _ f.leaves[i0] (by rw [hhead, hi0]) hk0
      (by omega) (by omega) (by omega) (by omega)]
    have e3 : f.leaves.drop (s + (m0 + 1)) = (f.leaves.drop i0).drop (s + m0 - i0 + 1) := by
      rw [List.drop_drop]; congr 1; omega
    have e4 : i1 - i0 = (s + m0 - i0 + 1) + (i1 - (s + (m0 + 1))) := by omega
    have efin : (f.leaves.drop i0).take (s + m0 - i0 + 1)
        ++ ((f.leaves.drop i0).drop (s + m0 - i0 + 1)).take (i1 - (s + (m0 + 1)))
        = (f.leaves.drop i0).take (i1 - i0) := by
      rw [e4]; exact List.take_add.symm
    rw [e3, efin]; rfl
  · exfalso
    have := hno (i0 - s) hwin
    apply this
    have e : s + (i0 - s) = i0 := by omega
    rw [e]
    exact run.inside i0 (Nat.le_refl _) hlt

/-- an absent key is reported absent, whatever leaf the descent arrived at -/
theorem read_absent (f : IndexFile H) (ok : LeafOK f) (k : Nat)
    (habs : ∀ i, i < f.leaves.length → keyIdx f.leaves i ≠ k) (s : Nat) (hsN : s ≤ f.leaves.length) :
    f.readHeader (f.leavesStart + f.p.rhs * s) k = some none ∧
    f.readHeaders (f.leavesStart + f.p.rhs * s) k = some none := by
  have hr := ok.rhs_pos
  have w := window_of_leaf f s hsN
  have hrd : f.readHeaderBuf (f.leavesStart + f.p.rhs * s) (min ((f.leaves.length - s) * f.p.rhs) f.p.B) k
      = some none := by
    rcases readHeaderBuf_spec f ok s _ w k with ⟨m0, h, hm, hget, hk, hrd⟩ | ⟨_, hrd⟩
    · exfalso
      exact habs (s + m0) (w.idx hr m0 hm).2 (by rw [keyIdx_of_getElem? hget]; exact hk)
    · exact hrd
  constructor
  · unfold IndexFile.readHeader
    rw [IndexFile.leafNodeBufSize_idx f s hsN]
    simp only
    rw [if_neg (by have := w.len_B; omega), hrd]
  · unfold IndexFile.readHeaders
    rw [IndexFile.leafNodeBufSize_idx f s hsN]
    simp only
    rw [if_neg (by have := w.len_B; omega), hrd]

end Pearl.BPTree
