import Pearl.Model.BPTree
/-
Helper lemmas for C09, part 1: the binary search (`read_header_buf`, `binary_search_serialized`).
-/
namespace Pearl.BPTree

/-- specification of a binary-search result over `n` items with key function `key` -/
def BS.Spec (key : Nat → Nat) (n : Nat) (k : Nat) : BS → Prop
  | .found m => m < n ∧ key m = k
  | .notFound l => l ≤ n ∧ (∀ i, i < l → key i < k) ∧ (∀ i, l ≤ i → i < n → k < key i)

theorem binSearchAux_spec (keyAt : Nat → Option Nat) (key : Nat → Nat) (n : Nat) (k : Nat)
    (hk : ∀ i, i < n → keyAt i = some (key i))
    (hmono : ∀ i j, i ≤ j → j < n → key i ≤ key j) :
    ∀ (fuel : Nat) (l r : Int), 0 ≤ l → r < n → l ≤ r + 1 → r + 1 - l < fuel →
      (∀ i : Nat, (i : Int) < l → key i < k) →
      (∀ i : Nat, r < (i : Int) → i < n → k < key i) →
      ∃ res, binSearchAux keyAt k fuel l r = some res ∧ BS.Spec key n k res := by
  intro fuel
  induction fuel with
  | zero => intro l r _ _ _ h; omega
  | succ fuel ih =>
    intro l r hl hr hlr hf hlo hhi
    unfold binSearchAux
    by_cases hle : l ≤ r
    · simp only [hle, if_true]
      have hm1 : l ≤ (l + r) / 2 := by omega
      have hm2 : (l + r) / 2 ≤ r := by omega
      have hmn : ((l + r) / 2).toNat < n := by omega
      have hcast : (((l + r) / 2).toNat : Int) = (l + r) / 2 := by omega
      rw [hk _ hmn]
      simp only
      by_cases h1 : k < key ((l + r) / 2).toNat
      · simp only [h1, if_true]
        apply ih l ((l + r) / 2 - 1) hl (by omega) (by omega) (by omega) hlo
        intro i hi hin
        have : ((l + r) / 2).toNat ≤ i := by omega
        have := hmono _ _ this hin
        omega
      · simp only [h1, if_false]
        by_cases h2 : key ((l + r) / 2).toNat < k
        · simp only [h2, if_true]
          apply ih ((l + r) / 2 + 1) r (by omega) hr (by omega) (by omega) _ hhi
          intro i hi
          have : i ≤ ((l + r) / 2).toNat := by omega
          have := hmono _ _ this hmn
          omega
        · simp only [h2, if_false]
          exact ⟨_, rfl, hmn, by omega⟩
    · simp only [hle, if_false]
      refine ⟨_, rfl, by omega, ?_, ?_⟩
      · intro i hi; apply hlo; omega
      · intro i hi hin; apply hhi _ _ hin; omega

theorem binSearch_spec (keyAt : Nat → Option Nat) (key : Nat → Nat) (n : Nat) (k : Nat)
    (hk : ∀ i, i < n → keyAt i = some (key i))
    (hmono : ∀ i j, i ≤ j → j < n → key i ≤ key j) :
    ∃ res, binSearch keyAt n k = some res ∧ BS.Spec key n k res := by
  unfold binSearch
  apply binSearchAux_spec keyAt key n k hk hmono (n + 1) 0 ((n : Int) - 1) (by omega) (by omega)
    (by omega) (by omega)
  · intro i hi; omega
  · intro i hi hin; omega

end Pearl.BPTree
