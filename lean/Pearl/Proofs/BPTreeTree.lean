import Pearl.Proofs.BPTreeLeaves
/-
Helper lemmas for C09, part 4: the inner tree (`build_tree`, portions, node layout) and the descent
(`find_leaf_node` / `key_offset_serialized`).
-/
set_option linter.unusedSectionVars false

namespace Pearl.BPTree

/-! ### portions -/

section Portions
variable {α : Type}

/-- `portions_partition`: the portions are consecutive slices covering the layer exactly once -/
theorem portionsAux_flatten (mn mx : Nat) : ∀ (fuel : Nat) (xs : List α),
    (portionsAux mn mx fuel xs).flatten = xs := by
  intro fuel
  induction fuel with
  | zero => intro xs; simp [portionsAux]
  | succ fuel ih =>
    intro xs
    simp only [portionsAux]
    split
    · simp [ih]
    · simp

theorem portions_flatten (mn mx : Nat) (xs : List α) : (portions mn mx xs).flatten = xs :=
  portionsAux_flatten mn mx _ xs

/-- `portion_sizes`: when the layer is longer than `max`, every portion has between `min` and `max`
    children -/
theorem portionsAux_sizes (mn mx : Nat) (h1 : 1 ≤ mn) (h2 : 2 * mn ≤ mx + 1) (h3 : mn ≤ mx) :
    ∀ (fuel : Nat) (xs : List α), xs.length ≤ fuel → mn ≤ xs.length →
      ∀ P ∈ portionsAux mn mx fuel xs, mn ≤ P.length ∧ P.length ≤ mx := by
  intro fuel
  induction fuel with
  | zero => intro xs hf hmn; omega
  | succ fuel ih =>
    intro xs hf hmn P hP
    simp only [portionsAux] at hP
    split at hP
    · rename_i hgt
      rcases List.mem_cons.1 hP with rfl | hP
      · simp only [List.length_take]; omega
      · exact ih (xs.drop (min mx (xs.length - mn))) (by simp only [List.length_drop]; omega)
          (by simp only [List.length_drop]; omega) P hP
    · rename_i hle
      simp only [List.mem_singleton] at hP
      subst hP
      omega

theorem portions_small (mn mx : Nat) (xs : List α) (h : xs.length ≤ mx) : portions mn mx xs = [xs] := by
  unfold portions
  cases hl : xs.length with
  | zero => rfl
  | succ n =>
    simp only [portionsAux]
    rw [if_neg (by omega)]

theorem flatten_length_ge (Ps : List (List α)) (h : ∀ P ∈ Ps, 2 ≤ P.length) :
    2 * Ps.length ≤ Ps.flatten.length := by
  induction Ps with
  | nil => simp
  | cons P Ps ih =>
    have h1 := h P (by simp)
    have h2 := ih (fun Q hQ => h Q (by simp [hQ]))
    simp only [List.flatten_cons, List.length_append, List.length_cons]
    omega

end Portions

/-- hypotheses on the parameters: `0 < rhs ≤ B`, and fan-out at least 3 (`min_amount ≥ 2`, so that no
    node without keys is produced); for the real parameters: `K ≤ 2032` -/
structure Params.Valid (p : Params) : Prop where
  rhs_pos : 0 < p.rhs
  rhs_le : p.rhs ≤ p.B
  fan : 3 ≤ maxAmount p

theorem minAmount_facts (p : Params) (h : 3 ≤ maxAmount p) :
    2 ≤ minAmount p ∧ 2 * minAmount p ≤ maxAmount p + 1 ∧ minAmount p ≤ maxAmount p := by
  unfold minAmount; omega

/-- `portion_sizes` for the layers `build_tree` makes: at least two, at most `max_amount` children -/
theorem portions_sizes (p : Params) (h : 3 ≤ maxAmount p) (es : List Entry) (hes : 2 ≤ es.length) :
    ∀ P ∈ portions (minAmount p) (maxAmount p) es, 2 ≤ P.length ∧ P.length ≤ maxAmount p := by
  obtain ⟨m1, m2, m3⟩ := minAmount_facts p h
  intro P hP
  by_cases hl : es.length ≤ maxAmount p
  · rw [portions_small _ _ _ hl] at hP
    simp only [List.mem_singleton] at hP
    subst hP; omega
  · have := portionsAux_sizes (minAmount p) (maxAmount p) (by omega) m2 m3 es.length es (Nat.le_refl _)
      (by omega) P hP
    omega

/-- `node_fits_block` -/
theorem nodeSize_le_B (p : Params) (h : 3 ≤ maxAmount p) (n : Nat) (h1 : 1 ≤ n) (hn : n ≤ maxAmount p) :
    nodeSize p (n - 1) ≤ p.B := by
  unfold maxAmount nodeMetaSize offsetSize at *
  unfold nodeSize nodeMetaSize offsetSize
  have hq : 2 ≤ (p.B - 8 - 8) / (p.K + 8) := by omega
  have hmul : (p.K + 8) * ((p.B - 8 - 8) / (p.K + 8)) ≤ p.B - 8 - 8 := Nat.mul_div_le _ _
  have hle : (p.K + 8) * (n - 1) ≤ (p.K + 8) * ((p.B - 8 - 8) / (p.K + 8)) :=
    Nat.mul_le_mul_left _ (by omega)
  have hpos : 2 * (p.K + 8) ≤ (p.K + 8) * ((p.B - 8 - 8) / (p.K + 8)) := by
    rw [Nat.mul_comm 2]; exact Nat.mul_le_mul_left _ hq
  have e : (p.K + 8) * (n - 1) = p.K * (n - 1) + 8 * (n - 1) := Nat.add_mul _ _ _
  omega

theorem nodeSize_pos (p : Params) (n : Nat) : 0 < nodeSize p n := by
  unfold nodeSize nodeMetaSize; omega

theorem mkNode_size (p : Params) (base : Nat) (P : List Entry) :
    (mkNode base P).size p = nodeSize p (P.length - 1) := by
  simp [mkNode, Node.size]

theorem nodesBytes_nil (p : Params) : nodesBytes p [] = 0 := rfl
theorem nodesBytes_cons (p : Params) (n : Node) (ns : List Node) :
    nodesBytes p (n :: ns) = n.size p + nodesBytes p ns := by simp [nodesBytes]
theorem nodesBytes_append (p : Params) (a b : List Node) :
    nodesBytes p (a ++ b) = nodesBytes p a + nodesBytes p b := by simp [nodesBytes]

/-! ### `collect_next_layer_nodes` -/

theorem collectNext_length (p : Params) : ∀ (Ps : List (List Entry)) (off : Nat),
    (collectNext p Ps off).1.length = Ps.length := by
  intro Ps
  induction Ps with
  | nil => intro off; rfl
  | cons P Ps ih => intro off; simp [collectNext, ih]

/-- the layer size returned is the size of the nodes `shift_all_and_write` writes -/
theorem collectNext_size (p : Params) (base : Nat) : ∀ (Ps : List (List Entry)) (off : Nat),
    (collectNext p Ps off).2 = off + nodesBytes p (Ps.map (mkNode base)) := by
  intro Ps
  induction Ps with
  | nil => intro off; simp [collectNext, nodesBytes]
  | cons P Ps ih =>
    intro off
    simp only [collectNext, List.map_cons, nodesBytes_cons, ih, mkNode_size]
    omega

theorem collectNext_keys (p : Params) : ∀ (Ps : List (List Entry)) (off : Nat),
    (collectNext p Ps off).1.map (·.1) = Ps.map (fun P => (P.headD (0, 0)).1) := by
  intro Ps
  induction Ps with
  | nil => intro off; rfl
  | cons P Ps ih => intro off; simp [collectNext, ih]

theorem collectNext_head (p : Params) (P : List Entry) (Ps : List (List Entry)) (off : Nat) :
    (collectNext p (P :: Ps) off).1
      = ((P.headD (0, 0)).1, off) :: (collectNext p Ps (off + nodeSize p (P.length - 1))).1 := rfl

theorem heads_pairwise {R : Nat → Nat → Prop} : ∀ (Ps : List (List Entry)), (∀ P ∈ Ps, P ≠ []) →
    Ps.flatten.Pairwise (fun a b => R a.1 b.1) →
    (Ps.map (fun P => (P.headD (0, 0)).1)).Pairwise R := by
  intro Ps
  induction Ps with
  | nil => intro _ _; simp
  | cons P Ps ih =>
    intro hne hp
    simp only [List.flatten_cons, List.pairwise_append] at hp
    obtain ⟨_, hp2, hp3⟩ := hp
    simp only [List.map_cons, List.pairwise_cons]
    refine ⟨?_, ih (fun Q hQ => hne Q (by simp [hQ])) hp2⟩
    intro b hb
    obtain ⟨Q, hQ, rfl⟩ := List.mem_map.1 hb
    have hP := hne P (by simp)
    have hQ' := hne Q (by simp [hQ])
    cases P with
    | nil => exact absurd rfl hP
    | cons e0 P' =>
      cases Q with
      | nil => exact absurd rfl hQ'
      | cons q0 Q' =>
        simp only [List.headD_cons]
        exact hp3 e0 (by simp) q0 (List.mem_flatten.2 ⟨_, hQ, by simp⟩)

theorem collectNext_pairwise (p : Params) (Ps : List (List Entry)) (off : Nat) (hne : ∀ P ∈ Ps, P ≠ [])
    (hp : Ps.flatten.Pairwise (fun a b => a.1 < b.1)) :
    (collectNext p Ps off).1.Pairwise (fun a b => a.1 < b.1) := by
  have := heads_pairwise (R := fun a b => a < b) Ps hne hp
  rw [← collectNext_keys p Ps off] at this
  exact List.pairwise_map.1 this

end Pearl.BPTree

namespace Pearl.BPTree

/-! ### the child selection across portions -/

theorem selFrom_append_gt (k : Nat) (y : Entry) (Y : List Entry) (hy : k < y.1) :
    ∀ (X : List Entry) (cur : Entry), selFrom cur (X ++ y :: Y) k = selFrom cur X k := by
  intro X
  induction X with
  | nil => intro cur; simp only [List.nil_append, selFrom]; rw [if_neg (by omega)]
  | cons x X ih =>
    intro cur
    simp only [List.cons_append, selFrom]
    split
    · exact ih x
    · rfl

theorem selFrom_append_le (k : Nat) (y : Entry) (Y : List Entry) (hy : y.1 ≤ k) :
    ∀ (X : List Entry) (cur : Entry), (∀ x ∈ X, x.1 ≤ k) →
      selFrom cur (X ++ y :: Y) k = selFrom y Y k := by
  intro X
  induction X with
  | nil => intro cur _; simp only [List.nil_append, selFrom]; rw [if_pos hy]
  | cons x X ih =>
    intro cur hx
    simp only [List.cons_append, selFrom]
    rw [if_pos (hx x (by simp))]
    exact ih x (fun z hz => hx z (by simp [hz]))

/-- the child chosen in the whole layer is the child chosen inside the portion chosen one level up -/
theorem sel_portions (p : Params) (base k : Nat) : ∀ (Ps : List (List Entry)) (off : Nat),
    (∀ P ∈ Ps, P ≠ []) → Ps ≠ [] → Ps.flatten.Pairwise (fun a b => a.1 < b.1) →
    ∃ A P R, Ps = A ++ P :: R ∧
      sel (collectNext p Ps off).1 k = ((P.headD (0, 0)).1, off + nodesBytes p (A.map (mkNode base))) ∧
      sel Ps.flatten k = sel P k := by
  intro Ps
  induction Ps with
  | nil => intro _ _ h; exact absurd rfl h
  | cons P Ps ih =>
    intro off hne _ hp
    have hP := hne P (by simp)
    cases Ps with
    | nil =>
      refine ⟨[], P, [], rfl, ?_, by simp⟩
      simp [collectNext, sel, selFrom, nodesBytes]
    | cons Q Ps =>
      have hQ := hne Q (by simp)
      cases P with
      | nil => exact absurd rfl hP
      | cons e0 P' =>
        cases Q with
        | nil => exact absurd rfl hQ
        | cons q0 Q' =>
          have hflat : ((e0 :: P') :: (q0 :: Q') :: Ps).flatten
              = e0 :: (P' ++ q0 :: (Q' ++ Ps.flatten)) := by simp
          rw [hflat] at hp ⊢
          have hp' : ((q0 :: Q') :: Ps).flatten.Pairwise (fun a b => a.1 < b.1) := by
            have h1 := (List.pairwise_cons.1 hp).2
            have h2 := (List.pairwise_append.1 h1).2.1
            simpa using h2
          rw [collectNext_head, collectNext_head]
          by_cases hk : q0.1 ≤ k
          · obtain ⟨A, P0, R, hdec, hsel, hflat2⟩ :=
              ih (off + nodeSize p ((e0 :: P').length - 1)) (fun Z hZ => hne Z (by simp [hZ]))
                (by simp) hp'
            refine ⟨(e0 :: P') :: A, P0, R, by rw [hdec]; rfl, ?_, ?_⟩
            · rw [collectNext_head] at hsel
              simp only [sel, selFrom, List.headD_cons] at hsel ⊢
              simp only [hk, ↓reduceIte]
              rw [hsel]
              simp only [List.map_cons, nodesBytes_cons, mkNode_size, Nat.add_assoc]
            · rw [← hflat2]
              have hall : ∀ x ∈ P', x.1 ≤ k := by
                intro x hx
                have h1 := (List.pairwise_cons.1 hp).2
                have h3 := (List.pairwise_append.1 h1).2.2 x hx q0 (by simp)
                omega
              simp only [sel]
              rw [selFrom_append_le k q0 _ hk P' e0 hall]
              simp
          · refine ⟨[], e0 :: P', (q0 :: Q') :: Ps, rfl, ?_, ?_⟩
            · simp only [sel, selFrom, List.headD_cons]
              simp only [hk, ↓reduceIte]
              simp [nodesBytes]
            · simp only [sel]
              exact selFrom_append_gt k q0 _ (by omega) P' e0

/-! ### a node answers with the selected child -/

theorem selFrom_idx (k : Nat) : ∀ (P' : List Entry) (e0 : Entry) (idx : Nat), idx ≤ P'.length →
    (∀ i e, i < idx → P'[i]? = some e → e.1 ≤ k) →
    (∀ i e, idx ≤ i → P'[i]? = some e → k < e.1) →
    (e0 :: P')[idx]? = some (selFrom e0 P' k) := by
  intro P'
  induction P' with
  | nil => intro e0 idx h _ _; simp at h; subst h; rfl
  | cons e P' ih =>
    intro e0 idx hidx hlo hhi
    cases idx with
    | zero =>
      have := hhi 0 e (Nat.le_refl _) rfl
      simp only [selFrom]
      rw [if_neg (by omega)]
      rfl
    | succ idx =>
      have := hlo 0 e (by omega) rfl
      simp only [selFrom]
      rw [if_pos this, List.getElem?_cons_succ]
      apply ih e idx (by simpa using hidx)
      · intro i e' hi he'; exact hlo (i + 1) e' (by omega) (by simpa using he')
      · intro i e' hi he'; exact hhi (i + 1) e' (by omega) (by simpa using he')

/-- `descent step`: `key_offset_serialized` on the node written for portion `P` returns the (shifted)
    offset of the child selected for `k`: the index is the number of separator keys `≤ k` -/
theorem mkNode_keyOffset (base k : Nat) (P : List Entry) (hlen : 2 ≤ P.length)
    (hp : P.Pairwise (fun a b => a.1 < b.1)) :
    (mkNode base P).keyOffset k = some ((sel P k).2 + base) := by
  match P, hlen with
  | e0 :: P', hlen =>
    have hP' : 1 ≤ P'.length := by simpa using hlen
    have hp' := (List.pairwise_cons.1 hp).2
    let keys : List Nat := P'.map Prod.fst
    have hkeys : (mkNode base (e0 :: P')).keys = keys := rfl
    have hoffs : (mkNode base (e0 :: P')).offsets = (e0 :: P').map (fun e => e.2 + base) := rfl
    have hkl : keys.length = P'.length := by simp [keys]
    have hget : ∀ i : Nat, keys[i]? = P'[i]?.map Prod.fst := by intro i; simp [keys]
    obtain ⟨res, hres, hspec⟩ := binSearch_spec (fun i => keys[i]?) (fun i => (keys[i]?).getD 0)
      keys.length k
      (by intro i hi; simp [List.getElem?_eq_getElem hi])
      (by
        intro i j hij hj
        have hi : i < keys.length := by omega
        simp only [List.getElem?_eq_getElem hi, List.getElem?_eq_getElem hj, Option.getD_some]
        rcases Nat.lt_or_eq_of_le hij with h | h
        · have hpk : keys.Pairwise (· < ·) := by
            simp only [keys]; exact List.pairwise_map.2 hp'
          exact Nat.le_of_lt ((List.pairwise_iff_getElem.1 hpk) i j hi hj h)
        · subst h; exact Nat.le_refl _)
    unfold Node.keyOffset
    rw [hkeys, if_neg (by omega), hres, hoffs]
    -- the index chosen
    have key_of : ∀ (i : Nat) (e : Entry), P'[i]? = some e → (keys[i]?).getD 0 = e.1 := by
      intro i e he; simp [hget, he]
    have lt_of : ∀ (i : Nat) (e : Entry), P'[i]? = some e → i < keys.length := by
      intro i e he
      rw [hkl]
      exact (List.getElem?_eq_some_iff.1 he).1
    cases res with
    | found pos =>
      obtain ⟨hpos, hk⟩ := hspec
      have hk : (keys[pos]?).getD 0 = k := hk
      simp only
      have hsel := selFrom_idx k P' e0 (pos + 1) (by omega)
        (by
          intro i e hi he
          have hi' : i < keys.length := lt_of i e he
          have hkpos : (keys[i]?).getD 0 ≤ (keys[pos]?).getD 0 := by
            simp only [List.getElem?_eq_getElem hi', List.getElem?_eq_getElem hpos, Option.getD_some]
            rcases Nat.lt_or_eq_of_le (Nat.le_of_lt_succ hi) with h | h
            · have hpk : keys.Pairwise (· < ·) := by
                simp only [keys]; exact List.pairwise_map.2 hp'
              exact Nat.le_of_lt ((List.pairwise_iff_getElem.1 hpk) i pos hi' hpos h)
            · subst h; exact Nat.le_refl _
          rw [key_of i e he] at hkpos
          omega)
        (by
          intro i e hi he
          have hi' : i < keys.length := lt_of i e he
          have hpk : keys.Pairwise (· < ·) := by
            simp only [keys]; exact List.pairwise_map.2 hp'
          have := (List.pairwise_iff_getElem.1 hpk) pos i hpos hi' (by omega)
          have e1 := key_of i e he
          simp only [List.getElem?_eq_getElem hi', List.getElem?_eq_getElem hpos, Option.getD_some] at e1 hk
          omega)
      rw [List.getElem?_map, hsel]
      rfl
    | notFound l =>
      obtain ⟨hl, hlo, hhi⟩ := hspec
      simp only
      have hsel := selFrom_idx k P' e0 l (by omega)
        (by
          intro i e hi he
          have := hlo i hi
          simp only at this
          rw [key_of i e he] at this
          omega)
        (by
          intro i e hi he
          have := hhi i hi (lt_of i e he)
          simp only at this
          rw [key_of i e he] at this
          exact this)
      rw [List.getElem?_map, hsel]
      rfl

/-! ### locating a node in the node region -/

theorem nodeAtRel_append (p : Params) (n : Node) (R : List Node) : ∀ (A : List Node),
    IndexFile.nodeAtRel p (A ++ n :: R) (nodesBytes p A) = some n := by
  intro A
  induction A with
  | nil => simp [IndexFile.nodeAtRel, nodesBytes]
  | cons a A ih =>
    have hpos : 0 < a.size p := nodeSize_pos p _
    simp only [List.cons_append, IndexFile.nodeAtRel, nodesBytes_cons]
    rw [if_neg (by omega), if_neg (by omega), Nat.add_sub_cancel_left]
    exact ih

end Pearl.BPTree

namespace Pearl.BPTree

theorem buildTree_small (p : Params) (fuel : Nat) (es : List Entry) (to : Nat) (h : es.length ≤ 1) :
    buildTree p fuel es to = [] := by
  cases fuel with
  | zero => rfl
  | succ fuel => simp only [buildTree]; rw [if_pos h]

theorem buildTree_succ (p : Params) (fuel : Nat) (es : List Entry) (to : Nat) (h : 2 ≤ es.length) :
    buildTree p (fuel + 1) es to
      = buildTree p fuel (collectNext p (portions (minAmount p) (maxAmount p) es) 0).1 to
        ++ (portions (minAmount p) (maxAmount p) es).map (mkNode (to
            + (collectNext p (portions (minAmount p) (maxAmount p) es) 0).2
            + nodesBytes p
                (buildTree p fuel (collectNext p (portions (minAmount p) (maxAmount p) es) 0).1 to))) := by
  simp only [buildTree]
  rw [if_neg (by omega)]

/-- `single_leaf_no_tree`: one leaf, no inner node -/
theorem buildTree_single (p : Params) (fuel : Nat) (e : Entry) (to : Nat) :
    buildTree p fuel [e] to = [] := buildTree_small p fuel [e] to (by simp)

variable {H : Type} [Keyed H]

theorem findLeafNodeAux_step (f : IndexFile H) (k g off : Nat) (n : Node) (off' : Nat)
    (h1 : off < f.leavesOffset) (h2 : f.readNode off = some n) (h3 : n.keyOffset k = some off') :
    f.findLeafNodeAux k (g + 1) off = f.findLeafNodeAux k g off' := by
  simp only [IndexFile.findLeafNodeAux, h1, if_true, h2, h3]

/-- `layer_offsets_absolute` + `descent_finds_leaf`, by induction over `build_tree`: from the root, after
    as many steps as there are layers, `find_leaf_node` is at `children base + offset of the selected child` -/
theorem descent_aux (f : IndexFile H) (hv : f.p.Valid) (k : Nat)
    (hts : f.treeStart = f.treeOffset)
    (hfit : 2 ≤ f.nodes.length → f.leavesOffset + f.p.B ≤ f.fileSize) :
    ∀ (fuel : Nat) (E : List Entry) (rest : List Node),
      E ≠ [] → E.length ≤ fuel → E.Pairwise (fun a b => a.1 < b.1) → (∀ e, E.head? = some e → e.2 = 0) →
      f.nodes = buildTree f.p fuel E f.treeOffset ++ rest →
      f.treeOffset + nodesBytes f.p (buildTree f.p fuel E f.treeOffset) ≤ f.leavesOffset →
      ∃ d, d ≤ (buildTree f.p fuel E f.treeOffset).length ∧ ∀ g,
        f.findLeafNodeAux k (d + g) f.treeOffset
          = f.findLeafNodeAux k g
              (f.treeOffset + nodesBytes f.p (buildTree f.p fuel E f.treeOffset) + (sel E k).2) := by
  intro fuel
  induction fuel with
  | zero =>
    intro E rest hE hlen
    cases E with
    | nil => exact absurd rfl hE
    | cons _ _ => simp at hlen
  | succ fuel ih =>
    intro E rest hE hlen hpw hhead hnodes hle
    by_cases hsmall : E.length ≤ 1
    · -- a single entry: nothing is written for it
      rw [buildTree_small _ _ _ _ hsmall]
      refine ⟨0, Nat.le_refl _, ?_⟩
      intro g
      match E, hE, hsmall with
      | [e], _, _ =>
        have := hhead e rfl
        simp [sel, selFrom, this, nodesBytes]
    · have h2 : 2 ≤ E.length := by omega
      have hbt := buildTree_succ f.p fuel E f.treeOffset h2
      rw [hbt] at hnodes hle ⊢
      have hflat := portions_flatten (minAmount f.p) (maxAmount f.p) E
      have hsz := portions_sizes f.p hv.fan E h2
      generalize portions (minAmount f.p) (maxAmount f.p) E = Ps at hflat hsz hnodes hle ⊢
      have hne : ∀ P ∈ Ps, P ≠ [] := by
        intro P hP h; have := (hsz P hP).1; rw [h] at this; simp at this
      have hPs : Ps ≠ [] := by
        intro h; rw [h] at hflat; simp at hflat; exact hE hflat
      have hpwf : Ps.flatten.Pairwise (fun a b => a.1 < b.1) := by rw [hflat]; exact hpw
      have hcnt : 2 * Ps.length ≤ E.length := by
        rw [← hflat]; exact flatten_length_ge Ps (fun P hP => (hsz P hP).1)
      have hE'len := collectNext_length f.p Ps 0
      have hE'pw := collectNext_pairwise f.p Ps 0 hne hpwf
      have hE'ne : (collectNext f.p Ps 0).1 ≠ [] := by
        intro h; rw [h] at hE'len; simp at hE'len
        exact hPs (List.eq_nil_of_length_eq_zero hE'len.symm)
      have hE'head : ∀ e, (collectNext f.p Ps 0).1.head? = some e → e.2 = 0 := by
        intro e he
        cases Ps with
        | nil => exact absurd rfl hPs
        | cons P Ps => rw [collectNext_head] at he; simp at he; rw [← he]
      generalize hup : buildTree f.p fuel (collectNext f.p Ps 0).1 f.treeOffset = up at hnodes hle ⊢
      -- the shift used for this layer is the absolute start of its children
      generalize hbase : f.treeOffset + (collectNext f.p Ps 0).2 + nodesBytes f.p up = base at hnodes hle ⊢
      have hsize := collectNext_size f.p base Ps 0
      rw [Nat.zero_add] at hsize
      have hbytes : nodesBytes f.p (up ++ Ps.map (mkNode base)) = nodesBytes f.p up + (collectNext f.p Ps 0).2 := by
        rw [nodesBytes_append, hsize]
      have hbase' : base = f.treeOffset + nodesBytes f.p (up ++ Ps.map (mkNode base)) := by
        rw [hbytes, ← hbase]; omega
      obtain ⟨d', hd', hdesc⟩ := ih (collectNext f.p Ps 0).1 (Ps.map (mkNode base) ++ rest) hE'ne
        (by omega) hE'pw hE'head (by rw [hup, hnodes, List.append_assoc])
        (by rw [hup]; rw [hbytes] at hle; omega)
      rw [hup] at hdesc hd'
      obtain ⟨A, P, R, hdec, hsel, hselP⟩ := sel_portions f.p base k Ps 0 hne hPs hpwf
      rw [Nat.zero_add] at hsel
      refine ⟨d' + 1, by simp only [List.length_append, List.length_map]; have : 0 < Ps.length := List.length_pos_iff.2 hPs; omega, ?_⟩
      intro g
      have e1 : d' + 1 + g = d' + (g + 1) := by omega
      rw [e1, hdesc (g + 1), hsel]
      simp only
      -- one step through the node written for `P`
      have hP := hsz P (by rw [hdec]; simp)
      have hPpw : P.Pairwise (fun a b => a.1 < b.1) := by
        have := (List.pairwise_flatten.1 hpwf).1 P (by rw [hdec]; simp)
        exact this
      have hlayer : Ps.map (mkNode base) = A.map (mkNode base) ++ mkNode base P :: R.map (mkNode base) := by
        rw [hdec]; simp
      have hnodes' : f.nodes = (up ++ A.map (mkNode base)) ++ mkNode base P :: (R.map (mkNode base) ++ rest) := by
        rw [hnodes, hlayer]; simp
      have hnpos : 0 < (mkNode base P).size f.p := nodeSize_pos _ _
      have hoff_lt : f.treeOffset + nodesBytes f.p up + nodesBytes f.p (A.map (mkNode base)) < f.leavesOffset := by
        rw [hlayer, nodesBytes_append, nodesBytes_append, nodesBytes_cons] at hle
        omega
      have hread : f.readNode (f.treeOffset + nodesBytes f.p up + nodesBytes f.p (A.map (mkNode base)))
          = some (mkNode base P) := by
        unfold IndexFile.readNode
        rw [if_neg (by omega)]
        have hsecond : ¬ (f.treeOffset + nodesBytes f.p up + nodesBytes f.p (A.map (mkNode base)) ≠ f.treeOffset
            ∧ f.fileSize < f.treeOffset + nodesBytes f.p up + nodesBytes f.p (A.map (mkNode base)) + f.p.B) := by
          intro ⟨hneq, hlt⟩
          have h2n : 2 ≤ f.nodes.length := by
            rw [hnodes']
            simp only [List.length_append, List.length_cons, List.length_map]
            have : up.length + A.length ≠ 0 := by
              intro h0
              have hu : up = [] := List.eq_nil_of_length_eq_zero (by omega)
              have ha : A = [] := List.eq_nil_of_length_eq_zero (by omega)
              apply hneq
              rw [hu, ha]; simp [nodesBytes]
            omega
          have := hfit h2n
          omega
        rw [if_neg hsecond, hts]
        have : f.treeOffset + nodesBytes f.p up + nodesBytes f.p (A.map (mkNode base)) - f.treeOffset
            = nodesBytes f.p (up ++ A.map (mkNode base)) := by
          rw [nodesBytes_append]; omega
        rw [this, hnodes', nodeAtRel_append]
        simp only
        rw [if_pos (by rw [mkNode_size]; exact nodeSize_le_B f.p hv.fan _ (by omega) hP.2)]
      rw [findLeafNodeAux_step f k g _ _ _ hoff_lt hread (mkNode_keyOffset base k P hP.1 hPpw)]
      rw [← hselP, hflat]
      have efin : (sel E k).2 + base
          = f.treeOffset + nodesBytes f.p (up ++ Ps.map (mkNode base)) + (sel E k).2 := by omega
      rw [efin]

end Pearl.BPTree
