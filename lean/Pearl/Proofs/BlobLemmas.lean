import Pearl.Proofs.RecordLemmas
/-
Whole-blob lemmas: what `appendRecords` produces, and that the read path and the scan invert it.
-/
namespace Pearl

/-- a record as `Record::create` / `Record::deleted` build it, for `klen`-byte keys -/
structure Record.WF (klen : Nat) (R : Record) : Prop where
  magic : R.header.magicByte = RECORD_MAGIC_BYTE
  key : R.header.key.length = klen
  msize : R.header.metaSize = (serMeta R.mt).length
  dsize : R.header.dataSize = R.data.length
  dcrc : R.header.dataChecksum = crc32c R.data

theorem Record.create_WF (klen key ts : Nat) (m : Meta) (d : List UInt8) :
    (Record.create klen key ts m d).WF klen := by
  constructor <;> simp [Record.create, RecHeader.new]

theorem Record.deleted_WF (klen key ts : Nat) (m : Meta) : (Record.deleted klen key ts m).WF klen := by
  constructor <;> simp [Record.deleted, Record.create, RecHeader.new, markDeleted, RecHeader.updateChecksum]

theorem recordOf_WF (klen : Nat) (r : Rec) (d : List UInt8) : (recordOf klen r d).WF klen := by
  unfold recordOf
  split
  · exact Record.deleted_WF ..
  · exact Record.create_WF ..

theorem recordOf_mt (klen : Nat) (r : Rec) (d : List UInt8) : (recordOf klen r d).mt = r.mt := by
  unfold recordOf; split <;> rfl

theorem recordOf_data (klen : Nat) (r : Rec) (d : List UInt8) :
    (recordOf klen r d).data = if r.del then [] else d := by
  unfold recordOf; split <;> rfl

theorem recordOf_timestamp (klen : Nat) (r : Rec) (d : List UInt8) :
    (recordOf klen r d).header.timestamp = r.ts := by
  unfold recordOf; split <;> rfl

/-- the bytes a record occupies in the file when written at `off` -/
def Record.image (R : Record) (off : Nat) : List UInt8 :=
  serHeader (R.header.final off) ++ (serMeta R.mt ++ R.data)

theorem Record.image_length (R : Record) (off : Nat) :
    (R.image off).length = 57 + R.header.key.length + (serMeta R.mt).length + R.data.length := by
  simp [Record.image, RecHeader.final, finalWith_key]; omega

theorem recordBytes_eq_image (R : Record) (off maxSP : Nat) : recordBytes R off maxSP = R.image off := by
  unfold recordBytes writableOf Record.image RecHeader.final
  rw [(writableWith_toPartial crc32c R off maxSP).1, List.append_assoc]

theorem appendRecord_eq (file : List UInt8) (R : Record) (maxSP : Nat) :
    appendRecord file R maxSP = file ++ R.image file.length := by
  unfold appendRecord
  rw [writeData_end]
  exact congrArg (file ++ ·) (recordBytes_eq_image R file.length maxSP)

theorem writtenHeader_eq (R : Record) (off maxSP : Nat) : writtenHeader R off maxSP = R.header.final off := by
  unfold writtenHeader writableOf
  rw [(writableWith_toPartial crc32c R off maxSP).2]
  rfl

theorem headerValidate_final (h : RecHeader) (off : Nat) (hm : h.magicByte = RECORD_MAGIC_BYTE) :
    headerValidate (h.final off) = .ok () := by
  rw [headerValidate_ok]
  exact ⟨hm, rfl⟩

theorem final_inRange {klen : Nat} {R : Record} (hwf : R.WF klen) (off : Nat)
    (hts : R.header.timestamp < 2 ^ 64) (hlen : off + (R.image off).length < 2 ^ 64) :
    (R.header.final off).InRange := by
  rw [Record.image_length] at hlen
  have h1 := hwf.msize
  have h2 := hwf.dsize
  refine ⟨?_, ?_, ?_, ?_, ?_, ?_⟩
  · show R.header.magicByte < 2 ^ 64
    rw [hwf.magic]; decide
  · show R.header.key.length < 2 ^ 64
    omega
  · show R.header.metaSize < 2 ^ 64
    omega
  · show R.header.dataSize < 2 ^ 64
    omega
  · show off < 2 ^ 64
    omega
  · exact hts

/-! ### metadata round trip -/

theorem serString_m : serString "m" = serVec [0x6d] := by decide

theorem fromUTF8_m : String.fromUTF8? ⟨[(0x6d : UInt8)].toArray⟩ = some "m" := by decide

theorem deserMeta_serMeta (m : Meta) (hm : (serMeta m).length < 2 ^ 64) (rest : List UInt8) :
    deserMeta (serMeta m ++ rest) = some (metaEntries m) := by
  cases m with
  | none =>
    unfold deserMeta serMeta
    rw [takeN_append (le64_length _)]
    simp only [fromLe_le64 (show 0 < 2 ^ 64 by decide)]
    rfl
  | some v =>
    have hv : (metaVal v).length < 2 ^ 64 := by
      simp [serMeta, serString_m] at hm; omega
    unfold deserMeta serMeta
    rw [List.append_assoc, takeN_append (le64_length _)]
    simp only [fromLe_le64 (show 1 < 2 ^ 64 by decide)]
    unfold deserEntries deserString
    rw [serString_m, List.append_assoc, deserVec_serVec _ _ (by decide)]
    simp only [fromUTF8_m]
    rw [deserVec_serVec _ _ hv]
    simp [deserEntries, metaEntries]

/-! ### reading one record image back -/

theorem entryLoad_image {klen : Nat} (pre post : List UInt8) (R : Record) (hwf : R.WF klen) (off : Nat)
    (hoff : pre.length = off) (hm : (serMeta R.mt).length < 2 ^ 64) :
    entryLoad (pre ++ (R.image off ++ post)) (R.header.final off) = .ok (serMeta R.mt, R.data) := by
  have hmo : (R.header.final off).metaOffset = (pre ++ serHeader (R.header.final off)).length := by
    simp [RecHeader.metaOffset, RecHeader.serializedSize, RecHeader.final, RecHeader.finalWith, hoff]
  have hfile : pre ++ (R.image off ++ post) =
      (pre ++ serHeader (R.header.final off)) ++ ((serMeta R.mt ++ R.data) ++ post) := by
    simp [Record.image, List.append_assoc]
  have hms : (R.header.final off).metaSize = (serMeta R.mt).length := hwf.msize
  have hds : (R.header.final off).dataSize = R.data.length := hwf.dsize
  unfold entryLoad
  rw [hfile, readExactAt_append hmo.symm (by rw [hms, hds, List.length_append]; omega)]
  simp only [hms, List.take_left' rfl, List.drop_left' rfl]
  have := deserMeta_serMeta R.mt hm []
  rw [List.append_nil] at this
  rw [this]
  simp only [headerValidate_final _ _ hwf.magic]
  have : dataChecksumAudit (R.header.final off) R.data = .ok () := by
    rw [dataChecksumAudit_ok]; exact hwf.dcrc.symm
  rw [this]

theorem readCurrentRecord_image {klen : Nat} (v : Bool) (pre post : List UInt8) (R : Record)
    (hwf : R.WF klen) (off : Nat) (hoff : pre.length = off) (hr : (R.header.final off).InRange) :
    readCurrentRecord v (pre ++ (R.image off ++ post)) (57 + klen) off =
      .ok (R.header.final off, if v then some R.data else none, off + (R.image off).length) := by
  have hk : (R.header.final off).key.length = klen := hwf.key
  have hms : (R.header.final off).metaSize = (serMeta R.mt).length := hwf.msize
  have hds : (R.header.final off).dataSize = R.data.length := hwf.dsize
  have hfile1 : pre ++ (R.image off ++ post) =
      pre ++ (serHeader (R.header.final off) ++ ((serMeta R.mt ++ R.data) ++ post)) := by
    simp [Record.image, List.append_assoc]
  have hfile2 : pre ++ (R.image off ++ post) =
      (pre ++ (serHeader (R.header.final off) ++ serMeta R.mt)) ++ (R.data ++ post) := by
    simp [Record.image, List.append_assoc]
  have hoff2 : (pre ++ (serHeader (R.header.final off) ++ serMeta R.mt)).length =
      off + (57 + klen) + (R.header.final off).metaSize := by
    simp [hk, hms, hoff]; omega
  have hnext : off + (57 + klen) + (R.header.final off).metaSize + (R.header.final off).dataSize =
      off + (R.image off).length := by
    rw [Record.image_length, hms, hds, hwf.key]; omega
  unfold readCurrentRecord
  rw [hfile1, readExactAt_append hoff (by rw [serHeader_length, hk])]
  have hd := deserHeader_serHeader (R.header.final off) [] hr
  rw [List.append_nil] at hd
  simp only [hd, headerValidate_final _ _ hwf.magic]
  cases v with
  | false => simp only [Bool.false_eq_true, ↓reduceIte, hnext]
  | true =>
    simp only [↓reduceIte]
    rw [← hfile1, hfile2, readExactAt_append hoff2 hds.symm]
    simp only [hnext]

/-! ### the whole file -/

/-- the bytes `appendRecords` adds after a file of length `off` -/
def tailOf : Nat → List Record → List UInt8
  | _, [] => []
  | off, R :: Rs => R.image off ++ tailOf (off + (R.image off).length) Rs

/-- the scan result expected for `tailOf` -/
def scanOf : Nat → List Record → List (Nat × RecHeader)
  | _, [] => []
  | off, R :: Rs => (off, R.header.final off) :: scanOf (off + (R.image off).length) Rs

theorem appendRecords_eq (p : List UInt8) (Rs : List Record) :
    appendRecords p Rs = p ++ tailOf p.length Rs := by
  induction Rs generalizing p with
  | nil => simp [appendRecords, tailOf]
  | cons R Rs ih =>
    simp only [appendRecords, tailOf]
    rw [appendRecord_eq, ih, List.length_append, List.append_assoc]

theorem writtenHeaders_eq (p : List UInt8) (Rs : List Record) :
    writtenHeaders p Rs = (scanOf p.length Rs).map (·.2) := by
  induction Rs generalizing p with
  | nil => rfl
  | cons R Rs ih =>
    simp only [writtenHeaders, scanOf, List.map_cons]
    rw [writtenHeader_eq, appendRecord_eq, ih, List.length_append]

theorem scanOf_offsets (off : Nat) (Rs : List Record) : ∀ x ∈ scanOf off Rs, x.2.blobOffset = x.1 := by
  induction Rs generalizing off with
  | nil => simp [scanOf]
  | cons R Rs ih =>
    intro x hx
    simp only [scanOf, List.mem_cons] at hx
    rcases hx with rfl | hx
    · rfl
    · exact ih _ x hx

theorem tailOf_length_ge (off : Nat) (Rs : List Record) : 57 * Rs.length ≤ (tailOf off Rs).length := by
  induction Rs generalizing off with
  | nil => simp [tailOf]
  | cons R Rs ih =>
    simp only [tailOf, List.length_append, List.length_cons]
    have := ih (off + (R.image off).length)
    have := R.image_length off
    omega

theorem tailOf_append (off : Nat) (Rs1 Rs2 : List Record) :
    tailOf off (Rs1 ++ Rs2) = tailOf off Rs1 ++ tailOf (off + (tailOf off Rs1).length) Rs2 := by
  induction Rs1 generalizing off with
  | nil => simp [tailOf]
  | cons R Rs ih =>
    simp only [List.cons_append, tailOf, ih, List.append_assoc, List.length_append]
    rw [Nat.add_assoc]

theorem scanOf_append (off : Nat) (Rs1 Rs2 : List Record) :
    scanOf off (Rs1 ++ Rs2) = scanOf off Rs1 ++ scanOf (off + (tailOf off Rs1).length) Rs2 := by
  induction Rs1 generalizing off with
  | nil => simp [scanOf, tailOf]
  | cons R Rs ih =>
    simp only [List.cons_append, scanOf, tailOf, ih, List.length_append]
    rw [Nat.add_assoc]

theorem scanOf_length (off : Nat) (Rs : List Record) : (scanOf off Rs).length = Rs.length := by
  induction Rs generalizing off with
  | nil => rfl
  | cons R Rs ih => simp [scanOf, ih]

/-- the scan loop reads back exactly what was appended -/
theorem rawLoop_tailOf (v : Bool) (klen : Nat) (file : List UInt8) (Rs : List Record) :
    ∀ (pre : List UInt8) (fuel : Nat), file = pre ++ tailOf pre.length Rs → Rs.length ≤ fuel →
      file.length < 2 ^ 64 → (∀ R ∈ Rs, R.WF klen ∧ R.header.timestamp < 2 ^ 64) →
      rawLoop v file (57 + klen) fuel pre.length = .ok (scanOf pre.length Rs) := by
  induction Rs with
  | nil =>
    intro pre fuel hf _ _ _
    have : ¬ pre.length < file.length := by rw [hf]; simp [tailOf]
    cases fuel <;> simp [rawLoop, this, scanOf]
  | cons R Rs ih =>
    intro pre fuel hf hfuel hlen hall
    obtain ⟨fuel, rfl⟩ : ∃ f, fuel = f + 1 := ⟨fuel - 1, by simp at hfuel; omega⟩
    have ⟨hwf, hts⟩ := hall R (by simp)
    simp only [tailOf] at hf
    have hlt : pre.length < file.length := by
      rw [hf]; simp only [List.length_append]; have := R.image_length pre.length; omega
    have hr : (R.header.final pre.length).InRange := by
      apply final_inRange hwf _ hts
      have : pre.length + (R.image pre.length).length ≤ file.length := by
        rw [hf]; simp only [List.length_append]; omega
      omega
    have hstep := readCurrentRecord_image v pre (tailOf (pre.length + (R.image pre.length).length) Rs) R
      hwf pre.length rfl hr
    rw [← hf] at hstep
    have hrest := ih (pre ++ R.image pre.length) fuel
      (by rw [hf, List.length_append, List.append_assoc]) (by simp at hfuel; omega) hlen
      (fun R' hR' => hall R' (by simp [hR']))
    rw [List.length_append] at hrest
    unfold rawLoop
    rw [if_pos hlt, hstep]
    have haud : dataChecksumAudit (R.header.final pre.length) R.data = .ok () := by
      rw [dataChecksumAudit_ok]; exact hwf.dcrc.symm
    cases v
    · simp [hrest, scanOf]
    · simp [haud, hrest, scanOf]

theorem loadData_image {klen : Nat} (pre post : List UInt8) (R : Record) (hwf : R.WF klen) (off : Nat)
    (hoff : pre.length = off) :
    loadData (pre ++ (R.image off ++ post)) (R.header.final off) = .ok R.data := by
  have hms : (R.header.final off).metaSize = (serMeta R.mt).length := hwf.msize
  have hds : (R.header.final off).dataSize = R.data.length := hwf.dsize
  have hdo : (R.header.final off).dataOffset =
      (pre ++ (serHeader (R.header.final off) ++ serMeta R.mt)).length := by
    simp [RecHeader.dataOffset, RecHeader.metaOffset, RecHeader.serializedSize, RecHeader.final,
      RecHeader.finalWith, hoff, hwf.msize]
    omega
  have hfile : pre ++ (R.image off ++ post) =
      (pre ++ (serHeader (R.header.final off) ++ serMeta R.mt)) ++ (R.data ++ post) := by
    simp [Record.image, List.append_assoc]
  have haud : dataChecksumAudit (R.header.final off) R.data = .ok () := by
    rw [dataChecksumAudit_ok]; exact hwf.dcrc.symm
  unfold loadData
  rw [hfile, readExactAt_append hdo.symm hds.symm]
  simp only [haud]

theorem rawStart_image {klen : Nat} (R : Record) (hwf : R.WF klen) (hk : klen < 2 ^ 64) (post : List UInt8) :
    rawStart klen (serBlobHeader ++ (R.image blobHeaderSize ++ post)) = .ok (57 + klen) := by
  have hfile : serBlobHeader ++ (R.image blobHeaderSize ++ post) =
      serBlobHeader ++ ((le64 R.header.magicByte ++ le64 R.header.key.length) ++
        (R.header.key ++ (le64 R.header.metaSize ++ le64 R.header.dataSize ++ [R.header.flags]) ++
          (le64 blobHeaderSize ++ (le64 R.header.timestamp ++ le32 R.header.dataChecksum.toNat ++
            le32 (R.header.final blobHeaderSize).headerChecksum.toNat)) ++ (serMeta R.mt ++ R.data) ++ post)) := by
    simp [Record.image, serHeader, serHeaderPre, serVec, RecHeader.final, RecHeader.finalWith,
      List.append_assoc]
  unfold rawStart
  rw [hfile, readExactAt_append (by simp [serBlobHeader, blobHeaderSize]) (by simp)]
  simp only [List.take_left' (le64_length _), List.drop_left' (le64_length _)]
  rw [hwf.magic, hwf.key, fromLe_le64 hk, fromLe_le64 (by decide)]
  simp

/-- scan of a whole blob -/
theorem rawRecordsScan_appendRecords (v : Bool) (klen : Nat) (Rs : List Record) (hne : Rs ≠ [])
    (hlen : (appendRecords serBlobHeader Rs).length < 2 ^ 64)
    (hall : ∀ R ∈ Rs, R.WF klen ∧ R.header.timestamp < 2 ^ 64) :
    rawRecordsScan klen v (appendRecords serBlobHeader Rs) = .ok (scanOf blobHeaderSize Rs) := by
  have hbl : (serBlobHeader).length = blobHeaderSize := by simp [serBlobHeader, blobHeaderSize]
  have hfile := appendRecords_eq serBlobHeader Rs
  rw [hbl] at hfile
  obtain ⟨R, Rs', rfl⟩ : ∃ R Rs', Rs = R :: Rs' := by
    cases Rs with
    | nil => exact absurd rfl hne
    | cons R Rs' => exact ⟨R, Rs', rfl⟩
  have hwf := (hall R (by simp)).1
  have hk : klen < 2 ^ 64 := by
    have h1 : (R.image blobHeaderSize).length ≤ (appendRecords serBlobHeader (R :: Rs')).length := by
      rw [hfile]; simp only [tailOf, List.length_append]; omega
    have h2 := R.image_length blobHeaderSize
    rw [hwf.key] at h2
    omega
  unfold rawRecordsScan
  have hst : rawStart klen (appendRecords serBlobHeader (R :: Rs')) = .ok (57 + klen) := by
    rw [hfile]; simp only [tailOf]; exact rawStart_image R hwf hk _
  rw [hst]
  simp only
  have := rawLoop_tailOf v klen (appendRecords serBlobHeader (R :: Rs')) (R :: Rs') serBlobHeader
    (appendRecords serBlobHeader (R :: Rs')).length (by rw [hbl]; exact hfile)
    (by
      rw [hfile, List.length_append]
      have := tailOf_length_ge blobHeaderSize (R :: Rs')
      omega) hlen hall
  rw [hbl] at this
  exact this

theorem rawRecordsLoad_appendRecords (v : Bool) (klen : Nat) (Rs : List Record) (hne : Rs ≠ [])
    (hlen : (appendRecords serBlobHeader Rs).length < 2 ^ 64)
    (hall : ∀ R ∈ Rs, R.WF klen ∧ R.header.timestamp < 2 ^ 64) :
    rawRecordsLoad klen v (appendRecords serBlobHeader Rs) = .ok (writtenHeaders serBlobHeader Rs) := by
  unfold rawRecordsLoad
  rw [rawRecordsScan_appendRecords v klen Rs hne hlen hall, writtenHeaders_eq]
  simp [serBlobHeader, blobHeaderSize]

/-- decomposition of the file around the `i`-th record -/
theorem entry_split {klen : Nat} (p : List UInt8) (Rs : List Record) (i : Nat) (h : RecHeader) (R : Record)
    (hall : ∀ R ∈ Rs, R.WF klen)
    (hh : (writtenHeaders p Rs)[i]? = some h) (hR : Rs[i]? = some R) :
    ∃ post, appendRecords p Rs = appendRecords p (Rs.take i) ++
        (R.image (appendRecords p (Rs.take i)).length ++ post) ∧
      h = R.header.final (appendRecords p (Rs.take i)).length ∧ R.WF klen := by
  obtain ⟨hi, rfl⟩ := List.getElem?_eq_some_iff.mp hR
  rw [appendRecords_eq p (Rs.take i)]
  have hsplit : Rs = Rs.take i ++ Rs[i] :: Rs.drop (i + 1) := by
    rw [← List.drop_eq_getElem_cons hi, List.take_append_drop]
  have hwf : (Rs[i]).WF klen := hall _ (List.getElem_mem hi)
  refine ⟨
    tailOf (p.length + (tailOf p.length (Rs.take i)).length +
      (Rs[i].image (p.length + (tailOf p.length (Rs.take i)).length)).length) (Rs.drop (i + 1)), ?_, ?_, hwf⟩
  · rw [appendRecords_eq]
    conv => lhs; rw [hsplit]
    rw [tailOf_append, List.length_append, List.append_assoc]
    rfl
  · rw [writtenHeaders_eq] at hh
    have hs : scanOf p.length Rs = scanOf p.length (Rs.take i) ++
        scanOf (p.length + (tailOf p.length (Rs.take i)).length) (Rs[i] :: Rs.drop (i + 1)) := by
      conv => lhs; rw [hsplit]
      rw [scanOf_append]
    rw [hs, List.map_append, List.getElem?_append_right (by simp [scanOf_length]; omega)] at hh
    simp only [List.length_map, scanOf_length, List.length_take, Nat.min_eq_left (Nat.le_of_lt hi),
      Nat.sub_self, scanOf, List.map_cons, List.getElem?_cons_zero, Option.some.injEq] at hh
    rw [← hh, List.length_append]

theorem image_le_of_split {pre post : List UInt8} {R : Record} {file : List UInt8}
    (h : file = pre ++ (R.image pre.length ++ post)) : (serMeta R.mt).length ≤ file.length := by
  rw [h]; simp only [List.length_append, R.image_length]; omega

end Pearl
