import Pearl.Model.Bytes
/-
Helper lemmas for the bincode primitives, slicing and patching.
-/
namespace Pearl

@[simp] theorem leBytes_length (k n : Nat) : (leBytes k n).length = k := by
  induction k generalizing n with
  | zero => rfl
  | succ k ih => simp [leBytes, ih]

@[simp] theorem le64_length (n : Nat) : (le64 n).length = 8 := leBytes_length 8 n
@[simp] theorem le32_length (n : Nat) : (le32 n).length = 4 := leBytes_length 4 n

theorem fromLe_leBytes (k n : Nat) : fromLe (leBytes k n) = n % 256 ^ k := by
  induction k generalizing n with
  | zero => simp [leBytes, fromLe, Nat.mod_one]
  | succ k ih =>
    have h1 : (UInt8.ofNat n).toNat = n % 256 := by simp [UInt8.toNat_ofNat']
    simp only [leBytes, fromLe, ih]
    rw [h1, Nat.pow_succ, Nat.mul_comm (256 ^ k) 256, Nat.mod_mul]

theorem fromLe_le64 {n : Nat} (h : n < 2 ^ 64) : fromLe (le64 n) = n := by
  rw [le64, fromLe_leBytes]; exact Nat.mod_eq_of_lt (by omega)

theorem fromLe_le32 {n : Nat} (h : n < 2 ^ 32) : fromLe (le32 n) = n := by
  rw [le32, fromLe_leBytes]; exact Nat.mod_eq_of_lt (by omega)

theorem fromLe_lt (l : List UInt8) : fromLe l < 256 ^ l.length := by
  induction l with
  | nil => simp [fromLe]
  | cons b l ih =>
    simp only [fromLe, List.length_cons, Nat.pow_succ]
    have := b.toNat_lt
    omega

theorem ofNat_fromLe_le32 (c : UInt32) : UInt32.ofNat (fromLe (le32 c.toNat)) = c := by
  rw [fromLe_le32 c.toNat_lt]; exact UInt32.ofNat_toNat

theorem ofNat_fromLe_singleton (b : UInt8) : UInt8.ofNat (fromLe [b]) = b := by
  simp [fromLe]

@[simp] theorem serVec_length (v : List UInt8) : (serVec v).length = 8 + v.length := by
  simp [serVec]

@[simp] theorem keyBytes_length (klen k : Nat) : (keyBytes klen k).length = klen := by
  simp [keyBytes]

/-- overwriting the middle segment of `p ++ a ++ s` with a segment of the same length -/
theorem patchAt_append {p a a' s : List UInt8} {n : Nat} (hn : p.length = n) (ha : a'.length = a.length) :
    patchAt (p ++ (a ++ s)) n a' = p ++ (a' ++ s) := by
  subst hn
  unfold patchAt
  rw [List.take_left' rfl, ha, ← List.append_assoc p a s, List.drop_left' (by simp)]
  simp

theorem readExactAt_eq_some {file : List UInt8} {size off : Nat} {b : List UInt8}
    (h : readExactAt file size off = some b) :
    b = (file.drop off).take size ∧ b.length = size := by
  unfold readExactAt at h
  simp only at h
  split at h
  · next hl => cases h; exact ⟨rfl, hl⟩
  · cases h

theorem readExactAt_some_iff {file : List UInt8} {size off : Nat} {b : List UInt8} :
    readExactAt file size off = some b ↔ b = (file.drop off).take size ∧ b.length = size := by
  constructor
  · exact readExactAt_eq_some
  · rintro ⟨rfl, hl⟩
    unfold readExactAt
    simp only [hl, ↓reduceIte]

/-- reading exactly the middle segment -/
theorem readExactAt_append {p a s : List UInt8} {size off : Nat} (hp : p.length = off)
    (ha : a.length = size) : readExactAt (p ++ (a ++ s)) size off = some a := by
  rw [readExactAt_some_iff]
  rw [List.drop_left' hp, List.take_left' ha]
  exact ⟨rfl, ha⟩

theorem readExactAt_none_of_short {file : List UInt8} {size off : Nat} (h : file.length < off + size)
    (hs : 0 < size) : readExactAt file size off = none := by
  unfold readExactAt
  simp only [List.length_take, List.length_drop]
  rw [if_neg]; omega

theorem readExactAt_length_le {file : List UInt8} {size off : Nat} {b : List UInt8}
    (h : readExactAt file size off = some b) (hs : 0 < size) : off + size ≤ file.length := by
  have := readExactAt_eq_some h
  have h2 := this.2
  rw [this.1, List.length_take, List.length_drop] at h2
  omega

end Pearl
