import Pearl.Model.Cancel
import Pearl.Proofs.FaultLemmas
/-
Helper lemmas for C14 (cancellation safety): composition of cancellation points, the states a
cancelled write / delete can leave, and the invariant that ties the file of a blob to its record list.
-/
namespace Pearl.Cancel
open Pearl

/-! ### cancellation points compose -/

theorem runItems_append {σ : Type} (a b : List (Item σ)) (s : σ) :
    runItems (a ++ b) s = runItems b (runItems a s) := by
  simp [runItems, List.foldl_append]

theorem runItems_cons {σ : Type} (i : Item σ) (rest : List (Item σ)) (s : σ) :
    runItems (i :: rest) s = runItems rest (i.run s) := rfl

theorem cancelAfter_ge {σ : Type} (items : List (Item σ)) (k : Nat) (s : σ) (h : awaits items ≤ k) :
    cancelAfter k items s = runItems items s := by
  induction items generalizing k s with
  | nil => cases k <;> rfl
  | cons i rest ih =>
    cases i with
    | sync f =>
      have : cancelAfter k (.sync f :: rest) s = cancelAfter k rest (f s) := by
        cases k <;> rfl
      rw [this, runItems_cons]
      exact ih k (f s) h
    | await c =>
      cases k with
      | zero => simp [awaits] at h
      | succ k =>
        show cancelAfter k rest ((c.getD id) s) = _
        rw [runItems_cons]
        exact ih k _ (by simp only [awaits] at h; omega)

/-- a cancellation point of `a ++ b` is one of `a`, or one of `b` after `a` ran -/
theorem cancelAfter_append {σ : Type} (a b : List (Item σ)) (k : Nat) (s : σ) :
    cancelAfter k (a ++ b) s =
      if k < awaits a then cancelAfter k a s else cancelAfter (k - awaits a) b (runItems a s) := by
  induction a generalizing k s with
  | nil => simp [awaits, runItems]
  | cons i rest ih =>
    cases i with
    | sync f =>
      have h1 : ∀ l, cancelAfter k (.sync f :: l) s = cancelAfter k l (f s) := by
        intro l; cases k <;> rfl
      rw [List.cons_append, h1, h1, ih, runItems_cons]
      rfl
    | await c =>
      cases k with
      | zero => simp [awaits, cancelAfter]
      | succ k =>
        show cancelAfter k (rest ++ b) ((c.getD id) s) = _
        rw [ih, runItems_cons]
        simp only [awaits, Nat.add_lt_add_iff_right, Nat.add_sub_add_right]
        rfl

/-- the states a cancellation can leave -/
def CancelStates {σ : Type} (items : List (Item σ)) (s t : σ) : Prop := ∃ k, cancelAfter k items s = t

theorem cancelStates_append {σ : Type} (a b : List (Item σ)) (s t : σ)
    (h : CancelStates (a ++ b) s t) : CancelStates a s t ∨ CancelStates b (runItems a s) t := by
  obtain ⟨k, hk⟩ := h
  rw [cancelAfter_append] at hk
  split at hk
  · exact Or.inl ⟨k, hk⟩
  · exact Or.inr ⟨_, hk⟩

/-- awaits without a closure and without code in between leave the state alone -/
def Plain {σ : Type} (items : List (Item σ)) : Prop := ∀ i ∈ items, i = Item.await none

theorem plain_run {σ : Type} (items : List (Item σ)) (hp : Plain items) (s : σ) : runItems items s = s := by
  induction items with
  | nil => rfl
  | cons i rest ih =>
    rw [runItems_cons, hp i (List.mem_cons_self ..)]
    exact ih (fun j hj => hp j (List.mem_cons_of_mem _ hj))

theorem plain_cancel {σ : Type} (items : List (Item σ)) (hp : Plain items) (k : Nat) (s : σ) :
    cancelAfter k items s = s := by
  induction items generalizing k with
  | nil => cases k <;> rfl
  | cons i rest ih =>
    rw [hp i (List.mem_cons_self ..)]
    cases k with
    | zero => rfl
    | succ k => exact ih (fun j hj => hp j (List.mem_cons_of_mem _ hj)) k

/-! ### the states a cancelled operation can leave -/

/-- the 0-byte file of a cancelled creation -/
def sFile (s0 : CStore) : CStore := createFile s0.nextId (bumpId s0)
/-- the blob file with its header, not installed -/
def sHdr (s0 : CStore) : CStore := writeHdr (sFile s0)
/-- the new active blob installed -/
def sNew (s0 : CStore) : CStore := install (sHdr s0)

theorem openNew_run (c : Cfg) (s0 : CStore) : runItems (openNewItems c s0.nextId) s0 = sNew s0 := by
  cases hct : c.currentThread <;> simp [openNewItems, hct, runItems, Item.run, sNew, sHdr, sFile]

theorem openNew_cancelStates (c : Cfg) (s0 t : CStore)
    (h : CancelStates (openNewItems c s0.nextId) s0 t) : t = sFile s0 ∨ t = sHdr s0 ∨ t = sNew s0 := by
  obtain ⟨k, hk⟩ := h
  subst hk
  cases hct : c.currentThread
  · rcases k with _ | _ | k <;> simp [openNewItems, hct, cancelAfter, sFile, sHdr, sNew]
  · rcases k with _ | _ | _ | k <;> simp [openNewItems, hct, cancelAfter, sFile, sHdr, sNew]

theorem create_run (c : Cfg) (s0 : CStore) : runItems (createItems c s0.nextId) s0 = sNew s0 := by
  have hp : Plain ([.await none, .await none] : List (Item CStore)) := by
    intro i hi
    rcases List.mem_cons.mp hi with rfl | hi
    · rfl
    · rcases List.mem_cons.mp hi with rfl | hi
      · rfl
      · cases hi
  unfold createItems
  rw [runItems_append, plain_run _ hp]
  exact openNew_run c s0

theorem create_cancelStates (c : Cfg) (s0 t : CStore)
    (h : CancelStates (createItems c s0.nextId) s0 t) :
    t = s0 ∨ t = sFile s0 ∨ t = sHdr s0 ∨ t = sNew s0 := by
  have hp : Plain ([.await none, .await none] : List (Item CStore)) := by
    intro i hi
    rcases List.mem_cons.mp hi with rfl | hi
    · rfl
    · rcases List.mem_cons.mp hi with rfl | hi
      · rfl
      · cases hi
  rcases cancelStates_append _ _ _ _ h with ⟨k, hk⟩ | h2
  · left; rw [← hk, plain_cancel _ hp]
  · rw [plain_run _ hp] at h2
    right; exact openNew_cancelStates c s0 t h2

theorem recWrite_run (c : Cfg) (on : (CBlob → CBlob) → CStore → CStore) (x : RecB) (s : CStore) :
    runItems (recWriteItems c on x) s = on (CBlob.pushWritten c x) (on (CBlob.fileWrite c x) s) := by
  unfold recWriteItems
  split <;> rfl

theorem recWrite_cancelStates (c : Cfg) (on : (CBlob → CBlob) → CStore → CStore) (x : RecB)
    (s t : CStore) (h : CancelStates (recWriteItems c on x) s t) :
    (c.detached (entryLen c x) = true ∧ t = on (CBlob.fileWrite c x) s) ∨
    t = on (CBlob.pushWritten c x) (on (CBlob.fileWrite c x) s) := by
  obtain ⟨k, hk⟩ := h
  subst hk
  unfold recWriteItems
  cases hd : c.detached (entryLen c x)
  · right; cases k <;> rfl
  · rcases k with _ | k
    · left; exact ⟨rfl, rfl⟩
    · right; cases k <;> rfl


theorem plain1 {σ : Type} : Plain ([.await none] : List (Item σ)) := by
  intro i hi
  rcases List.mem_cons.mp hi with rfl | hi
  · rfl
  · cases hi

theorem plain2 {σ : Type} : Plain ([.await none, .await none] : List (Item σ)) := by
  intro i hi
  rcases List.mem_cons.mp hi with rfl | hi
  · rfl
  · exact plain1 i hi

theorem plain_if {σ : Type} (b : Bool) : Plain (if b then ([] : List (Item σ)) else [.await none, .await none]) := by
  cases b
  · exact plain2
  · intro i hi; cases hi

/-- the write is refused as a duplicate -/
def isDup (c : Cfg) (a : WArgs) (s0 : CStore) : Bool :=
  !(afterCreate c s0).allowDup && ((afterCreate c s0).toStore.getLatestEntry a.k a.m).isFound

/-- the record's bytes are in the file of the active blob, its index does not know it -/
def sOrphan (c : Cfg) (a : WArgs) (s0 : CStore) : CStore :=
  CStore.onActive (CBlob.fileWrite c a.entry) (afterCreate c s0)

/-- the write took effect -/
def sFull (c : Cfg) (a : WArgs) (s0 : CStore) : CStore :=
  CStore.onActive (CBlob.pushWritten c a.entry) (sOrphan c a s0)

theorem afterCreate_none (c : Cfg) (s0 : CStore) (h : s0.active = none) : afterCreate c s0 = sNew s0 := by
  unfold afterCreate; rw [h]; simp only [Option.isNone_none, ↓reduceIte]; exact create_run c s0

theorem afterCreate_some (c : Cfg) (s0 : CStore) (h : s0.active.isSome = true) : afterCreate c s0 = s0 := by
  unfold afterCreate
  cases h' : s0.active with
  | none => rw [h'] at h; cases h
  | some b => rfl

/-- the creation part of `writeSegments` -/
def writeHead (c : Cfg) (s0 : CStore) : List (Item CStore) :=
  if s0.active.isNone then createItems c s0.nextId else [ .await none ]

theorem writeHead_run (c : Cfg) (s0 : CStore) : runItems (writeHead c s0) s0 = afterCreate c s0 := by
  unfold writeHead afterCreate
  split
  · rfl
  · rfl

theorem writeHead_cancelStates (c : Cfg) (s0 t : CStore) (h : CancelStates (writeHead c s0) s0 t) :
    t = s0 ∨ (s0.active = none ∧ (t = sFile s0 ∨ t = sHdr s0)) ∨ t = afterCreate c s0 := by
  unfold writeHead at h
  cases hact : s0.active with
  | none =>
    rw [hact] at h
    simp only [Option.isNone_none, ↓reduceIte] at h
    rcases create_cancelStates c s0 t h with h | h | h | h
    · exact Or.inl h
    · exact Or.inr (Or.inl ⟨rfl, Or.inl h⟩)
    · exact Or.inr (Or.inl ⟨rfl, Or.inr h⟩)
    · exact Or.inr (Or.inr (by rw [afterCreate_none c s0 hact]; exact h))
  | some b =>
    rw [hact] at h
    simp only [Option.isNone_some, Bool.false_eq_true, ↓reduceIte] at h
    obtain ⟨k, hk⟩ := h
    rw [plain_cancel _ plain1] at hk
    exact Or.inl hk.symm

theorem writeSegments_eq (c : Cfg) (a : WArgs) (s0 : CStore) :
    writeSegments c a s0 = writeHead c s0 ++
      ((if (afterCreate c s0).allowDup then [] else [ .await none, .await none ]) ++
       (if isDup c a s0 then []
        else [ .await none, .await none ] ++
          (recWriteItems c CStore.onActive a.entry ++ [ .await none ]))) := by
  unfold writeSegments writeHead isDup
  simp only [List.append_assoc]

theorem write_run (c : Cfg) (a : WArgs) (s0 : CStore) :
    runItems (writeSegments c a s0) s0 = if isDup c a s0 then afterCreate c s0 else sFull c a s0 := by
  rw [writeSegments_eq, runItems_append, writeHead_run, runItems_append, plain_run _ (plain_if _)]
  cases isDup c a s0
  · simp only [Bool.false_eq_true, ↓reduceIte]
    rw [runItems_append, plain_run _ plain2, runItems_append, recWrite_run, plain_run _ plain1]
    rfl
  · rfl

/-- every state a cancelled (or completed) write can leave -/
theorem write_cancelStates (c : Cfg) (a : WArgs) (s0 t : CStore)
    (h : CancelStates (writeSegments c a s0) s0 t) :
    t = s0 ∨ (s0.active = none ∧ (t = sFile s0 ∨ t = sHdr s0)) ∨ t = afterCreate c s0 ∨
    (isDup c a s0 = false ∧ c.detached (entryLen c a.entry) = true ∧ t = sOrphan c a s0) ∨
    (isDup c a s0 = false ∧ t = sFull c a s0) := by
  rw [writeSegments_eq] at h
  rcases cancelStates_append _ _ _ _ h with h1 | h2
  · rcases writeHead_cancelStates c s0 t h1 with h | h | h
    · exact Or.inl h
    · exact Or.inr (Or.inl h)
    · exact Or.inr (Or.inr (Or.inl h))
  · rw [writeHead_run] at h2
    rcases cancelStates_append _ _ _ _ h2 with ⟨k, hk⟩ | h3
    · rw [plain_cancel _ (plain_if _)] at hk
      exact Or.inr (Or.inr (Or.inl hk.symm))
    · rw [plain_run _ (plain_if _)] at h3
      cases hdup : isDup c a s0
      · rw [hdup] at h3
        simp only [Bool.false_eq_true, ↓reduceIte] at h3
        rcases cancelStates_append _ _ _ _ h3 with ⟨k, hk⟩ | h4
        · rw [plain_cancel _ plain2] at hk
          exact Or.inr (Or.inr (Or.inl hk.symm))
        · rw [plain_run _ plain2] at h4
          rcases cancelStates_append _ _ _ _ h4 with h5 | ⟨k, hk⟩
          · rcases recWrite_cancelStates _ _ _ _ _ h5 with ⟨hd, ht⟩ | ht
            · exact Or.inr (Or.inr (Or.inr (Or.inl ⟨rfl, hd, ht⟩)))
            · exact Or.inr (Or.inr (Or.inr (Or.inr ⟨rfl, ht⟩)))
          · rw [plain_cancel _ plain1, recWrite_run] at hk
            exact Or.inr (Or.inr (Or.inr (Or.inr ⟨rfl, hk.symm⟩)))
      · rw [hdup] at h3
        obtain ⟨k, hk⟩ := h3
        have : cancelAfter k ([] : List (Item CStore)) (afterCreate c s0) = afterCreate c s0 := by
          cases k <;> rfl
        simp only [↓reduceIte] at hk
        rw [this] at hk
        exact Or.inr (Or.inr (Or.inl hk.symm))

/-- the orphan state IS reachable when the write runs in a detached closure -/
theorem write_orphan_reachable (c : Cfg) (a : WArgs) (s0 : CStore) (hdup : isDup c a s0 = false)
    (hd : c.detached (entryLen c a.entry) = true) :
    CancelStates (writeSegments c a s0) s0 (sOrphan c a s0) := by
  refine ⟨awaits (writeHead c s0) +
    (awaits (if (afterCreate c s0).allowDup then ([] : List (Item CStore)) else [ .await none, .await none ]) + 2), ?_⟩
  rw [writeSegments_eq, cancelAfter_append, if_neg (by omega), writeHead_run, cancelAfter_append,
    if_neg (by omega), plain_run _ (plain_if _), hdup]
  simp only [Bool.false_eq_true, ↓reduceIte, Nat.add_sub_cancel_left]
  unfold recWriteItems
  rw [hd]
  rfl


/-! ### the L2 views of the cancel states -/

/-- the only trace of a cancelled creation in the L2 state: a blob id is used up -/
def bumpS (S : Store) : Store := { S with nextId := S.nextId + 1 }

theorem toStore_sFile (s0 : CStore) : (sFile s0).toStore = bumpS s0.toStore := rfl
theorem regen_sFile (s0 : CStore) : (sFile s0).regen = bumpS s0.regen := rfl

theorem toStore_sHdr (s0 : CStore) : (sHdr s0).toStore = bumpS s0.toStore := by
  unfold sHdr sFile writeHdr createFile; rfl
theorem regen_sHdr (s0 : CStore) : (sHdr s0).regen = bumpS s0.regen := by
  unfold sHdr sFile writeHdr createFile; rfl

theorem toStore_sNew (s0 : CStore) : (sNew s0).toStore = s0.toStore.createActive := by
  unfold sNew sHdr sFile writeHdr createFile install; rfl
theorem regen_sNew (s0 : CStore) : (sNew s0).regen = s0.regen.createActive := by
  unfold sNew sHdr sFile writeHdr createFile install; rfl

theorem toStore_afterCreate (c : Cfg) (s0 : CStore) :
    (afterCreate c s0).toStore = s0.toStore.ensureActive := by
  cases h : s0.active with
  | none =>
    rw [afterCreate_none c s0 h, toStore_sNew]
    unfold Store.ensureActive CStore.toStore; rw [h]; rfl
  | some b =>
    rw [afterCreate_some c s0 (by rw [h]; rfl)]
    unfold Store.ensureActive CStore.toStore; rw [h]; rfl

theorem regen_afterCreate (c : Cfg) (s0 : CStore) :
    (afterCreate c s0).regen = s0.regen.ensureActive := by
  cases h : s0.active with
  | none =>
    rw [afterCreate_none c s0 h, regen_sNew]
    unfold Store.ensureActive CStore.regen; rw [h]; rfl
  | some b =>
    rw [afterCreate_some c s0 (by rw [h]; rfl)]
    unfold Store.ensureActive CStore.regen; rw [h]; rfl

theorem afterCreate_active (c : Cfg) (s0 : CStore) : ∃ b, (afterCreate c s0).active = some b := by
  cases h : s0.active with
  | none => rw [afterCreate_none c s0 h]; unfold sNew sHdr sFile writeHdr createFile install; exact ⟨_, rfl⟩
  | some b => rw [afterCreate_some c s0 (by rw [h]; rfl)]; exact ⟨b, h⟩

/-- in this session the orphan state looks exactly like the state before the record was written -/
theorem toStore_sOrphan (c : Cfg) (a : WArgs) (s0 : CStore) :
    (sOrphan c a s0).toStore = (afterCreate c s0).toStore := by
  unfold sOrphan CStore.onActive CStore.toStore
  cases (afterCreate c s0).active <;> rfl

/-- after a restart that regenerates the index it looks exactly like the completed write -/
theorem regen_sOrphan (c : Cfg) (a : WArgs) (s0 : CStore) :
    (sOrphan c a s0).regen = (sFull c a s0).regen := by
  unfold sFull CStore.onActive CStore.regen
  cases (sOrphan c a s0).active <;> rfl

/-- the completed operation is `Store.write` -/
theorem write_refines (c : Cfg) (a : WArgs) (s0 : CStore) :
    (runItems (writeSegments c a s0) s0).toStore = s0.toStore.write a.k a.ts a.m a.d := by
  rw [write_run]
  unfold Store.write
  simp only
  rw [← toStore_afterCreate c s0]
  unfold isDup
  cases hdup : (!(afterCreate c s0).allowDup && ((afterCreate c s0).toStore.getLatestEntry a.k a.m).isFound)
  · simp only [Bool.false_eq_true, ↓reduceIte]
    have hd' : (!(afterCreate c s0).toStore.allowDup &&
        ((afterCreate c s0).toStore.getLatestEntry a.k a.m).isFound) = false := hdup
    rw [hd']
    simp only [Bool.false_eq_true, ↓reduceIte]
    obtain ⟨b, hb⟩ := afterCreate_active c s0
    unfold sFull sOrphan CStore.onActive
    rw [hb]
    simp only [CStore.toStore, Option.map_some, hb]
    congr 2
    simp [CBlob.toBlob, CBlob.pushWritten, CBlob.push, CBlob.fileWrite, Blob.append, WArgs.entry]
  · simp only [↓reduceIte]
    have hd' : (!(afterCreate c s0).toStore.allowDup &&
        ((afterCreate c s0).toStore.getLatestEntry a.k a.m).isFound) = true := hdup
    rw [hd']
    simp only [↓reduceIte]

theorem toStore_sFull (c : Cfg) (a : WArgs) (s0 : CStore) (hdup : isDup c a s0 = false) :
    (sFull c a s0).toStore = s0.toStore.write a.k a.ts a.m a.d := by
  rw [← write_refines c a s0, write_run, hdup]; rfl


/-! ### query equivalence -/

/-- two L2 states answer every key query of Store.lean alike, and hold the same number of records -/
def QEq (A B : Store) : Prop :=
  (∀ k m, A.read k m = B.read k m) ∧ (∀ k, A.contains k = B.contains k) ∧
  (∀ k, A.readAll k = B.readAll k) ∧ (∀ k, A.readAllMarked k = B.readAllMarked k) ∧
  A.recordsCount = B.recordsCount ∧ A.allowDup = B.allowDup

theorem QEq.refl (A : Store) : QEq A A := ⟨fun _ _ => rfl, fun _ => rfl, fun _ => rfl, fun _ => rfl, rfl, rfl⟩

theorem QEq.symm {A B : Store} (h : QEq A B) : QEq B A :=
  ⟨fun k m => (h.1 k m).symm, fun k => (h.2.1 k).symm, fun k => (h.2.2.1 k).symm,
    fun k => (h.2.2.2.1 k).symm, h.2.2.2.2.1.symm, h.2.2.2.2.2.symm⟩

theorem QEq.trans {A B C : Store} (h1 : QEq A B) (h2 : QEq B C) : QEq A C :=
  ⟨fun k m => (h1.1 k m).trans (h2.1 k m), fun k => (h1.2.1 k).trans (h2.2.1 k),
    fun k => (h1.2.2.1 k).trans (h2.2.2.1 k), fun k => (h1.2.2.2.1 k).trans (h2.2.2.2.1 k),
    h1.2.2.2.2.1.trans h2.2.2.2.2.1, h1.2.2.2.2.2.trans h2.2.2.2.2.2⟩

theorem qeq_bump (S : Store) : QEq S (bumpS S) :=
  ⟨fun _ _ => rfl, fun _ => rfl, fun _ => rfl, fun _ => rfl, rfl, rfl⟩

theorem emptyBlob_latest (id : Nat) (k : Key) (m : Option Meta) :
    ({ id := id, recs := [] } : Blob).getLatestEntry k m = .notFound := by
  cases m <;> rfl

theorem latest_notFound (r : ReadResult Rec) : (ReadResult.notFound : ReadResult Rec).latest r = r := by
  cases r <;> rfl

theorem foldl_latest_from (l : List Blob) (k : Key) (m : Option Meta) (id : Nat) :
    (({ id := id, recs := [] } : Blob) :: l).foldl
        (fun (acc : ReadResult Rec) b => acc.latest (b.getLatestEntry k m)) ReadResult.notFound =
      l.foldl (fun (acc : ReadResult Rec) b => acc.latest (b.getLatestEntry k m)) ReadResult.notFound := by
  rw [List.foldl_cons, emptyBlob_latest]
  rfl

/-- a new, empty active blob changes no answer (only `blobsCount`, `nextId`, `recordsCountInActive`) -/
theorem qeq_createActive (S : Store) (h : S.active = none) : QEq S S.createActive := by
  have hvisit : S.createActive.visit = { id := S.nextId, recs := [] } :: S.visit := by
    simp [Store.visit, Store.createActive, Store.closed, h]
  have hget : ∀ k m, S.getLatestEntry k m = S.createActive.getLatestEntry k m := by
    intro k m
    unfold Store.getLatestEntry Store.getLatestEntryP
    rw [hvisit]
    have hf : ∀ l : List Blob, l.filter (fun b => !(fun (_ : Blob) (_ : Key) => false) b k) = l := by
      intro l; simp
    rw [hf, hf]
    exact (foldl_latest_from S.visit k m S.nextId).symm
  have hmarked : ∀ k, S.readAllMarked k = S.createActive.readAllMarked k := by
    intro k
    unfold Store.readAllMarked
    rw [hvisit]
    have : ({ id := S.nextId, recs := [] } : Blob).getAllCut k = [] := rfl
    simp [this]
  refine ⟨hget, ?_, ?_, hmarked, ?_, rfl⟩
  · intro k; unfold Store.contains; rw [hget]
  · intro k; unfold Store.readAll; rw [hmarked]
  · simp [Store.recordsCount, Store.blobs, Store.createActive, Store.closed, h, Blob.count]

theorem qeq_ensureActive (S : Store) : QEq S S.ensureActive := by
  unfold Store.ensureActive
  cases h : S.active with
  | none => exact qeq_createActive S h
  | some b => exact QEq.refl S


/-! ### the invariant: files are whole records, counters have no gap, indexed records load -/

theorem appendRecords_append (p : List UInt8) (a b : List Record) :
    appendRecords p (a ++ b) = appendRecords (appendRecords p a) b := by
  induction a generalizing p with
  | nil => rfl
  | cons R a ih => simp only [List.cons_append, appendRecords, ih]

theorem blobBytes_snoc (klen : Nat) (recs : List RecB) (x : RecB) :
    blobBytes klen (recs ++ [x]) = appendRecord (blobBytes klen recs) (recordOf klen x.1 x.2) := by
  unfold blobBytes recordsOf
  rw [List.map_append, appendRecords_append]
  rfl

/-- the header of the index entry of `x` pushed with offset `off` -/
def hdrOf (c : Cfg) (e : RecB × Nat) : RecHeader :=
  writtenHeader (recordOf c.klen e.1.1 e.1.2) e.2 c.maxSP

structure BlobInv (c : Cfg) (b : CBlob) : Prop where
  /-- the file is the blob of the ghost record list: it parses completely -/
  bytes : b.file.bytes = blobBytes c.klen b.frecs
  /-- no reservation gap -/
  size : b.file.size = b.file.bytes.length
  /-- what the index knows is in the file, in the same order -/
  sub : (b.idx.map (·.1)).Sublist b.frecs
  /-- every indexed record loads with its bytes -/
  loads : ∀ e ∈ b.idx, entryLoad b.file.bytes (hdrOf c e) =
    .ok (serMeta e.1.1.mt, (recordOf c.klen e.1.1 e.1.2).data)

theorem fileWrite_bytes (c : Cfg) (x : RecB) (b : CBlob) (hs : b.file.size = b.file.bytes.length) :
    (b.fileWrite c x).file.bytes =
      b.file.bytes ++ (recordOf c.klen x.1 x.2).image b.file.bytes.length := by
  unfold CBlob.fileWrite
  simp only
  rw [hs, writeData_end]
  exact congrArg (b.file.bytes ++ ·) (recordBytes_eq_image _ _ _)

theorem BlobInv.fileWrite {c : Cfg} {b : CBlob} (h : BlobInv c b) (x : RecB) : BlobInv c (b.fileWrite c x) := by
  have hb := fileWrite_bytes c x b h.size
  refine ⟨?_, ?_, ?_, ?_⟩
  · rw [hb, show (b.fileWrite c x).frecs = b.frecs ++ [x] from rfl, blobBytes_snoc, appendRecord_eq, h.bytes]
  · rw [hb]
    show b.file.size + (toPartial (recordOf c.klen x.1 x.2) c.maxSP).len = _
    rw [Fault.toPartial_len_recLen, List.length_append, Fault.image_length_recLen, h.size]
  · exact List.Sublist.trans h.sub (List.sublist_append_left _ _)
  · intro e he
    rw [hb]
    exact Fault.entryLoad_append_right (h.loads e he) _

theorem BlobInv.writePush {c : Cfg} {b : CBlob} (h : BlobInv c b) (x : RecB)
    (hm : (serMeta x.1.mt).length < 2 ^ 64) :
    BlobInv c ((b.fileWrite c x).push x b.file.size) := by
  have h1 := h.fileWrite x
  have hb := fileWrite_bytes c x b h.size
  refine ⟨h1.bytes, h1.size, ?_, ?_⟩
  · show ((b.idx ++ [(x, b.file.size)]).map (·.1)).Sublist (b.frecs ++ [x])
    rw [List.map_append]
    exact List.Sublist.append h.sub (List.Sublist.refl _)
  · intro e he
    rcases List.mem_append.mp he with he | he
    · exact h1.loads e he
    · rw [List.mem_singleton] at he
      subst he
      show entryLoad (b.fileWrite c x).file.bytes (writtenHeader (recordOf c.klen x.1 x.2) b.file.size c.maxSP) = _
      rw [hb, writtenHeader_eq, h.size]
      have := entryLoad_image b.file.bytes [] (recordOf c.klen x.1 x.2) (recordOf_WF c.klen x.1 x.2)
        b.file.bytes.length rfl (by rw [recordOf_mt]; exact hm)
      rw [List.append_nil, recordOf_mt] at this
      exact this

theorem pushWritten_fileWrite (c : Cfg) (x : RecB) (b : CBlob) :
    (b.fileWrite c x).pushWritten c x = (b.fileWrite c x).push x b.file.size := by
  unfold CBlob.pushWritten CBlob.lastOffset
  have : (b.fileWrite c x).file.size = b.file.size + (toPartial (recordOf c.klen x.1 x.2) c.maxSP).len := rfl
  rw [this, Nat.add_sub_cancel]

theorem BlobInv.writePushWritten {c : Cfg} {b : CBlob} (h : BlobInv c b) (x : RecB)
    (hm : (serMeta x.1.mt).length < 2 ^ 64) : BlobInv c ((b.fileWrite c x).pushWritten c x) := by
  rw [pushWritten_fileWrite]; exact h.writePush x hm

theorem BlobInv.loadIndex {c : Cfg} {b : CBlob} (h : BlobInv c b) : BlobInv c b.loadIndex :=
  ⟨h.bytes, h.size, h.sub, h.loads⟩

theorem BlobInv.new (c : Cfg) (id : Nat) :
    BlobInv c { id := id, file := ⟨serBlobHeader, blobHeaderSize⟩ } :=
  ⟨rfl, rfl, List.Sublist.refl _, fun e he => by cases he⟩

/-- a blob file that is not part of the storage: empty (creation cancelled before the header was
    written) or just the header -/
def StrayOk (f : Fault.FFile) : Prop := (f.bytes = [] ∨ f.bytes = serBlobHeader) ∧ f.size = f.bytes.length

structure StoreInv (c : Cfg) (s : CStore) : Prop where
  active : ∀ b, s.active = some b → BlobInv c b
  closed : ∀ b, some b ∈ s.slots → BlobInv c b
  stray : ∀ p ∈ s.stray, StrayOk p.2

theorem StoreInv.sFile {c : Cfg} {s0 : CStore} (h : StoreInv c s0) : StoreInv c (sFile s0) :=
  ⟨h.active, h.closed, fun p hp => by
    rcases List.mem_cons.mp hp with rfl | hp
    · exact ⟨Or.inl rfl, rfl⟩
    · exact h.stray p hp⟩

theorem StoreInv.sHdr {c : Cfg} {s0 : CStore} (h : StoreInv c s0) : StoreInv c (sHdr s0) :=
  ⟨h.active, h.closed, fun p hp => by
    rcases List.mem_cons.mp hp with rfl | hp
    · exact ⟨Or.inr (show pwrite [] 0 serBlobHeader = serBlobHeader by decide),
        show 0 + blobHeaderSize = (pwrite [] 0 serBlobHeader).length by decide⟩
    · exact h.stray p hp⟩

theorem StoreInv.sNew {c : Cfg} {s0 : CStore} (h : StoreInv c s0) : StoreInv c (sNew s0) :=
  ⟨fun b hb => by
    have : b = { id := s0.nextId, file := ⟨pwrite [] 0 serBlobHeader, 0 + blobHeaderSize⟩ } := by
      unfold Cancel.sNew Cancel.sHdr Cancel.sFile writeHdr createFile install at hb
      simp only [Option.some.injEq] at hb
      exact hb.symm
    rw [this]
    exact BlobInv.new c s0.nextId,
   h.closed, h.stray⟩

theorem StoreInv.afterCreate {c : Cfg} {s0 : CStore} (h : StoreInv c s0) : StoreInv c (afterCreate c s0) := by
  cases hact : s0.active with
  | none => rw [afterCreate_none c s0 hact]; exact h.sNew
  | some b => rw [afterCreate_some c s0 (by rw [hact]; rfl)]; exact h

theorem StoreInv.onActive {c : Cfg} {s : CStore} (h : StoreInv c s) (f : CBlob → CBlob)
    (hf : ∀ b, s.active = some b → BlobInv c (f b)) : StoreInv c (CStore.onActive f s) :=
  ⟨fun b hb => by
    unfold CStore.onActive at hb
    simp only [Option.map_eq_some_iff] at hb
    obtain ⟨b0, hb0, rfl⟩ := hb
    exact hf b0 hb0,
   h.closed, h.stray⟩

theorem StoreInv.sOrphan {c : Cfg} {s0 : CStore} (h : StoreInv c s0) (a : WArgs) :
    StoreInv c (sOrphan c a s0) :=
  h.afterCreate.onActive _ (fun b hb => (h.afterCreate.active b hb).fileWrite _)

theorem sFull_eq (c : Cfg) (a : WArgs) (s0 : CStore) :
    sFull c a s0 = CStore.onActive (fun b => (b.fileWrite c a.entry).pushWritten c a.entry)
      (Cancel.afterCreate c s0) := by
  unfold sFull sOrphan CStore.onActive
  cases (Cancel.afterCreate c s0).active <;> rfl

theorem StoreInv.sFull {c : Cfg} {s0 : CStore} (h : StoreInv c s0) (a : WArgs)
    (hm : (serMeta a.entry.1.mt).length < 2 ^ 64) : StoreInv c (sFull c a s0) := by
  rw [sFull_eq]
  exact h.afterCreate.onActive _ (fun b' hb' => (h.afterCreate.active b' hb').writePushWritten _ hm)

/-- every state a cancelled or completed write leaves satisfies the invariant -/
theorem write_cancel_inv (c : Cfg) (a : WArgs) (s0 t : CStore) (h : StoreInv c s0)
    (hm : (serMeta a.entry.1.mt).length < 2 ^ 64)
    (ht : CancelStates (writeSegments c a s0) s0 t) : StoreInv c t := by
  rcases write_cancelStates c a s0 t ht with rfl | ⟨_, rfl | rfl⟩ | rfl | ⟨_, _, rfl⟩ | ⟨_, rfl⟩
  · exact h
  · exact h.sFile
  · exact h.sHdr
  · exact h.afterCreate
  · exact h.sOrphan a
  · exact h.sFull a hm


/-! ### delete -/

theorem cancelAfter_nil {σ : Type} (k : Nat) (s : σ) : cancelAfter k ([] : List (Item σ)) s = s := by
  cases k <;> rfl

theorem cancelStates_run {σ : Type} (items : List (Item σ)) (s : σ) : CancelStates items s (runItems items s) :=
  ⟨awaits items, cancelAfter_ge _ _ _ (Nat.le_refl _)⟩

/-- a cancellation point of a sequence of sub-operations lies in one of them, the earlier ones having
    completed -/
theorem cancelStates_flatten {σ : Type} (Ls : List (List (Item σ))) (s t : σ)
    (h : CancelStates Ls.flatten s t) :
    t = s ∨ ∃ j, ∃ hj : j < Ls.length, CancelStates Ls[j] (runItems (Ls.take j).flatten s) t := by
  induction Ls generalizing s with
  | nil =>
    obtain ⟨k, hk⟩ := h
    left; rw [← hk]; exact cancelAfter_nil k s
  | cons L Ls ih =>
    rw [List.flatten_cons] at h
    rcases cancelStates_append _ _ _ _ h with h1 | h2
    · exact Or.inr ⟨0, by simp, h1⟩
    · rcases ih _ h2 with h3 | ⟨j, hj, h3⟩
      · exact Or.inr ⟨0, by simp, by rw [h3]; exact cancelStates_run L s⟩
      · refine Or.inr ⟨j + 1, by simp; omega, ?_⟩
        simp only [List.getElem_cons_succ, List.take_succ_cons, List.flatten_cons]
        rw [runItems_append]
        exact h3

/-- the tight form of `cancelStates_append`: the left case is a cancellation at an await OF `a` -/
theorem cancelStates_append_lt {σ : Type} (a b : List (Item σ)) (s t : σ)
    (h : CancelStates (a ++ b) s t) :
    (∃ k, k < awaits a ∧ cancelAfter k a s = t) ∨ CancelStates b (runItems a s) t := by
  obtain ⟨k, hk⟩ := h
  rw [cancelAfter_append] at hk
  split at hk
  · next hlt => exact Or.inl ⟨k, hlt, hk⟩
  · exact Or.inr ⟨_, hk⟩

/-- a marker is due on this blob -/
def needMarker (a : DArgs) (oip : Bool) (b0 : CBlob) : Bool := !oip || (b0.toBlob.getLatest a.k).isFound

/-- the state once the index of the blob is in memory -/
def loaded (on : (CBlob → CBlob) → CStore → CStore) (b0 : CBlob) (s : CStore) : CStore :=
  if b0.onDisk then on CBlob.loadIndex s else s

/-- the marker's bytes are in the file of the blob, its index does not know it -/
def markerOrphan (c : Cfg) (on : (CBlob → CBlob) → CStore → CStore) (a : DArgs) (b0 : CBlob) (s : CStore) :
    CStore := on (CBlob.fileWrite c a.entry) (loaded on b0 s)

/-- the marker is written and indexed -/
def markerDone (c : Cfg) (on : (CBlob → CBlob) → CStore → CStore) (a : DArgs) (b0 : CBlob) (s : CStore) :
    CStore := on (CBlob.pushWritten c a.entry) (markerOrphan c on a b0 s)

/-- the states a cancelled `Blob::delete` can leave on its blob -/
def BlobDeleteState (c : Cfg) (on : (CBlob → CBlob) → CStore → CStore) (a : DArgs) (oip : Bool)
    (b0 : CBlob) (s t : CStore) : Prop :=
  t = s ∨
  (needMarker a oip b0 = true ∧ c.detached (entryLen c a.entry) = true ∧ t = markerOrphan c on a b0 s) ∨
  (needMarker a oip b0 = true ∧ t = markerDone c on a b0 s)

theorem plain_oip {σ : Type} (oip : Bool) : Plain (if oip then ([ .await none ] : List (Item σ)) else []) := by
  cases oip
  · intro i hi; cases hi
  · exact plain1

theorem blobDeleteItems_eq (c : Cfg) (on : (CBlob → CBlob) → CStore → CStore) (a : DArgs) (oip : Bool)
    (b0 : CBlob) :
    blobDeleteItems c on a oip b0 = (if oip then [ .await none ] else []) ++
      (if needMarker a oip b0 then
        (if b0.onDisk then [ .await none, .sync (on CBlob.loadIndex) ] else []) ++
          recWriteItems c on a.entry
       else []) := rfl

theorem loadItems_run (on : (CBlob → CBlob) → CStore → CStore) (b0 : CBlob) (s : CStore) :
    runItems (if b0.onDisk then [Item.await none, Item.sync (on CBlob.loadIndex)] else []) s =
      loaded on b0 s := by
  unfold loaded; cases b0.onDisk <;> rfl

theorem blobDelete_run (c : Cfg) (on : (CBlob → CBlob) → CStore → CStore) (a : DArgs) (oip : Bool)
    (b0 : CBlob) (s : CStore) :
    runItems (blobDeleteItems c on a oip b0) s =
      if needMarker a oip b0 then markerDone c on a b0 s else s := by
  rw [blobDeleteItems_eq, runItems_append, plain_run _ (plain_oip oip)]
  cases needMarker a oip b0
  · rfl
  · simp only [↓reduceIte]
    rw [runItems_append, recWrite_run, loadItems_run]
    rfl

theorem blobDelete_cancelStates (c : Cfg) (on : (CBlob → CBlob) → CStore → CStore) (a : DArgs) (oip : Bool)
    (b0 : CBlob) (s t : CStore) (h : CancelStates (blobDeleteItems c on a oip b0) s t) :
    BlobDeleteState c on a oip b0 s t := by
  rw [blobDeleteItems_eq] at h
  rcases cancelStates_append _ _ _ _ h with ⟨k, hk⟩ | h2
  · left; rw [← hk, plain_cancel _ (plain_oip oip)]
  · rw [plain_run _ (plain_oip oip)] at h2
    cases hn : needMarker a oip b0
    · rw [hn] at h2
      obtain ⟨k, hk⟩ := h2
      left; rw [← hk]; exact cancelAfter_nil k s
    · rw [hn] at h2
      simp only [↓reduceIte] at h2
      rcases cancelStates_append_lt _ _ _ _ h2 with ⟨k, hlt, hk⟩ | h3
      · left
        rw [← hk]
        cases hod : b0.onDisk
        · rw [hod] at hlt; simp [awaits] at hlt
        · rw [hod] at hlt
          simp only [↓reduceIte, awaits] at hlt
          have : k = 0 := by omega
          subst this
          rfl
      · rw [loadItems_run] at h3
        rcases recWrite_cancelStates _ _ _ _ _ h3 with ⟨hd, ht⟩ | ht
        · exact Or.inr (Or.inl ⟨hn, hd, ht⟩)
        · exact Or.inr (Or.inr ⟨hn, ht⟩)


def needCreate (a : DArgs) (s0 : CStore) : Bool := !a.oip && s0.active.isNone

/-- the state once `delete` holds an active blob (or knows it needs none) -/
def delS1 (a : DArgs) (s0 : CStore) : CStore := if needCreate a s0 then sNew s0 else s0

/-- `delete_in_active` -/
def delActiveItems (c : Cfg) (a : DArgs) (s1 : CStore) : List (Item CStore) :=
  match s1.active with
  | some b => [ .await none ] ++ blobDeleteItems c CStore.onActive a a.oip b
  | none => []

/-- the state after `delete_in_active` -/
def delS2 (c : Cfg) (a : DArgs) (s0 : CStore) : CStore := runItems (delActiveItems c a (delS1 a s0)) (delS1 a s0)

/-- `delete_in_closed`, blob by blob -/
def delClosedItems (c : Cfg) (a : DArgs) (s1 : CStore) : List (List (Item CStore)) :=
  (closedWithSlots s1).map (fun p => blobDeleteItems c (CStore.onSlot p.1) a true p.2)

theorem deleteSegments_eq (c : Cfg) (a : DArgs) (s0 : CStore) :
    deleteSegments c a s0 = [ .await none ] ++
      ((if needCreate a s0 then [ .await none ] ++ openNewItems c s0.nextId else []) ++
       (delActiveItems c a (delS1 a s0) ++ ([ .await none ] ++ (delClosedItems c a (delS1 a s0)).flatten))) := by
  have h1 : (if needCreate a s0 then runItems (createItems c s0.nextId) s0 else s0) = delS1 a s0 := by
    unfold delS1; split
    · exact create_run c s0
    · rfl
  unfold deleteSegments
  simp only
  rw [show (!a.oip && s0.active.isNone) = needCreate a s0 from rfl, h1]
  unfold delActiveItems delClosedItems
  simp only [List.append_assoc]
  rfl

theorem delete_cancelStates (c : Cfg) (a : DArgs) (s0 t : CStore)
    (h : CancelStates (deleteSegments c a s0) s0 t) :
    t = s0 ∨ (needCreate a s0 = true ∧ (t = sFile s0 ∨ t = sHdr s0)) ∨ t = delS1 a s0 ∨
    (∃ b, (delS1 a s0).active = some b ∧ BlobDeleteState c CStore.onActive a a.oip b (delS1 a s0) t) ∨
    t = delS2 c a s0 ∨
    (∃ j, ∃ hj : j < (closedWithSlots (delS1 a s0)).length,
      BlobDeleteState c (CStore.onSlot ((closedWithSlots (delS1 a s0))[j]).1) a true
        ((closedWithSlots (delS1 a s0))[j]).2
        (runItems ((delClosedItems c a (delS1 a s0)).take j).flatten (delS2 c a s0)) t) := by
  rw [deleteSegments_eq] at h
  rcases cancelStates_append _ _ _ _ h with ⟨k, hk⟩ | h
  · left; rw [← hk, plain_cancel _ plain1]
  rw [plain_run _ plain1] at h
  have hcreate_run : runItems (if needCreate a s0 = true then [Item.await none] ++ openNewItems c s0.nextId else []) s0
      = delS1 a s0 := by
    unfold delS1
    cases needCreate a s0
    · rfl
    · simp only [↓reduceIte]
      rw [runItems_append, plain_run _ plain1, openNew_run]
  rcases cancelStates_append _ _ _ _ h with h1 | h
  · cases hn : needCreate a s0
    · rw [hn] at h1
      obtain ⟨k, hk⟩ := h1
      left; rw [← hk]; exact cancelAfter_nil k s0
    · rw [hn] at h1
      simp only [↓reduceIte] at h1
      rcases cancelStates_append _ _ _ _ h1 with ⟨k, hk⟩ | h2
      · left; rw [← hk, plain_cancel _ plain1]
      · rw [plain_run _ plain1] at h2
        rcases openNew_cancelStates c s0 t h2 with h3 | h3 | h3
        · exact Or.inr (Or.inl ⟨rfl, Or.inl h3⟩)
        · exact Or.inr (Or.inl ⟨rfl, Or.inr h3⟩)
        · refine Or.inr (Or.inr (Or.inl ?_))
          unfold delS1; rw [hn]; exact h3
  rw [hcreate_run] at h
  rcases cancelStates_append _ _ _ _ h with h1 | h
  · unfold delActiveItems at h1
    cases hact : (delS1 a s0).active with
    | none =>
      rw [hact] at h1
      obtain ⟨k, hk⟩ := h1
      exact Or.inr (Or.inr (Or.inl (by rw [← hk]; exact cancelAfter_nil k _)))
    | some b =>
      rw [hact] at h1
      simp only at h1
      rcases cancelStates_append _ _ _ _ h1 with ⟨k, hk⟩ | h2
      · exact Or.inr (Or.inr (Or.inl (by rw [← hk, plain_cancel _ plain1])))
      · rw [plain_run _ plain1] at h2
        exact Or.inr (Or.inr (Or.inr (Or.inl ⟨b, rfl, blobDelete_cancelStates _ _ _ _ _ _ _ h2⟩)))
  change CancelStates _ (delS2 c a s0) t at h
  rcases cancelStates_append _ _ _ _ h with ⟨k, hk⟩ | h
  · exact Or.inr (Or.inr (Or.inr (Or.inr (Or.inl (by rw [← hk, plain_cancel _ plain1])))))
  rw [plain_run _ plain1] at h
  rcases cancelStates_flatten _ _ _ h with h1 | ⟨j, hj, h1⟩
  · exact Or.inr (Or.inr (Or.inr (Or.inr (Or.inl h1))))
  · have hj' : j < (closedWithSlots (delS1 a s0)).length := by
      simpa [delClosedItems] using hj
    refine Or.inr (Or.inr (Or.inr (Or.inr (Or.inr ⟨j, hj', ?_⟩))))
    have hget : (delClosedItems c a (delS1 a s0))[j] =
        blobDeleteItems c (CStore.onSlot ((closedWithSlots (delS1 a s0))[j]).1) a true
          ((closedWithSlots (delS1 a s0))[j]).2 := by
      simp [delClosedItems]
    rw [hget] at h1
    exact blobDelete_cancelStates _ _ _ _ _ _ _ h1


/-! ### delete: invariant and L2 view, blob by blob -/

/-- `on` applies a function to one blob of the storage -/
structure BlobSel (on : (CBlob → CBlob) → CStore → CStore) : Prop where
  comp : ∀ f g s, on f (on g s) = on (f ∘ g) s
  inv : ∀ (c : Cfg) f s, StoreInv c s → (∀ b, BlobInv c b → BlobInv c (f b)) → StoreInv c (on f s)

theorem onActive_sel : BlobSel CStore.onActive where
  comp := by
    intro f g s
    unfold CStore.onActive
    simp only [Option.map_map]
  inv := by
    intro c f s h hf
    exact h.onActive f (fun b hb => hf b (h.active b hb))

theorem onSlot_sel (i : Nat) : BlobSel (CStore.onSlot i) where
  comp := by
    intro f g s
    unfold CStore.onSlot
    simp only [List.modify_modify_eq]
    congr 2
    funext o
    cases o <;> rfl
  inv := by
    intro c f s h hf
    refine ⟨h.active, ?_, h.stray⟩
    intro b hb
    unfold CStore.onSlot at hb
    simp only at hb
    obtain ⟨j, hj, hget⟩ := List.mem_iff_getElem.mp hb
    rw [List.getElem_modify] at hget
    rw [List.length_modify] at hj
    split at hget
    · cases hs : s.slots[j] with
      | none => rw [hs] at hget; cases hget
      | some b0 =>
        rw [hs] at hget
        simp only [Option.map_some, Option.some.injEq] at hget
        rw [← hget]
        exact hf b0 (h.closed b0 (by rw [← hs]; exact List.getElem_mem hj))
    · exact h.closed b (by rw [← hget]; exact List.getElem_mem hj)

/-- what `Blob::delete` does to its blob when a marker is due -/
def loadedB (b0 : CBlob) : CBlob := if b0.onDisk then b0.loadIndex else b0

theorem loaded_eq (on : (CBlob → CBlob) → CStore → CStore) (b0 : CBlob) (s : CStore)
    (hid : on id s = s) :
    loaded on b0 s = on (if b0.onDisk then CBlob.loadIndex else id) s := by
  unfold loaded
  cases b0.onDisk
  · exact hid.symm
  · rfl

theorem onActive_id (s : CStore) : CStore.onActive id s = s := by
  cases s with
  | mk active slots nextId allowDup stray =>
    unfold CStore.onActive
    simp

theorem onSlot_id (i : Nat) (s : CStore) : CStore.onSlot i id s = s := by
  cases s with
  | mk active slots nextId allowDup stray =>
    unfold CStore.onSlot
    have : (fun o : Option CBlob => o.map id) = id := by funext o; cases o <;> rfl
    simp only [this, List.modify_id]

theorem loadSel_inv {c : Cfg} (b0 : CBlob) : ∀ b, BlobInv c b →
    BlobInv c ((if b0.onDisk then CBlob.loadIndex else id) b) := by
  intro b hb
  cases b0.onDisk
  · exact hb
  · exact hb.loadIndex

theorem markerOrphan_inv {c : Cfg} {on : (CBlob → CBlob) → CStore → CStore} (hsel : BlobSel on)
    (hid : ∀ s, on id s = s) (a : DArgs) (b0 : CBlob) (s : CStore) (h : StoreInv c s) :
    StoreInv c (markerOrphan c on a b0 s) := by
  unfold markerOrphan
  rw [loaded_eq on b0 s (hid s)]
  exact hsel.inv c _ _ (hsel.inv c _ _ h (loadSel_inv b0)) (fun b hb => hb.fileWrite _)

theorem markerDone_inv {c : Cfg} {on : (CBlob → CBlob) → CStore → CStore} (hsel : BlobSel on)
    (hid : ∀ s, on id s = s) (a : DArgs) (b0 : CBlob) (s : CStore) (h : StoreInv c s)
    (hm : (serMeta a.entry.1.mt).length < 2 ^ 64) :
    StoreInv c (markerDone c on a b0 s) := by
  unfold markerDone markerOrphan
  rw [loaded_eq on b0 s (hid s), hsel.comp]
  exact hsel.inv c _ _ (hsel.inv c _ _ h (loadSel_inv b0)) (fun b hb => hb.writePushWritten _ hm)

theorem blobDeleteState_inv {c : Cfg} {on : (CBlob → CBlob) → CStore → CStore} (hsel : BlobSel on)
    (hid : ∀ s, on id s = s) (a : DArgs) (oip : Bool) (b0 : CBlob) (s t : CStore) (h : StoreInv c s)
    (hm : (serMeta a.entry.1.mt).length < 2 ^ 64) (ht : BlobDeleteState c on a oip b0 s t) :
    StoreInv c t := by
  rcases ht with rfl | ⟨_, _, rfl⟩ | ⟨_, rfl⟩
  · exact h
  · exact markerOrphan_inv hsel hid a b0 _ h
  · exact markerDone_inv hsel hid a b0 _ h hm

theorem blobDelete_run_inv {c : Cfg} {on : (CBlob → CBlob) → CStore → CStore} (hsel : BlobSel on)
    (hid : ∀ s, on id s = s) (a : DArgs) (oip : Bool) (b0 : CBlob) (s : CStore) (h : StoreInv c s)
    (hm : (serMeta a.entry.1.mt).length < 2 ^ 64) :
    StoreInv c (runItems (blobDeleteItems c on a oip b0) s) :=
  blobDeleteState_inv hsel hid a oip b0 s _ h hm
    (blobDelete_cancelStates c on a oip b0 s _ (cancelStates_run _ s))

theorem closed_run_inv {c : Cfg} (a : DArgs) (L : List (Nat × CBlob)) (s : CStore) (h : StoreInv c s)
    (hm : (serMeta a.entry.1.mt).length < 2 ^ 64) :
    StoreInv c (runItems (L.map (fun p => blobDeleteItems c (CStore.onSlot p.1) a true p.2)).flatten s) := by
  induction L generalizing s with
  | nil => exact h
  | cons p L ih =>
    rw [List.map_cons, List.flatten_cons, runItems_append]
    exact ih _ (blobDelete_run_inv (onSlot_sel p.1) (onSlot_id p.1) a true p.2 s h hm)

theorem delS1_inv {c : Cfg} (a : DArgs) (s0 : CStore) (h : StoreInv c s0) : StoreInv c (delS1 a s0) := by
  unfold delS1; split
  · exact h.sNew
  · exact h

theorem delS2_inv {c : Cfg} (a : DArgs) (s0 : CStore) (h : StoreInv c s0)
    (hm : (serMeta a.entry.1.mt).length < 2 ^ 64) : StoreInv c (delS2 c a s0) := by
  unfold delS2 delActiveItems
  cases (delS1 a s0).active with
  | none => exact delS1_inv a s0 h
  | some b =>
    simp only
    rw [runItems_append, plain_run _ plain1]
    exact blobDelete_run_inv onActive_sel onActive_id a a.oip b _ (delS1_inv a s0 h) hm

/-- every state a cancelled or completed delete leaves satisfies the invariant -/
theorem delete_cancel_inv (c : Cfg) (a : DArgs) (s0 t : CStore) (h : StoreInv c s0)
    (hm : (serMeta a.entry.1.mt).length < 2 ^ 64)
    (ht : CancelStates (deleteSegments c a s0) s0 t) : StoreInv c t := by
  rcases delete_cancelStates c a s0 t ht with rfl | ⟨_, rfl | rfl⟩ | rfl | ⟨b, _, hb⟩ | rfl | ⟨j, hj, hb⟩
  · exact h
  · exact h.sFile
  · exact h.sHdr
  · exact delS1_inv a s0 h
  · exact blobDeleteState_inv onActive_sel onActive_id a a.oip b _ _ (delS1_inv a s0 h) hm hb
  · exact delS2_inv a s0 h hm
  · refine blobDeleteState_inv (onSlot_sel _) (onSlot_id _) a true _ _ _ ?_ hm hb
    unfold delClosedItems
    rw [← List.map_take]
    exact closed_run_inv a _ _ (delS2_inv a s0 h hm) hm

/-! L2 view of one blob -/

theorem needMarker_iff (a : DArgs) (oip : Bool) (b0 : CBlob) :
    needMarker a oip b0 = (!oip || (b0.toBlob.getLatest a.k).isFound) := rfl

/-- the completed `Blob::delete` is `Store.blobDelete` on the L2 view of the blob -/
theorem toBlob_markerDone (c : Cfg) (a : DArgs) (oip : Bool) (b0 : CBlob) :
    (if needMarker a oip b0 then ((loadedB b0).fileWrite c a.entry).pushWritten c a.entry else b0).toBlob =
      (Store.blobDelete b0.toBlob a.k a.ts a.m oip).1 := by
  unfold Store.blobDelete
  rw [needMarker_iff]
  cases hn : (!oip || (b0.toBlob.getLatest a.k).isFound)
  · rfl
  · simp only [↓reduceIte]
    unfold loadedB
    cases hod : b0.onDisk <;>
      simp [CBlob.toBlob, CBlob.pushWritten, CBlob.push, CBlob.fileWrite, CBlob.loadIndex, DArgs.entry, hod]

/-- the orphan marker: in this session the blob's records are unchanged (its index is in memory now);
    after a regenerating restart the marker is there -/
theorem toBlob_markerOrphan (c : Cfg) (a : DArgs) (b0 : CBlob) :
    ((loadedB b0).fileWrite c a.entry).toBlob = { b0.toBlob with onDisk := false } ∧
    ((loadedB b0).fileWrite c a.entry).regenBlob =
      (((loadedB b0).fileWrite c a.entry).pushWritten c a.entry).regenBlob := by
  unfold loadedB
  cases hod : b0.onDisk <;>
    simp [CBlob.toBlob, CBlob.regenBlob, CBlob.pushWritten, CBlob.push, CBlob.fileWrite, CBlob.loadIndex, hod]


end Pearl.Cancel
