import Pearl.Model.CancelLoad
import Pearl.Proofs.CancelLemmas
/-
Helper lemmas for Props/C14b.lean (cancellation of `load_index`, defect E24): segment lists in which every suspension
point precedes every assignment are cancel-atomic; the states a cancelled `load` / `restore` leaves; the invariant `Good`.
-/
namespace Pearl.CancelLoad
open Pearl.Cancel

/-! ### awaits first, then synchronous code: cancel-atomic (any state type) -/

/-- every await is without a closure and precedes all synchronous code -/
def AwaitsFirstItems {σ : Type} : List (Item σ) → Prop
  | [] => True
  | .await none :: rest => AwaitsFirstItems rest
  | .await (some _) :: _ => False
  | .sync _ :: rest => awaits rest = 0

theorem cancelAfter_sync {σ : Type} (k : Nat) (f : σ → σ) (rest : List (Item σ)) (s : σ) :
    cancelAfter k (.sync f :: rest) s = cancelAfter k rest (f s) := by
  cases k <;> rfl

/-- a future whose suspension points all come before its first assignment, dropped anywhere, did nothing or everything -/
theorem cancel_atomic_of_awaitsFirst {σ : Type} (items : List (Item σ)) (h : AwaitsFirstItems items) (k : Nat) (s : σ) :
    cancelAfter k items s = s ∨ cancelAfter k items s = runItems items s := by
  induction items generalizing k with
  | nil => left; cases k <;> rfl
  | cons i rest ih =>
    cases i with
    | sync f =>
      right
      have h0 : awaits rest = 0 := by simpa [AwaitsFirstItems] using h
      exact cancelAfter_ge _ k s (by simp only [awaits]; omega)
    | await c =>
      cases c with
      | some g => exact absurd h (by simp [AwaitsFirstItems])
      | none =>
        cases k with
        | zero => left; rfl
        | succ k => exact ih (by simpa [AwaitsFirstItems] using h) k

/-- the cut points at which such a future has done nothing are exactly those before its last await -/
theorem cancel_awaitsFirst_lt {σ : Type} (items : List (Item σ)) (h : AwaitsFirstItems items) (k : Nat) (s : σ)
    (hk : k < awaits items) : cancelAfter k items s = s := by
  induction items generalizing k with
  | nil => simp [awaits] at hk
  | cons i rest ih =>
    cases i with
    | sync f =>
      have : awaits rest = 0 := by simpa [AwaitsFirstItems] using h
      simp [awaits, this] at hk
    | await c =>
      cases c with
      | some g => exact absurd h (by simp [AwaitsFirstItems])
      | none =>
        cases k with
        | zero => rfl
        | succ k => exact ih (by simpa [AwaitsFirstItems] using h) k (by simp only [awaits] at hk; omega)

/-! ### the event list of the translator -/

theorem awaits_segsOf_of_noAwait (evs : List String) (fs : List (IdxSt → IdxSt))
    (h : ∀ e ∈ evs, (e == "await") = false) : awaits (segsOf evs fs) = 0 := by
  induction evs generalizing fs with
  | nil => rfl
  | cons e es ih =>
    have he : (e == "await") = false := h e (List.mem_cons_self ..)
    have hes : ∀ e ∈ es, (e == "await") = false := fun x hx => h x (List.mem_cons_of_mem _ hx)
    cases fs with
    | nil => simp only [segsOf, he, Bool.false_eq_true, if_false]; exact ih [] hes
    | cons f fs' => simp only [segsOf, he, Bool.false_eq_true, if_false, awaits]; exact ih fs' hes

theorem set_ne_await : ("set" == "await") = false := by decide

theorem awaitsFirstItems_segsOf (evs : List String) (fs : List (IdxSt → IdxSt)) (h : AwaitsFirst evs) :
    AwaitsFirstItems (segsOf evs fs) := by
  induction evs generalizing fs with
  | nil => trivial
  | cons e es ih =>
    by_cases he : (e == "await") = true
    · have h' : AwaitsFirst es := by simpa [AwaitsFirst, List.dropWhile, he] using h
      simp only [segsOf, he, if_true, AwaitsFirstItems]
      exact ih fs h'
    · have he' : (e == "await") = false := by simpa using he
      have hall : ((e :: es).all (· == "set")) = true := by simpa [AwaitsFirst, List.dropWhile, he'] using h
      have hno : ∀ x ∈ e :: es, (x == "await") = false := by
        intro x hx
        have : (x == "set") = true := (List.all_eq_true.mp hall) x hx
        have hx' : x = "set" := by simpa using this
        rw [hx']; exact set_ne_await
      have h0 := awaits_segsOf_of_noAwait (e :: es) fs hno
      cases fs with
      | nil =>
        -- no assignment left: the list is empty of awaits, hence of everything that can suspend
        have : AwaitsFirstItems (segsOf es ([] : List (IdxSt → IdxSt))) := by
          have hes : ∀ x ∈ es, (x == "await") = false := fun x hx => hno x (List.mem_cons_of_mem _ hx)
          clear h hall hno h0 ih
          induction es with
          | nil => trivial
          | cons a as iha =>
            have ha : (a == "await") = false := hes a (List.mem_cons_self ..)
            simp only [segsOf, ha, Bool.false_eq_true, if_false]
            exact iha (fun x hx => hes x (List.mem_cons_of_mem _ hx))
        simpa only [segsOf, he', Bool.false_eq_true, if_false] using this
      | cons f fs' =>
        simp only [segsOf, he', Bool.false_eq_true, if_false, AwaitsFirstItems]
        simpa only [segsOf, he', Bool.false_eq_true, if_false, awaits] using h0

/-! ### all assignments in one final segment -/

theorem cancel_awaitsFirst_eq {σ : Type} (items : List (Item σ)) (h : AwaitsFirstItems items) (k : Nat) (s : σ) :
    cancelAfter k items s = if k < awaits items then s else runItems items s := by
  split
  · next hk => exact cancel_awaitsFirst_lt items h k s hk
  · next hk => exact cancelAfter_ge items k s (by omega)

theorem awaits_replicate_sync {σ : Type} (n : Nat) (g : σ → σ) :
    awaits (List.replicate n (Item.await none) ++ [.sync g]) = n := by
  induction n with
  | zero => rfl
  | succ n ih => simp only [List.replicate_succ, List.cons_append, awaits, ih]

theorem awaitsFirst_replicate_sync {σ : Type} (n : Nat) (g : σ → σ) :
    AwaitsFirstItems (List.replicate n (Item.await none) ++ [.sync g]) := by
  induction n with
  | zero => simp [AwaitsFirstItems, awaits]
  | succ n ih => simpa only [List.replicate_succ, List.cons_append, AwaitsFirstItems] using ih

theorem run_replicate_sync {σ : Type} (n : Nat) (g : σ → σ) (s : σ) :
    runItems (List.replicate n (Item.await none) ++ [.sync g]) s = g s := by
  induction n with
  | zero => rfl
  | succ n ih => rw [List.replicate_succ, List.cons_append, runItems_cons]; exact ih

theorem awaits_segsOf (evs : List String) (fs : List (IdxSt → IdxSt)) :
    awaits (segsOf evs fs) = evs.countP (· == "await") := by
  induction evs generalizing fs with
  | nil => rfl
  | cons e es ih =>
    by_cases he : (e == "await") = true
    · simp only [segsOf, he, if_true, awaits, ih, List.countP_cons]
    · have he' : (e == "await") = false := by simpa using he
      simp only [List.countP_cons, he', Bool.false_eq_true, if_false, Nat.add_zero]
      cases fs with
      | nil => simp only [segsOf, he', Bool.false_eq_true, if_false]; exact ih []
      | cons f fs' => simp only [segsOf, he', Bool.false_eq_true, if_false, awaits]; exact ih fs'

theorem run_segsOf (evs : List String) (fs : List (IdxSt → IdxSt)) (s : IdxSt) :
    runItems (segsOf evs fs) s = oneSeg (fs.take (evs.countP (fun e => !(e == "await")))) s := by
  induction evs generalizing fs s with
  | nil => simp [segsOf, runItems, oneSeg]
  | cons e es ih =>
    by_cases he : (e == "await") = true
    · simp only [List.countP_cons, he, Bool.not_true, Bool.false_eq_true, if_false, Nat.add_zero]
      simp only [segsOf, he, if_true, runItems_cons]
      exact ih fs s
    · have he' : (e == "await") = false := by simpa using he
      simp only [List.countP_cons, he', Bool.not_false, if_true]
      cases fs with
      | nil =>
        simp only [segsOf, he', Bool.false_eq_true, if_false, List.take_nil]
        rw [ih [] s]; simp [oneSeg]
      | cons f fs' =>
        simp only [segsOf, he', Bool.false_eq_true, if_false, runItems_cons, List.take_succ_cons]
        rw [ih fs' _]; rfl

theorem run_segsOf_eq_oneFinal (evs : List String) (fs : List (IdxSt → IdxSt)) (s : IdxSt) :
    runItems (segsOf evs fs) s = runItems (segsOneFinal evs fs) s := by
  rw [run_segsOf, segsOneFinal, run_replicate_sync]

theorem cancel_segsOf_eq_oneFinal (evs : List String) (fs : List (IdxSt → IdxSt)) (h : AwaitsFirst evs)
    (k : Nat) (s : IdxSt) :
    cancelAfter k (segsOf evs fs) s = cancelAfter k (segsOneFinal evs fs) s := by
  rw [cancel_awaitsFirst_eq _ (awaitsFirstItems_segsOf evs fs h), run_segsOf_eq_oneFinal, awaits_segsOf]
  unfold segsOneFinal
  rw [cancel_awaitsFirst_eq _ (awaitsFirst_replicate_sync _ _), awaits_replicate_sync]

/-! ### `load` and `restore` as they are now -/

theorem awaitsFirst_loadNew (s0 : IdxSt) : AwaitsFirstItems (loadNew s0) := by
  unfold loadNew; split <;> simp [AwaitsFirstItems, awaits]

theorem awaitsFirst_restoreNew (s0 : IdxSt) : AwaitsFirstItems (restore .new s0) := by
  show AwaitsFirstItems ([.await none, .await none, .await none] ++ loadNew s0 ++ [.sync makeActive])
  unfold loadNew; split <;> simp [AwaitsFirstItems, awaits]

theorem run_loadNew (s0 : IdxSt) :
    runItems (loadNew s0) s0 = if s0.index = .inMemory then s0 else setFilter (setInner s0) := by
  unfold loadNew; split <;> rfl

theorem run_loadOld (s0 : IdxSt) :
    runItems (loadOld s0) s0 = if s0.index = .inMemory then s0 else setFilter (setInner s0) := by
  unfold loadOld; split <;> rfl

theorem run_restore (v : Variant) (s0 : IdxSt) :
    runItems (restore v s0) s0 = makeActive (runItems (load v s0) s0) := by
  cases v <;> simp only [restore, load, loadOld, loadNew] <;> split <;> rfl

/-- what a `load` polled to completion leaves: the same for both variants -/
def loaded (s : IdxSt) : IdxSt := if s.index = .inMemory then s else setFilter (setInner s)

theorem runCut_load_new (cut : Option Nat) (s : IdxSt) :
    runCut cut (load .new s) s = s ∨ runCut cut (load .new s) s = loaded s := by
  cases cut with
  | none => right; exact run_loadNew s
  | some k =>
    rcases cancel_atomic_of_awaitsFirst _ (awaitsFirst_loadNew s) k s with h | h
    · exact Or.inl h
    · right; show cancelAfter k (loadNew s) s = _; rw [h]; exact run_loadNew s

theorem runCut_restore_new (cut : Option Nat) (s : IdxSt) :
    runCut cut (restore .new s) s = s ∨ runCut cut (restore .new s) s = makeActive (loaded s) := by
  cases cut with
  | none => right; show runItems _ _ = _; rw [run_restore]; exact congrArg makeActive (run_loadNew s)
  | some k =>
    rcases cancel_atomic_of_awaitsFirst _ (awaitsFirst_restoreNew s) k s with h | h
    · exact Or.inl h
    · right; show cancelAfter k _ s = _; rw [h, run_restore]; exact congrArg makeActive (run_loadNew s)

/-! ### the invariant -/

theorem good_new : Good IdxSt.new := by decide

theorem good_fromFile (n : Nat) : Good (IdxSt.fromFile n) :=
  ⟨fun h => by simp [IdxSt.fromFile] at h, fun _ => rfl, fun _ => Nat.succ_pos n, fun _ => rfl,
   fun h => by simp [IdxSt.fromFile] at h⟩

theorem good_offload {s : IdxSt} (h : Good s) : Good (offload s) := by
  obtain ⟨h1, h2, h3, h4, h5⟩ := h
  unfold offload; split
  · next hd => exact ⟨fun hm => by simp_all, h2, h3, h4, h5⟩
  · exact ⟨h1, h2, h3, h4, h5⟩

theorem good_loaded {s : IdxSt} (h : Good s) : Good (loaded s) := by
  obtain ⟨h1, h2, h3, h4, h5⟩ := h
  unfold loaded; split
  · exact ⟨h1, h2, h3, h4, h5⟩
  · exact ⟨fun _ => rfl, fun hd => by simp [setFilter, setInner] at hd, fun hd => by simp [setFilter, setInner] at hd,
      fun hd => by simp [setFilter, setInner] at hd, h5⟩

theorem good_makeActive {s : IdxSt} (h : Good s) : Good (makeActive s) := by
  obtain ⟨h1, h2, h3, h4, h5⟩ := h
  exact ⟨h1, h2, h3, h4, h5⟩

theorem good_push {s : IdxSt} (h : Good s) : Good (push s).2 := by
  obtain ⟨h1, h2, h3, h4, h5⟩ := h
  unfold push; split
  · next hm =>
    exact ⟨h1, fun hd => by simp_all, fun hd => by simp_all, fun hd => by simp_all, fun _ => Nat.succ_pos _⟩
  · exact ⟨h1, h2, h3, h4, h5⟩

theorem good_dump {s : IdxSt} (h : Good s) : Good (dump s).2 := by
  obtain ⟨h1, h2, h3, h4, h5⟩ := h
  unfold dump
  split
  · exact ⟨h1, h2, h3, h4, h5⟩
  · split
    · exact ⟨h1, h2, h3, h4, h5⟩
    · split
      · exact ⟨h1, h2, h3, h4, h5⟩
      · next hc _ =>
        exact ⟨fun hm => by simp at hm, fun _ => rfl, fun _ => Nat.pos_of_ne_zero hc, fun _ => rfl,
          fun hd => by simp at hd⟩

theorem good_close {s : IdxSt} (h : Good s) : Good (close s).2 := by
  unfold close; split
  · exact good_dump h
  · exact h

theorem good_step_new {s : IdxSt} (h : Good s) (op : Op) : Good (step .new op s).2 := by
  cases op with
  | offload => exact good_offload h
  | load cut =>
    show Good (runCut cut (load .new s) s)
    rcases runCut_load_new cut s with e | e <;> rw [e]
    · exact h
    · exact good_loaded h
  | push => exact good_push h
  | dump => exact good_dump h
  | restore cut =>
    show Good (runCut cut (restore .new s) s)
    rcases runCut_restore_new cut s with e | e <;> rw [e]
    · exact h
    · exact good_makeActive (good_loaded h)
  | close => exact good_close h

theorem reach_new_good {s : IdxSt} (h : Reach .new s) : Good s := by
  induction h with
  | init => exact good_new
  | opened n => exact good_fromFile n
  | step op _ ih => exact good_step_new ih op

theorem dump_ok_of_good {s : IdxSt} (h : Good s) : (dump s).1 = .ok := by
  unfold dump
  split
  · rfl
  · split
    · rfl
    · next hd _ =>
      have hm : s.index = .inMemory := by cases hi : s.index <;> simp_all
      rw [if_neg (by rw [h.mem_resident hm]; decide)]

theorem close_ok_of_good {s : IdxSt} (h : Good s) : (close s).1 = .ok := by
  unfold close; split
  · exact dump_ok_of_good h
  · rfl

theorem dump_clean_of_good {s : IdxSt} (h : Good s) : (dump s).2.dirty = false := by
  unfold dump
  split
  · next hd => exact h.disk_clean hd
  · split
    · next hc =>
      cases hd : s.dirty with
      | false => rfl
      | true => have := h.dirty_count hd; omega
    · split
      · next hd _ hf =>
        have hm : s.index = .inMemory := by cases hi : s.index <;> simp_all
        rw [h.mem_resident hm] at hf; cases hf
      · rfl

theorem filterReadable_of_good {s : IdxSt} (h : Good s) : filterReadable s = true := by
  unfold filterReadable
  cases hi : s.index with
  | inMemory => simp [h.mem_resident hi]
  | onDisk => simp [h.disk_offset hi]

/-! ### the state the old code could be left in is absorbing -/

/-- an in-memory, non-empty index whose filter buffer is off-loaded -/
def Stuck (s : IdxSt) : Prop := s.index = .inMemory ∧ s.filter = .offloaded ∧ 0 < s.count

theorem runCut_nil (cut : Option Nat) (s : IdxSt) : runCut cut [] s = s := by
  cases cut with
  | none => rfl
  | some k => cases k <;> rfl

theorem load_inMemory (v : Variant) {s : IdxSt} (h : s.index = .inMemory) : load v s = [] := by
  cases v <;> simp [load, loadOld, loadNew, h]

/-- `load` (either variant, completed or dropped) returns at once on an in-memory index -/
theorem step_load_inMemory (v : Variant) (cut : Option Nat) {s : IdxSt} (h : s.index = .inMemory) :
    step v (.load cut) s = (.ok, s) := by
  show (Res.ok, runCut cut (load v s) s) = _
  rw [load_inMemory v h, runCut_nil]

theorem step_restore_inMemory (v : Variant) (cut : Option Nat) {s : IdxSt} (h : s.index = .inMemory) :
    (step v (.restore cut) s).2 = s ∨ (step v (.restore cut) s).2 = makeActive s := by
  show runCut cut (restore v s) s = s ∨ runCut cut (restore v s) s = makeActive s
  simp only [restore, load_inMemory v h]
  cases cut with
  | none => right; rfl
  | some k =>
    match k with
    | 0 => left; rfl
    | 1 => left; rfl
    | 2 => left; rfl
    | _ + 3 => right; rfl

theorem stuck_dump {s : IdxSt} (h : Stuck s) : dump s = (.error, s) := by
  obtain ⟨h1, h2, h3⟩ := h
  unfold dump
  rw [if_neg (by rw [h1]; decide), if_neg (by omega), if_pos h2]

theorem stuck_close {s : IdxSt} (h : Stuck s) : close s = (.error, s) := by
  unfold close; rw [if_pos h.1]; exact stuck_dump h

theorem stuck_step (v : Variant) (op : Op) {s : IdxSt} (h : Stuck s) : Stuck (step v op s).2 := by
  cases op with
  | offload =>
    show Stuck (offload s)
    unfold offload; rw [if_neg (by rw [h.1]; decide)]; exact h
  | load cut => rw [step_load_inMemory v cut h.1]; exact h
  | push =>
    show Stuck (push s).2
    unfold push; rw [if_pos h.1]; exact ⟨h.1, h.2.1, Nat.succ_pos _⟩
  | dump => show Stuck (dump s).2; rw [stuck_dump h]; exact h
  | restore cut =>
    rcases step_restore_inMemory v cut h.1 with e | e <;> rw [e]
    · exact h
    · exact h
  | close => show Stuck (close s).2; rw [stuck_close h]; exact h

theorem stuck_exec (v : Variant) (ops : List Op) {s : IdxSt} (h : Stuck s) : Stuck (exec v ops s).2 := by
  induction ops generalizing s with
  | nil => exact h
  | cons op ops ih => exact ih (stuck_step v op h)

theorem stuck_not_good {s : IdxSt} (h : Stuck s) : ¬ Good s := by
  intro g
  have := g.mem_resident h.1
  rw [h.2.1] at this; cases this

/-- the whole history: every state on the way is `Good` -/
theorem exec_new_good {s : IdxSt} (h : Good s) (ops : List Op) : Good (exec .new ops s).2 := by
  induction ops generalizing s with
  | nil => exact h
  | cons op ops ih => exact ih (good_step_new h op)

theorem reach_exec (v : Variant) {s : IdxSt} (h : Reach v s) (ops : List Op) : Reach v (exec v ops s).2 := by
  induction ops generalizing s with
  | nil => exact h
  | cons op ops ih => exact ih (Reach.step op h)

end Pearl.CancelLoad
