import Pearl.Proofs.CancelLemmas
import Pearl.Proofs.CancelRefine
import Pearl.Proofs.StoreLemmas
/-
Helper lemmas for C14, third part: `delete_in_closed` drives the delete futures of the closed blobs through
`FuturesUnordered` (src/storage/core.rs): when the storage-level future is dropped, SEVERAL per-blob deletes
can be suspended, each at its own await, each with its own detached closure, and all those closures finish.

The state of the cancelled `delete_in_closed` is a CUT VECTOR `cuts : Nat → Nat`: for the closed blob in slot
`i`, `cuts i` = the number of segments its own `Blob::delete` future has completed.  The product state
(`cancelClosedProduct`) cuts every blob's future at its own point.  This file proves that the product state
is, slot by slot, the state the blob's own cancelled future leaves (`product_eq`), that the order in which the
effects of the different futures land is irrelevant (`product_perm`, `interleaving_run`), its L2 views, the
invariant, and that the sequential model of `deleteSegments` is the special case of "staircase" cut vectors.
-/
namespace Pearl.Cancel
open Pearl

/-! ### what one cancelled `Blob::delete` did to its blob -/

/-- the three things a cancelled `Blob::delete` can have done to its blob -/
inductive Cut where
  /-- nothing -/
  | untouched
  /-- the marker's bytes are in the file (written by the detached closure), the index does not know it -/
  | orphan
  /-- the marker is written and indexed -/
  | done
deriving DecidableEq, Repr, Inhabited

/-- `load_index` if the blob, as the operation found it, had its index on disk -/
def loadSel (b0 : CBlob) : CBlob → CBlob := if b0.onDisk then CBlob.loadIndex else id

/-- the effect on the blob (`b0` = the blob as the operation found it) -/
def cutB (c : Cfg) (a : DArgs) (b0 : CBlob) : Cut → CBlob → CBlob
  | .untouched => id
  | .orphan => fun b => (loadSel b0 b).fileWrite c a.entry
  | .done => fun b => ((loadSel b0 b).fileWrite c a.entry).pushWritten c a.entry

/-- which of them are possible on this blob -/
def Cut.Valid (c : Cfg) (a : DArgs) (oip : Bool) (b0 : CBlob) : Cut → Prop
  | .untouched => True
  | .orphan => needMarker a oip b0 = true ∧ c.detached (entryLen c a.entry) = true
  | .done => needMarker a oip b0 = true

instance (c : Cfg) (a : DArgs) (oip : Bool) (b0 : CBlob) (k : Cut) : Decidable (k.Valid c a oip b0) := by
  cases k <;> unfold Cut.Valid <;> infer_instance

/-- number of awaits of `Blob::delete` before `write_mut`: `index.get_latest(key).await` when
    `only_if_presented`, `load_index().await` when the index is on disk -/
def preAwaits (oip : Bool) (b0 : CBlob) : Nat := (if oip then 1 else 0) + (if b0.onDisk then 1 else 0)

/-- what the future of `Blob::delete`, dropped at its await number `k`, did -/
def cutOf (c : Cfg) (a : DArgs) (oip : Bool) (b0 : CBlob) (k : Nat) : Cut :=
  if needMarker a oip b0 = false ∨ k < preAwaits oip b0 then .untouched
  else if c.detached (entryLen c a.entry) = true ∧ k = preAwaits oip b0 then .orphan
  else .done

theorem cutOf_valid (c : Cfg) (a : DArgs) (oip : Bool) (b0 : CBlob) (k : Nat) :
    (cutOf c a oip b0 k).Valid c a oip b0 := by
  unfold cutOf
  split
  · trivial
  · next h1 =>
    have hn : needMarker a oip b0 = true := by
      cases h : needMarker a oip b0
      · exact absurd (Or.inl h) h1
      · rfl
    split
    · next h2 => exact ⟨hn, h2.1⟩
    · exact hn

theorem cancel_recWrite (c : Cfg) (on : (CBlob → CBlob) → CStore → CStore) (x : RecB) (k : Nat)
    (s : CStore) :
    cancelAfter k (recWriteItems c on x) s =
      if c.detached (entryLen c x) = true ∧ k = 0 then on (CBlob.fileWrite c x) s
      else on (CBlob.pushWritten c x) (on (CBlob.fileWrite c x) s) := by
  unfold recWriteItems
  cases hd : c.detached (entryLen c x)
  · simp only [Bool.false_eq_true, false_and, ↓reduceIte]
    cases k <;> rfl
  · rcases k with _ | k
    · rfl
    · simp only [↓reduceIte, Nat.add_eq_zero_iff, Nat.succ_ne_self, and_false]
      cases k <;> rfl

/-- THE per-blob lemma: the future of `Blob::delete` dropped at await `k` applied `cutB (cutOf k)` to its
    blob and did nothing else -/
theorem cancel_blobDelete_on {on : (CBlob → CBlob) → CStore → CStore} (hsel : BlobSel on)
    (hid : ∀ s, on id s = s) (c : Cfg) (a : DArgs) (oip : Bool) (b0 : CBlob) (k : Nat) (s : CStore) :
    cancelAfter k (blobDeleteItems c on a oip b0) s = on (cutB c a b0 (cutOf c a oip b0 k)) s := by
  rw [blobDeleteItems_eq]
  unfold cutOf preAwaits recWriteItems
  have h3 : ∀ n : Nat, ¬ (n + 1 + 1 + 1 < 2) := by intro n; omega
  cases hn : needMarker a oip b0 <;> cases oip <;> cases hod : b0.onDisk <;>
    cases hd : c.detached (entryLen c a.entry) <;> rcases k with _ | _ | _ | k <;>
    simp [cancelAfter, cutB, loadSel, hod, hsel.comp, hid, Function.comp_def, h3]


/-! ### the product state -/

/-- the `Blob::delete` future of the closed blob `p.2` in slot `p.1`, dropped after `k` segments, on its own -/
def cancelBlob (c : Cfg) (a : DArgs) (k : Nat) (p : Nat × CBlob) (s : CStore) : CStore :=
  cancelAfter k (blobDeleteItems c (CStore.onSlot p.1) a true p.2) s

/-- THE PRODUCT STATE: every closed blob's own future is cut at its own point (`cuts i` for the blob in
    slot `i`), and the closure each of them had handed to `spawn_blocking` finishes (`cancelAfter`).
    The effects are applied in the order of the list; `product_perm` / `interleaving_run`: any other order, and
    any interleaving of the individual actions, gives the same state. -/
def cancelClosedProduct (c : Cfg) (a : DArgs) (cuts : Nat → Nat) (L : List (Nat × CBlob)) (s : CStore) :
    CStore :=
  L.foldl (fun s p => cancelBlob c a (cuts p.1) p s) s

/-- the state of `Storage::delete` dropped inside `delete_in_closed` with cut vector `cuts`: the part before
    (`delS2`: active blob created if needed, `delete_in_active` completed, `blobs.write()` taken) is sequential -/
def cancelDeleteProduct (c : Cfg) (a : DArgs) (cuts : Nat → Nat) (s0 : CStore) : CStore :=
  cancelClosedProduct c a cuts (closedWithSlots (delS1 a s0)) (delS2 c a s0)

/-- apply `F i` to the blob in slot `i`, for every slot -/
def mapSlots (F : Nat → CBlob → CBlob) (s : CStore) : CStore :=
  { s with slots := s.slots.zipIdx.map (fun p => p.1.map (F p.2)) }

/-- the product state given by the KIND of cut of every slot -/
def prodState (c : Cfg) (a : DArgs) (kinds : Nat → Cut) (s : CStore) : CStore :=
  mapSlots (fun i b => cutB c a b (kinds i) b) s

/-- the kind of cut the vector `cuts` means for slot `i` of `s` -/
def kindAt (c : Cfg) (a : DArgs) (s : CStore) (cuts : Nat → Nat) (i : Nat) : Cut :=
  match s.slots[i]? with
  | some (some b) => cutOf c a true b (cuts i)
  | _ => .untouched

theorem mapSlots_slot (F : Nat → CBlob → CBlob) (s : CStore) (i : Nat) :
    (mapSlots F s).slots[i]? = (s.slots[i]?).map (·.map (F i)) := by
  unfold mapSlots
  simp only [List.getElem?_map, List.getElem?_zipIdx, Option.map_map, Nat.zero_add]
  rfl

theorem mapSlots_length (F : Nat → CBlob → CBlob) (s : CStore) :
    (mapSlots F s).slots.length = s.slots.length := by
  simp [mapSlots]

/-- `mapSlots` only looks at `F i b` for the blob `b` that IS in slot `i` -/
theorem mapSlots_congr (F G : Nat → CBlob → CBlob) (s : CStore)
    (h : ∀ i b, s.slots[i]? = some (some b) → F i b = G i b) : mapSlots F s = mapSlots G s := by
  unfold mapSlots
  congr 1
  apply List.map_congr_left
  intro p hp
  obtain ⟨o, i⟩ := p
  have := List.mk_mem_zipIdx_iff_getElem?.mp hp
  cases o with
  | none => rfl
  | some b => simp only [Option.map_some]; rw [h i b this]

/-- the indexed form of `foldl_modify_zipIdx` -/
theorem foldl_modify_zipIdx_idx {α : Type} (g : Nat → α → α → α) (l pre : List (Option α)) :
    ((l.zipIdx pre.length).filterMap (fun p => p.1.map (fun b => (p.2, b)))).foldl
        (fun acc p => acc.modify p.1 (·.map (g p.1 p.2))) (pre ++ l) =
      pre ++ (l.zipIdx pre.length).map (fun p => p.1.map (fun b => g p.2 b b)) := by
  induction l generalizing pre with
  | nil => simp
  | cons o l ih =>
    rw [List.zipIdx_cons]
    cases o with
    | none =>
      simp only [List.filterMap_cons, Option.map_none, List.map_cons]
      have := ih (pre ++ [none])
      rw [List.length_append, List.length_singleton, List.append_assoc, List.singleton_append] at this
      rw [this]
      simp
    | some b =>
      simp only [List.filterMap_cons, Option.map_some, List.foldl_cons, List.map_cons]
      rw [modify_length_append]
      have := ih (pre ++ [some (g pre.length b b)])
      rw [List.length_append, List.length_singleton, List.append_assoc, List.singleton_append] at this
      simp only [Option.map_some]
      rw [this]
      simp

theorem foldl_onSlot_idx (F : Nat → CBlob → CBlob → CBlob) (L : List (Nat × CBlob)) (s : CStore) :
    L.foldl (fun s p => CStore.onSlot p.1 (F p.1 p.2) s) s =
      { s with slots := L.foldl (fun acc p => acc.modify p.1 (·.map (F p.1 p.2))) s.slots } := by
  induction L generalizing s with
  | nil => rfl
  | cons p L ih =>
    rw [List.foldl_cons, ih]
    rfl

theorem cancelBlob_eq (c : Cfg) (a : DArgs) (k : Nat) (p : Nat × CBlob) (s : CStore) :
    cancelBlob c a k p s = CStore.onSlot p.1 (cutB c a p.2 (cutOf c a true p.2 k)) s :=
  cancel_blobDelete_on (onSlot_sel p.1) (onSlot_id p.1) c a true p.2 k s

/-- the product over the closed blobs of `s1`, slot by slot -/
theorem product_on_closed (c : Cfg) (a : DArgs) (cuts : Nat → Nat) (s1 s : CStore)
    (hs : s.slots = s1.slots) :
    cancelClosedProduct c a cuts (closedWithSlots s1) s =
      mapSlots (fun i b => cutB c a b (cutOf c a true b (cuts i)) b) s := by
  unfold cancelClosedProduct
  simp only [cancelBlob_eq]
  rw [foldl_onSlot_idx (fun i b0 => cutB c a b0 (cutOf c a true b0 (cuts i))), hs]
  have := foldl_modify_zipIdx_idx (fun i b0 => cutB c a b0 (cutOf c a true b0 (cuts i))) s1.slots []
  simp only [List.length_nil, List.nil_append] at this
  unfold closedWithSlots mapSlots
  rw [this, hs]


/-! ### the product state, slot by slot -/

theorem delS2_eq (c : Cfg) (a : DArgs) (s0 : CStore) :
    delS2 c a s0 = { delS1 a s0 with active := (delS1 a s0).active.map (delB c a a.oip) } :=
  delActive_run c a (delS1 a s0)

/-- `delete_in_active` leaves the closed blobs alone -/
theorem delS2_slots (c : Cfg) (a : DArgs) (s0 : CStore) : (delS2 c a s0).slots = (delS1 a s0).slots := by
  rw [delS2_eq]

/-- the product state is `prodState` of the kinds the cut vector means -/
theorem product_eq (c : Cfg) (a : DArgs) (cuts : Nat → Nat) (s0 : CStore) :
    cancelDeleteProduct c a cuts s0 =
      prodState c a (kindAt c a (delS2 c a s0) cuts) (delS2 c a s0) := by
  unfold cancelDeleteProduct prodState
  rw [product_on_closed c a cuts _ _ (delS2_slots c a s0)]
  apply mapSlots_congr
  intro i b hb
  unfold kindAt
  rw [hb]

theorem onSlot_slot (i : Nat) (f : CBlob → CBlob) (s : CStore) (j : Nat) :
    (CStore.onSlot i f s).slots[j]? = if i = j then (s.slots[j]?).map (·.map f) else s.slots[j]? := by
  unfold CStore.onSlot
  simp only [List.getElem?_modify]
  split <;> cases s.slots[j]? <;> simp

theorem loadSel_self (b : CBlob) : loadSel b b = loadedB b := by
  unfold loadSel loadedB
  cases b.onDisk <;> rfl

/-- the states of `cancel_blob_delete`, on the blob itself -/
def BlobCutState (c : Cfg) (a : DArgs) (b tb : CBlob) : Prop :=
  tb = b ∨
  (needMarker a true b = true ∧ c.detached (entryLen c a.entry) = true ∧
    tb = (loadedB b).fileWrite c a.entry) ∨
  (needMarker a true b = true ∧ tb = delB c a true b)

theorem cutB_state (c : Cfg) (a : DArgs) (b : CBlob) (kind : Cut) (hv : kind.Valid c a true b) :
    BlobCutState c a b (cutB c a b kind b) := by
  cases kind with
  | untouched => exact Or.inl rfl
  | orphan => exact Or.inr (Or.inl ⟨hv.1, hv.2, by unfold cutB; simp only; rw [loadSel_self]⟩)
  | done =>
    refine Or.inr (Or.inr ⟨hv, ?_⟩)
    rw [delB_eq, show needMarker a true b = true from hv]
    unfold cutB
    simp only [↓reduceIte]
    rw [loadSel_self]

/-- slot `i` of the product state is slot `i` of what the blob's OWN cancelled future leaves when it runs
    alone on `delS2`; that future touches no other slot; and the blob is `cutB (cutOf (cuts i))` of itself -/
theorem product_slot (c : Cfg) (a : DArgs) (cuts : Nat → Nat) (s0 : CStore) (i : Nat) (b : CBlob)
    (hb : (delS2 c a s0).slots[i]? = some (some b)) :
    (cancelDeleteProduct c a cuts s0).slots[i]? =
      (cancelBlob c a (cuts i) (i, b) (delS2 c a s0)).slots[i]? ∧
    (∀ j : Nat, j ≠ i →
      (cancelBlob c a (cuts i) (i, b) (delS2 c a s0)).slots[j]? = (delS2 c a s0).slots[j]?) ∧
    (cancelDeleteProduct c a cuts s0).slots[i]? =
      some (some (cutB c a b (cutOf c a true b (cuts i)) b)) := by
  have h3 : (cancelDeleteProduct c a cuts s0).slots[i]? =
      some (some (cutB c a b (cutOf c a true b (cuts i)) b)) := by
    rw [product_eq]
    unfold prodState
    rw [mapSlots_slot, hb]
    simp only [Option.map_some, kindAt, hb]
  refine ⟨?_, ?_, h3⟩
  · rw [h3, cancelBlob_eq, onSlot_slot, if_pos rfl, hb]
    rfl
  · intro j hj
    rw [cancelBlob_eq, onSlot_slot, if_neg (fun h => hj h.symm)]

/-- an empty slot stays empty, and the number of slots does not change -/
theorem product_shape (c : Cfg) (a : DArgs) (cuts : Nat → Nat) (s0 : CStore) :
    (cancelDeleteProduct c a cuts s0).slots.length = (delS2 c a s0).slots.length ∧
    (∀ i : Nat, (delS2 c a s0).slots[i]? = some none → (cancelDeleteProduct c a cuts s0).slots[i]? = some none) ∧
    (cancelDeleteProduct c a cuts s0).active = (delS2 c a s0).active ∧
    (cancelDeleteProduct c a cuts s0).nextId = (delS2 c a s0).nextId ∧
    (cancelDeleteProduct c a cuts s0).allowDup = (delS2 c a s0).allowDup ∧
    (cancelDeleteProduct c a cuts s0).stray = (delS2 c a s0).stray := by
  rw [product_eq]
  unfold prodState
  refine ⟨mapSlots_length _ _, ?_, rfl, rfl, rfl, rfl⟩
  intro i hi
  rw [mapSlots_slot, hi]
  rfl

/-! ### every combination of per-blob states is a product state -/

/-- a cut that leaves the blob in the state `kind` -/
def cutFor (b : CBlob) : Cut → Nat
  | .untouched => 0
  | .orphan => preAwaits true b
  | .done => preAwaits true b + 1

theorem preAwaits_pos (b : CBlob) : 0 < preAwaits true b := by
  unfold preAwaits
  simp only [↓reduceIte]
  omega

theorem preAwaits_le (oip : Bool) (b : CBlob) : preAwaits oip b ≤ 2 := by
  unfold preAwaits
  cases oip <;> cases b.onDisk <;> simp

theorem cutOf_cutFor (c : Cfg) (a : DArgs) (b : CBlob) (kind : Cut) (hv : kind.Valid c a true b) :
    cutOf c a true b (cutFor b kind) = kind := by
  have hp := preAwaits_pos b
  unfold cutOf
  cases kind with
  | untouched => rw [if_pos (Or.inr (show cutFor b Cut.untouched < preAwaits true b from hp))]
  | orphan =>
    have h1 : needMarker a true b = true := hv.1
    have h2 : c.detached (entryLen c a.entry) = true := hv.2
    rw [if_neg (by rw [h1]; simp [cutFor]), if_pos ⟨h2, rfl⟩]
  | done =>
    have h1 : needMarker a true b = true := hv
    rw [if_neg (by rw [h1]; simp [cutFor]), if_neg (by simp [cutFor])]

/-- every slot's kind is possible on the blob of that slot -/
def KindsValid (c : Cfg) (a : DArgs) (kinds : Nat → Cut) (s : CStore) : Prop :=
  ∀ i b, s.slots[i]? = some (some b) → (kinds i).Valid c a true b

theorem kindAt_valid (c : Cfg) (a : DArgs) (s : CStore) (cuts : Nat → Nat) :
    KindsValid c a (kindAt c a s cuts) s := by
  intro i b hb
  unfold kindAt
  rw [hb]
  exact cutOf_valid c a true b (cuts i)

/-- the cut vector that realises `kinds` -/
def cutsFor (s : CStore) (kinds : Nat → Cut) (i : Nat) : Nat :=
  match s.slots[i]? with
  | some (some b) => cutFor b (kinds i)
  | _ => 0

/-- INDEPENDENCE: whatever (possible) state is chosen for each closed blob, some cut vector produces exactly
    that combination -/
theorem product_reaches (c : Cfg) (a : DArgs) (kinds : Nat → Cut) (s0 : CStore)
    (hv : KindsValid c a kinds (delS2 c a s0)) :
    cancelDeleteProduct c a (cutsFor (delS2 c a s0) kinds) s0 = prodState c a kinds (delS2 c a s0) := by
  rw [product_eq]
  unfold prodState
  apply mapSlots_congr
  intro i b hb
  unfold kindAt cutsFor
  rw [hb]
  simp only
  rw [cutOf_cutFor c a b (kinds i) (hv i b hb)]

/-! ### the invariant -/

theorem product_inv {c : Cfg} (a : DArgs) (cuts : Nat → Nat) (L : List (Nat × CBlob)) (s : CStore)
    (h : StoreInv c s) (hm : (serMeta a.entry.1.mt).length < 2 ^ 64) :
    StoreInv c (cancelClosedProduct c a cuts L s) := by
  induction L generalizing s with
  | nil => exact h
  | cons p L ih =>
    exact ih _ (blobDeleteState_inv (onSlot_sel p.1) (onSlot_id p.1) a true p.2 s _ h hm
      (blobDelete_cancelStates _ _ _ _ _ _ _ ⟨cuts p.1, rfl⟩))

theorem cancelDeleteProduct_inv {c : Cfg} (a : DArgs) (cuts : Nat → Nat) (s0 : CStore)
    (h : StoreInv c s0) (hm : (serMeta a.entry.1.mt).length < 2 ^ 64) :
    StoreInv c (cancelDeleteProduct c a cuts s0) :=
  product_inv a cuts _ _ (delS2_inv a s0 h hm) hm


/-! ### L2 views of the product state -/

/-- what THIS session sees of a blob whose delete was cut: nothing new; nothing new (the index, if it was on
    disk, is in memory now); the marker -/
def viewB (a : DArgs) : Cut → Blob → Blob
  | .untouched, B => B
  | .orphan, B => { B with onDisk := false }
  | .done, B => Store.mark a.k a.ts a.m B

/-- what a start that regenerates the index from the blob file sees: the marker iff the closure reached the
    file -/
def fileB (a : DArgs) : Cut → Blob → Blob
  | .untouched, B => B
  | _, B => Store.mark a.k a.ts a.m B

theorem toBlob_cutB (c : Cfg) (a : DArgs) (b : CBlob) (kind : Cut) :
    (cutB c a b kind b).toBlob = viewB a kind b.toBlob := by
  cases kind <;> unfold cutB viewB loadSel <;> cases hod : b.onDisk <;>
    simp [CBlob.toBlob, CBlob.pushWritten, CBlob.push, CBlob.fileWrite, CBlob.loadIndex, DArgs.entry, hod,
      Store.mark, Store.marker]

theorem regenBlob_cutB (c : Cfg) (a : DArgs) (b : CBlob) (kind : Cut) :
    (cutB c a b kind b).regenBlob = fileB a kind b.regenBlob := by
  cases kind <;> unfold cutB fileB loadSel <;> cases hod : b.onDisk <;>
    simp [CBlob.regenBlob, CBlob.pushWritten, CBlob.push, CBlob.fileWrite, CBlob.loadIndex, DArgs.entry,
      Store.mark, Store.marker]

/-- L2: apply `G i` to the blob in slot `i` -/
def mapSlotsL2 (G : Nat → Blob → Blob) (S : Store) : Store :=
  { S with slots := S.slots.zipIdx.map (fun p => p.1.map (G p.2)) }

theorem mapSlotsL2_slot (G : Nat → Blob → Blob) (S : Store) (i : Nat) :
    (mapSlotsL2 G S).slots[i]? = (S.slots[i]?).map (·.map (G i)) := by
  unfold mapSlotsL2
  simp only [List.getElem?_map, List.getElem?_zipIdx, Option.map_map, Nat.zero_add]
  rfl

theorem slots_view (view : CBlob → Blob) (F : Nat → CBlob → CBlob) (G : Nat → Blob → Blob) (s : CStore)
    (h : ∀ i b, s.slots[i]? = some (some b) → view (F i b) = G i (view b)) :
    (mapSlots F s).slots.map (·.map view) =
      ((s.slots.map (·.map view)).zipIdx).map (fun p => p.1.map (G p.2)) := by
  apply List.ext_getElem?
  intro i
  simp only [List.getElem?_map, mapSlots_slot, List.getElem?_zipIdx, Option.map_map, Nat.zero_add]
  cases hs : s.slots[i]? with
  | none => rfl
  | some o =>
    cases o with
    | none => rfl
    | some b => simp [h i b hs]

theorem toStore_mapSlots (F : Nat → CBlob → CBlob) (G : Nat → Blob → Blob) (s : CStore)
    (h : ∀ i b, s.slots[i]? = some (some b) → (F i b).toBlob = G i b.toBlob) :
    (mapSlots F s).toStore = mapSlotsL2 G s.toStore := by
  have := slots_view CBlob.toBlob F G s h
  unfold CStore.toStore mapSlotsL2
  simp only [this]
  rfl

theorem regen_mapSlots (F : Nat → CBlob → CBlob) (G : Nat → Blob → Blob) (s : CStore)
    (h : ∀ i b, s.slots[i]? = some (some b) → (F i b).regenBlob = G i b.regenBlob) :
    (mapSlots F s).regen = mapSlotsL2 G s.regen := by
  have := slots_view CBlob.regenBlob F G s h
  unfold CStore.regen mapSlotsL2
  simp only [this]
  rfl

/-- THIS session's view of the product state, exactly -/
theorem toStore_prodState (c : Cfg) (a : DArgs) (kinds : Nat → Cut) (s : CStore) :
    (prodState c a kinds s).toStore = mapSlotsL2 (fun i => viewB a (kinds i)) s.toStore :=
  toStore_mapSlots _ _ s (fun i b _ => toBlob_cutB c a b (kinds i))

/-- the view of a start that regenerates every index, exactly -/
theorem regen_prodState (c : Cfg) (a : DArgs) (kinds : Nat → Cut) (s : CStore) :
    (prodState c a kinds s).regen = mapSlotsL2 (fun i => fileB a (kinds i)) s.regen :=
  regen_mapSlots _ _ s (fun i b _ => regenBlob_cutB c a b (kinds i))

/-! ### "the sequential delete restricted to a subset of the target blobs" -/

/-- the completed `delete_in_closed` restricted to the closed blobs in the slots of `M` -/
def delClosedOn (c : Cfg) (a : DArgs) (M : Nat → Bool) (s : CStore) : CStore :=
  mapSlots (fun i b => if M i then delB c a true b else b) s

/-- L2: `Store.delete`'s treatment of the closed blobs, restricted to the slots of `M` -/
def deleteClosedOn (a : DArgs) (M : Nat → Bool) (S : Store) : Store :=
  mapSlotsL2 (fun i B => if M i then (Store.blobDelete B a.k a.ts a.m true).1 else B) S

/-- L2: the marker appended to the closed blobs in the slots of `M` -/
def markOn (a : DArgs) (M : Nat → Bool) (S : Store) : Store :=
  mapSlotsL2 (fun i B => if M i then Store.mark a.k a.ts a.m B else B) S

theorem toStore_delClosedOn (c : Cfg) (a : DArgs) (M : Nat → Bool) (s : CStore) :
    (delClosedOn c a M s).toStore = deleteClosedOn a M s.toStore := by
  apply toStore_mapSlots
  intro i b _
  cases M i
  · rfl
  · exact toBlob_delB c a true b

theorem mapSlots_const (f : CBlob → CBlob) (s : CStore) :
    mapSlots (fun _ b => f b) s = { s with slots := s.slots.map (·.map f) } := by
  unfold mapSlots
  congr 1
  apply List.ext_getElem?
  intro i
  simp only [List.getElem?_map, List.getElem?_zipIdx, Option.map_map]
  rfl

theorem mapSlots_id (s : CStore) : mapSlots (fun _ b => b) s = s := by
  rw [mapSlots_const]
  have : (fun o : Option CBlob => o.map (fun b => b)) = id := by funext o; cases o <;> rfl
  rw [this, List.map_id]

/-- the subset "all closed blobs" is the completed delete -/
theorem delClosedOn_all (c : Cfg) (a : DArgs) (s0 : CStore) :
    delClosedOn c a (fun _ => true) (delS2 c a s0) = runItems (deleteSegments c a s0) s0 := by
  unfold delClosedOn
  simp only [↓reduceIte]
  rw [mapSlots_const, delete_run, delS2_eq]

/-- the empty subset is the state before `delete_in_closed` -/
theorem delClosedOn_none (c : Cfg) (a : DArgs) (s : CStore) : delClosedOn c a (fun _ => false) s = s := by
  unfold delClosedOn
  simp only [Bool.false_eq_true, ↓reduceIte]
  exact mapSlots_id s

/-- the blobs on which `delete_in_closed` puts a marker: the key is live in the blob's index -/
def isTarget (a : DArgs) (s : CStore) (i : Nat) : Bool :=
  match s.slots[i]? with
  | some (some b) => needMarker a true b
  | _ => false

/-- the blobs whose marker is written AND indexed -/
def doneSet (kinds : Nat → Cut) (i : Nat) : Bool := decide (kinds i = .done)

/-- the blobs whose marker reached the file -/
def fileSet (kinds : Nat → Cut) (i : Nat) : Bool := decide (kinds i ≠ .untouched)

theorem doneSet_sub_fileSet (kinds : Nat → Cut) (i : Nat) (h : doneSet kinds i = true) :
    fileSet kinds i = true := by
  unfold doneSet at h
  unfold fileSet
  simp only [decide_eq_true_eq] at h
  simp [h]

theorem fileSet_sub_target (c : Cfg) (a : DArgs) (kinds : Nat → Cut) (s : CStore)
    (hv : KindsValid c a kinds s) (i : Nat) (b : CBlob) (hb : s.slots[i]? = some (some b))
    (h : fileSet kinds i = true) : isTarget a s i = true := by
  unfold isTarget
  rw [hb]
  have := hv i b hb
  unfold fileSet at h
  simp only [ne_eq, decide_not, Bool.not_eq_eq_eq_not, Bool.not_true, decide_eq_false_iff_not] at h
  cases hk : kinds i with
  | untouched => exact absurd hk h
  | orphan => rw [hk] at this; exact this.1
  | done => rw [hk] at this; exact this

/-- without a detached closure the two sets coincide: there is no orphan marker -/
theorem fileSet_eq_doneSet (c : Cfg) (a : DArgs) (kinds : Nat → Cut) (s : CStore)
    (hv : KindsValid c a kinds s) (hd : c.detached (entryLen c a.entry) = false)
    (i : Nat) (b : CBlob) (hb : s.slots[i]? = some (some b)) : fileSet kinds i = doneSet kinds i := by
  have := hv i b hb
  unfold fileSet doneSet
  cases hk : kinds i with
  | untouched => rfl
  | orphan =>
    rw [hk] at this
    have h2 : c.detached (entryLen c a.entry) = true := this.2
    rw [hd] at h2
    cases h2
  | done => rfl

/-- a subset delete is itself a product state -/
theorem delClosedOn_is_product (c : Cfg) (a : DArgs) (M : Nat → Bool) (s0 : CStore) :
    delClosedOn c a M (delS2 c a s0) = cancelDeleteProduct c a (fun i => if M i then 3 else 0) s0 := by
  rw [product_eq]
  unfold delClosedOn prodState
  apply mapSlots_congr
  intro i b hb
  unfold kindAt
  rw [hb]
  simp only
  have hp := preAwaits_pos b
  have hle := preAwaits_le true b
  cases M i
  · simp only [Bool.false_eq_true, ↓reduceIte]
    unfold cutOf
    rw [if_pos (Or.inr hp)]
    rfl
  · simp only [↓reduceIte]
    rw [delB_eq]
    unfold cutOf
    cases hn : needMarker a true b
    · simp only [true_or, ↓reduceIte, Bool.false_eq_true]
      rfl
    · have h1 : ¬ (true = false ∨ 3 < preAwaits true b) := by
        intro h; rcases h with h | h
        · cases h
        · omega
      have h2 : ¬ (c.detached (entryLen c a.entry) = true ∧ 3 = preAwaits true b) := by
        intro h; omega
      rw [if_neg h1, if_neg h2]
      simp only [↓reduceIte]
      unfold cutB
      simp only
      rw [loadSel_self]


/-! ### answers do not depend on where an index resides -/

/-- forget where the index of the blob resides -/
def forgetB (B : Blob) : Blob := { B with onDisk := false }

/-- forget where the indexes reside -/
def forgetS (S : Store) : Store :=
  { S with active := S.active.map forgetB, slots := S.slots.map (·.map forgetB) }

theorem closed_forgetS (S : Store) : (forgetS S).closed = S.closed.map forgetB :=
  Store.closed_map_option forgetB S.slots

theorem toList_map_opt {α β : Type} (f : α → β) (o : Option α) : (o.map f).toList = o.toList.map f := by
  cases o <;> rfl

theorem visit_forgetS (S : Store) : (forgetS S).visit = S.visit.map forgetB := by
  unfold Store.visit
  rw [closed_forgetS, List.map_append, List.map_reverse]
  exact congrArg (· ++ _) (toList_map_opt forgetB S.active)

theorem blobs_forgetS (S : Store) : (forgetS S).blobs = S.blobs.map forgetB := by
  unfold Store.blobs
  rw [closed_forgetS, List.map_append]
  exact congrArg (_ ++ ·) (toList_map_opt forgetB S.active)

theorem getLatestEntry_forgetS (S : Store) (k : Key) (m : Option Meta) :
    (forgetS S).getLatestEntry k m = S.getLatestEntry k m := by
  have hB : ∀ b : Blob, (forgetB b).getLatestEntry k m = b.getLatestEntry k m := by
    intro b; cases m <;> rfl
  unfold Store.getLatestEntry Store.getLatestEntryP
  rw [visit_forgetS]
  have hf : ∀ l : List Blob, l.filter (fun b => !(fun (_ : Blob) (_ : Key) => false) b k) = l := by
    intro l; simp
  rw [hf, hf, List.foldl_map]
  simp only [hB]

theorem readAllMarked_forgetS (S : Store) (k : Key) : (forgetS S).readAllMarked k = S.readAllMarked k := by
  unfold Store.readAllMarked
  rw [visit_forgetS, List.map_map]
  rfl

/-- every query answers alike whether an index is in memory or on disk -/
theorem qeq_forgetS (S : Store) : QEq S (forgetS S) := by
  refine ⟨fun k m => (getLatestEntry_forgetS S k m).symm, ?_, ?_, fun k => (readAllMarked_forgetS S k).symm,
    ?_, rfl⟩
  · intro k; unfold Store.contains; rw [getLatestEntry_forgetS]
  · intro k; unfold Store.readAll; rw [readAllMarked_forgetS]
  · unfold Store.recordsCount
    rw [blobs_forgetS, List.map_map]
    rfl

theorem qeq_of_forget {A B : Store} (h : forgetS A = forgetS B) : QEq A B :=
  (qeq_forgetS A).trans (by rw [h]; exact (qeq_forgetS B).symm)

theorem forgetS_mapSlotsL2_congr (G G' : Nat → Blob → Blob) (S : Store)
    (h : ∀ i B, S.slots[i]? = some (some B) → forgetB (G i B) = forgetB (G' i B)) :
    forgetS (mapSlotsL2 G S) = forgetS (mapSlotsL2 G' S) := by
  unfold forgetS
  have : (mapSlotsL2 G S).slots.map (·.map forgetB) = (mapSlotsL2 G' S).slots.map (·.map forgetB) := by
    apply List.ext_getElem?
    intro i
    simp only [List.getElem?_map, mapSlotsL2_slot]
    cases hs : S.slots[i]? with
    | none => rfl
    | some o =>
      cases o with
      | none => rfl
      | some B => simp [h i B hs]
  rw [this]
  rfl

theorem toStore_slot (s : CStore) (i : Nat) : s.toStore.slots[i]? = (s.slots[i]?).map (·.map CBlob.toBlob) := by
  unfold CStore.toStore
  simp only [List.getElem?_map]

/-- (2) THIS session's view of a product state is, up to index residence, the sequential delete restricted
    to the blobs whose marker is written and indexed -/
theorem toStore_prodState_subset (c : Cfg) (a : DArgs) (kinds : Nat → Cut) (s : CStore)
    (hv : KindsValid c a kinds s) :
    forgetS (prodState c a kinds s).toStore = forgetS (delClosedOn c a (doneSet kinds) s).toStore := by
  rw [toStore_prodState, toStore_delClosedOn]
  unfold deleteClosedOn
  apply forgetS_mapSlotsL2_congr
  intro i B hB
  rw [toStore_slot] at hB
  cases hs : s.slots[i]? with
  | none => rw [hs] at hB; cases hB
  | some o =>
    cases o with
    | none => rw [hs] at hB; cases hB
    | some b =>
      rw [hs] at hB
      simp only [Option.map_some, Option.some.injEq] at hB
      subst hB
      have hvi := hv i b hs
      unfold doneSet
      cases hk : kinds i with
      | untouched => rfl
      | orphan => rfl
      | done =>
        rw [hk] at hvi
        have hn : (!true || (b.toBlob.getLatest a.k).isFound) = true := hvi
        simp only [decide_true, ↓reduceIte]
        rw [Store.blobDelete_fst, hn]
        rfl

/-- (3) the view of a start that regenerates every index: the marker is in exactly the blobs whose closure
    reached the file -/
theorem regen_prodState_markOn (c : Cfg) (a : DArgs) (kinds : Nat → Cut) (s : CStore) :
    (prodState c a kinds s).regen = markOn a (fileSet kinds) s.regen := by
  rw [regen_prodState]
  unfold markOn fileSet
  congr 1
  funext i B
  cases kinds i <;> rfl

theorem regenBlob_delB (c : Cfg) (a : DArgs) (b : CBlob) (hn : needMarker a true b = true) :
    (delB c a true b).regenBlob = Store.mark a.k a.ts a.m b.regenBlob := by
  rw [delB_eq, hn]
  simp only [↓reduceIte]
  unfold loadedB
  cases hod : b.onDisk <;>
    simp [CBlob.regenBlob, CBlob.pushWritten, CBlob.push, CBlob.fileWrite, CBlob.loadIndex, DArgs.entry,
      Store.mark, Store.marker]

/-- the same view of a subset delete (of targets) -/
theorem regen_delClosedOn (c : Cfg) (a : DArgs) (M : Nat → Bool) (s : CStore)
    (hM : ∀ i b, s.slots[i]? = some (some b) → M i = true → needMarker a true b = true) :
    (delClosedOn c a M s).regen = markOn a M s.regen := by
  apply regen_mapSlots
  intro i b hb
  cases hMi : M i
  · rfl
  · simp only [↓reduceIte]
    exact regenBlob_delB c a b (hM i b hb hMi)

/-- ... so the product state and the sequential delete restricted to the blobs whose closure reached the file
    are the same storage after such a start -/
theorem regen_prodState_subset (c : Cfg) (a : DArgs) (kinds : Nat → Cut) (s : CStore)
    (hv : KindsValid c a kinds s) :
    (prodState c a kinds s).regen = (delClosedOn c a (fileSet kinds) s).regen := by
  rw [regen_prodState_markOn, regen_delClosedOn]
  intro i b hb hM
  have := fileSet_sub_target c a kinds s hv i b hb hM
  unfold isTarget at this
  rw [hb] at this
  exact this


/-! ### the sequential model is the special case of "staircase" cut vectors -/

/-- the items of the delete future of one closed blob -/
def closedItems (c : Cfg) (a : DArgs) (p : Nat × CBlob) : List (Item CStore) :=
  blobDeleteItems c (CStore.onSlot p.1) a true p.2

theorem delClosedItems_eq (c : Cfg) (a : DArgs) (s1 : CStore) :
    delClosedItems c a s1 = (closedWithSlots s1).map (closedItems c a) := rfl

theorem awaits_blobDelete_le (c : Cfg) (on : (CBlob → CBlob) → CStore → CStore) (a : DArgs) (oip : Bool)
    (b0 : CBlob) : awaits (blobDeleteItems c on a oip b0) ≤ 3 := by
  rw [blobDeleteItems_eq]
  unfold recWriteItems
  cases oip <;> cases needMarker a _ b0 <;> cases b0.onDisk <;> cases c.detached (entryLen c a.entry) <;>
    simp [awaits]

/-- a cut at 3 or more: the blob's future completed -/
theorem cancelBlob_full (c : Cfg) (a : DArgs) (k : Nat) (hk : 3 ≤ k) (p : Nat × CBlob) (s : CStore) :
    cancelBlob c a k p s = runItems (closedItems c a p) s :=
  cancelAfter_ge _ k s (Nat.le_trans (awaits_blobDelete_le c _ a true p.2) hk)

/-- a cut at 0: the blob's future did nothing (it starts with the await of `index.get_latest`) -/
theorem cancelBlob_zero (c : Cfg) (a : DArgs) (p : Nat × CBlob) (s : CStore) : cancelBlob c a 0 p s = s := by
  unfold cancelBlob
  rw [blobDeleteItems_eq]
  rfl

theorem product_full (c : Cfg) (a : DArgs) (cuts : Nat → Nat) (L : List (Nat × CBlob)) (s : CStore)
    (h : ∀ q ∈ L, 3 ≤ cuts q.1) :
    cancelClosedProduct c a cuts L s = runItems (L.map (closedItems c a)).flatten s := by
  induction L generalizing s with
  | nil => rfl
  | cons p L ih =>
    unfold cancelClosedProduct
    rw [List.foldl_cons, cancelBlob_full c a _ (h p (List.mem_cons_self ..)), List.map_cons,
      List.flatten_cons, runItems_append]
    exact ih _ (fun q hq => h q (List.mem_cons_of_mem _ hq))

theorem product_zero (c : Cfg) (a : DArgs) (cuts : Nat → Nat) (L : List (Nat × CBlob)) (s : CStore)
    (h : ∀ q ∈ L, cuts q.1 = 0) : cancelClosedProduct c a cuts L s = s := by
  induction L generalizing s with
  | nil => rfl
  | cons p L ih =>
    unfold cancelClosedProduct
    rw [List.foldl_cons, h p (List.mem_cons_self ..), cancelBlob_zero]
    exact ih _ (fun q hq => h q (List.mem_cons_of_mem _ hq))

theorem product_append (c : Cfg) (a : DArgs) (cuts : Nat → Nat) (L1 L2 : List (Nat × CBlob)) (s : CStore) :
    cancelClosedProduct c a cuts (L1 ++ L2) s =
      cancelClosedProduct c a cuts L2 (cancelClosedProduct c a cuts L1 s) := by
  unfold cancelClosedProduct
  rw [List.foldl_append]

/-- the cut vector of the sequential model: the blobs in the slots before `j` completed, the blob in slot `j`
    is cut at `k`, the later ones have not started -/
def staircase (j k : Nat) (i : Nat) : Nat := if i < j then 3 else if i = j then k else 0

/-- the closed blobs are listed by ascending slot number -/
theorem closedFrom_sorted (l : List (Option CBlob)) (n : Nat) :
    ((l.zipIdx n).filterMap (fun p => p.1.map (fun b => (p.2, b)))).Pairwise (fun x y => x.1 < y.1) ∧
    ∀ x ∈ (l.zipIdx n).filterMap (fun p => p.1.map (fun b => (p.2, b))), n ≤ x.1 := by
  induction l generalizing n with
  | nil => exact ⟨List.Pairwise.nil, fun x hx => by cases hx⟩
  | cons o l ih =>
    rw [List.zipIdx_cons]
    obtain ⟨ih1, ih2⟩ := ih (n + 1)
    cases o with
    | none =>
      simp only [List.filterMap_cons, Option.map_none]
      exact ⟨ih1, fun x hx => Nat.le_of_succ_le (ih2 x hx)⟩
    | some b =>
      simp only [List.filterMap_cons, Option.map_some]
      refine ⟨List.pairwise_cons.mpr ⟨fun y hy => ih2 y hy, ih1⟩, ?_⟩
      intro x hx
      rcases List.mem_cons.mp hx with rfl | hx
      · exact Nat.le_refl _
      · exact Nat.le_of_succ_le (ih2 x hx)

theorem closedWithSlots_sorted (s : CStore) : (closedWithSlots s).Pairwise (fun x y => x.1 < y.1) :=
  (closedFrom_sorted s.slots 0).1

/-- the product at a staircase: the sequential state "blobs before completed, this one cut at `k`" -/
theorem product_staircase (c : Cfg) (a : DArgs) (k : Nat) (L1 L2 : List (Nat × CBlob)) (p : Nat × CBlob)
    (s : CStore) (hs : (L1 ++ p :: L2).Pairwise (fun x y => x.1 < y.1)) :
    cancelClosedProduct c a (staircase p.1 k) (L1 ++ p :: L2) s =
      cancelBlob c a k p (runItems (L1.map (closedItems c a)).flatten s) := by
  obtain ⟨_, h2, h3⟩ := List.pairwise_append.mp hs
  obtain ⟨h4, _⟩ := List.pairwise_cons.mp h2
  rw [product_append, product_full c a _ L1 s (fun q hq => by
    have := h3 q hq p (List.mem_cons_self ..)
    unfold staircase; rw [if_pos this]; exact Nat.le_refl _)]
  unfold cancelClosedProduct
  rw [List.foldl_cons]
  have hp : staircase p.1 k p.1 = k := by unfold staircase; simp
  rw [hp]
  exact product_zero c a _ L2 _ (fun q hq => by
    have := h4 q hq
    unfold staircase
    rw [if_neg (by omega), if_neg (by omega)])

theorem staircase_product_list (c : Cfg) (a : DArgs) (L : List (Nat × CBlob))
    (hs : L.Pairwise (fun x y => x.1 < y.1)) (s : CStore) (j : Nat) (hj : j < L.length) (k : Nat) :
    cancelClosedProduct c a (staircase (L[j]).1 k) L s =
      cancelBlob c a k L[j] (runItems ((L.take j).map (closedItems c a)).flatten s) := by
  have hsplit : L.take j ++ L[j] :: L.drop (j + 1) = L := by
    rw [List.getElem_cons_drop hj, List.take_append_drop]
  have := product_staircase c a k (L.take j) (L.drop (j + 1)) L[j] s (by rw [hsplit]; exact hs)
  rw [hsplit] at this
  exact this

theorem staircase_product (c : Cfg) (a : DArgs) (s0 : CStore) (j : Nat)
    (hj : j < (closedWithSlots (delS1 a s0)).length) (k : Nat) :
    cancelDeleteProduct c a (staircase ((closedWithSlots (delS1 a s0))[j]).1 k) s0 =
      cancelBlob c a k ((closedWithSlots (delS1 a s0))[j])
        (runItems ((delClosedItems c a (delS1 a s0)).take j).flatten (delS2 c a s0)) := by
  unfold cancelDeleteProduct
  rw [delClosedItems_eq, ← List.map_take]
  exact staircase_product_list c a _ (closedWithSlots_sorted _) _ j hj k

/-- a cancellation point of the sequential `delete_in_closed` is a product state at a staircase -/
theorem closed_cancel_is_staircase (c : Cfg) (a : DArgs) (s0 t : CStore)
    (h : CancelStates (delClosedItems c a (delS1 a s0)).flatten (delS2 c a s0) t) :
    t = cancelDeleteProduct c a (fun _ => 0) s0 ∨
    ∃ j, ∃ hj : j < (closedWithSlots (delS1 a s0)).length, ∃ k,
      t = cancelDeleteProduct c a (staircase ((closedWithSlots (delS1 a s0))[j]).1 k) s0 := by
  rcases cancelStates_flatten _ _ _ h with h1 | ⟨j, hj, k, hk⟩
  · left
    rw [h1]
    exact (product_zero c a _ _ _ (fun _ _ => rfl)).symm
  · have hj' : j < (closedWithSlots (delS1 a s0)).length := by
      simpa [delClosedItems] using hj
    refine Or.inr ⟨j, hj', k, ?_⟩
    rw [staircase_product c a s0 j hj' k, ← hk]
    have hget : (delClosedItems c a (delS1 a s0))[j] =
        closedItems c a ((closedWithSlots (delS1 a s0))[j]) := by
      simp [delClosedItems_eq]
    rw [hget]
    rfl

/-- the part of `Storage::delete` before `delete_in_closed` (which is sequential): the states a cancellation
    there leaves, or the cancellation point lies in `delete_in_closed` -/
theorem delete_cancel_head (c : Cfg) (a : DArgs) (s0 t : CStore)
    (h : CancelStates (deleteSegments c a s0) s0 t) :
    (t = s0 ∨ (needCreate a s0 = true ∧ (t = sFile s0 ∨ t = sHdr s0)) ∨ t = delS1 a s0 ∨
     (∃ b, (delS1 a s0).active = some b ∧ BlobDeleteState c CStore.onActive a a.oip b (delS1 a s0) t) ∨
     t = delS2 c a s0) ∨
    CancelStates (delClosedItems c a (delS1 a s0)).flatten (delS2 c a s0) t := by
  rw [deleteSegments_eq] at h
  rcases cancelStates_append _ _ _ _ h with ⟨k, hk⟩ | h
  · left; left; rw [← hk, plain_cancel _ plain1]
  rw [plain_run _ plain1] at h
  have hcreate_run : runItems (if needCreate a s0 = true then [Item.await none] ++ openNewItems c s0.nextId else []) s0
      = delS1 a s0 := by
    unfold delS1
    cases needCreate a s0
    · rfl
    · simp only [↓reduceIte]
      rw [runItems_append, plain_run _ plain1, openNew_run]
  rcases cancelStates_append _ _ _ _ h with h1 | h
  · left
    cases hn : needCreate a s0
    · rw [hn] at h1
      obtain ⟨k, hk⟩ := h1
      left; rw [← hk]; exact cancelAfter_nil k s0
    · rw [hn] at h1
      simp only [↓reduceIte] at h1
      rcases cancelStates_append _ _ _ _ h1 with ⟨k, hk⟩ | h2
      · left; rw [← hk, plain_cancel _ plain1]
      · rw [plain_run _ plain1] at h2
        rcases openNew_cancelStates c s0 t h2 with h3 | h3 | h3
        · exact Or.inr (Or.inl ⟨rfl, Or.inl h3⟩)
        · exact Or.inr (Or.inl ⟨rfl, Or.inr h3⟩)
        · refine Or.inr (Or.inr (Or.inl ?_))
          unfold delS1; rw [hn]; exact h3
  rw [hcreate_run] at h
  rcases cancelStates_append _ _ _ _ h with h1 | h
  · left
    unfold delActiveItems at h1
    cases hact : (delS1 a s0).active with
    | none =>
      rw [hact] at h1
      obtain ⟨k, hk⟩ := h1
      exact Or.inr (Or.inr (Or.inl (by rw [← hk]; exact cancelAfter_nil k _)))
    | some b =>
      rw [hact] at h1
      simp only at h1
      rcases cancelStates_append _ _ _ _ h1 with ⟨k, hk⟩ | h2
      · exact Or.inr (Or.inr (Or.inl (by rw [← hk, plain_cancel _ plain1])))
      · rw [plain_run _ plain1] at h2
        exact Or.inr (Or.inr (Or.inr (Or.inl ⟨b, rfl, blobDelete_cancelStates _ _ _ _ _ _ _ h2⟩)))
  change CancelStates _ (delS2 c a s0) t at h
  rcases cancelStates_append _ _ _ _ h with ⟨k, hk⟩ | h
  · left
    exact Or.inr (Or.inr (Or.inr (Or.inr (by rw [← hk, plain_cancel _ plain1]))))
  rw [plain_run _ plain1] at h
  exact Or.inr h


/-! ### the order in which the effects of the different futures land is irrelevant -/

theorem onSlot_comm (i j : Nat) (hij : i ≠ j) (f g : CBlob → CBlob) (s : CStore) :
    CStore.onSlot i f (CStore.onSlot j g s) = CStore.onSlot j g (CStore.onSlot i f s) := by
  unfold CStore.onSlot
  simp only
  congr 1
  apply List.ext_getElem?
  intro n
  simp only [List.getElem?_modify]
  cases s.slots[n]? with
  | none => rfl
  | some o =>
    by_cases h1 : i = n <;> by_cases h2 : j = n <;> simp [h1, h2]
    omega

/-- the futures of different blobs commute -/
theorem cancelBlob_comm (c : Cfg) (a : DArgs) (k1 k2 : Nat) (p q : Nat × CBlob) (hpq : p.1 ≠ q.1)
    (s : CStore) :
    cancelBlob c a k2 q (cancelBlob c a k1 p s) = cancelBlob c a k1 p (cancelBlob c a k2 q s) := by
  simp only [cancelBlob_eq]
  exact onSlot_comm _ _ (fun h => hpq h.symm) _ _ _

theorem pairwise_of_mem_ne {α : Type} {R : α → α → Prop} (hsymm : ∀ a b, R a b → R b a) {l : List α}
    (h : l.Pairwise R) {x y : α} (hx : x ∈ l) (hy : y ∈ l) (hxy : x ≠ y) : R x y := by
  induction l with
  | nil => cases hx
  | cons a l ih =>
    obtain ⟨h1, h2⟩ := List.pairwise_cons.mp h
    rcases List.mem_cons.mp hx with rfl | hx' <;> rcases List.mem_cons.mp hy with rfl | hy'
    · exact absurd rfl hxy
    · exact h1 y hy'
    · exact hsymm _ _ (h1 x hx')
    · exact ih h2 hx' hy'

/-- the product state does not depend on the order in which the blobs are taken -/
theorem product_perm (c : Cfg) (a : DArgs) (cuts : Nat → Nat) (L L' : List (Nat × CBlob))
    (hp : L.Perm L') (hnd : L.Pairwise (fun x y => x.1 ≠ y.1)) (s : CStore) :
    cancelClosedProduct c a cuts L s = cancelClosedProduct c a cuts L' s := by
  unfold cancelClosedProduct
  apply List.Perm.foldl_eq' hp
  intro x hx y hy z
  by_cases hxy : x = y
  · rw [hxy]
  · exact cancelBlob_comm c a _ _ x y
      (pairwise_of_mem_ne (fun _ _ h h' => h h'.symm) hnd hx hy hxy) z

theorem closedWithSlots_nodup (s : CStore) : (closedWithSlots s).Pairwise (fun x y => x.1 ≠ y.1) :=
  (closedWithSlots_sorted s).imp (fun h => Nat.ne_of_lt h)

/-! #### ... and so is the interleaving of their individual actions -/

/-- the actions (closures handed to `spawn_blocking`, synchronous code) a future dropped after `k` segments
    has performed, in order -/
def effects {σ : Type} : Nat → List (Item σ) → List (σ → σ)
  | _, [] => []
  | k, .sync f :: rest => f :: effects k rest
  | 0, .await c :: _ => [c.getD id]
  | k + 1, .await c :: rest => c.getD id :: effects k rest

/-- run a list of actions -/
def runActs {σ : Type} (l : List (σ → σ)) (s : σ) : σ := l.foldl (fun s f => f s) s

theorem cancelAfter_eq_effects {σ : Type} (k : Nat) (items : List (Item σ)) (s : σ) :
    cancelAfter k items s = runActs (effects k items) s := by
  induction items generalizing k s with
  | nil => cases k <;> rfl
  | cons i rest ih =>
    cases i with
    | sync f =>
      have h1 : cancelAfter k (.sync f :: rest) s = cancelAfter k rest (f s) := by cases k <;> rfl
      have h2 : effects k (.sync f :: rest) = f :: effects k rest := by cases k <;> rfl
      rw [h1, h2, ih]
      rfl
    | await cl =>
      cases k with
      | zero => rfl
      | succ k =>
        show cancelAfter k rest ((cl.getD id) s) = _
        rw [ih]
        rfl

/-- `l` is an interleaving of the lists `Ls`: it takes, step by step, the next element of one of them -/
inductive Interleaving {α : Type} : List (List α) → List α → Prop
  | done {Ls : List (List α)} : (∀ L ∈ Ls, L = []) → Interleaving Ls []
  | step {Ls : List (List α)} {l : List α} (j : Nat) (x : α) (rest : List α) :
      Ls[j]? = some (x :: rest) → Interleaving (Ls.set j rest) l → Interleaving Ls (x :: l)

theorem runActs_append {σ : Type} (l1 l2 : List (σ → σ)) (s : σ) :
    runActs (l1 ++ l2) s = runActs l2 (runActs l1 s) := by
  unfold runActs
  rw [List.foldl_append]

/-- an action that commutes with everything before it can be done first -/
theorem runActs_move {σ : Type} (x : σ → σ) (pre post : List (σ → σ))
    (h : ∀ g ∈ pre, ∀ s, x (g s) = g (x s)) (s : σ) :
    runActs (pre ++ x :: post) s = runActs (pre ++ post) (x s) := by
  induction pre generalizing s with
  | nil => rfl
  | cons g pre ih =>
    show runActs (pre ++ x :: post) (g s) = runActs (pre ++ post) (g (x s))
    rw [ih (fun g' hg' => h g' (List.mem_cons_of_mem _ hg')), h g (List.mem_cons_self ..)]

theorem flatten_eq_nil_of_all_nil {α : Type} (Ls : List (List α)) (h : ∀ L ∈ Ls, L = []) : Ls.flatten = [] := by
  induction Ls with
  | nil => rfl
  | cons L Ls ih =>
    rw [List.flatten_cons, h L (List.mem_cons_self ..), ih (fun L' hL' => h L' (List.mem_cons_of_mem _ hL'))]
    rfl

/-- if the actions of different lists commute, every interleaving computes what the lists one after the
    other compute -/
theorem interleaving_runActs {σ : Type} (Ls : List (List (σ → σ))) (l : List (σ → σ))
    (h : Interleaving Ls l)
    (hc : ∀ i j : Nat, i ≠ j → ∀ f ∈ (Ls[i]?).getD [], ∀ g ∈ (Ls[j]?).getD [], ∀ s, f (g s) = g (f s))
    (s : σ) : runActs l s = runActs Ls.flatten s := by
  induction h generalizing s with
  | done hall => rw [flatten_eq_nil_of_all_nil _ hall]
  | @step Ls l j x rest hj _ ih =>
    have hjlt : j < Ls.length := by
      rcases Nat.lt_or_ge j Ls.length with h | h
      · exact h
      · rw [List.getElem?_eq_none h] at hj; cases hj
    have hget : Ls[j] = x :: rest := by
      rw [List.getElem?_eq_getElem hjlt] at hj
      exact Option.some.inj hj
    have hsplit : Ls = Ls.take j ++ (x :: rest) :: Ls.drop (j + 1) := by
      rw [← hget, List.getElem_cons_drop hjlt, List.take_append_drop]
    have hset : Ls.set j rest = Ls.take j ++ rest :: Ls.drop (j + 1) := by
      rw [List.set_eq_take_append_cons_drop, if_pos hjlt]
    -- the hypothesis for the remaining lists
    have hc' : ∀ i k : Nat, i ≠ k → ∀ f ∈ ((Ls.set j rest)[i]?).getD [],
        ∀ g ∈ ((Ls.set j rest)[k]?).getD [], ∀ s, f (g s) = g (f s) := by
      intro i k hik f hf g hg
      have sub : ∀ n : Nat, ∀ u ∈ ((Ls.set j rest)[n]?).getD [], u ∈ (Ls[n]?).getD [] := by
        intro n u hu
        rw [List.getElem?_set] at hu
        by_cases hn : j = n
        · subst hn
          rw [if_pos rfl, if_pos hjlt] at hu
          rw [hj]
          exact List.mem_cons_of_mem _ hu
        · rw [if_neg hn] at hu; exact hu
      exact hc i k hik f (sub i f hf) g (sub k g hg)
    show runActs l (x s) = _
    have hflat : Ls.flatten = (Ls.take j).flatten ++ x :: (rest ++ (Ls.drop (j + 1)).flatten) := by
      conv => lhs; rw [hsplit]
      simp only [List.flatten_append, List.flatten_cons, List.cons_append]
    rw [ih hc' (x s), hset, hflat]
    simp only [List.flatten_append, List.flatten_cons]
    rw [runActs_move x]
    intro g hg s'
    obtain ⟨L, hL, hgL⟩ := List.mem_flatten.mp hg
    obtain ⟨i, hi, hLi⟩ := List.mem_take_iff_getElem.mp hL
    have hilt : i < j := by omega
    have hiLs : i < Ls.length := by omega
    refine hc j i (by omega) x ?_ g ?_ s'
    · rw [hj]; exact List.mem_cons_self ..
    · rw [List.getElem?_eq_getElem hiLs]
      rw [← hLi] at hgL
      exact hgL


theorem effects_mem_run {σ : Type} (k : Nat) (items : List (Item σ)) (f : σ → σ)
    (hf : f ∈ effects k items) : ∃ it ∈ items, f = it.run := by
  induction items generalizing k with
  | nil => cases k <;> cases hf
  | cons i rest ih =>
    cases i with
    | sync g =>
      have h2 : effects k (.sync g :: rest) = g :: effects k rest := by cases k <;> rfl
      rw [h2] at hf
      rcases List.mem_cons.mp hf with rfl | hf
      · exact ⟨_, List.mem_cons_self .., rfl⟩
      · obtain ⟨it, hit, h⟩ := ih k hf
        exact ⟨it, List.mem_cons_of_mem _ hit, h⟩
    | await cl =>
      cases k with
      | zero =>
        rcases List.mem_cons.mp hf with rfl | hf
        · exact ⟨_, List.mem_cons_self .., rfl⟩
        · cases hf
      | succ k =>
        rcases List.mem_cons.mp hf with rfl | hf
        · exact ⟨_, List.mem_cons_self .., rfl⟩
        · obtain ⟨it, hit, h⟩ := ih k hf
          exact ⟨it, List.mem_cons_of_mem _ hit, h⟩

/-- every action of the `Blob::delete` future of the blob selected by `on` acts on that blob only -/
theorem blobDelete_item_form (c : Cfg) (on : (CBlob → CBlob) → CStore → CStore) (hid : ∀ s, on id s = s)
    (a : DArgs) (oip : Bool) (b0 : CBlob) :
    ∀ it ∈ blobDeleteItems c on a oip b0, ∃ g, it.run = on g := by
  have hidf : (Item.await none : Item CStore).run = on id := by
    funext s; exact (hid s).symm
  intro it hit
  rw [blobDeleteItems_eq] at hit
  rcases List.mem_append.mp hit with h | h
  · split at h
    · rw [List.mem_singleton] at h; subst h; exact ⟨_, hidf⟩
    · cases h
  · split at h
    · rcases List.mem_append.mp h with h | h
      · split at h
        · rcases List.mem_cons.mp h with rfl | h
          · exact ⟨_, hidf⟩
          · rw [List.mem_singleton] at h; subst h; exact ⟨_, rfl⟩
        · cases h
      · unfold recWriteItems at h
        split at h
        · rcases List.mem_cons.mp h with rfl | h
          · exact ⟨_, rfl⟩
          · rw [List.mem_singleton] at h; subst h; exact ⟨_, rfl⟩
        · rcases List.mem_cons.mp h with rfl | h
          · exact ⟨_, rfl⟩
          · rw [List.mem_singleton] at h; subst h; exact ⟨_, rfl⟩
    · cases h

theorem runActs_product (c : Cfg) (a : DArgs) (cuts : Nat → Nat) (L : List (Nat × CBlob)) (s : CStore) :
    runActs (L.map (fun p => effects (cuts p.1) (closedItems c a p))).flatten s =
      cancelClosedProduct c a cuts L s := by
  induction L generalizing s with
  | nil => rfl
  | cons p L ih =>
    rw [List.map_cons, List.flatten_cons, runActs_append, ← cancelAfter_eq_effects, ih]
    rfl

/-- FAITHFULNESS OF THE PRODUCT: let every closed blob's future perform its actions up to its own cut
    (`effects (cuts i)`: the synchronous code of its completed segments and the closures it handed to
    `spawn_blocking`, the last of which finishes detached), and let these actions of the different futures
    happen in ANY interleaved order — the state is the product state -/
theorem interleaving_product (c : Cfg) (a : DArgs) (cuts : Nat → Nat) (L : List (Nat × CBlob))
    (hnd : L.Pairwise (fun x y => x.1 ≠ y.1)) (l : List (CStore → CStore))
    (h : Interleaving (L.map (fun p => effects (cuts p.1) (closedItems c a p))) l) (s : CStore) :
    runActs l s = cancelClosedProduct c a cuts L s := by
  rw [← runActs_product]
  apply interleaving_runActs _ _ h
  intro i j hij f hf g hg s'
  simp only [List.getElem?_map] at hf hg
  cases hi : L[i]? with
  | none => rw [hi] at hf; cases hf
  | some p =>
    cases hj : L[j]? with
    | none => rw [hj] at hg; cases hg
    | some q =>
      rw [hi] at hf
      rw [hj] at hg
      simp only [Option.map_some, Option.getD_some] at hf hg
      obtain ⟨it1, hit1, rfl⟩ := effects_mem_run _ _ _ hf
      obtain ⟨it2, hit2, rfl⟩ := effects_mem_run _ _ _ hg
      obtain ⟨g1, hg1⟩ := blobDelete_item_form c _ (onSlot_id p.1) a true p.2 it1 hit1
      obtain ⟨g2, hg2⟩ := blobDelete_item_form c _ (onSlot_id q.1) a true q.2 it2 hit2
      rw [hg1, hg2]
      have hilt : i < L.length := by
        rcases Nat.lt_or_ge i L.length with h | h
        · exact h
        · rw [List.getElem?_eq_none h] at hi; cases hi
      have hjlt : j < L.length := by
        rcases Nat.lt_or_ge j L.length with h | h
        · exact h
        · rw [List.getElem?_eq_none h] at hj; cases hj
      have hpi : L[i] = p := by
        rw [List.getElem?_eq_getElem hilt] at hi; exact Option.some.inj hi
      have hqj : L[j] = q := by
        rw [List.getElem?_eq_getElem hjlt] at hj; exact Option.some.inj hj
      have hne : p.1 ≠ q.1 := by
        rcases Nat.lt_or_gt_of_ne hij with hlt | hgt
        · have := List.pairwise_iff_getElem.mp hnd i j hilt hjlt hlt
          rw [hpi, hqj] at this; exact this
        · have := List.pairwise_iff_getElem.mp hnd j i hjlt hilt hgt
          rw [hpi, hqj] at this; exact fun h => this h.symm
      exact onSlot_comm _ _ hne _ _ _


/-! ### the next start -/

theorem loadSel_file (b0 b : CBlob) : (loadSel b0 b).file = b.file ∧ (loadSel b0 b).frecs = b.frecs ∧
    (loadSel b0 b).idxFile = b.idxFile ∧ (loadSel b0 b).idx = b.idx ∧ (loadSel b0 b).id = b.id := by
  unfold loadSel
  cases b0.onDisk <;> exact ⟨rfl, rfl, rfl, rfl, rfl⟩

theorem cutB_idxFile (c : Cfg) (a : DArgs) (b0 b : CBlob) (kind : Cut) :
    (cutB c a b0 kind b).idxFile = b.idxFile := by
  cases kind
  · rfl
  · exact (loadSel_file b0 b).2.2.1
  · exact (loadSel_file b0 b).2.2.1

theorem cutB_frecs (c : Cfg) (a : DArgs) (b0 b : CBlob) (kind : Cut) (hk : kind ≠ .untouched) :
    (cutB c a b0 kind b).frecs = b.frecs ++ [a.entry] := by
  cases kind
  · exact absurd rfl hk
  · show (loadSel b0 b).frecs ++ [a.entry] = _
    rw [(loadSel_file b0 b).2.1]
  · show (loadSel b0 b).frecs ++ [a.entry] = _
    rw [(loadSel_file b0 b).2.1]

theorem cutB_length (c : Cfg) (a : DArgs) (b0 b : CBlob) (kind : Cut) (hk : kind ≠ .untouched)
    (hs : b.file.size = b.file.bytes.length) :
    b.file.bytes.length < (cutB c a b0 kind b).file.bytes.length := by
  have hs' : (loadSel b0 b).file.size = (loadSel b0 b).file.bytes.length := by
    rw [(loadSel_file b0 b).1]; exact hs
  obtain ⟨hlen, _, hpos⟩ := fileWrite_length c a.entry (loadSel b0 b) hs'
  rw [(loadSel_file b0 b).1] at hlen
  cases kind
  · exact absurd rfl hk
  · show _ < ((loadSel b0 b).fileWrite c a.entry).file.bytes.length
    omega
  · show _ < ((loadSel b0 b).fileWrite c a.entry).file.bytes.length
    omega

/-- "LATER START", per blob: the blob file of a blob whose closure reached the file has grown, so an index file
    written before the delete (its `blob_size` is at most the old length) is NOT accepted by the next start: the
    index is regenerated from the file and holds every record of it, the marker last — whether or not the
    cancelled future had indexed the marker -/
theorem cut_restart_regenerates (c : Cfg) (a : DArgs) (b : CBlob) (kind : Cut) (hk : kind ≠ .untouched)
    (hs : b.file.size = b.file.bytes.length)
    (hif : ∀ es bs, b.idxFile = some (es, bs) → bs ≤ b.file.bytes.length) :
    ¬ (cutB c a b kind b).Accepts ∧
    ((cutB c a b kind b).restart c).idx.map (·.1) = b.frecs ++ [a.entry] ∧
    ((cutB c a b kind b).restart c).toBlob.recs = b.frecs.map (·.1) ++ [a.entry.1] := by
  have hrej : ¬ (cutB c a b kind b).Accepts := by
    rintro ⟨es, hes⟩
    rw [cutB_idxFile] at hes
    have h1 := hif es _ hes
    have h2 := cutB_length c a b b kind hk hs
    omega
  have h1 : ((cutB c a b kind b).restart c).idx.map (·.1) = b.frecs ++ [a.entry] := by
    rw [restart_rejected c _ hrej, cutB_frecs c a b b kind hk]
  refine ⟨hrej, h1, ?_⟩
  have := congrArg (List.map (fun y : RecB => y.1)) h1
  simpa [CBlob.toBlob, List.map_map, Function.comp_def] using this

/-- the whole storage reopened blob by blob (`Blob::from_file` on every blob file; which blob becomes the
    active one is decided at L2 by `Store.restart`) -/
def CStore.restartBlobs (c : Cfg) (s : CStore) : CStore :=
  { s with active := s.active.map (CBlob.restart c), slots := s.slots.map (·.map (CBlob.restart c)) }

/-- no blob has an index file: the next start is index-less -/
def NoIdxFiles (s : CStore) : Prop :=
  (∀ b, s.active = some b → b.idxFile = none) ∧ ∀ b, some b ∈ s.slots → b.idxFile = none

theorem toBlob_restart_none (c : Cfg) (b : CBlob) (h : b.idxFile = none) :
    (b.restart c).toBlob = b.regenBlob := by
  unfold CBlob.restart
  rw [h]
  simp only [CBlob.toBlob, CBlob.regenBlob, CBlob.regenIdx, regenIdxFrom_map11]

/-- an index-less start sees `regen` -/
theorem toStore_restartBlobs (c : Cfg) (s : CStore) (h : NoIdxFiles s) :
    (s.restartBlobs c).toStore = s.regen := by
  unfold CStore.restartBlobs CStore.toStore CStore.regen
  simp only [Option.map_map, List.map_map]
  congr 1
  · cases ha : s.active with
    | none => rfl
    | some b => simp only [Option.map_some, Function.comp]; rw [toBlob_restart_none c b (h.1 b ha)]
  · apply List.map_congr_left
    intro o ho
    cases o with
    | none => rfl
    | some b => simp only [Function.comp, Option.map_some]; rw [toBlob_restart_none c b (h.2 b ho)]

/-- the product state has the index files of the state before -/
theorem NoIdxFiles.prodState {c : Cfg} {a : DArgs} {kinds : Nat → Cut} {s : CStore} (h : NoIdxFiles s) :
    NoIdxFiles (prodState c a kinds s) := by
  refine ⟨h.1, ?_⟩
  intro b hb
  obtain ⟨i, hi, hget⟩ := List.mem_iff_getElem.mp hb
  have h1 : (Cancel.prodState c a kinds s).slots[i]? = some (some b) := by
    rw [List.getElem?_eq_getElem hi, hget]
  unfold Cancel.prodState at h1
  rw [mapSlots_slot] at h1
  cases hs : s.slots[i]? with
  | none => rw [hs] at h1; cases h1
  | some o =>
    cases o with
    | none => rw [hs] at h1; cases h1
    | some b0 =>
      rw [hs] at h1
      simp only [Option.map_some, Option.some.injEq] at h1
      rw [← h1, cutB_idxFile]
      exact h.2 b0 (List.mem_of_getElem? hs)

/-- `Blob::from_file` on every blob keeps the invariant -/
theorem StoreInv.restartBlobs {c : Cfg} {s : CStore} (h : StoreInv c s) (hn : NoIdxFiles s)
    (hm : ∀ b, (s.active = some b ∨ some b ∈ s.slots) → ∀ x ∈ b.frecs, (serMeta x.1.mt).length < 2 ^ 64) :
    StoreInv c (s.restartBlobs c) := by
  refine ⟨?_, ?_, h.stray⟩
  · intro b hb
    unfold CStore.restartBlobs at hb
    simp only [Option.map_eq_some_iff] at hb
    obtain ⟨b0, hb0, rfl⟩ := hb
    exact ((BlobInv2.of_none (h.active b0 hb0) (hn.1 b0 hb0)).restart (hm b0 (Or.inl hb0))).inv
  · intro b hb
    unfold CStore.restartBlobs at hb
    simp only [List.mem_map] at hb
    obtain ⟨o, ho, hob⟩ := hb
    cases o with
    | none => cases hob
    | some b0 =>
      simp only [Option.map_some, Option.some.injEq] at hob
      rw [← hob]
      exact ((BlobInv2.of_none (h.closed b0 ho) (hn.2 b0 ho)).restart (hm b0 (Or.inr ho))).inv


/-- per blob, entirely or not at all: the blob of a slot answers (up to index residence) as before the delete,
    or is the blob `Store.blobDelete` makes of it -/
theorem toBlob_cutB_cases (c : Cfg) (a : DArgs) (b : CBlob) (kind : Cut) (hv : kind.Valid c a true b) :
    (kind ≠ .done ∧ forgetB (cutB c a b kind b).toBlob = forgetB b.toBlob) ∨
    (kind = .done ∧ (cutB c a b kind b).toBlob = (Store.blobDelete b.toBlob a.k a.ts a.m true).1) := by
  rw [toBlob_cutB]
  cases kind with
  | untouched => exact Or.inl ⟨by simp, rfl⟩
  | orphan => exact Or.inl ⟨by simp, rfl⟩
  | done =>
    right
    have hn : (!true || (b.toBlob.getLatest a.k).isFound) = true := hv
    refine ⟨rfl, ?_⟩
    rw [Store.blobDelete_fst, hn]
    rfl


/-! ### cut vectors indexed by blob id -/

/-- a cut vector given per BLOB ID, as a cut vector per slot (the slot number identifies a closed blob even in a
    state whose blob ids are not known to be distinct; every theorem about `cancelDeleteProduct` is for all cut
    vectors, in particular for these) -/
def cutsOfIds (s : CStore) (f : Nat → Nat) (i : Nat) : Nat :=
  match s.slots[i]? with
  | some (some b) => f b.id
  | _ => 0

/-- the product state depends on the cut vector at the slots that hold a closed blob only -/
theorem product_congr (c : Cfg) (a : DArgs) (cuts cuts' : Nat → Nat) (s0 : CStore)
    (h : ∀ (i : Nat) (b : CBlob), (delS2 c a s0).slots[i]? = some (some b) → cuts i = cuts' i) :
    cancelDeleteProduct c a cuts s0 = cancelDeleteProduct c a cuts' s0 := by
  rw [product_eq, product_eq]
  unfold prodState
  apply mapSlots_congr
  intro i b hb
  unfold kindAt
  rw [hb]
  simp only
  rw [h i b hb]

end Pearl.Cancel
