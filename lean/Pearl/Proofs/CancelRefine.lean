import Pearl.Proofs.CancelLemmas
/-
Helper lemmas for C14, second part: the operations of Pearl/Model/Cancel.lean that are NOT cancelled refine
the L2 operations of Pearl/Model/Store.lean (`delete`, `create_active`), and the orphan record followed
through any number of (dump; restart) rounds.
-/
namespace Pearl.Cancel
open Pearl

/-! ### a completed `Blob::delete` as a function on the selected blob -/

/-- what a completed `Blob::delete` does to the blob it selects (`b0` = the blob as the operation found
    it, `b` = the blob as it is when the segments run) -/
def delF (c : Cfg) (a : DArgs) (oip : Bool) (b0 b : CBlob) : CBlob :=
  if needMarker a oip b0 then
    (((if b0.onDisk then CBlob.loadIndex else id) b).fileWrite c a.entry).pushWritten c a.entry
  else b

/-- ... on the blob it was computed from -/
def delB (c : Cfg) (a : DArgs) (oip : Bool) (b : CBlob) : CBlob := delF c a oip b b

theorem delB_eq (c : Cfg) (a : DArgs) (oip : Bool) (b0 : CBlob) :
    delB c a oip b0 =
      if needMarker a oip b0 then ((loadedB b0).fileWrite c a.entry).pushWritten c a.entry else b0 := by
  unfold delB delF loadedB
  cases b0.onDisk <;> rfl

/-- the L2 view of `delB` is `Store.blobDelete` -/
theorem toBlob_delB (c : Cfg) (a : DArgs) (oip : Bool) (b0 : CBlob) :
    (delB c a oip b0).toBlob = (Store.blobDelete b0.toBlob a.k a.ts a.m oip).1 := by
  rw [delB_eq]; exact toBlob_markerDone c a oip b0

theorem blobDelete_run_on {on : (CBlob → CBlob) → CStore → CStore} (hsel : BlobSel on)
    (hid : ∀ s, on id s = s) (c : Cfg) (a : DArgs) (oip : Bool) (b0 : CBlob) (s : CStore) :
    runItems (blobDeleteItems c on a oip b0) s = on (delF c a oip b0) s := by
  rw [blobDelete_run]
  cases hn : needMarker a oip b0
  · have : delF c a oip b0 = id := by
      funext b; unfold delF; rw [hn]; rfl
    rw [this, hid]; rfl
  · simp only [↓reduceIte]
    unfold markerDone markerOrphan
    rw [loaded_eq on b0 s (hid s), hsel.comp, hsel.comp]
    congr 1
    funext b
    unfold delF
    rw [hn]
    rfl

/-! ### list bookkeeping: `zipIdx` / `filterMap` / `modify` -/

theorem modify_length_append {α : Type} (f : α → α) (pre : List α) (x : α) (l : List α) :
    (pre ++ x :: l).modify pre.length f = pre ++ f x :: l := by
  induction pre with
  | nil => rfl
  | cons y pre ih =>
    simp only [List.cons_append, List.length_cons, List.modify_succ_cons, ih]

/-- visiting the present entries of a list of optional values with their positions and modifying each
    position with a function computed from the entry found there = mapping -/
theorem foldl_modify_zipIdx {α : Type} (g : α → α → α) (l pre : List (Option α)) :
    ((l.zipIdx pre.length).filterMap (fun p => p.1.map (fun b => (p.2, b)))).foldl
        (fun acc p => acc.modify p.1 (·.map (g p.2))) (pre ++ l) =
      pre ++ l.map (·.map (fun b => g b b)) := by
  induction l generalizing pre with
  | nil => simp
  | cons o l ih =>
    rw [List.zipIdx_cons]
    have hlen : pre.length + 1 = (pre ++ [o.map (fun b => g b b)]).length := by simp
    cases o with
    | none =>
      simp only [List.filterMap_cons, Option.map_none]
      have := ih (pre ++ [none])
      rw [List.length_append, List.length_singleton, List.append_assoc, List.singleton_append] at this
      rw [this]
      simp
    | some b =>
      simp only [List.filterMap_cons, Option.map_some, List.foldl_cons]
      rw [modify_length_append]
      have := ih (pre ++ [some (g b b)])
      rw [List.length_append, List.length_singleton, List.append_assoc, List.singleton_append] at this
      simp only [Option.map_some]
      rw [this]
      simp

theorem foldl_onSlot (F : CBlob → CBlob → CBlob) (L : List (Nat × CBlob)) (s : CStore) :
    L.foldl (fun s p => CStore.onSlot p.1 (F p.2) s) s =
      { s with slots := L.foldl (fun acc p => acc.modify p.1 (·.map (F p.2))) s.slots } := by
  induction L generalizing s with
  | nil => rfl
  | cons p L ih =>
    rw [List.foldl_cons, ih]
    rfl

/-- `delete_in_closed`, completed: every closed blob gets `delB` -/
theorem closed_run (c : Cfg) (a : DArgs) (L : List (Nat × CBlob)) (s : CStore) :
    runItems (L.map (fun p => blobDeleteItems c (CStore.onSlot p.1) a true p.2)).flatten s =
      L.foldl (fun s p => CStore.onSlot p.1 (delF c a true p.2) s) s := by
  induction L generalizing s with
  | nil => rfl
  | cons p L ih =>
    rw [List.map_cons, List.flatten_cons, runItems_append, List.foldl_cons,
      blobDelete_run_on (onSlot_sel p.1) (onSlot_id p.1), ih]

theorem closed_run_slots (c : Cfg) (a : DArgs) (s1 s : CStore) (hs : s.slots = s1.slots) :
    runItems (delClosedItems c a s1).flatten s =
      { s with slots := s1.slots.map (·.map (delB c a true)) } := by
  unfold delClosedItems
  rw [closed_run, foldl_onSlot, hs]
  have := foldl_modify_zipIdx (delF c a true) s1.slots []
  simp only [List.length_nil, List.nil_append] at this
  unfold closedWithSlots
  rw [this]
  rfl

/-! ### `Storage::delete`, completed -/

theorem delActive_run (c : Cfg) (a : DArgs) (s1 : CStore) :
    runItems (delActiveItems c a s1) s1 = { s1 with active := s1.active.map (delB c a a.oip) } := by
  unfold delActiveItems
  cases hact : s1.active with
  | none =>
    cases s1
    simp only at hact
    subst hact
    rfl
  | some b =>
    simp only
    rw [runItems_append, plain_run _ plain1, blobDelete_run_on onActive_sel onActive_id]
    unfold CStore.onActive
    rw [hact]
    rfl

/-- the state a completed delete leaves, explicitly -/
theorem delete_run (c : Cfg) (a : DArgs) (s0 : CStore) :
    runItems (deleteSegments c a s0) s0 =
      { delS1 a s0 with
        active := (delS1 a s0).active.map (delB c a a.oip)
        slots := (delS1 a s0).slots.map (·.map (delB c a true)) } := by
  have hcreate_run :
      runItems (if needCreate a s0 = true then [Item.await none] ++ openNewItems c s0.nextId else []) s0
        = delS1 a s0 := by
    unfold delS1
    cases needCreate a s0
    · rfl
    · simp only [↓reduceIte]
      rw [runItems_append, plain_run _ plain1, openNew_run]
  rw [deleteSegments_eq, runItems_append, plain_run _ plain1, runItems_append, hcreate_run,
    runItems_append, delActive_run, runItems_append, plain_run _ plain1]
  exact closed_run_slots c a (delS1 a s0) _ rfl

theorem toStore_delS1 (a : DArgs) (s0 : CStore) :
    (delS1 a s0).toStore = if a.oip then s0.toStore else s0.toStore.ensureActive := by
  unfold delS1 needCreate
  cases a.oip
  · cases h : s0.active with
    | none =>
      simp only [Bool.not_false, Option.isNone_none, Bool.and_self, ↓reduceIte, Bool.false_eq_true]
      rw [toStore_sNew]
      unfold Store.ensureActive CStore.toStore; rw [h]; rfl
    | some b =>
      simp only [Bool.not_false, Option.isNone_some, Bool.and_false, Bool.false_eq_true, ↓reduceIte]
      unfold Store.ensureActive CStore.toStore; rw [h]; rfl
  · rfl

/-- what `Store.delete` computes, explicitly -/
theorem Store.delete_fst (S : Store) (k : Key) (ts : Nat) (m : Option Meta) (oip : Bool) :
    (S.delete k ts m oip).1 =
      let S1 := if oip then S else S.ensureActive
      { S1 with active := S1.active.map (fun b => (Store.blobDelete b k ts m oip).1)
                slots := S1.slots.map (·.map (fun b => (Store.blobDelete b k ts m true).1)) } := by
  unfold Store.delete
  simp only
  cases h : (if oip then S else S.ensureActive).active with
  | none => simp [List.map_map, Function.comp_def]
  | some b => simp [List.map_map, Function.comp_def]

/-- the completed `delete` is `Store.delete` -/
theorem delete_refines (c : Cfg) (a : DArgs) (s0 : CStore) :
    (runItems (deleteSegments c a s0) s0).toStore = (s0.toStore.delete a.k a.ts a.m a.oip).1 := by
  rw [delete_run, Store.delete_fst, ← toStore_delS1]
  unfold CStore.toStore
  simp only [Option.map_map, List.map_map]
  congr 1
  · congr 1
    funext b
    exact toBlob_delB c a a.oip b
  · congr 1
    funext o
    cases o with
    | none => rfl
    | some b => simp only [Function.comp, Option.map_some]; rw [toBlob_delB]

/-! ### `Inner::create_active_blob`, completed -/

/-- the completed creation of the active blob is `Store.tryCreateActive` -/
theorem create_refines (c : Cfg) (s0 : CStore) (h : s0.active = none) :
    s0.toStore.tryCreateActive = .ok (runItems (createItems c s0.nextId) s0).toStore := by
  rw [create_run, toStore_sNew]
  unfold Store.tryCreateActive CStore.toStore
  rw [h]
  rfl

/-! ### sessions of one blob: `Blob::from_file`, and the orphan record followed through them -/

/-- the offsets a regeneration finds: the records of the file one after the other -/
def regenIdxFrom (c : Cfg) : Nat → List RecB → List (RecB × Nat)
  | _, [] => []
  | off, x :: xs => (x, off) :: regenIdxFrom c (off + entryLen c x) xs

theorem regenIdxFrom_map (c : Cfg) (off : Nat) (xs : List RecB) :
    (regenIdxFrom c off xs).map (·.1) = xs := by
  induction xs generalizing off with
  | nil => rfl
  | cons x xs ih => simp only [regenIdxFrom, List.map_cons, ih]

theorem regenIdxFrom_append (c : Cfg) (off : Nat) (xs ys : List RecB) :
    regenIdxFrom c off (xs ++ ys) =
      regenIdxFrom c off xs ++ regenIdxFrom c (off + (xs.map (entryLen c)).sum) ys := by
  induction xs generalizing off with
  | nil => simp [regenIdxFrom]
  | cons x xs ih =>
    simp only [List.cons_append, regenIdxFrom, ih, List.map_cons, List.sum_cons, Nat.add_assoc]

/-- the index `try_regenerate_index` builds from the blob file -/
def CBlob.regenIdx (c : Cfg) (b : CBlob) : List (RecB × Nat) := regenIdxFrom c blobHeaderSize b.frecs

/-- the index file is accepted by `Index::from_file`: present, and its `blob_size` is the length of the
    blob file -/
def CBlob.Accepts (b : CBlob) : Prop := ∃ es, b.idxFile = some (es, b.file.bytes.length)

instance (b : CBlob) : Decidable b.Accepts :=
  match h : b.idxFile with
  | none => isFalse (fun ⟨es, hes⟩ => by rw [h] at hes; cases hes)
  | some (es, bs) =>
    if hb : bs = b.file.bytes.length then isTrue ⟨es, by rw [h, hb]⟩
    else isFalse (fun ⟨es', hes⟩ => by
      rw [h] at hes
      simp only [Option.some.injEq, Prod.mk.injEq] at hes
      exact hb hes.2)

/-- `Blob::from_file` in the next session: the file is reopened (its size counter = its length); the
    index file is taken (index on disk) when it is accepted, otherwise the index is regenerated in
    memory from the file -/
def CBlob.restart (c : Cfg) (b : CBlob) : CBlob :=
  let f : Fault.FFile := ⟨b.file.bytes, b.file.bytes.length⟩
  match b.idxFile with
  | some (es, bs) =>
    if bs = b.file.bytes.length then { b with file := f, idx := es, onDisk := true }
    else { b with file := f, idx := b.regenIdx c, onDisk := false }
  | none => { b with file := f, idx := b.regenIdx c, onDisk := false }

/-- `CBlob.restart` gives the blob the records `CBlob.restartRecs` says -/
theorem regenIdxFrom_map11 (c : Cfg) (off : Nat) (xs : List RecB) :
    (regenIdxFrom c off xs).map (fun e => e.1.1) = xs.map (fun y => y.1) := by
  rw [show (fun e : RecB × Nat => e.1.1) = (fun y : RecB => y.1) ∘ (fun e => e.1) from rfl,
    ← List.map_map, regenIdxFrom_map]

theorem restart_recs (c : Cfg) (b : CBlob) : (b.restart c).toBlob.recs = b.restartRecs := by
  unfold CBlob.restart CBlob.restartRecs CBlob.toBlob CBlob.regenIdx
  cases h : b.idxFile with
  | none => exact regenIdxFrom_map11 c _ _
  | some p =>
    obtain ⟨es, bs⟩ := p
    simp only
    split
    · rfl
    · exact regenIdxFrom_map11 c _ _

theorem restart_frecs (c : Cfg) (b : CBlob) : (b.restart c).frecs = b.frecs := by
  unfold CBlob.restart
  cases h : b.idxFile with
  | none => rfl
  | some p => obtain ⟨es, bs⟩ := p; simp only; split <;> rfl

theorem restart_bytes (c : Cfg) (b : CBlob) : (b.restart c).file.bytes = b.file.bytes := by
  unfold CBlob.restart
  cases h : b.idxFile with
  | none => rfl
  | some p => obtain ⟨es, bs⟩ := p; simp only; split <;> rfl

theorem restart_size (c : Cfg) (b : CBlob) : (b.restart c).file.size = b.file.bytes.length := by
  unfold CBlob.restart
  cases h : b.idxFile with
  | none => rfl
  | some p => obtain ⟨es, bs⟩ := p; simp only; split <;> rfl

theorem restart_idxFile (c : Cfg) (b : CBlob) : (b.restart c).idxFile = b.idxFile := by
  unfold CBlob.restart
  cases h : b.idxFile with
  | none => rfl
  | some p => obtain ⟨es, bs⟩ := p; simp only; split <;> rfl

theorem restart_accepted (c : Cfg) (b : CBlob) (es : List (RecB × Nat))
    (h : b.idxFile = some (es, b.file.bytes.length)) :
    b.restart c = { b with file := ⟨b.file.bytes, b.file.bytes.length⟩, idx := es, onDisk := true } := by
  unfold CBlob.restart
  rw [h]
  simp only [↓reduceIte]

/-- a start that does NOT accept the index file regenerates: every record of the file is indexed -/
theorem restart_rejected (c : Cfg) (b : CBlob) (h : ¬ b.Accepts) :
    (b.restart c).idx.map (·.1) = b.frecs := by
  unfold CBlob.restart
  cases hf : b.idxFile with
  | none => exact regenIdxFrom_map c _ _
  | some p =>
    obtain ⟨es, bs⟩ := p
    simp only
    split
    · next heq => exact absurd ⟨es, by rw [hf, heq]⟩ h
    · exact regenIdxFrom_map c _ _

/-- what can happen to one blob, session after session -/
inductive BStep where
  /-- a record (or a deletion marker) is written to the blob and indexed: a completed `Blob::write` -/
  | write (y : RecB)
  /-- `load_index` -/
  | load
  /-- `Blob::dump` -/
  | dump
  /-- the process ends; `Blob::from_file` in the next session -/
  | restart
deriving Repr

def BStep.run (c : Cfg) : BStep → CBlob → CBlob
  | .write y, b => (b.fileWrite c y).pushWritten c y
  | .load, b => b.loadIndex
  | .dump, b => b.dump
  | .restart, b => b.restart c

def runSteps (c : Cfg) (steps : List BStep) (b : CBlob) : CBlob := steps.foldl (fun b st => st.run c b) b

/-- the records the steps write, in order -/
def writesOf : List BStep → List RecB
  | [] => []
  | .write y :: rest => y :: writesOf rest
  | _ :: rest => writesOf rest

/-- every start of the run accepts the index file it finds -/
def AllAccepted (c : Cfg) : List BStep → CBlob → Prop
  | [], _ => True
  | st :: rest, b =>
    (match st with | .restart => b.Accepts | _ => True) ∧ AllAccepted c rest (st.run c b)

/-- the record at position `pre.length` of the file is unknown to the index and to every index file
    that the next start would accept; `known ++ post` is what the index knows -/
structure Hidden (pre known : List RecB) (x : RecB) (post : List RecB) (b : CBlob) : Prop where
  size : b.file.size = b.file.bytes.length
  frecs : b.frecs = pre ++ x :: post
  idx : b.idx.map (·.1) = known ++ post
  idxFile : ∀ es bs, b.idxFile = some (es, bs) →
    bs ≤ b.file.bytes.length ∧ (bs = b.file.bytes.length → es.map (·.1) = known ++ post)

theorem fileWrite_length (c : Cfg) (y : RecB) (b : CBlob) (hs : b.file.size = b.file.bytes.length) :
    (b.fileWrite c y).file.bytes.length = b.file.bytes.length + entryLen c y ∧
    (b.fileWrite c y).file.size = (b.fileWrite c y).file.bytes.length ∧ 0 < entryLen c y := by
  have hb := fileWrite_bytes c y b hs
  have hl : entryLen c y = Fault.recLen (recordOf c.klen y.1 y.2) := Fault.toPartial_len_recLen _ _
  refine ⟨?_, ?_, ?_⟩
  · rw [hb, List.length_append, Fault.image_length_recLen, hl]
  · rw [hb, List.length_append, Fault.image_length_recLen]
    show b.file.size + (toPartial (recordOf c.klen y.1 y.2) c.maxSP).len = _
    rw [Fault.toPartial_len_recLen, hs]
  · rw [hl]; exact Fault.recLen_pos _

theorem Hidden.write {pre known post : List RecB} {x : RecB} {b : CBlob} (c : Cfg) (y : RecB)
    (h : Hidden pre known x post b) :
    Hidden pre known x (post ++ [y]) ((b.fileWrite c y).pushWritten c y) := by
  obtain ⟨hlen, hsz, hpos⟩ := fileWrite_length c y b h.size
  refine ⟨hsz, ?_, ?_, ?_⟩
  · show b.frecs ++ [y] = _
    rw [h.frecs]; simp
  · show (b.idx ++ [(y, _)]).map (fun e : RecB × Nat => e.1) = _
    rw [List.map_append, h.idx]; simp
  · intro es bs hf
    have := (h.idxFile es bs hf).1
    have hlen' : ((b.fileWrite c y).pushWritten c y).file.bytes.length =
        b.file.bytes.length + entryLen c y := hlen
    rw [hlen']
    exact ⟨by omega, fun heq => by omega⟩

theorem Hidden.load {pre known post : List RecB} {x : RecB} {b : CBlob}
    (h : Hidden pre known x post b) : Hidden pre known x post b.loadIndex :=
  ⟨h.size, h.frecs, h.idx, h.idxFile⟩

theorem Hidden.dump {pre known post : List RecB} {x : RecB} {b : CBlob}
    (h : Hidden pre known x post b) : Hidden pre known x post b.dump := by
  unfold CBlob.dump
  split
  · exact h
  · refine ⟨h.size, h.frecs, h.idx, ?_⟩
    intro es bs hf
    simp only [Option.some.injEq, Prod.mk.injEq] at hf
    obtain ⟨rfl, rfl⟩ := hf
    show b.file.size ≤ b.file.bytes.length ∧ (b.file.size = b.file.bytes.length → _)
    exact ⟨by rw [h.size]; exact Nat.le_refl _, fun _ => h.idx⟩

theorem Hidden.restart {pre known post : List RecB} {x : RecB} {b : CBlob} (c : Cfg)
    (h : Hidden pre known x post b) (hacc : b.Accepts) : Hidden pre known x post (b.restart c) := by
  obtain ⟨es, hes⟩ := hacc
  rw [restart_accepted c b es hes]
  exact ⟨rfl, h.frecs, (h.idxFile es _ hes).2 rfl, h.idxFile⟩

theorem Hidden.steps {pre known : List RecB} {x : RecB} (c : Cfg) (steps : List BStep) :
    ∀ {post : List RecB} {b : CBlob}, Hidden pre known x post b → AllAccepted c steps b →
      Hidden pre known x (post ++ writesOf steps) (runSteps c steps b) := by
  induction steps with
  | nil => intro post b h _; simpa [writesOf, runSteps] using h
  | cons st rest ih =>
    intro post b h hacc
    obtain ⟨h1, h2⟩ := hacc
    cases st with
    | write y =>
      have := ih (h.write c y) h2
      simpa [writesOf, runSteps, BStep.run] using this
    | load => exact ih h.load h2
    | dump => exact ih h.dump h2
    | restart => exact ih (h.restart c h1) h2

/-- the orphan state is `Hidden` -/
theorem Hidden.orphan (c : Cfg) (x : RecB) (b : CBlob) (hs : b.file.size = b.file.bytes.length)
    (hif : ∀ es bs, b.idxFile = some (es, bs) → bs ≤ b.file.bytes.length) :
    Hidden b.frecs (b.idx.map (·.1)) x [] (b.fileWrite c x) := by
  obtain ⟨hlen, hsz, hpos⟩ := fileWrite_length c x b hs
  refine ⟨hsz, rfl, by simp [CBlob.fileWrite], ?_⟩
  intro es bs hf
  have := hif es bs hf
  rw [hlen]
  exact ⟨by omega, fun heq => by omega⟩

/-! the (dump; restart) rounds -/

/-- one session change of a blob: its index is dumped, the process restarts; `act` = the blob is the
    active blob of the next session (its index is loaded) -/
def round (c : Cfg) (act : Bool) (b : CBlob) : CBlob :=
  if act then ((b.dump).restart c).loadIndex else (b.dump).restart c

def rounds (c : Cfg) (act : Bool) : Nat → CBlob → CBlob
  | 0, b => b
  | n + 1, b => rounds c act n (round c act b)

/-- the state of the blob after one or more rounds -/
def hiddenState (c : Cfg) (x : RecB) (b : CBlob) (act : Bool) : CBlob :=
  { b.fileWrite c x with
    onDisk := !act
    idxFile := some (b.idx, (b.fileWrite c x).file.bytes.length) }

theorem isEmpty_false_of_ne {α : Type} {l : List α} (h : l ≠ []) : l.isEmpty = false := by
  cases l with
  | nil => exact absurd rfl h
  | cons _ _ => rfl

theorem round_orphan (c : Cfg) (x : RecB) (b : CBlob) (hs : b.file.size = b.file.bytes.length)
    (hd : b.onDisk = false) (hne : b.idx ≠ []) (act : Bool) :
    round c act (b.fileWrite c x) = hiddenState c x b act := by
  obtain ⟨_, hsz, _⟩ := fileWrite_length c x b hs
  have hdump : (b.fileWrite c x).dump =
      { b.fileWrite c x with onDisk := true, idxFile := some (b.idx, (b.fileWrite c x).file.bytes.length) } := by
    unfold CBlob.dump
    rw [show (b.fileWrite c x).onDisk = false from hd, show (b.fileWrite c x).idx = b.idx from rfl,
      isEmpty_false_of_ne hne, hsz]
    rfl
  have hfile : (⟨(b.fileWrite c x).file.bytes, (b.fileWrite c x).file.bytes.length⟩ : Fault.FFile) =
      (b.fileWrite c x).file := by rw [← hsz]
  unfold round
  rw [hdump, restart_accepted c _ b.idx rfl]
  simp only [hfile]
  cases act <;> rfl

theorem round_hidden (c : Cfg) (x : RecB) (b : CBlob) (hs : b.file.size = b.file.bytes.length)
    (hne : b.idx ≠ []) (act act' : Bool) :
    round c act (hiddenState c x b act') = hiddenState c x b act := by
  obtain ⟨_, hsz, _⟩ := fileWrite_length c x b hs
  have hfile : (⟨(b.fileWrite c x).file.bytes, (b.fileWrite c x).file.bytes.length⟩ : Fault.FFile) =
      (b.fileWrite c x).file := by rw [← hsz]
  have hdump : (hiddenState c x b act').dump = hiddenState c x b false := by
    unfold CBlob.dump
    cases act'
    · rfl
    · simp only [hiddenState, Bool.not_true, Bool.false_or]
      rw [show (b.fileWrite c x).idx = b.idx from rfl, isEmpty_false_of_ne hne, hsz]
      rfl
  unfold round
  rw [hdump, restart_accepted c _ b.idx rfl]
  simp only [hiddenState, hfile]
  cases act <;> rfl

theorem rounds_hidden (c : Cfg) (x : RecB) (b : CBlob) (hs : b.file.size = b.file.bytes.length)
    (hne : b.idx ≠ []) (act act' : Bool) (n : Nat) :
    rounds c act n (hiddenState c x b act') = hiddenState c x b (if n = 0 then act' else act) := by
  induction n generalizing act' with
  | zero => rfl
  | succ n ih =>
    show rounds c act n (round c act (hiddenState c x b act')) = _
    rw [round_hidden c x b hs hne, ih]
    simp

/-- after `n ≥ 1` rounds the blob is in `hiddenState` -/
theorem rounds_orphan (c : Cfg) (x : RecB) (b : CBlob) (hs : b.file.size = b.file.bytes.length)
    (hd : b.onDisk = false) (hne : b.idx ≠ []) (act : Bool) (n : Nat) :
    rounds c act (n + 1) (b.fileWrite c x) = hiddenState c x b act := by
  show rounds c act n (round c act (b.fileWrite c x)) = _
  rw [round_orphan c x b hs hd hne, rounds_hidden c x b hs hne]
  simp

/-! ### `Blob::from_file` keeps the invariant -/

/-- the blob built by writing the records one after the other -/
def buildFrom (c : Cfg) (b : CBlob) (xs : List RecB) : CBlob :=
  xs.foldl (fun b x => (b.fileWrite c x).push x b.file.size) b

theorem buildFrom_spec (c : Cfg) (xs : List RecB) (hm : ∀ x ∈ xs, (serMeta x.1.mt).length < 2 ^ 64) :
    ∀ (b : CBlob), BlobInv c b →
      BlobInv c (buildFrom c b xs) ∧ (buildFrom c b xs).idx = b.idx ++ regenIdxFrom c b.file.size xs ∧
      (buildFrom c b xs).frecs = b.frecs ++ xs := by
  induction xs with
  | nil => intro b hb; exact ⟨hb, by simp [buildFrom, regenIdxFrom], by simp [buildFrom]⟩
  | cons x xs ih =>
    intro b hb
    have h1 := hb.writePush x (hm x (List.mem_cons_self ..))
    obtain ⟨i1, i2, i3⟩ := ih (fun y hy => hm y (List.mem_cons_of_mem _ hy)) _ h1
    refine ⟨i1, ?_, ?_⟩
    · show (buildFrom c ((b.fileWrite c x).push x b.file.size) xs).idx = _
      rw [i2]
      show (b.idx ++ [(x, b.file.size)]) ++ regenIdxFrom c (b.file.size + entryLen c x) xs = _
      simp [regenIdxFrom]
    · show (buildFrom c ((b.fileWrite c x).push x b.file.size) xs).frecs = _
      rw [i3]
      show (b.frecs ++ [x]) ++ xs = _
      simp

/-- every entry of a regenerated index loads from the file -/
theorem regenIdx_loads (c : Cfg) (b : CBlob) (hb : BlobInv c b)
    (hm : ∀ x ∈ b.frecs, (serMeta x.1.mt).length < 2 ^ 64) :
    ∀ e ∈ b.regenIdx c, entryLoad b.file.bytes (hdrOf c e) =
      .ok (serMeta e.1.1.mt, (recordOf c.klen e.1.1 e.1.2).data) := by
  obtain ⟨i1, i2, i3⟩ := buildFrom_spec c b.frecs hm _ (BlobInv.new c b.id)
  intro e he
  have hbytes : (buildFrom c { id := b.id, file := ⟨serBlobHeader, blobHeaderSize⟩ } b.frecs).file.bytes =
      b.file.bytes := by
    rw [i1.bytes, i3, hb.bytes]; rfl
  rw [← hbytes]
  apply i1.loads
  rw [i2]
  exact he

/-- the invariant of a blob together with its index file: an index file that the next start would
    accept lists records of the file, in file order, and each of them loads -/
structure BlobInv2 (c : Cfg) (b : CBlob) : Prop where
  inv : BlobInv c b
  idxFile : ∀ es, b.idxFile = some (es, b.file.bytes.length) →
    (es.map (·.1)).Sublist b.frecs ∧
    ∀ e ∈ es, entryLoad b.file.bytes (hdrOf c e) = .ok (serMeta e.1.1.mt, (recordOf c.klen e.1.1 e.1.2).data)

theorem BlobInv2.of_none {c : Cfg} {b : CBlob} (h : BlobInv c b) (hf : b.idxFile = none) : BlobInv2 c b :=
  ⟨h, fun es hes => by rw [hf] at hes; cases hes⟩

theorem BlobInv2.dump {c : Cfg} {b : CBlob} (h : BlobInv2 c b) : BlobInv2 c b.dump := by
  unfold CBlob.dump
  split
  · exact h
  · refine ⟨⟨h.inv.bytes, h.inv.size, h.inv.sub, h.inv.loads⟩, ?_⟩
    intro es hes
    simp only [Option.some.injEq, Prod.mk.injEq] at hes
    obtain ⟨rfl, _⟩ := hes
    exact ⟨h.inv.sub, h.inv.loads⟩

theorem BlobInv2.loadIndex {c : Cfg} {b : CBlob} (h : BlobInv2 c b) : BlobInv2 c b.loadIndex :=
  ⟨h.inv.loadIndex, h.idxFile⟩

theorem restart_idx (c : Cfg) (b : CBlob) :
    (∃ es, b.idxFile = some (es, b.file.bytes.length) ∧ (b.restart c).idx = es) ∨
    (b.restart c).idx = b.regenIdx c := by
  unfold CBlob.restart
  cases hf : b.idxFile with
  | none => exact Or.inr rfl
  | some p =>
    obtain ⟨es, bs⟩ := p
    simp only
    split
    · next heq => subst heq; exact Or.inl ⟨es, rfl, rfl⟩
    · exact Or.inr rfl

/-- the next session finds a blob that satisfies the invariant, whether the index file is accepted or
    the index is regenerated -/
theorem BlobInv2.restart {c : Cfg} {b : CBlob} (h : BlobInv2 c b)
    (hm : ∀ x ∈ b.frecs, (serMeta x.1.mt).length < 2 ^ 64) : BlobInv2 c (b.restart c) := by
  refine ⟨⟨?_, ?_, ?_, ?_⟩, ?_⟩
  · rw [restart_bytes, restart_frecs]; exact h.inv.bytes
  · rw [restart_size, restart_bytes]
  · rw [restart_frecs]
    rcases restart_idx c b with ⟨es, hes, hidx⟩ | hidx
    · rw [hidx]; exact (h.idxFile es hes).1
    · rw [hidx]
      show ((regenIdxFrom c blobHeaderSize b.frecs).map (·.1)).Sublist b.frecs
      rw [regenIdxFrom_map]; exact List.Sublist.refl _
  · rw [restart_bytes]
    rcases restart_idx c b with ⟨es, hes, hidx⟩ | hidx
    · rw [hidx]; exact (h.idxFile es hes).2
    · rw [hidx]; exact regenIdx_loads c b h.inv hm
  · intro es hes
    rw [restart_idxFile, restart_bytes] at hes
    rw [restart_frecs, restart_bytes]
    exact h.idxFile es hes

/-- a completed write keeps it (the old index file is no longer accepted: the blob file has grown) -/
theorem BlobInv2.write {c : Cfg} {b : CBlob} (h : BlobInv2 c b) (y : RecB)
    (hm : (serMeta y.1.mt).length < 2 ^ 64)
    (hif : ∀ es bs, b.idxFile = some (es, bs) → bs ≤ b.file.bytes.length) :
    BlobInv2 c ((b.fileWrite c y).pushWritten c y) := by
  refine ⟨h.inv.writePushWritten y hm, ?_⟩
  intro es hes
  obtain ⟨hlen, _, hpos⟩ := fileWrite_length c y b h.inv.size
  have := hif es _ hes
  have hlen' : ((b.fileWrite c y).pushWritten c y).file.bytes.length =
      b.file.bytes.length + entryLen c y := hlen
  omega

/-! ### the number `delete` returns = the number of markers that reached the blob files -/

/-- number of record images in the file of a blob that may be absent -/
def optRecs (o : Option CBlob) : Nat :=
  match o with
  | some b => b.frecs.length
  | none => 0

/-- number of record images in the blob files of the storage -/
def CStore.fileRecCount (s : CStore) : Nat := optRecs s.active + (s.slots.map optRecs).sum

def markCount (a : DArgs) (oip : Bool) (o : Option CBlob) : Nat :=
  match o with
  | some b => if needMarker a oip b then 1 else 0
  | none => 0

theorem delB_frecs (c : Cfg) (a : DArgs) (oip : Bool) (b : CBlob) :
    (delB c a oip b).frecs.length = b.frecs.length + if needMarker a oip b then 1 else 0 := by
  rw [delB_eq]
  cases needMarker a oip b
  · rfl
  · unfold loadedB
    cases b.onDisk <;> simp [CBlob.pushWritten, CBlob.push, CBlob.fileWrite, CBlob.loadIndex]

theorem optRecs_delB (c : Cfg) (a : DArgs) (oip : Bool) (o : Option CBlob) :
    optRecs (o.map (delB c a oip)) = optRecs o + markCount a oip o := by
  cases o with
  | none => rfl
  | some b => exact delB_frecs c a oip b

theorem sum_map_add {α : Type} (f g : α → Nat) (l : List α) :
    (l.map (fun x => f x + g x)).sum = (l.map f).sum + (l.map g).sum := by
  induction l with
  | nil => rfl
  | cons x l ih => simp only [List.map_cons, List.sum_cons, ih]; omega

/-- `Blob::delete` reports a marker exactly when `needMarker` -/
theorem blobDelete_snd (a : DArgs) (oip : Bool) (b : CBlob) :
    (Store.blobDelete b.toBlob a.k a.ts a.m oip).2 = needMarker a oip b := by
  unfold Store.blobDelete needMarker
  split <;> simp_all

theorem filter_marked_length (k : Key) (ts : Nat) (m : Option Meta) (l : List (Option Blob)) :
    ((l.map (fun o => o.map (fun b => Store.blobDelete b k ts m true))).filter
        (fun o => match o with | some (_, true) => true | _ => false)).length =
      (l.map (fun o => match o with
        | some b => if (Store.blobDelete b k ts m true).2 then 1 else 0
        | none => 0)).sum := by
  induction l with
  | nil => rfl
  | cons o l ih =>
    cases o with
    | none => simpa using ih
    | some b =>
      simp only [List.map_cons, Option.map_some, List.sum_cons]
      rcases hb : Store.blobDelete b k ts m true with ⟨b', d⟩
      cases d
      · rw [List.filter_cons_of_neg (by simp), ih]; simp
      · rw [List.filter_cons_of_pos (by simp), List.length_cons, ih]; simp; omega

/-- the number `Store.delete` returns, explicitly -/
theorem Store.delete_snd (S : Store) (k : Key) (ts : Nat) (m : Option Meta) (oip : Bool) :
    (S.delete k ts m oip).2 =
      let S1 := if oip then S else S.ensureActive
      (match S1.active with
        | some b => if (Store.blobDelete b k ts m oip).2 then 1 else 0
        | none => 0) +
      (S1.slots.map (fun o => match o with
        | some b => if (Store.blobDelete b k ts m true).2 then 1 else 0
        | none => 0)).sum := by
  unfold Store.delete
  simp only
  have hf := filter_marked_length k ts m (if oip then S else S.ensureActive).slots
  cases h : (if oip then S else S.ensureActive).active with
  | none => exact congrArg (0 + ·) hf
  | some b => exact congrArg ((if (Store.blobDelete b k ts m oip).2 then 1 else 0) + ·) hf

theorem fileRecCount_delS1 (a : DArgs) (s0 : CStore) : (delS1 a s0).fileRecCount = s0.fileRecCount := by
  unfold delS1
  split
  · next h =>
    have hact : s0.active = none := by
      unfold needCreate at h
      cases h' : s0.active with
      | none => rfl
      | some b => rw [h'] at h; simp at h
    unfold CStore.fileRecCount sNew sHdr sFile writeHdr createFile install bumpId
    rw [hact]
    rfl
  · rfl

/-- the completed delete adds to the blob files exactly as many record images as `Store.delete`
    reports blobs marked -/
theorem delete_count (c : Cfg) (a : DArgs) (s0 : CStore) :
    (runItems (deleteSegments c a s0) s0).fileRecCount =
      s0.fileRecCount + (s0.toStore.delete a.k a.ts a.m a.oip).2 := by
  rw [delete_run, Store.delete_snd, ← toStore_delS1, ← fileRecCount_delS1 a s0]
  unfold CStore.fileRecCount
  simp only [optRecs_delB, List.map_map, Function.comp_def, sum_map_add]
  have h1 : (match (delS1 a s0).toStore.active with
      | some b => if (Store.blobDelete b a.k a.ts a.m a.oip).2 then 1 else 0
      | none => 0) = markCount a a.oip (delS1 a s0).active := by
    unfold CStore.toStore markCount
    cases (delS1 a s0).active with
    | none => rfl
    | some b => simp only [Option.map_some]; rw [blobDelete_snd]
  have h2 : ((delS1 a s0).toStore.slots.map (fun o => match o with
      | some b => if (Store.blobDelete b a.k a.ts a.m true).2 then 1 else 0
      | none => 0)) = (delS1 a s0).slots.map (markCount a true) := by
    unfold CStore.toStore
    simp only [List.map_map]
    congr 1
    funext o
    cases o with
    | none => rfl
    | some b => simp only [Function.comp, Option.map_some, markCount]; rw [blobDelete_snd]
  rw [h1, h2]
  omega

end Pearl.Cancel
