import Pearl.Model.ConcCreate
/-
Invariant of `Pearl.ConcCreate` (`Pearl/Model/ConcCreate.lean`) and its preservation by every step of the
unseeded system, failing I/O included.  Headline statements: `Pearl/Props/C15b.lean`.
-/
namespace Pearl
namespace ConcCreate

/-! ### `maxSucc` -/

theorem maxSucc_append (l₁ l₂ : List Nat) : maxSucc (l₁ ++ l₂) = max (maxSucc l₁) (maxSucc l₂) := by
  induction l₁ with
  | nil => simp [maxSucc]
  | cons x l ih => simp only [List.cons_append, maxSucc, ih]; omega

theorem maxSucc_range (n : Nat) : maxSucc (List.range n) = n := by
  induction n with
  | zero => rfl
  | succ n ih => rw [List.range_succ, maxSucc_append, ih]; simp [maxSucc]

theorem lt_maxSucc {l : List Nat} {x : Nat} (h : x ∈ l) : x < maxSucc l := by
  induction l with
  | nil => cases h
  | cons y l ih =>
    simp only [maxSucc]
    rcases List.mem_cons.1 h with rfl | h
    · omega
    · have := ih h; omega

theorem maxSucc_le {l : List Nat} {n : Nat} (h : ∀ x ∈ l, x < n) : maxSucc l ≤ n := by
  induction l with
  | nil => simp [maxSucc]
  | cons y l ih =>
    simp only [maxSucc]
    have h1 := h y (List.mem_cons_self ..)
    have h2 := ih (fun x hx => h x (List.mem_cons_of_mem _ hx))
    omega

theorem maxSucc_pos_mem {l : List Nat} (h : l ≠ []) : ∃ x ∈ l, maxSucc l = x + 1 := by
  induction l with
  | nil => exact absurd rfl h
  | cons y l ih =>
    by_cases hl : l = []
    · subst hl; exact ⟨y, List.mem_cons_self .., by simp [maxSucc]⟩
    · obtain ⟨x, hx, hm⟩ := ih hl
      simp only [maxSucc]
      by_cases hc : maxSucc l ≤ y + 1
      · exact ⟨y, List.mem_cons_self .., by omega⟩
      · exact ⟨x, List.mem_cons_of_mem _ hx, by omega⟩

/-! ### who is inside `ensure` -/

/-- the id between "taken" and "file created", read off the pc of the lock holder -/
def takingOf : Option Pc → List Nat
  | some (.creating id) => [id]
  | _ => []

def uninstalledOf : Option Pc → List Nat
  | some (.created id) => [id]
  | _ => []

theorem taking_eq (s : State) : taking s = takingOf (holderPc s) := by
  unfold taking takingOf; split <;> simp_all

theorem uninstalled_eq (s : State) : uninstalled s = uninstalledOf (holderPc s) := by
  unfold uninstalled uninstalledOf; split <;> simp_all

theorem holderPc_of_not_excl {s : State} (h : ∀ j, s.lock ≠ .excl j) : holderPc s = none := by
  unfold holderPc; split
  · rename_i c hc; exact absurd hc (h c)
  · rfl

theorem holderPc_self {s s' : State} {i : Nat} {c c' : Client} (hc : s.clients[i]? = some c)
    (hl : s'.lock = .excl i) (hcl : s'.clients = s.clients.set i c') : holderPc s' = some c'.pc := by
  unfold holderPc; rw [hl]; simp only [hcl, List.getElem?_set_self', hc]; rfl

theorem holderPc_frame {s s' : State} {i : Nat} {c' : Client}
    (hl : s'.lock = s.lock) (hcl : s'.clients = s.clients.set i c') (hne : s.lock ≠ .excl i) :
    holderPc s' = holderPc s := by
  unfold holderPc; rw [hl]; split
  · rename_i j hj
    have : i ≠ j := fun e => hne (e ▸ hj)
    simp only [hcl, List.getElem?_set, this, if_false]
  · rfl

/-! ### the invariant -/

structure Inv (s : State) : Prop where
  /-- whoever is between `safe.write().await` and the drop of the guard is THE holder of the lock -/
  mutex : ∀ j c, s.clients[j]? = some c → c.pc.holdsX = true → s.lock = .excl j
  holder : ∀ j, s.lock = .excl j → ∃ c, s.clients[j]? = some c ∧ c.pc.holdsX = true
  /-- owners = files, in the order of creation: the closed blobs, then the active one or the one being installed -/
  own : s.closed ++ s.active.toList ++ uninstalled s = s.files
  /-- the ids handed out are `0 … nextId-1`; those not burned are the files and the one being created, in order -/
  ids : s.files ++ taking s = (List.range s.nextId).filter (fun x => decide (x ∉ s.burned))
  burn : ∀ b ∈ s.burned, b < s.nextId
  bnd : s.burned.Nodup
  cnt : s.files.length + (taking s).length + s.burned.length = s.nextId
  /-- creation happens only while there is no active blob -/
  noAct : taking s ≠ [] ∨ uninstalled s ≠ [] → s.active = none

/-- the state-independent part of a step of client `i`: its pc and the lock -/
structure Moves (s s' : State) (i : Nat) (c : Client) (pc' : Pc) : Prop where
  hc : s.clients[i]? = some c
  hcl : s'.clients = s.clients.set i { c with pc := pc' }

theorem Inv.not_excl_self {s : State} (h : Inv s) {i : Nat} {c : Client} (hc : s.clients[i]? = some c)
    (hx : c.pc.holdsX = false) : s.lock ≠ .excl i := by
  intro hl
  obtain ⟨c', hc', hx'⟩ := h.holder i hl
  rw [hc] at hc'; cases hc'; rw [hx] at hx'; cases hx'

/-- same data, the holder (if any) untouched -/
theorem Inv.of_silent {s s' : State} {i : Nat} {c : Client} {pc' : Pc} (h : Inv s) (m : Moves s s' i c pc')
    (hx : c.pc.holdsX = false) (hx' : pc'.holdsX = false)
    (hl : s'.lock = s.lock ∨ ((∀ j, s.lock ≠ .excl j) ∧ ∀ j, s'.lock ≠ .excl j))
    (ha : s'.active = s.active) (hcd : s'.closed = s.closed) (hfl : s'.files = s.files)
    (hn : s'.nextId = s.nextId) (hb : s'.burned = s.burned) : Inv s' := by
  have hp : holderPc s' = holderPc s := by
    rcases hl with hl | ⟨h1, h2⟩
    · exact holderPc_frame hl m.hcl (h.not_excl_self m.hc hx)
    · rw [holderPc_of_not_excl h1, holderPc_of_not_excl h2]
  have ht : taking s' = taking s := by rw [taking_eq, taking_eq, hp]
  have hu : uninstalled s' = uninstalled s := by rw [uninstalled_eq, uninstalled_eq, hp]
  refine ⟨?_, ?_, ?_, ?_, ?_, hb ▸ h.bnd, ?_, ?_⟩
  · intro j cj hj hxj
    rw [m.hcl, List.getElem?_set] at hj
    split at hj
    · split at hj
      · cases hj; rw [hx'] at hxj; cases hxj
      · cases hj
    · have := h.mutex j cj hj hxj
      rcases hl with hl | ⟨h1, _⟩
      · rw [hl]; exact this
      · exact absurd this (h1 j)
  · intro j hj
    have hj' : s.lock = .excl j := by
      rcases hl with hl | ⟨_, h2⟩
      · rw [← hl]; exact hj
      · exact absurd hj (h2 j)
    obtain ⟨cj, hcj, hxj⟩ := h.holder j hj'
    have : i ≠ j := fun e => h.not_excl_self m.hc hx (e ▸ hj')
    exact ⟨cj, by rw [m.hcl, List.getElem?_set]; simp [this, hcj], hxj⟩
  · rw [hcd, ha, hu, hfl]; exact h.own
  · rw [hfl, ht, hn, hb]; exact h.ids
  · rw [hb, hn]; exact h.burn
  · rw [hfl, ht, hn, hb]; exact h.cnt
  · rw [ht, hu, ha]; exact h.noAct

/-- `safe.write().await` granted -/
theorem Inv.of_acquire {s s' : State} {i : Nat} {c : Client} (h : Inv s) (m : Moves s s' i c .locked)
    (hl : s.lock = .free) (hl' : s'.lock = .excl i)
    (ha : s'.active = s.active) (hcd : s'.closed = s.closed) (hfl : s'.files = s.files)
    (hn : s'.nextId = s.nextId) (hb : s'.burned = s.burned) : Inv s' := by
  have hp : holderPc s = none := holderPc_of_not_excl (by rw [hl]; intro j hj; cases hj)
  have hp' : holderPc s' = some Pc.locked := holderPc_self m.hc hl' m.hcl
  have ht : taking s = [] := by rw [taking_eq, hp]; rfl
  have hu : uninstalled s = [] := by rw [uninstalled_eq, hp]; rfl
  have ht' : taking s' = [] := by rw [taking_eq, hp']; rfl
  have hu' : uninstalled s' = [] := by rw [uninstalled_eq, hp']; rfl
  refine ⟨?_, ?_, ?_, ?_, ?_, hb ▸ h.bnd, ?_, ?_⟩
  · intro j cj hj hxj
    rw [m.hcl, List.getElem?_set] at hj
    split at hj
    · rename_i e; rw [hl', e]
    · have := h.mutex j cj hj hxj; rw [hl] at this; cases this
  · intro j hj
    rw [hl'] at hj; cases hj
    exact ⟨_, by rw [m.hcl, List.getElem?_set_self', m.hc]; rfl, rfl⟩
  · rw [hcd, ha, hu', hfl, ← h.own, hu]
  · rw [hfl, ht', hn, hb, ← h.ids, ht]
  · rw [hb, hn]; exact h.burn
  · rw [hfl, ht', hn, hb, ← h.cnt, ht]
  · intro hh; rw [ht', hu'] at hh; simp at hh

/-- the exclusive guard dropped -/
theorem Inv.of_release {s s' : State} {i : Nat} {c : Client} {r : Res} (h : Inv s) (m : Moves s s' i c (.done r))
    (hpc : c.pc = .rel r) (hl' : s'.lock = .free)
    (ha : s'.active = s.active) (hcd : s'.closed = s.closed) (hfl : s'.files = s.files)
    (hn : s'.nextId = s.nextId) (hb : s'.burned = s.burned) : Inv s' := by
  have hl : s.lock = .excl i := h.mutex i c m.hc (by rw [hpc]; rfl)
  have hp : holderPc s = some (Pc.rel r) := by
    unfold holderPc; rw [hl]; simp only [m.hc, Option.map_some, hpc]
  have hp' : holderPc s' = none := holderPc_of_not_excl (by rw [hl']; intro j hj; cases hj)
  have ht : taking s = [] := by rw [taking_eq, hp]; rfl
  have hu : uninstalled s = [] := by rw [uninstalled_eq, hp]; rfl
  have ht' : taking s' = [] := by rw [taking_eq, hp']; rfl
  have hu' : uninstalled s' = [] := by rw [uninstalled_eq, hp']; rfl
  refine ⟨?_, ?_, ?_, ?_, ?_, hb ▸ h.bnd, ?_, ?_⟩
  · intro j cj hj hxj
    rw [m.hcl, List.getElem?_set] at hj
    split at hj
    · split at hj
      · cases hj; cases hxj
      · cases hj
    · rename_i ne
      have := h.mutex j cj hj hxj; rw [hl] at this; cases this; exact absurd rfl ne
  · intro j hj; rw [hl'] at hj; cases hj
  · rw [hcd, ha, hu', hfl, ← h.own, hu]
  · rw [hfl, ht', hn, hb, ← h.ids, ht]
  · rw [hb, hn]; exact h.burn
  · rw [hfl, ht', hn, hb, ← h.cnt, ht]
  · intro hh; rw [ht', hu'] at hh; simp at hh

/-- a step of the holder that keeps the lock: the lock part of the invariant, and who the holder is before and
    after -/
theorem Inv.holder_step {s s' : State} {i : Nat} {c : Client} {pc' : Pc} (h : Inv s) (m : Moves s s' i c pc')
    (hx : c.pc.holdsX = true) (hx' : pc'.holdsX = true) (hl : s'.lock = s.lock) :
    (∀ j cj, s'.clients[j]? = some cj → cj.pc.holdsX = true → s'.lock = .excl j) ∧
    (∀ j, s'.lock = .excl j → ∃ cj, s'.clients[j]? = some cj ∧ cj.pc.holdsX = true) ∧
    holderPc s = some c.pc ∧ holderPc s' = some pc' := by
  have hli : s.lock = .excl i := h.mutex i c m.hc hx
  refine ⟨?_, ?_, ?_, ?_⟩
  · intro j cj hj hxj
    rw [m.hcl, List.getElem?_set] at hj
    split at hj
    · rename_i e; rw [hl, hli, e]
    · rw [hl]; exact h.mutex j cj hj hxj
  · intro j hj
    rw [hl, hli] at hj; cases hj
    exact ⟨_, by rw [m.hcl, List.getElem?_set_self', m.hc]; rfl, hx'⟩
  · unfold holderPc; rw [hli]; simp only [m.hc, Option.map_some]
  · exact holderPc_self m.hc (hl.trans hli) m.hcl

/-- a step of the holder that keeps the lock: the data part is left to the caller, stated on the pcs -/
theorem Inv.of_holder {s s' : State} {i : Nat} {c : Client} {pc' : Pc} (h : Inv s) (m : Moves s s' i c pc')
    (hx : c.pc.holdsX = true) (hx' : pc'.holdsX = true) (hl : s'.lock = s.lock)
    (own' : s.closed ++ s.active.toList ++ uninstalledOf (some c.pc) = s.files →
      s'.closed ++ s'.active.toList ++ uninstalledOf (some pc') = s'.files)
    (ids' : s.files ++ takingOf (some c.pc) = (List.range s.nextId).filter (fun x => decide (x ∉ s.burned)) →
      s'.files ++ takingOf (some pc') = (List.range s'.nextId).filter (fun x => decide (x ∉ s'.burned)))
    (burn' : ∀ b ∈ s'.burned, b < s'.nextId) (bnd' : s'.burned.Nodup)
    (cnt' : s.files.length + (takingOf (some c.pc)).length + s.burned.length = s.nextId →
      s'.files.length + (takingOf (some pc')).length + s'.burned.length = s'.nextId)
    (noAct' : (takingOf (some c.pc) ≠ [] ∨ uninstalledOf (some c.pc) ≠ [] → s.active = none) →
      takingOf (some pc') ≠ [] ∨ uninstalledOf (some pc') ≠ [] → s'.active = none) : Inv s' := by
  obtain ⟨h1, h2, hp, hp'⟩ := h.holder_step m hx hx' hl
  have ht : taking s = takingOf (some c.pc) := by rw [taking_eq, hp]
  have hu : uninstalled s = uninstalledOf (some c.pc) := by rw [uninstalled_eq, hp]
  have ht' : taking s' = takingOf (some pc') := by rw [taking_eq, hp']
  have hu' : uninstalled s' = uninstalledOf (some pc') := by rw [uninstalled_eq, hp']
  refine ⟨h1, h2, ?_, ?_, burn', bnd', ?_, ?_⟩
  · rw [hu']; exact own' (hu ▸ h.own)
  · rw [ht']; exact ids' (ht ▸ h.ids)
  · rw [ht']; exact cnt' (ht ▸ h.cnt)
  · rw [ht', hu']; exact noAct' (ht ▸ hu ▸ h.noAct)

/-- … and nothing but the pc changes, neither pc being inside the creation -/
theorem Inv.of_holder_silent {s s' : State} {i : Nat} {c : Client} {pc' : Pc} (h : Inv s) (m : Moves s s' i c pc')
    (hx : c.pc.holdsX = true) (hx' : pc'.holdsX = true) (hl : s'.lock = s.lock)
    (ht : takingOf (some pc') = takingOf (some c.pc)) (hu : uninstalledOf (some pc') = uninstalledOf (some c.pc))
    (ha : s'.active = s.active) (hcd : s'.closed = s.closed) (hfl : s'.files = s.files)
    (hn : s'.nextId = s.nextId) (hb : s'.burned = s.burned) : Inv s' := by
  refine h.of_holder m hx hx' hl ?_ ?_ ?_ (hb ▸ h.bnd) ?_ ?_
  · rw [hcd, ha, hu, hfl]; exact fun hh => hh
  · rw [hfl, ht, hn, hb]; exact fun hh => hh
  · rw [hb, hn]; exact h.burn
  · rw [hfl, ht, hn, hb]; exact fun hh => hh
  · rw [ht, hu, ha]; exact fun hh => hh

theorem filter_range_succ_of_burn {n : Nat} {burned : List Nat} (hb : ∀ b ∈ burned, b < n) :
    (List.range (n + 1)).filter (fun x => decide (x ∉ burned)) =
      (List.range n).filter (fun x => decide (x ∉ burned)) ++ [n] := by
  have : n ∉ burned := fun hm => Nat.lt_irrefl _ (hb n hm)
  rw [List.range_succ, List.filter_append]
  simp [this]

theorem filter_cons_burned {l fs : List Nat} {burned : List Nat} {id : Nat} (hnd : l.Nodup)
    (h : fs ++ [id] = l.filter (fun x => decide (x ∉ burned))) :
    fs = l.filter (fun x => decide (x ∉ id :: burned)) := by
  have hnd' : (fs ++ [id]).Nodup := h ▸ hnd.filter _
  have hid : id ∉ fs := by
    intro hm
    have := (List.nodup_append.1 hnd').2.2 id hm id (List.mem_singleton.2 rfl)
    exact this rfl
  have e : l.filter (fun x => decide (x ∉ id :: burned)) =
      (l.filter (fun x => decide (x ∉ burned))).filter (fun x => decide (x ≠ id)) := by
    rw [List.filter_filter]; congr 1; funext x; simp [List.mem_cons]
  rw [e, ← h, List.filter_append]
  have : fs.filter (fun x => decide (x ≠ id)) = fs :=
    List.filter_eq_self.2 (fun x hx => by
      have : x ≠ id := fun e => hid (e ▸ hx)
      simpa using this)
  rw [this]; simp

theorem Inv.holderPc_eq {s : State} (h : Inv s) {i : Nat} {c : Client} (hc : s.clients[i]? = some c)
    (hx : c.pc.holdsX = true) : holderPc s = some c.pc := by
  have hli : s.lock = .excl i := h.mutex i c hc hx
  unfold holderPc; rw [hli]; simp only [hc, Option.map_some]

/-- the client inside the creation is the one `taking`/`uninstalled` speak about, and there is no active blob -/
theorem Inv.of_creating {s : State} (h : Inv s) {i : Nat} {c : Client} {id : Nat} (hc : s.clients[i]? = some c)
    (hpc : c.pc = .creating id) : taking s = [id] ∧ uninstalled s = [] ∧ s.active = none := by
  have hp := h.holderPc_eq hc (by rw [hpc]; rfl)
  have ht : taking s = [id] := by rw [taking_eq, hp, hpc]; rfl
  have hu : uninstalled s = [] := by rw [uninstalled_eq, hp, hpc]; rfl
  exact ⟨ht, hu, h.noAct (.inl (by rw [ht]; simp))⟩

theorem Inv.of_created {s : State} (h : Inv s) {i : Nat} {c : Client} {id : Nat} (hc : s.clients[i]? = some c)
    (hpc : c.pc = .created id) : taking s = [] ∧ uninstalled s = [id] ∧ s.active = none := by
  have hp := h.holderPc_eq hc (by rw [hpc]; rfl)
  have ht : taking s = [] := by rw [taking_eq, hp, hpc]; rfl
  have hu : uninstalled s = [id] := by rw [uninstalled_eq, hp, hpc]; rfl
  exact ⟨ht, hu, h.noAct (.inr (by rw [hu]; simp))⟩

theorem Lock.free_ne_excl (j : Nat) : Lock.free ≠ .excl j := nofun
theorem Lock.shared_ne_excl (n j : Nat) : Lock.shared n ≠ .excl j := nofun

/-! ### every step of the code as it is keeps the invariant -/

theorem Inv.cstep {s t : State} {i : Nat} {c : Client} {pc' : Pc} (h : Inv s) (hc : s.clients[i]? = some c)
    (hs : cstep false s i c = some (pc', t)) :
    Inv { t with clients := s.clients.set i { c with pc := pc' } } := by
  unfold ConcCreate.cstep at hs
  split at hs
  · -- start
    rename_i hpc
    split at hs
    · rename_i hl; cases hs
      exact h.of_silent ⟨hc, rfl⟩ (by rw [hpc]; rfl) rfl
        (.inr ⟨hl ▸ Lock.free_ne_excl, Lock.shared_ne_excl _⟩) rfl rfl rfl rfl rfl
    · rename_i n hl; cases hs
      exact h.of_silent ⟨hc, rfl⟩ (by rw [hpc]; rfl) rfl
        (.inr ⟨hl ▸ Lock.shared_ne_excl _, Lock.shared_ne_excl _⟩) rfl rfl rfl rfl rfl
    · cases hs
  · -- pre
    rename_i hpc
    split at hs
    · rename_i n hl; cases hs
      refine h.of_silent ⟨hc, rfl⟩ (by rw [hpc]; rfl) rfl
        (.inr ⟨hl ▸ Lock.shared_ne_excl _, ?_⟩) rfl rfl rfl rfl rfl
      intro j hj; dsimp only at hj; split at hj <;> cases hj
    · cases hs
  · -- preDone
    rename_i has hpc
    split at hs
    · cases hs
      exact h.of_silent ⟨hc, rfl⟩ (by rw [hpc]; rfl) rfl (.inl rfl) rfl rfl rfl rfl rfl
    · cases hs
      exact h.of_silent ⟨hc, rfl⟩ (by rw [hpc]; rfl) rfl (.inl rfl) rfl rfl rfl rfl rfl
    · split at hs
      · rename_i hl; cases hs
        exact h.of_acquire ⟨hc, rfl⟩ hl rfl rfl rfl rfl rfl rfl
      · cases hs
  · -- locked
    rename_i hpc
    split at hs
    · -- firstOp: `ensure`
      cases hs
      simp only [Bool.false_eq_true, if_false, ensure]
      split
      · -- somebody else created it meanwhile
        exact h.of_holder_silent ⟨hc, rfl⟩ (by rw [hpc]; rfl) rfl rfl (by rw [hpc]; rfl) (by rw [hpc]; rfl)
          rfl rfl rfl rfl rfl
      · -- the id is taken
        rename_i hact
        have hnone : s.active = none := by
          cases ha : s.active with
          | none => rfl
          | some a => rw [ha] at hact; exact absurd rfl hact
        refine h.of_holder ⟨hc, rfl⟩ (by rw [hpc]; rfl) rfl rfl ?_ ?_ ?_ h.bnd ?_ ?_
        · rw [hpc]; exact fun hh => hh
        · rw [hpc]; intro hi
          simp only [takingOf, List.append_nil] at hi ⊢
          rw [filter_range_succ_of_burn h.burn, hi]
        · intro b hb; exact Nat.lt_succ_of_lt (h.burn b hb)
        · rw [hpc]; simp only [takingOf, List.length_nil, List.length_singleton]; omega
        · intro _ _; exact hnone
    · -- closeActive: the test
      cases hs
      split
      · exact h.of_holder_silent ⟨hc, rfl⟩ (by rw [hpc]; rfl) rfl rfl (by rw [hpc]; rfl) (by rw [hpc]; rfl)
          rfl rfl rfl rfl rfl
      · exact h.of_holder_silent ⟨hc, rfl⟩ (by rw [hpc]; rfl) rfl rfl (by rw [hpc]; rfl) (by rw [hpc]; rfl)
          rfl rfl rfl rfl rfl
  · -- creating: the file appears
    rename_i id hpc
    cases hs
    obtain ⟨_, _, hnone⟩ := h.of_creating hc hpc
    refine h.of_holder ⟨hc, rfl⟩ (by rw [hpc]; rfl) rfl rfl ?_ ?_ h.burn h.bnd ?_ ?_
    · rw [hpc]; intro ho
      simp only [uninstalledOf, List.append_nil] at ho ⊢
      rw [← ho, hnone]
    · rw [hpc]; intro hi
      simp only [takingOf, List.append_nil] at hi ⊢
      exact hi
    · rw [hpc]; simp only [takingOf, List.length_nil, List.length_singleton, List.length_append]; omega
    · intro _ _; exact hnone
  · -- created: installed
    rename_i id hpc
    cases hs
    obtain ⟨_, _, hnone⟩ := h.of_created hc hpc
    refine h.of_holder ⟨hc, rfl⟩ (by rw [hpc]; rfl) rfl rfl ?_ ?_ h.burn h.bnd ?_ ?_
    · rw [hpc]; intro ho
      simp only [uninstalledOf, List.append_nil] at ho ⊢
      rw [← ho, hnone]; simp
    · rw [hpc]; exact fun hh => hh
    · rw [hpc]; exact fun hh => hh
    · intro _ hh; simp [takingOf, uninstalledOf] at hh
  · -- closing: the move
    rename_i hpc
    split at hs
    · rename_i a ha; cases hs
      refine h.of_holder ⟨hc, rfl⟩ (by rw [hpc]; rfl) rfl rfl ?_ ?_ h.burn h.bnd ?_ ?_
      · rw [hpc]; intro ho
        simp only [uninstalledOf, List.append_nil] at ho ⊢
        rw [← ho, ha]; simp
      · rw [hpc]; exact fun hh => hh
      · rw [hpc]; exact fun hh => hh
      · intro _ _; rfl
    · cases hs
      exact h.of_holder_silent ⟨hc, rfl⟩ (by rw [hpc]; rfl) rfl rfl (by rw [hpc]; rfl) (by rw [hpc]; rfl)
        rfl rfl rfl rfl rfl
  · -- rel
    rename_i r hpc
    cases hs
    exact h.of_release ⟨hc, rfl⟩ hpc rfl rfl rfl rfl rfl rfl
  · cases hs

theorem Inv.cfail {s t : State} {i : Nat} {c : Client} {pc' : Pc} (h : Inv s) (hc : s.clients[i]? = some c)
    (hs : cfail s c = some (pc', t)) :
    Inv { t with clients := s.clients.set i { c with pc := pc' } } := by
  unfold ConcCreate.cfail at hs
  split at hs
  · -- `open_new` fails: the id is burned
    rename_i id hpc
    cases hs
    obtain ⟨ht, _, hnone⟩ := h.of_creating hc hpc
    have hlt : id < s.nextId := by
      have hm : id ∈ (List.range s.nextId).filter (fun x => decide (x ∉ s.burned)) := by
        rw [← h.ids, ht]; simp
      exact List.mem_range.1 (List.mem_filter.1 hm).1
    have hnb : id ∉ s.burned := by
      have hm : id ∈ (List.range s.nextId).filter (fun x => decide (x ∉ s.burned)) := by
        rw [← h.ids, ht]; simp
      simpa using (List.mem_filter.1 hm).2
    refine h.of_holder ⟨hc, rfl⟩ (by rw [hpc]; rfl) rfl rfl ?_ ?_ ?_ (List.nodup_cons.2 ⟨hnb, h.bnd⟩) ?_ ?_
    · rw [hpc]; exact fun hh => hh
    · rw [hpc]; intro hi
      simp only [takingOf, List.append_nil] at hi ⊢
      exact filter_cons_burned List.nodup_range hi
    · intro b hb
      rcases List.mem_cons.1 hb with rfl | hb
      · exact hlt
      · exact h.burn b hb
    · rw [hpc]; simp only [takingOf, List.length_nil, List.length_cons]; omega
    · intro _ hh; simp [takingOf, uninstalledOf] at hh
  · rename_i hpc
    cases hs
    exact h.of_holder_silent ⟨hc, rfl⟩ (by rw [hpc]; rfl) rfl rfl (by rw [hpc]; rfl) (by rw [hpc]; rfl)
      rfl rfl rfl rfl rfl
  · cases hs

theorem Inv.fire {s s' : State} {l : Label} (h : Inv s) (hf : fire false l s = some s') : Inv s' := by
  unfold ConcCreate.fire at hf
  split at hf
  · cases hf
  rename_i c hc
  split at hf
  · cases hf
  rename_i pc t hstep
  cases hf
  cases l with
  | step i => exact h.cstep hc hstep
  | fail i => exact h.cfail hc hstep

theorem Inv.reach {s0 s : State} (h0 : Inv s0) (hr : Reach false s0 s) : Inv s := by
  induction hr with
  | refl => exact h0
  | step _ hs ih => obtain ⟨l, hl⟩ := hs; exact ih.fire hl

theorem inv_initAt (n : Nat) (kinds : List Kind) : Inv (initAt n kinds) := by
  have hp : holderPc (initAt n kinds) = none := holderPc_of_not_excl Lock.free_ne_excl
  have ht : taking (initAt n kinds) = [] := by rw [taking_eq, hp]; rfl
  have hu : uninstalled (initAt n kinds) = [] := by rw [uninstalled_eq, hp]; rfl
  refine ⟨?_, ?_, ?_, ?_, ?_, List.nodup_nil, ?_, ?_⟩
  · intro j c hj hx
    simp only [initAt, List.getElem?_map] at hj
    cases hk : kinds[j]? with
    | none => rw [hk] at hj; cases hj
    | some k => rw [hk] at hj; cases hj; cases hx
  · intro j hj; cases hj
  · rw [hu]; simp [initAt]
  · rw [ht]; simp only [initAt, List.append_nil, List.not_mem_nil, not_false_eq_true, decide_true]
    exact (List.filter_eq_self.2 (fun _ _ => rfl)).symm
  · intro b hb; cases hb
  · rw [ht]; simp [initAt]
  · rw [ht, hu]; intro hh; simp at hh

/-! ### schedules, monotonicity -/

theorem reach_of_sched {sd : Bool} {ls : List Label} {s0 s : State} (h : runSched sd ls s0 = some s) :
    Reach sd s0 s := by
  suffices ∀ ls s1, Reach sd s0 s1 → runSched sd ls s1 = some s → Reach sd s0 s from this ls s0 .refl h
  intro ls
  induction ls with
  | nil => intro s1 hr h; cases h; exact hr
  | cons l ls ih =>
    intro s1 hr h
    simp only [runSched] at h
    split at h
    · rename_i s2 h2; exact ih s2 (.step hr ⟨l, h2⟩) h
    · cases h

theorem runSched_append {sd : Bool} (ls₁ ls₂ : List Label) (s : State) :
    runSched sd (ls₁ ++ ls₂) s = (runSched sd ls₁ s).bind (runSched sd ls₂) := by
  induction ls₁ generalizing s with
  | nil => rfl
  | cons l ls ih =>
    simp only [List.cons_append, runSched]
    split
    · exact ih _
    · rfl

theorem sched_of_reach {sd : Bool} {s0 s : State} (h : Reach sd s0 s) : ∃ ls, runSched sd ls s0 = some s := by
  induction h with
  | refl => exact ⟨[], rfl⟩
  | step _ hs ih =>
    obtain ⟨ls, hls⟩ := ih
    obtain ⟨l, hl⟩ := hs
    exact ⟨ls ++ [l], by rw [runSched_append, hls]; simp [runSched, hl]⟩

/-- the counter never goes back, files are only added (at the end), burned ids stay burned -/
theorem fire_mono {sd : Bool} {l : Label} {s s' : State} (hf : fire sd l s = some s') :
    s.nextId ≤ s'.nextId ∧ s.files <+: s'.files ∧ s.burned <:+ s'.burned ∧
      s'.clients.length = s.clients.length ∧ (l.isFail = false → s'.burned = s.burned) := by
  unfold fire at hf
  split at hf
  · cases hf
  split at hf
  · cases hf
  rename_i pc t hstep
  cases hf
  cases l with
  | step i =>
    simp only [cstep] at hstep
    split at hstep <;> (try split at hstep) <;> (try split at hstep) <;> cases hstep <;>
      simp [ensure, ensureSeeded] <;> (try split) <;> simp
  | fail i =>
    simp only [cfail] at hstep
    split at hstep <;> cases hstep <;> simp [Label.isFail]

theorem reach_mono {sd : Bool} {s0 s : State} (h : Reach sd s0 s) :
    s0.nextId ≤ s.nextId ∧ s0.files <+: s.files ∧ s0.burned <:+ s.burned ∧ s.clients.length = s0.clients.length := by
  induction h with
  | refl => exact ⟨Nat.le_refl _, List.prefix_refl _, List.suffix_refl _, rfl⟩
  | step _ hs ih =>
    obtain ⟨l, hl⟩ := hs
    obtain ⟨h1, h2, h3, h4, _⟩ := fire_mono hl
    exact ⟨Nat.le_trans ih.1 h1, ih.2.1.trans h2, ih.2.2.1.trans h3, h4.trans ih.2.2.2⟩

/-- a schedule without failing I/O burns nothing -/
theorem burned_of_failure_free {sd : Bool} {ls : List Label} {s0 s : State} (h : runSched sd ls s0 = some s)
    (hok : ∀ l ∈ ls, l.isFail = false) : s.burned = s0.burned := by
  induction ls generalizing s0 with
  | nil => cases h; rfl
  | cons l ls ih =>
    simp only [runSched] at h
    split at h
    · rename_i s2 h2
      rw [ih h (fun l' hl' => hok l' (List.mem_cons_of_mem _ hl'))]
      exact (fire_mono h2).2.2.2.2 (hok l (List.mem_cons_self ..))
    · cases h

/-! ### what the invariant says -/

theorem holderPc_none_of_quiescent {s : State} (hq : quiescent s) :
    ∀ p, holderPc s = some p → p.isDone = true := by
  intro p hp
  unfold holderPc at hp
  split at hp
  · rename_i c _
    cases hc : s.clients[c]? with
    | none => rw [hc] at hp; cases hp
    | some cl => rw [hc] at hp; cases hp; exact hq cl (List.mem_of_getElem? hc)
  · cases hp

theorem taking_nil_of_quiescent {s : State} (hq : quiescent s) : taking s = [] := by
  rw [taking_eq]; unfold takingOf; split
  · rename_i id hp; have := holderPc_none_of_quiescent hq _ hp; cases this
  · rfl

theorem uninstalled_nil_of_quiescent {s : State} (hq : quiescent s) : uninstalled s = [] := by
  rw [uninstalled_eq]; unfold uninstalledOf; split
  · rename_i id hp; have := holderPc_none_of_quiescent hq _ hp; cases this
  · rfl

/-- if `taking` names an id, some client is at `creating id` (and holds the lock); by definition -/
theorem exists_of_taking {s : State} {id : Nat} (h : taking s = [id]) :
    ∃ i c, s.lock = .excl i ∧ s.clients[i]? = some c ∧ c.pc = .creating id := by
  rw [taking_eq] at h
  unfold takingOf at h
  split at h
  · rename_i id' hp
    cases h
    unfold holderPc at hp
    split at hp
    · rename_i c hl
      cases hc : s.clients[c]? with
      | none => rw [hc] at hp; cases hp
      | some cl => rw [hc] at hp; exact ⟨c, cl, hl, hc, by simpa using hp⟩
    · cases hp
  · cases h

theorem exists_of_uninstalled {s : State} {id : Nat} (h : uninstalled s = [id]) :
    ∃ i c, s.lock = .excl i ∧ s.clients[i]? = some c ∧ c.pc = .created id := by
  rw [uninstalled_eq] at h
  unfold uninstalledOf at h
  split at h
  · rename_i id' hp
    cases h
    unfold holderPc at hp
    split at hp
    · rename_i c hl
      cases hc : s.clients[c]? with
      | none => rw [hc] at hp; cases hp
      | some cl => rw [hc] at hp; exact ⟨c, cl, hl, hc, by simpa using hp⟩
    · cases hp
  · cases h

/-- nobody at `creating` ⇒ `taking = []` -/
theorem taking_nil_of_no_creating {s : State} (h : ∀ c ∈ s.clients, ∀ id, c.pc ≠ .creating id) : taking s = [] := by
  cases ht : taking s with
  | nil => rfl
  | cons x l =>
    have hl : l = [] := by
      rw [taking_eq] at ht; unfold takingOf at ht; split at ht
      · cases ht; rfl
      · cases ht
    subst hl
    obtain ⟨i, c, _, hc, hpc⟩ := exists_of_taking ht
    exact absurd hpc (h c (List.mem_of_getElem? hc) x)

theorem uninstalled_nil_of_no_created {s : State} (h : ∀ c ∈ s.clients, ∀ id, c.pc ≠ .created id) :
    uninstalled s = [] := by
  cases ht : uninstalled s with
  | nil => rfl
  | cons x l =>
    have hl : l = [] := by
      rw [uninstalled_eq] at ht; unfold uninstalledOf at ht; split at ht
      · cases ht; rfl
      · cases ht
    subst hl
    obtain ⟨i, c, _, hc, hpc⟩ := exists_of_uninstalled ht
    exact absurd hpc (h c (List.mem_of_getElem? hc) x)

/-- at most one client holds the exclusive lock -/
theorem Inv.exclusive {s : State} (h : Inv s) {i j : Nat} {ci cj : Client} (hi : s.clients[i]? = some ci)
    (hj : s.clients[j]? = some cj) (hxi : ci.pc.holdsX = true) (hxj : cj.pc.holdsX = true) : i = j := by
  have h1 := h.mutex i ci hi hxi
  have h2 := h.mutex j cj hj hxj
  rw [h1] at h2; cases h2; rfl

theorem Inv.files_sorted {s : State} (h : Inv s) : (s.files ++ taking s).Pairwise (· < ·) := by
  rw [h.ids]; exact List.pairwise_lt_range.filter _

theorem Inv.files_lt {s : State} (h : Inv s) : ∀ x ∈ s.files ++ taking s, x < s.nextId := by
  intro x hx; rw [h.ids] at hx; exact List.mem_range.1 (List.mem_filter.1 hx).1

theorem Inv.not_burned {s : State} (h : Inv s) : ∀ x ∈ s.files ++ taking s, x ∉ s.burned := by
  intro x hx; rw [h.ids] at hx; simpa using (List.mem_filter.1 hx).2

/-- every id handed out so far was handed out once: files, the id in flight and the burned ids are pairwise
    different -/
theorem Inv.ids_nodup {s : State} (h : Inv s) : (s.files ++ taking s ++ s.burned).Nodup := by
  refine List.nodup_append.2 ⟨?_, h.bnd, ?_⟩
  · rw [h.ids]; exact List.nodup_range.filter _
  · intro a ha b hb e; subst e; exact h.not_burned a ha hb

theorem Inv.maxSucc_le {s : State} (h : Inv s) : maxSucc (s.files ++ taking s) ≤ s.nextId :=
  ConcCreate.maxSucc_le h.files_lt

/-- no failed creation so far: the files and the id in flight are `0 … nextId-1`, in this order -/
theorem Inv.files_eq_range {s : State} (h : Inv s) (hb : s.burned = []) :
    s.files ++ taking s = List.range s.nextId := by
  rw [h.ids, hb]; exact List.filter_eq_self.2 (fun _ _ => by simp)

theorem Inv.nextId_eq_maxSucc {s : State} (h : Inv s) (hb : s.burned = []) :
    s.nextId = maxSucc (s.files ++ taking s) := by
  rw [h.files_eq_range hb, maxSucc_range]

/-- in general: the counter is `maxSucc` of the ids handed out, burned ones included -/
theorem Inv.nextId_eq_maxSucc_all {s : State} (h : Inv s) :
    s.nextId = maxSucc (s.files ++ taking s ++ s.burned) := by
  apply Nat.le_antisymm
  · cases hn : s.nextId with
    | zero => exact Nat.zero_le _
    | succ n =>
      by_cases hm : n ∈ s.burned
      · exact lt_maxSucc (List.mem_append_right _ hm)
      · have : n ∈ s.files ++ taking s := by
          rw [h.ids, hn]; exact List.mem_filter.2 ⟨List.mem_range.2 (Nat.lt_succ_self n), by simpa using hm⟩
        exact lt_maxSucc (List.mem_append_left _ this)
  · apply ConcCreate.maxSucc_le
    intro x hx
    rcases List.mem_append.1 hx with hx | hx
    · exact h.files_lt x hx
    · exact h.burn x hx

/-! ### the shared side of the lock; no deadlock -/

def Pc.isPre : Pc → Bool
  | .pre => true
  | _ => false

/-- number of clients inside `has_active_blob` -/
def readersOf (cl : List Client) : Nat := cl.countP (fun c => c.pc.isPre)

def lockOK : Lock → Nat → Prop
  | .free, r => r = 0
  | .shared n, r => r = n ∧ 0 < n
  | .excl _, r => r = 0

/-- the lock says how many clients hold it shared -/
def LockInv (s : State) : Prop := lockOK s.lock (readersOf s.clients)

theorem readersOf_set {cl : List Client} {i : Nat} {c : Client} (hc : cl[i]? = some c) (pc' : Pc) :
    readersOf (cl.set i { c with pc := pc' }) + (if c.pc.isPre then 1 else 0) =
      readersOf cl + (if pc'.isPre then 1 else 0) ∧ ((c.pc.isPre = true) → 0 < readersOf cl) := by
  obtain ⟨hi, hci⟩ := List.getElem_of_getElem? hc
  have hpos : c.pc.isPre = true → 0 < readersOf cl := fun hp =>
    List.countP_pos_iff.2 ⟨c, List.mem_of_getElem? hc, hp⟩
  refine ⟨?_, hpos⟩
  unfold readersOf
  rw [List.countP_set hi, hci]
  by_cases hp : c.pc.isPre = true
  · have := hpos hp; unfold readersOf at this; simp only [hp, if_true]; omega
  · simp only [hp]; simp

theorem LockInv.cstep {s t : State} {i : Nat} {c : Client} {pc' : Pc} (h : Inv s) (hL : LockInv s)
    (hc : s.clients[i]? = some c) (hs : cstep false s i c = some (pc', t)) :
    LockInv { t with clients := s.clients.set i { c with pc := pc' } } := by
  have key := fun (pc'' : Pc) => (readersOf_set hc pc'').1
  unfold LockInv at hL ⊢
  unfold ConcCreate.cstep at hs
  split at hs
  · rename_i hpc
    split at hs
    · rename_i hl; cases hs
      have := key .pre; rw [hl] at hL; rw [hpc] at this
      simp [lockOK, Pc.isPre] at this hL ⊢; omega
    · rename_i n hl; cases hs
      have := key .pre; rw [hl] at hL; rw [hpc] at this
      simp [lockOK, Pc.isPre] at this hL ⊢; omega
    · cases hs
  · rename_i hpc
    split at hs
    · rename_i n hl; cases hs
      have := key (.preDone s.active.isSome); rw [hl] at hL; rw [hpc] at this
      by_cases hn : n = 0
      · simp [lockOK, Pc.isPre, hn] at this hL ⊢; omega
      · simp [lockOK, Pc.isPre, hn] at this hL ⊢; omega
    · cases hs
  · rename_i has hpc
    split at hs
    · cases hs
      have := key (.done .exists_); rw [hpc] at this
      simp [Pc.isPre] at this; rw [this]; exact hL
    · cases hs
      have := key (.done .noActive); rw [hpc] at this
      simp [Pc.isPre] at this; rw [this]; exact hL
    · split at hs
      · rename_i hl; cases hs
        have := key .locked; rw [hpc] at this; rw [hl] at hL
        simp [Pc.isPre] at this; rw [this]; exact hL
      · cases hs
  · rename_i hpc
    split at hs
    · cases hs
      simp only [Bool.false_eq_true, if_false, ensure]
      split
      · have := key (.rel .raced); rw [hpc] at this
        simp [Pc.isPre] at this; rw [this]; exact hL
      · have := key (.creating s.nextId); rw [hpc] at this
        simp [Pc.isPre] at this; rw [this]; exact hL
    · cases hs
      split
      · have := key .closing; rw [hpc] at this
        simp [Pc.isPre] at this; rw [this]; exact hL
      · have := key (.rel .noActive); rw [hpc] at this
        simp [Pc.isPre] at this; rw [this]; exact hL
  · rename_i id hpc; cases hs
    have := key (.created id); rw [hpc] at this
    simp [Pc.isPre] at this; rw [this]; exact hL
  · rename_i id hpc; cases hs
    have := key (.rel (.created id)); rw [hpc] at this
    simp [Pc.isPre] at this; rw [this]; exact hL
  · rename_i hpc
    split at hs
    · rename_i a ha; cases hs
      have := key (.rel (.closed a)); rw [hpc] at this
      simp [Pc.isPre] at this; rw [this]; exact hL
    · cases hs
      have := key (.rel .noActive); rw [hpc] at this
      simp [Pc.isPre] at this; rw [this]; exact hL
  · rename_i r hpc; cases hs
    have hl : s.lock = .excl i := h.mutex i c hc (by rw [hpc]; rfl)
    have := key (.done r); rw [hpc] at this; rw [hl] at hL
    simp [Pc.isPre] at this; rw [this]; exact hL
  · cases hs

theorem LockInv.cfail {s t : State} {i : Nat} {c : Client} {pc' : Pc} (hL : LockInv s)
    (hc : s.clients[i]? = some c) (hs : cfail s c = some (pc', t)) :
    LockInv { t with clients := s.clients.set i { c with pc := pc' } } := by
  have key := fun (pc'' : Pc) => (readersOf_set hc pc'').1
  unfold LockInv at hL ⊢
  unfold ConcCreate.cfail at hs
  split at hs
  · rename_i id hpc; cases hs
    have := key (.rel (.createFailed id)); rw [hpc] at this
    simp [Pc.isPre] at this; rw [this]; exact hL
  · rename_i hpc; cases hs
    have := key (.rel .syncFailed); rw [hpc] at this
    simp [Pc.isPre] at this; rw [this]; exact hL
  · cases hs

theorem LockInv.fire {s s' : State} {l : Label} (h : Inv s) (hL : LockInv s) (hf : fire false l s = some s') :
    LockInv s' := by
  unfold ConcCreate.fire at hf
  split at hf
  · cases hf
  rename_i c hc
  split at hf
  · cases hf
  rename_i pc t hstep
  cases hf
  cases l with
  | step i => exact hL.cstep h hc hstep
  | fail i => exact hL.cfail hc hstep

theorem lockInv_initAt (n : Nat) (kinds : List Kind) : LockInv (initAt n kinds) := by
  show readersOf _ = 0
  unfold readersOf
  rw [List.countP_eq_zero]
  intro c hc
  simp only [initAt, List.mem_map] at hc
  obtain ⟨k, _, rfl⟩ := hc
  simp [Pc.isPre]

theorem lockInv_reach {n : Nat} {kinds : List Kind} {s : State} (hr : Reach false (initAt n kinds) s) :
    Inv s ∧ LockInv s := by
  induction hr with
  | refl => exact ⟨inv_initAt n kinds, lockInv_initAt n kinds⟩
  | step _ hs ih => obtain ⟨l, hl⟩ := hs; exact ⟨ih.1.fire hl, ih.2.fire ih.1 hl⟩

theorem fire_step_of_cstep {sd : Bool} {s t : State} {i : Nat} {c : Client} {pc' : Pc}
    (hc : s.clients[i]? = some c) (hs : cstep sd s i c = some (pc', t)) :
    fire sd (.step i) s = some { t with clients := s.clients.set i { c with pc := pc' } } := by
  unfold ConcCreate.fire; simp only [Label.client, hc, hs]

theorem cstep_enabled_of_holdsX {sd : Bool} {s : State} {i : Nat} {c : Client} (hx : c.pc.holdsX = true) :
    ∃ r, cstep sd s i c = some r := by
  unfold ConcCreate.cstep
  cases hpc : c.pc with
  | start => rw [hpc] at hx; cases hx
  | pre => rw [hpc] at hx; cases hx
  | preDone b => rw [hpc] at hx; cases hx
  | done r => rw [hpc] at hx; cases hx
  | locked => dsimp only; split <;> exact ⟨_, rfl⟩
  | creating id => exact ⟨_, rfl⟩
  | created id => exact ⟨_, rfl⟩
  | closing => dsimp only; split <;> exact ⟨_, rfl⟩
  | rel r => exact ⟨_, rfl⟩

/-- no deadlock: as long as somebody has not returned, some client can do its next step (no I/O failure needed) -/
theorem no_deadlock_of_inv {s : State} (h : Inv s) (hL : LockInv s) (hnq : ¬ quiescent s) :
    ∃ i s', fire false (.step i) s = some s' := by
  unfold LockInv at hL
  cases hl : s.lock with
  | excl j =>
    obtain ⟨c, hc, hx⟩ := h.holder j hl
    obtain ⟨⟨pc', t⟩, hr⟩ := cstep_enabled_of_holdsX (sd := false) (s := s) (i := j) hx
    exact ⟨j, _, fire_step_of_cstep hc hr⟩
  | shared n =>
    rw [hl] at hL
    obtain ⟨hrd, hpos⟩ := hL
    have : 0 < readersOf s.clients := by omega
    obtain ⟨c, hm, hp⟩ := List.countP_pos_iff.1 this
    obtain ⟨i, hc⟩ := List.mem_iff_getElem?.1 hm
    have hpc : c.pc = .pre := by
      cases hpc : c.pc <;> rw [hpc] at hp <;> first | rfl | cases hp
    obtain ⟨m, rfl⟩ : ∃ m, n = m + 1 := ⟨n - 1, by omega⟩
    have : ∃ r, cstep false s i c = some r := by
      unfold ConcCreate.cstep; rw [hpc]; simp only [hl]; exact ⟨_, rfl⟩
    obtain ⟨⟨pc', t⟩, hr⟩ := this
    exact ⟨i, _, fire_step_of_cstep hc hr⟩
  | free =>
    rw [hl] at hL
    have hex : ∃ c ∈ s.clients, c.pc.isDone ≠ true := by
      apply Classical.byContradiction
      intro hno
      apply hnq
      intro c hc
      apply Classical.byContradiction
      intro hd
      exact hno ⟨c, hc, hd⟩
    obtain ⟨c, hm, hd⟩ := hex
    obtain ⟨i, hc⟩ := List.mem_iff_getElem?.1 hm
    cases hpc : c.pc with
    | start =>
      have : ∃ r, cstep false s i c = some r := by
        unfold ConcCreate.cstep; rw [hpc]; simp only [hl]; exact ⟨_, rfl⟩
      obtain ⟨⟨pc', t⟩, hr⟩ := this
      exact ⟨i, _, fire_step_of_cstep hc hr⟩
    | pre =>
      have := List.countP_eq_zero.1 hL c hm
      rw [hpc] at this; exact absurd rfl this
    | preDone b =>
      have : ∃ r, cstep false s i c = some r := by
        unfold ConcCreate.cstep; rw [hpc]; dsimp only
        split
        · exact ⟨_, rfl⟩
        · exact ⟨_, rfl⟩
        · simp only [hl]; exact ⟨_, rfl⟩
      obtain ⟨⟨pc', t⟩, hr⟩ := this
      exact ⟨i, _, fire_step_of_cstep hc hr⟩
    | done r => rw [hpc] at hd; exact absurd rfl hd
    | locked => have := h.mutex i c hc (by rw [hpc]; rfl); rw [hl] at this; cases this
    | creating id => have := h.mutex i c hc (by rw [hpc]; rfl); rw [hl] at this; cases this
    | created id => have := h.mutex i c hc (by rw [hpc]; rfl); rw [hl] at this; cases this
    | closing => have := h.mutex i c hc (by rw [hpc]; rfl); rw [hl] at this; cases this
    | rel r => have := h.mutex i c hc (by rw [hpc]; rfl); rw [hl] at this; cases this

/-- at quiescence the lock is free -/
theorem lock_free_of_quiescent {s : State} (h : Inv s) (hL : LockInv s) (hq : quiescent s) : s.lock = .free := by
  unfold LockInv at hL
  cases hl : s.lock with
  | free => rfl
  | excl j =>
    obtain ⟨c, hc, hx⟩ := h.holder j hl
    have := hq c (List.mem_of_getElem? hc)
    cases hpc : c.pc <;> rw [hpc] at hx this <;> simp [Pc.isDone, Pc.holdsX] at hx this
  | shared n =>
    rw [hl] at hL
    obtain ⟨hrd, hpos⟩ := hL
    have : 0 < readersOf s.clients := by omega
    obtain ⟨c, hm, hp⟩ := List.countP_pos_iff.1 this
    have := hq c hm
    cases hpc : c.pc <;> rw [hpc] at hp this <;> simp [Pc.isDone, Pc.isPre] at hp this

/-! ### every run is finite -/

/-- steps left, at most -/
def Pc.weight : Pc → Nat
  | .start => 7
  | .pre => 6
  | .preDone _ => 5
  | .locked => 4
  | .creating _ => 3
  | .closing => 3
  | .created _ => 2
  | .rel _ => 1
  | .done _ => 0

def measure (s : State) : Nat := (s.clients.map (fun c => c.pc.weight)).sum

theorem sum_map_set {cl : List Client} {i : Nat} {c c' : Client} (f : Client → Nat) (hc : cl[i]? = some c) :
    ((cl.set i c').map f).sum + f c = (cl.map f).sum + f c' := by
  induction cl generalizing i with
  | nil => cases hc
  | cons x l ih =>
    cases i with
    | zero => simp only [List.getElem?_cons_zero, Option.some.injEq] at hc; subst hc; simp; omega
    | succ i =>
      simp only [List.getElem?_cons_succ] at hc
      have := ih hc
      simp only [List.set_cons_succ, List.map_cons, List.sum_cons]; omega

theorem cstep_weight {sd : Bool} {s t : State} {i : Nat} {c : Client} {pc' : Pc}
    (hs : cstep sd s i c = some (pc', t)) : pc'.weight < c.pc.weight := by
  unfold ConcCreate.cstep at hs
  split at hs
  · rename_i hpc; rw [hpc]; split at hs <;> cases hs <;> simp [Pc.weight]
  · rename_i hpc; rw [hpc]; split at hs <;> cases hs <;> simp [Pc.weight]
  · rename_i b hpc; rw [hpc]; split at hs
    · cases hs; simp [Pc.weight]
    · cases hs; simp [Pc.weight]
    · split at hs <;> cases hs <;> simp [Pc.weight]
  · rename_i hpc; rw [hpc]; split at hs
    · cases hs
      cases sd <;> simp only [ensure, ensureSeeded, Bool.false_eq_true, if_false, if_true] <;> split <;>
        simp [Pc.weight]
    · cases hs; split <;> simp [Pc.weight]
  · rename_i id hpc; rw [hpc]; cases hs; simp [Pc.weight]
  · rename_i id hpc; rw [hpc]; cases hs; simp [Pc.weight]
  · rename_i hpc; rw [hpc]; split at hs <;> cases hs <;> simp [Pc.weight]
  · rename_i r hpc; rw [hpc]; cases hs; simp [Pc.weight]
  · cases hs

theorem cfail_weight {s t : State} {c : Client} {pc' : Pc}
    (hs : cfail s c = some (pc', t)) : pc'.weight < c.pc.weight := by
  unfold ConcCreate.cfail at hs
  split at hs
  · rename_i id hpc; rw [hpc]; cases hs; simp [Pc.weight]
  · rename_i hpc; rw [hpc]; cases hs; simp [Pc.weight]
  · cases hs

/-- every step (of either variant, failing or not) uses up weight -/
theorem fire_measure {sd : Bool} {l : Label} {s s' : State} (hf : fire sd l s = some s') :
    measure s' < measure s := by
  unfold ConcCreate.fire at hf
  split at hf
  · cases hf
  rename_i c hc
  split at hf
  · cases hf
  rename_i pc t hstep
  cases hf
  have hw : pc.weight < c.pc.weight := by
    cases l with
    | step i => exact cstep_weight hstep
    | fail i => exact cfail_weight hstep
  have := sum_map_set (c' := { c with pc := pc }) (fun c => c.pc.weight) hc
  unfold measure
  dsimp only at this ⊢
  omega

theorem run_length_bound {sd : Bool} {ls : List Label} {s0 s : State} (h : runSched sd ls s0 = some s) :
    ls.length + measure s ≤ measure s0 := by
  induction ls generalizing s0 with
  | nil => cases h; simp
  | cons l ls ih =>
    simp only [runSched] at h
    split at h
    · rename_i s1 h1
      have := ih h
      have := fire_measure h1
      simp only [List.length_cons]; omega
    · cases h

theorem measure_initAt (n : Nat) (kinds : List Kind) : measure (initAt n kinds) = 7 * kinds.length := by
  unfold measure initAt
  induction kinds with
  | nil => rfl
  | cons k ks ih => simp only [List.map_cons, List.sum_cons, List.length_cons, Pc.weight] at ih ⊢; omega

/-- from every state satisfying the invariants some failure-free schedule brings everybody home -/
theorem finish_of_inv {s : State} (h : Inv s) (hL : LockInv s) :
    ∃ ls s', runSched false ls s = some s' ∧ quiescent s' ∧ (∀ l ∈ ls, l.isFail = false) := by
  suffices ∀ m (s : State), measure s ≤ m → Inv s → LockInv s →
      ∃ ls s', runSched false ls s = some s' ∧ quiescent s' ∧ (∀ l ∈ ls, l.isFail = false) from
    this _ s (Nat.le_refl _) h hL
  intro m
  induction m with
  | zero =>
    intro s hm h hL
    by_cases hq : quiescent s
    · exact ⟨[], s, rfl, hq, fun _ hl => nomatch hl⟩
    · obtain ⟨i, s1, h1⟩ := no_deadlock_of_inv h hL hq
      have := fire_measure h1; omega
  | succ m ih =>
    intro s hm h hL
    by_cases hq : quiescent s
    · exact ⟨[], s, rfl, hq, fun _ hl => nomatch hl⟩
    · obtain ⟨i, s1, h1⟩ := no_deadlock_of_inv h hL hq
      have hlt := fire_measure h1
      obtain ⟨ls, s', hrun, hq', hok⟩ := ih s1 (by omega) (h.fire h1) (hL.fire h h1)
      refine ⟨.step i :: ls, s', by simp only [runSched, h1]; exact hrun, hq', ?_⟩
      intro l hl
      rcases List.mem_cons.1 hl with rfl | hl
      · rfl
      · exact hok l hl

/-! ### where a run may start -/

/-- a state from which the theorems of `Pearl/Props/C15b.lean` hold: both invariants -/
structure Start (s : State) : Prop where
  inv : Inv s
  lock : LockInv s

theorem Start.reach {s0 s : State} (h0 : Start s0) (hr : Reach false s0 s) : Start s := by
  induction hr with
  | refl => exact h0
  | step _ hs ih => obtain ⟨l, hl⟩ := hs; exact ⟨ih.inv.fire hl, ih.lock.fire ih.inv hl⟩

theorem start_initAt (n : Nat) (kinds : List Kind) : Start (initAt n kinds) :=
  ⟨inv_initAt n kinds, lockInv_initAt n kinds⟩

theorem start_initActive (n : Nat) (kinds : List Kind) : Start (initActive n kinds) := by
  have hp : holderPc (initActive n kinds) = none := holderPc_of_not_excl Lock.free_ne_excl
  have ht : taking (initActive n kinds) = [] := by rw [taking_eq, hp]; rfl
  have hu : uninstalled (initActive n kinds) = [] := by rw [uninstalled_eq, hp]; rfl
  refine ⟨⟨?_, ?_, ?_, ?_, ?_, List.nodup_nil, ?_, ?_⟩, ?_⟩
  · intro j c hj hx
    simp only [initActive, List.getElem?_map] at hj
    cases hk : kinds[j]? with
    | none => rw [hk] at hj; cases hj
    | some k => rw [hk] at hj; cases hj; cases hx
  · intro j hj; cases hj
  · rw [hu]; simp [initActive, List.range_succ]
  · rw [ht]; simp only [initActive, List.append_nil, List.not_mem_nil, not_false_eq_true, decide_true]
    exact (List.filter_eq_self.2 (fun _ _ => rfl)).symm
  · intro b hb; cases hb
  · rw [ht]; simp [initActive]
  · rw [ht, hu]; intro hh; simp at hh
  · show readersOf _ = 0
    unfold readersOf
    rw [List.countP_eq_zero]
    intro c hc
    simp only [initActive, List.mem_map] at hc
    obtain ⟨k, _, rfl⟩ := hc
    simp [Pc.isPre]

theorem measure_initActive (n : Nat) (kinds : List Kind) : measure (initActive n kinds) = 7 * kinds.length := by
  unfold measure initActive
  induction kinds with
  | nil => rfl
  | cons k ks ih => simp only [List.map_cons, List.sum_cons, List.length_cons, Pc.weight] at ih ⊢; omega

/-! ### what the seeded variant keeps -/

/-- what survives the seeded change: the counter is above every id in use -/
def Bounded (s : State) : Prop :=
  (∀ x ∈ s.files, x < s.nextId) ∧
    ∀ c ∈ s.clients, ∀ id, (c.pc = .creating id ∨ c.pc = .created id) → id < s.nextId

theorem Bounded.fire {sd : Bool} {l : Label} {s s' : State} (h : Bounded s) (hf : fire sd l s = some s') :
    Bounded s' := by
  obtain ⟨h1, h2⟩ := h
  unfold ConcCreate.fire at hf
  split at hf
  · cases hf
  rename_i c hc
  split at hf
  · cases hf
  rename_i pc t hstep
  cases hf
  have hmem := List.mem_of_getElem? hc
  have key : ∀ (n : Nat), s.nextId ≤ n → (∀ id, (pc = .creating id ∨ pc = .created id) → id < n) →
      ∀ c' ∈ s.clients.set l.client { c with pc := pc }, ∀ id,
        (c'.pc = .creating id ∨ c'.pc = .created id) → id < n := by
    intro n hn hpc c' hc' id hid
    rcases List.mem_or_eq_of_mem_set hc' with hm | rfl
    · exact Nat.lt_of_lt_of_le (h2 c' hm id hid) hn
    · exact hpc id hid
  cases l with
  | step i =>
    replace hstep : cstep sd s i c = some (pc, t) := hstep
    unfold ConcCreate.cstep at hstep
    split at hstep
    · split at hstep <;> cases hstep <;> exact ⟨h1, key _ (Nat.le_refl _) (by simp)⟩
    · split at hstep <;> cases hstep <;> exact ⟨h1, key _ (Nat.le_refl _) (by simp)⟩
    · split at hstep
      · cases hstep; exact ⟨h1, key _ (Nat.le_refl _) (by simp)⟩
      · cases hstep; exact ⟨h1, key _ (Nat.le_refl _) (by simp)⟩
      · split at hstep <;> cases hstep <;> exact ⟨h1, key _ (Nat.le_refl _) (by simp)⟩
    · split at hstep
      · cases hstep
        refine ⟨fun x hx => Nat.lt_of_lt_of_le (h1 x hx) ?_, key _ ?_ ?_⟩
        · cases sd <;> simp [ensure, ensureSeeded] <;> split <;> simp
        · cases sd <;> simp [ensure, ensureSeeded] <;> split <;> simp
        · cases sd <;> simp [ensure, ensureSeeded] <;> split <;> simp
      · cases hstep; exact ⟨h1, key _ (Nat.le_refl _) (by split <;> simp)⟩
    · rename_i id hpc; cases hstep
      have hid := h2 c hmem id (.inl hpc)
      refine ⟨?_, key _ (Nat.le_refl _) (by simpa using hid)⟩
      intro x hx
      rcases List.mem_append.1 hx with hx | hx
      · exact h1 x hx
      · simp at hx; subst hx; exact hid
    · cases hstep; exact ⟨h1, key _ (Nat.le_refl _) (by simp)⟩
    · split at hstep <;> cases hstep <;> exact ⟨h1, key _ (Nat.le_refl _) (by simp)⟩
    · cases hstep; exact ⟨h1, key _ (Nat.le_refl _) (by simp)⟩
    · cases hstep
  | fail i =>
    replace hstep : cfail s c = some (pc, t) := hstep
    unfold ConcCreate.cfail at hstep
    split at hstep
    · cases hstep; exact ⟨h1, key _ (Nat.le_refl _) (by simp)⟩
    · cases hstep; exact ⟨h1, key _ (Nat.le_refl _) (by simp)⟩
    · cases hstep

theorem Bounded.reach {sd : Bool} {s0 s : State} (h0 : Bounded s0) (hr : Reach sd s0 s) : Bounded s := by
  induction hr with
  | refl => exact h0
  | step _ hs ih => obtain ⟨l, hl⟩ := hs; exact ih.fire hl

theorem bounded_initAt (n : Nat) (kinds : List Kind) : Bounded (initAt n kinds) := by
  refine ⟨fun x hx => List.mem_range.1 hx, ?_⟩
  intro c hc id hid
  simp only [initAt, List.mem_map] at hc
  obtain ⟨k, _, rfl⟩ := hc
  rcases hid with hid | hid <;> cases hid

theorem bounded_initActive (n : Nat) (kinds : List Kind) : Bounded (initActive n kinds) := by
  refine ⟨fun x hx => List.mem_range.1 hx, ?_⟩
  intro c hc id hid
  simp only [initActive, List.mem_map] at hc
  obtain ⟨k, _, rfl⟩ := hc
  rcases hid with hid | hid <;> cases hid

end ConcCreate
end Pearl
