import Pearl.Model.ConcRW
import Pearl.Props.C01
import Pearl.Props.C02
/-
Helper lemmas for the concurrent read/write model `Pearl.ConcRW` (`Pearl/Model/ConcRW.lean`).
Headline theorems: `Pearl/Props/C08.lean`.
-/
namespace Pearl
namespace ConcRW

/-! ## 1. stores only grow -/

theorem positionedFrom_append' (id : Nat) : ∀ (l1 l2 : List Rec) (i : Nat),
    positionedFrom id i (l1 ++ l2) = positionedFrom id i l1 ++ positionedFrom id (i + l1.length) l2
  | [], l2, i => by simp [positionedFrom]
  | x :: l1, l2, i => by
    simp only [List.cons_append, positionedFrom, positionedFrom_append' id l1 l2 (i + 1), List.length_cons]
    have : i + 1 + l1.length = i + (l1.length + 1) := by omega
    rw [this]

theorem mem_positionedFrom_of_prefix {id i : Nat} {l1 l2 : List Rec} {p : PRec} (h : l1 <+: l2)
    (hp : p ∈ positionedFrom id i l1) : p ∈ positionedFrom id i l2 := by
  obtain ⟨t, rfl⟩ := h
  rw [positionedFrom_append']
  exact List.mem_append_left _ hp

/-- `b'` continues `b`: same id, the records of `b` are a prefix of those of `b'` -/
def BLe (b b' : Blob) : Prop := b'.id = b.id ∧ b.recs <+: b'.recs

theorem BLe.refl (b : Blob) : BLe b b := ⟨rfl, List.prefix_refl _⟩

theorem BLe.trans {a b c : Blob} (h1 : BLe a b) (h2 : BLe b c) : BLe a c :=
  ⟨h2.1.trans h1.1, h1.2.trans h2.2⟩

theorem BLe.of_step {a b : Blob} (h : StepOf a b) : BLe a b := ⟨h.1, h.2.1⟩

theorem BLe.mem_pos {b b' : Blob} (h : BLe b b') {p : PRec} (hp : p ∈ positionedFrom b.id 0 b.recs) :
    p ∈ positionedFrom b'.id 0 b'.recs := by
  rw [h.1]; exact mem_positionedFrom_of_prefix h.2 hp

/-- every positioned record of `a` is a positioned record of `b` (same blob id, same position) -/
def Sub (a b : Store) : Prop :=
  ∀ p, p ∈ History.positioned a.history → p ∈ History.positioned b.history

theorem Sub.refl (a : Store) : Sub a a := fun _ h => h

theorem Sub.trans {a b c : Store} (h1 : Sub a b) (h2 : Sub b c) : Sub a c := fun p h => h2 p (h1 p h)

theorem Sub.of_blobs {a b : Store} (h : ∀ x ∈ a.blobs, ∃ y ∈ b.blobs, BLe x y) : Sub a b := by
  intro p hp
  obtain ⟨x, hx, hpx⟩ := Store.mem_history_positioned.1 hp
  obtain ⟨y, hy, hxy⟩ := h x hx
  exact Store.mem_history_positioned.2 ⟨y, hy, hxy.mem_pos hpx⟩

theorem Sub.of_cont {a b : Store} (h : Cont a.blobs b.blobs) : Sub a b :=
  Sub.of_blobs (fun x hx => let ⟨y, hy, hs⟩ := h.fwd x hx; ⟨y, hy, .of_step hs⟩)

theorem Sub.of_shape {a b : Store} (h : OpShape a b) : Sub a b := by
  cases h with
  | same hc _ => exact Sub.of_cont hc
  | new nb _ _ hc _ =>
    exact Sub.of_blobs (fun x hx =>
      let ⟨y, hy, hs⟩ := hc.fwd x (List.mem_append_left _ hx); ⟨y, hy, .of_step hs⟩)

/-- the store with the active blob replaced by an (older) version `a1` of it: what a reader that looked into
    the active blob earlier and into the closed blobs now has seen -/
def hyb (st : Store) (a1 : Blob) : Store := { st with active := some a1 }

theorem hyb_blobs (st : Store) (a1 : Blob) : (hyb st a1).blobs = st.closed ++ [a1] := by
  simp [hyb, Store.blobs, Store.closed]

theorem blobs_of_active {st : Store} {a : Blob} (h : st.active = some a) : st.blobs = st.closed ++ [a] := by
  simp [Store.blobs, h]

theorem hyb_self {st : Store} {a : Blob} (h : st.active = some a) : hyb st a = st := by
  cases st; simp_all [hyb]

/-- a step that creates no blob: closed blobs and the active blob are continued in place -/
structure InPlace (st st' : Store) : Prop where
  closed : Cont st.closed st'.closed
  active : ∃ a a', st.active = some a ∧ st'.active = some a' ∧ StepOf a a'
  nextId : st'.nextId = st.nextId
  allowDup : st'.allowDup = st.allowDup

namespace InPlace

variable {st st' : Store}

theorem blobs_cont (h : InPlace st st') : Cont st.blobs st'.blobs := by
  obtain ⟨a, a', ha, ha', hs⟩ := h.active
  rw [blobs_of_active ha, blobs_of_active ha']
  exact Cont.append h.closed (.cons hs .nil)

theorem shape (h : InPlace st st') (hwf : st.WF) : OpShape st st' :=
  .same h.blobs_cont (Store.lt_nextId_of_cont hwf h.blobs_cont (by rw [h.nextId]; exact hwf.2))

theorem wf (h : InPlace st st') (hwf : st.WF) : st'.WF := Store.WF_of_shape hwf (h.shape hwf)

theorem sub (h : InPlace st st') : Sub st st' := Sub.of_cont h.blobs_cont

theorem hyb_sub (h : InPlace st st') (a1 : Blob) : Sub (hyb st a1) (hyb st' a1) := by
  apply Sub.of_cont
  rw [hyb_blobs, hyb_blobs]
  exact Cont.append h.closed (Cont.refl _)

theorem active_some (h : InPlace st st') : ∃ a', st'.active = some a' :=
  let ⟨_, a', _, ha', _⟩ := h.active; ⟨a', ha'⟩

end InPlace

theorem inPlace_refl {st : Store} {a : Blob} (h : st.active = some a) : InPlace st st :=
  ⟨Cont.refl _, ⟨a, a, h, h, .same rfl rfl⟩, rfl, rfl⟩

/-! ### the effects of single steps -/

theorem inPlace_appendActive {st : Store} {a : Blob} (h : st.active = some a) (r : Rec) :
    InPlace st (appendActive st r) := by
  refine ⟨?_, ⟨a, a.append r, h, ?_, .app rfl rfl⟩, ?_, ?_⟩ <;> simp [appendActive, h, Store.closed]
  exact Cont.refl _

theorem inPlace_delActive {st : Store} {a : Blob} (h : st.active = some a) (k : Key) (ts : Nat) (oip : Bool) :
    InPlace st (delActive st k ts oip).1 := by
  refine ⟨?_, ⟨a, (Store.blobDelete a k ts none oip).1, h, ?_, Store.blobDelete_cont a k ts none oip⟩, ?_, ?_⟩ <;>
    simp [delActive, h, Store.closed]
  exact Cont.refl _

theorem closed_delClosed (st : Store) (k : Key) (ts : Nat) :
    (delClosed st k ts).1.closed = st.closed.map (fun b => (Store.blobDelete b k ts none true).1) := by
  simp only [delClosed, Store.closed, List.map_map]
  rw [← Store.closed_map_option]
  congr 1
  apply List.map_congr_left
  intro o _
  cases o <;> rfl

theorem inPlace_delClosed {st : Store} {a : Blob} (h : st.active = some a) (k : Key) (ts : Nat) :
    InPlace st (delClosed st k ts).1 := by
  refine ⟨?_, ⟨a, a, h, ?_, .same rfl rfl⟩, rfl, rfl⟩
  · rw [closed_delClosed]
    exact Cont.map_right (fun b => Store.blobDelete_cont b k ts none true) _
  · simp [delClosed, h]

theorem inPlace_settle {st : Store} {a : Blob} (h : st.active = some a) : InPlace st st.settle := by
  refine ⟨?_, ⟨a, a, h, ?_, .same rfl rfl⟩, rfl, rfl⟩
  · simp only [Store.settle, Store.closed, Store.closed_map_option]
    exact Cont.map_right Store.dumpFlag_cont _
  · simp [Store.settle, h]

theorem Eff.inPlace (e : Eff) {st : Store} {a : Blob} (h : st.active = some a) : InPlace st (e.store st) := by
  cases e with
  | push r => exact inPlace_appendActive h r
  | delA k ts oip => exact inPlace_delActive h k ts oip
  | delC k ts => exact inPlace_delClosed h k ts
  | _ => exact inPlace_refl h

theorem replaceActive_active (st : Store) : ∃ a, st.replaceActive.active = some a := by
  unfold Store.replaceActive
  cases st.active <;> simp [Store.createActive]

theorem replaceActive_allowDup (st : Store) : st.replaceActive.allowDup = st.allowDup := by
  unfold Store.replaceActive
  cases st.active <;> simp [Store.createActive]

/-! ## 2. what an (atomic or two-phase) look-up returns -/

theorem lookClosed_hyb (st : Store) (a1 : Blob) (k : Key) :
    lookClosed st k (ReadResult.notFound.latest (a1.getLatestEntry k none)) =
      (hyb st a1).getLatestEntry k none := by
  unfold lookClosed Store.getLatestEntry Store.getLatestEntryP
  simp only [Bool.not_false]
  rw [List.filter_eq_self.2 (fun _ _ => rfl)]
  simp [Store.visit, hyb, Store.closed]

theorem lookActive_of_active {st : Store} {a : Blob} (h : st.active = some a) (k : Key) :
    lookActive st k = ReadResult.notFound.latest (a.getLatestEntry k none) := by
  simp [lookActive, h]

/-- an atomic look-up is the two halves one after the other -/
theorem lookClosed_lookActive {st : Store} {a : Blob} (h : st.active = some a) (k : Key) :
    lookClosed st k (lookActive st k) = st.getLatestEntry k none := by
  rw [lookActive_of_active h, lookClosed_hyb, hyb_self h]

/-- `q` is a record of key `k` in the store that the answer `res` classifies -/
def Wit (st : Store) (k : Key) (res : ReadResult Rec) (q : PRec) : Prop :=
  q ∈ History.positioned st.history ∧ q.r.key = k ∧
    match res with
    | .found r => q.r = r ∧ r.del = false
    | .deleted t => q.r.del = true ∧ q.r.ts = t
    | .notFound => False

theorem Wit.mono {st st' : Store} (h : Sub st st') {k : Key} {res : ReadResult Rec} {q : PRec}
    (hw : Wit st k res q) : Wit st' k res q := ⟨h q hw.1, hw.2⟩

/-- the answer `res` for key `k` is backed by a record of the store `st`, and that record is ranked at least as
    high as every record of key `k` that the store `born` held -/
def ResOK (born st : Store) (k : Key) (res : ReadResult Rec) : Prop :=
  (res ≠ .notFound → ∃ q, Wit st k res q) ∧
    ∀ p ∈ History.positioned born.history, p.r.key = k → ∃ q, Wit st k res q ∧ rankLe q p = true

theorem ResOK.mono {born born' st st' : Store} (hb : Sub born' born) (hs : Sub st st') {k : Key}
    {res : ReadResult Rec} (h : ResOK born st k res) : ResOK born' st' k res :=
  ⟨fun hne => let ⟨q, hq⟩ := h.1 hne; ⟨q, hq.mono hs⟩,
   fun p hp hk => let ⟨q, hq, hr⟩ := h.2 p (hb p hp) hk; ⟨q, hq.mono hs, hr⟩⟩

/-- an atomic look-up on a well-formed store answers with the first-ranked record of the key -/
theorem getLatestEntry_resOK {st : Store} (hwf : st.WF) (k : Key) :
    ResOK st st k (st.getLatestEntry k none) := by
  have hrd : st.getLatestEntry k none = (Spec.latest st.history k).map (·.r) := read_eq_spec hwf k
  have hsorted := Spec.all_sorted st.history k hwf.history_nodup
  have hmem : ∀ p, p ∈ Spec.all st.history k ↔ p ∈ History.positioned st.history ∧ p.r.key = k := by
    intro p
    rw [Spec.all_eq_sortedBy, mem_sortedBy]
    simp
  rw [hrd, Spec.latest_eq]
  cases hh : (Spec.all st.history k).head? with
  | none =>
    rw [List.head?_eq_none_iff] at hh
    refine ⟨fun hne => absurd rfl hne, fun p hp hk => ?_⟩
    have := (hmem p).2 ⟨hp, hk⟩
    rw [hh] at this
    simp at this
  | some q =>
    obtain ⟨hq, hmax⟩ := RankSorted.of_head? hsorted hh
    obtain ⟨hq1, hq2⟩ := (hmem q).1 hq
    have hw : Wit st k ((classify (some q)).map (·.r)) q := by
      refine ⟨hq1, hq2, ?_⟩
      simp only [classify]
      cases hd : q.r.del <;> simp [ReadResult.map, hd]
    refine ⟨fun _ => ⟨q, hw⟩, fun p hp hk => ⟨q, hw, ?_⟩⟩
    rcases hmax p ((hmem p).2 ⟨hp, hk⟩) with rfl | h
    · rw [rankLe_iff]; exact rankBefore_irrefl _
    · rw [rankLe_iff]; exact rankBefore_asymm h

theorem hyb_wf {st : Store} {act a1 : Blob} (hwf : st.WF) (ha : st.active = some act) (hid : a1.id = act.id) :
    (hyb st a1).WF := by
  have h1 : (hyb st a1).blobs.map (·.id) = st.blobs.map (·.id) := by
    rw [hyb_blobs, blobs_of_active ha]; simp [hid]
  refine ⟨by rw [h1]; exact hwf.1, ?_⟩
  intro b hb
  have : b.id ∈ st.blobs.map (·.id) := by rw [← h1]; exact List.mem_map_of_mem hb
  obtain ⟨x, hx, hxe⟩ := List.mem_map.1 this
  have := hwf.2 x hx
  show b.id < st.nextId
  omega

theorem hyb_sub_self {st : Store} {act a1 : Blob} (ha : st.active = some act) (hle : BLe a1 act) :
    Sub (hyb st a1) st := by
  apply Sub.of_blobs
  rw [hyb_blobs, blobs_of_active ha]
  intro x hx
  rcases List.mem_append.1 hx with hx | hx
  · exact ⟨x, List.mem_append_left _ hx, BLe.refl x⟩
  · simp only [List.mem_singleton] at hx
    subst hx
    exact ⟨act, by simp, hle⟩

/-- the answer of the two-phase look-up: active blob as it was (`a1`), closed blobs as they are -/
theorem lookClosed_resOK {st born : Store} {act a1 : Blob} (hwf : st.WF) (ha : st.active = some act)
    (hle : BLe a1 act) (hb : Sub born (hyb st a1)) (k : Key) :
    ResOK born st k (lookClosed st k (ReadResult.notFound.latest (a1.getLatestEntry k none))) := by
  rw [lookClosed_hyb]
  exact (getLatestEntry_resOK (hyb_wf hwf ha hle.1.symm) k).mono hb (hyb_sub_self ha hle)

/-! ## 3. the state invariant -/

/-- `r` is a record of some blob of the store -/
def InStore (st : Store) (r : Rec) : Prop := ∃ b ∈ st.blobs, r ∈ b.recs

theorem inStore_of_positioned {st : Store} {p : PRec} (h : p ∈ History.positioned st.history) :
    InStore st p.r :=
  let ⟨b, hb, hp⟩ := Store.mem_history_positioned.1 h
  ⟨b, hb, mem_positionedFrom_r hp⟩

theorem mem_allRecs {st : Store} {r : Rec} : r ∈ allRecs st ↔ InStore st r := by
  simp [allRecs, InStore]

/-- the data bytes of every live record an index points to are in the file -/
def Landed (st : Store) (landed : List Rec) : Prop := ∀ r, InStore st r → r.del = false → r ∈ landed

/-- where the records of the store after a client step come from -/
theorem eff_recs (e : Eff) {st : Store} {a : Blob} (h : st.active = some a) {r : Rec}
    (hr : InStore (e.store st) r) : InStore st r ∨ e = .push r ∨ r.del = true := by
  obtain ⟨b', hb', hrb⟩ := hr
  cases e with
  | push r0 =>
    simp only [Eff.store, appendActive, h, Store.blobs, Option.toList, List.mem_append, List.mem_singleton,
      Store.closed] at hb'
    rcases hb' with hb' | rfl
    · exact Or.inl ⟨b', by simp [Store.blobs, Store.closed, hb'], hrb⟩
    · simp only [Blob.append, List.mem_append, List.mem_singleton] at hrb
      rcases hrb with hrb | rfl
      · exact Or.inl ⟨a, by simp [Store.blobs, h], hrb⟩
      · exact Or.inr (Or.inl rfl)
  | delA k ts oip =>
    simp only [Eff.store, delActive, h, Store.blobs, Option.toList, List.mem_append, List.mem_singleton,
      Store.closed] at hb'
    rcases hb' with hb' | rfl
    · exact Or.inl ⟨b', by simp [Store.blobs, Store.closed, hb'], hrb⟩
    · rw [Store.blobDelete_fst] at hrb
      split at hrb
      · simp only [Store.mark, List.mem_append, List.mem_singleton] at hrb
        rcases hrb with hrb | rfl
        · exact Or.inl ⟨a, by simp [Store.blobs, h], hrb⟩
        · exact Or.inr (Or.inr rfl)
      · exact Or.inl ⟨a, by simp [Store.blobs, h], hrb⟩
  | delC k ts =>
    have hact : (delClosed st k ts).1.active = some a := by simp [delClosed, h]
    simp only [Eff.store] at hb'
    rw [blobs_of_active hact, closed_delClosed, List.mem_append, List.mem_map, List.mem_singleton] at hb'
    rcases hb' with ⟨b, hb, rfl⟩ | rfl
    · rw [Store.blobDelete_fst] at hrb
      split at hrb
      · simp only [Store.mark, List.mem_append, List.mem_singleton] at hrb
        rcases hrb with hrb | rfl
        · exact Or.inl ⟨b, by simp [blobs_of_active h, hb], hrb⟩
        · exact Or.inr (Or.inr rfl)
      · exact Or.inl ⟨b, by simp [blobs_of_active h, hb], hrb⟩
    · exact Or.inl ⟨b', by simp [blobs_of_active h], hrb⟩
  | skip => exact Or.inl ⟨b', hb', hrb⟩
  | land _ => exact Or.inl ⟨b', hb', hrb⟩
  | lockB => exact Or.inl ⟨b', hb', hrb⟩
  | unlockB => exact Or.inl ⟨b', hb', hrb⟩

theorem settle_recs {st : Store} {r : Rec} (hr : InStore st.settle r) : InStore st r := by
  obtain ⟨b', hb', hrb⟩ := hr
  simp only [Store.settle, Store.blobs, Store.closed, Store.closed_map_option, List.mem_append, List.mem_map] at hb'
  rcases hb' with ⟨b, hb, rfl⟩ | hb'
  · refine ⟨b, by simp [Store.blobs, Store.closed, hb], ?_⟩
    split at hrb <;> exact hrb
  · exact ⟨b', by simp [Store.blobs, hb'], hrb⟩

theorem blobs_replaceActive (st : Store) :
    st.replaceActive.blobs = st.blobs ++ [{ id := st.nextId, recs := [] }] := by
  unfold Store.replaceActive
  cases ha : st.active with
  | none => simp [Store.createActive, Store.blobs, Store.closed, ha]
  | some a => simp [Store.createActive, Store.blobs, Store.closed, ha, List.filterMap_append]

theorem replaceActive_recs {st : Store} {r : Rec} (hr : InStore st.replaceActive r) : InStore st r := by
  obtain ⟨b', hb', hrb⟩ := hr
  rw [blobs_replaceActive, List.mem_append, List.mem_singleton] at hb'
  rcases hb' with hb' | rfl
  · exact ⟨b', hb', hrb⟩
  · simp at hrb

/-- the record a write stored, at its place -/
def PlaceOK (st : Store) (op : COp) (p : PRec) : Prop :=
  p ∈ History.positioned st.history ∧ ∃ k ts d, op = .write k ts d ∧ p.r = wrec k ts d

/-- what is known about a response that has been decided -/
def RespOK (born st : Store) (landed : List Rec) (op : COp) : Resp → Prop
  | .value res => (∃ k, op = .read k) ∧ ResOK born st op.key res ∧ ∀ x, res = .found x → x ∈ landed
  | .torn => False
  | .has x => (∃ k, op = .contains k) ∧ ∃ res, x = res.map (·.ts) ∧ ResOK born st op.key res
  | .wrote (some p) => PlaceOK st op p
  | .wrote none => (∃ k ts d, op = .write k ts d) ∧ ∃ q x, Wit st op.key (.found x) q
  | .deleted _ => ∃ k ts oip, op = .delete k ts oip

theorem RespOK.mono {born st st' : Store} {landed landed' : List Rec} {op : COp} {r : Resp}
    (hs : Sub st st') (hl : ∀ x ∈ landed, x ∈ landed') (h : RespOK born st landed op r) :
    RespOK born st' landed' op r := by
  cases r with
  | value res => exact ⟨h.1, h.2.1.mono (Sub.refl _) hs, fun x hx => hl x (h.2.2 x hx)⟩
  | torn => exact h
  | has x => obtain ⟨h0, res, h1, h2⟩ := h; exact ⟨h0, res, h1, h2.mono (Sub.refl _) hs⟩
  | wrote p =>
    cases p with
    | none => obtain ⟨h0, q, x, hq⟩ := h; exact ⟨h0, q, x, hq.mono hs⟩
    | some p => exact ⟨hs p h.1, h.2⟩
  | deleted n => exact h

/-- what is known about a client at its program counter -/
def CInv (st : Store) (landed : List Rec) (c : Client) : Prop :=
  match c.pc with
  | .lookC acc snap =>
    ∃ a1 act, snap.active = some a1 ∧ st.active = some act ∧ BLe a1 act ∧ acc = lookActive snap c.op.key ∧
      Sub c.born (hyb st a1)
  | .load res => (∃ k, c.op = .read k) ∧ ResOK c.born st c.op.key res
  | .chk res => (∃ k ts d, c.op = .write k ts d) ∧ ResOK c.born st c.op.key res
  | .wWritten => ∀ k ts d, c.op = .write k ts d → wrec k ts d ∈ landed
  | .wPushed p => PlaceOK st c.op p
  | .rel r => RespOK c.born st landed c.op r
  | .ret r => RespOK c.born st landed c.op r
  | .done r => RespOK c.born st landed c.op r
  | _ => True

/-- `CInv` survives every step of somebody else that creates no blob -/
theorem CInv.stable {st st' : Store} {landed landed' : List Rec} {c : Client} (hp : InPlace st st')
    (hl : ∀ x ∈ landed, x ∈ landed') (h : CInv st landed c) : CInv st' landed' c := by
  obtain ⟨op, pc, born⟩ := c
  cases pc with
  | lookC acc snap =>
    obtain ⟨a1, act, h1, h2, h3, h4, h5⟩ := h
    obtain ⟨a, a', ha, ha', hs⟩ := hp.active
    rw [h2] at ha
    cases ha
    exact ⟨a1, a', h1, ha', h3.trans (.of_step hs), h4, h5.trans (hp.hyb_sub a1)⟩
  | load res => exact ⟨h.1, ResOK.mono (Sub.refl _) hp.sub h.2⟩
  | chk res => exact ⟨h.1, ResOK.mono (Sub.refl _) hp.sub h.2⟩
  | wWritten => exact fun k ts d ho => hl _ (h k ts d ho)
  | wPushed p => exact ⟨hp.sub p h.1, h.2⟩
  | rel r => exact RespOK.mono hp.sub hl h
  | ret r => exact RespOK.mono hp.sub hl h
  | done r => exact RespOK.mono hp.sub hl h
  | _ => trivial

/-- … and a rotation, which happens only while the client holds no lock -/
theorem CInv.stable_rot {st : Store} {landed : List Rec} {c : Client} (hn : c.pc.holdsS = false)
    (h : CInv st landed c) : CInv st.replaceActive landed c := by
  have hs : Sub st st.replaceActive := Sub.of_shape (Store.replaceActive_shape st)
  obtain ⟨op, pc, born⟩ := c
  cases pc with
  | ret r => exact RespOK.mono hs (fun _ hx => hx) h
  | done r => exact RespOK.mono hs (fun _ hx => hx) h
  | idle => trivial
  | start => trivial
  | wStart => trivial
  | _ => simp [Pc.holdsS] at hn

/-- global part of the invariant -/
structure GInv (s : CState) : Prop where
  wf : s.store.WF
  active : ∃ a, s.store.active = some a
  landed : Landed s.store s.landed

/-- the invariant -/
structure Inv (s : CState) : Prop extends GInv s where
  born : ∀ c ∈ s.clients, Sub c.born s.store
  client : ∀ c ∈ s.clients, CInv s.store s.landed c

theorem Eff.landed_mono (e : Eff) (landed : List Rec) : ∀ x ∈ landed, x ∈ e.landed landed := by
  intro x hx
  cases e <;> simp [Eff.landed, hx]

theorem bornAfter_sub {st : Store} {c : Client} (h : Sub c.born st) : Sub (bornAfter st c) st := by
  unfold bornAfter
  split
  · exact Sub.refl _
  · exact h

theorem mem_positioned_appendActive {st : Store} {a : Blob} (h : st.active = some a) (r : Rec) :
    ({ r := r, blob := a.id, seq := a.recs.length } : PRec) ∈ History.positioned (appendActive st r).history := by
  apply Store.mem_history_positioned.2
  refine ⟨a.append r, by simp [appendActive, h, Store.blobs], ?_⟩
  simp [Blob.append, positionedFrom_append]

/-- the step of a client re-establishes its own invariant -/
theorem cstep_own {st : Store} {landed : List Rec} {bl : Option Nat} {i : Nat} {c : Client} {o : Out} {a : Blob}
    (hwf : st.WF) (ha : st.active = some a) (hld : Landed st landed) (hb : Sub c.born st)
    (hc : CInv st landed c) (h : cstep st landed bl i c = some o) :
    CInv (o.eff.store st) (o.eff.landed landed) { op := c.op, pc := o.pc, born := bornAfter st c } ∧
      ∀ r, o.eff = .push r → r ∈ landed := by
  obtain ⟨op, pc, born⟩ := c
  cases pc with
  | idle =>
    simp only [cstep, Option.some.injEq] at h
    subst h
    exact ⟨trivial, by simp⟩
  | start =>
    cases op <;> simp only [cstep, Option.some.injEq] at h <;> subst h <;> refine ⟨?_, by simp⟩
    · dsimp only; split <;> trivial
    all_goals trivial
  | lookA =>
    simp only [cstep, Option.some.injEq] at h
    subst h
    refine ⟨?_, by simp⟩
    refine ⟨a, a, ha, ha, BLe.refl a, rfl, ?_⟩
    simp only [Eff.store, hyb_self ha, bornAfter]
    exact hb
  | lookC acc snap =>
    obtain ⟨a1, act, h1, h2, h3, h4, h5⟩ := hc
    have hres : ResOK born st op.key (lookClosed st op.key acc) := by
      rw [h4, lookActive_of_active h1]
      exact lookClosed_resOK hwf h2 h3 h5 _
    cases op <;> simp only [cstep, Option.some.injEq] at h
    · subst h; exact ⟨⟨⟨_, _, _, rfl⟩, hres⟩, by simp⟩
    · subst h; exact ⟨⟨⟨_, rfl⟩, hres⟩, by simp⟩
    · subst h; exact ⟨⟨⟨_, rfl⟩, _, rfl, hres⟩, by simp⟩
    · exact absurd h (by simp)
  | load res =>
    obtain ⟨hop, hc⟩ : (∃ k, op = .read k) ∧ ResOK born st op.key res := hc
    cases res with
    | found r =>
      simp only [cstep, Option.some.injEq] at h
      subst h
      refine ⟨?_, by simp⟩
      obtain ⟨q, hq1, _, hq3, hq4⟩ := hc.1 (by simp)
      have hin : r ∈ landed := by
        have := inStore_of_positioned hq1
        rw [hq3] at this
        exact hld r this hq4
      simp only [hin, if_true]
      exact ⟨hop, hc, fun x hx => by cases hx; exact hin⟩
    | deleted t =>
      simp only [cstep, Option.some.injEq] at h
      subst h
      exact ⟨⟨hop, hc, fun x hx => by cases hx⟩, by simp⟩
    | notFound =>
      simp only [cstep, Option.some.injEq] at h
      subst h
      exact ⟨⟨hop, hc, fun x hx => by cases hx⟩, by simp⟩
  | chk res =>
    obtain ⟨hop, hc⟩ : (∃ k ts d, op = .write k ts d) ∧ ResOK born st op.key res := hc
    simp only [cstep, Option.some.injEq] at h
    subst h
    refine ⟨?_, by simp⟩
    dsimp only
    split
    · rename_i hf
      cases res with
      | found x => obtain ⟨q, hq⟩ := hc.1 (by simp); exact ⟨hop, q, x, hq⟩
      | deleted t => simp [ReadResult.isFound] at hf
      | notFound => simp [ReadResult.isFound] at hf
    · trivial
  | wStart =>
    simp only [cstep, Option.some.injEq] at h
    subst h
    exact ⟨trivial, by simp⟩
  | wLocked =>
    simp only [cstep] at h
    split at h
    · simp only [Option.some.injEq] at h; subst h; exact ⟨trivial, by simp⟩
    · exact absurd h (by simp)
  | wBlob =>
    simp only [cstep, Option.some.injEq] at h
    subst h
    exact ⟨trivial, by simp⟩
  | wReserved =>
    cases op <;> simp only [cstep, Option.some.injEq] at h
    · subst h
      refine ⟨?_, by simp⟩
      intro k ts d ho
      cases ho
      simp [Eff.landed]
    all_goals exact absurd h (by simp)
  | wWritten =>
    cases op with
    | write k ts d =>
      simp only [cstep, ha, Option.some.injEq] at h
      subst h
      refine ⟨⟨mem_positioned_appendActive ha _, k, ts, d, rfl, rfl⟩, ?_⟩
      intro r hr
      cases hr
      exact hc k ts d rfl
    | _ => simp [cstep] at h
  | wPushed p =>
    simp only [cstep, Option.some.injEq] at h
    subst h
    exact ⟨hc, by simp⟩
  | dActive =>
    cases op with
    | delete k ts oip =>
      simp only [cstep] at h
      split at h
      · simp only [Option.some.injEq] at h; subst h; exact ⟨trivial, by simp⟩
      · exact absurd h (by simp)
    | _ => simp [cstep] at h
  | dClosed n =>
    cases op with
    | delete k ts oip =>
      simp only [cstep, Option.some.injEq] at h
      subst h
      exact ⟨⟨_, _, _, rfl⟩, by simp⟩
    | _ => simp [cstep] at h
  | rel r =>
    simp only [cstep, Option.some.injEq] at h
    subst h
    exact ⟨hc, by simp⟩
  | ret r =>
    simp only [cstep, Option.some.injEq] at h
    subst h
    exact ⟨hc, by simp⟩
  | done r => simp [cstep] at h

theorem inv_init {st : Store} (hwf : st.WF) {a : Blob} (ha : st.active = some a) (ops : List COp) :
    Inv (init st ops) where
  wf := hwf
  active := ⟨a, ha⟩
  landed := fun r hr _ => mem_allRecs.2 hr
  born := by
    intro c hc
    simp only [init, List.mem_map] at hc
    obtain ⟨op, _, rfl⟩ := hc
    exact Sub.refl _
  client := by
    intro c hc
    simp only [init, List.mem_map] at hc
    obtain ⟨op, _, rfl⟩ := hc
    trivial

theorem inv_fire {s s' : CState} {l : Label} (hi : Inv s) (h : fire l s = some s') : Inv s' := by
  obtain ⟨a, ha⟩ := hi.active
  cases l with
  | step i =>
    simp only [fire] at h
    cases hci : s.clients[i]? with
    | none => simp [hci] at h
    | some c =>
      cases hco : cstep s.store s.landed s.blobLock i c with
      | none => simp [hci, hco] at h
      | some o =>
        simp only [hci, hco, Option.some.injEq] at h
        subst h
        have hcm : c ∈ s.clients := List.mem_of_getElem? hci
        have hip : InPlace s.store (o.eff.store s.store) := o.eff.inPlace ha
        obtain ⟨hown, hpush⟩ := cstep_own hi.wf ha hi.landed (hi.born c hcm) (hi.client c hcm) hco
        have hlm := o.eff.landed_mono s.landed
        refine ⟨⟨hip.wf hi.wf, hip.active_some, ?_⟩, ?_, ?_⟩
        · intro r hr hd
          rcases eff_recs o.eff ha hr with h1 | h1 | h1
          · exact hlm r (hi.landed r h1 hd)
          · exact hlm r (hpush r h1)
          · rw [h1] at hd; cases hd
        · intro c' hc'
          rcases List.mem_or_eq_of_mem_set hc' with hc' | rfl
          · exact (hi.born c' hc').trans hip.sub
          · exact (bornAfter_sub (hi.born c hcm)).trans hip.sub
        · intro c' hc'
          rcases List.mem_or_eq_of_mem_set hc' with hc' | rfl
          · exact (hi.client c' hc').stable hip hlm
          · exact hown
  | rotate =>
    simp only [fire] at h
    split at h
    · rename_i hall
      simp only [Option.some.injEq] at h
      subst h
      rw [List.all_eq_true] at hall
      have hs : Sub s.store s.store.replaceActive := Sub.of_shape (Store.replaceActive_shape _)
      refine ⟨⟨Store.WF_of_shape hi.wf (Store.replaceActive_shape _), replaceActive_active _, ?_⟩, ?_, ?_⟩
      · intro r hr hd
        exact hi.landed r (replaceActive_recs hr) hd
      · intro c hc
        exact (hi.born c hc).trans hs
      · intro c hc
        exact (hi.client c hc).stable_rot (by simpa using hall c hc)
    · exact absurd h (by simp)
  | dump =>
    simp only [fire, Option.some.injEq] at h
    subst h
    have hip : InPlace s.store s.store.settle := inPlace_settle ha
    refine ⟨⟨hip.wf hi.wf, hip.active_some, ?_⟩, ?_, ?_⟩
    · intro r hr hd
      exact hi.landed r (settle_recs hr) hd
    · intro c hc
      exact (hi.born c hc).trans hip.sub
    · intro c hc
      exact (hi.client c hc).stable hip (fun _ hx => hx)

theorem inv_reach {s0 s : CState} (h0 : Inv s0) (h : Reach s0 s) : Inv s := by
  induction h with
  | refl => exact h0
  | step _ hs ih => obtain ⟨l, hl⟩ := hs; exact inv_fire ih hl

/-! ## 4. the trace -/

/-- what a client step emits, and from where -/
theorem cstep_facts {st : Store} {landed : List Rec} {bl : Option Nat} {i : Nat} {c : Client} {o : Out}
    (h : cstep st landed bl i c = some o) :
    o.pc ≠ .idle ∧ (∀ r, c.pc ≠ .done r) ∧
    (∀ e ∈ o.evs, (e = .inv i c.op ∧ c.pc = .idle) ∨ (e = .look i ∧ c.pc = .lookA) ∨
        ∃ r, e = .res i r ∧ o.pc = .done r ∧ c.pc = .ret r) ∧
    (∀ r, o.eff = .push r → ∃ k ts d, c.op = .write k ts d ∧ r = wrec k ts d ∧ c.pc = .wWritten) ∧
    (c.pc = .idle → o.evs = [.inv i c.op] ∧ o.eff = .skip) ∧
    (∀ r, o.pc = .done r → o.evs = [.res i r] ∧ c.pc = .ret r) := by
  obtain ⟨op, pc, born⟩ := c
  cases pc <;> cases op <;> simp only [cstep] at h <;> (try split at h) <;>
    first
    | (simp only [Option.some.injEq] at h; subst h; simp <;> (try split) <;> simp)
    | (simp only [Option.some.injEq] at h; subst h; rename_i h1 _; cases h1; simp; exact ⟨_, _, _, ⟨rfl, rfl, rfl⟩, rfl⟩)
    | simp at h

theorem cstep_facts2 {st : Store} {landed : List Rec} {bl : Option Nat} {i : Nat} {c : Client} {o : Out}
    (h : cstep st landed bl i c = some o) :
    (∀ k ts oip, o.eff = .delA k ts oip → c.op = .delete k ts oip ∧ c.pc = .dActive) ∧
    (∀ k ts, o.eff = .delC k ts → ∃ oip n, c.op = .delete k ts oip ∧ c.pc = .dClosed n) := by
  obtain ⟨op, pc, born⟩ := c
  cases pc <;> cases op <;> simp only [cstep] at h <;> (try split at h) <;>
    first
    | (simp only [Option.some.injEq] at h; subst h; simp <;> (try split) <;> simp)
    | simp at h

theorem replay_cons (st0 : Store) (e : Ev) (t : List Ev) : replay st0 (e :: t) = Ev.apply (replay st0 t) e := rfl

theorem replay_append (st0 : Store) (l t : List Ev) : replay st0 (l ++ t) = replay (replay st0 t) l := by
  simp [replay, List.foldr_append]

theorem replay_inert (st : Store) (l : List Ev) (h : ∀ e ∈ l, e.mutates = false) : replay st l = st := by
  induction l with
  | nil => rfl
  | cons e t ih =>
    have h1 := h e (by simp)
    have h2 := ih (fun x hx => h x (by simp [hx]))
    simp only [replay, List.foldr_cons] at h2 ⊢
    rw [h2]
    cases e <;> simp [Ev.mutates] at h1 <;> rfl

theorem replay_eff (st : Store) (e : Eff) (i : Nat) : replay st (e.evs i) = e.store st := by
  cases e <;> rfl

theorem AckedBefore.inv_mem {i j : Nat} : ∀ {t : List Ev}, AckedBefore i j t → ∃ op, Ev.inv j op ∈ t
  | [], h => by cases h
  | e :: t, h => by
    rcases h with ⟨⟨op, rfl⟩, _⟩ | h
    · exact ⟨op, by simp⟩
    · obtain ⟨op, hop⟩ := AckedBefore.inv_mem h
      exact ⟨op, by simp [hop]⟩

theorem AckedBefore.res_mem {i j : Nat} : ∀ {t : List Ev}, AckedBefore i j t → ∃ r, Ev.res i r ∈ t
  | [], h => by cases h
  | e :: t, h => by
    rcases h with ⟨_, r, hr⟩ | h
    · exact ⟨r, by simp [hr]⟩
    · obtain ⟨r, hr⟩ := AckedBefore.res_mem h
      exact ⟨r, by simp [hr]⟩

theorem ackedBefore_append {i j : Nat} (l t : List Ev) (h : ∀ e ∈ l, ∀ op, e ≠ .inv j op) :
    AckedBefore i j (l ++ t) ↔ AckedBefore i j t := by
  induction l with
  | nil => rfl
  | cons e l ih =>
    have ih := ih (fun x hx => h x (by simp [hx]))
    simp only [List.cons_append, AckedBefore]
    constructor
    · rintro (⟨⟨op, rfl⟩, _⟩ | h')
      · exact absurd rfl (h _ (by simp) op)
      · exact ih.1 h'
    · intro h'; exact Or.inr (ih.2 h')

theorem set_self_of_getElem? {α} {l : List α} {i : Nat} {x : α} (h : l[i]? = some x) : l.set i x = l := by
  have hlt : i < l.length := by
    rcases Nat.lt_or_ge i l.length with h1 | h1
    · exact h1
    · rw [List.getElem?_eq_none h1] at h; cases h
  apply List.ext_getElem?
  intro j
  rw [List.getElem?_set]
  by_cases hij : i = j
  · subst hij; rw [if_pos rfl, if_pos hlt, h]
  · simp [hij]

theorem bornAfter_idle {st : Store} {c : Client} (h : c.pc = .idle) : bornAfter st c = st := by
  simp [bornAfter, h]

theorem bornAfter_not_idle {st : Store} {c : Client} (h : c.pc ≠ .idle) : bornAfter st c = c.born := by
  unfold bornAfter
  split
  · rename_i h'; exact absurd h' h
  · rfl

/-- the trace part of the invariant, relative to the initial store `st0` and the operations `ops` -/
structure TInv (st0 : Store) (ops : List COp) (s : CState) : Prop where
  replay : s.store = replay st0 s.trace
  opsEq : s.clients.map (·.op) = ops
  inv : ∀ j op, Ev.inv j op ∈ s.trace → ∃ c, s.clients[j]? = some c ∧ c.op = op ∧ c.pc ≠ .idle
  res : ∀ j r, Ev.res j r ∈ s.trace → ∃ c, s.clients[j]? = some c ∧ c.pc = .done r
  push : ∀ j r, Ev.push j r ∈ s.trace → ∃ k ts d, ops[j]? = some (COp.write k ts d) ∧ r = wrec k ts d
  prov : ∀ r, InStore s.store r → r.del = false → InStore st0 r ∨ ∃ j, Ev.push j r ∈ s.trace
  del : ∀ j k ts, ((∃ oip, Ev.delA j k ts oip ∈ s.trace) ∨ Ev.delC j k ts ∈ s.trace) →
    ∃ oip, ops[j]? = some (COp.delete k ts oip)
  acked : ∀ i j ci cj p, AckedBefore i j s.trace → s.clients[i]? = some ci → s.clients[j]? = some cj →
    ci.pc = .done (.wrote (some p)) → p ∈ History.positioned cj.born.history

theorem tinv_init (st : Store) (ops : List COp) : TInv st ops (init st ops) where
  replay := rfl
  opsEq := by simp [init, List.map_map, Function.comp_def]
  inv := by intro j op h; simp [init] at h
  res := by intro j r h; simp [init] at h
  push := by intro j r h; simp [init] at h
  prov := fun r hr _ => Or.inl hr
  del := by intro j k ts h; simp [init] at h
  acked := by intro i j ci cj p h; simp [init, AckedBefore] at h

theorem ops_getElem? {st0 : Store} {ops : List COp} {s : CState} (ht : TInv st0 ops s) {i : Nat} {c : Client}
    (h : s.clients[i]? = some c) : ops[i]? = some c.op := by
  rw [← ht.opsEq, List.getElem?_map, h]; rfl

theorem Eff.evs_not_inv (e : Eff) (i j : Nat) (op : COp) : Ev.inv j op ∉ e.evs i := by
  cases e <;> simp [Eff.evs]

theorem Eff.evs_not_res (e : Eff) (i j : Nat) (r : Resp) : Ev.res j r ∉ e.evs i := by
  cases e <;> simp [Eff.evs]

theorem Eff.evs_push (e : Eff) (i j : Nat) (r : Rec) : Ev.push j r ∈ e.evs i ↔ j = i ∧ e = .push r := by
  cases e <;> simp [Eff.evs]
  intro _; exact eq_comm

theorem Eff.evs_delA (e : Eff) (i j : Nat) (k : Key) (ts : Nat) (oip : Bool) :
    Ev.delA j k ts oip ∈ e.evs i ↔ j = i ∧ e = .delA k ts oip := by
  cases e <;> simp [Eff.evs]
  intro _; constructor <;> rintro ⟨rfl, rfl, rfl⟩ <;> exact ⟨rfl, rfl, rfl⟩

theorem Eff.evs_delC (e : Eff) (i j : Nat) (k : Key) (ts : Nat) :
    Ev.delC j k ts ∈ e.evs i ↔ j = i ∧ e = .delC k ts := by
  cases e <;> simp [Eff.evs]
  intro _; constructor <;> rintro ⟨rfl, rfl⟩ <;> exact ⟨rfl, rfl⟩

theorem tinv_fire {st0 : Store} {ops : List COp} {s s' : CState} {l : Label} (hi : Inv s)
    (ht : TInv st0 ops s) (h : fire l s = some s') : TInv st0 ops s' := by
  obtain ⟨a, ha⟩ := hi.active
  cases l with
  | step i =>
    simp only [fire] at h
    cases hci : s.clients[i]? with
    | none => simp [hci] at h
    | some c =>
      cases hco : cstep s.store s.landed s.blobLock i c with
      | none => simp [hci, hco] at h
      | some o =>
        simp only [hci, hco, Option.some.injEq] at h
        subst h
        have hcm : c ∈ s.clients := List.mem_of_getElem? hci
        have hlt : i < s.clients.length := by
          rcases Nat.lt_or_ge i s.clients.length with h1 | h1
          · exact h1
          · rw [List.getElem?_eq_none h1] at hci; cases hci
        obtain ⟨f1, f2, f3, f4, f5, f6⟩ := cstep_facts hco
        -- the clients after the step
        have hself : (s.clients.set i { op := c.op, pc := o.pc, born := bornAfter s.store c })[i]? =
            some { op := c.op, pc := o.pc, born := bornAfter s.store c } := List.getElem?_set_self hlt
        have hne : ∀ j, j ≠ i → (s.clients.set i { op := c.op, pc := o.pc, born := bornAfter s.store c })[j]? =
            s.clients[j]? := fun j hj => List.getElem?_set_ne (Ne.symm hj)
        have hmem : ∀ e, e ∈ o.eff.evs i ++ o.evs ++ s.trace ↔ e ∈ o.eff.evs i ∨ e ∈ o.evs ∨ e ∈ s.trace := by
          intro e; simp
        refine ⟨?_, ?_, ?_, ?_, ?_, ?_, ?_, ?_⟩
        · -- replay
          show o.eff.store s.store = _
          have hinert : ∀ e ∈ o.evs, e.mutates = false := by
            intro e he
            rcases f3 e he with ⟨rfl, _⟩ | ⟨rfl, _⟩ | ⟨r, rfl, _⟩ <;> rfl
          rw [List.append_assoc, replay_append, replay_append, ← ht.replay, replay_inert s.store o.evs hinert,
            replay_eff]
        · -- ops
          show (s.clients.set i _).map (·.op) = ops
          rw [List.map_set, ← ht.opsEq]
          exact set_self_of_getElem? (by rw [List.getElem?_map, hci]; rfl)
        · -- inv
          intro j op hj
          show ∃ c', (s.clients.set i _)[j]? = some c' ∧ _
          rcases (hmem _).1 hj with hj | hj | hj
          · exact absurd hj (o.eff.evs_not_inv i j op)
          · rcases f3 _ hj with ⟨he, _⟩ | ⟨he, _⟩ | ⟨r, he, _⟩ <;> cases he
            exact ⟨_, hself, rfl, f1⟩
          · obtain ⟨c0, h0, h1, h2⟩ := ht.inv j op hj
            by_cases hji : j = i
            · subst hji
              rw [hci] at h0; cases h0
              exact ⟨_, hself, h1, f1⟩
            · exact ⟨c0, by rw [hne j hji]; exact h0, h1, h2⟩
        · -- res
          intro j r hj
          show ∃ c', (s.clients.set i _)[j]? = some c' ∧ _
          rcases (hmem _).1 hj with hj | hj | hj
          · exact absurd hj (o.eff.evs_not_res i j r)
          · rcases f3 _ hj with ⟨he, _⟩ | ⟨he, _⟩ | ⟨r', he, hd, _⟩ <;> cases he
            exact ⟨_, hself, hd⟩
          · obtain ⟨c0, h0, h1⟩ := ht.res j r hj
            by_cases hji : j = i
            · subst hji
              rw [hci] at h0; cases h0
              exact absurd h1 (f2 r)
            · exact ⟨c0, by rw [hne j hji]; exact h0, h1⟩
        · -- push
          intro j r hj
          rcases (hmem _).1 hj with hj | hj | hj
          · obtain ⟨rfl, he⟩ := (o.eff.evs_push i j r).1 hj
            obtain ⟨k, ts, d, h1, h2, _⟩ := f4 r he
            exact ⟨k, ts, d, by rw [ops_getElem? ht hci, h1], h2⟩
          · rcases f3 _ hj with ⟨he, _⟩ | ⟨he, _⟩ | ⟨r', he, _⟩ <;> cases he
          · exact ht.push j r hj
        · -- prov
          intro r hr hd
          show _ ∨ ∃ j, Ev.push j r ∈ o.eff.evs i ++ o.evs ++ s.trace
          rcases eff_recs o.eff ha hr with h1 | h1 | h1
          · rcases ht.prov r h1 hd with h2 | ⟨j, h2⟩
            · exact Or.inl h2
            · exact Or.inr ⟨j, (hmem _).2 (Or.inr (Or.inr h2))⟩
          · exact Or.inr ⟨i, (hmem _).2 (Or.inl ((o.eff.evs_push i i r).2 ⟨rfl, h1⟩))⟩
          · rw [h1] at hd; cases hd
        · -- del
          intro j k ts hj
          obtain ⟨g1, g2⟩ := cstep_facts2 hco
          rcases hj with ⟨oip, hj⟩ | hj
          · rcases (hmem _).1 hj with hj | hj | hj
            · obtain ⟨rfl, he⟩ := (o.eff.evs_delA i j k ts oip).1 hj
              exact ⟨oip, by rw [ops_getElem? ht hci, (g1 k ts oip he).1]⟩
            · rcases f3 _ hj with ⟨he, _⟩ | ⟨he, _⟩ | ⟨r', he, _⟩ <;> cases he
            · exact ht.del j k ts (Or.inl ⟨oip, hj⟩)
          · rcases (hmem _).1 hj with hj | hj | hj
            · obtain ⟨rfl, he⟩ := (o.eff.evs_delC i j k ts).1 hj
              obtain ⟨oip, n, h1, _⟩ := g2 k ts he
              exact ⟨oip, by rw [ops_getElem? ht hci, h1]⟩
            · rcases f3 _ hj with ⟨he, _⟩ | ⟨he, _⟩ | ⟨r', he, _⟩ <;> cases he
            · exact ht.del j k ts (Or.inr hj)
        · -- acked
          intro i' j ci cj p hab hci' hcj hdone
          change AckedBefore i' j (o.eff.evs i ++ o.evs ++ s.trace) at hab
          change (s.clients.set i _)[i']? = some ci at hci'
          change (s.clients.set i _)[j]? = some cj at hcj
          by_cases hidle : c.pc = .idle
          · -- the invocation of `i`
            obtain ⟨he1, he2⟩ := f5 hidle
            rw [he1, he2] at hab
            have hi'ne : i' ≠ i := by
              intro hx
              subst hx
              rw [hself] at hci'; cases hci'
              have := (f6 _ hdone).2
              rw [hidle] at this
              cases this
            rw [hne i' hi'ne] at hci'
            rcases hab with ⟨⟨op, hop⟩, r, hr⟩ | hab
            · cases hop
              rw [hself] at hcj; cases hcj
              obtain ⟨c0, h0, h1⟩ := ht.res i' r hr
              rw [hci'] at h0; cases h0
              rw [hdone] at h1; cases h1
              have := hi.client ci (List.mem_of_getElem? hci')
              unfold CInv at this
              rw [hdone] at this
              show p ∈ History.positioned (bornAfter s.store c).history
              rw [bornAfter_idle hidle]
              exact this.1
            · have hji : j ≠ i := by
                intro hx
                subst hx
                obtain ⟨op, hop⟩ := hab.inv_mem
                obtain ⟨c0, h0, _, h2⟩ := ht.inv j op hop
                rw [hci] at h0; cases h0
                exact h2 hidle
              rw [hne j hji] at hcj
              exact ht.acked i' j ci cj p hab hci' hcj hdone
          · -- any other step of `i`
            have hnoinv : ∀ e ∈ o.eff.evs i ++ o.evs, ∀ op, e ≠ .inv j op := by
              intro e he op hx
              subst hx
              rcases List.mem_append.1 he with he | he
              · exact o.eff.evs_not_inv i j op he
              · rcases f3 _ he with ⟨_, h2⟩ | ⟨he, _⟩ | ⟨r, he, _⟩
                · exact hidle h2
                · cases he
                · cases he
            rw [ackedBefore_append _ _ hnoinv] at hab
            have hi'ne : i' ≠ i := by
              intro hx
              subst hx
              rw [hself] at hci'; cases hci'
              obtain ⟨_, hret⟩ := f6 _ hdone
              obtain ⟨r, hr⟩ := hab.res_mem
              obtain ⟨c0, h0, h1⟩ := ht.res i' r hr
              rw [hci] at h0; cases h0
              rw [hret] at h1; cases h1
            rw [hne i' hi'ne] at hci'
            by_cases hji : j = i
            · subst hji
              rw [hself] at hcj; cases hcj
              show p ∈ History.positioned (bornAfter s.store c).history
              rw [bornAfter_not_idle hidle]
              exact ht.acked i' j ci c p hab hci' hci hdone
            · rw [hne j hji] at hcj
              exact ht.acked i' j ci cj p hab hci' hcj hdone
  | rotate =>
    simp only [fire] at h
    split at h
    · simp only [Option.some.injEq] at h
      subst h
      refine ⟨?_, ht.opsEq, ?_, ?_, ?_, ?_, ?_, ?_⟩
      · show s.store.replaceActive = replay st0 (Ev.rot :: s.trace)
        rw [replay_cons, ← ht.replay]; rfl
      · intro j op hj
        exact ht.inv j op (by simpa using hj)
      · intro j r hj
        exact ht.res j r (by simpa using hj)
      · intro j r hj
        exact ht.push j r (by simpa using hj)
      · intro r hr hd
        rcases ht.prov r (replaceActive_recs hr) hd with h1 | ⟨j, h1⟩
        · exact Or.inl h1
        · exact Or.inr ⟨j, List.mem_cons_of_mem _ h1⟩
      · intro j k ts hj
        exact ht.del j k ts (by simpa using hj)
      · intro i' j ci cj p hab
        rcases hab with ⟨⟨op, hop⟩, _⟩ | hab
        · cases hop
        · exact ht.acked i' j ci cj p hab
    · exact absurd h (by simp)
  | dump =>
    simp only [fire, Option.some.injEq] at h
    subst h
    refine ⟨?_, ht.opsEq, ?_, ?_, ?_, ?_, ?_, ?_⟩
    · show s.store.settle = replay st0 (Ev.dump :: s.trace)
      rw [replay_cons, ← ht.replay]; rfl
    · intro j op hj
      exact ht.inv j op (by simpa using hj)
    · intro j r hj
      exact ht.res j r (by simpa using hj)
    · intro j r hj
      exact ht.push j r (by simpa using hj)
    · intro r hr hd
      rcases ht.prov r (settle_recs hr) hd with h1 | ⟨j, h1⟩
      · exact Or.inl h1
      · exact Or.inr ⟨j, List.mem_cons_of_mem _ h1⟩
    · intro j k ts hj
      exact ht.del j k ts (by simpa using hj)
    · intro i' j ci cj p hab
      rcases hab with ⟨⟨op, hop⟩, _⟩ | hab
      · cases hop
      · exact ht.acked i' j ci cj p hab

theorem tinv_reach {st : Store} {ops : List COp} {s : CState} (hwf : st.WF) {a : Blob} (ha : st.active = some a)
    (h : Reach (init st ops) s) : Inv s ∧ TInv st ops s := by
  induction h with
  | refl => exact ⟨inv_init hwf ha ops, tinv_init st ops⟩
  | step _ hs ih => obtain ⟨l, hl⟩ := hs; exact ⟨inv_fire ih.1 hl, tinv_fire ih.1 ih.2 hl⟩

/-! ## 5. consequences -/

theorem fire_sub {s s' : CState} {l : Label} (hi : Inv s) (h : fire l s = some s') : Sub s.store s'.store := by
  obtain ⟨a, ha⟩ := hi.active
  cases l with
  | step i =>
    simp only [fire] at h
    cases hci : s.clients[i]? with
    | none => simp [hci] at h
    | some c =>
      cases hco : cstep s.store s.landed s.blobLock i c with
      | none => simp [hci, hco] at h
      | some o =>
        simp only [hci, hco, Option.some.injEq] at h
        subst h
        exact (o.eff.inPlace ha).sub
  | rotate =>
    simp only [fire] at h
    split at h
    · simp only [Option.some.injEq] at h
      subst h
      exact Sub.of_shape (Store.replaceActive_shape _)
    · exact absurd h (by simp)
  | dump =>
    simp only [fire, Option.some.injEq] at h
    subst h
    exact (inPlace_settle ha).sub

/-- the store only grows: every positioned record stays where it is, in every later state -/
theorem reach_sub {s s' : CState} (hi : Inv s) (h : Reach s s') : Sub s.store s'.store := by
  induction h with
  | refl => exact Sub.refl _
  | step hr hs ih =>
    obtain ⟨l, hl⟩ := hs
    exact ih.trans (fire_sub (inv_reach hi hr) hl)

theorem reach_trans {s0 s s' : CState} (h1 : Reach s0 s) (h2 : Reach s s') : Reach s0 s' := by
  induction h2 with
  | refl => exact h1
  | step _ hs ih => exact .step ih hs

theorem runSched_reach (sched : List Label) (s0 s s' : CState) (h0 : Reach s0 s)
    (h : runSched sched s = some s') : Reach s0 s' := by
  induction sched generalizing s with
  | nil => simp [runSched] at h; subst h; exact h0
  | cons l ls ih =>
    simp only [runSched] at h
    cases hf : fire l s with
    | none => simp [hf] at h
    | some s1 => simp only [hf] at h; exact ih s1 (.step h0 ⟨l, hf⟩) h

/-- the response of a finished client, with the facts the invariant attaches to it -/
theorem done_respOK {s : CState} (hi : Inv s) {i : Nat} {c : Client} {r : Resp} (hc : s.clients[i]? = some c)
    (hd : c.pc = .done r) : RespOK c.born s.store s.landed c.op r := by
  have := hi.client c (List.mem_of_getElem? hc)
  unfold CInv at this
  rw [hd] at this
  exact this

/-! ## 6. the sequential model on the trace -/

theorem write_eq_appendActive {s : Store} {a : Blob} (ha : s.active = some a) (k : Key) (ts : Nat) (d : Data)
    (h : s.allowDup = true ∨ (s.getLatestEntry k none).isFound = false) :
    s.write k ts none d = appendActive s (wrec k ts d) := by
  have he : s.ensureActive = s := by simp [Store.ensureActive, ha]
  simp only [Store.write, he, appendActive, ha]
  rcases h with h | h
  · simp [h, wrec]
  · simp [h, wrec]

theorem delete_eq_phases {s : Store} {a : Blob} (ha : s.active = some a) (k : Key) (ts : Nat) (oip : Bool) :
    (s.delete k ts none oip).1 = (delClosed (delActive s k ts oip).1 k ts).1 := by
  have he : s.ensureActive = s := by simp [Store.ensureActive, ha]
  simp only [Store.delete, he, ite_self, ha, delActive, delClosed]

theorem delete_count_phases {s : Store} {a : Blob} (ha : s.active = some a) (k : Key) (ts : Nat) (oip : Bool) :
    (s.delete k ts none oip).2 = (delActive s k ts oip).2 + (delClosed (delActive s k ts oip).1 k ts).2 := by
  have he : s.ensureActive = s := by simp [Store.ensureActive, ha]
  simp only [Store.delete, he, ite_self, ha, delActive, delClosed]
  rfl



/-- the events of `l` (oldest first) applied to `st` -/
def applyAll (st : Store) (l : List Ev) : Store := l.foldl Ev.apply st

theorem replay_eq_applyAll (st : Store) (tr : List Ev) : replay st tr = applyAll st tr.reverse := by
  simp [replay, applyAll, List.foldl_reverse]

theorem applyAll_filter (l : List Ev) : ∀ st : Store, applyAll st (l.filter Ev.mutates) = applyAll st l := by
  induction l with
  | nil => intro st; rfl
  | cons e t ih =>
    intro st
    cases hm : e.mutates
    · rw [List.filter_cons_of_neg (by simp [hm])]
      have : Ev.apply st e = st := by cases e <;> simp [Ev.mutates] at hm <;> rfl
      simp only [applyAll, List.foldl_cons, this]
      exact ih st
    · rw [List.filter_cons_of_pos hm]
      simp only [applyAll, List.foldl_cons]
      exact ih _

theorem replay_eq_muts (st : Store) (tr : List Ev) : replay st tr = applyAll st (muts tr) := by
  rw [replay_eq_applyAll, muts, applyAll_filter]

theorem active_appendActive {st : Store} {a : Blob} (h : st.active = some a) (r : Rec) :
    ∃ a', (appendActive st r).active = some a' := (inPlace_appendActive h r).active_some

/-- a chronological list of mutations whose delete phases are adjacent is the run of the sequential model on
    the operations it stands for -/
theorem applyAll_eq_run : ∀ (l : List Ev) (st : Store) (seq : List Op),
    coalesce l = some seq → NoSkip st seq → (∃ a, st.active = some a) →
    (∀ i r, Ev.push i r ∈ l → r = wrec r.key r.ts r.data) →
    applyAll st l = st.run seq := by
  intro l
  fun_induction coalesce l with
  | case1 =>
    intro st seq h _ _ _
    cases h; rfl
  | case2 i r t ih =>
    intro st seq h hns ⟨a, ha⟩ hp
    cases hc : coalesce t with
    | none => simp [hc] at h
    | some seq' =>
      simp only [hc, Option.map_some, Option.some.injEq] at h
      subst h
      have hr := hp i r (by simp)
      have hw : st.apply (.write r.key r.ts none r.data) = appendActive st r := by
        show st.write r.key r.ts none r.data = _
        rw [write_eq_appendActive ha _ _ _ hns.1, ← hr]
      show applyAll (appendActive st r) t = (st.apply (.write r.key r.ts none r.data)).run seq'
      rw [hw]
      exact ih _ _ hc (by rw [← hw]; exact hns.2) (active_appendActive ha r)
        (fun i' r' h' => hp i' r' (by simp [h']))
  | case3 i k ts oip j k' ts' t hcond ih =>
    intro st seq h hns ⟨a, ha⟩ hp
    obtain ⟨rfl, rfl, rfl⟩ := hcond
    cases hc : coalesce t with
    | none => simp [hc] at h
    | some seq' =>
      simp only [hc, Option.map_some, Option.some.injEq] at h
      subst h
      have hw : st.apply (.delete k ts none oip) = (delClosed (delActive st k ts oip).1 k ts).1 := by
        show (st.delete k ts none oip).1 = _
        exact delete_eq_phases ha k ts oip
      show applyAll (delClosed (delActive st k ts oip).1 k ts).1 t = (st.apply (.delete k ts none oip)).run seq'
      rw [hw]
      obtain ⟨a1, ha1⟩ := (inPlace_delActive ha k ts oip).active_some
      exact ih _ _ hc (by rw [← hw]; exact hns.2) (inPlace_delClosed ha1 k ts).active_some
        (fun i' r' h' => hp i' r' (by simp [h']))
  | case4 i k ts oip j k' ts' t hcond =>
    intro st seq h
    simp at h
  | case5 t ih =>
    intro st seq h hns ⟨a, ha⟩ hp
    cases hc : coalesce t with
    | none => simp [hc] at h
    | some seq' =>
      simp only [hc, Option.map_some, Option.some.injEq] at h
      subst h
      show applyAll st.replaceActive t = (st.apply .replaceActive).run seq'
      exact ih _ _ hc hns.2 (replaceActive_active st) (fun i' r' h' => hp i' r' (by simp [h']))
  | case6 t ih =>
    intro st seq h hns ⟨a, ha⟩ hp
    cases hc : coalesce t with
    | none => simp [hc] at h
    | some seq' =>
      simp only [hc, Option.map_some, Option.some.injEq] at h
      subst h
      show applyAll st.settle t = (st.apply .settle).run seq'
      exact ih _ _ hc hns.2 (inPlace_settle ha).active_some (fun i' r' h' => hp i' r' (by simp [h']))
  | case7 l h1 h2 h3 h4 h5 =>
    intro st seq h
    simp at h

/-! ## 7. linearization points -/

/-- the client an event belongs to -/
def Ev.client : Ev → Option Nat
  | .inv i _ | .res i _ | .look i | .push i _ | .delA i _ _ _ | .delC i _ _ => some i
  | _ => none

/-- program counters at which the operation's linearization event has been emitted -/
def Pc.hasLin : Pc → Bool
  | .lookC _ _ | .load _ | .chk _ | .wPushed _ | .dClosed _ | .rel _ | .ret _ | .done _ => true
  | _ => false

def Resp.place : Resp → Option PRec
  | .wrote (some p) => some p
  | _ => none

/-- the place a stored write reports, from `wPushed` on -/
def Pc.place : Pc → Option PRec
  | .wPushed p => some p
  | .rel r | .ret r | .done r => r.place
  | _ => none

/-- before the first look-up -/
def Pc.preLook : Pc → Bool
  | .idle | .start | .lookA => true
  | _ => false

set_option linter.unusedSimpArgs false in
theorem cstep_facts3 {st : Store} {landed : List Rec} {bl : Option Nat} {i : Nat} {c : Client} {o : Out}
    (h : cstep st landed bl i c = some o) :
    (∀ e ∈ o.eff.evs i ++ o.evs, e.client = some i) ∧
    (o.pc.hasLin = true → c.pc.hasLin = true ∨ ∃ x ∈ o.eff.evs i ++ o.evs, Ev.linOf i x = true) ∧
    (∀ p, o.pc.place = some p → c.pc.place = some p ∨ o.eff = .push p.r) ∧
    (o.eff.evs i ++ o.evs = [] ∨ ∃ e, o.eff.evs i ++ o.evs = [e]) ∧
    (o.pc.preLook = true → c.pc.preLook = true ∧ Ev.look i ∉ o.eff.evs i ++ o.evs) ∧
    (Ev.look i ∈ o.eff.evs i ++ o.evs → c.pc = .lookA ∧ o.eff.evs i ++ o.evs = [.look i]) := by
  obtain ⟨op, pc, born⟩ := c
  cases pc <;> cases op <;> simp only [cstep] at h <;> (try split at h) <;>
    first
    | (simp only [Option.some.injEq] at h; subst h;
       simp [Ev.client, Pc.hasLin, Pc.place, Resp.place, Pc.preLook, Eff.evs, Ev.linOf] <;> (try split) <;>
       simp [Ev.client, Pc.hasLin, Pc.place, Resp.place, Pc.preLook, Eff.evs, Ev.linOf] <;>
       (try (rename_i hx; split at hx <;> simp at hx)))
    | simp at h


theorem write_allowDup (s : Store) (k : Key) (ts : Nat) (m : Option Meta) (d : Data) :
    (s.write k ts m d).allowDup = s.allowDup := by
  simp only [Store.write]
  split
  · exact Store.ensureActive_allowDup s
  · split
    · exact Store.ensureActive_allowDup s
    · exact Store.ensureActive_allowDup s

theorem noSkip_of_allowDup : ∀ (l : List Ev) (st : Store) (seq : List Op),
    coalesce l = some seq → st.allowDup = true → NoSkip st seq := by
  intro l
  fun_induction coalesce l with
  | case1 => intro st seq h _; cases h; trivial
  | case2 i r t ih =>
    intro st seq h hd
    cases hc : coalesce t with
    | none => simp [hc] at h
    | some seq' =>
      simp only [hc, Option.map_some, Option.some.injEq] at h
      subst h
      exact ⟨Or.inl hd, ih _ _ hc (by show (st.write _ _ _ _).allowDup = true; rw [write_allowDup]; exact hd)⟩
  | case3 i k ts oip j k' ts' t hcond ih =>
    intro st seq h hd
    cases hc : coalesce t with
    | none => simp [hc] at h
    | some seq' =>
      simp only [hc, Option.map_some, Option.some.injEq] at h
      subst h
      exact ⟨trivial, ih _ _ hc (by show (st.delete _ _ _ _).1.allowDup = true; rw [Store.delete_allowDup]; unfold Store.deleteBase; split <;> simp [Store.ensureActive_allowDup, hd])⟩
  | case4 i k ts oip j k' ts' t hcond => intro st seq h; simp at h
  | case5 t ih =>
    intro st seq h hd
    cases hc : coalesce t with
    | none => simp [hc] at h
    | some seq' =>
      simp only [hc, Option.map_some, Option.some.injEq] at h
      subst h
      exact ⟨trivial, ih _ _ hc (by show st.replaceActive.allowDup = true; rw [replaceActive_allowDup]; exact hd)⟩
  | case6 t ih =>
    intro st seq h hd
    cases hc : coalesce t with
    | none => simp [hc] at h
    | some seq' =>
      simp only [hc, Option.map_some, Option.some.injEq] at h
      subst h
      exact ⟨trivial, ih _ _ hc hd⟩
  | case7 l h1 h2 h3 h4 h5 => intro st seq h; simp at h

/-- without delete events every list of mutations parses -/
theorem coalesce_of_noDel : ∀ l : List Ev, (∀ e ∈ l, e.mutates = true) →
    (∀ e ∈ l, ∀ i k ts oip, e ≠ .delA i k ts oip) → (∀ e ∈ l, ∀ i k ts, e ≠ .delC i k ts) →
    ∃ seq, coalesce l = some seq
  | [], _, _, _ => ⟨[], rfl⟩
  | e :: t, hm, hA, hC => by
    obtain ⟨seq, hs⟩ := coalesce_of_noDel t (fun x hx => hm x (by simp [hx])) (fun x hx => hA x (by simp [hx]))
      (fun x hx => hC x (by simp [hx]))
    have h1 := hm e (by simp)
    cases e with
    | push i r => exact ⟨Op.write r.key r.ts none r.data :: seq, by simp [coalesce, hs]⟩
    | rot => exact ⟨Op.replaceActive :: seq, by simp [coalesce, hs]⟩
    | dump => exact ⟨Op.settle :: seq, by simp [coalesce, hs]⟩
    | delA i k ts oip => exact absurd rfl (hA _ (by simp) i k ts oip)
    | delC i k ts => exact absurd rfl (hC _ (by simp) i k ts)
    | inv i op => simp [Ev.mutates] at h1
    | res i r => simp [Ev.mutates] at h1
    | look i => simp [Ev.mutates] at h1


/-- shape of a trace (newest first): a response comes after the linearization event of its operation, an
    invocation is the first event of its client -/
def TraceOK : List Ev → Prop
  | [] => True
  | e :: t => (∀ i r, e = .res i r → ∃ x ∈ t, Ev.linOf i x = true) ∧
      (∀ j op, e = .inv j op → ∀ x ∈ t, x.client ≠ some j) ∧ TraceOK t

theorem linOf_client {i : Nat} {x : Ev} (h : Ev.linOf i x = true) : x.client = some i := by
  cases x <;> simp [Ev.linOf] at h <;> simp [Ev.client, h]

theorem TraceOK.res_lin : ∀ {t : List Ev}, TraceOK t → ∀ {i r}, Ev.res i r ∈ t → ∃ x ∈ t, Ev.linOf i x = true
  | [], _, _, _, h => by cases h
  | e :: t, hok, i, r, h => by
    rcases List.mem_cons.1 h with h | h
    · obtain ⟨x, hx, hl⟩ := hok.1 i r h.symm
      exact ⟨x, List.mem_cons_of_mem _ hx, hl⟩
    · obtain ⟨x, hx, hl⟩ := TraceOK.res_lin hok.2.2 h
      exact ⟨x, List.mem_cons_of_mem _ hx, hl⟩

/-- real-time order is respected by the order of the linearization events -/
theorem ackedBefore_linBefore {i j : Nat} : ∀ {t : List Ev}, TraceOK t → (∃ y ∈ t, Ev.linOf j y = true) →
    AckedBefore i j t → LinBefore i j t
  | [], _, _, h => by cases h
  | e :: t, hok, hj, h => by
    rcases h with ⟨⟨op, rfl⟩, _⟩ | h
    · obtain ⟨y, hy, hl⟩ := hj
      rcases List.mem_cons.1 hy with rfl | hy
      · simp [Ev.linOf] at hl
      · exact absurd (linOf_client hl) (hok.2.1 j op rfl y hy)
    · by_cases hjt : ∃ y ∈ t, Ev.linOf j y = true
      · exact Or.inr (ackedBefore_linBefore hok.2.2 hjt h)
      · obtain ⟨y, hy, hl⟩ := hj
        rcases List.mem_cons.1 hy with rfl | hy
        · obtain ⟨r, hr⟩ := h.res_mem
          exact Or.inl ⟨hl, hok.2.2.res_lin hr⟩
        · exact absurd ⟨y, hy, hl⟩ hjt

structure HInv (s : CState) : Prop where
  ok : TraceOK s.trace
  lin : ∀ i c, s.clients[i]? = some c → c.pc.hasLin = true → ∃ x ∈ s.trace, Ev.linOf i x = true
  pushed : ∀ i c p, s.clients[i]? = some c → c.pc.place = some p → Ev.push i p.r ∈ s.trace
  fresh : ∀ i c, s.clients[i]? = some c → c.pc = .idle → ∀ x ∈ s.trace, x.client ≠ some i
  noLook : ∀ i c, s.clients[i]? = some c → c.pc.preLook = true → Ev.look i ∉ s.trace
  lookOnce : ∀ i, s.trace.count (.look i) ≤ 1

theorem hinv_init (st : Store) (ops : List COp) : HInv (init st ops) where
  ok := trivial
  lin := by
    intro i c hc hl
    simp only [init, List.getElem?_map] at hc
    cases h : ops[i]? <;> simp [h] at hc
    subst hc; simp [Pc.hasLin] at hl
  pushed := by
    intro i c p hc hl
    simp only [init, List.getElem?_map] at hc
    cases h : ops[i]? <;> simp [h] at hc
    subst hc; simp [Pc.place] at hl
  fresh := by intro i c _ _ x hx; simp [init] at hx
  noLook := by intro i c _ _ hx; simp [init] at hx
  lookOnce := by intro i; simp [init]

theorem traceOK_append_one {e : Ev} {t : List Ev} (ht : TraceOK t)
    (h1 : ∀ i r, e = .res i r → ∃ x ∈ t, Ev.linOf i x = true)
    (h2 : ∀ j op, e = .inv j op → ∀ x ∈ t, x.client ≠ some j) : TraceOK ([e] ++ t) := ⟨h1, h2, ht⟩

theorem hinv_fire {s s' : CState} {l : Label} (hh : HInv s) (h : fire l s = some s') : HInv s' := by
  cases l with
  | step i =>
    simp only [fire] at h
    cases hci : s.clients[i]? with
    | none => simp [hci] at h
    | some c =>
      cases hco : cstep s.store s.landed s.blobLock i c with
      | none => simp [hci, hco] at h
      | some o =>
        simp only [hci, hco, Option.some.injEq] at h
        subst h
        have hlt : i < s.clients.length := by
          rcases Nat.lt_or_ge i s.clients.length with h1 | h1
          · exact h1
          · rw [List.getElem?_eq_none h1] at hci; cases hci
        obtain ⟨f1, f2, f3, f4, f5, f6⟩ := cstep_facts hco
        obtain ⟨g1, g2, g3, g4, g5, g6⟩ := cstep_facts3 hco
        have hself : (s.clients.set i { op := c.op, pc := o.pc, born := bornAfter s.store c })[i]? =
            some { op := c.op, pc := o.pc, born := bornAfter s.store c } := List.getElem?_set_self hlt
        have hne : ∀ j, j ≠ i → (s.clients.set i { op := c.op, pc := o.pc, born := bornAfter s.store c })[j]? =
            s.clients[j]? := fun j hj => List.getElem?_set_ne (Ne.symm hj)
        have htr : o.eff.evs i ++ o.evs ++ s.trace = (o.eff.evs i ++ o.evs) ++ s.trace := rfl
        have hnewj : ∀ j, j ≠ i → ∀ x ∈ o.eff.evs i ++ o.evs, x.client ≠ some j := by
          intro j hj x hx hc
          rw [g1 x hx] at hc
          cases hc; exact hj rfl
        refine ⟨?_, ?_, ?_, ?_, ?_, ?_⟩
        · -- ok
          show TraceOK (o.eff.evs i ++ o.evs ++ s.trace)
          rcases g4 with h0 | ⟨e, h0⟩
          · rw [h0]; exact hh.ok
          · rw [h0]
            have hmem : e ∈ o.eff.evs i ++ o.evs := by rw [h0]; simp
            refine traceOK_append_one hh.ok ?_ ?_
            · rintro i' r rfl
              rcases List.mem_append.1 hmem with hm | hm
              · exact absurd hm (o.eff.evs_not_res i i' r)
              · rcases f3 _ hm with ⟨he, _⟩ | ⟨he, _⟩ | ⟨r', he, _, hret⟩ <;> cases he
                exact hh.lin i c hci (by rw [hret]; rfl)
            · rintro j op rfl
              rcases List.mem_append.1 hmem with hm | hm
              · exact absurd hm (o.eff.evs_not_inv i j op)
              · rcases f3 _ hm with ⟨he, hidle⟩ | ⟨he, _⟩ | ⟨r', he, _⟩ <;> cases he
                exact hh.fresh i c hci hidle
        · -- lin
          intro j cj hcj hl
          show ∃ x ∈ o.eff.evs i ++ o.evs ++ s.trace, _
          by_cases hji : j = i
          · subst hji
            rw [hself] at hcj; cases hcj
            rcases g2 hl with h1 | ⟨x, hx, h1⟩
            · obtain ⟨x, hx, h2⟩ := hh.lin j c hci h1
              exact ⟨x, List.mem_append_right _ hx, h2⟩
            · exact ⟨x, List.mem_append_left _ hx, h1⟩
          · rw [hne j hji] at hcj
            obtain ⟨x, hx, h2⟩ := hh.lin j cj hcj hl
            exact ⟨x, List.mem_append_right _ hx, h2⟩
        · -- pushed
          intro j cj p hcj hp
          show Ev.push j p.r ∈ o.eff.evs i ++ o.evs ++ s.trace
          by_cases hji : j = i
          · subst hji
            rw [hself] at hcj; cases hcj
            rcases g3 p hp with h1 | h1
            · exact List.mem_append_right _ (hh.pushed j c p hci h1)
            · exact List.mem_append_left _ (List.mem_append_left _ ((o.eff.evs_push j j p.r).2 ⟨rfl, h1⟩))
          · rw [hne j hji] at hcj
            exact List.mem_append_right _ (hh.pushed j cj p hcj hp)
        · -- fresh
          intro j cj hcj hidle x hx
          have hji : j ≠ i := by
            intro hji; subst hji
            rw [hself] at hcj; cases hcj
            exact f1 hidle
          rw [hne j hji] at hcj
          rw [htr] at hx
          rcases List.mem_append.1 hx with hx | hx
          · exact hnewj j hji x hx
          · exact hh.fresh j cj hcj hidle x hx
        · -- noLook
          intro j cj hcj hpre hx
          rw [htr] at hx
          by_cases hji : j = i
          · subst hji
            rw [hself] at hcj; cases hcj
            obtain ⟨h1, h2⟩ := g5 hpre
            rcases List.mem_append.1 hx with hx | hx
            · exact h2 hx
            · exact hh.noLook j c hci h1 hx
          · rw [hne j hji] at hcj
            rcases List.mem_append.1 hx with hx | hx
            · exact hnewj j hji _ hx rfl
            · exact hh.noLook j cj hcj hpre hx
        · -- lookOnce
          intro j
          show List.count (Ev.look j) (o.eff.evs i ++ o.evs ++ s.trace) ≤ 1
          rw [htr, List.count_append]
          by_cases hm : Ev.look j ∈ o.eff.evs i ++ o.evs
          · have hji : j = i := by
              have := g1 _ hm
              simp only [Ev.client, Option.some.injEq] at this
              exact this
            subst hji
            obtain ⟨hpc, hnew⟩ := g6 hm
            have := hh.noLook j c hci (by rw [hpc]; rfl)
            rw [hnew, List.count_eq_zero.2 this]
            simp
          · rw [List.count_eq_zero.2 hm]
            have := hh.lookOnce j
            omega
  | rotate =>
    simp only [fire] at h
    split at h
    · simp only [Option.some.injEq] at h
      subst h
      refine ⟨⟨by simp, by simp, hh.ok⟩, ?_, ?_, ?_, ?_, ?_⟩
      · intro i c hc hl
        obtain ⟨x, hx, h2⟩ := hh.lin i c hc hl
        exact ⟨x, List.mem_cons_of_mem _ hx, h2⟩
      · intro i c p hc hp
        exact List.mem_cons_of_mem _ (hh.pushed i c p hc hp)
      · intro i c hc hidle x hx
        rcases List.mem_cons.1 hx with rfl | hx
        · simp [Ev.client]
        · exact hh.fresh i c hc hidle x hx
      · intro i c hc hpre hx
        rcases List.mem_cons.1 hx with hx | hx
        · cases hx
        · exact hh.noLook i c hc hpre hx
      · intro i
        show List.count (Ev.look i) (Ev.rot :: s.trace) ≤ 1
        rw [List.count_cons_of_ne (by simp)]
        exact hh.lookOnce i
    · exact absurd h (by simp)
  | dump =>
    simp only [fire, Option.some.injEq] at h
    subst h
    refine ⟨⟨by simp, by simp, hh.ok⟩, ?_, ?_, ?_, ?_, ?_⟩
    · intro i c hc hl
      obtain ⟨x, hx, h2⟩ := hh.lin i c hc hl
      exact ⟨x, List.mem_cons_of_mem _ hx, h2⟩
    · intro i c p hc hp
      exact List.mem_cons_of_mem _ (hh.pushed i c p hc hp)
    · intro i c hc hidle x hx
      rcases List.mem_cons.1 hx with rfl | hx
      · simp [Ev.client]
      · exact hh.fresh i c hc hidle x hx
    · intro i c hc hpre hx
      rcases List.mem_cons.1 hx with hx | hx
      · cases hx
      · exact hh.noLook i c hc hpre hx
    · intro i
      show List.count (Ev.look i) (Ev.dump :: s.trace) ≤ 1
      rw [List.count_cons_of_ne (by simp)]
      exact hh.lookOnce i

theorem hinv_reach {st : Store} {ops : List COp} {s : CState} (h : Reach (init st ops) s) : HInv s := by
  induction h with
  | refl => exact hinv_init st ops
  | step _ hs ih => obtain ⟨l, hl⟩ := hs; exact hinv_fire ih hl


/-! ## 8. without deletes a read is atomic -/

theorem getLatestEntry_congr {b b' : Blob} (h : b.hist = b'.hist) (k : Key) :
    b.getLatestEntry k none = b'.getLatestEntry k none := by
  have hr : b.recs = b'.recs := congrArg Prod.snd h
  simp [Blob.getLatestEntry, Blob.getLatest, Blob.vec, hr]

theorem foldl_latest_congr (k : Key) : ∀ (l l' : List Blob) (acc : ReadResult Rec),
    l.map Blob.hist = l'.map Blob.hist →
    l.foldl (fun acc b => acc.latest (b.getLatestEntry k none)) acc =
      l'.foldl (fun acc b => acc.latest (b.getLatestEntry k none)) acc
  | [], [], _, _ => rfl
  | [], _ :: _, _, h => by simp at h
  | _ :: _, [], _, h => by simp at h
  | b :: l, b' :: l', acc, h => by
    simp only [List.map_cons, List.cons.injEq] at h
    simp only [List.foldl_cons, getLatestEntry_congr h.1]
    exact foldl_latest_congr k l l' _ h.2

theorem lookClosed_congr {a b : Store} (h : a.closed.map Blob.hist = b.closed.map Blob.hist) (k : Key)
    (acc : ReadResult Rec) : lookClosed a k acc = lookClosed b k acc := by
  unfold lookClosed
  apply foldl_latest_congr
  rw [List.map_reverse, List.map_reverse, h]

theorem Eff.closed_hist (e : Eff) (st : Store) (hne : ∀ k ts, e ≠ .delC k ts) :
    (e.store st).closed.map Blob.hist = st.closed.map Blob.hist := by
  cases e with
  | push r => simp only [Eff.store, appendActive]; split <;> rfl
  | delA k ts oip => simp only [Eff.store, delActive]; split <;> rfl
  | delC k ts => exact absurd rfl (hne k ts)
  | _ => rfl

theorem settle_closed_hist (st : Store) : st.settle.closed.map Blob.hist = st.closed.map Blob.hist := by
  simp only [Store.settle, Store.closed, Store.closed_map_option, List.map_map]
  apply List.map_congr_left
  intro b _
  simp only [Function.comp]
  split <;> rfl

/-- the answer `res` is the answer of the sequential model at the client's look-up event -/
def SeqRes (st0 : Store) (tr : List Ev) (i : Nat) (k : Key) (res : ReadResult Rec) : Prop :=
  ∃ l1 past, tr = l1 ++ Ev.look i :: past ∧ res = (replay st0 past).getLatestEntry k none

theorem SeqRes.mono {st0 : Store} {tr : List Ev} {i : Nat} {k : Key} {res : ReadResult Rec} (l : List Ev)
    (h : SeqRes st0 tr i k res) : SeqRes st0 (l ++ tr) i k res := by
  obtain ⟨l1, past, h1, h2⟩ := h
  exact ⟨l ++ l1, past, by rw [h1, List.append_assoc], h2⟩

def SeqResp (st0 : Store) (tr : List Ev) (i : Nat) (k : Key) : Resp → Prop
  | .value res => SeqRes st0 tr i k res
  | .has x => ∃ res, x = res.map (·.ts) ∧ SeqRes st0 tr i k res
  | .wrote none => ∃ res, res.isFound = true ∧ SeqRes st0 tr i k res
  | _ => True

theorem SeqResp.mono {st0 : Store} {tr : List Ev} {i : Nat} {k : Key} {r : Resp} (l : List Ev)
    (h : SeqResp st0 tr i k r) : SeqResp st0 (l ++ tr) i k r := by
  cases r with
  | value res => exact SeqRes.mono l h
  | has x => obtain ⟨res, h1, h2⟩ := h; exact ⟨res, h1, h2.mono l⟩
  | wrote p =>
    cases p with
    | none => obtain ⟨res, h1, h2⟩ := h; exact ⟨res, h1, h2.mono l⟩
    | some p => trivial
  | torn => trivial
  | deleted n => trivial

/-- delete-free systems: what a client knows about its look-up -/
def DCInv (st0 st : Store) (tr : List Ev) (i : Nat) (c : Client) : Prop :=
  match c.pc with
  | .lookC _ snap =>
    (∃ l1 past, tr = l1 ++ Ev.look i :: past ∧ snap = replay st0 past) ∧
      snap.closed.map Blob.hist = st.closed.map Blob.hist
  | .load res => SeqRes st0 tr i c.op.key res
  | .chk res => SeqRes st0 tr i c.op.key res
  | .rel r => SeqResp st0 tr i c.op.key r
  | .ret r => SeqResp st0 tr i c.op.key r
  | .done r => SeqResp st0 tr i c.op.key r
  | _ => True

theorem DCInv.stable {st0 st st' : Store} {tr : List Ev} {i : Nat} {c : Client} (l : List Ev)
    (hcl : c.pc.holdsS = true → st'.closed.map Blob.hist = st.closed.map Blob.hist)
    (h : DCInv st0 st tr i c) : DCInv st0 st' (l ++ tr) i c := by
  obtain ⟨op, pc, born⟩ := c
  cases pc with
  | lookC acc snap =>
    obtain ⟨⟨l1, past, h1, h2⟩, h3⟩ := h
    exact ⟨⟨l ++ l1, past, by rw [h1, List.append_assoc], h2⟩, h3.trans (hcl rfl).symm⟩
  | load res => exact SeqRes.mono l h
  | chk res => exact SeqRes.mono l h
  | rel r => exact SeqResp.mono l h
  | ret r => exact SeqResp.mono l h
  | done r => exact SeqResp.mono l h
  | _ => trivial

/-- the step of a client re-establishes its `DCInv` (the step is not the closed phase of a delete) -/
theorem cstep_down {st0 st : Store} {landed : List Rec} {bl : Option Nat} {i : Nat} {c : Client} {o : Out}
    {tr : List Ev} (hrep : st = replay st0 tr) (hc : CInv st landed c) (hd : DCInv st0 st tr i c)
    (h : cstep st landed bl i c = some o) (hne : ∀ k ts, o.eff ≠ .delC k ts) :
    DCInv st0 (o.eff.store st) (o.eff.evs i ++ o.evs ++ tr) i
      { op := c.op, pc := o.pc, born := bornAfter st c } := by
  obtain ⟨op, pc, born⟩ := c
  cases pc with
  | idle => simp only [cstep, Option.some.injEq] at h; subst h; trivial
  | start =>
    cases op <;> simp only [cstep, Option.some.injEq] at h <;> subst h
    · show DCInv _ _ _ _ { op := _, pc := if _ then _ else _, born := _ }
      split <;> trivial
    all_goals trivial
  | lookA =>
    simp only [cstep, Option.some.injEq] at h
    subst h
    exact ⟨⟨[], tr, rfl, hrep⟩, rfl⟩
  | lookC acc snap =>
    obtain ⟨a1, act, h1, h2, h3, h4, h5⟩ := hc
    obtain ⟨⟨l1, past, g1, g2⟩, g3⟩ := hd
    have hres : SeqRes st0 tr i op.key (lookClosed st op.key acc) := by
      refine ⟨l1, past, g1, ?_⟩
      rw [← lookClosed_congr g3, h4, lookClosed_lookActive h1, g2]
    cases op <;> simp only [cstep, Option.some.injEq] at h
    · subst h; exact hres
    · subst h; exact hres
    · subst h; exact ⟨_, rfl, hres⟩
    · exact absurd h (by simp)
  | load res =>
    have hd : SeqRes st0 tr i op.key res := hd
    cases res with
    | found r =>
      simp only [cstep, Option.some.injEq] at h
      subst h
      show DCInv _ _ _ _ { op := _, pc := .rel (if _ then _ else _), born := _ }
      split
      · exact hd
      · trivial
    | deleted t => simp only [cstep, Option.some.injEq] at h; subst h; exact hd
    | notFound => simp only [cstep, Option.some.injEq] at h; subst h; exact hd
  | chk res =>
    have hd : SeqRes st0 tr i op.key res := hd
    simp only [cstep, Option.some.injEq] at h
    subst h
    show DCInv _ _ _ _ { op := _, pc := if _ then _ else _, born := _ }
    split
    · rename_i hf; exact ⟨res, hf, hd⟩
    · trivial
  | wStart => simp only [cstep, Option.some.injEq] at h; subst h; trivial
  | wLocked =>
    simp only [cstep] at h
    split at h
    · simp only [Option.some.injEq] at h; subst h; trivial
    · exact absurd h (by simp)
  | wBlob => simp only [cstep, Option.some.injEq] at h; subst h; trivial
  | wReserved =>
    cases op <;> simp only [cstep, Option.some.injEq] at h
    · subst h; trivial
    all_goals exact absurd h (by simp)
  | wWritten =>
    cases op with
    | write k ts d =>
      simp only [cstep] at h
      split at h
      · simp only [Option.some.injEq] at h; subst h; trivial
      · exact absurd h (by simp)
    | _ => simp [cstep] at h
  | wPushed p => simp only [cstep, Option.some.injEq] at h; subst h; trivial
  | dActive =>
    cases op with
    | delete k ts oip =>
      simp only [cstep] at h
      split at h
      · simp only [Option.some.injEq] at h; subst h; trivial
      · exact absurd h (by simp)
    | _ => simp [cstep] at h
  | dClosed n =>
    cases op with
    | delete k ts oip =>
      simp only [cstep, Option.some.injEq] at h
      subst h
      trivial
    | _ => simp [cstep] at h
  | rel r =>
    simp only [cstep, Option.some.injEq] at h
    subst h
    exact hd
  | ret r =>
    simp only [cstep, Option.some.injEq] at h
    subst h
    exact SeqResp.mono [Ev.res i r] hd
  | done r => simp [cstep] at h

/-- delete-free systems: every client's look-up is the sequential model's at its `look` event -/
def DInv (st0 : Store) (s : CState) : Prop :=
  ∀ i c, s.clients[i]? = some c → DCInv st0 s.store s.trace i c

theorem dinv_init (st : Store) (ops : List COp) : DInv st (init st ops) := by
  intro i c hc
  simp only [init, List.getElem?_map] at hc
  cases h : ops[i]? <;> simp [h] at hc
  subst hc; trivial

theorem dinv_fire {st0 : Store} {ops : List COp} {s s' : CState} {l : Label}
    (hdf : ∀ op ∈ ops, op.isDelete = false) (hi : Inv s) (ht : TInv st0 ops s) (hd : DInv st0 s)
    (h : fire l s = some s') : DInv st0 s' := by
  cases l with
  | step i =>
    simp only [fire] at h
    cases hci : s.clients[i]? with
    | none => simp [hci] at h
    | some c =>
      cases hco : cstep s.store s.landed s.blobLock i c with
      | none => simp [hci, hco] at h
      | some o =>
        simp only [hci, hco, Option.some.injEq] at h
        subst h
        have hlt : i < s.clients.length := by
          rcases Nat.lt_or_ge i s.clients.length with h1 | h1
          · exact h1
          · rw [List.getElem?_eq_none h1] at hci; cases hci
        have hne : ∀ k ts, o.eff ≠ .delC k ts := by
          intro k ts he
          obtain ⟨oip, n, h1, _⟩ := (cstep_facts2 hco).2 k ts he
          have := hdf c.op (List.mem_of_getElem? (ops_getElem? ht hci))
          rw [h1] at this
          cases this
        intro j cj hcj
        change (s.clients.set i _)[j]? = some cj at hcj
        show DCInv st0 (o.eff.store s.store) (o.eff.evs i ++ o.evs ++ s.trace) j cj
        by_cases hji : j = i
        · subst hji
          rw [List.getElem?_set_self hlt] at hcj
          cases hcj
          exact cstep_down ht.replay (hi.client c (List.mem_of_getElem? hci)) (hd j c hci) hco hne
        · rw [List.getElem?_set_ne (Ne.symm hji)] at hcj
          exact (hd j cj hcj).stable _ (fun _ => o.eff.closed_hist s.store hne)
  | rotate =>
    simp only [fire] at h
    split at h
    · rename_i hall
      simp only [Option.some.injEq] at h
      subst h
      rw [List.all_eq_true] at hall
      intro j cj hcj
      refine (hd j cj hcj).stable [Ev.rot] (fun hs => ?_)
      have := hall cj (List.mem_of_getElem? hcj)
      simp [hs] at this
    · exact absurd h (by simp)
  | dump =>
    simp only [fire, Option.some.injEq] at h
    subst h
    intro j cj hcj
    exact (hd j cj hcj).stable [Ev.dump] (fun _ => settle_closed_hist _)

theorem dinv_reach {st : Store} {ops : List COp} {s : CState} (hwf : st.WF) {a : Blob} (ha : st.active = some a)
    (hdf : ∀ op ∈ ops, op.isDelete = false) (h : Reach (init st ops) s) : DInv st s := by
  induction h with
  | refl => exact dinv_init st ops
  | step hr hs ih =>
    obtain ⟨l, hl⟩ := hs
    obtain ⟨hi, ht⟩ := tinv_reach hwf ha hr
    exact dinv_fire hdf hi ht ih hl


/-! ## 9. deciding the order relations on concrete traces -/

def Ev.isInv (j : Nat) : Ev → Bool
  | .inv j' _ => j == j'
  | _ => false

def Ev.isRes (i : Nat) : Ev → Bool
  | .res i' _ => i == i'
  | _ => false

def ackedB (i j : Nat) : List Ev → Bool
  | [] => false
  | e :: t => (e.isInv j && t.any (Ev.isRes i)) || ackedB i j t

theorem isInv_iff {j : Nat} {e : Ev} : e.isInv j = true ↔ ∃ op, e = .inv j op := by
  cases e <;> simp [Ev.isInv]
  exact eq_comm

theorem any_isRes_iff {i : Nat} {t : List Ev} : t.any (Ev.isRes i) = true ↔ ∃ r, Ev.res i r ∈ t := by
  rw [List.any_eq_true]
  constructor
  · rintro ⟨e, he, h⟩
    cases e <;> simp [Ev.isRes] at h
    subst h
    exact ⟨_, he⟩
  · rintro ⟨r, hr⟩
    exact ⟨_, hr, by simp [Ev.isRes]⟩

theorem ackedB_iff {i j : Nat} : ∀ {t : List Ev}, ackedB i j t = true ↔ AckedBefore i j t
  | [] => by simp [ackedB, AckedBefore]
  | e :: t => by
    simp only [ackedB, AckedBefore, Bool.or_eq_true, Bool.and_eq_true, isInv_iff, any_isRes_iff, ackedB_iff]

instance (i j : Nat) (t : List Ev) : Decidable (AckedBefore i j t) := decidable_of_iff _ ackedB_iff

def linB (i j : Nat) : List Ev → Bool
  | [] => false
  | e :: t => (e.linOf j && t.any (Ev.linOf i)) || linB i j t

theorem linB_iff {i j : Nat} : ∀ {t : List Ev}, linB i j t = true ↔ LinBefore i j t
  | [] => by simp [linB, LinBefore]
  | e :: t => by
    simp only [linB, LinBefore, Bool.or_eq_true, Bool.and_eq_true, List.any_eq_true, linB_iff]

instance (i j : Nat) (t : List Ev) : Decidable (LinBefore i j t) := decidable_of_iff _ linB_iff


/-! ## 10. the blob lock, progress, termination -/

/-- the program counter fits the operation -/
def Typed (c : Client) : Prop :=
  match c.pc with
  | .chk _ | .wStart | .wLocked | .wBlob | .wReserved | .wWritten | .wPushed _ => ∃ k ts d, c.op = .write k ts d
  | .dActive | .dClosed _ => ∃ k ts oip, c.op = .delete k ts oip
  | .lookA | .lookC _ _ => c.op.isDelete = false
  | _ => True

set_option linter.unusedSimpArgs false in
theorem cstep_typed {st : Store} {landed : List Rec} {bl : Option Nat} {i : Nat} {c : Client} {o : Out}
    (ht : Typed c) (h : cstep st landed bl i c = some o) :
    Typed { op := c.op, pc := o.pc, born := bornAfter st c } ∧
    (o.eff = .lockB → c.pc = .wLocked ∧ o.pc = .wBlob ∧ bl = none) ∧
    (o.eff = .unlockB → c.pc.holdsB = true ∧ o.pc.holdsB = false) ∧
    (o.eff ≠ .lockB → o.eff ≠ .unlockB → o.pc.holdsB = c.pc.holdsB) := by
  obtain ⟨op, pc, born⟩ := c
  cases pc <;> cases op <;> simp only [cstep] at h <;> (try split at h) <;>
    first
    | (simp only [Option.some.injEq] at h; subst h;
       simp [Typed, COp.isDelete, Pc.holdsB] at ht ⊢ <;> (try split) <;> simp_all [Typed, COp.isDelete, Pc.holdsB])
    | simp at h

/-- a client that is not finished can move unless it waits for the blob lock -/
theorem cstep_enabled {st : Store} {landed : List Rec} {bl : Option Nat} {i : Nat} {c : Client} {a : Blob}
    (ht : Typed c) (ha : st.active = some a) (hnd : ∀ r, c.pc ≠ .done r)
    (hb : bl = none ∨ (c.pc ≠ .wLocked ∧ c.pc ≠ .dActive)) :
    ∃ o, cstep st landed bl i c = some o := by
  obtain ⟨op, pc, born⟩ := c
  cases pc <;> cases op <;> simp [Typed, COp.isDelete] at ht <;> simp [cstep, ha] at hnd hb ⊢ <;>
    (try split) <;> simp_all

/-- the blob lock is held by exactly the client inside `Blob::write`'s critical section, and program counters
    fit the operations -/
structure BInv (s : CState) : Prop where
  typed : ∀ c ∈ s.clients, Typed c
  holder : ∀ x, s.blobLock = some x → ∃ c, s.clients[x]? = some c ∧ c.pc.holdsB = true
  inside : ∀ i c, s.clients[i]? = some c → c.pc.holdsB = true → s.blobLock = some i

theorem binv_init (st : Store) (ops : List COp) : BInv (init st ops) where
  typed := by
    intro c hc
    simp only [init, List.mem_map] at hc
    obtain ⟨op, _, rfl⟩ := hc
    trivial
  holder := by intro x h; simp [init] at h
  inside := by
    intro i c hc hb
    simp only [init, List.getElem?_map] at hc
    cases h : ops[i]? <;> simp [h] at hc
    subst hc; simp [Pc.holdsB] at hb

theorem binv_fire {s s' : CState} {l : Label} (hb : BInv s) (h : fire l s = some s') : BInv s' := by
  cases l with
  | step i =>
    simp only [fire] at h
    cases hci : s.clients[i]? with
    | none => simp [hci] at h
    | some c =>
      cases hco : cstep s.store s.landed s.blobLock i c with
      | none => simp [hci, hco] at h
      | some o =>
        simp only [hci, hco, Option.some.injEq] at h
        subst h
        have hlt : i < s.clients.length := by
          rcases Nat.lt_or_ge i s.clients.length with h1 | h1
          · exact h1
          · rw [List.getElem?_eq_none h1] at hci; cases hci
        obtain ⟨t1, t2, t3, t4⟩ := cstep_typed (hb.typed c (List.mem_of_getElem? hci)) hco
        have hself : (s.clients.set i { op := c.op, pc := o.pc, born := bornAfter s.store c })[i]? =
            some { op := c.op, pc := o.pc, born := bornAfter s.store c } := List.getElem?_set_self hlt
        have hne : ∀ j, j ≠ i → (s.clients.set i { op := c.op, pc := o.pc, born := bornAfter s.store c })[j]? =
            s.clients[j]? := fun j hj => List.getElem?_set_ne (Ne.symm hj)
        refine ⟨?_, ?_, ?_⟩
        · intro c' hc'
          rcases List.mem_or_eq_of_mem_set hc' with hc' | rfl
          · exact hb.typed c' hc'
          · exact t1
        · intro x hx
          change o.eff.blobLock i s.blobLock = some x at hx
          show ∃ c', (s.clients.set i _)[x]? = some c' ∧ _
          by_cases hl : o.eff = .lockB
          · obtain ⟨_, h2, _⟩ := t2 hl
            rw [hl] at hx
            simp only [Eff.blobLock, Option.some.injEq] at hx
            subst hx
            exact ⟨_, hself, by rw [h2]; rfl⟩
          · by_cases hu : o.eff = .unlockB
            · rw [hu] at hx; simp [Eff.blobLock] at hx
            · have hsame : o.eff.blobLock i s.blobLock = s.blobLock := by
                cases he : o.eff <;> simp_all [Eff.blobLock]
              rw [hsame] at hx
              obtain ⟨cx, hcx, hbx⟩ := hb.holder x hx
              by_cases hxi : x = i
              · subst hxi
                rw [hci] at hcx; cases hcx
                exact ⟨_, hself, by show o.pc.holdsB = true; rw [t4 hl hu]; exact hbx⟩
              · exact ⟨cx, by rw [hne x hxi]; exact hcx, hbx⟩
        · intro j cj hcj hbj
          change (s.clients.set i _)[j]? = some cj at hcj
          show o.eff.blobLock i s.blobLock = some j
          by_cases hl : o.eff = .lockB
          · obtain ⟨_, _, h3⟩ := t2 hl
            by_cases hji : j = i
            · subst hji; rw [hl]; rfl
            · rw [hne j hji] at hcj
              have := hb.inside j cj hcj hbj
              rw [h3] at this; cases this
          · by_cases hu : o.eff = .unlockB
            · obtain ⟨h1, h2⟩ := t3 hu
              by_cases hji : j = i
              · subst hji
                rw [hself] at hcj; cases hcj
                rw [h2] at hbj; cases hbj
              · rw [hne j hji] at hcj
                have hj := hb.inside j cj hcj hbj
                have hi' := hb.inside i c hci h1
                rw [hj] at hi'
                exact absurd (Option.some.inj hi') hji
            · have hsame : o.eff.blobLock i s.blobLock = s.blobLock := by
                cases he : o.eff <;> simp_all [Eff.blobLock]
              rw [hsame]
              by_cases hji : j = i
              · subst hji
                rw [hself] at hcj; cases hcj
                exact hb.inside j c hci (by rw [← t4 hl hu]; exact hbj)
              · rw [hne j hji] at hcj
                exact hb.inside j cj hcj hbj
  | rotate =>
    simp only [fire] at h
    split at h
    · simp only [Option.some.injEq] at h
      subst h
      exact ⟨hb.typed, hb.holder, hb.inside⟩
    · exact absurd h (by simp)
  | dump =>
    simp only [fire, Option.some.injEq] at h
    subst h
    exact ⟨hb.typed, hb.holder, hb.inside⟩

theorem binv_reach {st : Store} {ops : List COp} {s : CState} (h : Reach (init st ops) s) : BInv s := by
  induction h with
  | refl => exact binv_init st ops
  | step _ hs ih => obtain ⟨l, hl⟩ := hs; exact binv_fire ih hl

theorem fire_step_of_cstep {s : CState} {i : Nat} {c : Client} {o : Out} (hc : s.clients[i]? = some c)
    (ho : cstep s.store s.landed s.blobLock i c = some o) : ∃ s', fire (.step i) s = some s' := by
  simp [fire, hc, ho]

/-- remaining steps of a client -/
def Pc.weight : Pc → Nat
  | .idle => 17 | .start => 16 | .lookA => 15 | .lookC _ _ => 14 | .load _ => 13 | .chk _ => 13
  | .wStart => 12 | .wLocked => 11 | .wBlob => 10 | .wReserved => 9 | .wWritten => 8 | .wPushed _ => 7
  | .dActive => 15 | .dClosed _ => 14 | .rel _ => 3 | .ret _ => 2 | .done _ => 0

def measure (s : CState) : Nat := (s.clients.map (·.pc.weight)).sum

set_option linter.unusedSimpArgs false in
theorem cstep_weight {st : Store} {landed : List Rec} {bl : Option Nat} {i : Nat} {c : Client} {o : Out}
    (h : cstep st landed bl i c = some o) : o.pc.weight < c.pc.weight := by
  obtain ⟨op, pc, born⟩ := c
  cases pc <;> cases op <;> simp only [cstep] at h <;> (try split at h) <;>
    first
    | (simp only [Option.some.injEq] at h; subst h; simp [Pc.weight] <;> (try split) <;> simp [Pc.weight])
    | simp at h

theorem sum_map_set_lt {α} (f : α → Nat) : ∀ (l : List α) (i : Nat) (x y : α), l[i]? = some x → f y < f x →
    ((l.set i y).map f).sum < (l.map f).sum
  | [], _, _, _, h, _ => by simp at h
  | a :: l, 0, x, y, h, hlt => by
    simp only [List.getElem?_cons_zero, Option.some.injEq] at h
    subst h
    simp only [List.set_cons_zero, List.map_cons, List.sum_cons]
    omega
  | a :: l, i + 1, x, y, h, hlt => by
    simp only [List.getElem?_cons_succ] at h
    have := sum_map_set_lt f l i x y h hlt
    simp only [List.set_cons_succ, List.map_cons, List.sum_cons]
    omega

/-- a client step uses up one of the finitely many steps of the clients; the worker's steps use none -/
theorem measure_fire {s s' : CState} {l : Label} (h : fire l s = some s') :
    (∀ i, l = .step i → measure s' < measure s) ∧ (l = .rotate ∨ l = .dump → measure s' = measure s) := by
  cases l with
  | step i =>
    refine ⟨fun _ _ => ?_, fun h' => by rcases h' with h' | h' <;> cases h'⟩
    simp only [fire] at h
    cases hci : s.clients[i]? with
    | none => simp [hci] at h
    | some c =>
      cases hco : cstep s.store s.landed s.blobLock i c with
      | none => simp [hci, hco] at h
      | some o =>
        simp only [hci, hco, Option.some.injEq] at h
        subst h
        exact sum_map_set_lt (fun c => c.pc.weight) s.clients i c
          { op := c.op, pc := o.pc, born := bornAfter s.store c } hci (cstep_weight hco)
  | rotate =>
    refine ⟨fun i hi => (by cases hi), fun _ => ?_⟩
    simp only [fire] at h
    split at h
    · simp only [Option.some.injEq] at h; subst h; rfl
    · exact absurd h (by simp)
  | dump =>
    refine ⟨fun i hi => (by cases hi), fun _ => ?_⟩
    simp only [fire, Option.some.injEq] at h
    subst h; rfl


def Label.isStep : Label → Bool
  | .step _ => true
  | _ => false

theorem runSched_measure : ∀ (sched : List Label) (s s' : CState), runSched sched s = some s' →
    (sched.filter Label.isStep).length + measure s' ≤ measure s
  | [], s, s', h => by simp [runSched] at h; subst h; simp
  | l :: ls, s, s', h => by
    simp only [runSched] at h
    cases hf : fire l s with
    | none => simp [hf] at h
    | some s1 =>
      simp only [hf] at h
      have ih := runSched_measure ls s1 s' h
      have hm := measure_fire hf
      cases l with
      | step i =>
        have := hm.1 i rfl
        simp only [List.filter_cons, Label.isStep, if_true, List.length_cons]
        omega
      | rotate =>
        have := hm.2 (Or.inl rfl)
        simp only [List.filter_cons, Label.isStep]
        simp only [Bool.false_eq_true, if_false]
        omega
      | dump =>
        have := hm.2 (Or.inr rfl)
        simp only [List.filter_cons, Label.isStep]
        simp only [Bool.false_eq_true, if_false]
        omega

theorem measure_init (st : Store) (ops : List COp) : measure (init st ops) = 17 * ops.length := by
  have h : ∀ l : List COp,
      ((l.map (fun op => ({ op := op, pc := .idle, born := st } : Client))).map (·.pc.weight)).sum =
        17 * l.length := by
    intro l
    induction l with
    | nil => rfl
    | cons op l ih =>
      simp only [List.map_cons, List.sum_cons, List.length_cons, ih]
      show 17 + _ = _
      omega
  exact h ops

end ConcRW
end Pearl

