import Pearl.Proofs.ConcRW
import Pearl.Model.ConcBytes
/-
Helper lemmas for the second batch of read-side theorems of C08 (`Pearl/Props/C08.lean`):
1. (`Pearl.ConcRW`) the two-phase look-up of `read` / `contains` / the duplicate check: the invariant `RInv`
   records, against the trace, the two instants of every look-up (`TwoPhase`); every suffix of the trace is the trace
   of an earlier state (`reach_suffix`); two instants without a rotation in between (`norot_reach`);
2. (`Pearl.CrossDel`) two deletes whose phases cross are observationally one of the two sequential orders
   (`crossed_obs`): a list toolkit for `cutHdrs ∘ sortDesc` (`cut_sort_invisible`: what lies behind a marker does not
   matter), what `Blob::delete` does to a per-blob list (`dcut`), the combinatorial core on lists of per-blob lists
   (`cross_claim`, `cross_summaries`), and the passage to stores (`sm`, `mapBlobs`, `readAllMarked_eq_O`);
3. (`Pearl.ConcBytes`) the product of `Pearl.ConcRW` with the byte ranges of `Pearl.Append`
   (`Pearl/Model/ConcBytes.lean`): the byte-level invariant `BytesOK`, the link to the clients `PInv`, the layout
   invariant `LayInv` (size counters = `Fs.contentLen` + the write in flight) and `SeqInv` (the reservation of a
   stored write is the slot of its place).
-/
namespace Pearl
namespace ConcRW

/-! ## 1. the two-phase look-up -/

theorem latest_notFound_left (x : ReadResult Rec) : ReadResult.notFound.latest x = x := by
  cases x <;> simp [ReadResult.latest, ReadResult.ts?, optGt]

theorem latest_assoc (a b c : ReadResult Rec) : (a.latest b).latest c = a.latest (b.latest c) := by
  cases a <;> cases b <;> cases c <;> simp only [ReadResult.latest, ReadResult.ts?, optGt] <;>
    grind

theorem foldl_latest_acc {α} (f : α → ReadResult Rec) : ∀ (l : List α) (acc : ReadResult Rec),
    l.foldl (fun acc b => acc.latest (f b)) acc =
      acc.latest (l.foldl (fun acc b => acc.latest (f b)) .notFound)
  | [], acc => by simp [ReadResult.latest_notFound]
  | b :: l, acc => by
    simp only [List.foldl_cons]
    rw [foldl_latest_acc f l (acc.latest (f b)), foldl_latest_acc f l (ReadResult.notFound.latest (f b)),
      latest_notFound_left, latest_assoc]

/-- the second half of a look-up merges what the closed blobs answer into what the active blob answered -/
theorem lookClosed_split (st : Store) (k : Key) (acc : ReadResult Rec) :
    lookClosed st k acc = acc.latest (lookClosed st k .notFound) := by
  unfold lookClosed
  exact foldl_latest_acc _ _ _

/-- the first half of a look-up is the `Spec` answer on the active blob alone -/
theorem lookActive_eq_spec {st : Store} {a : Blob} (h : st.active = some a) (k : Key) :
    lookActive st k = (Spec.latest [a.hist] k).map (·.r) := by
  rw [lookActive_of_active h, latest_notFound_left, Spec.latest_eq, Spec.all_eq_sortedBy]
  exact a.getLatest_eq k

/-- the store without its active blob -/
def closedOnly (st : Store) : Store := { st with active := none }

theorem closedOnly_blobs (st : Store) : (closedOnly st).blobs = st.closed := by
  simp [closedOnly, Store.blobs, Store.closed]

theorem closedOnly_wf {st : Store} (hwf : st.WF) : (closedOnly st).WF := by
  have hsub : (closedOnly st).blobs.Sublist st.blobs := by
    rw [closedOnly_blobs]; exact List.sublist_append_left _ _
  refine ⟨hwf.1.sublist (hsub.map _), fun b hb => ?_⟩
  exact hwf.2 b (hsub.subset hb)

theorem lookClosed_closedOnly (st : Store) (k : Key) :
    lookClosed st k .notFound = (closedOnly st).getLatestEntry k none := by
  unfold lookClosed Store.getLatestEntry Store.getLatestEntryP
  simp only [Bool.not_false]
  rw [List.filter_eq_self.2 (fun _ _ => rfl)]
  simp [Store.visit, closedOnly, Store.closed]

/-- the second half of a look-up (from `NotFound`) is the `Spec` answer on the closed blobs alone -/
theorem lookClosed_eq_spec {st : Store} (hwf : st.WF) (k : Key) :
    lookClosed st k .notFound = (Spec.latest (st.closed.map Blob.hist) k).map (·.r) := by
  rw [lookClosed_closedOnly]
  have := read_eq_spec (closedOnly_wf hwf) k
  rw [Store.history_eq, closedOnly_blobs] at this
  exact this

/-- what is recorded about a completed two-phase look-up of client `i` for `op`: the trace (newest first) is
    `l1 ++ l2 ++ look i :: past`; INSTANT 1 (the look into the active blob) is the store after `past`, INSTANT 2
    (the look into the closed blobs) the store after `l2 ++ look i :: past`; the invocation lies in `past`, no
    rotation in `l2`; `a1`, `a2` are the active blob at the two instants -/
structure TwoPhase (st0 : Store) (tr : List Ev) (i : Nat) (op : COp) (res : ReadResult Rec) (fin : Option Resp)
    (l1 l2 past : List Ev) (a1 a2 : Blob) : Prop where
  split : tr = l1 ++ (l2 ++ Ev.look i :: past)
  inv : Ev.inv i op ∈ past
  noRot : Ev.rot ∉ l2
  fin : ∀ r, fin = some r → Ev.res i r ∈ l1
  wf1 : (replay st0 past).WF
  wf2 : (replay st0 (l2 ++ Ev.look i :: past)).WF
  act1 : (replay st0 past).active = some a1
  act2 : (replay st0 (l2 ++ Ev.look i :: past)).active = some a2
  ble : BLe a1 a2
  sub : Sub (replay st0 past) (hyb (replay st0 (l2 ++ Ev.look i :: past)) a1)
  res : res = lookClosed (replay st0 (l2 ++ Ev.look i :: past)) op.key (lookActive (replay st0 past) op.key)

def TwoPh (st0 : Store) (tr : List Ev) (i : Nat) (op : COp) (res : ReadResult Rec) (fin : Option Resp) : Prop :=
  ∃ l1 l2 past a1 a2, TwoPhase st0 tr i op res fin l1 l2 past a1 a2

theorem TwoPh.extend {st0 : Store} {tr : List Ev} {i : Nat} {op : COp} {res : ReadResult Rec}
    {fin fin' : Option Resp} (l : List Ev) (h : TwoPh st0 tr i op res fin)
    (hf : ∀ r, fin' = some r → Ev.res i r ∈ l ∨ fin = some r) : TwoPh st0 (l ++ tr) i op res fin' := by
  obtain ⟨l1, l2, past, a1, a2, h⟩ := h
  refine ⟨l ++ l1, l2, past, a1, a2, ?_, h.inv, h.noRot, ?_, h.wf1, h.wf2, h.act1, h.act2, h.ble, h.sub, h.res⟩
  · rw [h.split, List.append_assoc]
  · intro r hr
    rcases hf r hr with h1 | h1
    · exact List.mem_append_left _ h1
    · exact List.mem_append_right _ (h.fin r h1)

def TwoPhResp (st0 : Store) (tr : List Ev) (i : Nat) (op : COp) (fin : Option Resp) : Resp → Prop
  | .value res => TwoPh st0 tr i op res fin
  | .has x => ∃ res, x = res.map (·.ts) ∧ TwoPh st0 tr i op res fin
  | .wrote none => ∃ res, res.isFound = true ∧ TwoPh st0 tr i op res fin
  | _ => True

theorem TwoPhResp.extend {st0 : Store} {tr : List Ev} {i : Nat} {op : COp} {r : Resp}
    {fin fin' : Option Resp} (l : List Ev) (h : TwoPhResp st0 tr i op fin r)
    (hf : ∀ r, fin' = some r → Ev.res i r ∈ l ∨ fin = some r) : TwoPhResp st0 (l ++ tr) i op fin' r := by
  cases r with
  | value res => exact TwoPh.extend l h hf
  | has x => obtain ⟨res, h1, h2⟩ := h; exact ⟨res, h1, h2.extend l hf⟩
  | wrote p =>
    cases p with
    | none => obtain ⟨res, h1, h2⟩ := h; exact ⟨res, h1, h2.extend l hf⟩
    | some p => trivial
  | torn => trivial
  | deleted n => trivial

/-- what a client knows about its look-up, deletes or not -/
def RCInv2 (st0 st : Store) (tr : List Ev) (i : Nat) (c : Client) : Prop :=
  match c.pc with
  | .lookC _ snap =>
    ∃ l2 past a1, tr = l2 ++ Ev.look i :: past ∧ Ev.inv i c.op ∈ past ∧ Ev.rot ∉ l2 ∧ snap = replay st0 past ∧
      snap.WF ∧ snap.active = some a1 ∧ Sub snap (hyb st a1)
  | .load res => TwoPh st0 tr i c.op res none
  | .chk res => TwoPh st0 tr i c.op res none
  | .rel r => TwoPhResp st0 tr i c.op none r
  | .ret r => TwoPhResp st0 tr i c.op none r
  | .done r => TwoPhResp st0 tr i c.op (some r) r
  | _ => True

def RCInv (st0 st : Store) (tr : List Ev) (i : Nat) (c : Client) : Prop :=
  (c.pc ≠ .idle → Ev.inv i c.op ∈ tr) ∧ RCInv2 st0 st tr i c

/-- `RCInv` survives the steps of the others: events `l` without a rotation, and a store that continues the
    closed blobs in place (only needed while the client is between its two looks) -/
theorem RCInv.stable {st0 st st' : Store} {tr : List Ev} {i : Nat} {c : Client} (l : List Ev)
    (hl : c.pc.holdsS = true → Ev.rot ∉ l ∧ InPlace st st')
    (h : RCInv st0 st tr i c) : RCInv st0 st' (l ++ tr) i c := by
  obtain ⟨op, pc, born⟩ := c
  obtain ⟨h0, h⟩ := h
  refine ⟨fun hne => List.mem_append_right _ (h0 hne), ?_⟩
  unfold RCInv2 at h ⊢
  cases pc with
  | lookC acc snap =>
    obtain ⟨l2, past, a1, h1, h2, h3, h4, h5, h6, h7⟩ := h
    obtain ⟨hr, hp⟩ := hl rfl
    refine ⟨l ++ l2, past, a1, by rw [h1, List.append_assoc], h2, ?_, h4, h5, h6, h7.trans (hp.hyb_sub a1)⟩
    intro hm
    rcases List.mem_append.1 hm with hm | hm
    · exact hr hm
    · exact h3 hm
  | load res => exact TwoPh.extend l h (fun r hr => Or.inr hr)
  | chk res => exact TwoPh.extend l h (fun r hr => Or.inr hr)
  | rel r => exact TwoPhResp.extend l h (fun r hr => Or.inr hr)
  | ret r => exact TwoPhResp.extend l h (fun r hr => Or.inr hr)
  | done r => exact TwoPhResp.extend l h (fun r hr => Or.inr hr)
  | _ => trivial

/-- the step of a client re-establishes its `RCInv` -/
theorem cstep_two {st0 st : Store} {landed : List Rec} {bl : Option Nat} {i : Nat} {c : Client} {o : Out}
    {tr : List Ev} {a : Blob} (hrep : st = replay st0 tr) (hwf : st.WF) (ha : st.active = some a)
    (hc : CInv st landed c) (hd : RCInv st0 st tr i c) (h : cstep st landed bl i c = some o) :
    RCInv st0 (o.eff.store st) (o.eff.evs i ++ o.evs ++ tr) i
      { op := c.op, pc := o.pc, born := bornAfter st c } := by
  obtain ⟨hd0, hd⟩ := hd
  refine ⟨fun _ => ?_, ?_⟩
  · show Ev.inv i c.op ∈ o.eff.evs i ++ o.evs ++ tr
    by_cases hidle : c.pc = .idle
    · have := ((cstep_facts h).2.2.2.2.1 hidle).1
      rw [this]; simp
    · exact List.mem_append_right _ (hd0 hidle)
  obtain ⟨op, pc, born⟩ := c
  cases pc with
  | idle => simp only [cstep, Option.some.injEq] at h; subst h; trivial
  | start =>
    cases op <;> simp only [cstep, Option.some.injEq] at h <;> subst h
    · show RCInv2 _ _ _ _ { op := _, pc := if _ then _ else _, born := _ }
      split <;> trivial
    all_goals trivial
  | lookA =>
    simp only [cstep, Option.some.injEq] at h
    subst h
    exact ⟨[], tr, a, rfl, hd0 (by simp), by simp, hrep, hrep ▸ hwf, hrep ▸ ha, by
      show Sub st (hyb st a); rw [hyb_self ha]; exact Sub.refl _⟩
  | lookC acc snap =>
    obtain ⟨a1', act, h1, h2, h3, h4, h5⟩ := hc
    obtain ⟨l2, past, a1, g1, g2, g3, g4, g5, g6, g7⟩ := hd
    rw [h1] at g6; cases g6
    rw [ha] at h2; cases h2
    have hres : TwoPh st0 tr i op (lookClosed st op.key acc) none := by
      refine ⟨[], l2, past, a1', a, g1, g2, g3, by simp, g4 ▸ g5, ?_, g4 ▸ h1, ?_, h3, ?_, ?_⟩
      · rw [← g1, ← hrep]; exact hwf
      · rw [← g1, ← hrep]; exact ha
      · rw [← g1, ← hrep, ← g4]; exact g7
      · rw [← g1, ← hrep, ← g4, h4]
    cases op <;> simp only [cstep, Option.some.injEq] at h
    · subst h; exact hres
    · subst h; exact hres
    · subst h; exact ⟨_, rfl, hres⟩
    · exact absurd h (by simp)
  | load res =>
    have hd : TwoPh st0 tr i op res none := hd
    cases res with
    | found r =>
      simp only [cstep, Option.some.injEq] at h
      subst h
      show RCInv2 _ _ _ _ { op := _, pc := .rel (if _ then _ else _), born := _ }
      split
      · exact hd
      · trivial
    | deleted t => simp only [cstep, Option.some.injEq] at h; subst h; exact hd
    | notFound => simp only [cstep, Option.some.injEq] at h; subst h; exact hd
  | chk res =>
    have hd : TwoPh st0 tr i op res none := hd
    simp only [cstep, Option.some.injEq] at h
    subst h
    show RCInv2 _ _ _ _ { op := _, pc := if _ then _ else _, born := _ }
    split
    · rename_i hf; exact ⟨res, hf, hd⟩
    · trivial
  | wStart => simp only [cstep, Option.some.injEq] at h; subst h; trivial
  | wLocked =>
    simp only [cstep] at h
    split at h
    · simp only [Option.some.injEq] at h; subst h; trivial
    · exact absurd h (by simp)
  | wBlob => simp only [cstep, Option.some.injEq] at h; subst h; trivial
  | wReserved =>
    cases op <;> simp only [cstep, Option.some.injEq] at h
    · subst h; trivial
    all_goals exact absurd h (by simp)
  | wWritten =>
    cases op with
    | write k ts d =>
      simp only [cstep] at h
      split at h
      · simp only [Option.some.injEq] at h; subst h; trivial
      · exact absurd h (by simp)
    | _ => simp [cstep] at h
  | wPushed p => simp only [cstep, Option.some.injEq] at h; subst h; trivial
  | dActive =>
    cases op with
    | delete k ts oip =>
      simp only [cstep] at h
      split at h
      · simp only [Option.some.injEq] at h; subst h; trivial
      · exact absurd h (by simp)
    | _ => simp [cstep] at h
  | dClosed n =>
    cases op with
    | delete k ts oip =>
      simp only [cstep, Option.some.injEq] at h
      subst h
      trivial
    | _ => simp [cstep] at h
  | rel r =>
    simp only [cstep, Option.some.injEq] at h
    subst h
    exact hd
  | ret r =>
    simp only [cstep, Option.some.injEq] at h
    subst h
    exact TwoPhResp.extend [Ev.res i r] hd (fun r' hr' => by cases hr'; exact Or.inl (by simp))
  | done r => simp [cstep] at h

/-- every client's look-up, recorded against the trace -/
def RInv (st0 : Store) (s : CState) : Prop :=
  ∀ i c, s.clients[i]? = some c → RCInv st0 s.store s.trace i c

theorem rinv_init (st : Store) (ops : List COp) : RInv st (init st ops) := by
  intro i c hc
  simp only [init, List.getElem?_map] at hc
  cases h : ops[i]? <;> simp [h] at hc
  subst hc
  exact ⟨fun h => absurd rfl h, trivial⟩

theorem rinv_fire {st0 : Store} {ops : List COp} {s s' : CState} {l : Label}
    (hi : Inv s) (ht : TInv st0 ops s) (hd : RInv st0 s) (h : fire l s = some s') : RInv st0 s' := by
  obtain ⟨a, ha⟩ := hi.active
  cases l with
  | step i =>
    simp only [fire] at h
    cases hci : s.clients[i]? with
    | none => simp [hci] at h
    | some c =>
      cases hco : cstep s.store s.landed s.blobLock i c with
      | none => simp [hci, hco] at h
      | some o =>
        simp only [hci, hco, Option.some.injEq] at h
        subst h
        have hlt : i < s.clients.length := by
          rcases Nat.lt_or_ge i s.clients.length with h1 | h1
          · exact h1
          · rw [List.getElem?_eq_none h1] at hci; cases hci
        have hnr : Ev.rot ∉ o.eff.evs i ++ o.evs := by
          intro hm
          have := (cstep_facts3 hco).1 _ hm
          simp [Ev.client] at this
        intro j cj hcj
        change (s.clients.set i _)[j]? = some cj at hcj
        show RCInv st0 (o.eff.store s.store) (o.eff.evs i ++ o.evs ++ s.trace) j cj
        by_cases hji : j = i
        · subst hji
          rw [List.getElem?_set_self hlt] at hcj
          cases hcj
          exact cstep_two ht.replay hi.wf ha (hi.client c (List.mem_of_getElem? hci)) (hd j c hci) hco
        · rw [List.getElem?_set_ne (Ne.symm hji)] at hcj
          exact (hd j cj hcj).stable _ (fun _ => ⟨hnr, o.eff.inPlace ha⟩)
  | rotate =>
    simp only [fire] at h
    split at h
    · rename_i hall
      simp only [Option.some.injEq] at h
      subst h
      rw [List.all_eq_true] at hall
      intro j cj hcj
      refine (hd j cj hcj).stable [Ev.rot] (fun hs => ?_)
      have := hall cj (List.mem_of_getElem? hcj)
      simp [hs] at this
    · exact absurd h (by simp)
  | dump =>
    simp only [fire, Option.some.injEq] at h
    subst h
    intro j cj hcj
    exact (hd j cj hcj).stable [Ev.dump] (fun _ => ⟨by simp, inPlace_settle ha⟩)

theorem rinv_reach {st : Store} {ops : List COp} {s : CState} (hwf : st.WF) {a : Blob} (ha : st.active = some a)
    (h : Reach (init st ops) s) : RInv st s := by
  induction h with
  | refl => exact rinv_init st ops
  | step hr hs ih =>
    obtain ⟨l, hl⟩ := hs
    obtain ⟨hi, ht⟩ := tinv_reach hwf ha hr
    exact rinv_fire hi ht ih hl

/-! ### every suffix of the trace is the trace of an earlier state -/

theorem fire_trace {s s' : CState} {l : Label} (h : fire l s = some s') :
    s'.trace = s.trace ∨ ∃ e, s'.trace = e :: s.trace := by
  cases l with
  | step i =>
    simp only [fire] at h
    cases hci : s.clients[i]? with
    | none => simp [hci] at h
    | some c =>
      cases hco : cstep s.store s.landed s.blobLock i c with
      | none => simp [hci, hco] at h
      | some o =>
        simp only [hci, hco, Option.some.injEq] at h
        subst h
        rcases (cstep_facts3 hco).2.2.2.1 with h0 | ⟨e, h0⟩
        · left; show o.eff.evs i ++ o.evs ++ s.trace = _; rw [h0]; rfl
        · right; exact ⟨e, by show o.eff.evs i ++ o.evs ++ s.trace = _; rw [h0]; rfl⟩
  | rotate =>
    simp only [fire] at h
    split at h
    · simp only [Option.some.injEq] at h; subst h; exact Or.inr ⟨_, rfl⟩
    · exact absurd h (by simp)
  | dump =>
    simp only [fire, Option.some.injEq] at h
    subst h; exact Or.inr ⟨_, rfl⟩

theorem reach_suffix {s0 s : CState} (h0 : s0.trace = []) (h : Reach s0 s) :
    ∀ l t, s.trace = l ++ t → ∃ s1, Reach s0 s1 ∧ Reach s1 s ∧ s1.trace = t := by
  induction h with
  | refl =>
    intro l t hlt
    rw [h0] at hlt
    have : t = [] := (List.append_eq_nil_iff.1 hlt.symm).2
    exact ⟨s0, .refl, .refl, by rw [h0, this]⟩
  | step hr hs ih =>
    rename_i s s'
    obtain ⟨lb, hl⟩ := hs
    intro l t hlt
    rcases fire_trace hl with h1 | ⟨e, h1⟩
    · obtain ⟨s1, g1, g2, g3⟩ := ih l t (by rw [← h1]; exact hlt)
      exact ⟨s1, g1, .step g2 ⟨lb, hl⟩, g3⟩
    · cases l with
      | nil => exact ⟨s', .step hr ⟨lb, hl⟩, .refl, by simpa using hlt⟩
      | cons x l' =>
        rw [h1] at hlt
        simp only [List.cons_append, List.cons.injEq] at hlt
        obtain ⟨s1, g1, g2, g3⟩ := ih l' t hlt.2
        exact ⟨s1, g1, .step g2 ⟨lb, hl⟩, g3⟩

/-! ### what a completed two-phase look-up amounts to -/

namespace TwoPhase

variable {st0 : Store} {tr : List Ev} {i : Nat} {op : COp} {res : ReadResult Rec} {fin : Option Resp}
  {l1 l2 past : List Ev} {a1 a2 : Blob}

/-- the answer is the `Spec` answer on the HYBRID history: closed blobs as at instant 2, active blob as at
    instant 1 -/
theorem hybrid (h : TwoPhase st0 tr i op res fin l1 l2 past a1 a2) :
    res = (Spec.latest (((replay st0 (l2 ++ Ev.look i :: past)).closed ++ [a1]).map Blob.hist) op.key).map (·.r) := by
  rw [h.res, lookActive_of_active h.act1, lookClosed_hyb]
  have := read_eq_spec (hyb_wf h.wf2 h.act2 h.ble.1.symm) op.key
  rw [Store.history_eq, hyb_blobs] at this
  exact this

/-- bounded below by the store at instant 1, backed by the store at instant 2 -/
theorem resOK (h : TwoPhase st0 tr i op res fin l1 l2 past a1 a2) :
    ResOK (replay st0 past) (replay st0 (l2 ++ Ev.look i :: past)) op.key res := by
  rw [h.res, lookActive_of_active h.act1, lookClosed_hyb]
  exact (getLatestEntry_resOK (hyb_wf h.wf2 h.act2 h.ble.1.symm) op.key).mono h.sub (hyb_sub_self h.act2 h.ble)

theorem merged (h : TwoPhase st0 tr i op res fin l1 l2 past a1 a2) :
    res = (lookActive (replay st0 past) op.key).latest
      (lookClosed (replay st0 (l2 ++ Ev.look i :: past)) op.key .notFound) := by
  rw [h.res, lookClosed_split]

end TwoPhase

/-- on a well-formed store that holds a record of key `k`, the sequential answer classifies a record that is
    ranked at least as high as every record of the key -/
theorem top_bound {st : Store} (hwf : st.WF) {k : Key} {q : PRec} (hq : q ∈ History.positioned st.history)
    (hk : q.r.key = k) : ∃ top, Wit st k (st.read k none) top ∧
      ∀ p ∈ History.positioned st.history, p.r.key = k → rankLe top p = true := by
  have hrd : st.read k none = (Spec.latest st.history k).map (·.r) := read_eq_spec hwf k
  have hsorted := Spec.all_sorted st.history k hwf.history_nodup
  have hmem : ∀ p, p ∈ Spec.all st.history k ↔ p ∈ History.positioned st.history ∧ p.r.key = k := by
    intro p
    rw [Spec.all_eq_sortedBy, mem_sortedBy]
    simp
  rw [hrd, Spec.latest_eq]
  cases hh : (Spec.all st.history k).head? with
  | none =>
    rw [List.head?_eq_none_iff] at hh
    have := (hmem q).2 ⟨hq, hk⟩
    rw [hh] at this
    simp at this
  | some t =>
    obtain ⟨ht, hmax⟩ := RankSorted.of_head? hsorted hh
    obtain ⟨ht1, ht2⟩ := (hmem t).1 ht
    refine ⟨t, ⟨ht1, ht2, ?_⟩, fun p hp hpk => ?_⟩
    · simp only [classify]
      cases hd : t.r.del <;> simp [ReadResult.map, hd]
    · rcases hmax p ((hmem p).2 ⟨hp, hpk⟩) with rfl | h
      · rw [rankLe_iff]; exact rankBefore_irrefl _
      · rw [rankLe_iff]; exact rankBefore_asymm h

/-! ### two instants of a run with no rotation in between (the window of any guard of the storage lock) -/

theorem reach_trace_ext {s1 s2 : CState} (h : Reach s1 s2) : ∃ m, s2.trace = m ++ s1.trace := by
  induction h with
  | refl => exact ⟨[], rfl⟩
  | step _ hs ih =>
    obtain ⟨l, hl⟩ := hs
    obtain ⟨m, hm⟩ := ih
    rcases fire_trace hl with h1 | ⟨e, h1⟩
    · exact ⟨m, by rw [h1, hm]⟩
    · exact ⟨e :: m, by rw [h1, hm]; rfl⟩

/-- a step is a rotation, which shows in the trace, or continues the blobs in place -/
theorem fire_rot_or_inPlace {s s' : CState} {l : Label} (hi : Inv s) (h : fire l s = some s') :
    s'.trace = Ev.rot :: s.trace ∨
      (InPlace s.store s'.store ∧ ∃ m, s'.trace = m ++ s.trace ∧ Ev.rot ∉ m) := by
  obtain ⟨a, ha⟩ := hi.active
  cases l with
  | step i =>
    simp only [fire] at h
    cases hci : s.clients[i]? with
    | none => simp [hci] at h
    | some c =>
      cases hco : cstep s.store s.landed s.blobLock i c with
      | none => simp [hci, hco] at h
      | some o =>
        simp only [hci, hco, Option.some.injEq] at h
        subst h
        right
        refine ⟨o.eff.inPlace ha, o.eff.evs i ++ o.evs, rfl, ?_⟩
        intro hm
        have := (cstep_facts3 hco).1 _ hm
        simp [Ev.client] at this
  | rotate =>
    simp only [fire] at h
    split at h
    · simp only [Option.some.injEq] at h; subst h; exact Or.inl rfl
    · exact absurd h (by simp)
  | dump =>
    simp only [fire, Option.some.injEq] at h
    subst h
    exact Or.inr ⟨inPlace_settle ha, [Ev.dump], rfl, by simp⟩

/-- between two instants without a rotation the active blob is the same blob, grown, and everything the store held
    at the first instant is held by "closed blobs of the second instant + active blob of the first" -/
theorem norot_reach {s1 s2 : CState} (hi : Inv s1) (h : Reach s1 s2) :
    ∀ l2, s2.trace = l2 ++ s1.trace → Ev.rot ∉ l2 → ∀ a1, s1.store.active = some a1 →
      ∃ a2, s2.store.active = some a2 ∧ BLe a1 a2 ∧ Sub s1.store (hyb s2.store a1) := by
  induction h with
  | refl =>
    intro l2 _ _ a1 ha1
    exact ⟨a1, ha1, BLe.refl a1, by rw [hyb_self ha1]; exact Sub.refl _⟩
  | step hr hs ih =>
    rename_i s2 s3
    obtain ⟨l, hl⟩ := hs
    intro l3 ht hnr a1 ha1
    obtain ⟨m, hm⟩ := reach_trace_ext hr
    rcases fire_rot_or_inPlace (inv_reach hi hr) hl with h1 | ⟨hip, m', h1, hm'⟩
    · exfalso
      rw [h1, hm, ← List.cons_append] at ht
      have := List.append_cancel_right ht
      exact hnr (by rw [← this]; simp)
    · rw [h1, hm, ← List.append_assoc] at ht
      have hl3 := List.append_cancel_right ht
      obtain ⟨a2, ha2, hble, hsub⟩ := ih m hm (fun hx => hnr (by rw [← hl3]; simp [hx])) a1 ha1
      obtain ⟨x, x', hx, hx', hstep⟩ := hip.active
      rw [ha2] at hx; cases hx
      exact ⟨x', hx', hble.trans (.of_step hstep), hsub.trans (hip.hyb_sub a1)⟩

end ConcRW

/-! ## 2. two deletes whose phases cross, observationally -/
namespace CrossDel

open Store (insertDesc sortDesc)

/-! ### list toolkit: `cutHdrs`, `insertDesc`, `sortDesc` -/

theorem cutHdrs_idem : ∀ l : List Rec, cutHdrs (cutHdrs l) = cutHdrs l
  | [] => rfl
  | r :: rs => by
    by_cases h : r.del = true
    · simp [cutHdrs, h]
    · simp only [cutHdrs, h]; simp only [Bool.false_eq_true, if_false, cutHdrs, h, cutHdrs_idem rs]

theorem cutHdrs_append_del (X Y : List Rec) {m : Rec} (hm : m.del = true) :
    cutHdrs (X ++ m :: Y) = cutHdrs (X ++ [m]) := by
  induction X with
  | nil => simp [cutHdrs, hm]
  | cons x X ih =>
    simp only [List.cons_append, cutHdrs]
    split
    · rfl
    · rw [ih]

theorem cutHdrs_head? (l : List Rec) : (cutHdrs l).head? = l.head? := by
  cases l with
  | nil => rfl
  | cons r rs => simp only [cutHdrs]; split <;> rfl

theorem insertDesc_eq_takeWhile (x : Rec) : ∀ U : List Rec,
    insertDesc x U = U.takeWhile (fun y => decide (x.ts < y.ts)) ++ x :: U.dropWhile (fun y => decide (x.ts < y.ts))
  | [] => rfl
  | y :: ys => by
    simp only [insertDesc, List.takeWhile_cons, List.dropWhile_cons]
    by_cases h : x.ts ≥ y.ts
    · have : ¬ x.ts < y.ts := by omega
      simp [h, this]
    · have : x.ts < y.ts := by omega
      simp [h, this, insertDesc_eq_takeWhile x ys]

/-- what survives the cut after an insertion depends only on what survived the cut before -/
theorem cutHdrs_insertDesc (p : Rec) : ∀ U : List Rec, cutHdrs (insertDesc p U) = cutHdrs (insertDesc p (cutHdrs U))
  | [] => rfl
  | u :: U => by
    by_cases h : p.ts ≥ u.ts
    · by_cases hu : u.del = true
      · simp [insertDesc, cutHdrs, h, hu]
      · simp [insertDesc, cutHdrs, h, hu, cutHdrs_idem]
    · by_cases hu : u.del = true
      · simp [insertDesc, cutHdrs, h, hu]
      · simp only [insertDesc, cutHdrs, h, hu, if_false, Bool.false_eq_true]
        rw [cutHdrs_insertDesc p U]

theorem cutHdrs_foldr_insertDesc (P : List Rec) {S S' : List Rec} (h : cutHdrs S = cutHdrs S') :
    cutHdrs (P.foldr insertDesc S) = cutHdrs (P.foldr insertDesc S') := by
  induction P with
  | nil => exact h
  | cons p P ih =>
    simp only [List.foldr_cons]
    rw [cutHdrs_insertDesc, ih, ← cutHdrs_insertDesc]

theorem sortDesc_append (P Q : List Rec) : sortDesc (P ++ Q) = P.foldr insertDesc (sortDesc Q) := by
  unfold sortDesc; rw [List.foldr_append]

theorem sortDesc_cons (x : Rec) (Q : List Rec) : sortDesc (x :: Q) = insertDesc x (sortDesc Q) := rfl

theorem mem_sortDesc {L : List Rec} {r : Rec} : r ∈ sortDesc L ↔ r ∈ L := by
  rw [sortDesc_eq]; exact (sortDescBy_perm _ _).mem_iff

theorem insertDesc_append_hi {t : Nat} {x : Rec} (hx : t < x.ts) : ∀ (S1 S2 : List Rec), (∀ y ∈ S2, y.ts ≤ t) →
    insertDesc x (S1 ++ S2) = insertDesc x S1 ++ S2
  | [], [], _ => rfl
  | [], y :: S2, h => by
    have := h y (by simp)
    have h' : x.ts ≥ y.ts := by omega
    simp [insertDesc, h']
  | s :: S1, S2, h => by
    simp only [List.cons_append, insertDesc]
    split
    · rfl
    · rw [insertDesc_append_hi hx S1 S2 h]; rfl

theorem insertDesc_append_lo {t : Nat} {x : Rec} (hx : x.ts ≤ t) : ∀ (S1 S2 : List Rec), (∀ y ∈ S1, t < y.ts) →
    insertDesc x (S1 ++ S2) = S1 ++ insertDesc x S2
  | [], _, _ => rfl
  | s :: S1, S2, h => by
    have := h s (by simp)
    have h' : ¬ x.ts ≥ s.ts := by omega
    simp only [List.cons_append, insertDesc, h', if_false]
    rw [insertDesc_append_lo hx S1 S2 (fun y hy => h y (by simp [hy]))]

/-- a stable sort splits at any threshold -/
theorem sortDesc_split (t : Nat) : ∀ L : List Rec,
    sortDesc L = sortDesc (L.filter (fun r => decide (t < r.ts))) ++
      sortDesc (L.filter (fun r => !decide (t < r.ts)))
  | [] => rfl
  | x :: L => by
    have ih := sortDesc_split t L
    have h1 : ∀ y ∈ sortDesc (L.filter (fun r => decide (t < r.ts))), t < y.ts := by
      intro y hy
      have := (List.mem_filter.1 (mem_sortDesc.1 hy)).2
      simpa using this
    have h2 : ∀ y ∈ sortDesc (L.filter (fun r => !decide (t < r.ts))), y.ts ≤ t := by
      intro y hy
      have := (List.mem_filter.1 (mem_sortDesc.1 hy)).2
      simp at this; omega
    by_cases hx : t < x.ts
    · rw [List.filter_cons_of_pos (by simpa using hx), List.filter_cons_of_neg (by simpa using hx),
        sortDesc_cons, sortDesc_cons, ih, insertDesc_append_hi hx _ _ h2]
    · rw [List.filter_cons_of_neg (by simpa using hx), List.filter_cons_of_pos (by simpa using hx),
        sortDesc_cons, sortDesc_cons, ih, insertDesc_append_lo (by omega) _ _ h1]

theorem takeWhile_append_all {α} (p : α → Bool) : ∀ (l1 l2 : List α), (∀ a ∈ l1, p a = true) →
    (∀ a ∈ l2, p a = false) → (l1 ++ l2).takeWhile p = l1
  | [], [], _, _ => rfl
  | [], b :: l2, _, h2 => by simp [h2 b (by simp)]
  | a :: l1, l2, h1, h2 => by
    simp only [List.cons_append, List.takeWhile_cons, h1 a (by simp), if_true]
    rw [takeWhile_append_all p l1 l2 (fun x hx => h1 x (by simp [hx])) h2]

theorem takeWhile_sortDesc (t : Nat) (L : List Rec) :
    (sortDesc L).takeWhile (fun r => decide (t < r.ts)) = sortDesc (L.filter (fun r => decide (t < r.ts))) := by
  rw [sortDesc_split t L]
  apply takeWhile_append_all
  · intro y hy
    exact (List.mem_filter.1 (mem_sortDesc.1 hy)).2
  · intro y hy
    have := (List.mem_filter.1 (mem_sortDesc.1 hy)).2
    simpa using this

/-- the cut after inserting a marker -/
theorem cutHdrs_insertDesc_del {m : Rec} (hm : m.del = true) (W : List Rec) :
    cutHdrs (insertDesc m W) = cutHdrs (W.takeWhile (fun r => decide (m.ts < r.ts)) ++ [m]) := by
  rw [insertDesc_eq_takeWhile, cutHdrs_append_del _ _ hm]

/-- INVISIBILITY: behind a marker `m`, what is not newer than `m` does not matter -/
theorem cut_sort_invisible (X : List Rec) {m : Rec} (hm : m.del = true) {Y Y' : List Rec}
    (h : Y.filter (fun r => decide (m.ts < r.ts)) = Y'.filter (fun r => decide (m.ts < r.ts))) :
    cutHdrs (sortDesc (X ++ m :: Y)) = cutHdrs (sortDesc (X ++ m :: Y')) := by
  rw [sortDesc_append, sortDesc_append, sortDesc_cons, sortDesc_cons]
  apply cutHdrs_foldr_insertDesc
  rw [cutHdrs_insertDesc_del hm, cutHdrs_insertDesc_del hm, takeWhile_sortDesc, takeWhile_sortDesc, h]

/-- an element older than everything that survives the cut, which ends in a marker, changes nothing -/
theorem cutHdrs_insertDesc_low {z : Rec} {S : List Rec} (h1 : ∀ e ∈ cutHdrs S, z.ts < e.ts)
    (h2 : ∃ μ ∈ cutHdrs S, μ.del = true) : cutHdrs (insertDesc z S) = cutHdrs S := by
  induction S with
  | nil => obtain ⟨μ, hμ, _⟩ := h2; cases hμ
  | cons s S ih =>
    by_cases hs : s.del = true
    · have hlt : z.ts < s.ts := h1 s (by simp [cutHdrs, hs])
      have : ¬ z.ts ≥ s.ts := by omega
      simp [insertDesc, cutHdrs, this, hs]
    · have hc : cutHdrs (s :: S) = s :: cutHdrs S := by simp [cutHdrs, hs]
      rw [hc] at h1 h2
      have hlt : z.ts < s.ts := h1 s (by simp)
      have : ¬ z.ts ≥ s.ts := by omega
      simp only [insertDesc, this, if_false, cutHdrs, hs, Bool.false_eq_true]
      rw [ih (fun e he => h1 e (by simp [he]))]
      obtain ⟨μ, hμ, hd⟩ := h2
      rcases List.mem_cons.1 hμ with rfl | hμ
      · exact absurd hd hs
      · exact ⟨μ, hμ, hd⟩

/-- inserting a second copy of the marker that ends the cut changes nothing -/
theorem cutHdrs_insertDesc_same {m : Rec} (hm : m.del = true) : ∀ T : List Rec, (∀ e ∈ T, m.ts < e.ts) →
    cutHdrs (insertDesc m (cutHdrs (T ++ [m]))) = cutHdrs (T ++ [m])
  | [], _ => by simp [cutHdrs, insertDesc, hm]
  | e :: T, h => by
    have hlt := h e (by simp)
    have hge : ¬ m.ts ≥ e.ts := by omega
    by_cases he : e.del = true
    · simp [cutHdrs, insertDesc, he, hge]
    · simp only [List.cons_append, cutHdrs, he, Bool.false_eq_true, if_false, insertDesc, hge]
      rw [cutHdrs_insertDesc_same hm T (fun x hx => h x (by simp [hx]))]

/-! ### per-blob lists and what a delete does to them -/

/-- a per-blob list as `get_all_with_deletion_marker` returns it: newest first, nothing behind a marker -/
structure Valid (c : List Rec) : Prop where
  cut : cutHdrs c = c
  desc : c.Pairwise (fun a b => b.ts ≤ a.ts)

/-- the key is live in the blob: its newest header is not a marker -/
def live (c : List Rec) : Bool :=
  match c.head? with
  | some r => !r.del
  | none => false

/-- the per-blob list after a marker with timestamp `t` was pushed -/
def D (k : Key) (t : Nat) (c : List Rec) : List Rec :=
  cutHdrs (c.takeWhile (fun r => decide (t < r.ts)) ++ [Store.marker k t none])

/-- the per-blob list after `Blob::delete` -/
def dcut (k : Key) (t : Nat) (oip : Bool) (c : List Rec) : List Rec :=
  if !oip || live c then D k t c else c

/-- the list ends in a marker with timestamp at least `s` -/
def HasMk (s : Nat) (c : List Rec) : Prop := ∃ K μ, c = K ++ [μ] ∧ μ.del = true ∧ s ≤ μ.ts

theorem valid_nil : Valid [] := ⟨rfl, .nil⟩

theorem Valid.of_cons {r : Rec} {c : List Rec} (h : Valid (r :: c)) :
    (r.del = true → c = []) ∧ (r.del = false → Valid c) ∧ ∀ x ∈ c, x.ts ≤ r.ts := by
  have hd := List.pairwise_cons.1 h.desc
  refine ⟨fun hr => ?_, fun hr => ⟨?_, hd.2⟩, hd.1⟩
  · have := h.cut
    simp only [cutHdrs, hr, if_true] at this
    simpa using this.symm
  · have := h.cut
    simp only [cutHdrs, hr, Bool.false_eq_true, if_false, List.cons.injEq, true_and] at this
    exact this

theorem cutHdrs_sublist : ∀ l : List Rec, (cutHdrs l).Sublist l
  | [] => .slnil
  | r :: rs => by
    simp only [cutHdrs]
    split
    · exact (List.nil_sublist rs).cons_cons r
    · exact (cutHdrs_sublist rs).cons_cons r

theorem valid_cutHdrs {l : List Rec} (h : l.Pairwise (fun a b => b.ts ≤ a.ts)) : Valid (cutHdrs l) :=
  ⟨cutHdrs_idem l, h.sublist (cutHdrs_sublist l)⟩

theorem cutHdrs_snoc_del {m : Rec} (hm : m.del = true) : ∀ L : List Rec,
    ∃ K μ, cutHdrs (L ++ [m]) = K ++ [μ] ∧ μ.del = true ∧ (μ = m ∨ μ ∈ L) ∧ (∀ r ∈ K, r ∈ L ∧ r.del = false)
  | [] => ⟨[], m, by simp [cutHdrs, hm], hm, Or.inl rfl, by simp⟩
  | x :: L => by
    by_cases hx : x.del = true
    · exact ⟨[], x, by simp [cutHdrs, hx], hx, Or.inr (by simp), by simp⟩
    · obtain ⟨K, μ, h1, h2, h3, h4⟩ := cutHdrs_snoc_del hm L
      refine ⟨x :: K, μ, by simp [cutHdrs, hx, h1], h2, ?_, ?_⟩
      · rcases h3 with h3 | h3
        · exact Or.inl h3
        · exact Or.inr (by simp [h3])
      · intro r hr
        rcases List.mem_cons.1 hr with rfl | hr
        · exact ⟨by simp, by simpa using hx⟩
        · exact ⟨by simp [(h4 r hr).1], (h4 r hr).2⟩

theorem marker_del (k : Key) (t : Nat) : (Store.marker k t none).del = true := rfl
theorem marker_ts (k : Key) (t : Nat) : (Store.marker k t none).ts = t := rfl

theorem D_valid {c : List Rec} (h : Valid c) (k : Key) (t : Nat) : Valid (D k t c) := by
  apply valid_cutHdrs
  rw [List.pairwise_append]
  refine ⟨h.desc.sublist (List.takeWhile_sublist _), by simp, ?_⟩
  intro a ha b hb
  have := of_mem_takeWhile _ ha
  simp only [List.mem_singleton] at hb
  subst hb
  simp only [decide_eq_true_eq] at this
  rw [marker_ts]; omega

theorem mem_D {k : Key} {t : Nat} {c : List Rec} {x : Rec} (h : x ∈ D k t c) : t ≤ x.ts := by
  have := (cutHdrs_sublist _).subset h
  rcases List.mem_append.1 this with h1 | h1
  · have := of_mem_takeWhile _ h1
    simp only [decide_eq_true_eq] at this; omega
  · simp only [List.mem_singleton] at h1; subst h1; rw [marker_ts]; exact Nat.le_refl _

theorem D_hasMk (k : Key) (t : Nat) (c : List Rec) : HasMk t (D k t c) := by
  obtain ⟨K, μ, h1, h2, _, _⟩ := cutHdrs_snoc_del (marker_del k t) (c.takeWhile (fun r => decide (t < r.ts)))
  refine ⟨K, μ, h1, h2, ?_⟩
  have : μ ∈ D k t c := by unfold D; rw [h1]; simp
  exact mem_D this

theorem live_D {k : Key} {t : Nat} {c : List Rec} :
    live (D k t c) = true ↔ ∃ r, c.head? = some r ∧ r.del = false ∧ t < r.ts := by
  unfold live D
  rw [cutHdrs_head?]
  cases c with
  | nil => simp [Store.marker]
  | cons r c =>
    by_cases h : t < r.ts
    · simp [h]
    · simp [h, Store.marker]

theorem D_of_le {k : Key} {t : Nat} {r : Rec} {c : List Rec} (h : r.ts ≤ t) :
    D k t (r :: c) = [Store.marker k t none] := by
  have : ¬ t < r.ts := by omega
  simp [D, this, cutHdrs, marker_del]

/-- a delete does not change what is newer than its marker -/
theorem filter_D {k : Key} {t s : Nat} (hts : t ≤ s) : ∀ {c : List Rec}, Valid c →
    (D k t c).filter (fun r => decide (s < r.ts)) = c.filter (fun r => decide (s < r.ts))
  | [], _ => by
    have : ¬ s < t := by omega
    simp [D, cutHdrs, marker_del, marker_ts, this]
  | r :: c, h => by
    obtain ⟨h1, h2, h3⟩ := h.of_cons
    by_cases hr : t < r.ts
    · by_cases hd : r.del = true
      · rw [h1 hd]
        simp [D, hr, cutHdrs, hd]
      · have hd' : r.del = false := by simpa using hd
        have : D k t (r :: c) = r :: D k t c := by
          simp [D, hr, cutHdrs, hd']
        rw [this, List.filter_cons, List.filter_cons, filter_D hts (h2 hd')]
    · rw [D_of_le (by omega)]
      have h4 : ¬ s < t := by omega
      have h5 : (r :: c).filter (fun r => decide (s < r.ts)) = [] := by
        rw [List.filter_eq_nil_iff]
        intro x hx
        rcases List.mem_cons.1 hx with rfl | hx
        · simp; omega
        · have := h3 x hx; simp; omega
      rw [h5]
      simp [marker_ts, h4]

theorem dcut_valid {c : List Rec} (h : Valid c) (k : Key) (t : Nat) (oip : Bool) : Valid (dcut k t oip c) := by
  unfold dcut; split
  · exact D_valid h k t
  · exact h

theorem filter_dcut {k : Key} {t s : Nat} (hts : t ≤ s) (oip : Bool) {c : List Rec} (h : Valid c) :
    (dcut k t oip c).filter (fun r => decide (s < r.ts)) = c.filter (fun r => decide (s < r.ts)) := by
  unfold dcut; split
  · exact filter_D hts h
  · rfl

theorem cutHdrs_takeWhile_cutHdrs (p : Rec → Bool) (Z : List Rec) : ∀ L : List Rec,
    cutHdrs ((cutHdrs L).takeWhile p ++ Z) = cutHdrs (L.takeWhile p ++ Z)
  | [] => rfl
  | r :: L => by
    by_cases hd : r.del = true
    · by_cases hp : p r = true
      · simp [cutHdrs, hd, hp]
      · simp [cutHdrs, hd, hp]
    · by_cases hp : p r = true
      · simp only [cutHdrs, hd, Bool.false_eq_true, if_false, List.takeWhile_cons, hp, if_true, List.cons_append]
        rw [cutHdrs_takeWhile_cutHdrs p Z L]
      · simp [cutHdrs, hd, hp]

theorem takeWhile_takeWhile_snoc {α} {p q : α → Bool} {z : α} (hpq : ∀ x, p x = true → q x = true)
    (hz : p z = false) : ∀ l : List α, (l.takeWhile q ++ [z]).takeWhile p = l.takeWhile p
  | [] => by simp [List.takeWhile, hz]
  | x :: l => by
    by_cases hq : q x = true
    · by_cases hp : p x = true
      · simp only [List.takeWhile_cons, hq, if_true, List.cons_append, hp]
        rw [takeWhile_takeWhile_snoc hpq hz l]
      · simp [hq, hp]
    · have hp : ¬ p x = true := fun h => hq (hpq x h)
      simp [hq, hp, hz]

/-- a later delete with a smaller timestamp adds nothing visible -/
theorem D_D_lt {k : Key} {a b : Nat} (hab : a < b) (c : List Rec) : D k a (D k b c) = D k b c := by
  obtain ⟨K, μ, h1, h2, _⟩ := D_hasMk k b c
  have hall : (D k b c).takeWhile (fun r => decide (a < r.ts)) = D k b c := by
    have := takeWhile_append_all (fun r : Rec => decide (a < r.ts)) (D k b c) []
      (fun x hx => by have := mem_D hx; simp; omega) (by simp)
    simpa using this
  have hcut : cutHdrs (D k b c) = D k b c := by unfold D; exact cutHdrs_idem _
  show cutHdrs ((D k b c).takeWhile _ ++ _) = _
  rw [hall]
  conv => lhs; rw [h1, List.append_assoc]; simp only [List.singleton_append]
  rw [cutHdrs_append_del _ _ h2, ← h1, hcut]

/-- a later delete with a greater timestamp hides the earlier one -/
theorem D_D_gt {k : Key} {a b : Nat} (hab : a < b) (c : List Rec) : D k b (D k a c) = D k b c := by
  show cutHdrs ((cutHdrs _).takeWhile _ ++ _) = _
  rw [cutHdrs_takeWhile_cutHdrs, takeWhile_takeWhile_snoc]
  · rfl
  · intro x hx
    simp only [decide_eq_true_eq] at hx ⊢; omega
  · show decide (b < (Store.marker k a none).ts) = false
    rw [marker_ts]; simp; omega

theorem valid_not_live {c : List Rec} (h : Valid c) (hl : live c = false) :
    c = [] ∨ ∃ μ, c = [μ] ∧ μ.del = true := by
  cases c with
  | nil => exact Or.inl rfl
  | cons r c =>
    have hd : r.del = true := by simpa [live] using hl
    exact Or.inr ⟨r, by rw [h.of_cons.1 hd], hd⟩

theorem hasMk_D {k : Key} {t s : Nat} : ∀ {c : List Rec}, Valid c → HasMk s c → HasMk s (D k t c)
  | [], _, h => by obtain ⟨K, μ, h1, _⟩ := h; cases K <;> cases h1
  | r :: c, hv, h => by
    obtain ⟨h1, h2, h3⟩ := hv.of_cons
    obtain ⟨K, μ, e, hμ, hs⟩ := h
    by_cases hd : r.del = true
    · have hc := h1 hd
      subst hc
      have : K = [] ∧ μ = r := by
        cases K with
        | nil => simp at e; exact ⟨rfl, e.symm⟩
        | cons x K => cases K <;> simp at e
      obtain ⟨rfl, rfl⟩ := this
      by_cases hr : t < μ.ts
      · exact ⟨[], μ, by simp [D, hr, cutHdrs, hd], hd, hs⟩
      · rw [D_of_le (by omega)]
        exact ⟨[], _, rfl, marker_del k t, by rw [marker_ts]; omega⟩
    · have hd' : r.del = false := by simpa using hd
      have hK : ∃ K', K = r :: K' ∧ c = K' ++ [μ] := by
        cases K with
        | nil => simp at e; rw [e.1] at hd; exact absurd hμ hd
        | cons x K' => simp at e; exact ⟨K', by rw [e.1], e.2⟩
      obtain ⟨K', rfl, hc⟩ := hK
      by_cases hr : t < r.ts
      · obtain ⟨K2, μ2, e2, g1, g2⟩ := hasMk_D (k := k) (t := t) (h2 hd') ⟨K', μ, hc, hμ, hs⟩
        refine ⟨r :: K2, μ2, ?_, g1, g2⟩
        have : D k t (r :: c) = r :: D k t c := by simp [D, hr, cutHdrs, hd']
        rw [this, e2]; rfl
      · rw [D_of_le (by omega)]
        have : μ.ts ≤ r.ts := h3 μ (by rw [hc]; simp)
        exact ⟨[], _, rfl, marker_del k t, by rw [marker_ts]; omega⟩

theorem hasMk_dcut {k : Key} {t s : Nat} {oip : Bool} {c : List Rec} (hv : Valid c) (h : HasMk s c) :
    HasMk s (dcut k t oip c) := by
  unfold dcut; split
  · exact hasMk_D hv h
  · exact h

theorem live_head {c : List Rec} (h : live c = true) : ∃ r c', c = r :: c' ∧ r.del = false := by
  cases c with
  | nil => simp [live] at h
  | cons r c' => exact ⟨r, c', rfl, by simpa [live] using h⟩

/-- the two orders of two `only_if_presented` deletes on one blob, `ts0 < ts1` -/
theorem dcut_dichotomy {k : Key} {ts0 ts1 : Nat} (h01 : ts0 < ts1) (c : List Rec) :
    (live c = false → dcut k ts0 true (dcut k ts1 true c) = c ∧ dcut k ts1 true (dcut k ts0 true c) = c) ∧
    (live c = true → dcut k ts0 true (dcut k ts1 true c) = D k ts1 c ∧
      (dcut k ts1 true (dcut k ts0 true c) = D k ts1 c ∨
        dcut k ts0 true (dcut k ts1 true c) = [Store.marker k ts1 none])) := by
  constructor
  · intro hl
    simp [dcut, hl]
  · intro hl
    obtain ⟨r, c', rfl, hr⟩ := live_head hl
    have e1 : dcut k ts1 true (r :: c') = D k ts1 (r :: c') := by simp [dcut, hl]
    have e0 : dcut k ts0 true (r :: c') = D k ts0 (r :: c') := by simp [dcut, hl]
    have hx : dcut k ts0 true (D k ts1 (r :: c')) = D k ts1 (r :: c') := by
      unfold dcut; split
      · exact D_D_lt h01 _
      · rfl
    refine ⟨by rw [e1, hx], ?_⟩
    rw [e0, e1, hx]
    by_cases hlt : ts0 < r.ts
    · left
      have : live (D k ts0 (r :: c')) = true := live_D.2 ⟨r, rfl, hr, hlt⟩
      simp only [dcut, this, Bool.or_true, if_true]
      exact D_D_gt h01 _
    · right
      exact D_of_le (by omega)

theorem filter_cross {k : Key} {ts0 ts1 s : Nat} (h0 : ts0 ≤ s) (h1 : ts1 ≤ s) : ∀ {Cs : List (List Rec)},
    (∀ c ∈ Cs, Valid c) →
    ((Cs.map (fun c => dcut k ts0 true (dcut k ts1 true c))).flatten).filter (fun r => decide (s < r.ts)) =
      ((Cs.map (fun c => dcut k ts1 true (dcut k ts0 true c))).flatten).filter (fun r => decide (s < r.ts))
  | [], _ => rfl
  | c :: Cs, h => by
    have hc := h c (by simp)
    simp only [List.map_cons, List.flatten_cons, List.filter_append]
    rw [filter_cross h0 h1 (fun x hx => h x (by simp [hx])),
      filter_dcut h0 true (dcut_valid hc k ts1 true), filter_dcut h1 true hc,
      filter_dcut h1 true (dcut_valid hc k ts0 true), filter_dcut h0 true hc]

/-- what `read_all_with_deletion_marker` returns, as a function of the per-blob lists in visiting order -/
def O (X : List (List Rec)) : List Rec := cutHdrs (sortDesc X.flatten)

/-- closed blobs: closed phase of delete 1, then closed phase of delete 0 (the crossed order) -/
def fx (k : Key) (ts0 ts1 : Nat) (c : List Rec) : List Rec := dcut k ts0 true (dcut k ts1 true c)
/-- closed blobs: delete 0, then delete 1 -/
def f01 (k : Key) (ts0 ts1 : Nat) (c : List Rec) : List Rec := dcut k ts1 true (dcut k ts0 true c)

theorem low_fold {S : List Rec} {t1 : Nat} (hS1 : ∀ e ∈ cutHdrs S, t1 ≤ e.ts)
    (hS2 : ∃ μ ∈ cutHdrs S, μ.del = true) : ∀ Z : List Rec, (∀ z ∈ Z, z.ts < t1) →
    cutHdrs (Z.foldr insertDesc S) = cutHdrs S
  | [], _ => rfl
  | z :: Z, h => by
    have ih := low_fold hS1 hS2 Z (fun x hx => h x (by simp [hx]))
    have hz := h z (by simp)
    simp only [List.foldr_cons]
    rw [cutHdrs_insertDesc_low, ih]
    · rw [ih]; intro e he; have := hS1 e he; omega
    · rw [ih]; exact hS2

theorem cross_right {k : Key} {ts0 ts1 : Nat} (h01 : ts0 < ts1) (Z Y : List Rec) (hZ : ∀ z ∈ Z, z.ts < ts1) :
    cutHdrs (sortDesc (Store.marker k ts0 none :: (Z ++ Store.marker k ts1 none :: Y))) =
      cutHdrs (sortDesc (Store.marker k ts1 none :: (Z ++ Store.marker k ts1 none :: Y))) := by
  have hm := marker_del k ts1
  have hS : cutHdrs (sortDesc (Store.marker k ts1 none :: Y)) =
      cutHdrs ((sortDesc Y).takeWhile (fun r => decide (ts1 < r.ts)) ++ [Store.marker k ts1 none]) := by
    rw [sortDesc_cons, cutHdrs_insertDesc_del hm]; rfl
  have hS1 : ∀ e ∈ cutHdrs (sortDesc (Store.marker k ts1 none :: Y)), ts1 ≤ e.ts := by
    intro e he
    rw [hS] at he
    rcases List.mem_append.1 ((cutHdrs_sublist _).subset he) with h | h
    · have := of_mem_takeWhile _ h; simp only [decide_eq_true_eq] at this; omega
    · simp only [List.mem_singleton] at h; subst h; exact Nat.le_refl _
  have hS2 : ∃ μ ∈ cutHdrs (sortDesc (Store.marker k ts1 none :: Y)), μ.del = true := by
    rw [hS]
    obtain ⟨K, μ, h1, h2, _⟩ := cutHdrs_snoc_del hm ((sortDesc Y).takeWhile (fun r => decide (ts1 < r.ts)))
    exact ⟨μ, by rw [h1]; simp, h2⟩
  have hfold := low_fold hS1 hS2 Z hZ
  rw [sortDesc_cons, sortDesc_cons, sortDesc_append]
  rw [cutHdrs_insertDesc_low, hfold]
  · rw [cutHdrs_insertDesc, hfold, hS]
    symm
    apply cutHdrs_insertDesc_same hm
    intro e he
    have := of_mem_takeWhile _ he
    simpa [marker_ts] using this
  · rw [hfold]; intro e he; have := hS1 e he; rw [marker_ts]; omega
  · rw [hfold]; exact hS2

theorem cross_claim {k : Key} {ts0 ts1 : Nat} (h01 : ts0 < ts1) : ∀ (Cs : List (List Rec)),
    (∀ c ∈ Cs, Valid c) → ∀ Z : List Rec, (∀ z ∈ Z, z.ts < ts1) →
    cutHdrs (sortDesc (Store.marker k ts0 none :: (Z ++ (Cs.map (fx k ts0 ts1)).flatten))) =
      cutHdrs (sortDesc (Store.marker k ts0 none :: (Z ++ (Cs.map (f01 k ts0 ts1)).flatten))) ∨
    cutHdrs (sortDesc (Store.marker k ts0 none :: (Z ++ (Cs.map (fx k ts0 ts1)).flatten))) =
      cutHdrs (sortDesc (Store.marker k ts1 none :: (Z ++ (Cs.map (fx k ts0 ts1)).flatten)))
  | [], _, Z, _ => Or.inl rfl
  | c :: Cs, hV, Z, hZ => by
    have hc := hV c (by simp)
    have hCs : ∀ x ∈ Cs, Valid x := fun x hx => hV x (by simp [hx])
    have hfilt : ∀ s, ts1 ≤ s →
        ((Cs.map (fx k ts0 ts1)).flatten).filter (fun r => decide (s < r.ts)) =
          ((Cs.map (f01 k ts0 ts1)).flatten).filter (fun r => decide (s < r.ts)) :=
      fun s hs => filter_cross (by omega) hs hCs
    simp only [List.map_cons, List.flatten_cons]
    by_cases hl : live c = true
    · obtain ⟨e1, e2⟩ := (dcut_dichotomy (k := k) h01 c).2 hl
      rcases e2 with e2 | e2
      · left
        obtain ⟨K, μ, hK, hμ, hs⟩ := D_hasMk k ts1 c
        have hx : fx k ts0 ts1 c = K ++ [μ] := by rw [← hK]; exact e1
        have hy : f01 k ts0 ts1 c = K ++ [μ] := by rw [← hK]; exact e2
        rw [hx, hy]
        have := cut_sort_invisible (Store.marker k ts0 none :: (Z ++ K)) hμ (hfilt μ.ts hs)
        simpa [List.append_assoc] using this
      · right
        have hx : fx k ts0 ts1 c = [Store.marker k ts1 none] := e2
        rw [hx]
        exact cross_right h01 Z _ hZ
    · have hl' : live c = false := by simpa using hl
      obtain ⟨e1, e2⟩ := (dcut_dichotomy (k := k) h01 c).1 hl'
      have hx : fx k ts0 ts1 c = c := e1
      have hy : f01 k ts0 ts1 c = c := e2
      rw [hx, hy]
      rcases valid_not_live hc hl' with rfl | ⟨μ, rfl, hμ⟩
      · simpa using cross_claim h01 Cs hCs Z hZ
      · by_cases hs : ts1 ≤ μ.ts
        · left
          have := cut_sort_invisible (Store.marker k ts0 none :: Z) hμ (hfilt μ.ts hs)
          simpa [List.append_assoc] using this
        · have := cross_claim (k := k) h01 Cs hCs (Z ++ [μ]) (by
            intro z hz
            rcases List.mem_append.1 hz with hz | hz
            · exact hZ z hz
            · simp only [List.mem_singleton] at hz; subst hz; omega)
          simpa [List.append_assoc] using this

theorem O_invisible {A : List Rec} {s : Nat} (hA : HasMk s A) {Cs Cs' : List (List Rec)}
    (h : ∀ t, s ≤ t → Cs.flatten.filter (fun r => decide (t < r.ts)) = Cs'.flatten.filter (fun r => decide (t < r.ts))) :
    O (A :: Cs) = O (A :: Cs') := by
  obtain ⟨K, μ, rfl, hμ, hs⟩ := hA
  unfold O
  simp only [List.flatten_cons, List.append_assoc, List.singleton_append]
  exact cut_sort_invisible K hμ (h μ.ts hs)

/-- THE COMBINATORIAL CORE.  `cA` is the per-blob list of the active blob, `Cs` those of the closed blobs in
    visiting order.  Crossed phases (active: 0 then 1; closed: 1 then 0) are observationally one of the two
    sequential orders. -/
theorem cross_summaries (k : Key) (ts0 ts1 : Nat) (o0 o1 : Bool) {cA : List Rec} {Cs : List (List Rec)}
    (hA : Valid cA) (hCs : ∀ c ∈ Cs, Valid c) :
    O (dcut k ts1 o1 (dcut k ts0 o0 cA) :: Cs.map (fx k ts0 ts1)) =
      O (dcut k ts1 o1 (dcut k ts0 o0 cA) :: Cs.map (f01 k ts0 ts1)) ∨
    O (dcut k ts1 o1 (dcut k ts0 o0 cA) :: Cs.map (fx k ts0 ts1)) =
      O (dcut k ts0 o0 (dcut k ts1 o1 cA) :: Cs.map (fx k ts0 ts1)) := by
  have hfilt : ∀ t, ts0 ≤ t → ts1 ≤ t →
      (Cs.map (fx k ts0 ts1)).flatten.filter (fun r => decide (t < r.ts)) =
        (Cs.map (f01 k ts0 ts1)).flatten.filter (fun r => decide (t < r.ts)) :=
    fun t h0 h1 => filter_cross h0 h1 hCs
  by_cases h01 : ts1 ≤ ts0
  · -- delete 0 carries the greater (or equal) timestamp
    by_cases happ : (!o0 || live cA) = true
    · left
      have e0 : dcut k ts0 o0 cA = D k ts0 cA := by unfold dcut; rw [if_pos happ]
      have hm : HasMk ts0 (dcut k ts1 o1 (dcut k ts0 o0 cA)) := by
        rw [e0]; exact hasMk_dcut (D_valid hA k ts0) (D_hasMk k ts0 cA)
      exact O_invisible hm (fun t ht => hfilt t ht (by omega))
    · right
      have ho : o0 = true := by cases o0 <;> simp_all
      have hl : live cA = false := by cases h : live cA <;> simp_all
      have e0 : dcut k ts0 o0 cA = cA := by unfold dcut; rw [if_neg happ]
      have e1 : dcut k ts0 o0 (dcut k ts1 o1 cA) = dcut k ts1 o1 cA := by
        subst ho
        have : live (dcut k ts1 o1 cA) = false := by
          unfold dcut; split
          · cases h : live (D k ts1 cA) with
            | false => rfl
            | true =>
              obtain ⟨r, hr, hd, _⟩ := live_D.1 h
              cases cA with
              | nil => cases hr
              | cons x c => simp at hr; subst hr; simp [live, hd] at hl
          · exact hl
        show (if (!true || live (dcut k ts1 o1 cA)) = true then _ else _) = _
        rw [this]; rfl
      rw [e0, e1]
  · -- delete 1 carries the strictly greater timestamp
    have h01 : ts0 < ts1 := by omega
    by_cases hh : HasMk ts1 (dcut k ts1 o1 (dcut k ts0 o0 cA))
    · left
      exact O_invisible hh (fun t ht => hfilt t (by omega) ht)
    · by_cases happ1 : (!o1 || live (dcut k ts0 o0 cA)) = true
      · exfalso
        apply hh
        have : dcut k ts1 o1 (dcut k ts0 o0 cA) = D k ts1 (dcut k ts0 o0 cA) := by
          show (if _ then _ else _) = _; rw [if_pos happ1]
        rw [this]; exact D_hasMk _ _ _
      · have ho1 : o1 = true := by cases o1 <;> simp_all
        have hl0 : live (dcut k ts0 o0 cA) = false := by cases h : live (dcut k ts0 o0 cA) <;> simp_all
        have eA : dcut k ts1 o1 (dcut k ts0 o0 cA) = dcut k ts0 o0 cA := by
          show (if _ then _ else _) = _; rw [if_neg happ1]
        subst ho1
        by_cases hl : live cA = true
        · obtain ⟨r, c', rfl, hr⟩ := live_head hl
          have e0 : dcut k ts0 o0 (r :: c') = D k ts0 (r :: c') := by simp [dcut, hl]
          have hrt : r.ts ≤ ts0 := by
            rcases Nat.lt_or_ge ts0 r.ts with h | h
            · have : live (D k ts0 (r :: c')) = true := live_D.2 ⟨r, rfl, hr, h⟩
              rw [e0, this] at hl0; cases hl0
            · exact h
          have eX : dcut k ts0 o0 (r :: c') = [Store.marker k ts0 none] := by rw [e0]; exact D_of_le hrt
          have e1 : dcut k ts1 true (r :: c') = [Store.marker k ts1 none] := by
            have : dcut k ts1 true (r :: c') = D k ts1 (r :: c') := by simp [dcut, hl]
            rw [this]; exact D_of_le (by omega)
          have e10 : dcut k ts0 o0 [Store.marker k ts1 none] = [Store.marker k ts1 none] := by
            unfold dcut; split
            · have hlt : ts0 < (Store.marker k ts1 none).ts := by rw [marker_ts]; exact h01
              simp [D, hlt, cutHdrs, marker_del]
            · rfl
          rw [eA, eX, e1, e10]
          have := cross_claim (k := k) h01 Cs hCs [] (by simp)
          simpa [O] using this
        · right
          have hl' : live cA = false := by simpa using hl
          have e1 : dcut k ts1 true cA = cA := by simp [dcut, hl']
          rw [eA, e1]

/-! ### from per-blob lists to stores -/

open ConcRW (delActive delClosed)

/-- the per-blob lists of key `k` in visiting order -/
def sm (s : Store) (k : Key) : List (List Rec) := s.visit.map (fun b => b.getAllCut k)

theorem readAllMarked_eq_O {s : Store} (hwf : s.WF) (k : Key) : s.readAllMarked k = O (sm s k) := by
  rw [readAllMarked_eq_spec hwf k]
  unfold Spec.allCut
  rw [← Store.cut_sortedCut hwf k, ← cutHdrs_map_r]
  unfold Store.sortedCut O sm
  rw [sortDescBy_map (g := PRec.r) (f := Rec.ts), ← sortDesc_eq, List.map_flatten]
  unfold Store.perCut
  rw [List.map_map]
  congr 3
  apply List.map_congr_left
  intro b _
  exact (b.getAllCut_eq k).symm

theorem cut_head? : ∀ l : List PRec, (Spec.cut l).head? = l.head?
  | [] => rfl
  | p :: ps => by simp only [Spec.cut]; split <;> rfl

theorem read_of_readAllMarked {s : Store} (hwf : s.WF) (k : Key) :
    s.read k none = classifyR (s.readAllMarked k).head? := by
  rw [read_eq_spec hwf k, readAllMarked_eq_spec hwf k, Spec.latest_eq, classify_map, List.head?_map]
  unfold Spec.allCut
  rw [cut_head?]

/-- the observations: `read`, `contains`, `read_all_with_deletion_marker`, `read_all`, for every key -/
def ObsEq (a b : Store) : Prop :=
  ∀ k, a.read k none = b.read k none ∧ a.contains k = b.contains k ∧
    a.readAllMarked k = b.readAllMarked k ∧ a.readAll k = b.readAll k

theorem obsEq_of_readAllMarked {a b : Store} (ha : a.WF) (hb : b.WF)
    (h : ∀ k, a.readAllMarked k = b.readAllMarked k) : ObsEq a b := by
  intro k
  have hr : a.read k none = b.read k none := by
    rw [read_of_readAllMarked ha, read_of_readAllMarked hb, h k]
  refine ⟨hr, ?_, h k, ?_⟩
  · unfold Store.contains; unfold Store.read at hr; rw [hr]
  · rw [Store.readAll_def, Store.readAll_def, h k]

theorem getAllCut_valid (b : Blob) (k : Key) : Valid (b.getAllCut k) := by
  unfold Blob.getAllCut allCutOfVec
  apply valid_cutHdrs
  rw [List.pairwise_reverse]
  exact vecOf_sorted b.recs k

theorem live_getAllCut (b : Blob) (k : Key) : live (b.getAllCut k) = (b.getLatest k).isFound := by
  unfold live Blob.getAllCut allCutOfVec Blob.getLatest latestOfVec
  rw [cutHdrs_head?, List.head?_reverse]
  cases (b.vec k).getLast? with
  | none => rfl
  | some r => cases hd : r.del <;> simp [hd, ReadResult.isFound]

theorem takeWhile_reverse_sorted {t : Nat} {v : List Rec} (hv : v.Pairwise (fun a b => a.ts ≤ b.ts)) :
    v.reverse.takeWhile (fun r => decide (t < r.ts)) = (v.dropWhile (fun r => decide (r.ts ≤ t))).reverse := by
  have hv' : v.Pairwise (AscBy Rec.ts (fun _ _ => True)) := hv.imp ascBy_true_iff.2
  conv => lhs; rw [← List.takeWhile_append_dropWhile (p := fun r => decide (r.ts ≤ t)) (l := v), List.reverse_append]
  apply takeWhile_append_all
  · intro x hx
    have := lt_of_mem_dropWhile hv' x (List.mem_reverse.1 hx)
    simpa using this
  · intro x hx
    have := le_of_mem_takeWhile (f := Rec.ts) x (List.mem_reverse.1 hx)
    simp; omega

/-- `Blob::delete` on the per-blob list of its key -/
theorem getAllCut_blobDelete (b : Blob) (k : Key) (ts : Nat) (oip : Bool) :
    (Store.blobDelete b k ts none oip).1.getAllCut k = dcut k ts oip (b.getAllCut k) := by
  rw [Store.blobDelete_fst]
  unfold dcut
  rw [live_getAllCut]
  split
  · unfold Store.mark Blob.getAllCut allCutOfVec Blob.vec D
    have hk : ((Store.marker k ts none).key == k) = true := by simp [Store.marker]
    simp only [vecOf_append_singleton, hk, if_true, List.reverse_append, List.reverse_cons, List.append_assoc,
      List.singleton_append, marker_ts]
    rw [cutHdrs_append_del _ _ (marker_del k ts), cutHdrs_takeWhile_cutHdrs,
      takeWhile_reverse_sorted (vecOf_sorted b.recs k)]
    rfl
  · rfl

theorem getAllCut_blobDelete_ne (b : Blob) {k k' : Key} (h : k ≠ k') (ts : Nat) (oip : Bool) :
    (Store.blobDelete b k ts none oip).1.getAllCut k' = b.getAllCut k' := by
  rw [Store.blobDelete_fst]
  split
  · unfold Store.mark Blob.getAllCut Blob.vec
    have hk : ((Store.marker k ts none).key == k') = false := by simpa [Store.marker] using h
    simp only [vecOf_append_singleton, hk]
    rfl
  · rfl

/-- `fa` on the active blob, `fc` on every closed blob -/
def mapBlobs (s : Store) (fa fc : Blob → Blob) : Store :=
  { s with active := s.active.map fa, slots := s.slots.map (Option.map fc) }

theorem delActive_eq (s : Store) (k : Key) (ts : Nat) (oip : Bool) :
    (delActive s k ts oip).1 = mapBlobs s (fun b => (Store.blobDelete b k ts none oip).1) id := by
  unfold delActive mapBlobs
  cases s with
  | mk active slots nextId allowDup =>
    cases active <;> simp

theorem delClosed_eq (s : Store) (k : Key) (ts : Nat) :
    (delClosed s k ts).1 = mapBlobs s id (fun b => (Store.blobDelete b k ts none true).1) := by
  unfold delClosed mapBlobs
  cases s with
  | mk active slots nextId allowDup =>
    simp only [List.map_map, Option.map_id, id_eq, Store.mk.injEq, true_and, and_true]
    apply List.map_congr_left
    intro o _
    cases o <;> rfl

theorem mapBlobs_mapBlobs (s : Store) (f g f' g' : Blob → Blob) :
    mapBlobs (mapBlobs s f g) f' g' = mapBlobs s (f' ∘ f) (g' ∘ g) := by
  unfold mapBlobs
  simp only [Option.map_map, List.map_map, Store.mk.injEq, true_and, and_true]
  apply List.map_congr_left
  intro o _
  cases o <;> rfl

theorem sm_mapBlobs (s : Store) (fa fc : Blob → Blob) (k : Key) :
    sm (mapBlobs s fa fc) k =
      s.active.toList.map (fun b => (fa b).getAllCut k) ++ s.closed.reverse.map (fun b => (fc b).getAllCut k) := by
  unfold sm Store.visit mapBlobs Store.closed
  simp only [Store.closed_map_option, List.map_append, List.map_reverse, List.map_map]
  cases s.active <;> rfl

/-- the store after two deletes whose phases cross: active 0, active 1, closed 1, closed 0 -/
def crossedDel (s : Store) (k0 : Key) (ts0 : Nat) (o0 : Bool) (k1 : Key) (ts1 : Nat) (o1 : Bool) : Store :=
  (delClosed (delClosed (delActive (delActive s k0 ts0 o0).1 k1 ts1 o1).1 k1 ts1).1 k0 ts0).1

/-- `Blob::delete` of key `k` on the per-blob list of key `k'` -/
def dcut' (k : Key) (ts : Nat) (oip : Bool) (k' : Key) (c : List Rec) : List Rec :=
  if k = k' then dcut k ts oip c else c

theorem getAllCut_blobDelete' (b : Blob) (k : Key) (ts : Nat) (oip : Bool) (k' : Key) :
    (Store.blobDelete b k ts none oip).1.getAllCut k' = dcut' k ts oip k' (b.getAllCut k') := by
  unfold dcut'
  split
  · rename_i h; subst h; exact getAllCut_blobDelete b k ts oip
  · rename_i h; exact getAllCut_blobDelete_ne b h ts oip

theorem wf_delActive {s : Store} (hwf : s.WF) (ha : ∃ a, s.active = some a) (k : Key) (ts : Nat) (oip : Bool) :
    (delActive s k ts oip).1.WF ∧ ∃ a, (delActive s k ts oip).1.active = some a := by
  obtain ⟨a, ha⟩ := ha
  have := ConcRW.inPlace_delActive ha k ts oip
  exact ⟨this.wf hwf, this.active_some⟩

theorem wf_delClosed {s : Store} (hwf : s.WF) (ha : ∃ a, s.active = some a) (k : Key) (ts : Nat) :
    (delClosed s k ts).1.WF ∧ ∃ a, (delClosed s k ts).1.active = some a := by
  obtain ⟨a, ha⟩ := ha
  have := ConcRW.inPlace_delClosed ha k ts
  exact ⟨this.wf hwf, this.active_some⟩

theorem delete_eq_mapBlobs {s : Store} (ha : ∃ a, s.active = some a) (k : Key) (ts : Nat) (oip : Bool) :
    (s.delete k ts none oip).1 = mapBlobs s (fun b => (Store.blobDelete b k ts none oip).1)
      (fun b => (Store.blobDelete b k ts none true).1) := by
  obtain ⟨a, ha⟩ := ha
  rw [ConcRW.delete_eq_phases ha, delClosed_eq, delActive_eq, mapBlobs_mapBlobs]
  rfl

theorem wf_delete' {s : Store} (ha : ∃ a, s.active = some a) (k : Key) (ts : Nat) (oip : Bool) :
    ∃ a, (s.delete k ts none oip).1.active = some a := by
  obtain ⟨a, ha'⟩ := ha
  rw [ConcRW.delete_eq_phases ha']
  obtain ⟨a1, h1⟩ := (ConcRW.inPlace_delActive ha' k ts oip).active_some
  exact (ConcRW.inPlace_delClosed h1 k ts).active_some

theorem wf_delete {s : Store} (hwf : s.WF) (ha : ∃ a, s.active = some a) (k : Key) (ts : Nat) (oip : Bool) :
    (s.delete k ts none oip).1.WF ∧ ∃ a, (s.delete k ts none oip).1.active = some a := by
  obtain ⟨a, ha'⟩ := ha
  rw [ConcRW.delete_eq_phases ha']
  obtain ⟨h1, h2⟩ := wf_delActive hwf ⟨a, ha'⟩ k ts oip
  exact wf_delClosed h1 h2 k ts

/-- two `Blob::delete`s on the active blob and two on every closed blob, on the per-blob lists -/
theorem sm_two {s : Store} {a : Blob} (ha : s.active = some a) (kA : Key) (tA : Nat) (oA : Bool) (kB : Key) (tB : Nat)
    (oB : Bool) (kC : Key) (tC : Nat) (kD : Key) (tD : Nat) (k' : Key) :
    sm (mapBlobs s (fun b => (Store.blobDelete (Store.blobDelete b kA tA none oA).1 kB tB none oB).1)
        (fun b => (Store.blobDelete (Store.blobDelete b kC tC none true).1 kD tD none true).1)) k' =
      dcut' kB tB oB k' (dcut' kA tA oA k' (a.getAllCut k')) ::
        (s.closed.reverse.map (fun b => b.getAllCut k')).map
          (fun c => dcut' kD tD true k' (dcut' kC tC true k' c)) := by
  rw [sm_mapBlobs, ha]
  simp only [Option.toList, List.map_cons, List.map_nil, List.singleton_append, List.map_map,
    getAllCut_blobDelete', Function.comp_def]

theorem crossedDel_eq (s : Store) (k0 : Key) (ts0 : Nat) (o0 : Bool) (k1 : Key) (ts1 : Nat) (o1 : Bool) :
    crossedDel s k0 ts0 o0 k1 ts1 o1 =
      mapBlobs s (fun b => (Store.blobDelete (Store.blobDelete b k0 ts0 none o0).1 k1 ts1 none o1).1)
        (fun b => (Store.blobDelete (Store.blobDelete b k1 ts1 none true).1 k0 ts0 none true).1) := by
  unfold crossedDel
  rw [delClosed_eq, delClosed_eq, delActive_eq, delActive_eq, mapBlobs_mapBlobs, mapBlobs_mapBlobs,
    mapBlobs_mapBlobs]
  rfl

theorem seqDel_eq {s : Store} (ha : ∃ a, s.active = some a) (k0 : Key) (ts0 : Nat) (o0 : Bool) (k1 : Key) (ts1 : Nat)
    (o1 : Bool) :
    ((s.delete k0 ts0 none o0).1.delete k1 ts1 none o1).1 =
      mapBlobs s (fun b => (Store.blobDelete (Store.blobDelete b k0 ts0 none o0).1 k1 ts1 none o1).1)
        (fun b => (Store.blobDelete (Store.blobDelete b k0 ts0 none true).1 k1 ts1 none true).1) := by
  rw [delete_eq_mapBlobs (wf_delete' ha k0 ts0 o0), delete_eq_mapBlobs ha, mapBlobs_mapBlobs]
  rfl

theorem crossedDel_wf {s : Store} (hwf : s.WF) (ha : ∃ a, s.active = some a) (k0 : Key) (ts0 : Nat) (o0 : Bool)
    (k1 : Key) (ts1 : Nat) (o1 : Bool) : (crossedDel s k0 ts0 o0 k1 ts1 o1).WF := by
  unfold crossedDel
  obtain ⟨h1, a1⟩ := wf_delActive hwf ha k0 ts0 o0
  obtain ⟨h2, a2⟩ := wf_delActive h1 a1 k1 ts1 o1
  obtain ⟨h3, a3⟩ := wf_delClosed h2 a2 k1 ts1
  exact (wf_delClosed h3 a3 k0 ts0).1

theorem dcut'_comm {k0 k1 : Key} (h : k0 ≠ k1) (t0 t1 : Nat) (o0 o1 : Bool) (k' : Key) (c : List Rec) :
    dcut' k0 t0 o0 k' (dcut' k1 t1 o1 k' c) = dcut' k1 t1 o1 k' (dcut' k0 t0 o0 k' c) := by
  unfold dcut'
  by_cases h0 : k0 = k'
  · have h1 : ¬ k1 = k' := fun e => h (h0.trans e.symm)
    simp [h0, h1]
  · simp [h0]

/-- two deletes whose phases cross (active 0, active 1, closed 1, closed 0) leave a store that is observationally
    equal — same `read`, `contains`, `read_all_with_deletion_marker`, `read_all` for EVERY key — to the store of one
    of the two sequential orders.  For all well-formed stores with an active blob, all keys, timestamps and flags. -/
theorem crossed_obs {s : Store} (hwf : s.WF) (ha : ∃ a, s.active = some a) (k0 : Key) (ts0 : Nat) (o0 : Bool)
    (k1 : Key) (ts1 : Nat) (o1 : Bool) :
    ObsEq (crossedDel s k0 ts0 o0 k1 ts1 o1) ((s.delete k0 ts0 none o0).1.delete k1 ts1 none o1).1 ∨
    ObsEq (crossedDel s k0 ts0 o0 k1 ts1 o1) ((s.delete k1 ts1 none o1).1.delete k0 ts0 none o0).1 := by
  have hwX := crossedDel_wf hwf ha k0 ts0 o0 k1 ts1 o1
  obtain ⟨w0, a0⟩ := wf_delete hwf ha k0 ts0 o0
  have hw01 := (wf_delete w0 a0 k1 ts1 o1).1
  obtain ⟨w1, a1⟩ := wf_delete hwf ha k1 ts1 o1
  have hw10 := (wf_delete w1 a1 k0 ts0 o0).1
  obtain ⟨a, ha'⟩ := ha
  have eX : ∀ k', (crossedDel s k0 ts0 o0 k1 ts1 o1).readAllMarked k' = O _ := fun k' => by
    rw [readAllMarked_eq_O hwX, crossedDel_eq, sm_two ha']
  have e01 : ∀ k', ((s.delete k0 ts0 none o0).1.delete k1 ts1 none o1).1.readAllMarked k' = O _ := fun k' => by
    rw [readAllMarked_eq_O hw01, seqDel_eq ⟨a, ha'⟩, sm_two ha']
  have e10 : ∀ k', ((s.delete k1 ts1 none o1).1.delete k0 ts0 none o0).1.readAllMarked k' = O _ := fun k' => by
    rw [readAllMarked_eq_O hw10, seqDel_eq ⟨a, ha'⟩, sm_two ha']
  by_cases hk : k0 = k1
  · subst hk
    have hcore := cross_summaries k0 ts0 ts1 o0 o1 (getAllCut_valid a k0)
      (Cs := s.closed.reverse.map (fun b => b.getAllCut k0)) (by
        intro c hc
        obtain ⟨b, _, rfl⟩ := List.mem_map.1 hc
        exact getAllCut_valid b k0)
    have hother : ∀ k', k0 ≠ k' → ∀ (t t' : Nat) (o o' : Bool) (c : List Rec),
        dcut' k0 t o k' (dcut' k0 t' o' k' c) = c := by
      intro k' hne t t' o o' c; simp [dcut', hne]
    rcases hcore with hc | hc
    · left
      apply obsEq_of_readAllMarked hwX hw01
      intro k'
      rw [eX, e01]
      by_cases hkk : k0 = k'
      · subst hkk
        simp only [dcut', ↓reduceIte]
        exact hc
      · simp only [hother k' hkk]
    · right
      apply obsEq_of_readAllMarked hwX hw10
      intro k'
      rw [eX, e10]
      by_cases hkk : k0 = k'
      · subst hkk
        simp only [dcut', ↓reduceIte]
        exact hc
      · simp only [hother k' hkk]
  · left
    apply obsEq_of_readAllMarked hwX hw01
    intro k'
    rw [eX, e01]
    congr 2
    apply List.map_congr_left
    intro c _
    exact dcut'_comm hk ts0 ts1 true true k' c

end CrossDel

/-! ## 3. the product with the byte ranges (`Pearl/Model/ConcBytes.lean`) -/
namespace ConcBytes

open Pearl.ConcRW Pearl.Append

theorem pairwise_forall {α} {R : α → α → Prop} : ∀ {l : List α}, l.Pairwise R →
    ∀ a ∈ l, ∀ b ∈ l, a ≠ b → R a b ∨ R b a
  | [], _, a, ha, _, _, _ => by cases ha
  | x :: l, h, a, ha, b, hb, hne => by
    rw [List.pairwise_cons] at h
    rcases List.mem_cons.1 ha with rfl | ha'
    · rcases List.mem_cons.1 hb with rfl | hb'
      · exact absurd rfl hne
      · exact Or.inl (h.1 b hb')
    · rcases List.mem_cons.1 hb with rfl | hb'
      · exact Or.inr (h.1 a ha')
      · exact pairwise_forall h.2 a ha' b hb' hne

/-- the byte-level invariant, relative to the initial file sizes `size0` -/
structure BytesOK (size0 : Nat → Nat) (y : Bytes) : Prop where
  /-- the reservations of one blob file are laid out one after the other, in the order they were made -/
  sorted : y.allocs.Pairwise (fun x z => x.blob = z.blob → z.rng.stop ≤ x.rng.off)
  bound : ∀ x ∈ y.allocs, x.rng.stop ≤ y.size x.blob
  base : ∀ x ∈ y.allocs, size0 x.blob ≤ x.rng.off
  grow : ∀ j, size0 j ≤ y.size j
  /-- every byte written lies in a filled range of its writer -/
  own : ∀ b o i, y.file b o = some i → ∃ x ∈ y.allocs, x.client = i ∧ x.blob = b ∧ x.written = true ∧
    x.rng.off ≤ o ∧ o < x.rng.stop
  /-- every byte of a filled range still carries the mark of its writer -/
  intact : ∀ x ∈ y.allocs, x.written = true → ∀ o, x.rng.off ≤ o → o < x.rng.stop →
    y.file x.blob o = some x.client

theorem bytesOK_init (size0 : Nat → Nat) : BytesOK size0 { size := size0, allocs := [], file := fun _ _ => none } where
  sorted := .nil
  bound := by intro x hx; cases hx
  base := by intro x hx; cases hx
  grow := fun _ => Nat.le_refl _
  own := by intro b o i h; cases h
  intact := by intro x hx; cases hx

theorem reserve_ok {size0 : Nat → Nat} {y : Bytes} (h : BytesOK size0 y) (i b : Nat) (r : Rec) (len : Nat) :
    BytesOK size0 (y.reserve i b r len) where
  sorted := by
    show List.Pairwise _ (_ :: y.allocs)
    rw [List.pairwise_cons]
    refine ⟨fun z hz hb => ?_, h.sorted⟩
    have := h.bound z hz
    have hb : b = z.blob := hb
    show z.rng.stop ≤ y.size b
    rw [hb]; exact this
  bound := by
    intro x hx
    rcases List.mem_cons.1 hx with rfl | hx
    · simp [Bytes.reserve, fetchAdd, Range.stop]
    · have := h.bound x hx
      simp only [Bytes.reserve, fetchAdd]
      split
      · rename_i hb; rw [hb] at this; omega
      · exact this
  base := by
    intro x hx
    rcases List.mem_cons.1 hx with rfl | hx
    · exact h.grow b
    · exact h.base x hx
  grow := by
    intro j
    have := h.grow j
    simp only [Bytes.reserve, fetchAdd]
    split
    · rename_i hb; subst hb; omega
    · exact this
  own := by
    intro b' o i' hf
    obtain ⟨x, hx, hh⟩ := h.own b' o i' hf
    exact ⟨x, List.mem_cons_of_mem _ hx, hh⟩
  intact := by
    intro x hx hw o h1 h2
    rcases List.mem_cons.1 hx with rfl | hx
    · cases hw
    · exact h.intact x hx hw o h1 h2

theorem pending_iff {y : Bytes} {i b o : Nat} : y.pending i b o = true ↔
    ∃ x ∈ y.allocs, x.client = i ∧ x.written = false ∧ x.blob = b ∧ x.rng.off ≤ o ∧ o < x.rng.stop := by
  simp only [Bytes.pending, List.any_eq_true, Bool.and_eq_true, beq_iff_eq, Bool.not_eq_true', decide_eq_true_eq]
  constructor
  · rintro ⟨x, hx, ⟨⟨⟨⟨h1, h2⟩, h3⟩, h4⟩, h5⟩⟩; exact ⟨x, hx, h1, h2, h3, h4, h5⟩
  · rintro ⟨x, hx, h1, h2, h3, h4, h5⟩; exact ⟨x, hx, ⟨⟨⟨⟨h1, h2⟩, h3⟩, h4⟩, h5⟩⟩

theorem mem_land {y : Bytes} {i : Nat} {x' : Alloc} : x' ∈ (y.land i).allocs ↔
    ∃ x ∈ y.allocs, x' = if x.client = i then { x with written := true } else x := by
  simp only [Bytes.land, List.mem_map]
  constructor
  · rintro ⟨x, hx, rfl⟩; exact ⟨x, hx, rfl⟩
  · rintro ⟨x, hx, rfl⟩; exact ⟨x, hx, rfl⟩

theorem land_ok {size0 : Nat → Nat} {y : Bytes} (h : BytesOK size0 y) (i : Nat) : BytesOK size0 (y.land i) where
  sorted := by
    show List.Pairwise _ (y.allocs.map _)
    rw [List.pairwise_map]
    refine h.sorted.imp ?_
    intro x z hxz
    split <;> split <;> exact hxz
  bound := by
    intro x' hx'
    obtain ⟨x, hx, rfl⟩ := mem_land.1 hx'
    have := h.bound x hx
    split <;> exact this
  base := by
    intro x' hx'
    obtain ⟨x, hx, rfl⟩ := mem_land.1 hx'
    have := h.base x hx
    split <;> exact this
  grow := h.grow
  own := by
    intro b o j hf
    simp only [Bytes.land] at hf
    split at hf
    · rename_i hp
      cases hf
      obtain ⟨x, hx, h1, _, h3, h4, h5⟩ := pending_iff.1 hp
      exact ⟨_, mem_land.2 ⟨x, hx, rfl⟩, by simp [h1], by simp [h1, h3], by simp [h1], by simp [h1, h4], by
        simp only [h1, if_true]; exact h5⟩
    · obtain ⟨x, hx, h1, h2, h3, h4, h5⟩ := h.own b o j hf
      refine ⟨x, mem_land.2 ⟨x, hx, ?_⟩, h1, h2, h3, h4, h5⟩
      split
      · cases x; simp_all
      · rfl
  intact := by
    intro x' hx' hw o h1 h2
    obtain ⟨x, hx, rfl⟩ := mem_land.1 hx'
    by_cases hc : x.client = i
    · simp only [hc, if_true] at hw h1 h2 ⊢
      by_cases hxw : x.written = true
      · -- was written before: nobody paints over it
        have hold := h.intact x hx hxw o h1 h2
        simp only [Bytes.land]
        split
        · rfl
        · rw [← hc]; exact hold
      · have hp : y.pending i x.blob o = true :=
          pending_iff.2 ⟨x, hx, hc, by simpa using hxw, rfl, h1, h2⟩
        simp only [Bytes.land, hp, if_true]
    · simp only [hc, if_false] at hw h1 h2 ⊢
      have hold := h.intact x hx hw o h1 h2
      simp only [Bytes.land]
      split
      · rename_i hp
        obtain ⟨z, hz, g1, g2, g3, g4, g5⟩ := pending_iff.1 hp
        have hne : z ≠ x := by intro e; rw [e] at g1; exact hc g1
        rcases pairwise_forall h.sorted z hz x hx hne with hd | hd
        · have := hd g3; simp only [Range.stop] at *; omega
        · have := hd g3.symm; simp only [Range.stop] at *; omega
      · exact hold

/-- `y'` arises from `y` by reservations (of `recLen klen r` bytes for a record `r`) and fills of client `i` -/
inductive Evolves (klen i : Nat) (y : Bytes) : Bytes → Prop where
  | refl : Evolves klen i y y
  | reserve {y1 : Bytes} (b : Nat) (r : Rec) :
      Evolves klen i y y1 → Evolves klen i y (y1.reserve i b r (Fs.recLen klen r))
  | land {y1 : Bytes} : Evolves klen i y y1 → Evolves klen i y (y1.land i)

namespace Evolves

variable {klen i : Nat} {y y' : Bytes}

theorem ok {size0 : Nat → Nat} (h : Evolves klen i y y') (hy : BytesOK size0 y) : BytesOK size0 y' := by
  induction h with
  | refl => exact hy
  | reserve b r _ ih => exact reserve_ok ih i b r _
  | land _ ih => exact land_ok ih i

theorem len (h : Evolves klen i y y') (hy : ∀ x ∈ y.allocs, x.rng.len = Fs.recLen klen x.r) :
    ∀ x ∈ y'.allocs, x.rng.len = Fs.recLen klen x.r := by
  induction h with
  | refl => exact hy
  | reserve b r _ ih =>
    intro x hx
    rcases List.mem_cons.1 hx with rfl | hx
    · rfl
    · exact ih x hx
  | land _ ih =>
    intro x' hx'
    obtain ⟨x, hx, rfl⟩ := mem_land.1 hx'
    have := ih x hx
    split <;> exact this

/-- the reservations of the other clients are not touched -/
theorem others (h : Evolves klen i y y') : ∀ x, x.client ≠ i → (x ∈ y'.allocs ↔ x ∈ y.allocs) := by
  induction h with
  | refl => intro x _; exact Iff.rfl
  | reserve b r _ ih =>
    intro x hx
    rw [← ih x hx]
    show x ∈ _ :: _ ↔ _
    rw [List.mem_cons]
    constructor
    · rintro (rfl | h1)
      · exact absurd rfl hx
      · exact h1
    · exact Or.inr
  | land _ ih =>
    intro x hx
    rw [← ih x hx, mem_land]
    constructor
    · rintro ⟨z, hz, rfl⟩
      split at hx
      · rename_i hzi; exact absurd hzi hx
      · rename_i hzi; rw [if_neg hzi]; exact hz
    · intro h1
      exact ⟨x, h1, by rw [if_neg hx]⟩

/-- a filled range stays as it is -/
theorem written (h : Evolves klen i y y') : ∀ x ∈ y.allocs, x.written = true → x ∈ y'.allocs := by
  induction h with
  | refl => intro x hx _; exact hx
  | reserve b r _ ih => intro x hx hw; exact List.mem_cons_of_mem _ (ih x hx hw)
  | land _ ih =>
    intro x hx hw
    refine mem_land.2 ⟨x, ih x hx hw, ?_⟩
    split
    · cases x; simp_all
    · rfl

/-- every reservation is still there, possibly filled meanwhile -/
theorem kept (h : Evolves klen i y y') : ∀ x ∈ y.allocs, x ∈ y'.allocs ∨ { x with written := true } ∈ y'.allocs := by
  induction h with
  | refl => intro x hx; exact Or.inl hx
  | reserve b r _ ih =>
    intro x hx
    rcases ih x hx with h1 | h1
    · exact Or.inl (List.mem_cons_of_mem _ h1)
    · exact Or.inr (List.mem_cons_of_mem _ h1)
  | land _ ih =>
    intro x hx
    rcases ih x hx with h1 | h1
    · by_cases hc : x.client = i
      · exact Or.inr (mem_land.2 ⟨x, h1, by rw [if_pos hc]⟩)
      · exact Or.inl (mem_land.2 ⟨x, h1, by rw [if_neg hc]⟩)
    · refine Or.inr (mem_land.2 ⟨_, h1, ?_⟩)
      split <;> rfl

/-- what is new belongs to client `i` -/
theorem fresh (h : Evolves klen i y y') : ∀ x' ∈ y'.allocs, x'.client = i ∨ x' ∈ y.allocs := by
  intro x' hx'
  by_cases hc : x'.client = i
  · exact Or.inl hc
  · exact Or.inr ((h.others x' hc).1 hx')

end Evolves

theorem land_written {y : Bytes} {i : Nat} : ∀ x ∈ (y.land i).allocs, x.client = i → x.written = true := by
  intro x' hx' hc
  obtain ⟨x, hx, rfl⟩ := mem_land.1 hx'
  split
  · rfl
  · rename_i hne; rw [if_neg hne] at hc; exact absurd hc hne

theorem foldl_evolves (klen i : Nat) (f : Blob → Bool) (r : Rec) : ∀ (bs : List Blob) (y0 y : Bytes),
    Evolves klen i y0 y →
    Evolves klen i y0 (bs.foldl (fun y b => if f b then y.reserve i b.id r (Fs.recLen klen r) else y) y)
  | [], _, _, h => h
  | b :: bs, y0, y, h => by
    simp only [List.foldl_cons]
    split
    · exact foldl_evolves klen i f r bs y0 _ (.reserve b.id r h)
    · exact foldl_evolves klen i f r bs y0 _ h

theorem bytesStep_evolves (klen : Nat) (s : CState) (i : Nat) (y : Bytes) :
    Evolves klen i y (bytesStep klen s i y) := by
  unfold bytesStep
  split
  · exact .refl
  · split
    · exact .reserve _ _ .refl
    · exact .land .refl
    · split
      · exact .land (.reserve _ _ .refl)
      · exact .refl
    · exact .land (foldl_evolves klen i _ _ _ _ _ .refl)
    · exact .refl

set_option linter.unusedSimpArgs false in
theorem cstep_bytes_facts {st : Store} {landed : List Rec} {bl : Option Nat} {i : Nat} {c : Client} {o : Out}
    (h : cstep st landed bl i c = some o) :
    (o.pc = .wReserved → c.pc = .wBlob) ∧ (c.pc = .wBlob → o.pc = .wReserved ∧ o.eff = .skip) ∧
    (o.pc = .wWritten → c.pc = .wReserved) ∧
    (c.pc = .wReserved → o.pc = .wWritten ∧ ∃ k ts d, c.op = .write k ts d ∧ o.eff = .land (wrec k ts d)) ∧
    (∀ r, o.eff = .land r → c.pc = .wReserved) ∧
    (∀ r, o.eff = .push r → c.pc = .wWritten ∧ ∃ a, st.active = some a ∧
      ∀ p, o.pc.place = some p → p.blob = a.id ∧ p.r = r) := by
  obtain ⟨op, pc, born⟩ := c
  cases pc <;> cases op <;> simp only [cstep] at h <;> (try split at h) <;>
    first
    | (simp only [Option.some.injEq] at h; subst h; simp [Pc.place, Resp.place] <;> (try split) <;>
        simp [Pc.place, Resp.place]; done)
    | (simp only [Option.some.injEq] at h; subst h; simp [Pc.place, Resp.place]; done)
    | (simp only [Option.some.injEq] at h; subst h; rename_i h1 h2; cases h1;
       simp [Pc.place, Resp.place]; exact ⟨_, h2, rfl⟩)
    | (simp only [Option.some.injEq] at h; subst h; simp [Pc.place, Resp.place];
       exact ⟨_, _, _, ⟨rfl, rfl, rfl⟩, rfl⟩)
    | (simp at h; done)

theorem bytesStep_wBlob {klen : Nat} {s : CState} {i : Nat} {c : Client} {a : Blob} {k : Key} {ts : Nat} {d : Data}
    (hc : s.clients[i]? = some c) (hpc : c.pc = .wBlob) (hop : c.op = .write k ts d)
    (ha : s.store.active = some a) (y : Bytes) :
    bytesStep klen s i y = y.reserve i a.id (wrec k ts d) (Fs.recLen klen (wrec k ts d)) := by
  simp only [bytesStep, hc, hpc, hop, ha]

theorem bytesStep_wReserved {klen : Nat} {s : CState} {i : Nat} {c : Client} {k : Key} {ts : Nat} {d : Data}
    (hc : s.clients[i]? = some c) (hpc : c.pc = .wReserved) (hop : c.op = .write k ts d) (y : Bytes) :
    bytesStep klen s i y = y.land i := by
  simp only [bytesStep, hc, hpc, hop]

theorem bytesStep_other {klen : Nat} {s : CState} {i : Nat} {c : Client}
    (hc : s.clients[i]? = some c) (h1 : c.pc ≠ .wBlob) (h2 : c.pc ≠ .wReserved) (y : Bytes) :
    (∃ y1, Evolves klen i y y1 ∧ bytesStep klen s i y = y1.land i) ∨ bytesStep klen s i y = y := by
  unfold bytesStep
  simp only [hc]
  split
  · rename_i h _ _; exact absurd h h1
  · rename_i h _; exact absurd h h2
  · split
    · exact Or.inl ⟨_, .reserve _ _ .refl, rfl⟩
    · exact Or.inr rfl
  · exact Or.inl ⟨_, foldl_evolves klen i _ _ _ _ _ .refl, rfl⟩
  · exact Or.inr rfl

/-- what the byte level knows about a client: its reservation while the write is in flight, and the filled range of
    the record it stored -/
def LCInv (st : Store) (y : Bytes) (i : Nat) (c : Client) : Prop :=
  (c.pc = .wReserved → ∃ x ∈ y.allocs, x.client = i ∧ x.written = false ∧
      (∃ a, st.active = some a ∧ x.blob = a.id) ∧ ∀ k ts d, c.op = .write k ts d → x.r = wrec k ts d) ∧
  (c.pc = .wWritten → ∃ x ∈ y.allocs, x.client = i ∧ x.written = true ∧
      (∃ a, st.active = some a ∧ x.blob = a.id) ∧ ∀ k ts d, c.op = .write k ts d → x.r = wrec k ts d) ∧
  (∀ p, c.pc.place = some p → ∃ x ∈ y.allocs, x.client = i ∧ x.written = true ∧ x.blob = p.blob ∧ x.r = p.r)

theorem LCInv.stable {klen i j : Nat} {st st' : Store} {y y' : Bytes} {c : Client} (hev : Evolves klen i y y')
    (hji : j ≠ i) (hact : ∀ a, st.active = some a → ∃ a', st'.active = some a' ∧ a'.id = a.id)
    (h : LCInv st y j c) : LCInv st' y' j c := by
  obtain ⟨h1, h2, h3⟩ := h
  refine ⟨fun hpc => ?_, fun hpc => ?_, fun p hp => ?_⟩
  · obtain ⟨x, hx, g1, g2, ⟨a, ga, gb⟩, g4⟩ := h1 hpc
    obtain ⟨a', ga', gid⟩ := hact a ga
    exact ⟨x, (hev.others x (by rw [g1]; exact hji)).2 hx, g1, g2, ⟨a', ga', by rw [gb, gid]⟩, g4⟩
  · obtain ⟨x, hx, g1, g2, ⟨a, ga, gb⟩, g4⟩ := h2 hpc
    obtain ⟨a', ga', gid⟩ := hact a ga
    exact ⟨x, hev.written x hx g2, g1, g2, ⟨a', ga', by rw [gb, gid]⟩, g4⟩
  · obtain ⟨x, hx, g1, g2, g3⟩ := h3 p hp
    exact ⟨x, hev.written x hx g2, g1, g2, g3⟩

theorem LCInv.stable_rot {j : Nat} {st st' : Store} {y : Bytes} {c : Client} (hn : c.pc.holdsS = false)
    (h : LCInv st y j c) : LCInv st' y j c := by
  refine ⟨fun hpc => ?_, fun hpc => ?_, h.2.2⟩
  · rw [hpc] at hn; cases hn
  · rw [hpc] at hn; cases hn

/-- the invariant of the product -/
structure PInv (klen : Nat) (st0 : Store) (b : BState) : Prop where
  ok : BytesOK (sizeOf klen st0) b.y
  len : ∀ x ∈ b.y.allocs, x.rng.len = Fs.recLen klen x.r
  inflight : ∀ x ∈ b.y.allocs, x.written = false → ∃ c, b.c.clients[x.client]? = some c ∧ c.pc = .wReserved
  client : ∀ i c, b.c.clients[i]? = some c → LCInv b.c.store b.y i c
  landed : ∀ r ∈ b.c.landed, InStore st0 r ∨ ∃ x ∈ b.y.allocs, x.written = true ∧ x.r = r

theorem pinv_init (klen : Nat) (st : Store) (ops : List COp) : PInv klen st (binit klen st ops) where
  ok := bytesOK_init _
  len := by intro x hx; cases hx
  inflight := by intro x hx; cases hx
  client := by
    intro i c hc
    simp only [binit, init, List.getElem?_map] at hc
    cases h : ops[i]? <;> simp [h] at hc
    subst hc
    unfold LCInv
    exact ⟨fun h => (by cases h), fun h => (by cases h), fun p hp => (by simp [Pc.place] at hp)⟩
  landed := fun r hr => Or.inl (mem_allRecs.1 hr)

theorem mem_eff_landed {e : Eff} {l : List Rec} {r : Rec} (h : r ∈ e.landed l) : e = .land r ∨ r ∈ l := by
  cases e <;> simp [Eff.landed] at h <;> try exact Or.inr h
  rcases h with rfl | h
  · exact Or.inl rfl
  · exact Or.inr h

theorem eff_store_of_skip_land {e : Eff} (st : Store) (h : e = .skip ∨ ∃ r, e = .land r) : e.store st = st := by
  rcases h with rfl | ⟨r, rfl⟩ <;> rfl

theorem pinv_fire {klen : Nat} {st0 : Store} {b b' : BState} {l : Label} (hi : Inv b.c) (hb : BInv b.c)
    (hp : PInv klen st0 b) (h : bfire klen l b = some b') : PInv klen st0 b' := by
  obtain ⟨a, ha⟩ := hi.active
  simp only [bfire] at h
  cases hf : fire l b.c with
  | none => simp [hf] at h
  | some c' =>
    simp only [hf, Option.some.injEq] at h
    subst h
    cases l with
    | step i =>
      simp only [fire] at hf
      cases hci : b.c.clients[i]? with
      | none => simp [hci] at hf
      | some c =>
        cases hco : cstep b.c.store b.c.landed b.c.blobLock i c with
        | none => simp [hci, hco] at hf
        | some o =>
          simp only [hci, hco, Option.some.injEq] at hf
          subst hf
          have hev := bytesStep_evolves klen b.c i b.y
          have hlt : i < b.c.clients.length := by
            rcases Nat.lt_or_ge i b.c.clients.length with h1 | h1
            · exact h1
            · rw [List.getElem?_eq_none h1] at hci; cases hci
          have hself : (b.c.clients.set i { op := c.op, pc := o.pc, born := bornAfter b.c.store c })[i]? =
              some { op := c.op, pc := o.pc, born := bornAfter b.c.store c } := List.getElem?_set_self hlt
          have hne : ∀ j, j ≠ i →
              (b.c.clients.set i { op := c.op, pc := o.pc, born := bornAfter b.c.store c })[j]? =
                b.c.clients[j]? := fun j hj => List.getElem?_set_ne (Ne.symm hj)
          obtain ⟨f1, f2, f3, f4, f5, f6⟩ := cstep_bytes_facts hco
          have htyped := hb.typed c (List.mem_of_getElem? hci)
          have hip : InPlace b.c.store (o.eff.store b.c.store) := o.eff.inPlace ha
          have hact : ∀ a0, b.c.store.active = some a0 →
              ∃ a', (o.eff.store b.c.store).active = some a' ∧ a'.id = a0.id := by
            intro a0 ha0
            obtain ⟨x, x', hx, hx', hs⟩ := hip.active
            rw [ha0] at hx; cases hx
            exact ⟨x', hx', hs.1⟩
          have hold := hp.client i c hci
          refine ⟨hev.ok hp.ok, hev.len hp.len, ?_, ?_, ?_⟩
          · -- in flight
            intro x' hx' hw
            show ∃ c', (b.c.clients.set i _)[x'.client]? = some c' ∧ _
            by_cases hc : x'.client = i
            · rw [hc, hself]
              refine ⟨_, rfl, ?_⟩
              show o.pc = .wReserved
              by_cases h1 : c.pc = .wBlob
              · exact (f2 h1).1
              · exfalso
                by_cases h2 : c.pc = .wReserved
                · obtain ⟨_, k, ts, d, hop, _⟩ := f4 h2
                  have hx'' : x' ∈ (b.y.land i).allocs := by
                    rw [← bytesStep_wReserved hci h2 hop]; exact hx'
                  have := land_written x' hx'' hc
                  rw [this] at hw; cases hw
                · rcases bytesStep_other (klen := klen) hci h1 h2 b.y with ⟨y1, _, he⟩ | he
                  · have hx'' : x' ∈ (y1.land i).allocs := by rw [← he]; exact hx'
                    have := land_written x' hx'' hc
                    rw [this] at hw; cases hw
                  · have hx'' : x' ∈ b.y.allocs := by rw [← he]; exact hx'
                    obtain ⟨c0, hc0, hpc0⟩ := hp.inflight x' hx'' hw
                    rw [hc, hci] at hc0; cases hc0
                    exact h2 hpc0
            · have hx'' := (hev.others x' hc).1 hx'
              obtain ⟨c0, hc0, hpc0⟩ := hp.inflight x' hx'' hw
              exact ⟨c0, by rw [hne _ hc]; exact hc0, hpc0⟩
          · -- clients
            intro j cj hcj
            change (b.c.clients.set i _)[j]? = some cj at hcj
            show LCInv (o.eff.store b.c.store) (bytesStep klen b.c i b.y) j cj
            by_cases hji : j = i
            · subst hji
              rw [hself] at hcj; cases hcj
              refine ⟨fun hpc => ?_, fun hpc => ?_, fun p hpl => ?_⟩
              · have hpc : o.pc = .wReserved := hpc
                have h1 := f1 hpc
                obtain ⟨_, hsk⟩ := f2 h1
                obtain ⟨k, ts, d, hop⟩ : ∃ k ts d, c.op = .write k ts d := by
                  have := htyped; unfold Typed at this; rw [h1] at this; exact this
                rw [bytesStep_wBlob hci h1 hop ha, eff_store_of_skip_land _ (Or.inl hsk)]
                refine ⟨_, List.mem_cons_self, rfl, rfl, ⟨a, ha, rfl⟩, ?_⟩
                intro k' ts' d' hop'
                have hop' : c.op = .write k' ts' d' := hop'
                rw [hop] at hop'; cases hop'; rfl
              · have hpc : o.pc = .wWritten := hpc
                have h1 := f3 hpc
                obtain ⟨_, k, ts, d, hop, hef⟩ := f4 h1
                obtain ⟨x, hx, g1, g2, g3, g4⟩ := hold.1 h1
                rw [bytesStep_wReserved hci h1 hop, eff_store_of_skip_land _ (Or.inr ⟨_, hef⟩)]
                exact ⟨_, mem_land.2 ⟨x, hx, rfl⟩, by simp [g1], by simp [g1], by simpa [g1] using g3,
                  by simpa [g1] using g4⟩
              · have hpl : o.pc.place = some p := hpl
                rcases (cstep_facts3 hco).2.2.1 p hpl with h1 | h1
                · obtain ⟨x, hx, g1, g2, g3⟩ := hold.2.2 p h1
                  exact ⟨x, hev.written x hx g2, g1, g2, g3⟩
                · obtain ⟨hw, a0, ha0, hpb⟩ := f6 _ h1
                  obtain ⟨k, ts, d, hop, hr, _⟩ := (cstep_facts hco).2.2.2.1 _ h1
                  obtain ⟨x, hx, g1, g2, ⟨a1, ga1, gb⟩, g4⟩ := hold.2.1 hw
                  rw [ha0] at ga1; cases ga1
                  exact ⟨x, hev.written x hx g2, g1, g2, by rw [gb, (hpb p hpl).1], by rw [g4 k ts d hop, hr]⟩
            · rw [hne j hji] at hcj
              exact (hp.client j cj hcj).stable hev hji hact
          · -- landed
            intro r hr
            change r ∈ o.eff.landed b.c.landed at hr
            rcases mem_eff_landed hr with he | hr
            · right
              have h1 := f5 r he
              obtain ⟨_, k, ts, d, hop, hef⟩ := f4 h1
              rw [he] at hef; cases hef
              obtain ⟨x, hx, g1, g2, g3, g4⟩ := hold.1 h1
              show ∃ x ∈ (bytesStep klen b.c i b.y).allocs, _
              rw [bytesStep_wReserved hci h1 hop]
              exact ⟨_, mem_land.2 ⟨x, hx, rfl⟩, by simp [g1], by simpa [g1] using g4 k ts d hop⟩
            · rcases hp.landed r hr with h1 | ⟨x, hx, g1, g2⟩
              · exact Or.inl h1
              · exact Or.inr ⟨x, hev.written x hx g1, g1, g2⟩
    | rotate =>
      simp only [fire] at hf
      split at hf
      · rename_i hall
        simp only [Option.some.injEq] at hf
        subst hf
        rw [List.all_eq_true] at hall
        refine ⟨hp.ok, hp.len, hp.inflight, ?_, hp.landed⟩
        intro j cj hcj
        exact (hp.client j cj hcj).stable_rot (by simpa using hall cj (List.mem_of_getElem? hcj))
      · exact absurd hf (by simp)
    | dump =>
      simp only [fire, Option.some.injEq] at hf
      subst hf
      refine ⟨hp.ok, hp.len, hp.inflight, ?_, hp.landed⟩
      intro j cj hcj
      have hip := inPlace_settle ha
      refine ⟨?_, ?_, (hp.client j cj hcj).2.2⟩
      · intro hpc
        obtain ⟨x, hx, g1, g2, ⟨a0, ga0, gb⟩, g4⟩ := (hp.client j cj hcj).1 hpc
        obtain ⟨u, u', hu, hu', hs⟩ := hip.active
        rw [ga0] at hu; cases hu
        exact ⟨x, hx, g1, g2, ⟨u', hu', by rw [gb, hs.1]⟩, g4⟩
      · intro hpc
        obtain ⟨x, hx, g1, g2, ⟨a0, ga0, gb⟩, g4⟩ := (hp.client j cj hcj).2.1 hpc
        obtain ⟨u, u', hu, hu', hs⟩ := hip.active
        rw [ga0] at hu; cases hu
        exact ⟨x, hx, g1, g2, ⟨u', hu', by rw [gb, hs.1]⟩, g4⟩

theorem bfire_fire {klen : Nat} {l : Label} {b b' : BState} (h : bfire klen l b = some b') :
    fire l b.c = some b'.c := by
  simp only [bfire] at h
  cases hf : fire l b.c with
  | none => simp [hf] at h
  | some c' => simp only [hf, Option.some.injEq] at h; subst h; rfl

theorem bfire_evolves {klen : Nat} {l : Label} {b b' : BState} (h : bfire klen l b = some b') :
    ∃ i, Evolves klen i b.y b'.y := by
  simp only [bfire] at h
  cases hf : fire l b.c with
  | none => simp [hf] at h
  | some c' =>
    simp only [hf, Option.some.injEq] at h
    subst h
    cases l with
    | step i => exact ⟨i, bytesStep_evolves klen b.c i b.y⟩
    | rotate => exact ⟨0, .refl⟩
    | dump => exact ⟨0, .refl⟩

theorem breach_reach {klen : Nat} {b0 b : BState} (h : BReach klen b0 b) : Reach b0.c b.c := by
  induction h with
  | refl => exact .refl
  | step _ hs ih => obtain ⟨l, hl⟩ := hs; exact .step ih ⟨l, bfire_fire hl⟩

theorem breach_trans {klen : Nat} {b0 b b' : BState} (h1 : BReach klen b0 b) (h2 : BReach klen b b') :
    BReach klen b0 b' := by
  induction h2 with
  | refl => exact h1
  | step _ hs ih => exact .step ih hs

theorem brun_reach (klen : Nat) (sched : List Label) (b0 b b' : BState) (h0 : BReach klen b0 b)
    (h : brun klen sched b = some b') : BReach klen b0 b' := by
  induction sched generalizing b with
  | nil => simp [brun] at h; subst h; exact h0
  | cons l ls ih =>
    simp only [brun] at h
    cases hf : bfire klen l b with
    | none => simp [hf] at h
    | some b1 => simp only [hf] at h; exact ih b1 (.step h0 ⟨l, hf⟩) h

theorem pinv_reach {klen : Nat} {st : Store} {ops : List COp} {b : BState} (hwf : st.WF) {a : Blob}
    (ha : st.active = some a) (h : BReach klen (binit klen st ops) b) : PInv klen st b := by
  induction h with
  | refl => exact pinv_init klen st ops
  | step hr hs ih =>
    obtain ⟨l, hl⟩ := hs
    have hr' : Reach (init st ops) _ := breach_reach hr
    exact pinv_fire (tinv_reach hwf ha hr').1 (binv_reach hr') ih hl

/-- a filled range is never given up: it is a reservation of every later state, as it is -/
theorem breach_written {klen : Nat} {b b' : BState} (h : BReach klen b b') :
    ∀ x ∈ b.y.allocs, x.written = true → x ∈ b'.y.allocs := by
  induction h with
  | refl => intro x hx _; exact hx
  | step _ hs ih =>
    obtain ⟨l, hl⟩ := hs
    obtain ⟨i, hev⟩ := bfire_evolves hl
    intro x hx hw
    exact hev.written x (ih x hx hw) hw


/-! ### the layout: a reservation is where the sequential file layout puts its record -/

theorem contentLen_snoc (klen : Nat) (recs : List Rec) (r : Rec) :
    Fs.contentLen klen (recs ++ [r]) = Fs.contentLen klen recs + Fs.recLen klen r := by
  simp [Fs.contentLen, Nat.add_assoc]

/-- bytes reserved and not yet indexed by a client: a write between its `fetch_add` and its `index.push` -/
def pendOf (klen : Nat) (c : Client) : Nat :=
  match c.pc, c.op with
  | .wReserved, .write k ts d => Fs.recLen klen (wrec k ts d)
  | .wWritten, .write k ts d => Fs.recLen klen (wrec k ts d)
  | _, _ => 0

def pend (klen : Nat) (cs : List Client) : Nat := (cs.map (pendOf klen)).sum

theorem pend_set {klen : Nat} : ∀ {cs : List Client} {i : Nat} {c : Client} (c' : Client), cs[i]? = some c →
    pend klen (cs.set i c') + pendOf klen c = pend klen cs + pendOf klen c'
  | [], _, _, _, h => by simp at h
  | a :: cs, 0, c, c', h => by
    simp only [List.getElem?_cons_zero, Option.some.injEq] at h
    subst h
    simp only [pend, List.set_cons_zero, List.map_cons, List.sum_cons]
    omega
  | a :: cs, i + 1, c, c', h => by
    simp only [List.getElem?_cons_succ] at h
    have := pend_set (klen := klen) c' h
    simp only [pend, List.set_cons_succ, List.map_cons, List.sum_cons] at this ⊢
    omega

theorem pendOf_zero {klen : Nat} {c : Client} (h1 : c.pc ≠ .wReserved) (h2 : c.pc ≠ .wWritten) :
    pendOf klen c = 0 := by
  unfold pendOf
  split
  · rename_i h _; exact absurd h h1
  · rename_i h _; exact absurd h h2
  · rfl

theorem pend_zero {klen : Nat} {cs : List Client} (h : ∀ c ∈ cs, c.pc ≠ .wReserved ∧ c.pc ≠ .wWritten) :
    pend klen cs = 0 := by
  induction cs with
  | nil => rfl
  | cons c cs ih =>
    simp only [pend, List.map_cons, List.sum_cons]
    have h1 := h c (by simp)
    rw [pendOf_zero h1.1 h1.2]
    have := ih (fun x hx => h x (by simp [hx]))
    simp only [pend] at this
    omega

/-- the reservation `x` is the range of the record at some position of its blob, as `Fs.contentLen` lays it out -/
def Placed (klen : Nat) (st : Store) (x : Alloc) : Prop :=
  ∃ bl ∈ st.blobs, bl.id = x.blob ∧ ∃ n, bl.recs[n]? = some x.r ∧ x.rng.off = Fs.contentLen klen (bl.recs.take n)

theorem Placed.mono {klen : Nat} {st st' : Store} {x : Alloc}
    (h : ∀ bl ∈ st.blobs, ∃ bl' ∈ st'.blobs, BLe bl bl') (hp : Placed klen st x) : Placed klen st' x := by
  obtain ⟨bl, hbl, hid, n, hn, hoff⟩ := hp
  obtain ⟨bl', hbl', hle⟩ := h bl hbl
  obtain ⟨t, ht⟩ := hle.2
  have hlt : n < bl.recs.length := by
    rcases Nat.lt_or_ge n bl.recs.length with h1 | h1
    · exact h1
    · rw [List.getElem?_eq_none h1] at hn; cases hn
  refine ⟨bl', hbl', by rw [hle.1, hid], n, ?_, ?_⟩
  · rw [← ht, List.getElem?_append_left hlt]; exact hn
  · rw [hoff, ← ht, List.take_append_of_le_length (Nat.le_of_lt hlt)]

theorem Placed.of_inPlace {klen : Nat} {st st' : Store} {x : Alloc} (h : InPlace st st')
    (hp : Placed klen st x) : Placed klen st' x :=
  hp.mono (fun bl hbl => let ⟨y, hy, hs⟩ := h.blobs_cont.fwd bl hbl; ⟨y, hy, .of_step hs⟩)

/-- the reservations `delete_in_closed` makes, blob by blob -/
def resvAll (i : Nat) (g : Blob → Bool) (r : Rec) (len : Nat) (y : Bytes) (bs : List Blob) : Bytes :=
  bs.foldl (fun y b => if g b then y.reserve i b.id r len else y) y

theorem resvAll_spec (i : Nat) (g : Blob → Bool) (r : Rec) (len : Nat) : ∀ (bs : List Blob) (y : Bytes),
    (bs.map (·.id)).Nodup →
    (∀ b ∈ bs, g b = true → (resvAll i g r len y bs).size b.id = y.size b.id + len) ∧
    (∀ id, (∀ b ∈ bs, g b = true → b.id ≠ id) → (resvAll i g r len y bs).size id = y.size id) ∧
    (∀ x, x ∈ (resvAll i g r len y bs).allocs ↔ x ∈ y.allocs ∨
      ∃ b ∈ bs, g b = true ∧ x = ⟨i, b.id, ⟨y.size b.id, len⟩, r, false⟩) ∧
    (resvAll i g r len y bs).file = y.file
  | [], y, _ => by simp [resvAll]
  | b :: bs, y, hnd => by
    simp only [List.map_cons, List.nodup_cons] at hnd
    have hnot : ∀ b' ∈ bs, b'.id ≠ b.id := fun b' hb' e => hnd.1 (by rw [← e]; exact List.mem_map_of_mem hb')
    by_cases hg : g b = true
    · obtain ⟨i1, i2, i3, i4⟩ := resvAll_spec i g r len bs (y.reserve i b.id r len) hnd.2
      have hstep : resvAll i g r len y (b :: bs) = resvAll i g r len (y.reserve i b.id r len) bs := by
        simp [resvAll, hg]
      have hsz : ∀ id, id ≠ b.id → (y.reserve i b.id r len).size id = y.size id := by
        intro id hne; simp [Bytes.reserve, hne]
      have hszb : (y.reserve i b.id r len).size b.id = y.size b.id + len := by
        simp [Bytes.reserve, fetchAdd]
      rw [hstep]
      refine ⟨?_, ?_, ?_, by rw [i4]; rfl⟩
      · intro b' hb' hg'
        rcases List.mem_cons.1 hb' with rfl | hb'
        · rw [i2 _ (fun x hx _ => hnot x hx), hszb]
        · rw [i1 b' hb' hg', hsz _ (hnot b' hb')]
      · intro id hid
        rw [i2 id (fun x hx hgx => hid x (by simp [hx]) hgx), hsz id (Ne.symm (hid b (by simp) hg))]
      · intro x
        rw [i3 x]
        constructor
        · rintro (h1 | ⟨b', hb', hg', rfl⟩)
          · rcases List.mem_cons.1 h1 with rfl | h1
            · exact Or.inr ⟨b, by simp, hg, by simp [fetchAdd]⟩
            · exact Or.inl h1
          · exact Or.inr ⟨b', by simp [hb'], hg', by rw [hsz _ (hnot b' hb')]⟩
        · rintro (h1 | ⟨b', hb', hg', rfl⟩)
          · exact Or.inl (List.mem_cons_of_mem _ h1)
          · rcases List.mem_cons.1 hb' with rfl | hb'
            · exact Or.inl (by simp [Bytes.reserve, fetchAdd])
            · exact Or.inr ⟨b', hb', hg', by rw [hsz _ (hnot b' hb')]⟩
    · obtain ⟨i1, i2, i3, i4⟩ := resvAll_spec i g r len bs y hnd.2
      have hstep : resvAll i g r len y (b :: bs) = resvAll i g r len y bs := by
        simp [resvAll, hg]
      rw [hstep]
      refine ⟨?_, ?_, ?_, i4⟩
      · intro b' hb' hg'
        rcases List.mem_cons.1 hb' with rfl | hb'
        · exact absurd hg' hg
        · exact i1 b' hb' hg'
      · intro id hid
        exact i2 id (fun x hx hgx => hid x (by simp [hx]) hgx)
      · intro x
        rw [i3 x]
        constructor
        · rintro (h1 | ⟨b', hb', hg', rfl⟩)
          · exact Or.inl h1
          · exact Or.inr ⟨b', by simp [hb'], hg', rfl⟩
        · rintro (h1 | ⟨b', hb', hg', rfl⟩)
          · exact Or.inl h1
          · rcases List.mem_cons.1 hb' with rfl | hb'
            · exact absurd hg' hg
            · exact Or.inr ⟨b', hb', hg', rfl⟩

set_option linter.unusedSimpArgs false in
theorem cstep_lay_facts {st : Store} {landed : List Rec} {bl : Option Nat} {i : Nat} {c : Client} {o : Out}
    (h : cstep st landed bl i c = some o) :
    (c.pc = .wWritten → ∃ k ts d a, c.op = .write k ts d ∧ st.active = some a ∧ o.eff = .push (wrec k ts d) ∧
      ∃ p, o.pc = .wPushed p) ∧
    (c.pc = .dActive → bl = none ∧ ∃ k ts oip, c.op = .delete k ts oip ∧ o.eff = .delA k ts oip ∧
      ∃ n, o.pc = .dClosed n) ∧
    (∀ n, c.pc = .dClosed n → ∃ k ts oip, c.op = .delete k ts oip ∧ o.eff = .delC k ts ∧ ∃ r, o.pc = .rel r) ∧
    (c.pc ≠ .wWritten → c.pc ≠ .dActive → (∀ n, c.pc ≠ .dClosed n) → o.eff.store st = st) := by
  obtain ⟨op, pc, born⟩ := c
  cases pc <;> cases op <;> simp only [cstep] at h <;> (try split at h) <;>
    first
    | (simp only [Option.some.injEq] at h; subst h; simp [Eff.store]; done)
    | (simp only [Option.some.injEq] at h; subst h; simp [Eff.store] <;> (try split) <;> simp [Eff.store]; done)
    | (simp only [Option.some.injEq] at h; subst h; rename_i h1 h2; cases h1;
       exact ⟨fun _ => ⟨_, _, _, _, rfl, h2, rfl, _, rfl⟩, by simp, by simp, by simp⟩)
    | (simp only [Option.some.injEq] at h; subst h; rename_i h1; simp [Eff.store, h1]; done)
    | (simp at h; done)

theorem bytesStep_dActive {klen : Nat} {s : CState} {i : Nat} {c : Client} {a : Blob} {k : Key} {ts : Nat}
    {oip : Bool} (hc : s.clients[i]? = some c) (hpc : c.pc = .dActive) (hop : c.op = .delete k ts oip)
    (ha : s.store.active = some a) (y : Bytes) :
    bytesStep klen s i y =
      if (Store.blobDelete a k ts none oip).2 then
        (y.reserve i a.id (dmark k ts) (Fs.recLen klen (dmark k ts))).land i
      else y := by
  simp only [bytesStep, hc, hpc, hop, ha]

theorem bytesStep_dClosed {klen : Nat} {s : CState} {i n : Nat} {c : Client} {k : Key} {ts : Nat}
    {oip : Bool} (hc : s.clients[i]? = some c) (hpc : c.pc = .dClosed n) (hop : c.op = .delete k ts oip)
    (y : Bytes) :
    bytesStep klen s i y =
      (resvAll i (fun b => (Store.blobDelete b k ts none true).2) (dmark k ts) (Fs.recLen klen (dmark k ts)) y
        s.store.closed).land i := by
  simp only [bytesStep, hc, hpc, hop, resvAll]

theorem bytesStep_self {klen : Nat} {s : CState} {i : Nat} {c : Client}
    (hc : s.clients[i]? = some c) (h1 : c.pc ≠ .wBlob) (h2 : c.pc ≠ .wReserved) (h3 : c.pc ≠ .dActive)
    (h4 : ∀ n, c.pc ≠ .dClosed n) (y : Bytes) : bytesStep klen s i y = y := by
  obtain ⟨op, pc, born⟩ := c
  cases pc <;> simp at h1 h2 h3 h4 <;> cases op <;> simp [bytesStep, hc]

theorem marker_eq_dmark (k : Key) (ts : Nat) : Store.marker k ts none = dmark k ts := rfl

theorem wf_facts {st : Store} (hwf : st.WF) {a : Blob} (ha : st.active = some a) :
    (∀ bl ∈ st.closed, bl.id ≠ a.id ∧ bl.id < st.nextId) ∧ a.id < st.nextId ∧ (st.closed.map (·.id)).Nodup := by
  have hb := blobs_of_active ha
  have h1 := hwf.1
  rw [hb, List.map_append, List.pairwise_append] at h1
  refine ⟨fun bl hbl => ⟨?_, hwf.2 bl (by rw [hb]; simp [hbl])⟩, hwf.2 a (by rw [hb]; simp), ?_⟩
  · have := h1.2.2 bl.id (List.mem_map_of_mem hbl) a.id (by simp)
    omega
  · exact h1.1.imp (fun h => Nat.ne_of_lt h)

theorem excl {s : CState} (hb : BInv s) {i j : Nat} {ci cj : Client} (hi : s.clients[i]? = some ci)
    (hbi : ci.pc.holdsB = true) (hj : s.clients[j]? = some cj) (hbj : cj.pc.holdsB = true) : j = i := by
  have h1 := hb.inside i ci hi hbi
  have h2 := hb.inside j cj hj hbj
  rw [h1] at h2
  exact (Option.some.inj h2).symm

theorem inflight_holdsB {c : Client} (h : c.pc = .wReserved ∨ c.pc = .wWritten) : c.pc.holdsB = true := by
  rcases h with h | h <;> rw [h] <;> rfl

theorem pend_single {klen : Nat} {cs : List Client} {i : Nat} {c : Client} (hc : cs[i]? = some c)
    (h : ∀ j cj, cs[j]? = some cj → j ≠ i → cj.pc ≠ .wReserved ∧ cj.pc ≠ .wWritten) :
    pend klen cs = pendOf klen c := by
  have hlt : i < cs.length := by
    rcases Nat.lt_or_ge i cs.length with h1 | h1
    · exact h1
    · rw [List.getElem?_eq_none h1] at hc; cases hc
  let c0 : Client := { op := c.op, pc := .idle, born := c.born }
  have h0 : pendOf klen c0 = 0 := pendOf_zero (by simp [c0]) (by simp [c0])
  have hs := pend_set (klen := klen) c0 hc
  have hz : pend klen (cs.set i c0) = 0 := by
    apply pend_zero
    intro x hx
    obtain ⟨j, hj⟩ := List.mem_iff_getElem?.1 hx
    by_cases hji : j = i
    · subst hji
      rw [List.getElem?_set_self hlt] at hj
      cases hj; simp [c0]
    · rw [List.getElem?_set_ne (Ne.symm hji)] at hj
      exact h j x hj hji
  omega

/-- the reservation `x` is placed, or belongs to the write in flight and starts where the active blob ends -/
def Sited (klen : Nat) (st : Store) (cs : List Client) (x : Alloc) : Prop :=
  Placed klen st x ∨
    ∃ c a, cs[x.client]? = some c ∧ (c.pc = .wReserved ∨ c.pc = .wWritten) ∧ st.active = some a ∧
      x.blob = a.id ∧ x.rng.off = Fs.contentLen klen a.recs ∧ ∀ k ts d, c.op = .write k ts d → x.r = wrec k ts d

/-- the layout invariant of the product -/
structure LayInv (klen : Nat) (b : BState) : Prop where
  closed : ∀ bl ∈ b.c.store.closed, b.y.size bl.id = Fs.contentLen klen bl.recs
  active : ∀ a, b.c.store.active = some a →
    b.y.size a.id = Fs.contentLen klen a.recs + pend klen b.c.clients
  fresh : ∀ id, b.c.store.nextId ≤ id → b.y.size id = blobHeaderSize
  place : ∀ x ∈ b.y.allocs, Sited klen b.c.store b.c.clients x

theorem sizeOf_of_mem {klen : Nat} {st : Store} (hwf : st.WF) {bl : Blob} (h : bl ∈ st.blobs) :
    sizeOf klen st bl.id = Fs.contentLen klen bl.recs := by
  unfold sizeOf
  have hnd : (st.blobs.map (·.id)).Nodup := hwf.1.imp (fun h => Nat.ne_of_lt h)
  have : st.blobs.find? (fun b => b.id == bl.id) = some bl := by
    generalize st.blobs = l at h hnd
    induction l with
    | nil => cases h
    | cons x l ih =>
      simp only [List.map_cons, List.nodup_cons] at hnd
      rcases List.mem_cons.1 h with rfl | h
      · simp
      · have hne : (x.id == bl.id) = false := by
          simp only [beq_eq_false_iff_ne, ne_eq]
          exact fun e => hnd.1 (by rw [e]; exact List.mem_map_of_mem h)
        rw [List.find?_cons, hne]
        exact ih h hnd.2
  rw [this]

theorem sizeOf_fresh {klen : Nat} {st : Store} (hwf : st.WF) {id : Nat} (h : st.nextId ≤ id) :
    sizeOf klen st id = blobHeaderSize := by
  unfold sizeOf
  have : st.blobs.find? (fun b => b.id == id) = none := by
    rw [List.find?_eq_none]
    intro b hb
    have := hwf.2 b hb
    simp; omega
  rw [this]

theorem layinv_init {klen : Nat} {st : Store} (hwf : st.WF) (ops : List COp) : LayInv klen (binit klen st ops) where
  closed := fun bl hbl => by
    have hbl : bl ∈ st.closed := hbl
    exact sizeOf_of_mem hwf (by simp [Store.blobs, hbl])
  active := by
    intro a ha
    have ha : st.active = some a := ha
    show sizeOf klen st a.id = _
    rw [sizeOf_of_mem hwf (by rw [blobs_of_active ha]; simp)]
    have : pend klen (binit klen st ops).c.clients = 0 := by
      apply pend_zero
      intro c hc
      simp only [binit, init, List.mem_map] at hc
      obtain ⟨op, _, rfl⟩ := hc
      simp
    rw [this]; rfl
  fresh := fun id h => sizeOf_fresh hwf h
  place := by intro x hx; cases hx

theorem nodup_map_inj {α β} {f : α → β} : ∀ {l : List α}, (l.map f).Nodup →
    ∀ x ∈ l, ∀ z ∈ l, f x = f z → x = z
  | [], _, x, hx, _, _, _ => by cases hx
  | a :: l, h, x, hx, z, hz, e => by
    simp only [List.map_cons, List.nodup_cons] at h
    rcases List.mem_cons.1 hx with rfl | hx'
    · rcases List.mem_cons.1 hz with rfl | hz'
      · rfl
      · exact absurd (by rw [e]; exact List.mem_map_of_mem hz') h.1
    · rcases List.mem_cons.1 hz with rfl | hz'
      · exact absurd (by rw [← e]; exact List.mem_map_of_mem hx') h.1
      · exact nodup_map_inj h.2 x hx' z hz' e

theorem land_size (y : Bytes) (i : Nat) : (y.land i).size = y.size := rfl

/-- `Sited` looks at a reservation's client, blob, range and record only -/
theorem sited_land {klen : Nat} {st : Store} {cs : List Client} {y : Bytes} {i : Nat}
    (h : ∀ x ∈ y.allocs, Sited klen st cs x) : ∀ x ∈ (y.land i).allocs, Sited klen st cs x := by
  intro x' hx'
  obtain ⟨x, hx, rfl⟩ := mem_land.1 hx'
  have := h x hx
  split
  · exact this
  · exact this

theorem closed_replaceActive {st : Store} {a : Blob} (ha : st.active = some a) :
    st.replaceActive.closed = st.closed ++ [a] ∧
      st.replaceActive.active = some { id := st.nextId, recs := [] } ∧
      st.replaceActive.nextId = st.nextId + 1 := by
  unfold Store.replaceActive
  simp [Store.createActive, Store.closed, ha, List.filterMap_append]

theorem contentLen_nil (klen : Nat) : Fs.contentLen klen [] = blobHeaderSize := by simp [Fs.contentLen]

theorem layinv_fire {klen : Nat} {b b' : BState} {l : Label} (hi : Inv b.c) (hb : BInv b.c)
    (hl : LayInv klen b) (h : bfire klen l b = some b') : LayInv klen b' := by
  obtain ⟨a, ha⟩ := hi.active
  obtain ⟨wcl, wact, wnd⟩ := wf_facts hi.wf ha
  simp only [bfire] at h
  cases hf : fire l b.c with
  | none => simp [hf] at h
  | some c' =>
    simp only [hf, Option.some.injEq] at h
    subst h
    cases l with
    | step i =>
      simp only [fire] at hf
      cases hci : b.c.clients[i]? with
      | none => simp [hci] at hf
      | some c =>
        cases hco : cstep b.c.store b.c.landed b.c.blobLock i c with
        | none => simp [hci, hco] at hf
        | some o =>
          simp only [hci, hco, Option.some.injEq] at hf
          subst hf
          have hlt : i < b.c.clients.length := by
            rcases Nat.lt_or_ge i b.c.clients.length with h1 | h1
            · exact h1
            · rw [List.getElem?_eq_none h1] at hci; cases hci
          have hself : (b.c.clients.set i { op := c.op, pc := o.pc, born := bornAfter b.c.store c })[i]? =
              some { op := c.op, pc := o.pc, born := bornAfter b.c.store c } := List.getElem?_set_self hlt
          have hne : ∀ j, j ≠ i →
              (b.c.clients.set i { op := c.op, pc := o.pc, born := bornAfter b.c.store c })[j]? =
                b.c.clients[j]? := fun j hj => List.getElem?_set_ne (Ne.symm hj)
          obtain ⟨f1, f2, f3, f4, f5, f6⟩ := cstep_bytes_facts hco
          obtain ⟨g1, g2, g3, g4⟩ := cstep_lay_facts hco
          have htyped := hb.typed c (List.mem_of_getElem? hci)
          have hps := pend_set (klen := klen) { op := c.op, pc := o.pc, born := bornAfter b.c.store c } hci
          -- a reservation in flight belongs to the holder of the blob lock
          have hothers : c.pc.holdsB = true → ∀ j cj, b.c.clients[j]? = some cj → j ≠ i →
              cj.pc ≠ .wReserved ∧ cj.pc ≠ .wWritten := by
            intro hB j cj hcj hji
            constructor <;> intro hp <;>
              exact hji (excl hb hci hB hcj (inflight_holdsB (by simp [hp])))
          show LayInv klen ⟨⟨o.eff.store b.c.store, _, _, _, _⟩, bytesStep klen b.c i b.y⟩
          by_cases p1 : c.pc = .wBlob
          · -- `fetch_add`
            obtain ⟨hpc', hsk⟩ := f2 p1
            obtain ⟨k, ts, d, hop⟩ : ∃ k ts d, c.op = .write k ts d := by
              have := htyped; unfold Typed at this; rw [p1] at this; exact this
            have hst : o.eff.store b.c.store = b.c.store := eff_store_of_skip_land _ (Or.inl hsk)
            have hpend0 : pend klen b.c.clients = 0 := by
              rw [pend_single hci (hothers (by rw [p1]; rfl))]
              exact pendOf_zero (by rw [p1]; simp) (by rw [p1]; simp)
            have hpc0 : pendOf klen c = 0 := pendOf_zero (by rw [p1]; simp) (by rw [p1]; simp)
            have hpc1 : pendOf klen { op := c.op, pc := o.pc, born := bornAfter b.c.store c } =
                Fs.recLen klen (wrec k ts d) := by simp [pendOf, hpc', hop]
            rw [bytesStep_wBlob hci p1 hop ha]
            refine ⟨?_, ?_, ?_, ?_⟩
            · intro bl hbl
              have hbl : bl ∈ (o.eff.store b.c.store).closed := hbl
              rw [hst] at hbl
              have := hl.closed bl hbl
              simp only [Bytes.reserve, (wcl bl hbl).1, if_false]
              exact this
            · intro a' ha'
              have ha' : (o.eff.store b.c.store).active = some a' := ha'
              rw [hst, ha] at ha'; cases ha'
              have := hl.active a ha
              show (if a.id = a.id then _ else _) = _
              simp only [fetchAdd, if_true]
              show b.y.size a.id + _ = _ + pend klen (b.c.clients.set i _)
              omega
            · intro id hid
              have hid : (o.eff.store b.c.store).nextId ≤ id := hid
              rw [hst] at hid
              have : id ≠ a.id := by omega
              simp only [Bytes.reserve, this, if_false]
              exact hl.fresh id hid
            · intro x hx
              show Sited klen (o.eff.store b.c.store) _ x
              rw [hst]
              rcases List.mem_cons.1 hx with rfl | hx
              · right
                refine ⟨_, a, hself, Or.inl hpc', ha, rfl, ?_, ?_⟩
                · show b.y.size a.id = _
                  rw [hl.active a ha, hpend0]; rfl
                · intro k' ts' d' hop'
                  have hop' : c.op = .write k' ts' d' := hop'
                  rw [hop] at hop'; cases hop'; rfl
              · rcases hl.place x hx with h1 | ⟨cj, aj, h1, h2, h3⟩
                · exact Or.inl h1
                · have hji : x.client ≠ i := by
                    intro e
                    rw [e, hci] at h1; cases h1
                    rcases h2 with h2 | h2 <;> rw [p1] at h2 <;> cases h2
                  exact Or.inr ⟨cj, aj, by rw [hne _ hji]; exact h1, h2, h3⟩
          · by_cases p2 : c.pc = .wReserved
            · -- `write_all_at`
              obtain ⟨hpc', k, ts, d, hop, hef⟩ := f4 p2
              have hst : o.eff.store b.c.store = b.c.store := eff_store_of_skip_land _ (Or.inr ⟨_, hef⟩)
              have hpeq : pendOf klen { op := c.op, pc := o.pc, born := bornAfter b.c.store c } = pendOf klen c := by
                simp [pendOf, hpc', hop, p2]
              rw [bytesStep_wReserved hci p2 hop]
              refine ⟨?_, ?_, ?_, ?_⟩
              · intro bl hbl
                have hbl : bl ∈ (o.eff.store b.c.store).closed := hbl
                rw [hst] at hbl; exact hl.closed bl hbl
              · intro a' ha'
                have ha' : (o.eff.store b.c.store).active = some a' := ha'
                rw [hst] at ha'
                have := hl.active a' ha'
                show b.y.size a'.id = _ + pend klen (b.c.clients.set i _)
                omega
              · intro id hid
                have hid : (o.eff.store b.c.store).nextId ≤ id := hid
                rw [hst] at hid; exact hl.fresh id hid
              · show ∀ x ∈ (b.y.land i).allocs, Sited klen (o.eff.store b.c.store) _ x
                rw [hst]
                apply sited_land
                intro x hx
                rcases hl.place x hx with h1 | ⟨cj, aj, h1, h2, h3⟩
                · exact Or.inl h1
                · by_cases hji : x.client = i
                  · rw [hji, hci] at h1; cases h1
                    obtain ⟨h3, h4, h5, h6⟩ := h3
                    exact Or.inr ⟨{ op := c.op, pc := o.pc, born := bornAfter b.c.store c }, aj,
                      by rw [hji]; exact hself, Or.inr hpc', h3, h4, h5, h6⟩
                  · exact Or.inr ⟨cj, aj, by rw [hne _ hji]; exact h1, h2, h3⟩
            · by_cases p3 : c.pc = .wWritten
              · -- `index.push`
                obtain ⟨k, ts, d, a0, hop, ha0, hef, p, hpc'⟩ := g1 p3
                rw [ha] at ha0; cases ha0
                have hst : o.eff.store b.c.store = appendActive b.c.store (wrec k ts d) := by rw [hef]; rfl
                have hip := inPlace_appendActive ha (wrec k ts d)
                have hact' : (appendActive b.c.store (wrec k ts d)).active = some (a.append (wrec k ts d)) := by
                  simp [appendActive, ha]
                have hcl' : (appendActive b.c.store (wrec k ts d)).closed = b.c.store.closed := by
                  simp [appendActive, ha, Store.closed]
                have hnx' : (appendActive b.c.store (wrec k ts d)).nextId = b.c.store.nextId := hip.nextId
                have hpc0 : pendOf klen c = Fs.recLen klen (wrec k ts d) := by simp [pendOf, p3, hop]
                have hpc1 : pendOf klen { op := c.op, pc := o.pc, born := bornAfter b.c.store c } = 0 :=
                  pendOf_zero (by simp [hpc']) (by simp [hpc'])
                rw [bytesStep_self hci p1 p2 (by rw [p3]; simp) (by rw [p3]; simp), hst]
                refine ⟨?_, ?_, ?_, ?_⟩
                · intro bl hbl; rw [hcl'] at hbl; exact hl.closed bl hbl
                · intro a' ha'
                  rw [hact'] at ha'; cases ha'
                  have := hl.active a ha
                  show b.y.size a.id = Fs.contentLen klen (a.recs ++ [_]) + pend klen (b.c.clients.set i _)
                  rw [contentLen_snoc]; omega
                · intro id hid; rw [hnx'] at hid; exact hl.fresh id hid
                · intro x hx
                  rcases hl.place x hx with h1 | ⟨cj, aj, h1, h2, h3, h4, h5, h6⟩
                  · exact Or.inl (h1.of_inPlace hip)
                  · have hji : x.client = i := excl hb hci (by rw [p3]; rfl) h1 (inflight_holdsB h2)
                    rw [hji, hci] at h1; cases h1
                    rw [ha] at h3; cases h3
                    left
                    refine ⟨a.append (wrec k ts d), by rw [blobs_of_active hact']; simp, h4.symm, a.recs.length, ?_, ?_⟩
                    · rw [h6 k ts d hop]; simp [Blob.append]
                    · rw [h5]; simp [Blob.append]
              · by_cases p4 : c.pc = .dActive
                · -- `delete_in_active`
                  obtain ⟨hbl, k, ts, oip, hop, hef, n, hpc'⟩ := g2 p4
                  have hnobody : ∀ (j : Nat) (cj : Client), b.c.clients[j]? = some cj → cj.pc.holdsB = false := by
                    intro j cj hcj
                    cases hB : cj.pc.holdsB with
                    | false => rfl
                    | true => have := hb.inside j cj hcj hB; rw [hbl] at this; cases this
                  have hpend0 : pend klen b.c.clients = 0 := by
                    apply pend_zero
                    intro cj hcj
                    obtain ⟨j, hj⟩ := List.mem_iff_getElem?.1 hcj
                    have := hnobody j cj hj
                    constructor <;> intro hp <;> rw [hp] at this <;> cases this
                  have hpc0 : pendOf klen c = 0 := pendOf_zero (by rw [p4]; simp) (by rw [p4]; simp)
                  have hpc1 : pendOf klen { op := c.op, pc := o.pc, born := bornAfter b.c.store c } = 0 :=
                    pendOf_zero (by simp [hpc']) (by simp [hpc'])
                  have hst : o.eff.store b.c.store = (delActive b.c.store k ts oip).1 := by rw [hef]; rfl
                  have hip := inPlace_delActive ha k ts oip
                  have hact' : (delActive b.c.store k ts oip).1.active =
                      some (Store.blobDelete a k ts none oip).1 := by simp [delActive, ha]
                  have hcl' : (delActive b.c.store k ts oip).1.closed = b.c.store.closed := by
                    simp [delActive, ha, Store.closed]
                  have hnoflight : ∀ x ∈ b.y.allocs, Placed klen b.c.store x := by
                    intro x hx
                    rcases hl.place x hx with h1 | ⟨cj, aj, h1, h2, _⟩
                    · exact h1
                    · have := hnobody _ cj h1
                      rw [inflight_holdsB h2] at this; cases this
                  rw [bytesStep_dActive hci p4 hop ha, hst]
                  have hA := hl.active a ha
                  rw [hpend0] at hA
                  by_cases hm : (Store.blobDelete a k ts none oip).2 = true
                  · have ha1 : (Store.blobDelete a k ts none oip).1 = Store.mark k ts none a := by
                      rw [Store.blobDelete_fst]; rw [Store.blobDelete_snd] at hm; rw [if_pos hm]
                    rw [if_pos hm]
                    refine ⟨?_, ?_, ?_, ?_⟩
                    · intro bl hbl'
                      rw [hcl'] at hbl'
                      have := hl.closed bl hbl'
                      show (if bl.id = a.id then _ else _) = _
                      rw [if_neg (wcl bl hbl').1]; exact this
                    · intro a' ha'
                      rw [hact', ha1] at ha'; cases ha'
                      show (if a.id = a.id then _ else _) = Fs.contentLen klen (a.recs ++ [_]) +
                        pend klen (b.c.clients.set i _)
                      rw [if_pos rfl, contentLen_snoc, marker_eq_dmark]
                      simp only [fetchAdd]
                      omega
                    · intro id hid
                      rw [hip.nextId] at hid
                      have : id ≠ a.id := by omega
                      show (if id = a.id then _ else _) = _
                      rw [if_neg this]; exact hl.fresh id hid
                    · apply sited_land
                      intro x hx
                      left
                      rcases List.mem_cons.1 hx with rfl | hx
                      · refine ⟨Store.mark k ts none a, by rw [blobs_of_active hact', ha1]; simp, rfl,
                          a.recs.length, ?_, ?_⟩
                        · simp [Store.mark, marker_eq_dmark]
                        · show b.y.size a.id = _
                          rw [hA]; simp [Store.mark]
                      · exact (hnoflight x hx).of_inPlace hip
                  · have ha1 : (Store.blobDelete a k ts none oip).1 = a := by
                      rw [Store.blobDelete_fst]; rw [Store.blobDelete_snd] at hm; rw [if_neg hm]
                    rw [if_neg hm]
                    refine ⟨?_, ?_, ?_, ?_⟩
                    · intro bl hbl'; rw [hcl'] at hbl'; exact hl.closed bl hbl'
                    · intro a' ha'
                      rw [hact', ha1] at ha'; cases ha'
                      show b.y.size a.id = _ + pend klen (b.c.clients.set i _)
                      omega
                    · intro id hid; rw [hip.nextId] at hid; exact hl.fresh id hid
                    · intro x hx
                      exact Or.inl ((hnoflight x hx).of_inPlace hip)
                · by_cases p5 : ∃ n, c.pc = .dClosed n
                  · -- `delete_in_closed`
                    obtain ⟨n, p5⟩ := p5
                    obtain ⟨k, ts, oip, hop, hef, r, hpc'⟩ := g3 n p5
                    have hpc0 : pendOf klen c = 0 := pendOf_zero (by rw [p5]; simp) (by rw [p5]; simp)
                    have hpc1 : pendOf klen { op := c.op, pc := o.pc, born := bornAfter b.c.store c } = 0 :=
                      pendOf_zero (by simp [hpc']) (by simp [hpc'])
                    have hst : o.eff.store b.c.store = (delClosed b.c.store k ts).1 := by rw [hef]; rfl
                    have hip := inPlace_delClosed ha k ts
                    have hact' : (delClosed b.c.store k ts).1.active = some a := by simp [delClosed, ha]
                    obtain ⟨s1, s2, s3, _⟩ := resvAll_spec i (fun b => (Store.blobDelete b k ts none true).2)
                      (dmark k ts) (Fs.recLen klen (dmark k ts)) b.c.store.closed b.y wnd
                    have hinj : ∀ x ∈ b.c.store.closed, ∀ z ∈ b.c.store.closed, x.id = z.id → x = z := by
                      intro x hx z hz e
                      exact nodup_map_inj wnd x hx z hz e
                    rw [bytesStep_dClosed hci p5 hop, hst]
                    refine ⟨?_, ?_, ?_, ?_⟩
                    · intro bl' hbl'
                      rw [closed_delClosed, List.mem_map] at hbl'
                      obtain ⟨bl, hbl, rfl⟩ := hbl'
                      have hold := hl.closed bl hbl
                      rw [land_size]
                      by_cases hm : (Store.blobDelete bl k ts none true).2 = true
                      · have e1 : (Store.blobDelete bl k ts none true).1 = Store.mark k ts none bl := by
                          rw [Store.blobDelete_fst]; rw [Store.blobDelete_snd] at hm; rw [if_pos hm]
                        rw [e1]
                        show _ = Fs.contentLen klen (bl.recs ++ [_])
                        rw [contentLen_snoc, marker_eq_dmark]
                        have := s1 bl hbl hm
                        show (resvAll _ _ _ _ _ _).size bl.id = _
                        omega
                      · have e1 : (Store.blobDelete bl k ts none true).1 = bl := by
                          rw [Store.blobDelete_fst]; rw [Store.blobDelete_snd] at hm; rw [if_neg hm]
                        rw [e1, s2 bl.id]
                        · exact hold
                        · intro z hz hgz e
                          have := hinj z hz bl hbl e
                          subst this
                          exact hm hgz
                    · intro a' ha'
                      rw [hact'] at ha'; cases ha'
                      rw [land_size, s2 a.id (fun z hz _ => (wcl z hz).1)]
                      have := hl.active a ha
                      show b.y.size a.id = _ + pend klen (b.c.clients.set i _)
                      omega
                    · intro id hid
                      rw [hip.nextId] at hid
                      rw [land_size, s2 id (fun z hz _ => by have := (wcl z hz).2; omega)]
                      exact hl.fresh id hid
                    · apply sited_land
                      intro x hx
                      rcases (s3 x).1 hx with hx | ⟨bl, hbl, hm, rfl⟩
                      · rcases hl.place x hx with h1 | ⟨cj, aj, h1, h2, h3, h4⟩
                        · exact Or.inl (h1.of_inPlace hip)
                        · have hji : x.client ≠ i := by
                            intro e
                            rw [e, hci] at h1; cases h1
                            rcases h2 with h2 | h2 <;> rw [p5] at h2 <;> cases h2
                          rw [ha] at h3; cases h3
                          exact Or.inr ⟨cj, a, by rw [hne _ hji]; exact h1, h2, hact', h4⟩
                      · left
                        have e1 : (Store.blobDelete bl k ts none true).1 = Store.mark k ts none bl := by
                          rw [Store.blobDelete_fst]; rw [Store.blobDelete_snd] at hm; rw [if_pos hm]
                        refine ⟨Store.mark k ts none bl, ?_, rfl, bl.recs.length, ?_, ?_⟩
                        · rw [blobs_of_active hact', closed_delClosed]
                          exact List.mem_append_left _ (List.mem_map.2 ⟨bl, hbl, e1⟩)
                        · simp [Store.mark, marker_eq_dmark]
                        · show b.y.size bl.id = _
                          rw [hl.closed bl hbl]; simp [Store.mark]
                  · -- every other step: no bytes, no index
                    have p5' : ∀ n, c.pc ≠ .dClosed n := fun n e => p5 ⟨n, e⟩
                    have hst : o.eff.store b.c.store = b.c.store := g4 p3 p4 p5'
                    have hpc0 : pendOf klen c = 0 := pendOf_zero p2 p3
                    have hpc1 : pendOf klen { op := c.op, pc := o.pc, born := bornAfter b.c.store c } = 0 :=
                      pendOf_zero (fun e => p1 (f1 e)) (fun e => p2 (f3 e))
                    rw [bytesStep_self hci p1 p2 p4 p5', hst]
                    refine ⟨hl.closed, ?_, hl.fresh, ?_⟩
                    · intro a' ha'
                      have := hl.active a' ha'
                      show b.y.size a'.id = _ + pend klen (b.c.clients.set i _)
                      omega
                    · intro x hx
                      rcases hl.place x hx with h1 | ⟨cj, aj, h1, h2, h3⟩
                      · exact Or.inl h1
                      · have hji : x.client ≠ i := by
                          intro e
                          rw [e, hci] at h1; cases h1
                          rcases h2 with h2 | h2
                          · exact p2 h2
                          · exact p3 h2
                        exact Or.inr ⟨cj, aj, by rw [hne _ hji]; exact h1, h2, h3⟩
    | rotate =>
      simp only [fire] at hf
      split at hf
      · rename_i hall
        simp only [Option.some.injEq] at hf
        subst hf
        rw [List.all_eq_true] at hall
        have hnoS : ∀ cj ∈ b.c.clients, cj.pc ≠ .wReserved ∧ cj.pc ≠ .wWritten := by
          intro cj hcj
          have := hall cj hcj
          constructor <;> intro hp <;> rw [hp] at this <;> simp [Pc.holdsS] at this
        have hpend0 : pend klen b.c.clients = 0 := pend_zero hnoS
        obtain ⟨e1, e2, e3⟩ := closed_replaceActive ha
        refine ⟨?_, ?_, ?_, ?_⟩
        · intro bl hbl
          have hbl : bl ∈ b.c.store.replaceActive.closed := hbl
          rw [e1, List.mem_append, List.mem_singleton] at hbl
          rcases hbl with hbl | rfl
          · exact hl.closed bl hbl
          · have := hl.active bl ha
            show b.y.size bl.id = _
            omega
        · intro a' ha'
          have ha' : b.c.store.replaceActive.active = some a' := ha'
          rw [e2] at ha'; cases ha'
          show b.y.size b.c.store.nextId = Fs.contentLen klen [] + pend klen b.c.clients
          rw [hl.fresh _ (Nat.le_refl _), contentLen_nil, hpend0]
          rfl
        · intro id hid
          have hid : b.c.store.replaceActive.nextId ≤ id := hid
          rw [e3] at hid
          exact hl.fresh id (by omega)
        · intro x hx
          rcases hl.place x hx with h1 | ⟨cj, aj, h1, h2, _⟩
          · left
            refine h1.mono (fun bl hbl => ⟨bl, ?_, BLe.refl bl⟩)
            show bl ∈ b.c.store.replaceActive.blobs
            rw [blobs_replaceActive]; exact List.mem_append_left _ hbl
          · exfalso
            have := hnoS cj (List.mem_of_getElem? h1)
            rcases h2 with h2 | h2
            · exact this.1 h2
            · exact this.2 h2
      · exact absurd hf (by simp)
    | dump =>
      simp only [fire, Option.some.injEq] at hf
      subst hf
      have hip := inPlace_settle ha
      have hact' : b.c.store.settle.active = some a := by simp [Store.settle, ha]
      refine ⟨?_, ?_, hl.fresh, ?_⟩
      · intro bl' hbl'
        have hbl' : bl' ∈ b.c.store.settle.closed := hbl'
        simp only [Store.settle, Store.closed, Store.closed_map_option, List.mem_map] at hbl'
        obtain ⟨bl, hbl, rfl⟩ := hbl'
        have := hl.closed bl (by simpa [Store.closed] using hbl)
        have key : (if bl.recs.isEmpty then bl else { bl with onDisk := true }).id = bl.id ∧
            (if bl.recs.isEmpty then bl else { bl with onDisk := true }).recs = bl.recs := by
          split <;> exact ⟨rfl, rfl⟩
        show b.y.size (if bl.recs.isEmpty then bl else { bl with onDisk := true }).id =
          Fs.contentLen klen (if bl.recs.isEmpty then bl else { bl with onDisk := true }).recs
        rw [key.1, key.2]; exact this
      · intro a' ha'
        have ha' : b.c.store.settle.active = some a' := ha'
        rw [hact'] at ha'; cases ha'
        exact hl.active a ha
      · intro x hx
        rcases hl.place x hx with h1 | ⟨cj, aj, h1, h2, h3, h4⟩
        · exact Or.inl (h1.of_inPlace hip)
        · rw [ha] at h3; cases h3
          exact Or.inr ⟨cj, a, h1, h2, hact', h4⟩

theorem layinv_reach {klen : Nat} {st : Store} {ops : List COp} {b : BState} (hwf : st.WF) {a : Blob}
    (ha : st.active = some a) (h : BReach klen (binit klen st ops) b) : LayInv klen b := by
  induction h with
  | refl => exact layinv_init hwf ops
  | step hr hs ih =>
    obtain ⟨l, hl⟩ := hs
    have hr' : Reach (init st ops) _ := breach_reach hr
    exact layinv_fire (tinv_reach hwf ha hr').1 (binv_reach hr') ih hl


/-! ### the reservation of an acknowledged write is the slot of its acknowledged place -/

/-- program counters before the operation's first reservation -/
def Pc.pre : Pc → Bool
  | .idle | .start | .lookA | .lookC _ _ | .load _ | .chk _ | .wStart | .wLocked | .wBlob | .dActive => true
  | _ => false

set_option linter.unusedSimpArgs false in
theorem cstep_pre_facts {st : Store} {landed : List Rec} {bl : Option Nat} {i : Nat} {c : Client} {o : Out}
    (h : cstep st landed bl i c = some o) :
    (Pc.pre c.pc = false → Pc.pre o.pc = false) ∧
    (∀ r, o.eff = .push r → ∀ a, st.active = some a → ∀ p, o.pc.place = some p → p.seq = a.recs.length) ∧
    (∀ p, c.pc.place = some p → c.pc ≠ .wBlob ∧ c.pc ≠ .wReserved ∧ c.pc ≠ .wWritten ∧ c.pc ≠ .dActive ∧
      ∀ n, c.pc ≠ .dClosed n) := by
  obtain ⟨op, pc, born⟩ := c
  cases pc <;> cases op <;> simp only [cstep] at h <;> (try split at h) <;>
    first
    | (simp only [Option.some.injEq] at h; subst h; simp [Pc.pre, Pc.place, Resp.place]; done)
    | (simp only [Option.some.injEq] at h; subst h; simp [Pc.pre, Pc.place, Resp.place] <;> (try split) <;>
        simp [Pc.pre, Pc.place, Resp.place]; done)
    | (simp only [Option.some.injEq] at h; subst h; rename_i h1 h2; cases h1;
       simp [Pc.pre, Pc.place, Resp.place, h2]; done)
    | (simp at h; done)

/-- the slot of the place `p`: blob `p.blob` holds `p.r` at position `p.seq`, and `off` is where `Fs.contentLen`
    puts that position -/
def AtSeq (klen : Nat) (st : Store) (p : PRec) (off : Nat) : Prop :=
  ∃ bl ∈ st.blobs, bl.id = p.blob ∧ bl.recs[p.seq]? = some p.r ∧ off = Fs.contentLen klen (bl.recs.take p.seq)

theorem AtSeq.mono {klen : Nat} {st st' : Store} {p : PRec} {off : Nat}
    (h : ∀ bl ∈ st.blobs, ∃ bl' ∈ st'.blobs, BLe bl bl') (hp : AtSeq klen st p off) : AtSeq klen st' p off := by
  obtain ⟨bl, hbl, hid, hn, hoff⟩ := hp
  obtain ⟨bl', hbl', hle⟩ := h bl hbl
  obtain ⟨t, ht⟩ := hle.2
  have hlt : p.seq < bl.recs.length := by
    rcases Nat.lt_or_ge p.seq bl.recs.length with h1 | h1
    · exact h1
    · rw [List.getElem?_eq_none h1] at hn; cases hn
  refine ⟨bl', hbl', by rw [hle.1, hid], ?_, ?_⟩
  · rw [← ht, List.getElem?_append_left hlt]; exact hn
  · rw [hoff, ← ht, List.take_append_of_le_length (Nat.le_of_lt hlt)]

theorem AtSeq.of_inPlace {klen : Nat} {st st' : Store} {p : PRec} {off : Nat} (h : InPlace st st')
    (hp : AtSeq klen st p off) : AtSeq klen st' p off :=
  hp.mono (fun bl hbl => let ⟨y, hy, hs⟩ := h.blobs_cont.fwd bl hbl; ⟨y, hy, .of_step hs⟩)

structure SeqInv (klen : Nat) (b : BState) : Prop where
  /-- a client that has not reserved yet owns no reservation -/
  noPre : ∀ x ∈ b.y.allocs, ∀ c, b.c.clients[x.client]? = some c → Pc.pre c.pc = false
  /-- every reservation of the write in flight starts where the active blob's records end -/
  flight : ∀ i c, b.c.clients[i]? = some c → (c.pc = .wReserved ∨ c.pc = .wWritten) →
    ∀ x ∈ b.y.allocs, x.client = i →
      ∃ a, b.c.store.active = some a ∧ x.blob = a.id ∧ x.rng.off = Fs.contentLen klen a.recs
  /-- every reservation of a write that stored at `p` is the slot of `p` -/
  seq : ∀ i c p, b.c.clients[i]? = some c → c.pc.place = some p → ∀ x ∈ b.y.allocs, x.client = i →
    x.blob = p.blob ∧ AtSeq klen b.c.store p x.rng.off

theorem seqinv_init (klen : Nat) (st : Store) (ops : List COp) : SeqInv klen (binit klen st ops) where
  noPre := by intro x hx; cases hx
  flight := by intro i c _ _ x hx; cases hx
  seq := by intro i c p _ _ x hx; cases hx

theorem mem_land_fields {y : Bytes} {i : Nat} {x' : Alloc} (h : x' ∈ (y.land i).allocs) :
    ∃ x ∈ y.allocs, x'.client = x.client ∧ x'.blob = x.blob ∧ x'.rng = x.rng ∧ x'.r = x.r := by
  obtain ⟨x, hx, rfl⟩ := mem_land.1 h
  refine ⟨x, hx, ?_⟩
  split <;> exact ⟨rfl, rfl, rfl, rfl⟩

theorem seqinv_fire {klen : Nat} {b b' : BState} {l : Label} (hi : Inv b.c) (hb : BInv b.c)
    (hl : LayInv klen b) (hs : SeqInv klen b) (h : bfire klen l b = some b') : SeqInv klen b' := by
  obtain ⟨a, ha⟩ := hi.active
  simp only [bfire] at h
  cases hf : fire l b.c with
  | none => simp [hf] at h
  | some c' =>
    simp only [hf, Option.some.injEq] at h
    subst h
    cases l with
    | step i =>
      simp only [fire] at hf
      cases hci : b.c.clients[i]? with
      | none => simp [hci] at hf
      | some c =>
        cases hco : cstep b.c.store b.c.landed b.c.blobLock i c with
        | none => simp [hci, hco] at hf
        | some o =>
          simp only [hci, hco, Option.some.injEq] at hf
          subst hf
          have hlt : i < b.c.clients.length := by
            rcases Nat.lt_or_ge i b.c.clients.length with h1 | h1
            · exact h1
            · rw [List.getElem?_eq_none h1] at hci; cases hci
          have hself : (b.c.clients.set i { op := c.op, pc := o.pc, born := bornAfter b.c.store c })[i]? =
              some { op := c.op, pc := o.pc, born := bornAfter b.c.store c } := List.getElem?_set_self hlt
          have hne : ∀ j, j ≠ i →
              (b.c.clients.set i { op := c.op, pc := o.pc, born := bornAfter b.c.store c })[j]? =
                b.c.clients[j]? := fun j hj => List.getElem?_set_ne (Ne.symm hj)
          obtain ⟨f1, f2, f3, f4, f5, f6⟩ := cstep_bytes_facts hco
          obtain ⟨g1, g2, g3, g4⟩ := cstep_lay_facts hco
          obtain ⟨q1, q2, q3⟩ := cstep_pre_facts hco
          have hev := bytesStep_evolves klen b.c i b.y
          have hip : InPlace b.c.store (o.eff.store b.c.store) := o.eff.inPlace ha
          have htyped := hb.typed c (List.mem_of_getElem? hci)
          -- where the reservations of client `i` come from when its step reserves nothing
          have hkeep : c.pc ≠ .wBlob → c.pc ≠ .wReserved → c.pc ≠ .dActive → (∀ n, c.pc ≠ .dClosed n) →
              bytesStep klen b.c i b.y = b.y := fun h1 h2 h3 h4 => bytesStep_self hci h1 h2 h3 h4 b.y
          show SeqInv klen ⟨⟨o.eff.store b.c.store, _, _, b.c.clients.set i _, _⟩, bytesStep klen b.c i b.y⟩
          refine ⟨?_, ?_, ?_⟩
          · -- noPre
            intro x' hx' cj hcj
            have hcj : (b.c.clients.set i { op := c.op, pc := o.pc, born := bornAfter b.c.store c })[x'.client]? =
                some cj := hcj
            by_cases hji : x'.client = i
            · rw [hji, hself] at hcj; cases hcj
              show Pc.pre o.pc = false
              by_cases p1 : c.pc = .wBlob
              · rw [(f2 p1).1]; rfl
              · by_cases p4 : c.pc = .dActive
                · obtain ⟨_, _, _, _, _, _, n, hn⟩ := g2 p4
                  rw [hn]; rfl
                · cases hpre : Pc.pre c.pc with
                  | false => exact q1 hpre
                  | true =>
                    exfalso
                    have p2 : c.pc ≠ .wReserved := by intro e; rw [e] at hpre; cases hpre
                    have p5 : ∀ n, c.pc ≠ .dClosed n := by intro n e; rw [e] at hpre; cases hpre
                    have hx'' : x' ∈ b.y.allocs := by rw [← hkeep p1 p2 p4 p5]; exact hx'
                    have := hs.noPre x' hx'' c (by rw [hji]; exact hci)
                    rw [hpre] at this; cases this
            · rw [hne _ hji] at hcj
              exact hs.noPre x' ((hev.others x' hji).1 hx') cj hcj
          · -- flight
            intro j cj hcj hfl x' hx' hxj
            have hcj : (b.c.clients.set i { op := c.op, pc := o.pc, born := bornAfter b.c.store c })[j]? =
                some cj := hcj
            show ∃ a', (o.eff.store b.c.store).active = some a' ∧ _
            by_cases hji : j = i
            · subst hji
              rw [hself] at hcj; cases hcj
              rcases hfl with hfl | hfl
              · -- `fetch_add`: the reservation just made
                have hfl : o.pc = .wReserved := hfl
                have p1 := f1 hfl
                obtain ⟨_, hsk⟩ := f2 p1
                obtain ⟨k, ts, d, hop⟩ : ∃ k ts d, c.op = .write k ts d := by
                  have := htyped; unfold Typed at this; rw [p1] at this; exact this
                rw [eff_store_of_skip_land _ (Or.inl hsk)]
                rw [bytesStep_wBlob hci p1 hop ha] at hx'
                rcases List.mem_cons.1 hx' with rfl | hx'
                · refine ⟨a, ha, rfl, ?_⟩
                  show b.y.size a.id = _
                  have hp0 : pend klen b.c.clients = 0 := by
                    rw [pend_single hci (fun j' cj' hcj' hj' => by
                      constructor <;> intro hp <;>
                        exact hj' (excl hb hci (by rw [p1]; rfl) hcj' (inflight_holdsB (by simp [hp]))))]
                    exact pendOf_zero (by rw [p1]; simp) (by rw [p1]; simp)
                  rw [hl.active a ha, hp0]; rfl
                · exfalso
                  have := hs.noPre x' hx' c (by rw [hxj]; exact hci)
                  rw [p1] at this; cases this
              · -- `write_all_at`
                have hfl : o.pc = .wWritten := hfl
                have p2 := f3 hfl
                obtain ⟨_, k, ts, d, hop, hef⟩ := f4 p2
                rw [eff_store_of_skip_land _ (Or.inr ⟨_, hef⟩)]
                rw [bytesStep_wReserved hci p2 hop] at hx'
                obtain ⟨x, hx, e1, e2, e3, _⟩ := mem_land_fields hx'
                obtain ⟨a0, h1, h2, h3⟩ := hs.flight j c hci (Or.inl p2) x hx (by rw [← e1]; exact hxj)
                exact ⟨a0, h1, by rw [e2]; exact h2, by rw [e3]; exact h3⟩
            · rw [hne j hji] at hcj
              have hx'' : x' ∈ b.y.allocs := (hev.others x' (by rw [hxj]; exact hji)).1 hx'
              obtain ⟨a0, h1, h2, h3⟩ := hs.flight j cj hcj hfl x' hx'' hxj
              rw [ha] at h1; cases h1
              have hBj := inflight_holdsB hfl
              -- the step of `i` does not touch the active blob's records
              have hsame : ∃ a', (o.eff.store b.c.store).active = some a' ∧ a'.id = a.id ∧ a'.recs = a.recs := by
                by_cases p3 : c.pc = .wWritten
                · exact absurd (excl hb hci (by rw [p3]; rfl) hcj hBj) hji
                · by_cases p4 : c.pc = .dActive
                  · have := hb.inside j cj hcj hBj
                    rw [(g2 p4).1] at this; cases this
                  · by_cases p5 : ∃ n, c.pc = .dClosed n
                    · obtain ⟨n, p5⟩ := p5
                      obtain ⟨k, ts, oip, _, hef, _⟩ := g3 n p5
                      rw [hef]
                      exact ⟨a, by simp [Eff.store, delClosed, ha], rfl, rfl⟩
                    · rw [g4 p3 p4 (fun n e => p5 ⟨n, e⟩)]
                      exact ⟨a, ha, rfl, rfl⟩
              obtain ⟨a', ha', hid, hrecs⟩ := hsame
              exact ⟨a', ha', by rw [h2, hid], by rw [h3, hrecs]⟩
          · -- seq
            intro j cj p hcj hpl x' hx' hxj
            have hcj : (b.c.clients.set i { op := c.op, pc := o.pc, born := bornAfter b.c.store c })[j]? =
                some cj := hcj
            show x'.blob = p.blob ∧ AtSeq klen (o.eff.store b.c.store) p x'.rng.off
            by_cases hji : j = i
            · subst hji
              rw [hself] at hcj; cases hcj
              have hpl : o.pc.place = some p := hpl
              rcases (cstep_facts3 hco).2.2.1 p hpl with h1 | h1
              · obtain ⟨n1, n2, n3, n4, n5⟩ := q3 p h1
                have hx'' : x' ∈ b.y.allocs := by rw [← hkeep n1 n2 n4 n5]; exact hx'
                obtain ⟨e1, e2⟩ := hs.seq j c p hci h1 x' hx'' hxj
                exact ⟨e1, e2.of_inPlace hip⟩
              · obtain ⟨hw, a0, ha0, hpb⟩ := f6 _ h1
                rw [ha] at ha0; cases ha0
                have hx'' : x' ∈ b.y.allocs := by
                  rw [← hkeep (by rw [hw]; simp) (by rw [hw]; simp) (by rw [hw]; simp) (by rw [hw]; simp)]
                  exact hx'
                obtain ⟨a0, h2, h3, h4⟩ := hs.flight j c hci (Or.inr hw) x' hx'' hxj
                rw [ha] at h2; cases h2
                have hseq := q2 _ h1 a ha p hpl
                obtain ⟨hb1, hb2⟩ := hpb p hpl
                refine ⟨by rw [h3, hb1], a.append p.r, ?_, by rw [hb1]; rfl, ?_, ?_⟩
                · rw [h1]
                  have : (appendActive b.c.store p.r).active = some (a.append p.r) := by simp [appendActive, ha]
                  show a.append p.r ∈ (appendActive b.c.store p.r).blobs
                  rw [blobs_of_active this]; simp
                · rw [hseq]; simp [Blob.append]
                · rw [h4, hseq]; simp [Blob.append]
            · rw [hne j hji] at hcj
              have hx'' : x' ∈ b.y.allocs := (hev.others x' (by rw [hxj]; exact hji)).1 hx'
              obtain ⟨e1, e2⟩ := hs.seq j cj p hcj hpl x' hx'' hxj
              exact ⟨e1, e2.of_inPlace hip⟩
    | rotate =>
      simp only [fire] at hf
      split at hf
      · rename_i hall
        simp only [Option.some.injEq] at hf
        subst hf
        rw [List.all_eq_true] at hall
        refine ⟨hs.noPre, ?_, ?_⟩
        · intro j cj hcj hfl
          exfalso
          have := hall cj (List.mem_of_getElem? hcj)
          rcases hfl with hfl | hfl <;> rw [hfl] at this <;> simp [Pc.holdsS] at this
        · intro j cj p hcj hpl x hx hxj
          obtain ⟨e1, e2⟩ := hs.seq j cj p hcj hpl x hx hxj
          refine ⟨e1, e2.mono (fun bl hbl => ⟨bl, ?_, BLe.refl bl⟩)⟩
          show bl ∈ b.c.store.replaceActive.blobs
          rw [blobs_replaceActive]; exact List.mem_append_left _ hbl
      · exact absurd hf (by simp)
    | dump =>
      simp only [fire, Option.some.injEq] at hf
      subst hf
      have hip := inPlace_settle ha
      refine ⟨hs.noPre, ?_, ?_⟩
      · intro j cj hcj hfl x hx hxj
        obtain ⟨a0, h1, h2, h3⟩ := hs.flight j cj hcj hfl x hx hxj
        rw [ha] at h1; cases h1
        exact ⟨a, by simp [Store.settle, ha], h2, h3⟩
      · intro j cj p hcj hpl x hx hxj
        obtain ⟨e1, e2⟩ := hs.seq j cj p hcj hpl x hx hxj
        exact ⟨e1, e2.of_inPlace hip⟩

theorem seqinv_reach {klen : Nat} {st : Store} {ops : List COp} {b : BState} (hwf : st.WF) {a : Blob}
    (ha : st.active = some a) (h : BReach klen (binit klen st ops) b) : SeqInv klen b := by
  induction h with
  | refl => exact seqinv_init klen st ops
  | step hr hs ih =>
    obtain ⟨l, hl⟩ := hs
    have hr' : Reach (init st ops) _ := breach_reach hr
    exact seqinv_fire (tinv_reach hwf ha hr').1 (binv_reach hr') (layinv_reach hwf ha hr) ih hl

end ConcBytes
end Pearl
