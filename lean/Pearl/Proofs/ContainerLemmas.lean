import Pearl.Model.Container
import Pearl.Proofs.FilterLemmas
/-
Helper lemmas for the container part of C10: arena bookkeeping, the invariant `Container.Inv`
(shape of the arena + "every node filter covers the push-time filters of all leaves below it"),
its preservation by `push` / `pop` / `offload`, and what `iterPossible` yields under it.
-/
namespace Pearl

variable {F C : Type}

/-! ## semantic vocabulary -/

/-- `f` does not exclude `k` -/
def FilterOps.covers (ops : FilterOps F) (f : F) (k : Key) : Prop := ops.containsFast f k ≠ .notContains

/-- `None` excludes nothing -/
def FilterOps.coversOpt (ops : FilterOps F) : Option F → Key → Prop
  | none, _ => True
  | some f, k => ops.covers f k

/-- every filter inside the option satisfies `ok` -/
def okOpt (ok : F → Prop) (o : Option F) : Prop := ∀ f, o = some f → ok f

/-- what the container proofs need from the filter type, relative to a validity predicate `ok` -/
structure FilterLaws (ops : FilterOps F) (ok : F → Prop) : Prop where
  merge_ok : ∀ a b c r, ok a → ok b → ops.merge a b = (c, r) → ok c
  merge_sup : ∀ a b c k, ok a → ok b → ops.merge a b = (c, true) →
    ops.covers a k ∨ ops.covers b k → ops.covers c k
  offload_ok : ∀ a, ok a → ok (ops.offload a).1
  offload_sup : ∀ a k, ok a → ops.covers a k → ops.covers (ops.offload a).1 k

namespace Container

theorem mergeFilters_some_some (ops : FilterOps F) (d s : F) :
    mergeFilters ops (some d) (some s) = if (ops.merge d s).2 = true then some (ops.merge d s).1 else none := rfl

theorem mergeFilters_ok {ops : FilterOps F} {ok : F → Prop} (laws : FilterLaws ops ok) (d s : Option F)
    (hd : okOpt ok d) (hs : okOpt ok s) : okOpt ok (mergeFilters ops d s) := by
  intro f hf
  cases d with
  | none => cases hf
  | some d =>
    cases s with
    | none => cases hf
    | some s =>
      rw [mergeFilters_some_some] at hf
      cases hm : ops.merge d s with
      | mk d' r =>
        rw [hm] at hf
        cases r with
        | false => simp at hf
        | true =>
          simp only [if_true, Option.some.injEq] at hf
          subst hf
          exact laws.merge_ok d s d' true (hd d rfl) (hs s rfl) hm

/-- `merge_filters` never loses a key: the result is `None`, or a successful merge -/
theorem mergeFilters_sup {ops : FilterOps F} {ok : F → Prop} (laws : FilterLaws ops ok) (d s : Option F)
    (hd : okOpt ok d) (hs : okOpt ok s) (k : Key) (h : ops.coversOpt d k ∨ ops.coversOpt s k) :
    ops.coversOpt (mergeFilters ops d s) k := by
  cases d with
  | none => trivial
  | some d =>
    cases s with
    | none => trivial
    | some s =>
      rw [mergeFilters_some_some]
      cases hm : ops.merge d s with
      | mk d' r =>
        cases r with
        | false => simp only [Bool.false_eq_true, if_false]; trivial
        | true =>
          simp only [if_true]
          exact laws.merge_sup d s d' k (hd d rfl) (hs s rfl) hm h

theorem mergeFilters_none_left (ops : FilterOps F) (s : Option F) : mergeFilters ops none s = none := rfl

theorem mergeFilters_none_right (ops : FilterOps F) (d : Option F) : mergeFilters ops d none = none := by
  cases d <;> rfl

/-! ## arena bookkeeping -/

/-- push onto the arena -/
def appendInner (c : Container F C) (x : FInner F) : Container F C := { c with inner := c.inner ++ [some x] }

/-- push onto the children vector -/
def appendChild (c : Container F C) (lf : FLeaf C) : Container F C := { c with children := c.children ++ [some lf] }

theorem getInner_lt_length (c : Container F C) (id : Nat) (x : FInner F) (h : c.getInner id = some x) :
    id < c.inner.length := by
  unfold getInner at h
  cases hh : c.inner[id]? with
  | none => rw [hh] at h; cases h
  | some o => exact (List.getElem?_eq_some_iff.mp hh).1

@[simp] theorem appendInner_root (c : Container F C) (x) : (c.appendInner x).root = c.root := rfl
@[simp] theorem appendInner_children (c : Container F C) (x) : (c.appendInner x).children = c.children := rfl
@[simp] theorem appendInner_groupSize (c : Container F C) (x) : (c.appendInner x).groupSize = c.groupSize := rfl
@[simp] theorem appendInner_length (c : Container F C) (x) :
    (c.appendInner x).inner.length = c.inner.length + 1 := by simp [appendInner]

theorem getInner_appendInner_of_lt (c : Container F C) (x) (id : Nat) (h : id < c.inner.length) :
    (c.appendInner x).getInner id = c.getInner id := by
  simp [getInner, appendInner, List.getElem?_append_left h]

theorem getInner_appendInner_of_some (c : Container F C) (x) (id : Nat) (y) (h : c.getInner id = some y) :
    (c.appendInner x).getInner id = some y := by
  rw [getInner_appendInner_of_lt c x id (getInner_lt_length c id y h), h]

@[simp] theorem getInner_appendInner_self (c : Container F C) (x) :
    (c.appendInner x).getInner c.inner.length = some x := by
  simp [getInner, appendInner]

@[simp] theorem appendChild_root (c : Container F C) (x) : (c.appendChild x).root = c.root := rfl
@[simp] theorem appendChild_inner (c : Container F C) (x) : (c.appendChild x).inner = c.inner := rfl
@[simp] theorem appendChild_groupSize (c : Container F C) (x) : (c.appendChild x).groupSize = c.groupSize := rfl
@[simp] theorem appendChild_length (c : Container F C) (x) :
    (c.appendChild x).children.length = c.children.length + 1 := by simp [appendChild]
@[simp] theorem getInner_appendChild (c : Container F C) (x) (id : Nat) :
    (c.appendChild x).getInner id = c.getInner id := rfl

@[simp] theorem modifyNode_root (c : Container F C) (id f) : (c.modifyNode id f).root = c.root := rfl
@[simp] theorem modifyNode_children (c : Container F C) (id f) : (c.modifyNode id f).children = c.children := rfl
@[simp] theorem modifyNode_groupSize (c : Container F C) (id f) : (c.modifyNode id f).groupSize = c.groupSize := rfl
@[simp] theorem modifyNode_level (c : Container F C) (id f) : (c.modifyNode id f).level = c.level := rfl
@[simp] theorem modifyNode_length (c : Container F C) (id f) :
    (c.modifyNode id f).inner.length = c.inner.length := by simp [modifyNode]

theorem getInner_modifyNode_ne (c : Container F C) (id j : Nat) (f) (h : j ≠ id) :
    (c.modifyNode id f).getInner j = c.getInner j := by
  simp [getInner, modifyNode, Ne.symm h]

theorem getInner_modifyNode_self (c : Container F C) (id : Nat) (f) (n : FNode F)
    (h : c.getInner id = some (.node n)) : (c.modifyNode id f).getInner id = some (.node (f n)) := by
  unfold getInner at h ⊢
  simp only [modifyNode, List.getElem?_modify]
  cases hh : c.inner[id]? with
  | none => rw [hh] at h; cases h
  | some o =>
    rw [hh] at h
    simp only [Option.join_some] at h
    subst h
    simp

theorem getInner_modifyNode_leaf (c : Container F C) (id j : Nat) (f) (p l : Nat)
    (h : c.getInner j = some (.leaf p l)) : (c.modifyNode id f).getInner j = some (.leaf p l) := by
  by_cases hj : j = id
  · subst hj
    unfold getInner at h ⊢
    simp only [modifyNode, List.getElem?_modify]
    cases hh : c.inner[j]? with
    | none => rw [hh] at h; cases h
    | some o =>
      rw [hh] at h
      simp only [Option.join_some] at h
      subst h
      simp
  · rw [getInner_modifyNode_ne c id j f hj, h]

theorem getNode_eq (c : Container F C) (id : Nat) (n : FNode F) (h : c.getInner id = some (.node n)) :
    c.getNode id = some n := by simp [getNode, h]

theorem mergeUp_none (ops : FilterOps F) (item : Option F) (fuel : Nat) (c : Container F C) :
    mergeUp ops item fuel c none = c := by
  cases fuel <;> rfl

/-- one step up to a node without parent -/
theorem mergeUp_top (ops : FilterOps F) (item : Option F) (fuel : Nat) (c : Container F C) (id : Nat)
    (n : FNode F) (h : c.getInner id = some (.node n)) (hp : n.parent = none) :
    mergeUp ops item (fuel + 1) c (some id) =
      c.modifyNode id (fun n => { n with filter := mergeFilters ops n.filter item }) := by
  simp only [mergeUp, getNode_eq c id n h, Option.bind_some, hp]
  exact mergeUp_none ..

/-- the update `add_child` applies to the node that receives the leaf -/
def addUpd (ops : FilterOps F) (item : Option F) (innerId : Nat) : FNode F → FNode F := fun n =>
  { n with
    filter := if n.children.isEmpty then initFilter item else mergeFilters ops n.filter item
    children := n.children ++ [innerId] }

/-- the update `add_child` applies to every ancestor -/
def mergeUpd (ops : FilterOps F) (item : Option F) : FNode F → FNode F := fun n =>
  { n with filter := mergeFilters ops n.filter item }

theorem addChild_eq (ops : FilterOps F) (cops : ChildOps F C) (c : Container F C) (node : Nat) (child : C) :
    addChild ops cops c node child =
      ((mergeUp ops (cops.filterOf child)
          (((c.appendInner (.leaf node c.children.length)).modifyNode node
            (addUpd ops (cops.filterOf child) c.inner.length)).inner.length + 2)
          ((c.appendInner (.leaf node c.children.length)).modifyNode node
            (addUpd ops (cops.filterOf child) c.inner.length))
          (((c.appendInner (.leaf node c.children.length)).getNode node).bind (·.parent))).appendChild
        { parent := node, data := child }, c.children.length) := rfl

/-- `add_child` into a node without parent -/
theorem addChild_top (ops : FilterOps F) (cops : ChildOps F C) (c : Container F C) (node : Nat) (child : C)
    (nd : FNode F) (h : c.getInner node = some (.node nd)) (hp : nd.parent = none) :
    addChild ops cops c node child =
      (((c.appendInner (.leaf node c.children.length)).modifyNode node
          (addUpd ops (cops.filterOf child) c.inner.length)).appendChild { parent := node, data := child },
        c.children.length) := by
  rw [addChild_eq, getNode_eq _ node nd (getInner_appendInner_of_some c _ node _ h)]
  simp only [Option.bind_some, hp, mergeUp_none]

/-- `add_child` into a node whose parent has no parent -/
theorem addChild_under (ops : FilterOps F) (cops : ChildOps F C) (c : Container F C) (node r : Nat) (child : C)
    (gn rd : FNode F) (h : c.getInner node = some (.node gn)) (hp : gn.parent = some r)
    (hr : c.getInner r = some (.node rd)) (hrp : rd.parent = none) (hne : r ≠ node) :
    addChild ops cops c node child =
      ((((c.appendInner (.leaf node c.children.length)).modifyNode node
          (addUpd ops (cops.filterOf child) c.inner.length)).modifyNode r
            (mergeUpd ops (cops.filterOf child))).appendChild { parent := node, data := child },
        c.children.length) := by
  rw [addChild_eq, getNode_eq _ node gn (getInner_appendInner_of_some c _ node _ h)]
  simp only [Option.bind_some, hp]
  have : ((c.appendInner (.leaf node c.children.length)).modifyNode node
      (addUpd ops (cops.filterOf child) c.inner.length)).getInner r = some (.node rd) := by
    rw [getInner_modifyNode_ne _ _ _ _ hne]
    exact getInner_appendInner_of_some c _ r _ hr
  rw [mergeUp_top ops _ _ _ r rd this hrp]
  rfl

/-! ## the invariant -/

/-- the arena entries `ids` are the leaves of node `n` for the consecutive child ids `start, start+1, …` -/
def IsLeafRun (c : Container F C) (n : Nat) (ids : List Nat) (start : Nat) : Prop :=
  ∀ p, ∀ hp : p < ids.length, c.getInner ids[p] = some (.leaf n (start + p))

/-- `flt` covers the push-time filters `g[j]` of the children `s ≤ j < s + len` -/
def SupRange (ops : FilterOps F) (g : List (Option F)) (flt : Option F) (s len : Nat) : Prop :=
  ∀ j, s ≤ j → j < s + len → ∀ k, ops.coversOpt (g.getD j none) k → ops.coversOpt flt k

/-- the group nodes `ids` (children of the root) hold, in order, the children `s … e-1` -/
def Groups (ops : FilterOps F) (ok : F → Prop) (c : Container F C) (g : List (Option F)) :
    List Nat → Nat → Nat → Prop
  | [], s, e => s = e
  | id :: rest, s, e =>
    ∃ gn, c.getInner id = some (.node gn) ∧ gn.parent = some c.root ∧ IsLeafRun c id gn.children s ∧
      okOpt ok gn.filter ∧ SupRange ops g gn.filter s gn.children.length ∧
      Groups ops ok c g rest (s + gn.children.length) e

/-- before the root promotion: all leaves hang off the root -/
def FlatInv (ops : FilterOps F) (ok : F → Prop) (c : Container F C) (g : List (Option F)) : Prop :=
  ∃ nd, c.getInner c.root = some (.node nd) ∧ nd.parent = none ∧ IsLeafRun c c.root nd.children 0 ∧
    nd.children.length = c.children.length ∧ c.children.length < c.groupSize ∧
    okOpt ok nd.filter ∧ SupRange ops g nd.filter 0 c.children.length ∧
    (∀ id n, c.getInner id = some (.node n) → id = c.root)

/-- after the root promotion: root → groups → leaves -/
def TwoInv (ops : FilterOps F) (ok : F → Prop) (c : Container F C) (g : List (Option F)) : Prop :=
  ∃ rd, c.getInner c.root = some (.node rd) ∧ rd.parent = none ∧ rd.children ≠ [] ∧
    c.groupSize ≤ c.children.length ∧ (c.root :: rd.children).Nodup ∧
    Groups ops ok c g rd.children 0 c.children.length ∧
    okOpt ok rd.filter ∧ SupRange ops g rd.filter 0 c.children.length ∧
    (∀ id n, c.getInner id = some (.node n) → id = c.root ∨ id ∈ rd.children)

/-- the container invariant, relative to the ghost list `g` of the filters the children had when pushed
    (`g[j] = cops.filterOf child_j` at the time of `push`; slots emptied by `pop` keep their entry) -/
structure Inv (ops : FilterOps F) (ok : F → Prop) (c : Container F C) (g : List (Option F)) : Prop where
  glen : g.length = c.children.length
  gok : ∀ o ∈ g, okOpt ok o
  shape : FlatInv ops ok c g ∨ TwoInv ops ok c g

/-- leaves are never rewritten -/
def LeavesKept (c c' : Container F C) : Prop :=
  ∀ id p l, c.getInner id = some (.leaf p l) → c'.getInner id = some (.leaf p l)

theorem IsLeafRun.frame {c c' : Container F C} {n : Nat} {ids : List Nat} {s : Nat} (hk : LeavesKept c c')
    (h : IsLeafRun c n ids s) : IsLeafRun c' n ids s :=
  fun p hp => hk _ _ _ (h p hp)

theorem IsLeafRun.snoc {c : Container F C} {n : Nat} {ids : List Nat} {s x : Nat} (h : IsLeafRun c n ids s)
    (hx : c.getInner x = some (.leaf n (s + ids.length))) : IsLeafRun c n (ids ++ [x]) s := by
  intro p hp
  by_cases hlt : p < ids.length
  · rw [List.getElem_append_left hlt]; exact h p hlt
  · have hpe : p = ids.length := by simp at hp; omega
    subst hpe
    simp [hx]

theorem IsLeafRun.nil (c : Container F C) (n s : Nat) : IsLeafRun c n [] s := fun p hp => by cases hp

theorem SupRange.frame {ops : FilterOps F} {g g' : List (Option F)} {flt flt' : Option F} {s len : Nat}
    (hg : ∀ j, j < s + len → g'.getD j none = g.getD j none)
    (hf : ∀ k, ops.coversOpt flt k → ops.coversOpt flt' k) (h : SupRange ops g flt s len) :
    SupRange ops g' flt' s len := by
  intro j h1 h2 k hc
  rw [hg j h2] at hc
  exact hf k (h j h1 h2 k hc)

theorem getD_append_left (g : List (Option F)) (x : Option F) (j : Nat) (h : j < g.length) :
    (g ++ [x]).getD j none = g.getD j none := by
  simp [List.getD_eq_getElem?_getD, List.getElem?_append_left h]

theorem getD_append_self (g : List (Option F)) (x : Option F) : (g ++ [x]).getD g.length none = x := by
  simp [List.getD_eq_getElem?_getD]

/-- extending the range by the new child `g.length`, whose filter was merged in (or installed) -/
theorem SupRange.snoc {ops : FilterOps F} {g : List (Option F)} {flt flt' x : Option F} {s len : Nat}
    (he : s + len = g.length)
    (hold : ∀ k, ops.coversOpt flt k → ops.coversOpt flt' k)
    (hnew : ∀ k, ops.coversOpt x k → ops.coversOpt flt' k)
    (h : SupRange ops g flt s len) : SupRange ops (g ++ [x]) flt' s (len + 1) := by
  intro j h1 h2 k hc
  by_cases hj : j < g.length
  · rw [getD_append_left g x j hj] at hc
    exact hold k (h j h1 (by omega) k hc)
  · have : j = g.length := by omega
    subst this
    rw [getD_append_self] at hc
    exact hnew k hc

theorem Groups.le {ops : FilterOps F} {ok : F → Prop} {c : Container F C} {g : List (Option F)} :
    ∀ {ids : List Nat} {s e : Nat}, Groups ops ok c g ids s e → s ≤ e
  | [], s, e, h => by simp only [Groups] at h; omega
  | id :: rest, s, e, h => by
    obtain ⟨gn, _, _, _, _, _, hr⟩ := h
    have := Groups.le hr
    omega

theorem Groups.frame {ops : FilterOps F} {ok : F → Prop} {c c' : Container F C} {g g' : List (Option F)}
    (hroot : c'.root = c.root) (hk : LeavesKept c c') :
    ∀ {ids : List Nat} {s e : Nat}, (∀ id ∈ ids, c'.getInner id = c.getInner id) →
      (∀ j, j < e → g'.getD j none = g.getD j none) →
      Groups ops ok c g ids s e → Groups ops ok c' g' ids s e
  | [], s, e, _, _, h => h
  | id :: rest, s, e, hids, hg, h => by
    obtain ⟨gn, h1, h2, h3, h4, h5, hr⟩ := h
    have hle := Groups.le hr
    refine ⟨gn, ?_, ?_, h3.frame hk, h4, ?_, ?_⟩
    · rw [hids id (List.mem_cons_self ..)]; exact h1
    · rw [hroot]; exact h2
    · exact h5.frame (fun j hj => hg j (by omega)) (fun _ h => h)
    · exact Groups.frame hroot hk (fun i hi => hids i (List.mem_cons_of_mem _ hi)) hg hr

theorem Groups.append {ops : FilterOps F} {ok : F → Prop} {c : Container F C} {g : List (Option F)} :
    ∀ {a b : List Nat} {s e : Nat},
      Groups ops ok c g (a ++ b) s e ↔ ∃ m, Groups ops ok c g a s m ∧ Groups ops ok c g b m e
  | [], b, s, e => by
    simp only [List.nil_append, Groups]
    constructor
    · intro h; exact ⟨s, rfl, h⟩
    · rintro ⟨m, rfl, h⟩; exact h
  | id :: rest, b, s, e => by
    simp only [List.cons_append, Groups]
    constructor
    · rintro ⟨gn, h1, h2, h3, h4, h5, hr⟩
      obtain ⟨m, ha, hb⟩ := (Groups.append).mp hr
      exact ⟨m, ⟨gn, h1, h2, h3, h4, h5, ha⟩, hb⟩
    · rintro ⟨m, ⟨gn, h1, h2, h3, h4, h5, ha⟩, hb⟩
      exact ⟨gn, h1, h2, h3, h4, h5, (Groups.append).mpr ⟨m, ha, hb⟩⟩

theorem getInner_ge_length (c : Container F C) (id : Nat) (h : c.inner.length ≤ id) : c.getInner id = none := by
  simp [getInner, List.getElem?_eq_none h]

theorem LeavesKept.refl (c : Container F C) : LeavesKept c c := fun _ _ _ h => h

theorem LeavesKept.trans {a b c : Container F C} (h1 : LeavesKept a b) (h2 : LeavesKept b c) : LeavesKept a c :=
  fun id p l h => h2 id p l (h1 id p l h)

theorem LeavesKept.appendInner (c : Container F C) (x) : LeavesKept c (c.appendInner x) :=
  fun id _ _ h => getInner_appendInner_of_some c x id _ h

theorem LeavesKept.modifyNode (c : Container F C) (id f) : LeavesKept c (c.modifyNode id f) :=
  fun j p l h => getInner_modifyNode_leaf c id j f p l h

theorem LeavesKept.appendChild (c : Container F C) (x) : LeavesKept c (c.appendChild x) := fun _ _ _ h => h

/-- change the root pointer -/
def withRoot (c : Container F C) (r : Nat) : Container F C := { c with root := r }

@[simp] theorem getInner_withRoot (c : Container F C) (r id : Nat) : (c.withRoot r).getInner id = c.getInner id := rfl
@[simp] theorem withRoot_root (c : Container F C) (r : Nat) : (c.withRoot r).root = r := rfl
@[simp] theorem withRoot_children (c : Container F C) (r : Nat) : (c.withRoot r).children = c.children := rfl
@[simp] theorem withRoot_groupSize (c : Container F C) (r : Nat) : (c.withRoot r).groupSize = c.groupSize := rfl
@[simp] theorem withRoot_inner (c : Container F C) (r : Nat) : (c.withRoot r).inner = c.inner := rfl

theorem new_inv (ops : FilterOps F) (ok : F → Prop) (g l : Nat) (hg : 0 < g) :
    Inv ops ok (Container.new g l : Container F C) [] := by
  refine ⟨rfl, fun o ho => (by cases ho), Or.inl ⟨{}, rfl, rfl, IsLeafRun.nil _ _ _, rfl, hg, ?_, ?_, ?_⟩⟩
  · intro f hf; cases hf
  · intro j _ h2; simp [Container.new] at h2
  · intro id n h
    by_cases hid : id = 0
    · exact hid
    · have : (Container.new g l : Container F C).getInner id = none :=
        getInner_ge_length _ _ (by simp [Container.new]; omega)
      rw [this] at h; cases h

/-- the filter a node gets from `add_child` covers what it covered before (when it had leaves) and the new
    child -/
theorem addUpd_filter_ok {ops : FilterOps F} {ok : F → Prop} (laws : FilterLaws ops ok) (item : Option F)
    (L : Nat) (nd : FNode F) (h1 : okOpt ok nd.filter) (h2 : okOpt ok item) :
    okOpt ok (addUpd ops item L nd).filter := by
  simp only [addUpd]
  split
  · exact h2
  · exact mergeFilters_ok laws _ _ h1 h2

theorem addUpd_sup {ops : FilterOps F} {ok : F → Prop} (laws : FilterLaws ops ok) (g : List (Option F))
    (item : Option F) (L : Nat) (nd : FNode F) (s : Nat) (h1 : okOpt ok nd.filter) (h2 : okOpt ok item)
    (he : s + nd.children.length = g.length) (h : SupRange ops g nd.filter s nd.children.length) :
    SupRange ops (g ++ [item]) (addUpd ops item L nd).filter s ((addUpd ops item L nd).children.length) := by
  have hl : (addUpd ops item L nd).children.length = nd.children.length + 1 := by simp [addUpd]
  rw [hl]
  by_cases hemp : nd.children = []
  · have hf : (addUpd ops item L nd).filter = item := by simp [addUpd, hemp, initFilter]
    rw [hf]
    intro j hj1 hj2 k hc
    rw [hemp] at he hj2
    simp only [List.length_nil, Nat.add_zero] at he hj2
    have : j = g.length := by omega
    subst this
    rw [getD_append_self] at hc
    exact hc
  · have hf : (addUpd ops item L nd).filter = mergeFilters ops nd.filter item := by
      have : nd.children.isEmpty = false := by
        cases hc : nd.children with
        | nil => exact absurd hc hemp
        | cons _ _ => rfl
      simp [addUpd, this]
    rw [hf]
    exact SupRange.snoc he (fun k hk => mergeFilters_sup laws _ _ h1 h2 k (Or.inl hk))
      (fun k hk => mergeFilters_sup laws _ _ h1 h2 k (Or.inr hk)) h

/-- `add_child(root, child)` on a flat container: everything the flat invariant says, except the size bound -/
theorem flat_addChild {ops : FilterOps F} {ok : F → Prop} (laws : FilterLaws ops ok) (cops : ChildOps F C)
    (c : Container F C) (g : List (Option F)) (child : C) (hinv : Inv ops ok c g) (hflat : FlatInv ops ok c g)
    (hitem : okOpt ok (cops.filterOf child)) :
    let c1 := (addChild ops cops c c.root child).1
    c1.root = c.root ∧ c1.groupSize = c.groupSize ∧ c1.children.length = c.children.length + 1 ∧
    c1.inner.length = c.inner.length + 1 ∧ LeavesKept c c1 ∧
    ∃ nd', c1.getInner c1.root = some (.node nd') ∧ nd'.parent = none ∧ IsLeafRun c1 c1.root nd'.children 0 ∧
      nd'.children.length = c1.children.length ∧ okOpt ok nd'.filter ∧
      SupRange ops (g ++ [cops.filterOf child]) nd'.filter 0 c1.children.length ∧
      (∀ id n, c1.getInner id = some (.node n) → id = c1.root) := by
  obtain ⟨nd, hroot, hpar, hrun, hlen, _, hok, hsup, honly⟩ := hflat
  intro c1
  have hc1 : c1 = ((c.appendInner (.leaf c.root c.children.length)).modifyNode c.root
          (addUpd ops (cops.filterOf child) c.inner.length)).appendChild { parent := c.root, data := child } := by
    show (addChild ops cops c c.root child).1 = _
    rw [addChild_top ops cops c c.root child nd hroot hpar]
  have hkept : LeavesKept c c1 := by
    rw [hc1]
    exact ((LeavesKept.appendInner c _).trans (LeavesKept.modifyNode _ _ _)).trans (LeavesKept.appendChild _ _)
  have hrootlt := getInner_lt_length c c.root _ hroot
  have hnode : c1.getInner c.root = some (.node (addUpd ops (cops.filterOf child) c.inner.length nd)) := by
    rw [hc1, getInner_appendChild]
    exact getInner_modifyNode_self _ _ _ nd (getInner_appendInner_of_some c _ _ _ hroot)
  have hnew : c1.getInner c.inner.length = some (.leaf c.root c.children.length) := by
    rw [hc1, getInner_appendChild, getInner_modifyNode_ne _ _ _ _ (by omega)]
    exact getInner_appendInner_self c _
  have hr : c1.root = c.root := by rw [hc1]; rfl
  have hcl : c1.children.length = c.children.length + 1 := by rw [hc1]; simp
  have hil : c1.inner.length = c.inner.length + 1 := by rw [hc1]; simp
  refine ⟨hr, by rw [hc1]; rfl, hcl, hil, hkept, addUpd ops (cops.filterOf child) c.inner.length nd, ?_, hpar, ?_, ?_, ?_, ?_, ?_⟩
  · rw [hr]; exact hnode
  · rw [hr]
    show IsLeafRun c1 c.root (nd.children ++ [c.inner.length]) 0
    refine (hrun.frame hkept).snoc ?_
    rw [hlen, Nat.zero_add]; exact hnew
  · rw [hcl]; simp [addUpd, hlen]
  · exact addUpd_filter_ok laws _ _ nd hok hitem
  · have := addUpd_sup laws g (cops.filterOf child) c.inner.length nd 0 hok hitem
      (by rw [Nat.zero_add, hlen]; exact hinv.glen.symm) (by rw [hlen]; exact hsup)
    rw [hcl]
    have hl : (addUpd ops (cops.filterOf child) c.inner.length nd).children.length = c.children.length + 1 := by
      simp [addUpd, hlen]
    rw [hl] at this
    exact this
  · intro id n hn
    rw [hr]
    by_cases h1 : id = c.root
    · exact h1
    · by_cases h2 : id < c.inner.length
      · have : c1.getInner id = c.getInner id := by
          rw [hc1, getInner_appendChild, getInner_modifyNode_ne _ _ _ _ h1, getInner_appendInner_of_lt _ _ _ h2]
        rw [this] at hn
        exact honly id n hn
      · by_cases h3 : id = c.inner.length
        · subst h3; rw [hnew] at hn; cases hn
        · rw [getInner_ge_length c1 id (by omega)] at hn; cases hn

/-- the root promotion of `push` -/
def promote (c1 : Container F C) : Container F C :=
  let c2 := c1.modifyNode c1.root (fun n => { n with parent := some c1.inner.length })
  (c2.appendInner (.node { filter := ((c2.getNode c2.root).getD {}).filter, children := [c2.root], parent := none })).withRoot
    c1.inner.length

theorem push_eq_flat (ops : FilterOps F) (cops : ChildOps F C) (c : Container F C) (child : C)
    (h : c.children.length < c.groupSize) :
    (push ops cops c child).1 =
      if (addChild ops cops c c.root child).1.children.length ≥ (addChild ops cops c c.root child).1.groupSize
      then promote (addChild ops cops c c.root child).1 else (addChild ops cops c c.root child).1 := by
  unfold push
  rw [if_pos h]
  simp only []
  split <;> rfl

theorem push_flat {ops : FilterOps F} {ok : F → Prop} (laws : FilterLaws ops ok) (cops : ChildOps F C)
    (c : Container F C) (g : List (Option F)) (child : C) (hinv : Inv ops ok c g) (hflat : FlatInv ops ok c g)
    (hitem : okOpt ok (cops.filterOf child)) :
    Inv ops ok (push ops cops c child).1 (g ++ [cops.filterOf child]) := by
  have hlt : c.children.length < c.groupSize := by
    obtain ⟨_, _, _, _, _, h, _⟩ := hflat; exact h
  obtain ⟨hr, hgs, hcl, hil, hkept, nd', hnode, hpar, hrun, hlen, hok, hsup, honly⟩ :=
    flat_addChild laws cops c g child hinv hflat hitem
  rw [push_eq_flat ops cops c child hlt]
  generalize (addChild ops cops c c.root child).1 = c1 at *
  have hgok : ∀ o ∈ g ++ [cops.filterOf child], okOpt ok o := by
    intro o ho
    rcases List.mem_append.mp ho with ho | ho
    · exact hinv.gok o ho
    · simp only [List.mem_singleton] at ho; subst ho; exact hitem
  split
  · -- root promotion
    rename_i hge
    have hrootlt := getInner_lt_length c1 c1.root _ hnode
    have hne : c1.root ≠ c1.inner.length := by omega
    let c2 := c1.modifyNode c1.root (fun n => { n with parent := some c1.inner.length })
    have h2root : c2.getInner c1.root = some (.node { nd' with parent := some c1.inner.length }) :=
      getInner_modifyNode_self c1 _ _ nd' hnode
    have hfilter : ((c2.getNode c2.root).getD {}).filter = nd'.filter := by
      show ((c2.getNode c1.root).getD {}).filter = nd'.filter
      rw [getNode_eq c2 _ _ h2root]; rfl
    have hprom : promote c1 = (c2.appendInner (.node { filter := nd'.filter, children := [c1.root], parent := none })).withRoot
        c1.inner.length := by
      unfold promote
      simp only []
      rw [hfilter]
      rfl
    rw [hprom]
    have hkept2 : LeavesKept c1 ((c2.appendInner (.node { filter := nd'.filter, children := [c1.root], parent := none })).withRoot
        c1.inner.length) :=
      (LeavesKept.modifyNode c1 _ _).trans (LeavesKept.appendInner c2 _)
    refine ⟨?_, hgok, Or.inr ⟨{ filter := nd'.filter, children := [c1.root], parent := none }, ?_, rfl, ?_, ?_, ?_, ?_, hok, ?_, ?_⟩⟩
    · simp only [List.length_append, List.length_singleton, withRoot_children, appendInner_children]
      show g.length + 1 = c1.children.length
      rw [hcl, hinv.glen]
    · simp only [withRoot_root, getInner_withRoot]
      have : c1.inner.length = c2.inner.length := by simp [c2]
      rw [this]; exact getInner_appendInner_self c2 _
    · simp
    · simp only [withRoot_groupSize, appendInner_groupSize, withRoot_children, appendInner_children]
      exact hge
    · simp only [withRoot_root, List.nodup_cons, List.mem_singleton, List.not_mem_nil, not_false_eq_true,
        List.nodup_nil, and_true]
      exact fun h => hne h.symm
    · simp only [withRoot_children, appendInner_children]
      refine ⟨{ nd' with parent := some c1.inner.length }, ?_, rfl, hrun.frame hkept2, hok, ?_, ?_⟩
      · simp only [getInner_withRoot]
        exact getInner_appendInner_of_some c2 _ _ _ h2root
      · show SupRange ops _ nd'.filter 0 nd'.children.length
        rw [hlen]; exact hsup
      · show 0 + nd'.children.length = c1.children.length
        rw [hlen]; omega
    · simp only [withRoot_children, appendInner_children]
      exact hsup
    · intro id n hn
      simp only [getInner_withRoot, withRoot_root] at hn ⊢
      by_cases h1 : id = c1.inner.length
      · left; exact h1
      · right
        simp only [List.mem_singleton]
        by_cases h2 : id < c1.inner.length
        · rw [getInner_appendInner_of_lt c2 _ id (by simpa [c2] using h2)] at hn
          by_cases h3 : id = c1.root
          · exact h3
          · rw [getInner_modifyNode_ne c1 _ _ _ h3] at hn
            exact honly id n hn
        · rw [getInner_ge_length _ id (by simp [c2]; omega)] at hn; cases hn
  · rename_i hge
    refine ⟨?_, hgok, Or.inl ⟨nd', hnode, hpar, hrun, hlen, by omega, hok, hsup, honly⟩⟩
    simp only [List.length_append, List.length_singleton]
    rw [hcl, hinv.glen]

theorem push_eq_two (ops : FilterOps F) (cops : ChildOps F C) (c : Container F C) (child : C)
    (h : ¬ c.children.length < c.groupSize) (lg : Nat) (hl : c.lastInnerNode = some lg) :
    (push ops cops c child).1 =
      if ((c.getNode lg).getD {}).children.length ≥ c.groupSize
      then (addChild ops cops c.newInnerNode.1 c.newInnerNode.2 child).1
      else (addChild ops cops c lg child).1 := by
  unfold push
  rw [if_neg h, hl]
  simp only []
  split <;> rfl

/-- shared part of the two-level cases: `add_child(grp, child)` where `grp` is the last group of a container
    `c` whose root is `rd` and whose earlier groups `pre` hold the children `0 … m-1` -/
theorem two_addChild {ops : FilterOps F} {ok : F → Prop} (laws : FilterLaws ops ok) (cops : ChildOps F C)
    (c : Container F C) (g : List (Option F)) (child : C) (hitem : okOpt ok (cops.filterOf child))
    (hglen : g.length = c.children.length) (hgok : ∀ o ∈ g, okOpt ok o)
    (rd gn : FNode F) (pre : List Nat) (grp m : Nat)
    (hroot : c.getInner c.root = some (.node rd)) (hrpar : rd.parent = none)
    (hrch : rd.children = pre ++ [grp]) (hgs : c.groupSize ≤ c.children.length + 1)
    (hnd : (c.root :: rd.children).Nodup)
    (hpre : Groups ops ok c g pre 0 m)
    (hgrp : c.getInner grp = some (.node gn)) (hgpar : gn.parent = some c.root)
    (hgrun : IsLeafRun c grp gn.children m) (hgok' : okOpt ok gn.filter)
    (hgsup : SupRange ops g gn.filter m gn.children.length) (hend : m + gn.children.length = c.children.length)
    (hrok : okOpt ok rd.filter) (hrsup : SupRange ops g rd.filter 0 c.children.length)
    (honly : ∀ id n, c.getInner id = some (.node n) → id = c.root ∨ id ∈ rd.children) :
    Inv ops ok (addChild ops cops c grp child).1 (g ++ [cops.filterOf child]) := by
  have hne : c.root ≠ grp := by
    intro h
    have := (List.nodup_cons.mp hnd).1
    rw [hrch, h] at this
    exact this (by simp)
  rw [addChild_under ops cops c grp c.root child gn rd hgrp hgpar hroot hrpar hne]
  simp only []
  let item := cops.filterOf child
  let c0 := c.appendInner (.leaf grp c.children.length)
  let c1 := c0.modifyNode grp (addUpd ops item c.inner.length)
  let c2 := c1.modifyNode c.root (mergeUpd ops item)
  let c3 := c2.appendChild { parent := grp, data := child }
  show Inv ops ok c3 (g ++ [item])
  have hkept : LeavesKept c c3 :=
    (((LeavesKept.appendInner c _).trans (LeavesKept.modifyNode c0 _ _)).trans (LeavesKept.modifyNode c1 _ _)).trans
      (LeavesKept.appendChild c2 _)
  have hgrplt := getInner_lt_length c grp _ hgrp
  have hrootlt := getInner_lt_length c c.root _ hroot
  have h3root : c3.getInner c.root = some (.node (mergeUpd ops item rd)) := by
    show c2.getInner c.root = _
    refine getInner_modifyNode_self c1 _ _ rd ?_
    rw [getInner_modifyNode_ne c0 _ _ _ hne]
    exact getInner_appendInner_of_some c _ _ _ hroot
  have h3grp : c3.getInner grp = some (.node (addUpd ops item c.inner.length gn)) := by
    show c2.getInner grp = _
    rw [getInner_modifyNode_ne c1 _ _ _ (Ne.symm hne)]
    exact getInner_modifyNode_self c0 _ _ gn (getInner_appendInner_of_some c _ _ _ hgrp)
  have h3new : c3.getInner c.inner.length = some (.leaf grp c.children.length) := by
    show c2.getInner c.inner.length = _
    rw [getInner_modifyNode_ne c1 _ _ _ (by omega), getInner_modifyNode_ne c0 _ _ _ (by omega)]
    exact getInner_appendInner_self c _
  have h3other : ∀ id, id < c.inner.length → id ≠ c.root → id ≠ grp → c3.getInner id = c.getInner id := by
    intro id h1 h2 h3
    show c2.getInner id = _
    rw [getInner_modifyNode_ne c1 _ _ _ h2, getInner_modifyNode_ne c0 _ _ _ h3]
    exact getInner_appendInner_of_lt c _ id h1
  have h3len : c3.inner.length = c.inner.length + 1 := by simp [c3, c2, c1, c0]
  have h3cl : c3.children.length = c.children.length + 1 := by simp [c3, c2, c1, c0]
  have hgok2 : ∀ o ∈ g ++ [item], okOpt ok o := by
    intro o ho
    rcases List.mem_append.mp ho with ho | ho
    · exact hgok o ho
    · simp only [List.mem_singleton] at ho; subst ho; exact hitem
  have hm : m ≤ c.children.length := by omega
  refine ⟨by simp only [List.length_append, List.length_singleton]; rw [h3cl, hglen], hgok2,
    Or.inr ⟨mergeUpd ops item rd, h3root, hrpar, ?_, ?_, hnd, ?_, ?_, ?_, ?_⟩⟩
  · show rd.children ≠ []; rw [hrch]; simp
  · show c.groupSize ≤ c3.children.length; rw [h3cl]; exact hgs
  · show Groups ops ok c3 (g ++ [item]) rd.children 0 c3.children.length
    rw [hrch, h3cl]
    refine Groups.append.mpr ⟨m, ?_, ?_⟩
    · refine Groups.frame (c := c) (c' := c3) rfl hkept ?_ ?_ hpre
      · intro id hid
        have hnd' := hnd
        rw [hrch] at hnd'
        have hidlt : id < c.inner.length := by
          -- members of `pre` are nodes of `c`
          have : ∀ {ids : List Nat} {s e : Nat}, Groups ops ok c g ids s e → id ∈ ids → id < c.inner.length := by
            intro ids
            induction ids with
            | nil => intro _ _ _ h; cases h
            | cons a rest ih =>
              intro s e hG hmem
              obtain ⟨gn', h1, _, _, _, _, hr⟩ := hG
              rcases List.mem_cons.mp hmem with rfl | hmem
              · exact getInner_lt_length c _ _ h1
              · exact ih hr hmem
          exact this hpre hid
        have h1 : id ≠ c.root := by
          intro h
          have := (List.nodup_cons.mp hnd').1
          exact this (by rw [← h]; exact List.mem_append_left _ hid)
        have h2 : id ≠ grp := by
          intro h
          have := (List.nodup_cons.mp hnd').2
          rw [List.nodup_append] at this
          exact this.2.2 id hid grp (by simp) h
        exact h3other id hidlt h1 h2
      · intro j hj; exact getD_append_left g item j (by omega)
    · refine ⟨addUpd ops item c.inner.length gn, h3grp, hgpar, ?_, addUpd_filter_ok laws _ _ gn hgok' hitem, ?_, ?_⟩
      · show IsLeafRun c3 grp (gn.children ++ [c.inner.length]) m
        refine (hgrun.frame hkept).snoc ?_
        rw [hend]; exact h3new
      · exact addUpd_sup laws g item c.inner.length gn m hgok' hitem (by omega) hgsup
      · show m + (gn.children ++ [c.inner.length]).length = c.children.length + 1
        simp only [List.length_append, List.length_singleton]; omega
  · exact mergeFilters_ok laws _ _ hrok hitem
  · rw [h3cl]
    exact SupRange.snoc (by omega) (fun k hk => mergeFilters_sup laws _ _ hrok hitem k (Or.inl hk))
      (fun k hk => mergeFilters_sup laws _ _ hrok hitem k (Or.inr hk)) hrsup
  · intro id n hn
    show id = c.root ∨ id ∈ rd.children
    by_cases h1 : id = c.root
    · left; exact h1
    · by_cases h2 : id = grp
      · right; rw [hrch, h2]; simp
      · by_cases h3 : id < c.inner.length
        · rw [h3other id h3 h1 h2] at hn
          exact honly id n hn
        · by_cases h4 : id = c.inner.length
          · subst h4; rw [h3new] at hn; cases hn
          · rw [getInner_ge_length c3 id (by omega)] at hn; cases hn

theorem Groups.mem_lt {ops : FilterOps F} {ok : F → Prop} {c : Container F C} {g : List (Option F)} {id : Nat} :
    ∀ {ids : List Nat} {s e : Nat}, Groups ops ok c g ids s e → id ∈ ids → id < c.inner.length
  | [], _, _, _, h => by cases h
  | a :: rest, s, e, hG, hmem => by
    obtain ⟨gn', h1, _, _, _, _, hr⟩ := hG
    rcases List.mem_cons.mp hmem with rfl | hmem
    · exact getInner_lt_length c _ _ h1
    · exact Groups.mem_lt hr hmem

theorem newInnerNode_eq (c : Container F C) :
    c.newInnerNode = ((c.modifyNode c.root (fun n => { n with children := n.children ++ [c.inner.length] })).appendInner
      (.node { parent := some c.root }), c.inner.length) := rfl

theorem push_two {ops : FilterOps F} {ok : F → Prop} (laws : FilterLaws ops ok) (cops : ChildOps F C)
    (c : Container F C) (g : List (Option F)) (child : C) (hinv : Inv ops ok c g) (htwo : TwoInv ops ok c g)
    (hitem : okOpt ok (cops.filterOf child)) :
    Inv ops ok (push ops cops c child).1 (g ++ [cops.filterOf child]) := by
  obtain ⟨rd, hroot, hrpar, hne, hgs, hnd, hgroups, hrok, hrsup, honly⟩ := htwo
  -- split off the last group
  obtain ⟨pre, lg, hrch⟩ : ∃ pre lg, rd.children = pre ++ [lg] :=
    ⟨rd.children.dropLast, rd.children.getLast hne, (List.dropLast_concat_getLast hne).symm⟩
  have hlast : c.lastInnerNode = some lg := by
    simp [lastInnerNode, getNode_eq c _ _ hroot, hrch]
  rw [push_eq_two ops cops c child (by omega) lg hlast]
  rw [hrch] at hgroups
  obtain ⟨m, hpre, hlastG⟩ := Groups.append.mp hgroups
  have hlastG' := hlastG
  obtain ⟨gn, hgrp, hgpar, hgrun, hgok', hgsup, hnil⟩ := hlastG
  have hend : m + gn.children.length = c.children.length := hnil
  rw [getNode_eq c lg gn hgrp]
  simp only [Option.getD_some]
  split
  · -- a fresh group
    rw [newInnerNode_eq]
    simp only []
    let c0 := c.modifyNode c.root (fun n => { n with children := n.children ++ [c.inner.length] })
    let c1 := c0.appendInner (.node { parent := some c.root })
    have hrootlt := getInner_lt_length c c.root _ hroot
    have hkept : LeavesKept c c1 := (LeavesKept.modifyNode c _ _).trans (LeavesKept.appendInner c0 _)
    have h1root : c1.getInner c.root = some (.node { rd with children := rd.children ++ [c.inner.length] }) :=
      getInner_appendInner_of_some c0 _ _ _ (getInner_modifyNode_self c _ _ rd hroot)
    have h1new : c1.getInner c.inner.length = some (.node { parent := some c.root }) := by
      have : c.inner.length = c0.inner.length := by simp [c0]
      rw [this]; exact getInner_appendInner_self c0 _
    have h1other : ∀ id, id < c.inner.length → id ≠ c.root → c1.getInner id = c.getInner id := by
      intro id h1 h2
      show (c0.appendInner _).getInner id = _
      rw [getInner_appendInner_of_lt c0 _ id (by simpa [c0] using h1)]
      exact getInner_modifyNode_ne c _ _ _ h2
    have hmemlt : ∀ id ∈ rd.children, id < c.inner.length := by
      intro id hid
      rw [hrch] at hid
      exact Groups.mem_lt (Groups.append.mpr ⟨m, hpre, hlastG'⟩) hid
    refine two_addChild laws cops c1 g child hitem hinv.glen hinv.gok
      { rd with children := rd.children ++ [c.inner.length] } { parent := some c.root } rd.children
      c.inner.length c.children.length h1root hrpar rfl (by show c.groupSize ≤ c.children.length + 1; omega) ?_ ?_
      h1new rfl (IsLeafRun.nil _ _ _) (fun f hf => by cases hf) ?_ rfl hrok hrsup ?_
    · show (c.root :: (rd.children ++ [c.inner.length])).Nodup
      rw [← List.cons_append]
      refine List.nodup_append.mpr ⟨hnd, by simp, ?_⟩
      intro a ha b hb hab
      simp only [List.mem_singleton] at hb
      subst hb
      rcases List.mem_cons.mp ha with h | h
      · omega
      · have := hmemlt a h; omega
    · rw [← hrch] at hgroups
      refine Groups.frame (c := c) (c' := c1) rfl hkept ?_ (fun _ _ => rfl) hgroups
      intro id hid
      refine h1other id (hmemlt id hid) ?_
      intro h
      exact (List.nodup_cons.mp hnd).1 (h ▸ hid)
    · intro j h1 h2; simp only [List.length_nil] at h2; omega
    · intro id n hn
      show id = c.root ∨ id ∈ rd.children ++ [c.inner.length]
      by_cases h1 : id = c.root
      · left; exact h1
      · by_cases h2 : id < c.inner.length
        · rw [h1other id h2 h1] at hn
          rcases honly id n hn with h | h
          · exact absurd h h1
          · right; exact List.mem_append_left _ h
        · by_cases h3 : id = c.inner.length
          · right; rw [h3]; simp
          · rw [getInner_ge_length c1 id (by simp [c1, c0]; omega)] at hn; cases hn
  · exact two_addChild laws cops c g child hitem hinv.glen hinv.gok rd gn pre lg m hroot hrpar hrch (by omega) hnd
      hpre hgrp hgpar hgrun hgok' hgsup hend hrok hrsup honly

/-- `push` keeps the invariant; the ghost list records the filter the child had -/
theorem push_inv {ops : FilterOps F} {ok : F → Prop} (laws : FilterLaws ops ok) (cops : ChildOps F C)
    (c : Container F C) (g : List (Option F)) (child : C) (hinv : Inv ops ok c g)
    (hitem : okOpt ok (cops.filterOf child)) :
    Inv ops ok (push ops cops c child).1 (g ++ [cops.filterOf child]) := by
  rcases hinv.shape with h | h
  · exact push_flat laws cops c g child hinv h hitem
  · exact push_two laws cops c g child hinv h hitem

/-! ## operations that keep the arena's shape and can only widen node filters (`pop`, `offload`) -/

/-- `c'` has the arena shape of `c`; node filters of `c'` cover what those of `c` covered -/
structure Refines (ops : FilterOps F) (ok : F → Prop) (c c' : Container F C) : Prop where
  root : c'.root = c.root
  groupSize : c'.groupSize = c.groupSize
  clen : c'.children.length = c.children.length
  ilen : c'.inner.length = c.inner.length
  leaves : LeavesKept c c'
  nodes : ∀ id n, c.getInner id = some (.node n) → ∃ n', c'.getInner id = some (.node n') ∧
    n'.children = n.children ∧ n'.parent = n.parent ∧ (okOpt ok n.filter → okOpt ok n'.filter) ∧
    (∀ k, okOpt ok n.filter → ops.coversOpt n.filter k → ops.coversOpt n'.filter k)
  back : ∀ id n', c'.getInner id = some (.node n') → ∃ n, c.getInner id = some (.node n)

theorem Refines.refl (ops : FilterOps F) (ok : F → Prop) (c : Container F C) : Refines ops ok c c :=
  ⟨rfl, rfl, rfl, rfl, LeavesKept.refl c, fun _ n h => ⟨n, h, rfl, rfl, id, fun _ _ h => h⟩, fun _ n h => ⟨n, h⟩⟩

theorem Refines.trans {ops : FilterOps F} {ok : F → Prop} {a b c : Container F C} (h1 : Refines ops ok a b)
    (h2 : Refines ops ok b c) : Refines ops ok a c := by
  refine ⟨h2.root.trans h1.root, h2.groupSize.trans h1.groupSize, h2.clen.trans h1.clen, h2.ilen.trans h1.ilen,
    h1.leaves.trans h2.leaves, ?_, ?_⟩
  · intro id n hn
    obtain ⟨n1, e1, c1, p1, o1, s1⟩ := h1.nodes id n hn
    obtain ⟨n2, e2, c2, p2, o2, s2⟩ := h2.nodes id n1 e1
    exact ⟨n2, e2, c2.trans c1, p2.trans p1, fun h => o2 (o1 h), fun k hk hc => s2 k (o1 hk) (s1 k hk hc)⟩
  · intro id n' hn
    obtain ⟨n1, e1⟩ := h2.back id n' hn
    exact h1.back id n1 e1

/-- replacing the children vector by one of the same length -/
theorem Refines.setChildren (ops : FilterOps F) (ok : F → Prop) (c : Container F C)
    (chs : List (Option (FLeaf C))) (h : chs.length = c.children.length) :
    Refines ops ok c { c with children := chs } :=
  ⟨rfl, rfl, h, rfl, fun _ _ _ h => h, fun _ n h => ⟨n, h, rfl, rfl, id, fun _ _ h => h⟩, fun _ n h => ⟨n, h⟩⟩

/-- off-loading the filter of one node -/
theorem Refines.offloadNode {ops : FilterOps F} {ok : F → Prop} (laws : FilterLaws ops ok) (c : Container F C)
    (p : Nat) (flt : Option F) (n0 : FNode F) (hn0 : c.getInner p = some (.node n0))
    (hflt : flt = n0.filter.map (fun f => (ops.offload f).1)) :
    Refines ops ok c (c.modifyNode p (fun n => { n with filter := flt })) := by
  refine ⟨rfl, rfl, rfl, by simp, LeavesKept.modifyNode c _ _, ?_, ?_⟩
  · intro id n hn
    by_cases hid : id = p
    · subst hid
      rw [hn0] at hn
      cases hn
      refine ⟨_, getInner_modifyNode_self c _ _ n0 hn0, rfl, rfl, ?_, ?_⟩
      · intro hok f hf
        simp only at hf
        rw [hflt] at hf
        cases hnf : n0.filter with
        | none => rw [hnf] at hf; cases hf
        | some f0 =>
          rw [hnf] at hf
          simp only [Option.map_some, Option.some.injEq] at hf
          subst hf
          exact laws.offload_ok f0 (hok f0 hnf)
      · intro k hok hc
        simp only
        rw [hflt]
        cases hnf : n0.filter with
        | none => trivial
        | some f0 =>
          rw [hnf] at hc
          exact laws.offload_sup f0 k (hok f0 hnf) hc
    · exact ⟨n, by rw [getInner_modifyNode_ne c _ _ _ hid]; exact hn, rfl, rfl, fun h => h, fun _ _ h => h⟩
  · intro id n' hn
    by_cases hid : id = p
    · subst hid; exact ⟨n0, hn0⟩
    · rw [getInner_modifyNode_ne c _ _ _ hid] at hn; exact ⟨n', hn⟩

theorem Groups.refine {ops : FilterOps F} {ok : F → Prop} {c c' : Container F C} {g : List (Option F)}
    (hr : Refines ops ok c c') :
    ∀ {ids : List Nat} {s e : Nat}, Groups ops ok c g ids s e → Groups ops ok c' g ids s e
  | [], _, _, h => h
  | id :: rest, s, e, h => by
    obtain ⟨gn, h1, h2, h3, h4, h5, hrest⟩ := h
    obtain ⟨gn', e1, ec, ep, eo, es⟩ := hr.nodes id gn h1
    refine ⟨gn', e1, by rw [ep, hr.root]; exact h2, by rw [ec]; exact h3.frame hr.leaves, eo h4, ?_, ?_⟩
    · rw [ec]; exact h5.frame (fun _ _ => rfl) (fun k hk => es k h4 hk)
    · rw [ec]; exact Groups.refine hr hrest

theorem Inv.refine {ops : FilterOps F} {ok : F → Prop} {c c' : Container F C} {g : List (Option F)}
    (hinv : Inv ops ok c g) (hr : Refines ops ok c c') : Inv ops ok c' g := by
  refine ⟨hinv.glen.trans hr.clen.symm, hinv.gok, ?_⟩
  rcases hinv.shape with h | h
  · left
    obtain ⟨nd, h1, h2, h3, h4, h5, h6, h7, h8⟩ := h
    obtain ⟨nd', e1, ec, ep, eo, es⟩ := hr.nodes _ nd h1
    refine ⟨nd', by rw [hr.root]; exact e1, by rw [ep]; exact h2, ?_, by rw [ec, hr.clen]; exact h4,
      by rw [hr.clen, hr.groupSize]; exact h5, eo h6, ?_, ?_⟩
    · rw [ec, hr.root]; exact h3.frame hr.leaves
    · rw [hr.clen]; exact h7.frame (fun _ _ => rfl) (fun k hk => es k h6 hk)
    · intro id n hn
      obtain ⟨n0, hn0⟩ := hr.back id n hn
      rw [hr.root]; exact h8 id n0 hn0
  · right
    obtain ⟨rd, h1, h2, h3, h4, h5, h6, h7, h8, h9⟩ := h
    obtain ⟨rd', e1, ec, ep, eo, es⟩ := hr.nodes _ rd h1
    refine ⟨rd', by rw [hr.root]; exact e1, by rw [ep]; exact h2, by rw [ec]; exact h3,
      by rw [hr.clen, hr.groupSize]; exact h4, by rw [ec, hr.root]; exact h5, ?_, eo h7, ?_, ?_⟩
    · rw [ec, hr.clen]; exact Groups.refine hr h6
    · rw [hr.clen]; exact h8.frame (fun _ _ => rfl) (fun k hk => es k h7 hk)
    · intro id n hn
      obtain ⟨n0, hn0⟩ := hr.back id n hn
      rw [hr.root, ec]; exact h9 id n0 hn0

theorem remove_refines (ops : FilterOps F) (ok : F → Prop) (c : Container F C) (id : Nat) :
    Refines ops ok c (c.remove id).1 := by
  unfold remove
  split
  · exact Refines.setChildren ops ok c _ (by simp)
  · exact Refines.refl ops ok c

theorem pop_refines (ops : FilterOps F) (ok : F → Prop) (c : Container F C) : Refines ops ok c c.pop.1 := by
  unfold pop
  split
  · exact remove_refines ops ok c _
  · exact Refines.refl ops ok c

theorem offloadChildren_length (cops : ChildOps F C) (needed level selfLevel : Nat) :
    ∀ (chs : List (Option (FLeaf C))) (freed : Nat) (ps : List Nat),
      (offloadChildren cops needed level selfLevel chs freed ps).1.length = chs.length
  | [], _, _ => rfl
  | none :: rest, freed, ps => by
    simp only [offloadChildren, List.length_cons]
    rw [offloadChildren_length cops needed level selfLevel rest freed ps]
  | some lf :: rest, freed, ps => by
    simp only [offloadChildren]
    split
    · rfl
    · simp only [List.length_cons]
      rw [offloadChildren_length cops needed level selfLevel rest _ _]

theorem offloadRound_refines {ops : FilterOps F} {ok : F → Prop} (laws : FilterLaws ops ok) (needed : Nat) :
    ∀ (ps : List Nat) (c : Container F C) (freed : Nat) (np : List Nat),
      Refines ops ok c (offloadRound ops needed ps c freed np).1
  | [], c, _, _ => Refines.refl ops ok c
  | p :: ps, c, freed, np => by
    simp only [offloadRound]
    split
    · exact Refines.refl ops ok c
    · cases hn : c.getNode p with
      | none => simp only []; exact offloadRound_refines laws needed ps c freed np
      | some n =>
        simp only []
        have hin : c.getInner p = some (.node n) := by
          unfold getNode at hn
          split at hn
          · rename_i n' h; cases hn; exact h
          · cases hn
        refine Refines.trans (Refines.offloadNode laws c p _ n hin ?_) (offloadRound_refines laws needed ps _ _ _)
        cases n.filter <;> rfl

theorem offloadNodes_refines {ops : FilterOps F} {ok : F → Prop} (laws : FilterLaws ops ok) (needed : Nat) :
    ∀ (fuel : Nat) (c : Container F C) (freed : Nat) (ps : List Nat),
      Refines ops ok c (offloadNodes ops needed fuel c freed ps).1
  | 0, c, _, _ => Refines.refl ops ok c
  | fuel + 1, c, freed, [] => Refines.refl ops ok c
  | fuel + 1, c, freed, p :: ps => by
    simp only [offloadNodes]
    have h1 := offloadRound_refines laws needed (p :: ps) c freed []
    split
    · exact h1
    · exact h1.trans (offloadNodes_refines laws needed fuel _ _ _)

theorem offload_refines {ops : FilterOps F} {ok : F → Prop} (laws : FilterLaws ops ok) (cops : ChildOps F C)
    (c : Container F C) (needed level : Nat) : Refines ops ok c (offload ops cops c needed level).1 := by
  unfold offload
  simp only []
  have h0 := Refines.setChildren ops ok c (offloadChildren cops needed level c.level c.children 0 []).1
    (offloadChildren_length cops needed level c.level c.children 0 [])
  split
  · exact h0
  · split
    · exact h0
    · exact h0.trans (offloadNodes_refines laws needed _ _ _ _)

/-! ## what the iterator yields -/

/-- slot `j` of the children vector holds a child -/
def present (c : Container F C) (j : Nat) : Bool := (c.getChild j).isSome

theorem walk_leaf (ops : FilterOps F) (c : Container F C) (rev : Bool) (k : Key) (f lid n j : Nat)
    (h : c.getInner lid = some (.leaf n j)) :
    walk ops c rev k (f + 1) lid = if present c j then [j] else [] := by
  simp only [walk, h]; rfl

theorem accepts_leaf (ops : FilterOps F) (c : Container F C) (k : Key) (lid n j : Nat)
    (h : c.getInner lid = some (.leaf n j)) : accepts ops c k lid = present c j := by
  simp only [accepts, h, present]

theorem walk_node (ops : FilterOps F) (c : Container F C) (rev : Bool) (k : Key) (f id : Nat) (nd : FNode F)
    (h : c.getInner id = some (.node nd)) :
    walk ops c rev k (f + 1) id =
      ((if rev then nd.children.reverse else nd.children).filter (accepts ops c k)).flatMap (walk ops c rev k f) := by
  simp only [walk, h]

theorem IsLeafRun.cons_iff {c : Container F C} {n a : Nat} {rest : List Nat} {s : Nat} :
    IsLeafRun c n (a :: rest) s ↔ c.getInner a = some (.leaf n s) ∧ IsLeafRun c n rest (s + 1) := by
  constructor
  · intro h
    refine ⟨h 0 (Nat.zero_lt_succ _), ?_⟩
    intro p hp
    have e : s + 1 + p = s + (p + 1) := by omega
    rw [e]
    exact h (p + 1) (Nat.succ_lt_succ hp)
  · rintro ⟨h0, hr⟩ p hp
    cases p with
    | zero => exact h0
    | succ p =>
      have e : s + (p + 1) = s + 1 + p := by omega
      rw [e]
      exact hr p (Nat.lt_of_succ_lt_succ hp)

theorem walk_leafRun_fwd (ops : FilterOps F) (c : Container F C) (k : Key) (n f : Nat) :
    ∀ (ids : List Nat) (s : Nat), IsLeafRun c n ids s →
      (ids.filter (accepts ops c k)).flatMap (walk ops c false k (f + 1)) =
        (List.range' s ids.length).filter (present c)
  | [], _, _ => rfl
  | a :: rest, s, h => by
    obtain ⟨h0, hr⟩ := IsLeafRun.cons_iff.mp h
    have ih := walk_leafRun_fwd ops c k n f rest (s + 1) hr
    simp only [List.length_cons, List.range'_succ, List.filter_cons, accepts_leaf ops c k a n s h0]
    cases hp : present c s
    · simpa using ih
    · simp only [if_true, List.flatMap_cons, walk_leaf ops c false k f a n s h0, hp, ih]
      rfl

theorem walk_leafRun_rev (ops : FilterOps F) (c : Container F C) (k : Key) (n f : Nat) :
    ∀ (ids : List Nat) (s : Nat), IsLeafRun c n ids s →
      (ids.reverse.filter (accepts ops c k)).flatMap (walk ops c true k (f + 1)) =
        ((List.range' s ids.length).filter (present c)).reverse
  | [], _, _ => rfl
  | a :: rest, s, h => by
    obtain ⟨h0, hr⟩ := IsLeafRun.cons_iff.mp h
    have ih := walk_leafRun_rev ops c k n f rest (s + 1) hr
    simp only [List.length_cons, List.range'_succ, List.filter_cons, List.reverse_cons, List.filter_append,
      List.flatMap_append, ih, accepts_leaf ops c k a n s h0, List.filter_nil]
    cases hp : present c s
    · simp
    · simp only [if_true, List.flatMap_cons, walk_leaf ops c true k f a n s h0, hp, List.flatMap_nil,
        List.reverse_cons, List.append_nil]

/-- a group node is accepted whenever its filter covers the key -/
theorem accepts_node_of_covers (ops : FilterOps F) (c : Container F C) (k : Key) (id : Nat) (nd : FNode F)
    (h : c.getInner id = some (.node nd)) (hc : ops.coversOpt nd.filter k) : accepts ops c k id = true := by
  simp only [accepts, h]
  cases hf : nd.filter with
  | none => rfl
  | some f =>
    rw [hf] at hc
    simp only [Option.map_some, bne_iff_ne, ne_eq, Option.some.injEq]
    exact hc

/-- forward walk over the groups `ids` holding the children `s … e-1` -/
def groupsOut (ops : FilterOps F) (c : Container F C) (k : Key) (f : Nat) (ids : List Nat) : List Nat :=
  (ids.filter (accepts ops c k)).flatMap (walk ops c false k (f + 2))

theorem groupsOut_cons (ops : FilterOps F) (ok : F → Prop) (c : Container F C) (g : List (Option F)) (k : Key)
    (f id : Nat) (rest : List Nat) (s e : Nat) (h : Groups ops ok c g (id :: rest) s e) :
    ∃ gn, c.getInner id = some (.node gn) ∧ Groups ops ok c g rest (s + gn.children.length) e ∧
      SupRange ops g gn.filter s gn.children.length ∧ IsLeafRun c id gn.children s ∧
      groupsOut ops c k f (id :: rest) =
        (if accepts ops c k id then (List.range' s gn.children.length).filter (present c) else []) ++
          groupsOut ops c k f rest := by
  obtain ⟨gn, h1, _, h3, _, h5, hr⟩ := h
  refine ⟨gn, h1, hr, h5, h3, ?_⟩
  simp only [groupsOut, List.filter_cons]
  cases ha : accepts ops c k id
  · simp
  · simp only [if_true, List.flatMap_cons]
    rw [walk_node ops c false k (f + 1) id gn h1]
    simp only [Bool.false_eq_true, if_false]
    rw [walk_leafRun_fwd ops c k id f gn.children s h3]

theorem groupsOut_sublist (ops : FilterOps F) (ok : F → Prop) (c : Container F C) (g : List (Option F)) (k : Key)
    (f : Nat) : ∀ (ids : List Nat) (s e : Nat), Groups ops ok c g ids s e →
      (groupsOut ops c k f ids).Sublist (List.range' s (e - s))
  | [], s, e, h => by simp [groupsOut]
  | id :: rest, s, e, h => by
    obtain ⟨gn, _, hr, _, _, heq⟩ := groupsOut_cons ops ok c g k f id rest s e h
    rw [heq]
    have hle := Groups.le hr
    have hsplit : List.range' s (e - s) =
        List.range' s gn.children.length ++ List.range' (s + gn.children.length) (e - (s + gn.children.length)) := by
      have : e - s = gn.children.length + (e - (s + gn.children.length)) := by omega
      rw [this, List.range'_append_1]
    rw [hsplit]
    refine List.Sublist.append ?_ (groupsOut_sublist ops ok c g k f rest _ e hr)
    split
    · exact List.filter_sublist
    · exact List.nil_sublist _

theorem groupsOut_present (ops : FilterOps F) (ok : F → Prop) (c : Container F C) (g : List (Option F)) (k : Key)
    (f : Nat) : ∀ (ids : List Nat) (s e : Nat), Groups ops ok c g ids s e →
      ∀ j ∈ groupsOut ops c k f ids, present c j = true
  | [], s, e, h, j, hj => by simp [groupsOut] at hj
  | id :: rest, s, e, h, j, hj => by
    obtain ⟨gn, _, hr, _, _, heq⟩ := groupsOut_cons ops ok c g k f id rest s e h
    rw [heq] at hj
    rcases List.mem_append.mp hj with hj | hj
    · split at hj
      · exact (List.mem_filter.mp hj).2
      · cases hj
    · exact groupsOut_present ops ok c g k f rest _ e hr j hj

theorem groupsOut_complete (ops : FilterOps F) (ok : F → Prop) (c : Container F C) (g : List (Option F)) (k : Key)
    (f : Nat) : ∀ (ids : List Nat) (s e : Nat), Groups ops ok c g ids s e →
      ∀ j, s ≤ j → j < e → present c j = true → ops.coversOpt (g.getD j none) k → j ∈ groupsOut ops c k f ids
  | [], s, e, h, j, h1, h2, _, _ => by simp only [Groups] at h; omega
  | id :: rest, s, e, h, j, h1, h2, hp, hc => by
    obtain ⟨gn, hn, hr, hsup, _, heq⟩ := groupsOut_cons ops ok c g k f id rest s e h
    rw [heq]
    by_cases hj : j < s + gn.children.length
    · apply List.mem_append_left
      rw [accepts_node_of_covers ops c k id gn hn (hsup j h1 hj k hc)]
      simp only [if_true]
      exact List.mem_filter.mpr ⟨List.mem_range'_1.mpr ⟨h1, hj⟩, hp⟩
    · apply List.mem_append_right
      exact groupsOut_complete ops ok c g k f rest _ e hr j (by omega) h2 hp hc

theorem groupsOut_rev (ops : FilterOps F) (ok : F → Prop) (c : Container F C) (g : List (Option F)) (k : Key)
    (f : Nat) : ∀ (ids : List Nat) (s e : Nat), Groups ops ok c g ids s e →
      (ids.reverse.filter (accepts ops c k)).flatMap (walk ops c true k (f + 2)) =
        (groupsOut ops c k f ids).reverse
  | [], s, e, h => rfl
  | id :: rest, s, e, h => by
    obtain ⟨gn, hn, hr, _, h3, heq⟩ := groupsOut_cons ops ok c g k f id rest s e h
    rw [heq, List.reverse_cons, List.filter_append, List.flatMap_append,
      groupsOut_rev ops ok c g k f rest _ e hr, List.reverse_append]
    congr 1
    simp only [List.filter_cons, List.filter_nil]
    cases ha : accepts ops c k id
    · simp
    · simp only [if_true, List.flatMap_cons, List.flatMap_nil, List.append_nil]
      rw [walk_node ops c true k (f + 1) id gn hn]
      simp only [if_true]
      exact walk_leafRun_rev ops c k id f gn.children s h3

/-- the four facts about the iterator, for a container satisfying the invariant -/
theorem iterPossible_spec {ops : FilterOps F} {ok : F → Prop} (c : Container F C) (g : List (Option F)) (k : Key)
    (hinv : Inv ops ok c g) :
    iterPossible ops c true k = (iterPossible ops c false k).reverse ∧
    (iterPossible ops c false k).Sublist (List.range c.children.length) ∧
    (∀ j ∈ iterPossible ops c false k, present c j = true) ∧
    (∀ j, j < c.children.length → present c j = true → ops.coversOpt (g.getD j none) k →
      j ∈ iterPossible ops c false k) := by
  unfold iterPossible
  rcases hinv.shape with h | h
  · obtain ⟨nd, hroot, _, hrun, hlen, _, _, _, _⟩ := h
    rw [walk_node ops c true k _ c.root nd hroot, walk_node ops c false k _ c.root nd hroot]
    simp only [if_true, Bool.false_eq_true, if_false]
    rw [walk_leafRun_rev ops c k c.root c.inner.length nd.children 0 hrun,
      walk_leafRun_fwd ops c k c.root c.inner.length nd.children 0 hrun, hlen, ← List.range_eq_range']
    refine ⟨rfl, List.filter_sublist, fun j hj => (List.mem_filter.mp hj).2, ?_⟩
    intro j hj hp _
    exact List.mem_filter.mpr ⟨List.mem_range.mpr hj, hp⟩
  · obtain ⟨rd, hroot, _, _, _, _, hgroups, _, _, _⟩ := h
    have hL := getInner_lt_length c c.root _ hroot
    obtain ⟨f, hf⟩ : ∃ f, c.inner.length + 1 = f + 2 := ⟨c.inner.length - 1, by omega⟩
    rw [walk_node ops c true k _ c.root rd hroot, walk_node ops c false k _ c.root rd hroot]
    simp only [if_true, Bool.false_eq_true, if_false]
    rw [hf, groupsOut_rev ops ok c g k f rd.children 0 _ hgroups]
    show (groupsOut ops c k f rd.children).reverse = (groupsOut ops c k f rd.children).reverse ∧
      (groupsOut ops c k f rd.children).Sublist _ ∧ (∀ j ∈ groupsOut ops c k f rd.children, _) ∧
      (∀ j, _ → _ → _ → j ∈ groupsOut ops c k f rd.children)
    refine ⟨rfl, ?_, groupsOut_present ops ok c g k f rd.children 0 _ hgroups, ?_⟩
    · have := groupsOut_sublist ops ok c g k f rd.children 0 _ hgroups
      rw [List.range_eq_range']
      simpa using this
    · intro j hj hp hc
      exact groupsOut_complete ops ok c g k f rd.children 0 _ hgroups j (Nat.zero_le _) hj hp hc

/-! ## the arena-level reading of the invariant -/

theorem leavesBelow_leaf (c : Container F C) (f id n j : Nat) (h : c.getInner id = some (.leaf n j)) :
    leavesBelow c (f + 1) id = [j] := by
  rw [leavesBelow]; simp only [h]

theorem leavesBelow_node (c : Container F C) (f id : Nat) (nd : FNode F) (h : c.getInner id = some (.node nd)) :
    leavesBelow c (f + 1) id = nd.children.flatMap (leavesBelow c f) := by
  rw [leavesBelow]; simp only [h]

theorem leavesBelow_leafRun (c : Container F C) (n f : Nat) :
    ∀ (ids : List Nat) (s : Nat), IsLeafRun c n ids s →
      ids.flatMap (leavesBelow c (f + 1)) = List.range' s ids.length
  | [], _, _ => rfl
  | a :: rest, s, h => by
    obtain ⟨h0, hr⟩ := IsLeafRun.cons_iff.mp h
    rw [List.flatMap_cons, List.length_cons, List.range'_succ, leavesBelow_leaf c f a n s h0,
      leavesBelow_leafRun c n f rest (s + 1) hr]
    rfl

/-- every node of the arena is the root or a group, and its filter (if any) covers the push-time filter of
    every leaf below it, removed ones included -/
theorem node_filter_sup_arena {ops : FilterOps F} {ok : F → Prop} (c : Container F C) (g : List (Option F))
    (hinv : Inv ops ok c g) (id : Nat) (nd : FNode F) (hn : c.getInner id = some (.node nd)) :
    ∀ j ∈ leavesBelow c (c.inner.length + 2) id, ∀ k, ops.coversOpt (g.getD j none) k → ops.coversOpt nd.filter k := by
  rcases hinv.shape with h | h
  · obtain ⟨rd, hroot, _, hrun, hlen, _, _, hsup, honly⟩ := h
    have := honly id nd hn
    subst this
    rw [hroot] at hn; cases hn
    intro j hj k hc
    rw [leavesBelow_node c _ c.root nd hroot,
      leavesBelow_leafRun c c.root c.inner.length nd.children 0 hrun, hlen] at hj
    have := List.mem_range'_1.mp hj
    exact hsup j (Nat.zero_le _) (by omega) k hc
  · obtain ⟨rd, hroot, _, _, _, _, hgroups, _, hsup, honly⟩ := h
    have hL := getInner_lt_length c c.root _ hroot
    -- leaves below the groups `ids` lie in `s … e-1`; a group's own leaves are its run
    have hgrp : ∀ (ids : List Nat) (s e : Nat), Groups ops ok c g ids s e →
        (∀ j ∈ ids.flatMap (leavesBelow c (c.inner.length + 1)), s ≤ j ∧ j < e) ∧
        (∀ gid ∈ ids, ∀ gn, c.getInner gid = some (.node gn) →
          ∀ j ∈ leavesBelow c (c.inner.length + 2) gid, ∀ k, ops.coversOpt (g.getD j none) k →
            ops.coversOpt gn.filter k) := by
      intro ids
      induction ids with
      | nil => intro s e _; exact ⟨fun j hj => (by cases hj), fun gid hgid => (by cases hgid)⟩
      | cons a rest ih =>
        intro s e hG
        obtain ⟨gn, h1, _, h3, _, h5, hr⟩ := hG
        have hle := Groups.le hr
        obtain ⟨ih1, ih2⟩ := ih _ e hr
        have hrunL : ∀ f, leavesBelow c (f + 2) a = List.range' s gn.children.length := by
          intro f
          rw [leavesBelow_node c _ a gn h1]
          exact leavesBelow_leafRun c a f gn.children s h3
        constructor
        · intro j hj
          simp only [List.flatMap_cons, List.mem_append] at hj
          rcases hj with hj | hj
          · obtain ⟨f, hf⟩ : ∃ f, c.inner.length + 1 = f + 2 := ⟨c.inner.length - 1, by omega⟩
            rw [hf, hrunL f] at hj
            have := List.mem_range'_1.mp hj
            omega
          · have := ih1 j hj; omega
        · intro gid hgid gn' hgn' j hj k hc
          rcases List.mem_cons.mp hgid with rfl | hgid
          · rw [h1] at hgn'; cases hgn'
            rw [hrunL c.inner.length] at hj
            have := List.mem_range'_1.mp hj
            exact h5 j this.1 this.2 k hc
          · exact ih2 gid hgid gn' hgn' j hj k hc
    obtain ⟨hg1, hg2⟩ := hgrp rd.children 0 _ hgroups
    rcases honly id nd hn with rfl | hmem
    · rw [hroot] at hn; cases hn
      intro j hj k hc
      rw [leavesBelow_node c _ c.root nd hroot] at hj
      have := hg1 j hj
      exact hsup j this.1 (by omega) k hc
    · exact hg2 id hmem nd hn

/-- under the invariant `push` never reaches its `unwrap()` on an empty root -/
theorem pushPanics_false {ops : FilterOps F} {ok : F → Prop} (c : Container F C) (g : List (Option F))
    (hinv : Inv ops ok c g) : c.pushPanics = false := by
  unfold pushPanics
  rcases hinv.shape with h | h
  · obtain ⟨_, _, _, _, _, hlt, _⟩ := h
    simp [hlt]
  · obtain ⟨rd, hroot, _, hne, _⟩ := h
    have : c.lastInnerNode.isNone = false := by
      simp only [lastInnerNode, getNode_eq c _ _ hroot, Option.getD_some]
      cases hc : rd.children.getLast? with
      | none => exact absurd (List.getLast?_eq_none_iff.mp hc) hne
      | some _ => rfl
    simp [this]

theorem foldl_add_notContains (l : List FilterResult) :
    l.foldl (· + ·) .notContains = .notContains ↔ ∀ x ∈ l, x = .notContains := by
  have key : ∀ (l : List FilterResult) (a : FilterResult),
      l.foldl (· + ·) a = .notContains ↔ a = .notContains ∧ ∀ x ∈ l, x = .notContains := by
    intro l
    induction l with
    | nil => intro a; simp
    | cons x xs ih =>
      intro a
      rw [List.foldl_cons, ih]
      cases a <;> cases x <;> simp [HAdd.hAdd, Add.add]
  rw [key]; simp

/-- the container's own `check_filter` says "not contains" only if every present child whose push-time filter
    covers the key says so -/
theorem checkFilter_no_fn {ops : FilterOps F} {ok : F → Prop} (cops : ChildOps F C) (c : Container F C)
    (g : List (Option F)) (k : Key) (hinv : Inv ops ok c g) (j : Nat) (lf : FLeaf C)
    (hj : c.getChild j = some lf) (hc : ops.coversOpt (g.getD j none) k)
    (hchild : cops.checkFilter lf.data k ≠ .notContains) :
    checkFilter ops cops c k ≠ .notContains := by
  intro h
  unfold checkFilter at h
  rw [foldl_add_notContains] at h
  have hjlt : j < c.children.length := by
    unfold getChild at hj
    cases hh : c.children[j]? with
    | none => rw [hh] at hj; cases hj
    | some o => exact (List.getElem?_eq_some_iff.mp hh).1
  have hmem := (iterPossible_spec c g k hinv).2.2.2 j hjlt (by simp [present, hj]) hc
  exact hchild (h _ (List.mem_filterMap.mpr ⟨j, hmem, by simp [hj]⟩))

end Container

/-! ## the storage's instance: `CombinedFilter` filters, blobs as children -/

theorem combinedLaws (h : Nat → Key → Nat) : FilterLaws (combinedOps h) Combined.WF where
  merge_ok := fun a b c r ha hb hm => Combined.merge_WF a b c r ha hb hm
  merge_sup := fun a b c k ha hb hm hx => Combined.merge_sup h a b c k ha hb hm hx
  offload_ok := fun a ha => Combined.offload_WF a ha
  offload_sup := fun a k _ hx => Combined.offload_containsFast h a k hx

namespace FBlob

/-- invariant of the filter state of a blob: while the index is in memory the (resident) filter covers every key
    of the index; once dumped, the file holds the image of a filter `c0` that covers every key and the blob's
    filter is `c0`, possibly with its bloom buffer off-loaded -/
def Inv (h : Nat → Key → Nat) (keyLen : Nat) (b : FBlob) : Prop :=
  match b.file with
  | none => b.filter.WF ∧ (∀ k ∈ b.keys, b.filter.containsFast h k ≠ .notContains) ∧
      (∀ bl, b.filter.bloom = some bl → bl.inner.isSome)
  | some (metaBuf, off) => ∃ c0 : Combined, serializeFilters keyLen c0 = some (metaBuf, off) ∧ c0.WF ∧
      (∀ k ∈ b.keys, c0.containsFast h k ≠ .notContains) ∧ (b.filter = c0 ∨ b.filter = c0.offload.1)

theorem filter_WF {h : Nat → Key → Nat} {keyLen : Nat} {b : FBlob} (hb : b.Inv h keyLen) : b.filter.WF := by
  unfold Inv at hb
  split at hb
  · exact hb.1
  · obtain ⟨c0, _, hwf, _, hor⟩ := hb
    rcases hor with e | e
    · rw [e]; exact hwf
    · rw [e]; exact Combined.offload_WF c0 hwf

/-- the filter handed to the container (`get_filter_fast`) covers every key of the blob -/
theorem filter_covers {h : Nat → Key → Nat} {keyLen : Nat} {b : FBlob} (hb : b.Inv h keyLen) (k : Key)
    (hk : k ∈ b.keys) : b.filter.containsFast h k ≠ .notContains := by
  unfold Inv at hb
  split at hb
  · exact hb.2.1 k hk
  · obtain ⟨c0, _, _, hcov, hor⟩ := hb
    rcases hor with e | e
    · rw [e]; exact hcov k hk
    · rw [e]; exact Combined.offload_containsFast h c0 k (hcov k hk)

theorem new_Inv (h : Nat → Key → Nat) (keyLen : Nat) (bloom : Option Bloom)
    (hbl : ∀ bl, bloom = some bl → bl.WF ∧ bl.inner.isSome) :
    Inv h keyLen { keys := [], filter := { bloom := bloom, range := Range.new } } := by
  refine ⟨⟨Range.new_WF, fun bl hb => (hbl bl hb).1⟩, fun k hk => (by cases hk), fun bl hb => (hbl bl hb).2⟩

theorem push_Inv {h : Nat → Key → Nat} {keyLen : Nat} {b b' : FBlob} (k : Key) (hb : b.Inv h keyLen)
    (hp : b.push h k = some b') : b'.Inv h keyLen := by
  unfold push at hp
  cases hf : b.file with
  | some mo => rw [hf] at hp; cases hp
  | none =>
    rw [hf] at hp
    simp only [Option.some.injEq] at hp
    subst hp
    unfold Inv at hb ⊢
    rw [hf] at hb
    simp only []
    obtain ⟨hwf, hcov, hres⟩ := hb
    refine ⟨Combined.add_WF h _ k hwf, ?_, ?_⟩
    · intro x hx
      rcases List.mem_append.mp hx with hx | hx
      · exact Combined.add_mono h _ k x (hcov x hx)
      · simp only [List.mem_singleton] at hx; subst hx
        exact Combined.add_contains h _ x hwf
    · intro bl hbl
      simp only [Combined.add, Option.map_eq_some_iff] at hbl
      obtain ⟨b0, hb0, rfl⟩ := hbl
      have := hres b0 hb0
      unfold Bloom.add
      cases hi : b0.inner with
      | none => rw [hi] at this; cases this
      | some v => simp only []; split <;> simp [hi]

theorem dump_Inv {h : Nat → Key → Nat} {keyLen : Nat} {b b' : FBlob} (hb : b.Inv h keyLen)
    (hd : b.dump keyLen = some b') : b'.Inv h keyLen := by
  unfold dump at hd
  cases hf : b.file with
  | some mo => rw [hf] at hd; cases hd; exact hb
  | none =>
    rw [hf] at hd
    simp only at hd
    split at hd
    · cases hd; exact hb
    · simp only [Option.map_eq_some_iff] at hd
      obtain ⟨mo, hs, rfl⟩ := hd
      unfold Inv at hb ⊢
      rw [hf] at hb
      obtain ⟨hwf, hcov, _⟩ := hb
      obtain ⟨metaBuf, off⟩ := mo
      exact ⟨b.filter, hs, hwf, hcov, Or.inl rfl⟩

theorem offload_Inv {h : Nat → Key → Nat} {keyLen : Nat} {b : FBlob} (hb : b.Inv h keyLen) :
    b.offload.1.Inv h keyLen := by
  unfold offload
  cases hf : b.file with
  | none => simp only []; exact hb
  | some mo =>
    simp only []
    unfold Inv at hb ⊢
    rw [hf] at hb
    simp only []
    obtain ⟨metaBuf, off⟩ := mo
    obtain ⟨c0, hs, hwf, hcov, hor⟩ := hb
    refine ⟨c0, hs, hwf, hcov, Or.inr ?_⟩
    rcases hor with e | e
    · rw [e]
    · rw [e]
      cases c0 with
      | mk bloom range => cases bloom <;> rfl

/-- a blob never answers "not contains" for a key of its index: in memory the index is consulted, on disk the
    filters are, the off-loaded bloom buffer being probed in the file -/
theorem checkFilter_no_fn {h : Nat → Key → Nat} {keyLen : Nat} {b : FBlob} (hb : b.Inv h keyLen) (k : Key)
    (hk : k ∈ b.keys) : b.checkFilter h k ≠ .notContains := by
  unfold checkFilter
  unfold Inv at hb
  cases hf : b.file with
  | none =>
    simp only []
    simp [hk]
  | some mo =>
    obtain ⟨metaBuf, off⟩ := mo
    rw [hf] at hb
    simp only [] at hb ⊢
    obtain ⟨c0, hs, hwf, hcov, hor⟩ := hb
    have hoff := Combined.contains_offload_eq h keyLen c0 metaBuf off hwf hs k
    rcases hor with e | e
    · -- resident: the in-memory vector answers
      rw [e]
      have : c0.contains h (metaReadByte metaBuf off) k = c0.containsFast h k := by
        unfold Combined.contains Combined.containsFast
        cases c0.range.containsFast k with
        | notContains => rfl
        | needAdditionalCheck =>
          simp only [Combined.bloomFull, Combined.bloomFast]
          cases hcb : c0.bloom with
          | none => rfl
          | some bl =>
            simp only []
            cases hi : bl.inner with
            | none =>
              simp only [serializeFilters, hcb, Option.getD_some, Bloom.toRaw, Bloom.save, hi,
                Option.map_none] at hs
              cases hs
            | some v =>
              unfold Bloom.contains
              cases hm : bl.containsMem h k with
              | some r => simp [Bloom.containsFast, hm]
              | none =>
                simp only []
                exact Bloom.containsFile_eq_containsFast h bl v k (hwf.2 bl hcb) hi _
                  (fun p hp => metaReadByte_serializeFilters keyLen c0 bl v metaBuf off hcb hi hs p hp)
      rw [this]; exact hcov k hk
    · rw [e, hoff]; exact hcov k hk

/-- the fields of the filter fit their wire types for keys of `keyLen` bytes -/
def Sized (keyLen : Nat) (c : Combined) : Prop :=
  (∀ bl, c.bloom = some bl → bl.Bounded) ∧ 2 * keyLen + 17 < 2 ^ 64 ∧
    c.range.min < 256 ^ keyLen ∧ c.range.max < 256 ^ keyLen

/-- `load`: the filter read back from the file covers every key of the index again (it is the dumped filter,
    up to the `bloom_is_on` switch: a disabled bloom is dropped, a missing one is read as the empty bloom) -/
theorem load_Inv {h : Nat → Key → Nat} {keyLen : Nat} {b b' : FBlob} (bloomIsOn : Bool) (hb : b.Inv h keyLen)
    (hsz : Sized keyLen b.filter) (hl : b.load bloomIsOn = some b') : b'.Inv h keyLen := by
  unfold load at hl
  cases hf : b.file with
  | none => rw [hf] at hl; cases hl; exact hb
  | some mo =>
    obtain ⟨metaBuf, off⟩ := mo
    rw [hf] at hl
    simp only [] at hl
    unfold Inv at hb
    rw [hf] at hb
    simp only [] at hb
    obtain ⟨c0, hs, hwf, hcov, hor⟩ := hb
    have hsz0 : Sized keyLen c0 := by
      rcases hor with e | e
      · rw [← e]; exact hsz
      · rw [e] at hsz
        obtain ⟨s1, s2, s3, s4⟩ := hsz
        refine ⟨?_, s2, ?_, ?_⟩
        · intro bl hbl
          have : c0.offload.1.bloom = some bl.offload.1 := by
            unfold Combined.offload; simp [hbl]
          exact (s1 bl.offload.1 this : bl.offload.1.Bounded)
        · cases c0 with | mk bloom range => cases bloom <;> exact s3
        · cases c0 with | mk bloom range => cases bloom <;> exact s4
    have hrt := deserialize_serialize keyLen c0 metaBuf off hwf hsz0.1 hsz0.2.1 hsz0.2.2.1 hsz0.2.2.2 hs
    simp only [combinedOfFile, hrt, Option.map_some, Option.some.injEq] at hl
    subst hl
    unfold Inv
    simp only []
    have hsaved : ∀ bl, c0.bloom = some bl → bl.inner.isSome := by
      intro bl hbl
      cases hi : bl.inner with
      | some v => rfl
      | none =>
        simp only [serializeFilters, hbl, Option.getD_some, Bloom.toRaw, Bloom.save, hi, Option.map_none] at hs
        cases hs
    refine ⟨⟨hwf.1, ?_⟩, ?_, ?_⟩
    · intro bl hbl
      try simp only at hbl
      cases bloomIsOn with
      | false => simp at hbl
      | true =>
        simp only [if_true, Option.some.injEq] at hbl
        subst hbl
        cases hcb : c0.bloom with
        | none => exact Bloom.empty_WF
        | some bl0 => exact hwf.2 bl0 hcb
    · intro k hk
      have := hcov k hk
      rw [Ne, Combined.containsFast_eq_notContains] at this ⊢
      rintro (hr | ⟨bl, hbl, hn⟩)
      · exact this (Or.inl hr)
      · try simp only at hbl
        cases bloomIsOn with
        | false => simp at hbl
        | true =>
          simp only [if_true, Option.some.injEq] at hbl
          subst hbl
          cases hcb : c0.bloom with
          | none => rw [hcb] at hn; simp [Bloom.empty, Bloom.containsMem, ABV.new] at hn
          | some bl0 => rw [hcb] at hn; exact this (Or.inr ⟨bl0, hcb, hn⟩)
    · intro bl hbl
      try simp only at hbl
      cases bloomIsOn with
      | false => simp at hbl
      | true =>
        simp only [if_true, Option.some.injEq] at hbl
        subst hbl
        cases hcb : c0.bloom with
        | none => rfl
        | some bl0 => exact hsaved bl0 hcb

theorem checkFilterFast_no_fn {h : Nat → Key → Nat} {keyLen : Nat} {b : FBlob} (hb : b.Inv h keyLen) (k : Key)
    (hk : k ∈ b.keys) : b.checkFilterFast h k ≠ .notContains := by
  unfold checkFilterFast
  cases hf : b.file with
  | none =>
    simp only []
    simp [hk]
  | some mo => simp only []; exact filter_covers hb k hk

end FBlob

/-! ## material for the non-vacuity examples of `Pearl/Props/C10.lean` -/

namespace C10

/-- a toy hash family for the examples -/
def toy : Nat → Key → Nat := fun j k => 7 * k + 13 * j

def toyCfg : BloomConfig := { elements := 10, hashersCount := 2, maxBufBitsCount := 100, bufIncreaseStep := 1, fprBits := 0 }

/-- a blob of the examples -/
def toyBlob (ks : List Key) : FBlob :=
  ks.foldl (fun b k => (b.push toy k).getD b)
    { keys := [], filter := { bloom := some (Bloom.new toyCfg 100), range := Range.new } }

theorem toyBlob_inv (ks : List Key) : (toyBlob ks).Inv toy 1 := by
  unfold toyBlob
  have h0 : FBlob.Inv toy 1 { keys := [], filter := { bloom := some (Bloom.new toyCfg 100), range := Range.new } } :=
    FBlob.new_Inv toy 1 _ (fun bl hbl => by cases hbl; exact ⟨Bloom.new_WF _ _, rfl⟩)
  generalize ({ keys := [], filter := { bloom := some (Bloom.new toyCfg 100), range := Range.new } } : FBlob) = b0 at h0
  induction ks generalizing b0 with
  | nil => exact h0
  | cons k ks ih =>
    simp only [List.foldl_cons]
    apply ih
    cases hp : b0.push toy k with
    | none => exact h0
    | some b' => exact FBlob.push_Inv k h0 hp

end C10

end Pearl
