import Pearl.Proofs.ContainerLemmas
/-
The stack machine `iterNext` / `iterStackCollect` / `iterPossibleStack` (literal transcription of
`PossibleRevIter::next`, `src/filter/hierarchical.rs`) against the recursive reading `walk` / `iterPossible`.

Part 1 is shape-independent: for ANY arena in which
  * `walk … D` unfolds at every node with the same fuel `D` (i.e. `D` exceeds the depth), and
  * a function `cost : id → Nat` dominates the number of loop iterations needed below an entry,
one call of `iterNext` with fuel above the cost of the stack yields the head of the denotation of the stack
(`stackOut`) and leaves a stack denoting the tail, of no larger cost (`iterNext_spec`); hence
`iterStackCollect` computes the denotation (`iterStackCollect_eq`).

Part 2 instantiates this under `Container.Inv` (flat or two-level arena): `D = inner.len() + 2` unfolds, and the
explicit cost `1 + 2·groups + 2·leaves` is below `4 * (inner.len() + 2)` by a pigeonhole argument on the arena
(`groups ≤ inner.len()`, `leaves ≤ inner.len()`).
-/
namespace Pearl

namespace Container

variable {F C : Type}

/-! ## Part 1: the machine on an arbitrary arena -/

/-- the children of a node in visiting order -/
def ord (rev : Bool) (nd : FNode F) : List Nat := if rev then nd.children.reverse else nd.children

@[simp] theorem ord_length (rev : Bool) (nd : FNode F) : (ord rev nd).length = nd.children.length := by
  unfold ord; split <;> simp

theorem mem_ord {rev : Bool} {nd : FNode F} {x : Nat} : x ∈ ord rev nd ↔ x ∈ nd.children := by
  unfold ord; split <;> simp

/-- the index computation of `next`: `node.children[if rev { len - index - 1 } else { index }]` -/
theorem ord_getD (rev : Bool) (nd : FNode F) (index : Nat) (h : index < nd.children.length) :
    nd.children.getD (if rev then nd.children.length - index - 1 else index) 0 =
      (ord rev nd)[index]'(by rw [ord_length]; exact h) := by
  unfold ord
  cases rev with
  | false => simp [List.getD_eq_getElem?_getD, h]
  | true =>
    simp only [if_true, List.getD_eq_getElem?_getD, List.getElem_reverse]
    have h2 : nd.children.length - index - 1 < nd.children.length := by omega
    rw [List.getElem?_eq_getElem h2]
    simp only [Option.getD_some]
    congr 1
    omega

theorem ite_isNone_eq_ite_isSome {α β : Type} (o : Option α) (a b : β) :
    (if o.isNone then a else b) = if o.isSome then b else a := by
  cases o <;> rfl

section machine

variable (ops : FilterOps F) (c : Container F C) (rev : Bool) (k : Key)

theorem iterNext_nil (fuel : Nat) : iterNext ops c rev k fuel [] = none := by
  cases fuel <;> rfl

/-- top of stack is a leaf: the loop is left, the entry popped, `get_child(leaf.leaf).map(..)` returned -/
theorem iterNext_leaf (fuel index id p j : Nat) (rest : List (Nat × Nat))
    (h : c.getInner id = some (.leaf p j)) :
    iterNext ops c rev k (fuel + 1) ((index, id) :: rest) = if present c j then some (j, rest) else none := by
  simp only [iterNext, h]
  unfold present
  cases c.getChild j <;> rfl

/-- top of stack is a node all of whose children were seen: popped -/
theorem iterNext_node_done (fuel index id : Nat) (nd : FNode F) (rest : List (Nat × Nat))
    (h : c.getInner id = some (.node nd)) (hi : nd.children.length ≤ index) :
    iterNext ops c rev k (fuel + 1) ((index, id) :: rest) = iterNext ops c rev k fuel rest := by
  simp only [iterNext, h]
  rw [if_pos (by exact hi)]

/-- top of stack is a node with a child left: the index is advanced and the child pushed iff `accepts` -/
theorem iterNext_node_step (fuel index id : Nat) (nd : FNode F) (rest : List (Nat × Nat))
    (h : c.getInner id = some (.node nd)) (hi : index < nd.children.length) :
    iterNext ops c rev k (fuel + 1) ((index, id) :: rest) =
      if accepts ops c k ((ord rev nd)[index]'(by rw [ord_length]; exact hi)) then
        iterNext ops c rev k fuel ((0, (ord rev nd)[index]'(by rw [ord_length]; exact hi)) :: (index + 1, id) :: rest)
      else iterNext ops c rev k fuel ((index + 1, id) :: rest) := by
  simp only [iterNext, h]
  rw [if_neg (by omega), ord_getD rev nd index hi]
  generalize (ord rev nd)[index]'(by rw [ord_length]; exact hi) = ch
  unfold accepts
  cases hch : c.getInner ch with
  | none => simp
  | some x =>
    cases x with
    | node n =>
      simp only []
      cases hf : (n.filter.map (fun f => ops.containsFast f k) == some FilterResult.notContains) <;>
        simp [bne, hf]
    | leaf p j =>
      simp only []
      exact ite_isNone_eq_ite_isSome _ _ _

/-- what a stack entry still has to yield (`D` = fuel of the recursive reading) -/
def frameOut (D : Nat) : Nat × Nat → List Nat
  | (index, id) =>
    match c.getInner id with
    | none => []
    | some (.leaf _ j) => if present c j then [j] else []
    | some (.node nd) => (((ord rev nd).drop index).filter (accepts ops c k)).flatMap (walk ops c rev k D)

/-- what the stack still has to yield, top entry first -/
def stackOut (D : Nat) (st : List (Nat × Nat)) : List Nat := st.flatMap (frameOut ops c rev k D)

/-- an upper bound of the loop iterations a stack entry can still cause, given a bound `cost` for the entries below
    it -/
def frameCost (cost : Nat → Nat) : Nat × Nat → Nat
  | (index, id) =>
    match c.getInner id with
    | none => 0
    | some (.leaf _ _) => 1
    | some (.node nd) => 1 + (((ord rev nd).drop index).map (fun ch => 1 + cost ch)).sum

def stackCost (cost : Nat → Nat) (st : List (Nat × Nat)) : Nat := (st.map (frameCost c rev cost)).sum

/-- stack entries exist in the arena, and leaf entries point to present children (they are pushed only then) -/
def StackOK (st : List (Nat × Nat)) : Prop :=
  ∀ fr ∈ st, match c.getInner fr.2 with
    | none => False
    | some (.leaf _ j) => present c j = true
    | some (.node _) => True

/-- what Part 1 needs to know about the arena -/
structure WalkOK (D : Nat) (cost : Nat → Nat) : Prop where
  dpos : 0 < D
  unfold : ∀ id nd, c.getInner id = some (.node nd) →
    walk ops c rev k D id = ((ord rev nd).filter (accepts ops c k)).flatMap (walk ops c rev k D)
  costLeaf : ∀ id p j, c.getInner id = some (.leaf p j) → 1 ≤ cost id
  costNode : ∀ id nd, c.getInner id = some (.node nd) → frameCost c rev cost (0, id) ≤ cost id

variable {ops c rev k}

theorem stackOut_cons (D : Nat) (fr : Nat × Nat) (st : List (Nat × Nat)) :
    stackOut ops c rev k D (fr :: st) = frameOut ops c rev k D fr ++ stackOut ops c rev k D st := by
  simp [stackOut]

theorem stackCost_cons (cost : Nat → Nat) (fr : Nat × Nat) (st : List (Nat × Nat)) :
    stackCost c rev cost (fr :: st) = frameCost c rev cost fr + stackCost c rev cost st := by
  simp [stackCost]

theorem StackOK.tail {fr : Nat × Nat} {st : List (Nat × Nat)} (h : StackOK c (fr :: st)) : StackOK c st :=
  fun x hx => h x (List.mem_cons_of_mem _ hx)

/-- a freshly pushed entry denotes what the recursive reading yields below it -/
theorem frameOut_zero {D : Nat} {cost : Nat → Nat} (hw : WalkOK ops c rev k D cost) (ch : Nat) :
    frameOut ops c rev k D (0, ch) = walk ops c rev k D ch := by
  obtain ⟨d, rfl⟩ : ∃ d, D = d + 1 := ⟨D - 1, by have := hw.dpos; omega⟩
  unfold frameOut
  cases hch : c.getInner ch with
  | none => simp [walk, hch]
  | some x =>
    cases x with
    | leaf p j => simp only [hch]; rw [walk_leaf ops c rev k d ch p j hch]
    | node nd => simp only [hch, List.drop_zero]; rw [hw.unfold ch nd hch]

/-- one `next()`: with fuel above the cost of the stack it returns `None` only if nothing is left, and otherwise
    the head of what is left, leaving a stack that denotes the tail -/
theorem iterNext_spec {D : Nat} {cost : Nat → Nat} (hw : WalkOK ops c rev k D cost) :
    ∀ (fuel : Nat) (st : List (Nat × Nat)), StackOK c st → stackCost c rev cost st < fuel →
      (iterNext ops c rev k fuel st = none → stackOut ops c rev k D st = []) ∧
      (∀ j st', iterNext ops c rev k fuel st = some (j, st') →
        stackOut ops c rev k D st = j :: stackOut ops c rev k D st' ∧ StackOK c st' ∧
          stackCost c rev cost st' ≤ stackCost c rev cost st) := by
  intro fuel
  induction fuel with
  | zero => intro st _ h; omega
  | succ fuel ih =>
    intro st hok hcost
    -- a loop iteration that leads to `st2`, denoting the same and costing less
    have reduce : ∀ st2, iterNext ops c rev k (fuel + 1) st = iterNext ops c rev k fuel st2 →
        stackOut ops c rev k D st2 = stackOut ops c rev k D st → StackOK c st2 →
        stackCost c rev cost st2 + 1 ≤ stackCost c rev cost st →
        (iterNext ops c rev k (fuel + 1) st = none → stackOut ops c rev k D st = []) ∧
        (∀ j st', iterNext ops c rev k (fuel + 1) st = some (j, st') →
          stackOut ops c rev k D st = j :: stackOut ops c rev k D st' ∧ StackOK c st' ∧
            stackCost c rev cost st' ≤ stackCost c rev cost st) := by
      intro st2 hstep hout hok2 hc2
      obtain ⟨i1, i2⟩ := ih st2 hok2 (by omega)
      rw [hstep, ← hout]
      refine ⟨i1, fun j st' h => ?_⟩
      obtain ⟨a, b, c'⟩ := i2 j st' h
      exact ⟨a, b, by omega⟩
    cases st with
    | nil =>
      refine ⟨fun _ => rfl, fun j st' h => ?_⟩
      rw [iterNext_nil] at h; cases h
    | cons fr rest =>
      obtain ⟨index, id⟩ := fr
      have hfr := hok (index, id) (List.mem_cons_self ..)
      simp only [] at hfr
      cases hid : c.getInner id with
      | none => rw [hid] at hfr; exact hfr.elim
      | some x =>
        cases x with
        | leaf p j =>
          rw [hid] at hfr
          simp only [] at hfr
          rw [iterNext_leaf ops c rev k fuel index id p j rest hid, hfr]
          simp only [if_true]
          refine ⟨fun h => (by cases h), fun j' st' h => ?_⟩
          simp only [Option.some.injEq, Prod.mk.injEq] at h
          obtain ⟨rfl, rfl⟩ := h
          refine ⟨?_, hok.tail, ?_⟩
          · rw [stackOut_cons]; simp [frameOut, hid, hfr]
          · rw [stackCost_cons]; omega
        | node nd =>
          by_cases hi : nd.children.length ≤ index
          · -- all children seen: pop
            refine reduce rest (iterNext_node_done ops c rev k fuel index id nd rest hid hi) ?_ hok.tail ?_
            · rw [stackOut_cons]
              have : (ord rev nd).drop index = [] := List.drop_eq_nil_of_le (by rw [ord_length]; exact hi)
              simp [frameOut, hid, this]
            · rw [stackCost_cons]
              simp only [frameCost, hid]
              omega
          · have hi' : index < nd.children.length := by omega
            have hlt : index < (ord rev nd).length := by rw [ord_length]; exact hi'
            have hstep := iterNext_node_step ops c rev k fuel index id nd rest hid hi'
            have hdrop : (ord rev nd).drop index = (ord rev nd)[index] :: (ord rev nd).drop (index + 1) :=
              List.drop_eq_getElem_cons hlt
            generalize hchd : (ord rev nd)[index]'hlt = ch at hstep hdrop
            cases hacc : accepts ops c k ch with
            | false =>
              rw [hacc] at hstep
              simp only [Bool.false_eq_true, if_false] at hstep
              refine reduce _ hstep ?_ ?_ ?_
              · rw [stackOut_cons, stackOut_cons]
                simp [frameOut, hid, hdrop, hacc]
              · intro x hx
                rcases List.mem_cons.mp hx with rfl | hx
                · simp only [hid]
                · exact hok.tail x hx
              · rw [stackCost_cons, stackCost_cons]
                simp only [frameCost, hid, hdrop, List.map_cons, List.sum_cons]
                omega
            | true =>
              rw [hacc] at hstep
              simp only [if_true] at hstep
              refine reduce _ hstep ?_ ?_ ?_
              · rw [stackOut_cons, stackOut_cons, stackOut_cons, frameOut_zero hw ch]
                simp [frameOut, hid, hdrop, hacc]
              · intro x hx
                rcases List.mem_cons.mp hx with rfl | hx
                · -- the pushed entry
                  simp only []
                  unfold accepts at hacc
                  cases hch : c.getInner ch with
                  | none => rw [hch] at hacc; cases hacc
                  | some y =>
                    cases y with
                    | node n => trivial
                    | leaf p j => rw [hch] at hacc; exact hacc
                · rcases List.mem_cons.mp hx with rfl | hx
                  · simp only [hid]
                  · exact hok.tail x hx
              · rw [stackCost_cons, stackCost_cons, stackCost_cons]
                have hcch : frameCost c rev cost (0, ch) ≤ cost ch := by
                  cases hch : c.getInner ch with
                  | none => simp [frameCost, hch]
                  | some y =>
                    cases y with
                    | node n => exact hw.costNode ch n hch
                    | leaf p j =>
                      have := hw.costLeaf ch p j hch
                      simp only [frameCost, hch]
                      exact this
                have e1 : frameCost c rev cost (index, id) =
                    1 + ((1 + cost ch) + (((ord rev nd).drop (index + 1)).map (fun ch => 1 + cost ch)).sum) := by
                  simp only [frameCost, hid, hdrop, List.map_cons, List.sum_cons]
                have e2 : frameCost c rev cost (index + 1, id) =
                    1 + (((ord rev nd).drop (index + 1)).map (fun ch => 1 + cost ch)).sum := by
                  simp only [frameCost, hid]
                omega

/-- the iterator run to exhaustion yields what the stack denotes, provided the `next` fuel exceeds the cost of the
    stack and the `collect` fuel is at least the number of items -/
theorem iterStackCollect_eq {D : Nat} {cost : Nat → Nat} (hw : WalkOK ops c rev k D cost) :
    ∀ (fuel : Nat) (st : List (Nat × Nat)), StackOK c st →
      stackCost c rev cost st < 4 * (c.inner.length + 2) →
      (stackOut ops c rev k D st).length ≤ fuel →
      iterStackCollect ops c rev k fuel st = stackOut ops c rev k D st := by
  intro fuel
  induction fuel with
  | zero =>
    intro st _ _ hlen
    have : stackOut ops c rev k D st = [] := List.eq_nil_of_length_eq_zero (by omega)
    rw [this]; rfl
  | succ fuel ih =>
    intro st hok hcost hlen
    obtain ⟨h1, h2⟩ := iterNext_spec hw (4 * (c.inner.length + 2)) st hok hcost
    unfold iterStackCollect
    cases hres : iterNext ops c rev k (4 * (c.inner.length + 2)) st with
    | none => simp only []; exact (h1 hres).symm
    | some r =>
      obtain ⟨j, st'⟩ := r
      obtain ⟨e, hok', hc'⟩ := h2 j st' hres
      simp only []
      rw [e, ih st' hok' (by omega) (by rw [e] at hlen; simpa using hlen)]

/-- `iter_possible_childs(_rev)` through the stack machine, for an arena whose root is a node -/
theorem iterPossibleStack_eq_walk {D : Nat} {cost : Nat → Nat} (hw : WalkOK ops c rev k D cost) (rd : FNode F)
    (hroot : c.getInner c.root = some (.node rd)) (hcost : cost c.root < 4 * (c.inner.length + 2))
    (hlen : (walk ops c rev k D c.root).length ≤ c.children.length + 1) :
    iterPossibleStack ops c rev k = walk ops c rev k D c.root := by
  have hout : stackOut ops c rev k D [(0, c.root)] = walk ops c rev k D c.root := by
    rw [stackOut_cons, frameOut_zero hw]; simp [stackOut]
  unfold iterPossibleStack
  rw [iterStackCollect_eq hw _ _ ?_ ?_ (by rw [hout]; exact hlen), hout]
  · intro x hx
    simp only [List.mem_singleton] at hx
    subst hx
    simp only [hroot]
  · have := hw.costNode c.root rd hroot
    simp only [stackCost, List.map_cons, List.map_nil, List.sum_cons, List.sum_nil]
    omega

end machine

/-! ## Part 2: the arena of a container satisfying `Container.Inv` -/

/-- a nodup list of numbers below `n` has at most `n` entries -/
theorem nodup_length_le : ∀ (n : Nat) (l : List Nat), l.Nodup → (∀ x ∈ l, x < n) → l.length ≤ n
  | 0, l, _, h => by
    cases l with
    | nil => simp
    | cons a t => exact absurd (h a (List.mem_cons_self ..)) (by omega)
  | n + 1, l, hnd, h => by
    have h1 := nodup_length_le n (l.erase n) (hnd.erase n) (fun x hx => by
      have h2 := (hnd.mem_erase_iff).mp hx
      have h3 := h x h2.2
      omega)
    have h4 : l.length - 1 ≤ (l.erase n).length := by
      rw [List.length_erase]; split <;> omega
    omega

theorem flatMap_filter_congr {α β : Type} (p : α → Bool) (f g : α → List β) :
    ∀ (l : List α), (∀ x ∈ l, f x = g x) → (l.filter p).flatMap f = (l.filter p).flatMap g
  | [], _ => rfl
  | a :: l, h => by
    have ih := flatMap_filter_congr p f g l (fun x hx => h x (List.mem_cons_of_mem _ hx))
    simp only [List.filter_cons]
    split
    · simp only [List.flatMap_cons, ih, h a (List.mem_cons_self ..)]
    · exact ih

theorem sum_map_const_two {α : Type} (f : α → Nat) :
    ∀ (l : List α), (∀ x ∈ l, f x = 2) → (l.map f).sum = 2 * l.length
  | [], _ => rfl
  | a :: l, h => by
    have ih := sum_map_const_two f l (fun x hx => h x (List.mem_cons_of_mem _ hx))
    simp only [List.map_cons, List.sum_cons, List.length_cons, ih, h a (List.mem_cons_self ..)]
    omega

theorem sum_map_ord (rev : Bool) (nd : FNode F) (f : Nat → Nat) :
    ((ord rev nd).map f).sum = (nd.children.map f).sum := by
  unfold ord
  split
  · rw [List.map_reverse, List.sum_reverse]
  · rfl

/-- an arena entry that is a leaf -/
def IsLeafId (c : Container F C) (x : Nat) : Prop := ∃ p j, c.getInner x = some (.leaf p j)

/-- an arena entry that is a node all of whose children are leaves -/
def IsGroupId (c : Container F C) (x : Nat) : Prop :=
  ∃ gn, c.getInner x = some (.node gn) ∧ ∀ y ∈ gn.children, IsLeafId c y

theorem IsLeafRun.isLeafId {c : Container F C} {n : Nat} {ids : List Nat} {s : Nat} (h : IsLeafRun c n ids s) :
    ∀ y ∈ ids, IsLeafId c y := by
  intro y hy
  obtain ⟨p, hp, rfl⟩ := List.mem_iff_getElem.mp hy
  exact ⟨n, s + p, h p hp⟩

theorem Groups.isGroupId {ops : FilterOps F} {ok : F → Prop} {c : Container F C} {g : List (Option F)} :
    ∀ {ids : List Nat} {s e : Nat}, Groups ops ok c g ids s e → ∀ x ∈ ids, IsGroupId c x
  | [], _, _, _, _, hx => by cases hx
  | a :: rest, s, e, hG, x, hx => by
    obtain ⟨gn, h1, _, h3, _, _, hr⟩ := hG
    rcases List.mem_cons.mp hx with rfl | hx
    · exact ⟨gn, h1, h3.isLeafId⟩
    · exact Groups.isGroupId hr x hx

/-- every slot held by the groups has a leaf entry in the arena -/
theorem Groups.slot_leaf {ops : FilterOps F} {ok : F → Prop} {c : Container F C} {g : List (Option F)} :
    ∀ {ids : List Nat} {s e : Nat}, Groups ops ok c g ids s e → ∀ j, s ≤ j → j < e →
      ∃ id p, c.getInner id = some (.leaf p j)
  | [], s, e, hG, j, h1, h2 => by simp only [Groups] at hG; omega
  | a :: rest, s, e, hG, j, h1, h2 => by
    obtain ⟨gn, _, _, h3, _, _, hr⟩ := hG
    by_cases hj : j < s + gn.children.length
    · have := h3 (j - s) (by omega)
      have e1 : s + (j - s) = j := by omega
      rw [e1] at this
      exact ⟨_, _, this⟩
    · exact Groups.slot_leaf hr j (by omega) h2

/-- the loop iterations the groups can cause: two per group and two per leaf -/
theorem Groups.cost_sum {ops : FilterOps F} {ok : F → Prop} {c : Container F C} {g : List (Option F)}
    (costG : Nat → Nat)
    (hcost : ∀ x gn, c.getInner x = some (.node gn) → costG x = 1 + 2 * gn.children.length) :
    ∀ {ids : List Nat} {s e : Nat}, Groups ops ok c g ids s e →
      (ids.map (fun ch => 1 + costG ch)).sum + 2 * s = 2 * ids.length + 2 * e
  | [], s, e, hG => by simp only [Groups] at hG; subst hG; simp
  | a :: rest, s, e, hG => by
    obtain ⟨gn, h1, _, _, _, _, hr⟩ := hG
    have ih := Groups.cost_sum costG hcost hr
    simp only [List.map_cons, List.sum_cons, List.length_cons, hcost a gn h1]
    omega

/-- if every slot below `L` has a leaf entry, the arena has at least `L` entries -/
theorem slots_le_inner (c : Container F C) :
    ∀ (L : Nat), (∀ j, j < L → ∃ id p, c.getInner id = some (.leaf p j)) → L ≤ c.inner.length := by
  have build : ∀ (L : Nat), (∀ j, j < L → ∃ id p, c.getInner id = some (.leaf p j)) →
      ∃ l : List Nat, l.length = L ∧ l.Nodup ∧ ∀ x ∈ l, ∃ p j, j < L ∧ c.getInner x = some (.leaf p j) := by
    intro L
    induction L with
    | zero => intro _; exact ⟨[], rfl, List.nodup_nil, fun x hx => by cases hx⟩
    | succ L ih =>
      intro h
      obtain ⟨l, hl, hnd, hall⟩ := ih (fun j hj => h j (by omega))
      obtain ⟨id, p, hid⟩ := h L (by omega)
      refine ⟨id :: l, by simp [hl], List.nodup_cons.mpr ⟨?_, hnd⟩, ?_⟩
      · intro hmem
        obtain ⟨p', j', hj', hx⟩ := hall id hmem
        rw [hid] at hx
        cases hx
        omega
      · intro x hx
        rcases List.mem_cons.mp hx with rfl | hx
        · exact ⟨p, L, by omega, hid⟩
        · obtain ⟨p', j', hj', hx'⟩ := hall x hx
          exact ⟨p', j', by omega, hx'⟩
  intro L h
  obtain ⟨l, hl, hnd, hall⟩ := build L h
  rw [← hl]
  refine nodup_length_le _ l hnd (fun x hx => ?_)
  obtain ⟨p, j, _, hx'⟩ := hall x hx
  exact getInner_lt_length c x _ hx'

section inv

variable {ops : FilterOps F} {ok : F → Prop}

theorem walk_stable_leaf (c : Container F C) (rev : Bool) (k : Key) (a b x : Nat) (h : IsLeafId c x) :
    walk ops c rev k (a + 1) x = walk ops c rev k (b + 1) x := by
  obtain ⟨p, j, hx⟩ := h
  rw [walk_leaf ops c rev k a x p j hx, walk_leaf ops c rev k b x p j hx]

theorem walk_stable_group (c : Container F C) (rev : Bool) (k : Key) (a b x : Nat) (h : IsGroupId c x) :
    walk ops c rev k (a + 2) x = walk ops c rev k (b + 2) x := by
  obtain ⟨gn, hx, hl⟩ := h
  rw [walk_node ops c rev k (a + 1) x gn hx, walk_node ops c rev k (b + 1) x gn hx]
  refine flatMap_filter_congr _ _ _ _ (fun y hy => walk_stable_leaf c rev k a b y (hl y ?_))
  split at hy
  · exact List.mem_reverse.mp hy
  · exact hy

/-- the shape of the arena: the children of a node are leaves, or the node is the root and its children are
    groups (other than the root) -/
theorem Inv.node_children {c : Container F C} {g : List (Option F)} (hinv : Inv ops ok c g) (id : Nat)
    (nd : FNode F) (h : c.getInner id = some (.node nd)) :
    (∀ y ∈ nd.children, IsLeafId c y) ∨ (id = c.root ∧ ∀ y ∈ nd.children, IsGroupId c y ∧ y ≠ c.root) := by
  rcases hinv.shape with hs | hs
  · obtain ⟨rd, hroot, _, hrun, _, _, _, _, honly⟩ := hs
    have := honly id nd h
    subst this
    rw [hroot] at h; cases h
    exact Or.inl hrun.isLeafId
  · obtain ⟨rd, hroot, _, _, _, hnd, hgroups, _, _, honly⟩ := hs
    rcases honly id nd h with rfl | hmem
    · rw [hroot] at h; cases h
      refine Or.inr ⟨rfl, fun y hy => ⟨Groups.isGroupId hgroups y hy, ?_⟩⟩
      rintro rfl
      exact (List.nodup_cons.mp hnd).1 hy
    · obtain ⟨gn, hg, hl⟩ := Groups.isGroupId hgroups id hmem
      rw [hg] at h; cases h
      exact Or.inl hl

theorem Inv.root_node {c : Container F C} {g : List (Option F)} (hinv : Inv ops ok c g) :
    ∃ rd, c.getInner c.root = some (.node rd) := by
  rcases hinv.shape with hs | hs
  · obtain ⟨rd, hroot, _⟩ := hs; exact ⟨rd, hroot⟩
  · obtain ⟨rd, hroot, _⟩ := hs; exact ⟨rd, hroot⟩

/-- the fuel `inner.len() + 2` of the recursive reading exceeds the depth at every node -/
theorem Inv.walk_unfold {c : Container F C} {g : List (Option F)} (hinv : Inv ops ok c g) (rev : Bool) (k : Key)
    (id : Nat) (nd : FNode F) (h : c.getInner id = some (.node nd)) :
    walk ops c rev k (c.inner.length + 2) id =
      ((ord rev nd).filter (accepts ops c k)).flatMap (walk ops c rev k (c.inner.length + 2)) := by
  obtain ⟨rd, hroot⟩ := hinv.root_node
  have hN := getInner_lt_length c c.root _ hroot
  obtain ⟨a, ha⟩ : ∃ a, c.inner.length = a + 1 := ⟨c.inner.length - 1, by omega⟩
  rw [walk_node ops c rev k (c.inner.length + 1) id nd h]
  show ((ord rev nd).filter (accepts ops c k)).flatMap (walk ops c rev k (c.inner.length + 1)) = _
  refine flatMap_filter_congr _ _ _ _ (fun y hy => ?_)
  rw [mem_ord] at hy
  rcases hinv.node_children id nd h with hl | ⟨_, hg⟩
  · exact walk_stable_leaf c rev k _ _ y (hl y hy)
  · rw [ha]
    exact walk_stable_group c rev k a (a + 1) y (hg y hy).1

/-- loop iterations below a leaf (1: the final pop) or a group (1 + two per leaf) -/
def costG (c : Container F C) (x : Nat) : Nat :=
  match c.getInner x with
  | none => 0
  | some (.leaf _ _) => 1
  | some (.node nd) => 1 + 2 * nd.children.length

/-- loop iterations below an arena entry -/
def costOf (c : Container F C) (x : Nat) : Nat :=
  if x = c.root then 1 + (((c.getNode c.root).getD {}).children.map (fun ch => 1 + costG c ch)).sum
  else costG c x

theorem costG_leaf {c : Container F C} {x : Nat} (h : IsLeafId c x) : costG c x = 1 := by
  obtain ⟨p, j, hx⟩ := h
  simp [costG, hx]

theorem Inv.walkOK {c : Container F C} {g : List (Option F)} (hinv : Inv ops ok c g) (rev : Bool) (k : Key) :
    WalkOK ops c rev k (c.inner.length + 2) (costOf c) := by
  obtain ⟨rd, hroot⟩ := hinv.root_node
  have hleaf_ne : ∀ y, IsLeafId c y → y ≠ c.root := by
    rintro y ⟨p, j, hy⟩ rfl
    rw [hroot] at hy; cases hy
  refine ⟨by omega, hinv.walk_unfold rev k, ?_, ?_⟩
  · intro id p j hid
    have hne := hleaf_ne id ⟨p, j, hid⟩
    simp [costOf, hne, costG, hid]
  · intro id nd hid
    simp only [frameCost, hid, List.drop_zero]
    rw [sum_map_ord]
    by_cases hr : id = c.root
    · subst hr
      have hne : ∀ y ∈ nd.children, y ≠ c.root := by
        intro y hy
        rcases hinv.node_children c.root nd hid with hl | ⟨_, hg⟩
        · exact hleaf_ne y (hl y hy)
        · exact (hg y hy).2
      have : nd.children.map (fun ch => 1 + costOf c ch) = nd.children.map (fun ch => 1 + costG c ch) :=
        List.map_congr_left (fun y hy => by simp [costOf, hne y hy])
      rw [this]
      simp [costOf, getNode_eq c _ _ hid]
    · rcases hinv.node_children id nd hid with hl | ⟨h1, _⟩
      · have : (nd.children.map (fun ch => 1 + costOf c ch)).sum = 2 * nd.children.length :=
          sum_map_const_two _ _ (fun y hy => by
            simp [costOf, hleaf_ne y (hl y hy), costG_leaf (hl y hy)])
        rw [this]
        simp [costOf, hr, costG, hid]
      · exact absurd h1 hr

/-- the `next` fuel `4 * (inner.len() + 2)` exceeds the loop iterations of a whole traversal -/
theorem Inv.cost_root_lt {c : Container F C} {g : List (Option F)} (hinv : Inv ops ok c g) :
    costOf c c.root < 4 * (c.inner.length + 2) := by
  rcases hinv.shape with hs | hs
  · obtain ⟨rd, hroot, _, hrun, hlen, _, _, _, _⟩ := hs
    have hL : c.children.length ≤ c.inner.length := by
      refine slots_le_inner c _ (fun j hj => ?_)
      have := hrun j (by omega)
      rw [Nat.zero_add] at this
      exact ⟨_, _, this⟩
    have : (rd.children.map (fun ch => 1 + costG c ch)).sum = 2 * rd.children.length :=
      sum_map_const_two _ _ (fun y hy => by rw [costG_leaf (hrun.isLeafId y hy)])
    simp only [costOf, if_true, getNode_eq c _ _ hroot, Option.getD_some, this]
    omega
  · obtain ⟨rd, hroot, _, _, _, hnd, hgroups, _, _, _⟩ := hs
    have hL : c.children.length ≤ c.inner.length :=
      slots_le_inner c _ (fun j hj => Groups.slot_leaf hgroups j (Nat.zero_le _) hj)
    have hG : rd.children.length ≤ c.inner.length :=
      nodup_length_le _ _ (List.nodup_cons.mp hnd).2 (fun x hx => Groups.mem_lt hgroups hx)
    have := Groups.cost_sum (costG c) (fun x gn hx => by simp [costG, hx]) hgroups
    simp only [costOf, if_true, getNode_eq c _ _ hroot, Option.getD_some]
    omega

/-- **the stack machine of `PossibleRevIter::next` computes the recursive reading**, with the fuels of the model
    (`4 * (inner.len() + 2)` loop iterations per `next`, `children.len() + 1` items, depth `inner.len() + 2`), for
    every container satisfying the invariant -/
theorem iterPossibleStack_eq_of_inv (c : Container F C) (g : List (Option F)) (hinv : Inv ops ok c g) (rev : Bool)
    (k : Key) : iterPossibleStack ops c rev k = iterPossible ops c rev k := by
  obtain ⟨rd, hroot⟩ := hinv.root_node
  refine iterPossibleStack_eq_walk (hinv.walkOK rev k) rd hroot hinv.cost_root_lt ?_
  obtain ⟨hrev, hsub, _, _⟩ := iterPossible_spec c g k hinv
  have hf : (iterPossible ops c false k).length ≤ c.children.length := by
    have := hsub.length_le
    simpa using this
  show (iterPossible ops c rev k).length ≤ _
  cases rev with
  | false => omega
  | true => rw [hrev, List.length_reverse]; omega

/-- `iter_possible_childs(key).next().is_some()` on the stack machine -/
theorem next_isSome_of_inv (c : Container F C) (g : List (Option F)) (hinv : Inv ops ok c g) (rev : Bool) (k : Key) :
    (iterNext ops c rev k (4 * (c.inner.length + 2)) [(0, c.root)]).isSome =
      !(iterPossible ops c rev k).isEmpty := by
  obtain ⟨rd, hroot⟩ := hinv.root_node
  have hw := hinv.walkOK (ops := ops) rev k
  have hout : stackOut ops c rev k (c.inner.length + 2) [(0, c.root)] = iterPossible ops c rev k := by
    rw [stackOut_cons, frameOut_zero hw]; simp [stackOut, iterPossible]
  have hok : StackOK c [(0, c.root)] := by
    intro x hx
    simp only [List.mem_singleton] at hx
    subst hx
    simp only [hroot]
  have hcost : stackCost c rev (costOf c) [(0, c.root)] < 4 * (c.inner.length + 2) := by
    have h1 := hw.costNode c.root rd hroot
    have h2 := hinv.cost_root_lt
    simp only [stackCost, List.map_cons, List.map_nil, List.sum_cons, List.sum_nil]
    omega
  obtain ⟨h1, h2⟩ := iterNext_spec hw _ _ hok hcost
  rw [hout] at h1 h2
  cases hres : iterNext ops c rev k (4 * (c.inner.length + 2)) [(0, c.root)] with
  | none => rw [h1 hres]; rfl
  | some r =>
    obtain ⟨j, st'⟩ := r
    rw [(h2 j st' hres).1]; rfl

end inv

/-! ## the consumers of the iterator, through the stack machine -/

/-- `BloomProvider::check_filter` of the container, the iterator being the stack machine -/
def checkFilterStack (ops : FilterOps F) (cops : ChildOps F C) (c : Container F C) (k : Key) : FilterResult :=
  ((iterPossibleStack ops c false k).filterMap
    (fun j => (c.getChild j).map (fun lf => cops.checkFilter lf.data k))).foldl (· + ·) .notContains

/-- `BloomProvider::check_filter_fast` of the container: `iter_possible_childs(item).next().is_some()`, one call
    of `next` on the initial stack -/
def checkFilterFastStack (ops : FilterOps F) (c : Container F C) (k : Key) : FilterResult :=
  if (iterNext ops c false k (4 * (c.inner.length + 2)) [(0, c.root)]).isSome then .needAdditionalCheck
  else .notContains

theorem checkFilterStack_eq {ops : FilterOps F} {ok : F → Prop} (cops : ChildOps F C) (c : Container F C)
    (g : List (Option F)) (hinv : Inv ops ok c g) (k : Key) :
    checkFilterStack ops cops c k = checkFilter ops cops c k := by
  unfold checkFilterStack checkFilter
  rw [iterPossibleStack_eq_of_inv c g hinv]

theorem checkFilterFastStack_eq {ops : FilterOps F} {ok : F → Prop} (c : Container F C)
    (g : List (Option F)) (hinv : Inv ops ok c g) (k : Key) :
    checkFilterFastStack ops c k = checkFilterFast ops c k := by
  unfold checkFilterFastStack checkFilterFast
  rw [next_isSome_of_inv c g hinv]
  cases (iterPossible ops c false k).isEmpty <;> rfl

end Container

/-- `storagePrunes` with `iter_possible_childs_rev` read through the stack machine -/
def storagePrunesStack (h : Nat → Key → Nat) (c : Container Combined FBlob) (j : Nat) (k : Key) : Bool :=
  !(Container.iterPossibleStack (combinedOps h) c true k).contains j ||
    (match c.getChild j with
     | some lf => lf.data.checkFilter h k == .notContains
     | none => true)

theorem storagePrunesStack_eq (h : Nat → Key → Nat) (c : Container Combined FBlob) (g : List (Option Combined))
    (hinv : Container.Inv (combinedOps h) Combined.WF c g) (j : Nat) (k : Key) :
    storagePrunesStack h c j k = storagePrunes h c j k := by
  unfold storagePrunesStack storagePrunes
  rw [Container.iterPossibleStack_eq_of_inv c g hinv]
  cases c.getChild j <;> rfl

end Pearl
