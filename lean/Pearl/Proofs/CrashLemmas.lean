import Pearl.Model.Crash
import Pearl.Proofs.ToolsLemmas
/-
Helper lemmas for crash recovery at the byte level (C06): the start-up scan on a prefix of a produced blob.
-/
namespace Pearl

/-! ### the scan loop over an intact run of records followed by anything -/

theorem rawLoop_tail (v : Bool) {klen : Nat} (file : List UInt8) (Rs : List Record) :
    ∀ (pre rest : List UInt8) (k : Nat), file = pre ++ (tailOf pre.length Rs ++ rest) →
      file.length < 2 ^ 64 → GoodRecs klen Rs →
      rawLoop v file (57 + klen) (Rs.length + k) pre.length =
        match rawLoop v file (57 + klen) k (pre.length + (tailOf pre.length Rs).length) with
        | .error e => .error e
        | .ok hs => .ok (scanOf pre.length Rs ++ hs) := by
  induction Rs with
  | nil =>
    intro pre rest k _ _ _
    simp only [List.length_nil, Nat.zero_add, tailOf, Nat.add_zero, scanOf, List.nil_append]
    cases rawLoop v file (57 + klen) k pre.length <;> rfl
  | cons R Rs ih =>
    intro pre rest k hf hlen hg
    obtain ⟨hf', hr, hm, hlt⟩ := head_facts hf hlen hg
    have hwf := hg.head.1
    have hstep := readCurrentRecord_image v pre (tailOf (pre ++ R.image pre.length).length Rs ++ rest) R
      hwf pre.length rfl hr
    rw [← hf'] at hstep
    have hrest := ih (pre ++ R.image pre.length) rest k (by rw [hf']; simp only [List.append_assoc])
      hlen hg.tail
    rw [List.length_append] at hrest
    have haud : dataChecksumAudit (R.header.final pre.length) R.data = .ok () := by
      rw [dataChecksumAudit_ok]; exact hwf.dcrc.symm
    rw [show (R :: Rs).length + k = (Rs.length + k) + 1 by simp only [List.length_cons]; omega]
    rw [rawLoop, if_pos hlt, hstep]
    have hnext : pre.length + ((R.image pre.length).length +
        (tailOf (pre.length + (R.image pre.length).length) Rs).length) =
        pre.length + (R.image pre.length).length +
          (tailOf (pre.length + (R.image pre.length).length) Rs).length := by omega
    cases v
    · simp only [Bool.false_eq_true, ↓reduceIte, hrest, tailOf, List.length_append, scanOf, hnext]
      cases rawLoop false file (57 + klen) k _ <;> rfl
    · simp only [↓reduceIte, haud, hrest, tailOf, List.length_append, scanOf, hnext]
      cases rawLoop true file (57 + klen) k _ <;> rfl

/-! ### the scan loop at a torn record -/

/-- cut inside the header: the header read hits the end of the file -/
theorem rawLoop_torn_header (v : Bool) (P : List UInt8) (R : Record) (off hsz k fuel : Nat)
    (hoff : P.length = off) (hk0 : 0 < k) (hk : k < hsz) (hkl : k ≤ (R.image off).length) :
    rawLoop v (P ++ (R.image off).take k) hsz (fuel + 1) off = .error (.load .bincode) := by
  have hl : (P ++ (R.image off).take k).length = off + k := by
    rw [List.length_append, List.length_take, hoff]; omega
  rw [rawLoop, if_pos (by omega)]
  unfold readCurrentRecord
  rw [readExactAt_none_of_short (by omega) (by omega)]

/-- cut inside meta / data: the header is read and validated; what happens next depends on
    `validate_data` and on whether the record has data at all -/
theorem rawLoop_torn_body (v : Bool) {klen : Nat} (P : List UInt8) (R : Record) (hwf : R.WF klen)
    (off k fuel : Nat) (hoff : P.length = off) (hr : (R.header.final off).InRange)
    (hk1 : 57 + klen ≤ k) (hk : k < (R.image off).length) :
    rawLoop v (P ++ (R.image off).take k) (57 + klen) (fuel + 1) off =
      if v = true ∧ R.data ≠ [] then .error (.load .bincode) else .ok [(off, R.header.final off)] := by
  have hkl : (R.header.final off).key.length = klen := hwf.key
  have hms : (R.header.final off).metaSize = (serMeta R.mt).length := hwf.msize
  have hds : (R.header.final off).dataSize = R.data.length := hwf.dsize
  have him := R.image_length off
  rw [hwf.key] at him
  have hl : (P ++ (R.image off).take k).length = off + k := by
    rw [List.length_append, List.length_take, hoff]; omega
  have hX : (R.image off).take k =
      serHeader (R.header.final off) ++ (serMeta R.mt ++ R.data).take (k - (57 + klen)) := by
    rw [image_eq, List.take_append, serHeader_length, hkl,
      List.take_of_length_le (by rw [serHeader_length, hkl]; omega)]
  have hhdr : readExactAt (P ++ (R.image off).take k) (57 + klen) off =
      some (serHeader (R.header.final off)) := by
    rw [hX]; exact readExactAt_append hoff (by rw [serHeader_length, hkl])
  have hd := deserHeader_serHeader (R.header.final off) [] hr
  rw [List.append_nil] at hd
  have hpast : ¬ off + (57 + klen) + (serMeta R.mt).length + R.data.length <
      (P ++ (R.image off).take k).length := by rw [hl]; omega
  have hend : ∀ f, rawLoop v (P ++ (R.image off).take k) (57 + klen) f
      (off + (57 + klen) + (serMeta R.mt).length + R.data.length) = .ok [] := by
    intro f; cases f <;> simp only [rawLoop, if_neg hpast]
  rw [rawLoop, if_pos (by rw [hl]; omega)]
  unfold readCurrentRecord
  rw [hhdr]
  simp only [hd, headerValidate_final _ _ hwf.magic, hms, hds]
  cases v with
  | false =>
    simp only [Bool.false_eq_true, ↓reduceIte, false_and, hend]
  | true =>
    simp only [↓reduceIte, true_and]
    by_cases hdata : R.data = []
    · rw [if_neg (by simp [hdata])]
      have hr0 : readExactAt (P ++ (R.image off).take k) R.data.length
          (off + (57 + klen) + (serMeta R.mt).length) = some [] := by
        rw [hdata]; unfold readExactAt; simp
      rw [hr0]
      have haud : dataChecksumAudit (R.header.final off) [] = .ok () := by
        rw [dataChecksumAudit_ok, ← hdata]; exact hwf.dcrc.symm
      simp only [haud, hend]
    · rw [if_pos hdata]
      rw [readExactAt_none_of_short (by rw [hl]; omega)
        (List.length_pos_iff.mpr hdata)]

/-! ### `RawRecords::start` looks at bytes 20 .. 36 only -/

theorem rawStart_congr {klen : Nat} {f1 f2 : List UInt8}
    (h : readExactAt f1 (8 + 8) blobHeaderSize = readExactAt f2 (8 + 8) blobHeaderSize) :
    rawStart klen f1 = rawStart klen f2 := by
  unfold rawStart; rw [h]

theorem rawStart_take {klen : Nat} (file : List UInt8) (t : Nat) (ht : 36 ≤ t) :
    rawStart klen (file.take t) = rawStart klen file := by
  by_cases hle : t ≤ file.length
  · apply rawStart_congr
    have := readExactAt_of_prefix (file.take t) [] (file.drop t) (8 + 8) blobHeaderSize
      (by rw [List.length_take]; unfold blobHeaderSize; omega)
    rw [List.append_nil, List.take_append_drop] at this
    exact this
  · rw [List.take_of_length_le (by omega)]

theorem rawStart_short {klen : Nat} (file : List UInt8) (h : file.length < 36) :
    rawStart klen file = .error (.load .bincode) := by
  unfold rawStart
  rw [readExactAt_none_of_short (by unfold blobHeaderSize; omega) (by omega)]

/-! ### the blob header of a prefix -/

theorem blobHeaderFromFile_short (file : List UInt8) (h : file.length < 20) :
    blobHeaderFromFile file = .error .bincode := by
  unfold blobHeaderFromFile
  rw [readExactAt_none_of_short (by unfold blobHeaderSize; omega) (by unfold blobHeaderSize; omega)]

theorem blobHeaderFromFile_ser (rest : List UInt8) :
    blobHeaderFromFile (serBlobHeader ++ rest) = .ok BlobHeader.new := by
  unfold blobHeaderFromFile
  rw [show serBlobHeader ++ rest = [] ++ (serBlobHeader ++ rest) from rfl,
    readExactAt_append (p := []) (a := serBlobHeader) (s := rest) (size := blobHeaderSize) (off := 0)
      rfl (by decide)]
  simp only
  have := parseBlobHeader_ser BlobHeader.new [] blobHeaderNew_inRange
  rw [List.append_nil] at this
  rw [this]
  rfl

theorem blobBytes_take_ge20 (klen : Nat) (recs : List (Rec × List UInt8)) (t : Nat) (ht : 20 ≤ t) :
    (blobBytes klen recs).take t = serBlobHeader ++ (tailOf 20 (recordsOf klen recs)).take (t - 20) := by
  rw [blobBytes_eq, List.take_append, serBlobHeader_length,
    List.take_of_length_le (by rw [serBlobHeader_length]; exact ht)]

/-! ### index headers of prefixes -/

theorem scanOf_take (off : Nat) (Rs : List Record) (n : Nat) :
    scanOf off (Rs.take n) = (scanOf off Rs).take n := by
  by_cases hn : n ≤ Rs.length
  · conv => rhs; rw [← List.take_append_drop n Rs, scanOf_append]
    rw [List.take_left' (by rw [scanOf_length, List.length_take]; omega)]
  · rw [List.take_of_length_le (by omega), List.take_of_length_le (by rw [scanOf_length]; omega)]

theorem blobHeaders_take (klen : Nat) (recs : List (Rec × List UInt8)) (n : Nat) :
    blobHeaders klen (recs.take n) = (blobHeaders klen recs).take n := by
  unfold blobHeaders
  rw [recordsOf_take, writtenHeaders_eq, writtenHeaders_eq, scanOf_take, List.map_take]

theorem scanOf_take_succ (Rs : List Record) (i : Nat) (hi : i < Rs.length) :
    (scanOf 20 (Rs.take i) ++ [(20 + (tailOf 20 (Rs.take i)).length,
      Rs[i].header.final (20 + (tailOf 20 (Rs.take i)).length))]).map (·.2) =
      (writtenHeaders serBlobHeader Rs).take (i + 1) := by
  rw [writtenHeaders_eq, serBlobHeader_length, ← List.map_take, ← scanOf_take,
    List.take_succ_eq_append_getElem hi, scanOf_append]
  rfl

theorem rawStart_produced (klen : Nat) (recs : List (Rec × List UInt8)) (hne : recs ≠ [])
    (hlen : (blobBytes klen recs).length < 2 ^ 64) :
    rawStart klen (blobBytes klen recs) = .ok (57 + klen) := by
  have h0 : 0 < (recordsOf klen recs).length := by
    rw [recordsOf_length]; exact List.length_pos_iff.mpr hne
  have hsplit := blob_split (recordsOf klen recs) 0 h0
  rw [show appendRecords serBlobHeader (recordsOf klen recs) = blobBytes klen recs from rfl] at hsplit
  simp only [List.take_zero, tailOf, List.length_nil, Nat.add_zero, List.nil_append] at hsplit
  have hwf : ((recordsOf klen recs)[0]).WF klen := by
    obtain ⟨x, _, hx⟩ := List.mem_map.mp (List.getElem_mem h0)
    rw [← hx]; exact recordOf_WF klen x.1 x.2
  have hk : klen < 2 ^ 64 := by
    have h2 := ((recordsOf klen recs)[0]).image_length 20
    rw [hwf.key] at h2
    rw [hsplit] at hlen
    simp only [List.length_append] at hlen
    omega
  rw [hsplit]
  exact rawStart_image _ hwf hk _

/-- the start-up scan on a prefix of a produced blob that ends strictly inside record `i` -/
theorem rawRecordsLoad_cut (klen : Nat) (recs : List (Rec × List UInt8)) (v : Bool) (i t : Nat)
    (hlen : (blobBytes klen recs).length < 2 ^ 64) (hts : ∀ x ∈ recs, x.1.ts < 2 ^ 64)
    (hc : CutIn klen recs i t) :
    ∃ hi : i < (recordsOf klen recs).length,
      rawRecordsLoad klen v ((blobBytes klen recs).take t) =
        if t - (blobBytes klen (recs.take i)).length < 57 + klen then .error (.load .bincode)
        else if v = true ∧ ((recordsOf klen recs)[i]).data ≠ [] then .error (.load .bincode)
        else .ok ((blobHeaders klen recs).take (i + 1)) := by
  obtain ⟨hi, htake, hk⟩ := blobBytes_take_cut klen recs i t hc
  refine ⟨hi, ?_⟩
  have hgood := goodRecs_recordsOf klen recs hts
  have hwf := (hgood _ (List.getElem_mem hi)).1
  have htsR := (hgood _ (List.getElem_mem hi)).2
  have hpre : blobBytes klen (recs.take i) = serBlobHeader ++ tailOf 20 ((recordsOf klen recs).take i) := by
    rw [blobBytes_eq, recordsOf_take]
  have hpl : (blobBytes klen (recs.take i)).length = 20 + (tailOf 20 ((recordsOf klen recs).take i)).length := by
    rw [hpre, List.length_append, serBlobHeader_length]
  have hle := blobBytes_take_succ_length klen recs i hi
  have hle2 := blobBytes_take_length_le klen recs (i + 1)
  have hsucc := scanOf_take_succ (recordsOf klen recs) i hi
  rw [show writtenHeaders serBlobHeader (recordsOf klen recs) = blobHeaders klen recs from rfl, ← hpl] at hsucc
  have hc1 := hc.2.1
  have htl : t ≤ (blobBytes klen recs).length := by have := hc.2.2; omega
  generalize hR : (recordsOf klen recs)[i] = R at htake hk hwf htsR hle hsucc
  generalize hoff : (blobBytes klen (recs.take i)).length = off at htake hk hpl hle hsucc hc1
  have him := R.image_length off
  have hsz : off + R.size ≤ (blobBytes klen recs).length := by omega
  unfold Record.size at hsz
  rw [hwf.key] at him hsz
  have hr : (R.header.final off).InRange := final_inRange hwf off htsR (by rw [him]; omega)
  have hkpos : 0 < t - off := by omega
  have hXl : ((R.image off).take (t - off)).length = t - off := by rw [List.length_take]; omega
  have hfl : ((blobBytes klen recs).take t).length = t := by rw [List.length_take]; omega
  unfold rawRecordsLoad rawRecordsScan
  by_cases h36 : t < 36
  · rw [rawStart_short _ (by rw [hfl]; exact h36), if_pos (by omega)]
  · have hne : recs ≠ [] := by
      intro h0; have := hc.1; rw [h0] at this; simp at this
    rw [rawStart_take _ t (by omega), rawStart_produced klen recs hne hlen]
    simp only
    have hge := tailOf_length_ge 20 ((recordsOf klen recs).take i)
    obtain ⟨k', hk'⟩ : ∃ k', t = ((recordsOf klen recs).take i).length + (k' + 1) :=
      ⟨t - ((recordsOf klen recs).take i).length - 1, by omega⟩
    have hfile : (blobBytes klen recs).take t = serBlobHeader ++
        (tailOf (serBlobHeader).length ((recordsOf klen recs).take i) ++ (R.image off).take (t - off)) := by
      rw [htake, hpre, serBlobHeader_length, List.append_assoc]
    have hloop := rawLoop_tail v (klen := klen) ((blobBytes klen recs).take t)
      ((recordsOf klen recs).take i) serBlobHeader ((R.image off).take (t - off)) (k' + 1) hfile
      (by rw [hfl]; omega) (hgood.take i)
    rw [serBlobHeader_length, ← hpl, ← hk'] at hloop
    rw [hfl, show blobHeaderSize = 20 from rfl, hloop, htake]
    by_cases hcase : t - off < 57 + klen
    · rw [if_pos hcase, rawLoop_torn_header v _ R off (57 + klen) (t - off) k' hoff hkpos hcase (by omega)]
    · rw [if_neg hcase, rawLoop_torn_body v _ R hwf off (t - off) k' hoff hr (by omega) hk]
      by_cases hvd : v = true ∧ R.data ≠ []
      · rw [if_pos hvd, if_pos hvd]
      · rw [if_neg hvd, if_neg hvd]
        simp only
        rw [hsucc]


theorem rawRecordsLoad_boundary (klen : Nat) (recs : List (Rec × List UInt8)) (v : Bool) (n : Nat)
    (hn1 : 0 < n) (hn : n ≤ recs.length)
    (hlen : (blobBytes klen recs).length < 2 ^ 64) (hts : ∀ x ∈ recs, x.1.ts < 2 ^ 64) :
    rawRecordsLoad klen v ((blobBytes klen recs).take (blobBytes klen (recs.take n)).length) =
      .ok ((blobHeaders klen recs).take n) := by
  rw [blobBytes_take_boundary, ← blobHeaders_take]
  have hle := blobBytes_take_length_le klen recs n
  apply rawRecordsLoad_appendRecords v klen (recordsOf klen (recs.take n)) _ (by
    rw [show appendRecords serBlobHeader (recordsOf klen (recs.take n)) = blobBytes klen (recs.take n) from rfl]
    omega)
  · exact goodRecs_recordsOf klen _ (fun x hx => hts x (List.mem_of_mem_take hx))
  · intro h0
    have := congrArg List.length h0
    simp only [recordsOf_length, List.length_take, List.length_nil] at this
    omega

/-! ### `openBlob` on prefixes -/

theorem openBlob_short (klen : Nat) (v : Bool) (file : List UInt8) (h : file.length < 20) :
    openBlob klen v file = .quarantine := by
  unfold openBlob
  rw [blobHeaderFromFile_short file h]
  rfl

theorem openBlob_header_only (klen : Nat) (v : Bool) : openBlob klen v serBlobHeader = .ok [] := by
  unfold openBlob
  have := blobHeaderFromFile_ser []
  rw [List.append_nil] at this
  rw [this]
  rfl

theorem openBlob_of_load (klen : Nat) (v : Bool) (rest : List UInt8) (h : rest ≠ []) :
    openBlob klen v (serBlobHeader ++ rest) =
      match rawRecordsLoad klen v (serBlobHeader ++ rest) with
      | .error e => classifyScanErr e
      | .ok hs => .ok hs := by
  unfold openBlob
  rw [blobHeaderFromFile_ser]
  simp only
  rw [if_pos (by
    rw [List.length_append, serBlobHeader_length]
    have := List.length_pos_iff.mpr h
    unfold blobHeaderSize; omega)]
  cases rawRecordsLoad klen v (serBlobHeader ++ rest) <;> rfl

theorem classifyScanErr_fail {e : ScanErr} (h : classifyScanErr e = .fail) : e = .fuel := by
  cases e with
  | load l => cases l <;> revert h <;> decide
  | blobKeySize => revert h; decide
  | fuel => rfl

theorem classifyHeaderErr_fail {e : BlobHeaderErr} (h : classifyHeaderErr e = .fail) : e = .blobVersion := by
  cases e <;> first | rfl | (revert h; decide)

theorem rawRecordsLoad_ne_fuel (klen : Nat) (v : Bool) (file : List UInt8) :
    rawRecordsLoad klen v file ≠ .error .fuel := by
  unfold rawRecordsLoad
  split
  · next e he =>
    intro h
    cases h
    exact rawRecordsScan_ne_fuel klen v file he
  · intro h; cases h

/-- start-up never fails on a file that begins with the current blob header, and never on a file
    shorter than a blob header -/
theorem openBlob_ne_fail (klen : Nat) (v : Bool) (file : List UInt8)
    (h : file.length < 20 ∨ ∃ rest, file = serBlobHeader ++ rest) : openBlob klen v file ≠ .fail := by
  rcases h with h | ⟨rest, rfl⟩
  · rw [openBlob_short klen v file h]; intro h; cases h
  · by_cases hr : rest = []
    · subst hr; rw [List.append_nil, openBlob_header_only]; intro h; cases h
    · rw [openBlob_of_load klen v rest hr]
      split
      · next e he =>
        intro hf
        have := classifyScanErr_fail hf
        subst this
        exact rawRecordsLoad_ne_fuel klen v _ he
      · intro h; cases h

theorem blobBytes_take_cases (klen : Nat) (recs : List (Rec × List UInt8)) (t : Nat) :
    ((blobBytes klen recs).take t).length < 20 ∨ ∃ rest, (blobBytes klen recs).take t = serBlobHeader ++ rest := by
  by_cases h : t < 20
  · left; rw [List.length_take]; omega
  · right; exact ⟨_, blobBytes_take_ge20 klen recs t (by omega)⟩

/-! ### what is served from a prefix -/

/-- every record that lies completely inside the file loads with its original bytes, whatever follows -/
theorem entryLoad_prefix (klen : Nat) (recs : List (Rec × List UInt8))
    (hlen : (blobBytes klen recs).length < 2 ^ 64) (n j : Nat) (hj : j < n) (X : List UInt8)
    (h : RecHeader) (r : Rec) (d : List UInt8)
    (hh : (blobHeaders klen recs)[j]? = some h) (hr : recs[j]? = some (r, d)) :
    entryLoad (blobBytes klen (recs.take n) ++ X) h = .ok (serMeta r.mt, if r.del then [] else d) := by
  have hh' : (blobHeaders klen (recs.take n))[j]? = some h := by
    rw [blobHeaders_take, List.getElem?_take, if_pos hj]; exact hh
  have hr' : (recs.take n)[j]? = some (r, d) := by
    rw [List.getElem?_take, if_pos hj]; exact hr
  have hR : (recordsOf klen (recs.take n))[j]? = some (recordOf klen r d) := by
    rw [recordsOf, List.getElem?_map, hr']; rfl
  obtain ⟨post, h1, h2, hwf⟩ := entry_split (klen := klen) serBlobHeader (recordsOf klen (recs.take n)) j h _
    (fun R hR => by
      obtain ⟨x, _, rfl⟩ := List.mem_map.mp hR
      exact recordOf_WF klen x.1 x.2) hh' hR
  have hle := blobBytes_take_length_le klen recs n
  have hm : (serMeta (recordOf klen r d).mt).length < 2 ^ 64 :=
    Nat.lt_of_le_of_lt (image_le_of_split h1) (by
      rw [show appendRecords serBlobHeader (recordsOf klen (recs.take n)) = blobBytes klen (recs.take n) from rfl]
      omega)
  unfold blobBytes
  rw [h1, h2, List.append_assoc, List.append_assoc, ← recordOf_mt klen r d, ← recordOf_data klen r d]
  exact entryLoad_image _ _ _ hwf _ rfl hm

/-- the torn record itself does not load -/
theorem entryLoad_torn {klen : Nat} (P : List UInt8) (R : Record) (hwf : R.WF klen) (off k : Nat)
    (hoff : P.length = off) (hk : k < (R.image off).length) :
    entryLoad (P ++ (R.image off).take k) (R.header.final off) = .error .bincode := by
  have him := R.image_length off
  have hms : (R.header.final off).metaSize = (serMeta R.mt).length := hwf.msize
  have hds : (R.header.final off).dataSize = R.data.length := hwf.dsize
  have hmo : (R.header.final off).metaOffset = off + (57 + R.header.key.length) := rfl
  unfold entryLoad
  rw [readExactAt_none_of_short (by
    rw [List.length_append, List.length_take, hoff, hmo, hms, hds]; omega) (by
    rw [hms]; have := serMeta_length_pos R.mt; omega)]


theorem recordsOf_getElem (klen : Nat) (recs : List (Rec × List UInt8)) (i : Nat)
    (hi : i < (recordsOf klen recs).length) (r : Rec) (d : List UInt8) (hr : recs[i]? = some (r, d)) :
    (recordsOf klen recs)[i] = recordOf klen r d := by
  have : (recordsOf klen recs)[i]? = some (recordOf klen r d) := by
    rw [recordsOf, List.getElem?_map, hr]; rfl
  rw [List.getElem?_eq_getElem hi] at this
  exact Option.some.inj this

/-- every prefix length of a produced blob is below the blob header size, a record boundary, or strictly
    inside exactly one record -/
theorem prefix_cases (klen : Nat) (recs : List (Rec × List UInt8)) (t : Nat)
    (ht : t ≤ (blobBytes klen recs).length) :
    t < 20 ∨ IsBoundary klen recs t ∨ ∃ i, CutIn klen recs i t := by
  by_cases h20 : t < 20
  · exact Or.inl h20
  · right
    by_cases hb : IsBoundary klen recs t
    · exact Or.inl hb
    · right
      rcases Nat.lt_or_ge t (blobBytes klen recs).length with hlt | hge
      · exact cutIn_of_not_boundary klen recs t (by omega) hlt hb
      · exact absurd ⟨recs.length, Nat.le_refl _, by rw [List.take_length]; omega⟩ hb


/-- on a prefix longer than the blob header, `from_file` runs the scan -/
theorem openBlob_take (klen : Nat) (v : Bool) (recs : List (Rec × List UInt8)) (t : Nat) (h20 : 20 < t)
    (hb : 20 < (blobBytes klen recs).length) :
    openBlob klen v ((blobBytes klen recs).take t) =
      match rawRecordsLoad klen v ((blobBytes klen recs).take t) with
      | .error e => classifyScanErr e
      | .ok hs => .ok hs := by
  rw [blobBytes_take_ge20 klen recs t (by omega)]
  apply openBlob_of_load
  intro h0
  have := congrArg List.length h0
  rw [blobBytes_eq, List.length_append, serBlobHeader_length] at hb
  simp only [List.length_take, List.length_nil] at this
  omega


end Pearl
