import Pearl.Model.CrcForce
import Pearl.Model.Bytes
import Pearl.Proofs.CrcLemmas
/-
CRC forcing (`Pearl/Model/CrcForce.lean`): the table form of the byte step, one-step invertibility of the
backward walk (the high byte of a table entry identifies the entry), and
`crc_force_zero : crc32c (p ++ crcForce p) = 0` for every prefix `p`, with the corollary for the generator.
-/
namespace Pearl.Crc

/-! ### the byte step is 8 steps of `A` on `s ^^^ b` -/

theorem A_bit (b : Bool) (v : BitVec 32) : A (bit b v) = bit b (A v) := by
  cases b <;> simp [bit, A_zero]

/-- the 32-bit word with the byte in its low 8 bits -/
def zext (b : UInt8) : BitVec 32 := b.toBitVec.setWidth 32

theorem zext_bits_bv : ∀ v : BitVec 8, v.setWidth 32 =
    bit (v.getLsbD 0) 1#32 ^^^ bit (v.getLsbD 1) 2#32 ^^^ bit (v.getLsbD 2) 4#32 ^^^ bit (v.getLsbD 3) 8#32 ^^^
    bit (v.getLsbD 4) 16#32 ^^^ bit (v.getLsbD 5) 32#32 ^^^ bit (v.getLsbD 6) 64#32 ^^^
    bit (v.getLsbD 7) 128#32 := by decide

theorem zext_bits (b : UInt8) : zext b =
    bit (b.toBitVec.getLsbD 0) 1#32 ^^^ bit (b.toBitVec.getLsbD 1) 2#32 ^^^ bit (b.toBitVec.getLsbD 2) 4#32 ^^^
    bit (b.toBitVec.getLsbD 3) 8#32 ^^^ bit (b.toBitVec.getLsbD 4) 16#32 ^^^ bit (b.toBitVec.getLsbD 5) 32#32 ^^^
    bit (b.toBitVec.getLsbD 6) 64#32 ^^^ bit (b.toBitVec.getLsbD 7) 128#32 := zext_bits_bv b.toBitVec

theorem A_2 : A 2#32 = 1#32 := by decide
theorem A_4 : A 4#32 = 2#32 := by decide
theorem A_8 : A 8#32 = 4#32 := by decide
theorem A_16 : A 16#32 = 8#32 := by decide
theorem A_32 : A 32#32 = 16#32 := by decide
theorem A_64 : A 64#32 = 32#32 := by decide
theorem A_128 : A 128#32 = 64#32 := by decide

/-- one byte step = `A⁸ (s ^^^ b)` -/
theorem stepByte_eq_Ai (s : BitVec 32) (b : UInt8) : stepByte s b = Ai 8 (s ^^^ zext b) := by
  rw [zext_bits]
  simp only [stepByte, byteBits, List.foldl_cons, List.foldl_nil, stepD, Ai, A_add, A_bit,
    A_2, A_4, A_8, A_16, A_32, A_64, A_128, e0]
  ac_rfl

/-! ### table form of the byte step -/

theorem A_of_lsb_false (z : BitVec 32) (h : z.getLsbD 0 = false) : A z = z >>> 1 := by
  unfold A
  rw [h]
  simp [bit]

/-- `n` steps on a word whose low `n` bits are clear just shift -/
theorem Ai_low (n : Nat) (z : BitVec 32) (h : ∀ i, i < n → z.getLsbD i = false) : Ai n z = z >>> n := by
  induction n generalizing z with
  | zero => simp [Ai]
  | succ n ih =>
    rw [Ai, A_of_lsb_false z (h 0 (by omega)), ih, Nat.add_comm n 1, BitVec.shiftRight_add]
    intro i hi
    rw [BitVec.getLsbD_ushiftRight]
    exact h (1 + i) (by omega)

theorem zext_loByte (x : BitVec 32) : zext (loByte x) = (x.setWidth 8).setWidth 32 := rfl

/-- a word = its part above the low byte, xor its low byte -/
theorem split_lo (x : BitVec 32) : x = ((x >>> 8) <<< 8) ^^^ zext (loByte x) := by
  apply BitVec.eq_of_getLsbD_eq
  intro i hi
  rw [zext_loByte]
  simp only [BitVec.getLsbD_xor, BitVec.getLsbD_shiftLeft, BitVec.getLsbD_ushiftRight,
    BitVec.getLsbD_setWidth]
  by_cases h8 : i < 8
  · simp [h8, hi]
  · have : 8 + (i - 8) = i := by omega
    simp [h8, hi, this]

theorem tab_eq (i : UInt8) : tab i = Ai 8 (zext i) := rfl

/-- `Ai 8 x = (x >>> 8) ^^^ T[x & 0xff]` -/
theorem Ai8_tab (x : BitVec 32) : Ai 8 x = (x >>> 8) ^^^ tab (loByte x) := by
  conv => lhs; rw [split_lo x]
  rw [Ai_add, ← tab_eq, Ai_low 8 ((x >>> 8) <<< 8)]
  · congr 1
    apply BitVec.eq_of_getLsbD_eq
    intro i hi
    simp only [BitVec.getLsbD_shiftLeft, BitVec.getLsbD_ushiftRight]
    by_cases h : 8 + i < 32
    · have : 8 + i - 8 = i := by omega
      have h8 : ¬ (8 + i < 8) := by omega
      simp [h, h8, this]
    · have : 32 ≤ 8 + i := by omega
      simp [h, BitVec.getLsbD_of_ge _ _ this]
  · intro i hi
    simp [BitVec.getLsbD_shiftLeft, hi]

theorem loByte_xor_zext (s : BitVec 32) (b : UInt8) : loByte (s ^^^ zext b) = loByte s ^^^ b := by
  apply UInt8.toBitVec_inj.mp
  rw [UInt8.toBitVec_xor]
  apply BitVec.eq_of_getLsbD_eq
  intro i hi
  simp [loByte, zext, hi]

theorem zext_shr8 (b : UInt8) : zext b >>> 8 = 0#32 := by
  apply BitVec.eq_of_getLsbD_eq
  intro i hi
  simp only [zext, BitVec.getLsbD_ushiftRight, BitVec.getLsbD_setWidth, BitVec.getLsbD_zero]
  rw [BitVec.getLsbD_of_ge _ _ (by omega : 8 ≤ 8 + i)]
  simp

/-- the table-driven byte step: `s' = (s >> 8) ^ T[(s ^ b) & 0xff]` -/
theorem stepByte_tab (s : BitVec 32) (b : UInt8) : stepByte s b = (s >>> 8) ^^^ tab (loByte s ^^^ b) := by
  rw [stepByte_eq_Ai, Ai8_tab, loByte_xor_zext, BitVec.ushiftRight_xor_distrib, zext_shr8, BitVec.xor_zero]

/-! ### forward walk -/

/-- the register after byte steps that use the given table indices -/
def walk (s : BitVec 32) : List UInt8 → BitVec 32
  | [] => s
  | i :: r => walk ((s >>> 8) ^^^ tab i) r

theorem walk_append (s : BitVec 32) (a b : List UInt8) : walk s (a ++ b) = walk (walk s a) b := by
  induction a generalizing s with
  | nil => rfl
  | cons i a ih => simp only [List.cons_append, walk, ih]

theorem u8_xor_cancel (a b : UInt8) : a ^^^ (b ^^^ a) = b := by
  apply UInt8.toBitVec_inj.mp
  simp only [UInt8.toBitVec_xor]
  rw [BitVec.xor_comm b.toBitVec, ← BitVec.xor_assoc, BitVec.xor_self, BitVec.zero_xor]

/-- the bytes chosen by `forceFrom` make the register use exactly the wanted table entries -/
theorem crcReg_forceFrom (s : BitVec 32) (idx : List UInt8) : crcReg s (forceFrom s idx) = walk s idx := by
  induction idx generalizing s with
  | nil => rfl
  | cons i r ih =>
    simp only [forceFrom, crcReg, List.foldl_cons, walk]
    rw [stepByte_tab, u8_xor_cancel]
    exact ih _

theorem forceFrom_length (s : BitVec 32) (idx : List UInt8) : (forceFrom s idx).length = idx.length := by
  induction idx generalizing s with
  | nil => rfl
  | cons i r ih => simp only [forceFrom, List.length_cons, ih]

/-! ### backward walk: one-step invertibility -/

/-- `hiByte ∘ tab` is a linear bijection of the bytes; its inverse as a formula (the columns are
    `revHi 1, revHi 2, revHi 4, …`).  Used only to keep the two `decide`s below cheap (256 table entries each,
    no search). -/
def revHiLin (h : UInt8) : UInt8 :=
  let c (k : Nat) (v : UInt8) : UInt8 := if h.toBitVec.getLsbD k then v else 0
  c 0 241 ^^^ c 1 226 ^^^ c 2 196 ^^^ c 3 136 ^^^ c 4 16 ^^^ c 5 32 ^^^ c 6 177 ^^^ c 7 98

theorem revHiLin_hiByte_tab_bv : ∀ v : BitVec 8, revHiLin (hiByte (tab (UInt8.ofBitVec v))) = UInt8.ofBitVec v := by
  decide

theorem hiByte_tab_revHiLin_bv : ∀ v : BitVec 8, hiByte (tab (revHiLin (UInt8.ofBitVec v))) = UInt8.ofBitVec v := by
  decide

/-- table injectivity: the high byte of an entry identifies the entry -/
theorem hiByte_tab_inj {i j : UInt8} (h : hiByte (tab i) = hiByte (tab j)) : i = j := by
  have hi := revHiLin_hiByte_tab_bv i.toBitVec
  have hj := revHiLin_hiByte_tab_bv j.toBitVec
  change revHiLin (hiByte (tab i)) = i at hi
  change revHiLin (hiByte (tab j)) = j at hj
  rw [← hi, ← hj, h]

/-- every byte is the high byte of some entry -/
theorem hiByte_tab_surj (h : UInt8) : hiByte (tab (revHiLin h)) = h := hiByte_tab_revHiLin_bv h.toBitVec

/-- the search finds an entry with the wanted high byte if there is one below the bound -/
theorem revHiFrom_spec (h : UInt8) (n : Nat) (hex : ∃ j, j < n ∧ hiByte (tab (UInt8.ofNat j)) = h) :
    hiByte (tab (revHiFrom h n)) = h := by
  induction n with
  | zero => obtain ⟨j, hj, _⟩ := hex; omega
  | succ n ih =>
    simp only [revHiFrom]
    split
    · next hh => exact hh
    · next hh =>
      apply ih
      obtain ⟨j, hj, hjh⟩ := hex
      refine ⟨j, ?_, hjh⟩
      have : j ≠ n := by intro e; subst e; exact hh hjh
      omega

/-- the entry found by the search has the wanted high byte -/
theorem hiByte_tab_revHi (h : UInt8) : hiByte (tab (revHi h)) = h := by
  apply revHiFrom_spec
  refine ⟨(revHiLin h).toNat, (revHiLin h).toNat_lt, ?_⟩
  rw [UInt8.ofNat_toNat]
  exact hiByte_tab_surj h

/-- the high byte of an entry identifies the entry: the search returns its index -/
theorem revHi_hiByte_tab (i : UInt8) : revHi (hiByte (tab i)) = i :=
  hiByte_tab_inj (hiByte_tab_revHi _)

theorem hiByte_getLsbD (x : BitVec 32) (i : Nat) (hi : i < 8) :
    (hiByte x).toBitVec.getLsbD i = x.getLsbD (24 + i) := by
  simp [hiByte, BitVec.getLsbD_ushiftRight, hi]

/-- a word whose high byte agrees with `y`'s: `((x ^ y) << 8) >> 8 = x ^ y` -/
theorem shl_shr_of_hi_eq (x y : BitVec 32) (h : hiByte x = hiByte y) :
    ((x ^^^ y) <<< 8) >>> 8 = x ^^^ y := by
  apply BitVec.eq_of_getLsbD_eq
  intro i hi
  simp only [BitVec.getLsbD_ushiftRight, BitVec.getLsbD_shiftLeft, BitVec.getLsbD_xor]
  by_cases h24 : i < 24
  · have h1 : 8 + i < 32 := by omega
    have h2 : ¬ (8 + i < 8) := by omega
    have h3 : 8 + i - 8 = i := by omega
    simp [h1, h2, h3]
  · have h1 : ¬ (8 + i < 32) := by omega
    have hx := hiByte_getLsbD x (i - 24) (by omega)
    have hy := hiByte_getLsbD y (i - 24) (by omega)
    rw [h, hy] at hx
    have h4 : 24 + (i - 24) = i := by omega
    rw [h4] at hx
    simp [h1, hx]

/-- one backward step: with `i = revHi (hiByte t)` and `t' = (t ^ T[i]) << 8`, a byte step from any register whose
    bits above the low byte are those of `t'` … i.e. `t = (t' >> 8) ^ T[i]` -/
theorem back_step (t : BitVec 32) :
    (((t ^^^ tab (revHi (hiByte t))) <<< 8) >>> 8) ^^^ tab (revHi (hiByte t)) = t := by
  rw [shl_shr_of_hi_eq t _ (hiByte_tab_revHi (hiByte t)).symm, BitVec.xor_assoc, BitVec.xor_self,
    BitVec.xor_zero]

theorem backIdx_acc (k : Nat) (t : BitVec 32) (acc : List UInt8) : backIdx k t acc = backIdx k t [] ++ acc := by
  induction k generalizing t acc with
  | zero => rfl
  | succ k ih =>
    simp only [backIdx]
    rw [ih _ (_ :: acc), ih _ [_]]
    simp

theorem backIdx_length (k : Nat) (t : BitVec 32) (acc : List UInt8) :
    (backIdx k t acc).length = k + acc.length := by
  induction k generalizing t acc with
  | zero => simp [backIdx]
  | succ k ih => simp only [backIdx, ih, List.length_cons]; omega

/-- `k` backward steps followed by the forward walk reach `t`, up to what is still left of the start register
    (`s >>> 8k`) and of the residual of the backward walk -/
theorem walk_backIdx (k : Nat) (t : BitVec 32) :
    ∃ r : BitVec 32, ∀ s, walk s (backIdx k t []) = t ^^^ ((s ^^^ r) >>> (8 * k)) := by
  induction k generalizing t with
  | zero =>
    refine ⟨t, fun s => ?_⟩
    simp only [backIdx, walk, Nat.mul_zero, BitVec.ushiftRight_zero]
    rw [BitVec.xor_comm s t, ← BitVec.xor_assoc, BitVec.xor_self, BitVec.zero_xor]
  | succ k ih =>
    obtain ⟨r, hr⟩ := ih ((t ^^^ tab (revHi (hiByte t))) <<< 8)
    refine ⟨r, fun s => ?_⟩
    simp only [backIdx]
    rw [backIdx_acc, walk_append, hr, walk, walk, BitVec.ushiftRight_xor_distrib]
    rw [BitVec.xor_assoc, BitVec.xor_comm ((s ^^^ r) >>> (8 * k) >>> 8), ← BitVec.xor_assoc, back_step]
    rw [← BitVec.shiftRight_add, Nat.mul_succ]

/-- four backward steps determine the four table entries completely -/
theorem walk_backIdx4 (s t : BitVec 32) : walk s (backIdx 4 t []) = t := by
  obtain ⟨r, hr⟩ := walk_backIdx 4 t
  rw [hr, BitVec.ushiftRight_eq_zero (by omega), BitVec.xor_zero]

/-- the four forced bytes drive the register from `s` to `t`, for every `s` and `t` -/
theorem crcReg_forceRegTo (t s : BitVec 32) : crcReg s (forceRegTo t s) = t := by
  rw [forceRegTo, crcReg_forceFrom, walk_backIdx4]

theorem forceRegTo_length (t s : BitVec 32) : (forceRegTo t s).length = 4 := by
  rw [forceRegTo, forceFrom_length, backIdx_length]; rfl

theorem crcReg_append (s : BitVec 32) (a b : List UInt8) : crcReg s (a ++ b) = crcReg (crcReg s a) b := by
  simp only [crcReg, List.foldl_append]

end Pearl.Crc

namespace Pearl
open Crc

theorem crcForce_length (p : List UInt8) : (crcForce p).length = 4 := forceRegTo_length _ _

/-- MAIN: the forced suffix makes the CRC-32C of the whole string 0, for every prefix -/
theorem crc_force_zero (p : List UInt8) : crc32c (p ++ crcForce p) = 0 := by
  rw [crc32c, crcReg_append, crcForce, forceReg, crcReg_forceRegTo]
  decide

/-- the suffix is the only one: any 4 bytes that give checksum 0 are the forced ones -/
theorem crc_force_unique (p t : List UInt8) (hl : t.length = 4) (h : crc32c (p ++ t) = 0) : t = crcForce p := by
  apply Classical.byContradiction
  intro hne
  have := crc32c_window_split p t (crcForce p) [] (by rw [hl, crcForce_length]) (by omega) hne
  simp only [List.append_nil] at this
  exact this (by rw [h, crc_force_zero])

/-! ### the generator -/

theorem genLoop_length' : ∀ (n : Nat) (x : UInt64) (acc : List UInt8), (genLoop n x acc).length = acc.length + n
  | 0, _, acc => by simp [genLoop]
  | n+1, x, acc => by
    simp only [genLoop]
    rw [genLoop_length' n]
    simp only [List.length_cons]; omega

theorem genDataPlain_length (len seed : Nat) : (genDataPlain len seed).length = len := by
  unfold genDataPlain
  split
  · next h => simp [h]
  · rw [genLoop_length']; simp only [List.length_cons, List.length_nil]; omega

theorem genData_forced (len seed : Nat) (hs : 240 ≤ seed ∧ seed ≤ 249) (hl : 8 ≤ len) :
    genData len seed = genDataPlain (len - 4) seed ++ crcForce (genDataPlain (len - 4) seed) := by
  have : forcedSeed len seed = true := by simp [forcedSeed, hs.1, hs.2, hl]
  simp only [genData, this, if_true]

theorem genData_plain (len seed : Nat) (h : ¬ (240 ≤ seed ∧ seed ≤ 249 ∧ 8 ≤ len)) :
    genData len seed = genDataPlain len seed := by
  have : forcedSeed len seed = false := by
    simp only [forcedSeed, Bool.and_eq_false_iff, decide_eq_false_iff_not, Bool.and_eq_false_iff]
    omega
  simp [genData, this]

/-- COROLLARY: payloads generated for seeds 240..249 and `len ≥ 8` have CRC-32C 0 -/
theorem genData_crc_zero (len seed : Nat) (hs : 240 ≤ seed ∧ seed ≤ 249) (hl : 8 ≤ len) :
    crc32c (genData len seed) = 0 := by
  rw [genData_forced len seed hs hl]; exact crc_force_zero _

/-- the length of the generated payload is `len` for every seed (forced or not) -/
theorem genData_length' (len seed : Nat) : (genData len seed).length = len := by
  unfold genData
  split
  · next h =>
    simp only [forcedSeed, Bool.and_eq_true, decide_eq_true_eq] at h
    simp only [List.length_append, genDataPlain_length, crcForce_length]
    omega
  · exact genDataPlain_length len seed

/-- the forced payload still starts with the seed byte (the harness recognises the generator by it) -/
theorem genData_head (len seed : Nat) (hl : 0 < len) : (genData len seed).head? = some (UInt8.ofNat seed) := by
  have hp : ∀ n, 0 < n → (genDataPlain n seed).head? = some (UInt8.ofNat seed) := by
    intro n hn
    have hg : ∀ (k : Nat) (x : UInt64) (acc : List UInt8), acc ≠ [] →
        (genLoop k x acc).head? = acc.getLast? := by
      intro k
      induction k with
      | zero => intro x acc _; simp [genLoop, List.head?_reverse]
      | succ k ih =>
        intro x acc hacc
        simp only [genLoop]
        rw [ih _ _ (by simp), List.getLast?_cons_of_ne_nil hacc]
    unfold genDataPlain
    rw [if_neg (by omega), hg _ _ _ (by simp)]
    rfl
  unfold genData
  split
  · next h =>
    simp only [forcedSeed, Bool.and_eq_true, decide_eq_true_eq] at h
    have := hp (len - 4) (by omega)
    cases hq : genDataPlain (len - 4) seed with
    | nil => rw [hq] at this; simp at this
    | cons a l => rw [hq] at this; simpa using this
  · exact hp len hl

/-! ### the `ByteArray` versions compute the same bytes -/

/-- the `ByteArray` register loop is `crcReg` on the remaining bytes -/
theorem crcRegBA_eq (ba : ByteArray) (i : Nat) (s : BitVec 32) :
    crcRegBA ba i s = crcReg s (ba.data.toList.drop i) := by
  fun_induction crcRegBA ba i s with
  | case1 i s h ih =>
    rw [ih]
    have hl : i < ba.data.toList.length := by rw [Array.length_toList]; exact h
    rw [List.drop_eq_getElem_cons hl]
    simp only [crcReg, List.foldl_cons]
    rfl
  | case2 i s h =>
    have hl : ba.data.toList.length ≤ i := by rw [Array.length_toList]; exact Nat.le_of_not_lt h
    rw [List.drop_eq_nil_of_le hl]; rfl

theorem crcForceBA_eq (p : ByteArray) : crcForceBA p = crcForce p.data.toList := by
  rw [crcForceBA, crcRegBA_eq, List.drop_zero]; rfl

theorem push_toList (a : ByteArray) (b : UInt8) : (a.push b).data.toList = a.data.toList ++ [b] := by
  simp [ByteArray.push]

theorem genLoopBA_toList (n : Nat) (x : UInt64) (a : ByteArray) :
    (genLoopBA n x a).data.toList = genLoop n x a.data.toList.reverse := by
  induction n generalizing x a with
  | zero => simp [genLoopBA, genLoop]
  | succ n ih =>
    simp only [genLoopBA, genLoop]
    rw [ih, push_toList, List.reverse_append]
    rfl

theorem genDataPlainBA_toList (cap len seed : Nat) :
    (genDataPlainBA cap len seed).data.toList = genDataPlain len seed := by
  unfold genDataPlainBA genDataPlain
  split
  · rfl
  · rw [genLoopBA_toList, push_toList]; rfl

theorem foldl_push_toList (l : List UInt8) (p : ByteArray) :
    (l.foldl ByteArray.push p).data.toList = p.data.toList ++ l := by
  induction l generalizing p with
  | nil => simp
  | cons b l ih => rw [List.foldl_cons, ih, push_toList]; simp

/-- the `ByteArray` generator produces the same bytes as `genData` -/
theorem genDataBA_toList (len seed : Nat) : (genDataBA len seed).data.toList = genData len seed := by
  unfold genDataBA genData
  split
  · simp only [foldl_push_toList, crcForceBA_eq, genDataPlainBA_toList]
  · exact genDataPlainBA_toList _ _ _

example : (genDataBA 1004 241).data.toList = genData 1004 241 := genDataBA_toList 1004 241

/-! ### concrete values (checked by `decide`) -/

set_option maxRecDepth 20000 in
example : backIdx 4 forceTarget [] = [84, 168, 59, 188] := by decide
set_option maxRecDepth 20000 in
example : crcForce [] = [171, 155, 224, 155] := by decide
example : crc32c ([] ++ crcForce []) = 0 := crc_force_zero []
set_option maxRecDepth 20000 in
example : crc32c [1, 2, 3, 181, 105, 208, 106] = 0 := by decide
/-- a concrete value obtained without running the search: by uniqueness -/
example : crcForce [1, 2, 3] = [181, 105, 208, 106] :=
  (crc_force_unique [1, 2, 3] [181, 105, 208, 106] rfl (by set_option maxRecDepth 20000 in decide)).symm
example : crc32c (genData 1004 241) = 0 := genData_crc_zero 1004 241 (by omega) (by omega)
example : crc32c (genData 8 240) = 0 := genData_crc_zero 8 240 (by omega) (by omega)
example : (genData 1004 241).length = 1004 := genData_length' 1004 241
example : crcReg 0x12345678#32 (forceRegTo 0xdeadbeef#32 0x12345678#32) = 0xdeadbeef#32 := crcReg_forceRegTo _ _
set_option maxRecDepth 20000 in
example : forceRegTo 0xdeadbeef#32 0x12345678#32 = [171, 232, 157, 134] := by decide
-- the generator itself, evaluated by `decide`: the payload of `w … 8 240`
set_option maxRecDepth 20000 in
example : genData 8 240 = [240, 82, 190, 29, 16, 189, 72, 12] := by decide
set_option maxRecDepth 20000 in
example : crc32c [240, 82, 190, 29, 16, 189, 72, 12] = 0 := by decide
/-- other seeds / short lengths are the plain stream -/
example : genData 10 7 = genDataPlain 10 7 := genData_plain 10 7 (by omega)
example : genData 7 240 = genDataPlain 7 240 := genData_plain 7 240 (by omega)
example : genData 100 250 = genDataPlain 100 250 := genData_plain 100 250 (by omega)

end Pearl
