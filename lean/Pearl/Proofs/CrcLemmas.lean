import Pearl.Model.Crc
/-
Lemmas about the CRC-32C register (copied from the checked trial file crc_trial.lean; the definitions
live in Pearl/Model/Crc.lean), and the byte-level bridge.
-/
namespace Pearl.Crc

theorem bit_xor (a b : Bool) (v : BitVec 32) : bit (a ^^ b) v = bit a v ^^^ bit b v := by
  cases a <;> cases b <;> simp [bit]

theorem A_add (x y : BitVec 32) : A (x ^^^ y) = A x ^^^ A y := by
  unfold A
  rw [BitVec.getLsbD_xor, bit_xor]
  rw [show (x ^^^ y) >>> 1 = x >>> 1 ^^^ y >>> 1 from by
    apply BitVec.eq_of_getLsbD_eq; intro i hi; simp]
  ac_rfl

theorem A_zero : A 0#32 = 0#32 := by decide

theorem shr_zero_of (d : BitVec 32) (h0 : d.getLsbD 0 = false) (h : d >>> 1 = 0#32) : d = 0#32 := by
  apply BitVec.eq_of_getLsbD_eq
  intro i hi
  cases i with
  | zero => simpa using h0
  | succ j =>
    have := congrArg (fun x => x.getLsbD j) h
    simp at this
    simp
    rw [Nat.add_comm] at this
    exact this

theorem A_ne_zero (d : BitVec 32) (h : d ≠ 0#32) : A d ≠ 0#32 := by
  unfold A
  by_cases hl : d.getLsbD 0
  · simp only [hl, bit, ↓reduceIte]
    intro h0
    have := congrArg (fun x => x.getLsbD 31) h0
    simp at this
    exact absurd this (by decide)
  · simp only [hl, bit]
    simp only [Bool.false_eq_true, ↓reduceIte, BitVec.xor_zero]
    intro h0
    exact h (shr_zero_of d (by simpa using hl) h0)


theorem Ai_add (n : Nat) (x y : BitVec 32) : Ai n (x ^^^ y) = Ai n x ^^^ Ai n y := by
  induction n generalizing x y with
  | zero => rfl
  | succ n ih => simp only [Ai, A_add, ih]

theorem Ai_ne_zero (n : Nat) (d : BitVec 32) (h : d ≠ 0#32) : Ai n d ≠ 0#32 := by
  induction n generalizing d with
  | zero => simpa [Ai]
  | succ n ih => simp only [Ai]; exact ih _ (A_ne_zero d h)

theorem Ai_A (n : Nat) (s : BitVec 32) : Ai n (A s) = A (Ai n s) := by
  induction n generalizing s with
  | zero => rfl
  | succ n ih => simp only [Ai, ih]

theorem Ai32_e31 : Ai 32 e31 = A e0 := by decide

/-- direct form = augmented form advanced by 32 zero bits -/
theorem runD_eq (sa : BitVec 32) (w : List Bool) : runD (Ai 32 sa) w = Ai 32 (runA sa w) := by
  induction w generalizing sa with
  | nil => rfl
  | cons b w ih =>
    simp only [runD, runA, List.foldl_cons] at *
    have : stepD (Ai 32 sa) b = Ai 32 (stepA sa b) := by
      unfold stepD stepA
      rw [A_add, Ai_add, Ai_A]
      cases b
      · simp [bit, A_zero, show Ai 32 0#32 = 0#32 from by decide]
      · simp only [bit, ↓reduceIte, Ai32_e31]
    rw [this]; exact ih _

/-- additivity of the direct form over pointwise-xored inputs of equal length -/
theorem runD_add (a b : BitVec 32) (u v : List Bool) (h : u.length = v.length) :
    runD (a ^^^ b) (List.zipWith (· ^^ ·) u v) = runD a u ^^^ runD b v := by
  induction u generalizing a b v with
  | nil => cases v <;> simp_all [runD]
  | cons x u ih =>
    cases v with
    | nil => simp at h
    | cons y v =>
      simp only [List.zipWith_cons_cons, runD, List.foldl_cons] at *
      have : stepD (a ^^^ b) (x ^^ y) = stepD a x ^^^ stepD b y := by
        unfold stepD; rw [bit_xor, ← A_add]; congr 1; ac_rfl
      rw [this]; exact ih _ _ _ (by simpa using h)


theorem e31_low_fin : ∀ i : Fin 31, e31.getLsbD i.val = false := by decide
theorem e31_low (i : Nat) (h : i < 31) : e31.getLsbD i = false := e31_low_fin ⟨i, h⟩


theorem LowAt_ne_zero {s : BitVec 32} {j : Nat} (h : LowAt s j) : s ≠ 0#32 := by
  intro h0; have := h.1; rw [h0] at this; simp at this

theorem stepA_low (s : BitVec 32) (b : Bool) (j : Nat) (hj : j + 1 < 32) (h : LowAt s (j+1)) :
    LowAt (stepA s b) j := by
  have hl : s.getLsbD 0 = false := h.2 0 (by omega)
  unfold stepA A
  simp only [hl, bit, Bool.false_eq_true, ↓reduceIte, BitVec.xor_zero]
  constructor
  · have : (if b = true then e31 else 0#32).getLsbD j = false := by
      cases b
      · simp
      · simp only [↓reduceIte]
        exact e31_low j (by omega)
    simp only [BitVec.getLsbD_xor, this, Bool.xor_false]
    simp only [BitVec.getLsbD_ushiftRight]
    rw [Nat.add_comm]; exact h.1
  · intro i hi
    have : (if b = true then e31 else 0#32).getLsbD i = false := by
      cases b
      · simp
      · simp only [↓reduceIte]
        exact e31_low i (by omega)
    simp only [BitVec.getLsbD_xor, this, Bool.xor_false, BitVec.getLsbD_ushiftRight]
    rw [Nat.add_comm]; exact h.2 (i+1) (by omega)

theorem runA_low (s : BitVec 32) (w : List Bool) (j : Nat) (hj : j < 32) (hw : w.length ≤ j)
    (h : LowAt s j) : LowAt (runA s w) (j - w.length) := by
  induction w generalizing s j with
  | nil => simpa [runA] using h
  | cons b w ih =>
    simp only [List.length_cons] at hw
    obtain ⟨j', rfl⟩ : ∃ j', j = j' + 1 := ⟨j - 1, by omega⟩
    have := ih (stepA s b) j' (by omega) (by omega) (stepA_low s b j' hj h)
    simp only [runA, List.foldl_cons, List.length_cons] at *
    rw [show j' + 1 - (w.length + 1) = j' - w.length from by omega]
    exact this

theorem stepA_zero_false : stepA 0#32 false = 0#32 := by decide
theorem stepA_zero_true : LowAt (stepA 0#32 true) 31 := by
  have : stepA 0#32 true = e31 := by decide
  rw [this]
  exact ⟨by decide, fun i hi => e31_low i hi⟩

/-- a non-zero difference window of at most 32 bits leaves the augmented register non-zero -/
theorem runA_window (w : List Bool) (hlen : w.length ≤ 32) (hne : true ∈ w) : runA 0#32 w ≠ 0#32 := by
  induction w with
  | nil => simp at hne
  | cons b w ih =>
    simp only [runA, List.foldl_cons]
    cases b
    · rw [stepA_zero_false]
      exact ih (by simp at hlen; omega) (by simpa using hne)
    · have := runA_low (stepA 0#32 true) w 31 (by omega) (by simp at hlen; omega) stepA_zero_true
      exact LowAt_ne_zero this

theorem Ai32_zero : Ai 32 0#32 = 0#32 := by decide

/-- MAIN: two bit strings that agree outside a window of ≤ 32 bits and differ inside it
    leave different CRC registers (for every start value, every prefix, every suffix). -/
theorem crc_window_bits (init : BitVec 32) (p w1 w2 sfx : List Bool)
    (hl : w1.length = w2.length) (h32 : w1.length ≤ 32) (hne : w1 ≠ w2) :
    runD init (p ++ w1 ++ sfx) ≠ runD init (p ++ w2 ++ sfx) := by
  simp only [runD, List.foldl_append]
  generalize List.foldl stepD init p = s0
  change runD (runD s0 w1) sfx ≠ runD (runD s0 w2) sfx
  -- difference after the window
  have hd : runD s0 w1 ^^^ runD s0 w2 = runD 0#32 (List.zipWith (· ^^ ·) w1 w2) := by
    rw [← runD_add s0 s0 w1 w2 hl]; simp
  have hx : true ∈ List.zipWith (· ^^ ·) w1 w2 := by
    clear hd h32
    induction w1 generalizing w2 with
    | nil => cases w2 <;> simp_all
    | cons a u ih =>
      cases w2 with
      | nil => simp at hl
      | cons b v =>
        simp only [List.zipWith_cons_cons, List.mem_cons]
        by_cases hab : a = b
        · subst hab
          right; exact ih v (by simpa using hl) (by intro h; exact hne (by rw [h]))
        · left; cases a <;> cases b <;> simp_all
  have hwin : runD 0#32 (List.zipWith (· ^^ ·) w1 w2) ≠ 0#32 := by
    have := runD_eq 0#32 (List.zipWith (· ^^ ·) w1 w2)
    rw [Ai32_zero] at this
    rw [this]
    apply Ai_ne_zero
    apply runA_window _ _ hx
    simp [List.length_zipWith, hl]; omega
  -- the suffix preserves a non-zero difference
  have hs : runD (runD s0 w1) sfx ^^^ runD (runD s0 w2) sfx
      = runD (runD s0 w1 ^^^ runD s0 w2) (List.zipWith (· ^^ ·) sfx sfx) := by
    rw [runD_add _ _ sfx sfx rfl]
  have hz : ∀ (d : BitVec 32) (l : List Bool), d ≠ 0#32 → runD d (List.zipWith (· ^^ ·) l l) ≠ 0#32 := by
    intro d l hd0
    induction l generalizing d with
    | nil => simpa [runD]
    | cons x l ih =>
      simp only [List.zipWith_cons_cons, Bool.xor_self, runD, List.foldl_cons]
      apply ih
      unfold stepD; simp only [bit, Bool.false_eq_true, ↓reduceIte, BitVec.xor_zero]
      exact A_ne_zero d hd0
  intro heq
  have : runD (runD s0 w1) sfx ^^^ runD (runD s0 w2) sfx = 0#32 := by rw [heq]; simp
  rw [hs, hd] at this
  exact hz _ sfx hwin this

/-! ### byte-level bridge -/

theorem byteBits_length (b : UInt8) : (byteBits b).length = 8 := rfl

theorem byteBits_inj {a b : UInt8} (h : byteBits a = byteBits b) : a = b := by
  apply UInt8.toBitVec_inj.mp
  apply BitVec.eq_of_getLsbD_eq
  intro i hi
  simp only [byteBits, List.cons.injEq, and_true] at h
  obtain ⟨h0, h1, h2, h3, h4, h5, h6, h7⟩ := h
  have : i = 0 ∨ i = 1 ∨ i = 2 ∨ i = 3 ∨ i = 4 ∨ i = 5 ∨ i = 6 ∨ i = 7 := by omega
  rcases this with rfl | rfl | rfl | rfl | rfl | rfl | rfl | rfl <;> assumption

theorem bitsOf_nil : bitsOf [] = [] := rfl
theorem bitsOf_cons (b : UInt8) (l : List UInt8) : bitsOf (b :: l) = byteBits b ++ bitsOf l := by
  simp [bitsOf]
theorem bitsOf_append (a b : List UInt8) : bitsOf (a ++ b) = bitsOf a ++ bitsOf b := by
  simp [bitsOf]

theorem bitsOf_length (l : List UInt8) : (bitsOf l).length = 8 * l.length := by
  induction l with
  | nil => rfl
  | cons b l ih => rw [bitsOf_cons, List.length_append, ih, byteBits_length, List.length_cons]; omega

theorem bitsOf_inj {a b : List UInt8} (hl : a.length = b.length) (h : bitsOf a = bitsOf b) : a = b := by
  induction a generalizing b with
  | nil => cases b with
    | nil => rfl
    | cons _ _ => simp at hl
  | cons x a ih =>
    cases b with
    | nil => simp at hl
    | cons y b =>
      rw [bitsOf_cons, bitsOf_cons] at h
      have h' := List.append_inj h (by simp [byteBits_length])
      rw [byteBits_inj h'.1, ih (by simpa using hl) h'.2]

theorem crcReg_eq_runD (s : BitVec 32) (l : List UInt8) : crcReg s l = runD s (bitsOf l) := by
  induction l generalizing s with
  | nil => rfl
  | cons b l ih =>
    rw [bitsOf_cons]
    simp only [crcReg, List.foldl_cons, runD, List.foldl_append] at *
    exact ih _

end Pearl.Crc

namespace Pearl
open Crc

theorem crc32c_eq (l : List UInt8) : crc32c l = UInt32.ofBitVec (runD init (bitsOf l) ^^^ xorout) := by
  rw [crc32c, crcReg_eq_runD]

/-- different registers give different checksums -/
theorem crc32c_ne_of_runD_ne {a b : List UInt8} (h : runD init (bitsOf a) ≠ runD init (bitsOf b)) :
    crc32c a ≠ crc32c b := by
  rw [crc32c_eq, crc32c_eq]
  intro he
  have := congrArg UInt32.toBitVec he
  apply h
  have h2 := congrArg (· ^^^ xorout) this
  simpa [BitVec.xor_assoc] using h2

/-- byte strings equal outside a window of at most 4 bytes, different inside: different checksums -/
theorem crc32c_window_split (p w1 w2 s : List UInt8) (hl : w1.length = w2.length)
    (h4 : w1.length ≤ 4) (hne : w1 ≠ w2) : crc32c (p ++ w1 ++ s) ≠ crc32c (p ++ w2 ++ s) := by
  apply crc32c_ne_of_runD_ne
  simp only [bitsOf_append]
  apply crc_window_bits
  · simp [bitsOf_length, hl]
  · rw [bitsOf_length]; omega
  · intro h; exact hne (bitsOf_inj hl h)

/-- positional form: equal length, equal outside the 4 positions `i .. i+3`, not equal -/
theorem crc32c_window_pos (a b : List UInt8) (hlen : a.length = b.length) (i : Nat)
    (hout : ∀ j, (j < i ∨ i + 4 ≤ j) → a[j]? = b[j]?) (hne : a ≠ b) : crc32c a ≠ crc32c b := by
  have ha : a = a.take i ++ (a.drop i).take 4 ++ (a.drop i).drop 4 := by
    rw [List.append_assoc, List.take_append_drop, List.take_append_drop]
  have hb : b = b.take i ++ (b.drop i).take 4 ++ (b.drop i).drop 4 := by
    rw [List.append_assoc, List.take_append_drop, List.take_append_drop]
  have hp : a.take i = b.take i := by
    apply List.ext_getElem?
    intro j
    rw [List.getElem?_take, List.getElem?_take]
    split
    · next hj => exact hout j (Or.inl hj)
    · rfl
  have hs : (a.drop i).drop 4 = (b.drop i).drop 4 := by
    apply List.ext_getElem?
    intro j
    simp only [List.getElem?_drop]
    exact hout _ (Or.inr (by omega))
  rw [ha, hb, hp, hs]
  apply crc32c_window_split
  · simp [hlen]
  · simp; omega
  · intro hw
    apply hne
    rw [ha, hb, hp, hs, hw]

end Pearl
