import Pearl.Proofs.EndToEndIndex
import Pearl.Props.C05
import Pearl.Props.C09
import Pearl.Props.C10
/-
End-to-end composition, part 2: one blob.  The three physical components of a reachable blob are functions
of its record list (`BlobInv`): the file is the L5 image of the records, the index is `indexOf` of the headers
the writes pushed (held in memory, or as the L4 file image `build … (indexOf …)`), the filter is the fold of
`Combined.add` over the keys.  From this: the per-blob answer of the concrete read path is the L2 answer
(`indexLatest_rr`, through C09 for an on-disk index and C05 for `Entry::load`), `check_filter` has no false
negative (C10), and the blob operations keep the invariant and commute with the L2 blob operations.
-/
namespace Pearl.E2E
open Pearl Pearl.BPTree

/-! ### the records of a blob at byte level -/

/-- the byte-level record `Storage` builds for an L2 record -/
def recOf (klen : Nat) (r : Rec) : Record := recordOf klen r (dataOf r.data)

/-- the L2 records with their data bytes -/
def full (recs : List Rec) : List (Rec × List UInt8) := recs.map (fun r => (r, dataOf r.data))

/-- the header `Blob::write` pushes into the index for `r` written at `off` -/
def hdrOf (klen : Nat) (r : Rec) (off : Nat) : RecHeader := (recOf klen r).header.final off

/-- the records with the offsets they are written at, starting at `off` -/
def withOff (klen : Nat) : Nat → List Rec → List (Rec × Nat)
  | _, [] => []
  | off, r :: rs => (r, off) :: withOff klen (off + ((recOf klen r).image off).length) rs

theorem recordsOf_full (klen : Nat) (recs : List Rec) : recordsOf klen (full recs) = recs.map (recOf klen) := by
  simp [recordsOf, full, recOf, List.map_map, Function.comp_def]

theorem withOff_fst (klen : Nat) : ∀ (recs : List Rec) (off : Nat), (withOff klen off recs).map (·.1) = recs
  | [], _ => rfl
  | r :: rs, off => by simp [withOff, withOff_fst klen rs]

theorem scanOf_withOff (klen : Nat) : ∀ (recs : List Rec) (off : Nat),
    (scanOf off (recs.map (recOf klen))).map (·.2) = (withOff klen off recs).map (fun p => hdrOf klen p.1 p.2)
  | [], _ => rfl
  | r :: rs, off => by
    simp only [List.map_cons, scanOf, withOff]
    rw [scanOf_withOff klen rs]
    rfl

theorem serBlobHeader_length : (serBlobHeader).length = blobHeaderSize := by
  simp [serBlobHeader, blobHeaderSize]

theorem blobHeaders_full (klen : Nat) (recs : List Rec) :
    blobHeaders klen (full recs) = (withOff klen blobHeaderSize recs).map (fun p => hdrOf klen p.1 p.2) := by
  unfold blobHeaders
  rw [writtenHeaders_eq, recordsOf_full, serBlobHeader_length, scanOf_withOff]

theorem appendRecords_snoc : ∀ (Rs : List Record) (f : List UInt8) (R : Record),
    appendRecords f (Rs ++ [R]) = appendRecord (appendRecords f Rs) R
  | [], _, _ => rfl
  | R' :: Rs, f, R => by simp only [List.cons_append, appendRecords]; exact appendRecords_snoc Rs _ R

theorem writtenHeaders_snoc : ∀ (Rs : List Record) (f : List UInt8) (R : Record),
    writtenHeaders f (Rs ++ [R]) = writtenHeaders f Rs ++ [writtenHeader R (appendRecords f Rs).length]
  | [], _, _ => rfl
  | R' :: Rs, f, R => by
    simp only [List.cons_append, writtenHeaders, appendRecords]
    rw [writtenHeaders_snoc Rs]

theorem full_snoc (recs : List Rec) (r : Rec) : full (recs ++ [r]) = full recs ++ [(r, dataOf r.data)] := by
  simp [full]

theorem blobBytes_snoc (klen : Nat) (recs : List Rec) (r : Rec) :
    blobBytes klen (full (recs ++ [r])) = appendRecord (blobBytes klen (full recs)) (recOf klen r) := by
  unfold blobBytes
  rw [recordsOf_full, recordsOf_full, List.map_append, List.map_singleton, appendRecords_snoc]

theorem blobHeaders_snoc (klen : Nat) (recs : List Rec) (r : Rec) :
    blobHeaders klen (full (recs ++ [r])) =
      blobHeaders klen (full recs) ++ [writtenHeader (recOf klen r) (blobBytes klen (full recs)).length] := by
  unfold blobHeaders blobBytes
  rw [recordsOf_full, recordsOf_full, List.map_append, List.map_singleton, writtenHeaders_snoc]

theorem blobBytes_nil (klen : Nat) : blobBytes klen (full []) = serBlobHeader := rfl

theorem blobBytes_eq (klen : Nat) (recs : List Rec) :
    blobBytes klen (full recs) = serBlobHeader ++ tailOf blobHeaderSize (recs.map (recOf klen)) := by
  unfold blobBytes
  rw [appendRecords_eq, recordsOf_full, serBlobHeader_length]

theorem blobBytes_length_gt (klen : Nat) (recs : List Rec) (hne : recs ≠ []) :
    blobHeaderSize < (blobBytes klen (full recs)).length := by
  rw [blobBytes_eq, List.length_append, serBlobHeader_length]
  have := tailOf_length_ge blobHeaderSize (recs.map (recOf klen))
  have : 0 < recs.length := List.length_pos_iff.mpr hne
  simp only [List.length_map] at *
  omega

/-! ### fields of the pushed header -/

theorem recOf_key (klen : Nat) (r : Rec) : (recOf klen r).header.key = keyBytes klen r.key := by
  unfold recOf recordOf
  split <;> rfl

theorem hdrOf_key (klen : Nat) (r : Rec) (off : Nat) : hdrKey (hdrOf klen r off) = r.key % 256 ^ klen := by
  unfold hdrKey hdrOf RecHeader.final
  rw [finalWith_key, recOf_key, keyBytes, List.reverse_reverse, fromLe_leBytes]

theorem hdrOf_key_of_lt (klen : Nat) (r : Rec) (off : Nat) (h : r.key < 256 ^ klen) :
    hdrKey (hdrOf klen r off) = r.key := by
  rw [hdrOf_key, Nat.mod_eq_of_lt h]

theorem hdrOf_timestamp (klen : Nat) (r : Rec) (off : Nat) : (hdrOf klen r off).timestamp = r.ts := by
  unfold hdrOf recOf
  exact recordOf_timestamp klen r _

theorem hdrOf_isDeleted (klen : Nat) (r : Rec) (off : Nat) : (hdrOf klen r off).isDeleted = r.del := by
  unfold hdrOf recOf recordOf
  cases hd : r.del with
  | true =>
    simp [RecHeader.isDeleted, RecHeader.final, RecHeader.finalWith, Record.deleted, Record.create,
      RecHeader.new, markDeleted, RecHeader.updateChecksum, DELETE_FLAG]
  | false =>
    simp [RecHeader.isDeleted, RecHeader.final, RecHeader.finalWith, Record.create,
      RecHeader.new, DELETE_FLAG]

theorem writtenHeader_recOf (klen : Nat) (r : Rec) (off : Nat) :
    writtenHeader (recOf klen r) off = hdrOf klen r off := by
  rw [writtenHeader_eq]; rfl

/-! ### the vector of a key, with offsets -/

/-- the sorted vector of key `k` as (record, offset) pairs: its first projection is the L2 vector `vecOf`,
    its image under `hdrOf` the vector of the concrete index -/
def ovecOf (klen : Nat) (recs : List Rec) (k : Key) : List (Rec × Nat) :=
  ((withOff klen blobHeaderSize recs).filter (fun p => p.1.key == k)).foldl (ins (fun p => p.1.ts)) []

theorem ovecOf_fst (klen : Nat) (recs : List Rec) (k : Key) : (ovecOf klen recs k).map (·.1) = vecOf recs k := by
  unfold ovecOf
  have := foldl_ins_map (Prod.fst : Rec × Nat → Rec) Rec.ts
    ((withOff klen blobHeaderSize recs).filter (fun p => p.1.key == k)) []
  try simp only [List.map_nil] at this
  rw [this, vecOf_eq_foldl_ins]
  congr 1
  have h2 : ((withOff klen blobHeaderSize recs).filter (fun p => p.1.key == k)).map Prod.fst
      = ((withOff klen blobHeaderSize recs).map Prod.fst).filter (fun r => r.key == k) := by
    rw [List.filter_map]; rfl
  rw [h2, withOff_fst]

theorem mem_withOff_fst {klen : Nat} {recs : List Rec} {off : Nat} {p : Rec × Nat}
    (hp : p ∈ withOff klen off recs) : p.1 ∈ recs := by
  have : p.1 ∈ (withOff klen off recs).map (·.1) := List.mem_map.mpr ⟨p, hp, rfl⟩
  rwa [withOff_fst] at this

theorem ovecOf_hdr (klen : Nat) (recs : List Rec) (k : Key) (hk : ∀ r ∈ recs, r.key < 256 ^ klen) :
    (ovecOf klen recs k).map (fun p => hdrOf klen p.1 p.2) = hvecOf (blobHeaders klen (full recs)) k := by
  unfold ovecOf hvecOf
  have hfun : (fun p : Rec × Nat => p.1.ts) = (fun p => RecHeader.timestamp (hdrOf klen p.1 p.2)) := by
    funext p; rw [hdrOf_timestamp]
  rw [hfun]
  have := foldl_ins_map (fun p : Rec × Nat => hdrOf klen p.1 p.2) RecHeader.timestamp
    ((withOff klen blobHeaderSize recs).filter (fun p => p.1.key == k)) []
  try simp only [List.map_nil] at this
  rw [this, blobHeaders_full]
  congr 1
  rw [List.filter_map]
  congr 1
  apply List.filter_congr
  intro p hp
  simp only [Function.comp_apply]
  rw [hdrOf_key_of_lt klen p.1 p.2 (hk _ (mem_withOff_fst hp))]

theorem mem_ovecOf {klen : Nat} {recs : List Rec} {k : Key} {p : Rec × Nat} (hp : p ∈ ovecOf klen recs k) :
    p ∈ withOff klen blobHeaderSize recs ∧ p.1.key = k := by
  unfold ovecOf at hp
  have := (foldl_ins_perm (fun p : Rec × Nat => p.1.ts)
    ((withOff klen blobHeaderSize recs).filter (fun p => p.1.key == k)) []).mem_iff.mp hp
  rw [List.nil_append, List.mem_filter, beq_iff_eq] at this
  exact this

/-! ### `Entry::load` and the scan on the file of a blob (C05) -/

theorem load_of_mem (klen : Nat) (recs : List Rec) (hlen : (blobBytes klen (full recs)).length < 2 ^ 64)
    (p : Rec × Nat) (hp : p ∈ withOff klen blobHeaderSize recs) :
    entryLoad (blobBytes klen (full recs)) (hdrOf klen p.1 p.2)
      = .ok (serMeta p.1.mt, if p.1.del then [] else dataOf p.1.data) := by
  obtain ⟨i, hi, hpi⟩ := List.getElem_of_mem hp
  have h1 : (blobHeaders klen (full recs))[i]? = some (hdrOf klen p.1 p.2) := by
    rw [blobHeaders_full, List.getElem?_map, List.getElem?_eq_getElem hi, hpi]; rfl
  have h2 : (full recs)[i]? = some (p.1, dataOf p.1.data) := by
    have hr : recs[i]? = some p.1 := by
      have : ((withOff klen blobHeaderSize recs).map (·.1))[i]? = some p.1 := by
        rw [List.getElem?_map, List.getElem?_eq_getElem hi, hpi]; rfl
      rwa [withOff_fst] at this
    simp [full, List.getElem?_map, hr]
  exact (C05.load_roundtrip klen (full recs) hlen i _ p.1 _ h1 h2).1

theorem scan_blob (klen : Nat) (v : Bool) (recs : List Rec) (hne : recs ≠ [])
    (hlen : (blobBytes klen (full recs)).length < 2 ^ 64) (hts : ∀ r ∈ recs, r.ts < 2 ^ 64) :
    rawRecordsLoad klen v (blobBytes klen (full recs)) = .ok (blobHeaders klen (full recs)) := by
  apply C05.load_roundtrip_scan_partial klen v (full recs) _ hlen
  · intro x hx
    simp only [full, List.mem_map] at hx
    obtain ⟨r, hr, rfl⟩ := hx
    exact hts r hr
  · simpa [full] using hne

theorem blobHeader_blob (klen : Nat) (recs : List Rec) :
    blobHeaderFromFile (blobBytes klen (full recs)) = .ok BlobHeader.new := by
  rw [blobBytes_eq]
  exact C05.blob_header_roundtrip _

/-! ### configuration side conditions -/

/-- the explicit range side-conditions of the layer theorems, on the configuration: key length within the
    fan-out bound of the B+tree serializer (C09, `valid_real`), a non-zero group size (C10, `push_total`), and
    bloom parameters that fit their `u64` wire fields (C10, `filters_roundtrip`) -/
structure Cfg.OK (cfg : Cfg) : Prop where
  klen : cfg.klen ≤ 2032
  group : 0 < cfg.group
  bloom : ∀ p, cfg.bloom = some p → (Bloom.new p.1 p.2).Bounded

/-! ### the filter of a blob -/

/-- the filter after `filter.add(key)` for every record in order -/
def filterOf (cfg : Cfg) (recs : List Rec) : Combined :=
  (recs.map (·.key)).foldl (Combined.add cfg.h) (newFilter cfg)

theorem filterOf_snoc (cfg : Cfg) (recs : List Rec) (r : Rec) :
    filterOf cfg (recs ++ [r]) = (filterOf cfg recs).add cfg.h r.key := by
  simp [filterOf, List.foldl_append]

theorem foldl_add_fblob_inv (h : Nat → Key → Nat) (klen : Nat) : ∀ (ks : List Key) (f : Combined) (ks0 : List Key),
    FBlob.Inv h klen { keys := ks0, filter := f, file := none } →
    FBlob.Inv h klen { keys := ks0 ++ ks, filter := ks.foldl (Combined.add h) f, file := none }
  | [], f, ks0, hi => by simpa using hi
  | k :: ks, f, ks0, hi => by
    have h1 : FBlob.Inv h klen { keys := ks0 ++ [k], filter := f.add h k, file := none } :=
      FBlob.push_Inv (b := { keys := ks0, filter := f, file := none }) k hi rfl
    have := foldl_add_fblob_inv h klen ks (f.add h k) (ks0 ++ [k]) h1
    simpa [List.append_assoc] using this

theorem newFilter_fblob_inv (cfg : Cfg) :
    FBlob.Inv cfg.h cfg.klen { keys := [], filter := newFilter cfg, file := none } := by
  apply FBlob.new_Inv
  intro bl hbl
  simp only [Option.map_eq_some_iff] at hbl
  obtain ⟨p, _, rfl⟩ := hbl
  exact ⟨Bloom.new_WF _ _, rfl⟩

theorem filterOf_fblob_inv (cfg : Cfg) (recs : List Rec) :
    FBlob.Inv cfg.h cfg.klen { keys := recs.map (·.key), filter := filterOf cfg recs, file := none } := by
  have := foldl_add_fblob_inv cfg.h cfg.klen (recs.map (·.key)) (newFilter cfg) [] (newFilter_fblob_inv cfg)
  simpa [filterOf] using this

theorem filterOf_facts (cfg : Cfg) (recs : List Rec) :
    (filterOf cfg recs).WF ∧
    (∀ r ∈ recs, (filterOf cfg recs).containsFast cfg.h r.key ≠ .notContains) ∧
    (∀ bl, (filterOf cfg recs).bloom = some bl → bl.inner.isSome) := by
  have h := filterOf_fblob_inv cfg recs
  unfold FBlob.Inv at h
  simp only [] at h
  exact ⟨h.1, fun r hr => h.2.1 r.key (List.mem_map.mpr ⟨r, hr, rfl⟩), h.2.2⟩

theorem Bloom.add_bounded (h : Nat → Key → Nat) (b : Bloom) (k : Key) (hb : b.Bounded) : (b.add h k).Bounded := by
  unfold Bloom.add
  cases b.inner with
  | none => exact hb
  | some v =>
    simp only []
    split
    · exact hb
    · exact hb

theorem Range.add_lt (r : Range) (k n : Nat) (hmin : r.min < n) (hmax : r.max < n) (hk : k < n) :
    (r.add k).min < n ∧ (r.add k).max < n := by
  unfold Range.add
  split
  · exact ⟨hk, hk⟩
  · split
    · exact ⟨hk, hmax⟩
    · split
      · exact ⟨hmin, hk⟩
      · exact ⟨hmin, hmax⟩

theorem Combined.add_sized (h : Nat → Key → Nat) (klen : Nat) (c : Combined) (k : Key) (hc : FBlob.Sized klen c)
    (hk : k < 256 ^ klen) : FBlob.Sized klen (c.add h k) := by
  obtain ⟨h1, h2, h3, h4⟩ := hc
  have hr := Range.add_lt c.range k _ h3 h4 hk
  refine ⟨?_, h2, hr.1, hr.2⟩
  intro bl hbl
  simp only [Combined.add, Option.map_eq_some_iff] at hbl
  obtain ⟨b0, hb0, rfl⟩ := hbl
  exact Bloom.add_bounded h b0 k (h1 b0 hb0)

theorem newFilter_sized (cfg : Cfg) (hcfg : cfg.OK) : FBlob.Sized cfg.klen (newFilter cfg) := by
  refine ⟨?_, ?_, Nat.pow_pos (by decide), Nat.pow_pos (by decide)⟩
  · intro bl hbl
    simp only [newFilter, Option.map_eq_some_iff] at hbl
    obtain ⟨p, hp, rfl⟩ := hbl
    exact hcfg.bloom p hp
  · have := hcfg.klen
    omega

theorem foldl_add_sized (h : Nat → Key → Nat) (klen : Nat) : ∀ (ks : List Key) (f : Combined),
    FBlob.Sized klen f → (∀ k ∈ ks, k < 256 ^ klen) → FBlob.Sized klen (ks.foldl (Combined.add h) f)
  | [], _, hf, _ => hf
  | k :: ks, f, hf, hk =>
    foldl_add_sized h klen ks _ (Combined.add_sized h klen f k hf (hk k (by simp)))
      (fun x hx => hk x (by simp [hx]))

theorem filterOf_sized (cfg : Cfg) (hcfg : cfg.OK) (recs : List Rec) (hk : ∀ r ∈ recs, r.key < 256 ^ cfg.klen) :
    FBlob.Sized cfg.klen (filterOf cfg recs) := by
  apply foldl_add_sized _ _ _ _ (newFilter_sized cfg hcfg)
  intro k hk'
  obtain ⟨r, hr, rfl⟩ := List.mem_map.mp hk'
  exact hk r hr

theorem foldl_add_bloom_isSome (h : Nat → Key → Nat) : ∀ (ks : List Key) (f : Combined),
    (ks.foldl (Combined.add h) f).bloom.isSome = f.bloom.isSome
  | [], _ => rfl
  | k :: ks, f => by
    simp only [List.foldl_cons]
    rw [foldl_add_bloom_isSome h ks]
    simp [Combined.add]

theorem filterOf_bloom_isSome (cfg : Cfg) (recs : List Rec) :
    (filterOf cfg recs).bloom.isSome = cfg.bloomIsOn := by
  unfold filterOf
  rw [foldl_add_bloom_isSome]
  simp [newFilter, Cfg.bloomIsOn]

/-- `serialize_filters` cannot fail while the bloom buffer is resident -/
theorem serializeFilters_isSome (klen : Nat) (c : Combined) (hres : ∀ bl, c.bloom = some bl → bl.inner.isSome) :
    ∃ mo, serializeFilters klen c = some mo := by
  unfold serializeFilters
  have : ∃ raw, (c.bloom.getD Bloom.empty).toRaw = some raw := by
    cases hb : c.bloom with
    | none => exact ⟨_, rfl⟩
    | some bl =>
      have := hres bl hb
      cases hi : bl.inner with
      | none => rw [hi] at this; cases this
      | some v => simp [Bloom.toRaw, Bloom.save, hi]
  obtain ⟨raw, hraw⟩ := this
  simp only [hraw]
  exact ⟨_, rfl⟩

/-- `deserialize_filters(serialize_filters())` and the `bloom_is_on` switch give the filter back (C10
    `filters_roundtrip`) -/
theorem combinedOfFile_serialize (cfg : Cfg) (c : Combined) (metaBuf : List Nat) (off : Nat) (hwf : c.WF)
    (hsz : FBlob.Sized cfg.klen c) (hon : c.bloom.isSome = cfg.bloomIsOn)
    (hs : serializeFilters cfg.klen c = some (metaBuf, off)) :
    combinedOfFile cfg.bloomIsOn metaBuf = some (c, off) := by
  unfold combinedOfFile
  rw [C10.filters_roundtrip cfg.klen c metaBuf off hwf hsz hs]
  simp only [Option.map_some, Option.some.injEq, Prod.mk.injEq, and_true]
  cases c with
  | mk bloom range =>
    simp only at hon
    cases bloom with
    | none =>
      simp only [Option.isSome_none] at hon
      simp [← hon]
    | some bl =>
      simp only [Option.isSome_some] at hon
      simp [← hon]

/-! ### the invariant of one blob -/

/-- the headers the writes pushed into the index of a blob with these records -/
def hdrsOf (cfg : Cfg) (recs : List Rec) : List RecHeader := blobHeaders cfg.klen (full recs)

theorem withOff_length (klen : Nat) : ∀ (recs : List Rec) (off : Nat), (withOff klen off recs).length = recs.length
  | [], _ => rfl
  | r :: rs, off => by simp [withOff, withOff_length klen rs]

theorem hdrsOf_length (cfg : Cfg) (recs : List Rec) : (hdrsOf cfg recs).length = recs.length := by
  unfold hdrsOf
  rw [blobHeaders_full, List.length_map, withOff_length]

theorem hdrsOf_eq_nil_iff (cfg : Cfg) (recs : List Rec) : hdrsOf cfg recs = [] ↔ recs = [] := by
  rw [← List.length_eq_zero_iff, hdrsOf_length, List.length_eq_zero_iff]

theorem hdrsOf_snoc (cfg : Cfg) (recs : List Rec) (r : Rec) :
    hdrsOf cfg (recs ++ [r]) =
      hdrsOf cfg recs ++ [hdrOf cfg.klen r (blobBytes cfg.klen (full recs)).length] := by
  unfold hdrsOf
  rw [blobHeaders_snoc, writtenHeader_recOf]

theorem hdrsOf_keys (cfg : Cfg) (recs : List Rec) (hk : ∀ r ∈ recs, r.key < 256 ^ cfg.klen) :
    (hdrsOf cfg recs).map hdrKey = recs.map (·.key) := by
  unfold hdrsOf
  rw [blobHeaders_full, List.map_map]
  have : recs.map (·.key) = ((withOff cfg.klen blobHeaderSize recs).map (·.1)).map (·.key) := by
    rw [withOff_fst]
  rw [this, List.map_map]
  apply List.map_congr_left
  intro p hp
  simp only [Function.comp_apply]
  exact hdrOf_key_of_lt _ _ _ (hk _ (mem_withOff_fst hp))

/-- the index component: the map of the pushed headers, in memory or as the file image built from it together
    with the serialized filter -/
def IndexInv (cfg : Cfg) (b : CBlob) : Prop :=
  match b.index with
  | .mem m => m = indexOf (hdrsOf cfg b.ghost)
  | .disk f metaBuf off =>
    b.ghost ≠ [] ∧ serializeFilters cfg.klen b.filter = some (metaBuf, off) ∧
      f = build (Params.real cfg.klen) metaBuf.length (indexOf (hdrsOf cfg b.ghost))

/-- every physical component of the blob is the image of its record list (no size condition) -/
structure BlobInv0 (cfg : Cfg) (b : CBlob) : Prop where
  key : ∀ r ∈ b.ghost, r.key < 256 ^ cfg.klen
  ts : ∀ r ∈ b.ghost, r.ts < 2 ^ 64
  file : b.file = blobBytes cfg.klen (full b.ghost)
  filter : b.filter = filterOf cfg b.ghost
  index : IndexInv cfg b

/-- … and the file has not outgrown its `u64` offsets -/
structure BlobInv (cfg : Cfg) (b : CBlob) : Prop extends BlobInv0 cfg b where
  size : b.file.length < 2 ^ 64

/-- the part of a blob the filter theorems of C10 talk about -/
def CBlob.toF (b : CBlob) : FBlob :=
  { keys := b.ghost.map (·.key)
    filter := b.filter
    file := match b.index with
      | .mem _ => none
      | .disk _ metaBuf off => some (metaBuf, off) }

theorem BlobInv.toF_inv {cfg : Cfg} {b : CBlob} (hb : BlobInv cfg b) : b.toF.Inv cfg.h cfg.klen := by
  have hf := filterOf_fblob_inv cfg b.ghost
  have hfacts := filterOf_facts cfg b.ghost
  have hidx := hb.index
  unfold IndexInv at hidx
  unfold CBlob.toF
  cases hi : b.index with
  | mem m =>
    simp only []
    rw [hb.filter]; exact hf
  | disk f metaBuf off =>
    rw [hi] at hidx
    simp only [] at hidx ⊢
    unfold FBlob.Inv
    simp only []
    refine ⟨b.filter, hidx.2.1, ?_, ?_, Or.inl rfl⟩
    · rw [hb.filter]; exact hfacts.1
    · intro k hk
      obtain ⟨r, hr, rfl⟩ := List.mem_map.mp hk
      rw [hb.filter]; exact hfacts.2.1 r hr

/-- the filter a blob hands to the container covers every key of the blob -/
theorem BlobInv.filter_covers {cfg : Cfg} {b : CBlob} (hb : BlobInv cfg b) (r : Rec) (hr : r ∈ b.ghost) :
    b.filter.containsFast cfg.h r.key ≠ .notContains := by
  rw [hb.filter]; exact (filterOf_facts cfg b.ghost).2.1 r hr

theorem BlobInv.filter_WF {cfg : Cfg} {b : CBlob} (hb : BlobInv cfg b) : b.filter.WF := by
  rw [hb.filter]; exact (filterOf_facts cfg b.ghost).1

/-- **C10 at blob level**: `check_filter` never answers `NotContains` for a key the blob holds -/
theorem BlobInv.checkFilter_no_fn {cfg : Cfg} {b : CBlob} (hb : BlobInv cfg b) (k : Key)
    (hk : ∃ r ∈ b.ghost, r.key = k) : b.checkFilter cfg k ≠ .notContains := by
  obtain ⟨r, hr, rfl⟩ := hk
  have hidx := hb.index
  unfold IndexInv at hidx
  unfold CBlob.checkFilter
  cases hi : b.index with
  | mem m =>
    rw [hi] at hidx
    simp only [] at hidx ⊢
    subst hidx
    rw [indexOf_lookup_isSome]
    have : (hdrsOf cfg b.ghost).any (fun h => hdrKey h == r.key) = true := by
      rw [List.any_eq_true]
      have hmem : r.key ∈ (hdrsOf cfg b.ghost).map hdrKey := by
        rw [hdrsOf_keys cfg b.ghost hb.key]; exact List.mem_map.mpr ⟨r, hr, rfl⟩
      obtain ⟨h, hh, hk⟩ := List.mem_map.mp hmem
      exact ⟨h, hh, by simp [hk]⟩
    simp [this]
  | disk f metaBuf off =>
    simp only []
    have h1 := (C10.blob_check_filter_no_fn cfg.h cfg.klen b.toF r.key hb.toF_inv
      (List.mem_map.mpr ⟨r, hr, rfl⟩)).1
    simpa [CBlob.toF, FBlob.checkFilter, hi] using h1

/-! ### the per-blob answer (C09 + C05) -/

/-- `e` is an entry of record `r`: same timestamp, and `Entry::load` returns the bytes that were written -/
def Serves (e : CEntry) (r : Rec) : Prop :=
  e.hdr.timestamp = r.ts ∧ r.del = false ∧ entryLoad e.file e.hdr = .ok (serMeta r.mt, dataOf r.data)

/-- the concrete answer `c` represents the L2 answer `a` -/
def RR : ReadResult Rec → ReadResult CEntry → Prop
  | .found r, .found e => Serves e r
  | .deleted t, .deleted t' => t = t'
  | .notFound, .notFound => True
  | _, _ => False

/-- **C09**: the index look-up, through memory or through the file image, returns the last element of the
    sorted vector of the key -/
theorem BlobInv.index_getLatest {cfg : Cfg} {b : CBlob} (hcfg : cfg.OK) (hb : BlobInv cfg b) (k : Key) :
    b.index.getLatest k = some ((hvecOf (hdrsOf cfg b.ghost) k).getLast?) := by
  have hidx := hb.index
  unfold IndexInv at hidx
  cases hi : b.index with
  | mem m =>
    rw [hi] at hidx
    simp only [] at hidx
    subst hidx
    simp only [CIndex.getLatest, memLatest_indexOf]
  | disk f metaBuf off =>
    rw [hi] at hidx
    simp only [] at hidx
    obtain ⟨hne, _, rfl⟩ := hidx
    simp only [CIndex.getLatest]
    rw [C09.ondisk_latest_eq (Params.real cfg.klen) (C09.valid_real cfg.klen hcfg.klen) metaBuf.length
      (indexOf (hdrsOf cfg b.ghost)) (indexOf_WF _)
      (by rw [Ne, indexOf_eq_nil_iff, hdrsOf_eq_nil_iff]; exact hne) k]
    exact congrArg some (memLatest_indexOf _ k)

theorem BlobInv.indexLatest_rr {cfg : Cfg} {b : CBlob} (hcfg : cfg.OK) (hb : BlobInv cfg b) (k : Key) :
    ∃ x, b.indexLatest k = .ok x ∧ RR (b.abs.getLatest k) x := by
  unfold CBlob.indexLatest
  rw [hb.index_getLatest hcfg k]
  have h1 : hvecOf (hdrsOf cfg b.ghost) k = (ovecOf cfg.klen b.ghost k).map (fun p => hdrOf cfg.klen p.1 p.2) :=
    (ovecOf_hdr cfg.klen b.ghost k hb.key).symm
  have h2 : b.abs.getLatest k = latestOfVec ((ovecOf cfg.klen b.ghost k).map (·.1)) := by
    rw [ovecOf_fst]; rfl
  rw [h1, h2, List.getLast?_map]
  unfold latestOfVec
  rw [List.getLast?_map]
  cases hl : (ovecOf cfg.klen b.ghost k).getLast? with
  | none => exact ⟨_, rfl, trivial⟩
  | some p =>
    have hp := (mem_ovecOf (List.mem_of_getLast? hl)).1
    simp only [Option.map_some, hdrOf_isDeleted, hdrOf_timestamp]
    cases hd : p.1.del with
    | true => exact ⟨_, rfl, rfl⟩
    | false =>
      refine ⟨_, rfl, ?_⟩
      simp only [Bool.false_eq_true, if_false]
      refine ⟨hdrOf_timestamp _ _ _, hd, ?_⟩
      have := load_of_mem cfg.klen b.ghost (by rw [← hb.file]; exact hb.size) p hp
      rw [hd] at this
      simp only [Bool.false_eq_true, if_false] at this
      rw [hb.file]; exact this

theorem RR.isFound {a : ReadResult Rec} {c : ReadResult CEntry} (h : RR a c) : c.isFound = a.isFound := by
  cases a <;> cases c <;> simp_all [RR, ReadResult.isFound]

end Pearl.E2E
