import Pearl.Proofs.EndToEndBlob
/-
End-to-end composition, part 3: the operations of one blob keep `BlobInv` and commute with the L2 blob
operations (`Blob.append`, `Store.blobDelete`, the `onDisk` flag for dump / load), and the regeneration of the
index from the blob file (`regen`: L5 scan + pushes) rebuilds exactly the index and the filter.
-/
namespace Pearl.E2E
open Pearl Pearl.BPTree

theorem openNew_inv (cfg : Cfg) (id : Nat) : BlobInv cfg (CBlob.openNew cfg id) where
  key := by intro r hr; simp [CBlob.openNew] at hr
  ts := by intro r hr; simp [CBlob.openNew] at hr
  file := rfl
  size := by
    show (serBlobHeader).length < 2 ^ 64
    rw [serBlobHeader_length]; decide
  filter := rfl
  index := by
    show IndexInv cfg (CBlob.openNew cfg id)
    unfold IndexInv CBlob.openNew
    rfl

theorem openNew_abs (cfg : Cfg) (id : Nat) : (CBlob.openNew cfg id).abs = { id := id, recs := [] } := rfl

/-! ### `writeRec` -/

theorem writeRec_mem (cfg : Cfg) (b : CBlob) (m : InMem RecHeader) (hi : b.index = .mem m) (r : Rec) :
    b.writeRec cfg r =
      { b with
        file := appendRecord b.file (recOf cfg.klen r)
        index := .mem (memPush r.key (writtenHeader (recOf cfg.klen r) b.file.length) m)
        filter := b.filter.add cfg.h r.key
        ghost := b.ghost ++ [r] } := by
  unfold CBlob.writeRec CBlob.indexPush
  simp only [hi]
  rfl

theorem writeRec_inv0 {cfg : Cfg} {b : CBlob} (hb : BlobInv0 cfg b) (hmem : b.index.onDisk = false) (r : Rec)
    (hk : r.key < 256 ^ cfg.klen) (hts : r.ts < 2 ^ 64) :
    BlobInv0 cfg (b.writeRec cfg r) ∧ (b.writeRec cfg r).id = b.id ∧ (b.writeRec cfg r).ghost = b.ghost ++ [r] ∧
      (b.writeRec cfg r).index.onDisk = false ∧
      (b.writeRec cfg r).file = appendRecord b.file (recOf cfg.klen r) := by
  cases hi : b.index with
  | disk f mb off => rw [hi] at hmem; cases hmem
  | mem m =>
    have hidx := hb.index
    unfold IndexInv at hidx
    rw [hi] at hidx
    simp only [] at hidx
    rw [writeRec_mem cfg b m hi r]
    refine ⟨?_, rfl, rfl, rfl, rfl⟩
    refine ⟨?_, ?_, ?_, ?_, ?_⟩
    · intro x hx
      rcases List.mem_append.mp hx with hx | hx
      · exact hb.key x hx
      · simp only [List.mem_singleton] at hx; subst hx; exact hk
    · intro x hx
      rcases List.mem_append.mp hx with hx | hx
      · exact hb.ts x hx
      · simp only [List.mem_singleton] at hx; subst hx; exact hts
    · show appendRecord b.file (recOf cfg.klen r) = blobBytes cfg.klen (full (b.ghost ++ [r]))
      rw [blobBytes_snoc, ← hb.file]
    · show b.filter.add cfg.h r.key = filterOf cfg (b.ghost ++ [r])
      rw [filterOf_snoc, ← hb.filter]
    · show IndexInv cfg _
      unfold IndexInv
      simp only []
      rw [hdrsOf_snoc, indexOf_snoc, ← hb.file, hdrOf_key_of_lt _ _ _ hk, writtenHeader_recOf, hidx]

theorem writeRec_inv {cfg : Cfg} {b : CBlob} (hb : BlobInv cfg b) (hmem : b.index.onDisk = false) (r : Rec)
    (hk : r.key < 256 ^ cfg.klen) (hts : r.ts < 2 ^ 64)
    (hsz : (appendRecord b.file (recOf cfg.klen r)).length < 2 ^ 64) :
    BlobInv cfg (b.writeRec cfg r) ∧ (b.writeRec cfg r).id = b.id ∧ (b.writeRec cfg r).ghost = b.ghost ++ [r] ∧
      (b.writeRec cfg r).index.onDisk = false ∧
      (b.writeRec cfg r).file = appendRecord b.file (recOf cfg.klen r) := by
  obtain ⟨h0, h1, h2, h3, h4⟩ := writeRec_inv0 hb.toBlobInv0 hmem r hk hts
  exact ⟨⟨h0, by rw [h4]; exact hsz⟩, h1, h2, h3, h4⟩

/-! ### `loadIndex`, `dump` -/

theorem loadIndex_eq {cfg : Cfg} {b : CBlob} (hcfg : cfg.OK) (hb : BlobInv cfg b) :
    b.loadIndex cfg = { b with index := .mem (indexOf (hdrsOf cfg b.ghost)) } := by
  have hidx := hb.index
  unfold IndexInv at hidx
  unfold CBlob.loadIndex
  cases hi : b.index with
  | mem m =>
    rw [hi] at hidx
    simp only [] at hidx ⊢
    subst hidx
    cases b
    simp only at hi
    subst hi
    rfl
  | disk f metaBuf off =>
    rw [hi] at hidx
    simp only [] at hidx ⊢
    obtain ⟨_, hs, rfl⟩ := hidx
    rw [C09.load_build _ _ _ (indexOf_WF _)]
    have hsz : FBlob.Sized cfg.klen b.filter := by
      rw [hb.filter]; exact filterOf_sized cfg hcfg b.ghost hb.key
    have hon : b.filter.bloom.isSome = cfg.bloomIsOn := by
      rw [hb.filter]; exact filterOf_bloom_isSome cfg b.ghost
    rw [combinedOfFile_serialize cfg b.filter metaBuf off hb.filter_WF hsz hon hs]

theorem loadIndex_inv {cfg : Cfg} {b : CBlob} (hcfg : cfg.OK) (hb : BlobInv cfg b) :
    BlobInv cfg (b.loadIndex cfg) ∧ (b.loadIndex cfg).id = b.id ∧ (b.loadIndex cfg).ghost = b.ghost ∧
      (b.loadIndex cfg).index.onDisk = false ∧ (b.loadIndex cfg).file = b.file := by
  rw [loadIndex_eq hcfg hb]
  refine ⟨⟨⟨hb.key, hb.ts, hb.file, hb.filter, ?_⟩, hb.size⟩, rfl, rfl, rfl, rfl⟩
  show IndexInv cfg _
  unfold IndexInv
  rfl

theorem isEmpty_indexOf (hs : List RecHeader) : (indexOf hs).isEmpty = hs.isEmpty := by
  cases hs with
  | nil => rfl
  | cons x xs =>
    have : indexOf (x :: xs) ≠ [] := by rw [Ne, indexOf_eq_nil_iff]; simp
    cases h : indexOf (x :: xs) with
    | nil => exact absurd h this
    | cons _ _ => rfl

theorem dump_inv {cfg : Cfg} {b : CBlob} (hb : BlobInv cfg b) :
    BlobInv cfg (b.dump cfg) ∧ (b.dump cfg).id = b.id ∧ (b.dump cfg).ghost = b.ghost ∧
      (b.dump cfg).file = b.file ∧ (b.dump cfg).filter = b.filter ∧
      (b.dump cfg).index.onDisk = (b.index.onDisk || !b.ghost.isEmpty) := by
  have hidx := hb.index
  unfold IndexInv at hidx
  unfold CBlob.dump
  cases hi : b.index with
  | disk f metaBuf off =>
    refine ⟨?_, ?_, ?_, ?_, ?_, ?_⟩ <;> simp [hi, CIndex.onDisk, hb]
  | mem m =>
    rw [hi] at hidx
    simp only [] at hidx ⊢
    subst hidx
    by_cases he : b.ghost = []
    · have : (indexOf (hdrsOf cfg b.ghost)).isEmpty = true := by
        rw [isEmpty_indexOf, List.isEmpty_iff, hdrsOf_eq_nil_iff]; exact he
      rw [if_pos this]
      refine ⟨?_, ?_, ?_, ?_, ?_, ?_⟩ <;> simp [hi, CIndex.onDisk, he, hb]
    · have : ¬ (indexOf (hdrsOf cfg b.ghost)).isEmpty = true := by
        rw [isEmpty_indexOf, List.isEmpty_iff, hdrsOf_eq_nil_iff]; exact he
      rw [if_neg this]
      have hres : ∀ bl, b.filter.bloom = some bl → bl.inner.isSome := by
        rw [hb.filter]; exact (filterOf_facts cfg b.ghost).2.2
      obtain ⟨⟨metaBuf, off⟩, hs⟩ := serializeFilters_isSome cfg.klen b.filter hres
      simp only [hs]
      refine ⟨⟨⟨hb.key, hb.ts, hb.file, hb.filter, ?_⟩, hb.size⟩, ?_, ?_, ?_, ?_, ?_⟩
      · show IndexInv cfg _
        unfold IndexInv
        exact ⟨he, hs, rfl⟩
      all_goals simp [CIndex.onDisk, he]

theorem dump_abs {cfg : Cfg} {b : CBlob} (hb : BlobInv cfg b) :
    (b.dump cfg).abs = if b.abs.recs.isEmpty then b.abs else { b.abs with onDisk := true } := by
  obtain ⟨_, h1, h2, _, _, h3⟩ := dump_inv hb
  unfold CBlob.abs
  rw [h1, h2, h3]
  have hidx := hb.index
  unfold IndexInv at hidx
  cases hg : b.ghost with
  | nil =>
    cases hi : b.index with
    | mem m => simp [CIndex.onDisk]
    | disk f mb off => rw [hi, hg] at hidx; exact absurd rfl hidx.1
  | cons x xs => simp

/-! ### `delete` -/

/-- `Blob::delete` against `Store.blobDelete`, without a size condition on the result -/
theorem delete_spec0 {cfg : Cfg} {b : CBlob} (hcfg : cfg.OK) (hb : BlobInv cfg b) (k : Key) (ts : Nat) (oip : Bool)
    (hk : k < 256 ^ cfg.klen) (hts : ts < 2 ^ 64) :
    BlobInv0 cfg (b.delete cfg k ts oip).1 ∧
      (b.delete cfg k ts oip).1.abs = (Store.blobDelete b.abs k ts none oip).1 ∧
      (b.delete cfg k ts oip).2 = (Store.blobDelete b.abs k ts none oip).2 := by
  obtain ⟨x, hx, hrr⟩ := hb.indexLatest_rr hcfg k
  unfold CBlob.delete
  unfold Store.blobDelete
  simp only [hx, hrr.isFound]
  by_cases hgo : (!oip || (b.abs.getLatest k).isFound) = true
  · rw [if_pos hgo, if_pos hgo]
    obtain ⟨hl, hlid, hlg, hlm, hlf⟩ := loadIndex_inv hcfg hb
    obtain ⟨hw, hwid, hwg, hwm, _⟩ := writeRec_inv0 hl.toBlobInv0 hlm ⟨k, ts, true, none, ⟨0, 0⟩⟩ hk hts
    refine ⟨hw, ?_, rfl⟩
    simp only [CBlob.abs, hwid, hwg, hwm, hlid, hlg]
    rfl
  · rw [if_neg hgo, if_neg hgo]
    exact ⟨hb.toBlobInv0, rfl, rfl⟩

theorem delete_spec {cfg : Cfg} {b : CBlob} (hcfg : cfg.OK) (hb : BlobInv cfg b) (k : Key) (ts : Nat) (oip : Bool)
    (hk : k < 256 ^ cfg.klen) (hts : ts < 2 ^ 64)
    (hsz : (b.delete cfg k ts oip).1.file.length < 2 ^ 64) :
    BlobInv cfg (b.delete cfg k ts oip).1 ∧
      (b.delete cfg k ts oip).1.abs = (Store.blobDelete b.abs k ts none oip).1 ∧
      (b.delete cfg k ts oip).2 = (Store.blobDelete b.abs k ts none oip).2 := by
  obtain ⟨h0, h1, h2⟩ := delete_spec0 hcfg hb k ts oip hk hts
  exact ⟨⟨h0, hsz⟩, h1, h2⟩

/-- a blob that is not marked keeps its file; a marked one grows by the marker -/
theorem delete_file {cfg : Cfg} {b : CBlob} (hcfg : cfg.OK) (hb : BlobInv cfg b) (k : Key) (ts : Nat) (oip : Bool) :
    (b.delete cfg k ts oip).1.file = b.file ∨
      (b.delete cfg k ts oip).1.file = appendRecord b.file (recOf cfg.klen ⟨k, ts, true, none, ⟨0, 0⟩⟩) := by
  unfold CBlob.delete
  simp only []
  obtain ⟨x, hx, _⟩ := hb.indexLatest_rr hcfg k
  simp only [hx]
  by_cases hgo : (!oip || x.isFound) = true
  · rw [if_pos hgo]
    right
    rw [loadIndex_eq hcfg hb, writeRec_mem cfg _ _ rfl]
  · rw [if_neg hgo]
    left; rfl

/-! ### `regen` (restart without index file) -/

theorem foldl_indexPush (cfg : Cfg) : ∀ (hs : List RecHeader) (b : CBlob) (m : InMem RecHeader), b.index = .mem m →
    hs.foldl (fun b h => (b.indexPush cfg (hdrKey h) h).getD b) b =
      { b with
        index := .mem (hs.foldl (fun m h => memPush (hdrKey h) h m) m)
        filter := (hs.map hdrKey).foldl (Combined.add cfg.h) b.filter }
  | [], b, m, hi => by
    cases b; simp only at hi; subst hi; rfl
  | h :: hs, b, m, hi => by
    simp only [List.foldl_cons, List.map_cons]
    have : b.indexPush cfg (hdrKey h) h
        = some { b with index := .mem (memPush (hdrKey h) h m), filter := b.filter.add cfg.h (hdrKey h) } := by
      unfold CBlob.indexPush; rw [hi]
    rw [this, Option.getD_some, foldl_indexPush cfg hs _ _ rfl]

theorem regen_eq {cfg : Cfg} {b : CBlob} (hb : BlobInv cfg b) :
    regen cfg b = some { b with index := .mem (indexOf (hdrsOf cfg b.ghost)) } := by
  unfold regen
  rw [hb.file, blobHeader_blob]
  simp only []
  by_cases he : b.ghost = []
  · have hlen : ¬ (blobBytes cfg.klen (full b.ghost)).length > blobHeaderSize := by
      rw [he, blobBytes_nil, serBlobHeader_length]; omega
    rw [if_neg hlen]
    have hf : b.filter = newFilter cfg := by rw [hb.filter, he]; rfl
    rw [← hf, he]
    rfl
  · have hlen : (blobBytes cfg.klen (full b.ghost)).length > blobHeaderSize := blobBytes_length_gt _ _ he
    rw [if_pos hlen]
    rw [scan_blob cfg.klen cfg.validateData b.ghost he (by rw [← hb.file]; exact hb.size) hb.ts]
    simp only []
    rw [foldl_indexPush cfg _ _ [] rfl]
    have hk : (blobHeaders cfg.klen (full b.ghost)).map hdrKey = b.ghost.map (·.key) := hdrsOf_keys cfg b.ghost hb.key
    simp only [hk]
    have hf : (b.ghost.map (·.key)).foldl (Combined.add cfg.h) (newFilter cfg) = b.filter := by
      rw [hb.filter]; rfl
    rw [hf]
    rfl

theorem regen_inv {cfg : Cfg} {b : CBlob} (hb : BlobInv cfg b) :
    BlobInv cfg { b with index := .mem (indexOf (hdrsOf cfg b.ghost)) } := by
  refine ⟨⟨hb.key, hb.ts, hb.file, hb.filter, ?_⟩, hb.size⟩
  show IndexInv cfg _
  unfold IndexInv
  rfl

end Pearl.E2E
