import Pearl.Model.EndToEndCfg
import Pearl.Proofs.EndToEndBlobOps
import Pearl.Props.C10
/-
Sessions with different bloom configurations (`Pearl/Model/EndToEndCfg.lean`), lemmas, part 1: the invariant of one
blob that does NOT mention the bloom configuration, and the blob operations under it.

`BlobInv cfg b` of `EndToEndBlob.lean` pins the filter of a blob to `filterOf cfg b.ghost`: the fold of `add` from
`newFilter cfg`, i.e. the geometry of THE configuration.  In a directory that several configurations have written to,
the filter of a blob has the geometry of the session that created or last regenerated it, or the one found in its
index file, or no bloom part at all.  `BlobInvC` keeps everything `BlobInv` says about file and index and replaces
the equation for the filter by what the filter theorems of C10 need (`Good`): well-formed, fits its wire fields,
resident, and covering every key of the blob.  The filter section of an on-disk index is the image of SOME such
filter (not necessarily the one the blob holds: `bloom_is_on = false` drops the bloom part on the way in).
-/
namespace Pearl.E2E.MC
open Pearl Pearl.BPTree Pearl.E2E

/-- a filter that may stand for the records `recs`, whatever its geometry -/
structure Good (cfg : Cfg) (recs : List Rec) (c : Combined) : Prop where
  wf : c.WF
  sized : FBlob.Sized cfg.klen c
  covers : ∀ r ∈ recs, c.containsFast cfg.h r.key ≠ .notContains
  resident : ∀ bl, c.bloom = some bl → bl.inner.isSome

theorem Good.fblob {cfg : Cfg} {recs : List Rec} {c : Combined} (h : Good cfg recs c) :
    FBlob.Inv cfg.h cfg.klen { keys := recs.map (·.key), filter := c, file := none } :=
  ⟨h.wf, fun k hk => by obtain ⟨r, hr, rfl⟩ := List.mem_map.mp hk; exact h.covers r hr, h.resident⟩

theorem Good.add {cfg : Cfg} {recs : List Rec} {c : Combined} (h : Good cfg recs c) (r : Rec)
    (hk : r.key < 256 ^ cfg.klen) : Good cfg (recs ++ [r]) (c.add cfg.h r.key) := by
  have h1 : FBlob.Inv cfg.h cfg.klen { keys := recs.map (·.key) ++ [r.key], filter := c.add cfg.h r.key, file := none } :=
    FBlob.push_Inv (b := { keys := recs.map (·.key), filter := c, file := none }) r.key h.fblob rfl
  obtain ⟨hwf, hcov, hres⟩ := h1
  refine ⟨hwf, Combined.add_sized cfg.h cfg.klen c r.key h.sized hk, ?_, hres⟩
  intro x hx
  apply hcov
  rcases List.mem_append.mp hx with hx | hx
  · exact List.mem_append_left _ (List.mem_map.mpr ⟨x, hx, rfl⟩)
  · simp only [List.mem_singleton] at hx; subst hx; simp

theorem Good.mono {cfg : Cfg} {recs recs' : List Rec} {c : Combined} (h : Good cfg recs c)
    (hsub : ∀ r ∈ recs', ∃ r' ∈ recs, r'.key = r.key) : Good cfg recs' c :=
  ⟨h.wf, h.sized, fun r hr => by obtain ⟨r', hr', hk⟩ := hsub r hr; rw [← hk]; exact h.covers r' hr', h.resident⟩

/-- the filter of the running configuration is one of them -/
theorem filterOf_good {cfg : Cfg} (hcfg : cfg.OK) (recs : List Rec) (hk : ∀ r ∈ recs, r.key < 256 ^ cfg.klen) :
    Good cfg recs (filterOf cfg recs) :=
  ⟨(filterOf_facts cfg recs).1, filterOf_sized cfg hcfg recs hk, (filterOf_facts cfg recs).2.1,
    (filterOf_facts cfg recs).2.2⟩

theorem newFilter_good {cfg : Cfg} (hcfg : cfg.OK) : Good cfg [] (newFilter cfg) := by
  have := filterOf_good hcfg [] (fun r hr => by cases hr)
  exact this

/-- what `IndexStruct::from_file` / `load_in_memory` make of a filter section, under `bloom_is_on` -/
def fromFile (bloomIsOn : Bool) (c0 : Combined) : Combined :=
  { bloom := if bloomIsOn then some (c0.bloom.getD Bloom.empty) else none, range := c0.range }

theorem combinedOfFile_good {cfg : Cfg} {recs : List Rec} {c0 : Combined} {metaBuf : List Nat} {off : Nat}
    (h : Good cfg recs c0) (hs : serializeFilters cfg.klen c0 = some (metaBuf, off)) (on : Bool) :
    combinedOfFile on metaBuf = some (fromFile on c0, off) := by
  unfold combinedOfFile
  rw [C10.filters_roundtrip cfg.klen c0 metaBuf off h.wf h.sized hs]
  rfl

theorem Bloom.containsFast_empty (h : Nat → Key → Nat) (k : Key) :
    Bloom.empty.containsFast h k = .needAdditionalCheck := rfl

/-- **the filter read from an index file written under ANY configuration covers the keys again**: the bloom part
    is the written one (its own hasher count and bit count), the empty one, or dropped -/
theorem fromFile_good {cfg : Cfg} {recs : List Rec} {c0 : Combined} (h : Good cfg recs c0) (on : Bool) :
    Good cfg recs (fromFile on c0) := by
  have hcov : ∀ r ∈ recs, (fromFile on c0).containsFast cfg.h r.key ≠ .notContains := by
    intro r hr
    have h0 := h.covers r hr
    unfold Combined.containsFast at h0 ⊢
    simp only [fromFile]
    cases hrg : c0.range.containsFast r.key with
    | notContains => rw [hrg] at h0; exact absurd rfl h0
    | needAdditionalCheck =>
      rw [hrg] at h0
      simp only [] at h0 ⊢
      cases on with
      | false => simp [Combined.bloomFast]
      | true =>
        cases hb : c0.bloom with
        | none => simp [Combined.bloomFast, Bloom.containsFast_empty]
        | some bl => rw [hb] at h0; simpa [Combined.bloomFast] using h0
  refine ⟨⟨h.wf.1, ?_⟩, ⟨?_, h.sized.2.1, h.sized.2.2.1, h.sized.2.2.2⟩, hcov, ?_⟩
  · intro bl hbl
    simp only [fromFile] at hbl
    cases on with
    | false => simp at hbl
    | true =>
      simp only [if_true, Option.some.injEq] at hbl
      subst hbl
      cases hb : c0.bloom with
      | none => exact Bloom.empty_WF
      | some b => exact h.wf.2 b hb
  · intro bl hbl
    simp only [fromFile] at hbl
    cases on with
    | false => simp at hbl
    | true =>
      simp only [if_true, Option.some.injEq] at hbl
      subst hbl
      cases hb : c0.bloom with
      | none => exact Bloom.empty_Bounded
      | some b => exact h.sized.1 b hb
  · intro bl hbl
    simp only [fromFile] at hbl
    cases on with
    | false => simp at hbl
    | true =>
      simp only [if_true, Option.some.injEq] at hbl
      subst hbl
      cases hb : c0.bloom with
      | none => rfl
      | some b => exact h.resident b hb

/-- a resident, well-formed filter never looks into the file: the full check is the fast check -/
theorem contains_of_resident (h : Nat → Key → Nat) (c : Combined) (readByte : Nat → Option Nat) (x : Key)
    (hc : c.WF) (hres : ∀ bl, c.bloom = some bl → bl.inner.isSome) :
    c.contains h readByte x = c.containsFast h x := by
  unfold Combined.contains Combined.containsFast
  cases c.range.containsFast x with
  | notContains => rfl
  | needAdditionalCheck =>
    simp only [Combined.bloomFull, Combined.bloomFast]
    cases hcb : c.bloom with
    | none => rfl
    | some bl =>
      simp only []
      have hr := hres bl hcb
      cases hi : bl.inner with
      | none => rw [hi] at hr; cases hr
      | some v =>
        unfold Bloom.contains Bloom.containsFast
        cases hm : bl.containsMem h x with
        | some r => rfl
        | none =>
          simp only [Option.getD_none]
          have hv : v.bits = bl.bits := ((hc.2 bl hcb).1 v hi).2
          unfold Bloom.containsMem at hm
          rw [hi] at hm
          simp only [] at hm
          split at hm
          · rename_i hz
            unfold Bloom.containsFile
            have : (bl.bits == 0) = true := by rw [← hv]; exact hz
            rw [if_pos this]; rfl
          · split at hm <;> cases hm

/-! ### the invariant of one blob -/

/-- the index component: the map of the pushed headers, in memory or as the file image built from it together with
    the image of SOME good filter -/
def IndexInvC (cfg : Cfg) (b : CBlob) : Prop :=
  match b.index with
  | .mem m => m = indexOf (hdrsOf cfg b.ghost)
  | .disk f metaBuf off =>
    b.ghost ≠ [] ∧ (∃ c0, Good cfg b.ghost c0 ∧ serializeFilters cfg.klen c0 = some (metaBuf, off)) ∧
      f = build (Params.real cfg.klen) metaBuf.length (indexOf (hdrsOf cfg b.ghost))

structure BlobInvC0 (cfg : Cfg) (b : CBlob) : Prop where
  key : ∀ r ∈ b.ghost, r.key < 256 ^ cfg.klen
  ts : ∀ r ∈ b.ghost, r.ts < 2 ^ 64
  file : b.file = blobBytes cfg.klen (full b.ghost)
  filter : Good cfg b.ghost b.filter
  index : IndexInvC cfg b

structure BlobInvC (cfg : Cfg) (b : CBlob) : Prop extends BlobInvC0 cfg b where
  size : b.file.length < 2 ^ 64

/-- the single-configuration invariant is an instance -/
theorem BlobInvC.ofBlobInv {cfg : Cfg} {b : CBlob} (hcfg : cfg.OK) (hb : BlobInv cfg b) : BlobInvC cfg b := by
  have hg : Good cfg b.ghost b.filter := by rw [hb.filter]; exact filterOf_good hcfg b.ghost hb.key
  refine ⟨⟨hb.key, hb.ts, hb.file, hg, ?_⟩, hb.size⟩
  have hidx := hb.index
  unfold IndexInv at hidx
  unfold IndexInvC
  cases hi : b.index with
  | mem m => rw [hi] at hidx; exact hidx
  | disk f metaBuf off =>
    rw [hi] at hidx
    exact ⟨hidx.1, ⟨b.filter, hg, hidx.2.1⟩, hidx.2.2⟩

/-- the invariant does not depend on the bloom configuration of the session -/
theorem Good.withBloom {cfg : Cfg} {recs : List Rec} {c : Combined} (h : Good cfg recs c)
    (bl : Option (BloomConfig × Nat)) : Good (cfg.withBloom bl) recs c :=
  ⟨h.wf, h.sized, h.covers, h.resident⟩

theorem BlobInvC.withBloom {cfg : Cfg} {b : CBlob} (hb : BlobInvC cfg b) (bl : Option (BloomConfig × Nat)) :
    BlobInvC (cfg.withBloom bl) b := by
  refine ⟨⟨hb.key, hb.ts, hb.file, hb.filter.withBloom bl, ?_⟩, hb.size⟩
  have hidx := hb.index
  unfold IndexInvC at hidx ⊢
  cases hi : b.index with
  | mem m => rw [hi] at hidx; exact hidx
  | disk f metaBuf off =>
    rw [hi] at hidx
    obtain ⟨h1, ⟨c0, hc0, hs⟩, h3⟩ := hidx
    exact ⟨h1, ⟨c0, hc0.withBloom bl, hs⟩, h3⟩

/-- **C10 at blob level, for a filter of any geometry**: `check_filter` never answers `NotContains` for a key the
    blob holds -/
theorem BlobInvC.checkFilter_no_fn {cfg : Cfg} {b : CBlob} (hb : BlobInvC cfg b) (k : Key)
    (hk : ∃ r ∈ b.ghost, r.key = k) : b.checkFilter cfg k ≠ .notContains := by
  obtain ⟨r, hr, rfl⟩ := hk
  have hidx := hb.index
  unfold IndexInvC at hidx
  unfold CBlob.checkFilter
  cases hi : b.index with
  | mem m =>
    rw [hi] at hidx
    simp only [] at hidx ⊢
    subst hidx
    rw [indexOf_lookup_isSome]
    have : (hdrsOf cfg b.ghost).any (fun h => hdrKey h == r.key) = true := by
      rw [List.any_eq_true]
      have hmem : r.key ∈ (hdrsOf cfg b.ghost).map hdrKey := by
        rw [hdrsOf_keys cfg b.ghost hb.key]; exact List.mem_map.mpr ⟨r, hr, rfl⟩
      obtain ⟨h, hh, hk⟩ := List.mem_map.mp hmem
      exact ⟨h, hh, by simp [hk]⟩
    simp [this]
  | disk f metaBuf off =>
    simp only []
    rw [contains_of_resident cfg.h b.filter _ r.key hb.filter.wf hb.filter.resident]
    exact hb.filter.covers r hr

/-- **C09** -/
theorem BlobInvC.index_getLatest {cfg : Cfg} {b : CBlob} (hcfg : cfg.OK) (hb : BlobInvC cfg b) (k : Key) :
    b.index.getLatest k = some ((hvecOf (hdrsOf cfg b.ghost) k).getLast?) := by
  have hidx := hb.index
  unfold IndexInvC at hidx
  cases hi : b.index with
  | mem m =>
    rw [hi] at hidx
    simp only [] at hidx
    subst hidx
    simp only [CIndex.getLatest, memLatest_indexOf]
  | disk f metaBuf off =>
    rw [hi] at hidx
    simp only [] at hidx
    obtain ⟨hne, _, rfl⟩ := hidx
    simp only [CIndex.getLatest]
    rw [C09.ondisk_latest_eq (Params.real cfg.klen) (C09.valid_real cfg.klen hcfg.klen) metaBuf.length
      (indexOf (hdrsOf cfg b.ghost)) (indexOf_WF _)
      (by rw [Ne, indexOf_eq_nil_iff, hdrsOf_eq_nil_iff]; exact hne) k]
    exact congrArg some (memLatest_indexOf _ k)

theorem BlobInvC.indexLatest_rr {cfg : Cfg} {b : CBlob} (hcfg : cfg.OK) (hb : BlobInvC cfg b) (k : Key) :
    ∃ x, b.indexLatest k = .ok x ∧ RR (b.abs.getLatest k) x := by
  unfold CBlob.indexLatest
  rw [hb.index_getLatest hcfg k]
  have h1 : hvecOf (hdrsOf cfg b.ghost) k = (ovecOf cfg.klen b.ghost k).map (fun p => hdrOf cfg.klen p.1 p.2) :=
    (ovecOf_hdr cfg.klen b.ghost k hb.key).symm
  have h2 : b.abs.getLatest k = latestOfVec ((ovecOf cfg.klen b.ghost k).map (·.1)) := by
    rw [ovecOf_fst]; rfl
  rw [h1, h2, List.getLast?_map]
  unfold latestOfVec
  rw [List.getLast?_map]
  cases hl : (ovecOf cfg.klen b.ghost k).getLast? with
  | none => exact ⟨_, rfl, trivial⟩
  | some p =>
    have hp := (mem_ovecOf (List.mem_of_getLast? hl)).1
    simp only [Option.map_some, hdrOf_isDeleted, hdrOf_timestamp]
    cases hd : p.1.del with
    | true => exact ⟨_, rfl, rfl⟩
    | false =>
      refine ⟨_, rfl, ?_⟩
      simp only [Bool.false_eq_true, if_false]
      refine ⟨hdrOf_timestamp _ _ _, hd, ?_⟩
      have := load_of_mem cfg.klen b.ghost (by rw [← hb.file]; exact hb.size) p hp
      rw [hd] at this
      simp only [Bool.false_eq_true, if_false] at this
      rw [hb.file]; exact this

/-! ### the blob operations -/

theorem openNew_inv {cfg : Cfg} (hcfg : cfg.OK) (id : Nat) : BlobInvC cfg (CBlob.openNew cfg id) :=
  BlobInvC.ofBlobInv hcfg (Pearl.E2E.openNew_inv cfg id)

theorem writeRec_inv0 {cfg : Cfg} {b : CBlob} (hb : BlobInvC0 cfg b) (hmem : b.index.onDisk = false) (r : Rec)
    (hk : r.key < 256 ^ cfg.klen) (hts : r.ts < 2 ^ 64) :
    BlobInvC0 cfg (b.writeRec cfg r) ∧ (b.writeRec cfg r).id = b.id ∧ (b.writeRec cfg r).ghost = b.ghost ++ [r] ∧
      (b.writeRec cfg r).index.onDisk = false ∧
      (b.writeRec cfg r).file = appendRecord b.file (recOf cfg.klen r) := by
  cases hi : b.index with
  | disk f mb off => rw [hi] at hmem; cases hmem
  | mem m =>
    have hidx := hb.index
    unfold IndexInvC at hidx
    rw [hi] at hidx
    simp only [] at hidx
    rw [writeRec_mem cfg b m hi r]
    refine ⟨?_, rfl, rfl, rfl, rfl⟩
    refine ⟨?_, ?_, ?_, ?_, ?_⟩
    · intro x hx
      rcases List.mem_append.mp hx with hx | hx
      · exact hb.key x hx
      · simp only [List.mem_singleton] at hx; subst hx; exact hk
    · intro x hx
      rcases List.mem_append.mp hx with hx | hx
      · exact hb.ts x hx
      · simp only [List.mem_singleton] at hx; subst hx; exact hts
    · show appendRecord b.file (recOf cfg.klen r) = blobBytes cfg.klen (full (b.ghost ++ [r]))
      rw [blobBytes_snoc, ← hb.file]
    · exact hb.filter.add r hk
    · show IndexInvC cfg _
      unfold IndexInvC
      simp only []
      rw [hdrsOf_snoc, indexOf_snoc, ← hb.file, hdrOf_key_of_lt _ _ _ hk, writtenHeader_recOf, hidx]

theorem writeRec_inv {cfg : Cfg} {b : CBlob} (hb : BlobInvC cfg b) (hmem : b.index.onDisk = false) (r : Rec)
    (hk : r.key < 256 ^ cfg.klen) (hts : r.ts < 2 ^ 64)
    (hsz : (appendRecord b.file (recOf cfg.klen r)).length < 2 ^ 64) :
    BlobInvC cfg (b.writeRec cfg r) ∧ (b.writeRec cfg r).id = b.id ∧ (b.writeRec cfg r).ghost = b.ghost ++ [r] ∧
      (b.writeRec cfg r).index.onDisk = false ∧
      (b.writeRec cfg r).file = appendRecord b.file (recOf cfg.klen r) := by
  obtain ⟨h0, h1, h2, h3, h4⟩ := writeRec_inv0 hb.toBlobInvC0 hmem r hk hts
  exact ⟨⟨h0, by rw [h4]; exact hsz⟩, h1, h2, h3, h4⟩

/-- the filter a blob has after `load_index`: its own for an in-memory index, else the one read from the index file -/
def loadedFilter (cfg : Cfg) (b : CBlob) : Combined :=
  match b.index with
  | .mem _ => b.filter
  | .disk _ metaBuf _ =>
    match combinedOfFile cfg.bloomIsOn metaBuf with
    | some (flt, _) => flt
    | none => b.filter

theorem loadIndex_eq {cfg : Cfg} {b : CBlob} (hb : BlobInvC cfg b) :
    b.loadIndex cfg = { b with index := .mem (indexOf (hdrsOf cfg b.ghost)), filter := loadedFilter cfg b } ∧
      Good cfg b.ghost (loadedFilter cfg b) := by
  have hidx := hb.index
  unfold IndexInvC at hidx
  unfold CBlob.loadIndex loadedFilter
  cases hi : b.index with
  | mem m =>
    rw [hi] at hidx
    simp only [] at hidx ⊢
    subst hidx
    refine ⟨?_, hb.filter⟩
    cases b
    simp only at hi
    subst hi
    rfl
  | disk f metaBuf off =>
    rw [hi] at hidx
    simp only [] at hidx ⊢
    obtain ⟨_, ⟨c0, hc0, hs⟩, rfl⟩ := hidx
    rw [C09.load_build _ _ _ (indexOf_WF _)]
    rw [combinedOfFile_good hc0 hs]
    exact ⟨rfl, fromFile_good hc0 _⟩

theorem loadIndex_inv {cfg : Cfg} {b : CBlob} (hb : BlobInvC cfg b) :
    BlobInvC cfg (b.loadIndex cfg) ∧ (b.loadIndex cfg).id = b.id ∧ (b.loadIndex cfg).ghost = b.ghost ∧
      (b.loadIndex cfg).index.onDisk = false ∧ (b.loadIndex cfg).file = b.file := by
  obtain ⟨he, hg⟩ := loadIndex_eq hb
  rw [he]
  refine ⟨⟨⟨hb.key, hb.ts, hb.file, hg, ?_⟩, hb.size⟩, rfl, rfl, rfl, rfl⟩
  show IndexInvC cfg _
  unfold IndexInvC
  rfl

theorem dump_inv {cfg : Cfg} {b : CBlob} (hb : BlobInvC cfg b) :
    BlobInvC cfg (b.dump cfg) ∧ (b.dump cfg).id = b.id ∧ (b.dump cfg).ghost = b.ghost ∧
      (b.dump cfg).file = b.file ∧ (b.dump cfg).filter = b.filter ∧
      (b.dump cfg).index.onDisk = (b.index.onDisk || !b.ghost.isEmpty) := by
  have hidx := hb.index
  unfold IndexInvC at hidx
  unfold CBlob.dump
  cases hi : b.index with
  | disk f metaBuf off =>
    refine ⟨?_, ?_, ?_, ?_, ?_, ?_⟩ <;> simp [hi, CIndex.onDisk, hb]
  | mem m =>
    rw [hi] at hidx
    simp only [] at hidx ⊢
    subst hidx
    by_cases he : b.ghost = []
    · have : (indexOf (hdrsOf cfg b.ghost)).isEmpty = true := by
        rw [isEmpty_indexOf, List.isEmpty_iff, hdrsOf_eq_nil_iff]; exact he
      rw [if_pos this]
      refine ⟨?_, ?_, ?_, ?_, ?_, ?_⟩ <;> simp [hi, CIndex.onDisk, he, hb]
    · have : ¬ (indexOf (hdrsOf cfg b.ghost)).isEmpty = true := by
        rw [isEmpty_indexOf, List.isEmpty_iff, hdrsOf_eq_nil_iff]; exact he
      rw [if_neg this]
      obtain ⟨⟨metaBuf, off⟩, hs⟩ := serializeFilters_isSome cfg.klen b.filter hb.filter.resident
      simp only [hs]
      refine ⟨⟨⟨hb.key, hb.ts, hb.file, hb.filter, ?_⟩, hb.size⟩, ?_, ?_, ?_, ?_, ?_⟩
      · show IndexInvC cfg _
        unfold IndexInvC
        exact ⟨he, ⟨b.filter, hb.filter, hs⟩, rfl⟩
      all_goals simp [CIndex.onDisk, he]

theorem dump_abs {cfg : Cfg} {b : CBlob} (hb : BlobInvC cfg b) :
    (b.dump cfg).abs = if b.abs.recs.isEmpty then b.abs else { b.abs with onDisk := true } := by
  obtain ⟨_, h1, h2, _, _, h3⟩ := dump_inv hb
  unfold CBlob.abs
  rw [h1, h2, h3]
  have hidx := hb.index
  unfold IndexInvC at hidx
  cases hg : b.ghost with
  | nil =>
    cases hi : b.index with
    | mem m => simp [CIndex.onDisk]
    | disk f mb off => rw [hi, hg] at hidx; exact absurd rfl hidx.1
  | cons x xs => simp

/-! ### `delete` -/

theorem delete_spec0 {cfg : Cfg} {b : CBlob} (hcfg : cfg.OK) (hb : BlobInvC cfg b) (k : Key) (ts : Nat) (oip : Bool)
    (hk : k < 256 ^ cfg.klen) (hts : ts < 2 ^ 64) :
    BlobInvC0 cfg (b.delete cfg k ts oip).1 ∧
      (b.delete cfg k ts oip).1.abs = (Store.blobDelete b.abs k ts none oip).1 ∧
      (b.delete cfg k ts oip).2 = (Store.blobDelete b.abs k ts none oip).2 := by
  obtain ⟨x, hx, hrr⟩ := hb.indexLatest_rr hcfg k
  unfold CBlob.delete
  unfold Store.blobDelete
  simp only [hx, hrr.isFound]
  by_cases hgo : (!oip || (b.abs.getLatest k).isFound) = true
  · rw [if_pos hgo, if_pos hgo]
    obtain ⟨hl, hlid, hlg, hlm, hlf⟩ := loadIndex_inv hb
    obtain ⟨hw, hwid, hwg, hwm, _⟩ := writeRec_inv0 hl.toBlobInvC0 hlm ⟨k, ts, true, none, ⟨0, 0⟩⟩ hk hts
    refine ⟨hw, ?_, rfl⟩
    simp only [CBlob.abs, hwid, hwg, hwm, hlid, hlg]
    rfl
  · rw [if_neg hgo, if_neg hgo]
    exact ⟨hb.toBlobInvC0, rfl, rfl⟩

theorem delete_spec {cfg : Cfg} {b : CBlob} (hcfg : cfg.OK) (hb : BlobInvC cfg b) (k : Key) (ts : Nat) (oip : Bool)
    (hk : k < 256 ^ cfg.klen) (hts : ts < 2 ^ 64)
    (hsz : (b.delete cfg k ts oip).1.file.length < 2 ^ 64) :
    BlobInvC cfg (b.delete cfg k ts oip).1 ∧
      (b.delete cfg k ts oip).1.abs = (Store.blobDelete b.abs k ts none oip).1 ∧
      (b.delete cfg k ts oip).2 = (Store.blobDelete b.abs k ts none oip).2 := by
  obtain ⟨h0, h1, h2⟩ := delete_spec0 hcfg hb k ts oip hk hts
  exact ⟨⟨h0, hsz⟩, h1, h2⟩

theorem delete_file {cfg : Cfg} {b : CBlob} (hcfg : cfg.OK) (hb : BlobInvC cfg b) (k : Key) (ts : Nat) (oip : Bool) :
    (b.delete cfg k ts oip).1.file = b.file ∨
      (b.delete cfg k ts oip).1.file = appendRecord b.file (recOf cfg.klen ⟨k, ts, true, none, ⟨0, 0⟩⟩) := by
  unfold CBlob.delete
  simp only []
  obtain ⟨x, hx, _⟩ := hb.indexLatest_rr hcfg k
  simp only [hx]
  by_cases hgo : (!oip || x.isFound) = true
  · rw [if_pos hgo]
    right
    rw [(loadIndex_eq hb).1, writeRec_mem cfg _ _ rfl]
  · rw [if_neg hgo]
    left; rfl

/-! ### `regen`: the index regenerated from the blob file gets the filter of the RUNNING configuration -/

/-- the blob after `Index::new` + `try_regenerate_index` under `cfg` -/
def regenerated (cfg : Cfg) (b : CBlob) : CBlob :=
  { b with index := .mem (indexOf (hdrsOf cfg b.ghost)), filter := filterOf cfg b.ghost }

theorem regen_eq {cfg : Cfg} {b : CBlob} (hb : BlobInvC cfg b) : regen cfg b = some (regenerated cfg b) := by
  unfold regen regenerated
  rw [hb.file, blobHeader_blob]
  simp only []
  by_cases he : b.ghost = []
  · have hlen : ¬ (blobBytes cfg.klen (full b.ghost)).length > blobHeaderSize := by
      rw [he, blobBytes_nil, serBlobHeader_length]; omega
    rw [if_neg hlen, he]
    rfl
  · have hlen : (blobBytes cfg.klen (full b.ghost)).length > blobHeaderSize := blobBytes_length_gt _ _ he
    rw [if_pos hlen]
    rw [scan_blob cfg.klen cfg.validateData b.ghost he (by rw [← hb.file]; exact hb.size) hb.ts]
    simp only []
    rw [foldl_indexPush cfg _ _ [] rfl]
    have hk : (blobHeaders cfg.klen (full b.ghost)).map hdrKey = b.ghost.map (·.key) := hdrsOf_keys cfg b.ghost hb.key
    simp only [hk]
    rfl

theorem regenerated_inv {cfg : Cfg} {b : CBlob} (hcfg : cfg.OK) (hb : BlobInvC cfg b) :
    BlobInvC cfg (regenerated cfg b) := by
  refine ⟨⟨hb.key, hb.ts, hb.file, filterOf_good hcfg b.ghost hb.key, ?_⟩, hb.size⟩
  show IndexInvC cfg _
  unfold IndexInvC
  rfl

/-! ### `reopen`: `Blob::from_file` under a new configuration -/

/-- the blob after `Blob::from_file` under `cfg`: an on-disk index is kept with the filter its file holds, read
    under the `bloom_is_on` of `cfg`; an in-memory index is regenerated with the filter of `cfg` -/
def reopened (cfg : Cfg) (b : CBlob) : CBlob :=
  match b.index with
  | .mem _ => regenerated cfg b
  | .disk _ _ _ => { b with filter := loadedFilter cfg b }

theorem reopen_eq {cfg : Cfg} {b : CBlob} (hcfg : cfg.OK) (hb : BlobInvC cfg b) :
    reopen cfg b = some (reopened cfg b) ∧ BlobInvC cfg (reopened cfg b) := by
  have hidx := hb.index
  unfold IndexInvC at hidx
  unfold reopen reopened
  cases hi : b.index with
  | mem m =>
    simp only []
    exact ⟨regen_eq hb, regenerated_inv hcfg hb⟩
  | disk f metaBuf off =>
    rw [hi] at hidx
    simp only [] at hidx ⊢
    obtain ⟨hne, ⟨c0, hc0, hs⟩, hf⟩ := hidx
    have hlf : loadedFilter cfg b = fromFile cfg.bloomIsOn c0 := by
      unfold loadedFilter
      rw [hi]
      simp only [combinedOfFile_good hc0 hs]
    have hbh : blobHeaderFromFile b.file = .ok BlobHeader.new := by rw [hb.file]; exact blobHeader_blob _ _
    simp only [hbh, combinedOfFile_good hc0 hs, hlf]
    refine ⟨?_, ?_⟩
    · congr 1
      cases b
      simp only at hi
      subst hi
      trivial
    · refine ⟨⟨hb.key, hb.ts, hb.file, fromFile_good hc0 _, ?_⟩, hb.size⟩
      show IndexInvC cfg _
      unfold IndexInvC
      simp only []
      exact ⟨hne, ⟨c0, hc0, hs⟩, hf⟩

theorem reopened_id (cfg : Cfg) (b : CBlob) : (reopened cfg b).id = b.id := by
  unfold reopened regenerated; cases b.index <;> rfl

theorem reopened_ghost (cfg : Cfg) (b : CBlob) : (reopened cfg b).ghost = b.ghost := by
  unfold reopened regenerated; cases b.index <;> rfl

theorem reopened_onDisk (cfg : Cfg) (b : CBlob) : (reopened cfg b).index.onDisk = b.index.onDisk := by
  unfold reopened regenerated; cases b.index <;> rfl

end Pearl.E2E.MC
