import Pearl.Model.EndToEndCfg
import Pearl.Proofs.ContainerLemmas
/-
Sessions with different bloom configurations, lemmas: the MERGE RULE of the node filters
(`Bloom::checked_add_assign`, `Option<Bloom>::checked_add_assign`, `CombinedFilter::checked_add_assign`,
`Inner::merge_filters`), as an exact characterisation of the model functions `Bloom.merge`, `Combined.bloomMerge`,
`Combined.merge`, `Container.mergeFilters` of `Filter.lean` / `Container.lean`.

FINDING (about the model): none.  `Bloom.merge` of `Filter.lean` already has the guard of the code
(`self.hashers.len() != other.hashers.len()` → `false`; both `inner` resident and of equal `len()`), so it is reused as
it is; the lemmas below state the guard as an `iff`.  The configurations (`config`) are NOT compared, neither by the
code nor by the model: two filters of different `elements` / `max_buf_bits_count` / `preferred_false_positive_rate`
merge as soon as hasher count and bit count agree (which is sound: positions depend on these two only).
-/
namespace Pearl.E2E.MC
open Pearl Pearl.E2E

/-- the guard of `Bloom::checked_add_assign` -/
def Mergeable (b o : Bloom) : Prop :=
  b.k = o.k ∧ ∃ v w, b.inner = some v ∧ o.inner = some w ∧ v.bits = w.bits

theorem orWith_isSome_of_bits {v w : ABV} (h : v.bits = w.bits) : ∃ r, v.orWith w = some r := by
  unfold ABV.orWith
  have : (v.bits != w.bits) = false := by simp [h]
  rw [this]
  exact ⟨_, rfl⟩

/-- **the merge rule, raw form**: `checked_add_assign` returns `true` exactly when the hasher counts are equal, both
    bit vectors are resident and their lengths are equal -/
theorem bloom_merge_true_iff (b o : Bloom) : (b.merge o).2 = true ↔ Mergeable b o := by
  constructor
  · intro h
    have hm : b.merge o = ((b.merge o).1, true) := by rw [← h]
    obtain ⟨v, w, r, hv, hw, hk, hbits, _, _⟩ := Bloom.merge_ok b o _ hm
    exact ⟨hk, v, w, hv, hw, hbits⟩
  · rintro ⟨hk, v, w, hv, hw, hbits⟩
    obtain ⟨r, hr⟩ := orWith_isSome_of_bits hbits
    unfold Bloom.merge
    have h1 : (b.k != o.k) = false := by simp [hk]
    have h2 : (v.bits == w.bits) = true := by simp [hbits]
    simp only [h1, hv, hw, h2, hr, Bool.false_eq_true, if_false, if_true]

/-- … in terms of the fields of well-formed filters: equal hasher count AND equal bit count AND neither side
    off-loaded -/
theorem bloom_merge_succeeds_iff (b o : Bloom) (hb : b.WF) (ho : o.WF) :
    (b.merge o).2 = true ↔
      b.k = o.k ∧ b.bits = o.bits ∧ b.isOffloaded = false ∧ o.isOffloaded = false := by
  rw [bloom_merge_true_iff]
  constructor
  · rintro ⟨hk, v, w, hv, hw, hbits⟩
    refine ⟨hk, ?_, by simp [Bloom.isOffloaded, hv], by simp [Bloom.isOffloaded, hw]⟩
    rw [← (hb.1 v hv).2, ← (ho.1 w hw).2]; exact hbits
  · rintro ⟨hk, hbits, h1, h2⟩
    obtain ⟨v, hv⟩ : ∃ v, b.inner = some v := by
      cases hh : b.inner with
      | none => simp [Bloom.isOffloaded, hh] at h1
      | some v => exact ⟨v, rfl⟩
    obtain ⟨w, hw⟩ : ∃ w, o.inner = some w := by
      cases hh : o.inner with
      | none => simp [Bloom.isOffloaded, hh] at h2
      | some w => exact ⟨w, rfl⟩
    refine ⟨hk, v, w, hv, hw, ?_⟩
    rw [(hb.1 v hv).2, (ho.1 w hw).2]; exact hbits

/-- a refused merge leaves `self` as it is -/
theorem bloom_merge_refused (b o : Bloom) (h : (b.merge o).2 = false) : (b.merge o).1 = b := by
  unfold Bloom.merge at h ⊢
  repeat' split
  all_goals first | rfl | (simp_all)

/-- in every other case the flag is `false`: different hasher counts … -/
theorem bloom_merge_hashers (b o : Bloom) (h : b.k ≠ o.k) : b.merge o = (b, false) := by
  unfold Bloom.merge
  have : (b.k != o.k) = true := by simp [h]
  rw [if_pos this]

/-- … different bit counts … -/
theorem bloom_merge_bits (b o : Bloom) (hb : b.WF) (ho : o.WF) (h : b.bits ≠ o.bits) : (b.merge o).2 = false := by
  cases hm : (b.merge o).2 with
  | false => rfl
  | true => exact absurd ((bloom_merge_succeeds_iff b o hb ho).mp hm).2.1 h

/-- … or one side off-loaded -/
theorem bloom_merge_offloaded (b o : Bloom) (h : b.isOffloaded = true ∨ o.isOffloaded = true) :
    (b.merge o).2 = false := by
  cases hm : (b.merge o).2 with
  | false => rfl
  | true =>
    obtain ⟨_, v, w, hv, hw, _⟩ := (bloom_merge_true_iff b o).mp hm
    rcases h with h | h
    · simp [Bloom.isOffloaded, hv] at h
    · simp [Bloom.isOffloaded, hw] at h

/-- **the empty bloom merges only with an empty bloom**: a filter of `bits_count = 0` (what a bloom-less session
    writes into its index files: `Bloom::empty()`) on either side makes `checked_add_assign` succeed only if the other
    side has `bits_count = 0` too (and the same number of hashers) -/
theorem bloom_merge_empty_left (b o : Bloom) (hb : b.WF) (ho : o.WF) (hz : b.bits = 0) (hm : (b.merge o).2 = true) :
    o.bits = 0 ∧ o.k = b.k := by
  obtain ⟨hk, hbits, _, _⟩ := (bloom_merge_succeeds_iff b o hb ho).mp hm
  exact ⟨by rw [← hbits]; exact hz, hk.symm⟩

theorem bloom_merge_empty_right (b o : Bloom) (hb : b.WF) (ho : o.WF) (hz : o.bits = 0) (hm : (b.merge o).2 = true) :
    b.bits = 0 ∧ b.k = o.k := by
  obtain ⟨hk, hbits, _, _⟩ := (bloom_merge_succeeds_iff b o hb ho).mp hm
  exact ⟨by rw [hbits]; exact hz, hk⟩

/-- `Bloom::empty()` itself: merging it into / with a well-formed filter succeeds iff that filter is resident, has no
    bits and no hashers -/
theorem bloom_merge_with_empty (o : Bloom) (ho : o.WF) :
    ((Bloom.empty.merge o).2 = true ↔ o.k = 0 ∧ o.bits = 0 ∧ o.isOffloaded = false) ∧
    ((o.merge Bloom.empty).2 = true ↔ o.k = 0 ∧ o.bits = 0 ∧ o.isOffloaded = false) := by
  have he : Bloom.empty.isOffloaded = false := rfl
  have hk : Bloom.empty.k = 0 := rfl
  have hbt : Bloom.empty.bits = 0 := rfl
  constructor
  · rw [bloom_merge_succeeds_iff _ _ Bloom.empty_WF ho, hk, hbt]
    constructor
    · rintro ⟨h1, h2, _, h4⟩; exact ⟨h1.symm, h2.symm, h4⟩
    · rintro ⟨h1, h2, h3⟩; exact ⟨h1.symm, h2.symm, he, h3⟩
  · rw [bloom_merge_succeeds_iff _ _ ho Bloom.empty_WF, hk, hbt]
    constructor
    · rintro ⟨h1, h2, h3, _⟩; exact ⟨h1, h2, h3⟩
    · rintro ⟨h1, h2, h3⟩; exact ⟨h1, h2, h3, he⟩

/-- a filter made by `Bloom::new` from a configuration with at least one bit never merges with the empty bloom -/
theorem bloom_new_not_merge_empty (cfg : BloomConfig) (bits : Nat) (hbits : 0 < bits) :
    ((Bloom.new cfg bits).merge Bloom.empty).2 = false ∧ (Bloom.empty.merge (Bloom.new cfg bits)).2 = false := by
  have hb : (Bloom.new cfg bits).bits ≠ Bloom.empty.bits := by
    show bits ≠ 0
    omega
  exact ⟨bloom_merge_bits _ _ (Bloom.new_WF _ _) Bloom.empty_WF hb,
    bloom_merge_bits _ _ Bloom.empty_WF (Bloom.new_WF _ _) (Ne.symm hb)⟩

/-! ### `Option<Bloom>`, `CombinedFilter`, `merge_filters` -/

/-- `Option<Bloom>::checked_add_assign`: both absent, or both present and mergeable -/
theorem bloomMerge_true_iff (a o : Option Bloom) :
    (Combined.bloomMerge a o).2 = true ↔
      (a = none ∧ o = none) ∨ ∃ x y, a = some x ∧ o = some y ∧ Mergeable x y := by
  cases a with
  | none =>
    cases o with
    | none => simp [Combined.bloomMerge]
    | some y => simp [Combined.bloomMerge]
  | some x =>
    cases o with
    | none => simp [Combined.bloomMerge]
    | some y =>
      simp only [Combined.bloomMerge, reduceCtorEq, false_and, Option.some.injEq, exists_and_left, false_or]
      rw [bloom_merge_true_iff]
      constructor
      · intro h; exact ⟨x, rfl, y, rfl, h⟩
      · rintro ⟨_, rfl, _, rfl, h⟩; exact h

/-- `CombinedFilter::checked_add_assign` succeeds exactly when its bloom part does (the range part always does) -/
theorem combined_merge_true_iff (c o : Combined) :
    (c.merge o).2 = true ↔
      (c.bloom = none ∧ o.bloom = none) ∨ ∃ x y, c.bloom = some x ∧ o.bloom = some y ∧ Mergeable x y := by
  rw [← bloomMerge_true_iff]
  simp [Combined.merge, Range.merge]

/-- the variant-free `mergeVia` over the real bloom merge is the real `CombinedFilter::checked_add_assign` -/
theorem mergeVia_merge (c o : Combined) : Combined.mergeVia Bloom.merge c o = c.merge o := by
  unfold Combined.mergeVia Combined.merge Range.merge Combined.bloomMerge
  cases c.bloom <;> cases o.bloom <;> rfl

/-- **`merge_filters`**: the node filter after a child filter has been merged in is `Some` exactly when both were
    `Some` and `checked_add_assign` succeeded; **in every other case the node becomes `None`** ("unknown": every key
    passes) — never the stale filter -/
theorem mergeFilters_isSome_iff (h : Nat → Key → Nat) (dest source : Option Combined) :
    (Container.mergeFilters (combinedOps h) dest source).isSome = true ↔
      ∃ d s, dest = some d ∧ source = some s ∧
        ((d.bloom = none ∧ s.bloom = none) ∨ ∃ x y, d.bloom = some x ∧ s.bloom = some y ∧ Mergeable x y) := by
  cases dest with
  | none => simp [Container.mergeFilters]
  | some d =>
    cases source with
    | none => simp [Container.mergeFilters]
    | some s =>
      have : (Container.mergeFilters (combinedOps h) (some d) (some s)).isSome = (d.merge s).2 := by
        show (match Combined.merge d s with | (d', ok) => if ok then some d' else none).isSome = (d.merge s).2
        generalize d.merge s = p
        obtain ⟨d', ok⟩ := p
        cases ok <;> rfl
      rw [this, combined_merge_true_iff]
      constructor
      · intro hh; exact ⟨d, s, rfl, rfl, hh⟩
      · rintro ⟨_, _, hd, hs, hh⟩; cases hd; cases hs; exact hh

theorem mergeFilters_refused (h : Nat → Key → Nat) (d s : Combined) (hr : (d.merge s).2 = false) :
    Container.mergeFilters (combinedOps h) (some d) (some s) = none := by
  show (match Combined.merge d s with | (d', ok) => if ok then some d' else none) = none
  revert hr
  generalize d.merge s = p
  obtain ⟨d', ok⟩ := p
  intro hr
  simp only at hr
  subst hr
  rfl

theorem mergeFilters_merged (h : Nat → Key → Nat) (d s : Combined) (hr : (d.merge s).2 = true) :
    Container.mergeFilters (combinedOps h) (some d) (some s) = some (d.merge s).1 := by
  show (match Combined.merge d s with | (d', ok) => if ok then some d' else none) = some (d.merge s).1
  revert hr
  generalize d.merge s = p
  obtain ⟨d', ok⟩ := p
  intro hr
  simp only at hr
  subst hr
  rfl

/-- the three refusals that matter across configurations, at the level of the node: another hasher count, another
    bit count, a bloom-less child against a node with a bloom filter (or the converse) — the node becomes `None` -/
theorem mergeFilters_across_configs (h : Nat → Key → Nat) (d s : Combined) (x y : Bloom)
    (hd : d.bloom = some x) (hs : s.bloom = some y) (hx : x.WF) (hy : y.WF)
    (hne : x.k ≠ y.k ∨ x.bits ≠ y.bits) :
    Container.mergeFilters (combinedOps h) (some d) (some s) = none := by
  apply mergeFilters_refused
  cases hm : (d.merge s).2 with
  | false => rfl
  | true =>
    rcases (combined_merge_true_iff d s).mp hm with ⟨h1, _⟩ | ⟨x', y', hx', hy', hmg⟩
    · rw [hd] at h1; cases h1
    · rw [hd] at hx'; rw [hs] at hy'; cases hx'; cases hy'
      have := (bloom_merge_succeeds_iff x y hx hy).mp ((bloom_merge_true_iff x y).mpr hmg)
      rcases hne with hne | hne
      · exact absurd this.1 hne
      · exact absurd this.2.1 hne

theorem mergeFilters_bloomless_vs_bloom (h : Nat → Key → Nat) (d s : Combined)
    (hne : d.bloom.isSome ≠ s.bloom.isSome) :
    Container.mergeFilters (combinedOps h) (some d) (some s) = none := by
  apply mergeFilters_refused
  cases hm : (d.merge s).2 with
  | false => rfl
  | true =>
    rcases (combined_merge_true_iff d s).mp hm with ⟨h1, h2⟩ | ⟨x', y', hx', hy', _⟩
    · rw [h1, h2] at hne; exact absurd rfl hne
    · rw [hx', hy'] at hne; exact absurd rfl hne

end Pearl.E2E.MC
