import Pearl.Proofs.EndToEndCfgSteps
/-
Sessions with different bloom configurations, lemmas, part 3: start-up.  Both `restart` (no index files: every index
regenerated under the running configuration) and `restartWith` (`Pearl/Model/EndToEndCfg.lean`: index files kept, the
others regenerated, under a NEW configuration) are instances of one scheme `restartG ρ post`: every blob goes through
`ρ`, the last one (non-lazy) additionally through `post`, the rest is dumped and pushed in id order.
-/
namespace Pearl.E2E.MC
open Pearl Pearl.BPTree Pearl.Container Pearl.E2E

/-- the common shape of the start-up functions -/
def restartG (ρ post : CBlob → CBlob) (cfg : Cfg) (c : CState) (lazy : Bool) : CState :=
  let bs := (sortById c.blobs).map ρ
  let maxNext := bs.foldl (fun m b => max m (b.id + 1)) 0
  if lazy then
    { active := none
      cont := Container.extend (fops cfg) (childOps cfg) (CState.emptyCont cfg) (bs.map (CBlob.dump cfg))
      nextId := maxNext }
  else
    match bs.getLast? with
    | none => ({ active := none, cont := CState.emptyCont cfg, nextId := 0 } : CState).createActive cfg
    | some a =>
      { active := some (post a)
        cont := Container.extend (fops cfg) (childOps cfg) (CState.emptyCont cfg) (bs.dropLast.map (CBlob.dump cfg))
        nextId := maxNext }

theorem BlobInvC.onDisk_of_empty {cfg : Cfg} {b : CBlob} (hb : BlobInvC cfg b) (he : b.ghost = []) :
    b.index.onDisk = false := by
  have := hb.index
  unfold IndexInvC at this
  cases hi : b.index with
  | mem m => rfl
  | disk f mb off => rw [hi] at this; exact absurd he this.1

theorem extend_facts {cfg : Cfg} (hcfg : cfg.OK) (xs : List CBlob) (hxs : ∀ x ∈ xs, BlobInvC cfg x) :
    slotsOf (Container.extend (fops cfg) (childOps cfg) (CState.emptyCont cfg) xs) = xs.map some ∧
    ∃ g, Container.Inv (fops cfg) Combined.WF
        (Container.extend (fops cfg) (childOps cfg) (CState.emptyCont cfg) xs) g ∧
      ∀ j b, (slotsOf (Container.extend (fops cfg) (childOps cfg) (CState.emptyCont cfg) xs))[j]? = some (some b) →
        ∀ r ∈ b.ghost, (fops cfg).coversOpt (g.getD j none) r.key := by
  have hnew : Container.Inv (fops cfg) Combined.WF (CState.emptyCont cfg) [] :=
    C10.node_filter_sup_new cfg.group 1 hcfg.group
  have hok : ∀ x ∈ xs, okOpt Combined.WF ((childOps cfg).filterOf x) := by
    intro x hx f hf
    cases hf
    exact (hxs x hx).filter.wf
  have hsl := extend_slots (C10.combined_laws cfg.h) (childOps cfg) xs _ _ hnew hok
  have hsl' : slotsOf (Container.extend (fops cfg) (childOps cfg) (CState.emptyCont cfg) xs) = xs.map some := by
    rw [hsl]; rfl
  refine ⟨hsl', _, C10.node_filter_sup_extend (C10.combined_laws cfg.h) (childOps cfg) xs _ _ hnew hok, ?_⟩
  intro j b hj r hr
  rw [hsl', List.getElem?_map] at hj
  cases hx : xs[j]? with
  | none => rw [hx] at hj; cases hj
  | some x =>
    rw [hx] at hj
    simp only [Option.map_some, Option.some.injEq] at hj
    have hgd : ([] ++ xs.map (childOps cfg).filterOf).getD j none = some x.filter := by
      simp [List.getD_eq_getElem?_getD, hx, childOps]
    rw [hgd, hj]
    exact (hxs b (hj ▸ List.mem_of_getElem? hx)).filter.covers r hr

/-- what the scheme needs from `ρ` / `post`: the invariant is kept, id and records are kept -/
def Keeps (cfg : Cfg) (ρ : CBlob → CBlob) : Prop :=
  ∀ b, BlobInvC cfg b → BlobInvC cfg (ρ b) ∧ (ρ b).id = b.id ∧ (ρ b).ghost = b.ghost

theorem dump_keeps_abs {cfg : Cfg} {ρ : CBlob → CBlob} (hρ : Keeps cfg ρ) {b : CBlob} (hb : BlobInvC cfg b) :
    ((ρ b).dump cfg).abs = if b.abs.recs.isEmpty then b.abs else { b.abs with onDisk := true } := by
  obtain ⟨hi, hid, hg⟩ := hρ b hb
  rw [dump_abs hi]
  by_cases he : b.ghost = []
  · have h1 : b.abs.recs.isEmpty = true := by simp [CBlob.abs, he]
    have h2 : (ρ b).abs.recs.isEmpty = true := by simp [CBlob.abs, hg, he]
    simp only [h1, h2, if_true]
    simp only [CBlob.abs, hid, hg, hb.onDisk_of_empty he, hi.onDisk_of_empty (by rw [hg]; exact he)]
  · have h1 : b.abs.recs.isEmpty = false := by
      simp only [CBlob.abs]
      cases hgg : b.ghost with
      | nil => exact absurd hgg he
      | cons _ _ => rfl
    have h2 : (ρ b).abs.recs.isEmpty = false := by
      simp only [CBlob.abs, hg]
      cases hgg : b.ghost with
      | nil => exact absurd hgg he
      | cons _ _ => rfl
    simp only [h1, h2, Bool.false_eq_true, if_false]
    simp only [CBlob.abs, hid, hg]

theorem restartG_ref {cfg : Cfg} {c : CState} (hcfg : cfg.OK) (hinv : CInvC cfg c) (ρ post : CBlob → CBlob)
    (hρ : Keeps cfg ρ)
    (hpost : ∀ b, BlobInvC cfg b → BlobInvC cfg (post (ρ b)) ∧ (post (ρ b)).id = b.id ∧
      (post (ρ b)).ghost = b.ghost ∧ (post (ρ b)).index.onDisk = false)
    (lazy : Bool) :
    (restartG ρ post cfg c lazy).abs cfg = (c.abs cfg).restart lazy ∧ CInvC cfg (restartG ρ post cfg c lazy) := by
  have hL : ∀ b ∈ sortById c.blobs, BlobInvC cfg b := fun b hb => CInvG.blobInv hinv (mem_sortById.mp hb)
  have hLabs : (sortById c.blobs).map CBlob.abs = Store.sortById (c.abs cfg).blobs := by
    rw [sortById_map, abs_blobs]
  have hmaxg : ∀ (l : List CBlob) (m : Nat), (∀ b ∈ l, BlobInvC cfg b) →
      (l.map ρ).foldl (fun m b => max m (b.id + 1)) m = (l.map CBlob.abs).foldl (fun m b => max m (b.id + 1)) m := by
    intro l
    induction l with
    | nil => intro m _; rfl
    | cons x xs ih =>
      intro m hl
      simp only [List.map_cons, List.foldl_cons]
      rw [(hρ x (hl x (by simp))).2.1]
      exact ih _ (fun b hb => hl b (by simp [hb]))
  have hmax := hmaxg (sortById c.blobs) 0 hL
  have hdumpabs : ∀ (l : List CBlob), (∀ b ∈ l, BlobInvC cfg b) →
      (((l.map ρ).map (CBlob.dump cfg)).map some).map (Option.map CBlob.abs)
        = (l.map CBlob.abs).map
            (fun b => some (if b.recs.isEmpty then b else { b with onDisk := true })) := by
    intro l hl
    simp only [List.map_map]
    apply List.map_congr_left
    intro b hb
    simp only [Function.comp_apply, Option.map_some]
    rw [dump_keeps_abs hρ (hl b hb)]
  have hdumpinv : ∀ (l : List CBlob), (∀ b ∈ l, BlobInvC cfg b) →
      ∀ x ∈ (l.map ρ).map (CBlob.dump cfg), BlobInvC cfg x := by
    intro l hl x hx
    simp only [List.map_map, List.mem_map, Function.comp_apply] at hx
    obtain ⟨b, hb, rfl⟩ := hx
    exact (dump_inv (hρ b (hl b hb)).1).1
  have happly : (c.abs cfg).apply (.restart lazy) = (c.abs cfg).restart lazy := rfl
  suffices h : (restartG ρ post cfg c lazy).abs cfg = (c.abs cfg).restart lazy ∧
      (∀ a, (restartG ρ post cfg c lazy).active = some a → BlobInvC cfg a ∧ a.index.onDisk = false) ∧
      (∀ b, some b ∈ slotsOf (restartG ρ post cfg c lazy).cont → BlobInvC cfg b) ∧
      (∃ g, Container.Inv (fops cfg) Combined.WF (restartG ρ post cfg c lazy).cont g ∧
        ∀ j b, (slotsOf (restartG ρ post cfg c lazy).cont)[j]? = some (some b) →
          ∀ r ∈ b.ghost, (fops cfg).coversOpt (g.getD j none) r.key) by
    obtain ⟨h1, h2, h3, h4⟩ := h
    refine ⟨h1, ?_, h2, h3, h4⟩
    rw [h1, ← happly]; exact apply_WF hinv.wf (.restart lazy)
  unfold restartG Store.restart
  rw [← hLabs]
  simp only []
  cases lazy with
  | true =>
    simp only [if_true]
    obtain ⟨hs, hg⟩ := extend_facts hcfg _ (hdumpinv _ hL)
    refine ⟨?_, ?_, ?_, hg⟩
    · apply Store.ext'
      · rfl
      · rw [abs_slots]
        show List.map (Option.map CBlob.abs) (slotsOf (Container.extend _ _ _ _)) = _
        rw [hs, hdumpabs _ hL]
      · exact hmax
      · rfl
    · intro a h; cases h
    · intro b hb
      rw [hs] at hb
      obtain ⟨x, hx, hxe⟩ := List.mem_map.mp hb
      cases hxe
      exact hdumpinv _ hL _ hx
  | false =>
    simp only [Bool.false_eq_true, if_false]
    rw [List.getLast?_map, List.getLast?_map]
    cases hlast : (sortById c.blobs).getLast? with
    | none =>
      simp only [Option.map_none]
      refine ⟨rfl, ?_, ?_, ?_⟩
      · intro a h
        simp only [CState.createActive, Option.some.injEq] at h
        subst h
        exact ⟨openNew_inv hcfg _, rfl⟩
      · intro b hb
        simp [CState.createActive, CState.emptyCont, slotsOf_new] at hb
      · refine ⟨[], C10.node_filter_sup_new cfg.group 1 hcfg.group, ?_⟩
        intro j b hj
        simp [CState.createActive, CState.emptyCont, slotsOf_new] at hj
    | some a =>
      simp only [Option.map_some]
      have hLd : ∀ b ∈ (sortById c.blobs).dropLast, BlobInvC cfg b :=
        fun b hb => hL b (List.dropLast_subset _ hb)
      have hdl : ((sortById c.blobs).map ρ).dropLast = (sortById c.blobs).dropLast.map ρ :=
        List.map_dropLast.symm
      rw [hdl]
      obtain ⟨hs, hg⟩ := extend_facts hcfg _ (hdumpinv _ hLd)
      have ha := hL a (List.mem_of_getLast? hlast)
      obtain ⟨hpa, hpid, hpg, hpd⟩ := hpost a ha
      refine ⟨?_, ?_, ?_, hg⟩
      · apply Store.ext'
        · show some (post (ρ a)).abs = some { a.abs with onDisk := false }
          simp only [CBlob.abs, hpid, hpg, hpd]
        · rw [abs_slots]
          show List.map (Option.map CBlob.abs) (slotsOf (Container.extend _ _ _ _)) = _
          rw [hs, hdumpabs _ hLd, List.map_dropLast]
        · exact hmax
        · rfl
      · intro a' h
        simp only [Option.some.injEq] at h
        subst h
        exact ⟨hpa, hpd⟩
      · intro b hb
        rw [hs] at hb
        obtain ⟨x, hx, hxe⟩ := List.mem_map.mp hb
        cases hxe
        exact hdumpinv _ hLd _ hx

/-! ### `restart`: no index files -/

theorem regenAll_eq {cfg : Cfg} : ∀ (l : List CBlob), (∀ b ∈ l, BlobInvC cfg b) →
    regenAll cfg l = some (l.map (regenerated cfg))
  | [], _ => rfl
  | b :: l, h => by
    simp only [regenAll, regen_eq (h b (by simp)), regenAll_eq l (fun x hx => h x (by simp [hx])), List.map_cons]

theorem restart_eq {cfg : Cfg} {c : CState} (hinv : CInvC cfg c) (lazy : Bool) :
    c.restart cfg lazy = restartG (regenerated cfg) id cfg c lazy := by
  have hL : ∀ b ∈ sortById c.blobs, BlobInvC cfg b := fun b hb => CInvG.blobInv hinv (mem_sortById.mp hb)
  unfold CState.restart restartG
  rw [regenAll_eq _ hL]
  rfl

theorem restart_ref {cfg : Cfg} {c : CState} (hcfg : cfg.OK) (hinv : CInvC cfg c) (lazy : Bool) :
    (c.step cfg (.restart lazy)).abs cfg = (c.abs cfg).apply (.restart lazy) ∧
      CInvC cfg (c.step cfg (.restart lazy)) := by
  have hstep : c.step cfg (.restart lazy) = c.restart cfg lazy := rfl
  have happly : (c.abs cfg).apply (.restart lazy) = (c.abs cfg).restart lazy := rfl
  rw [hstep, happly, restart_eq hinv]
  exact restartG_ref hcfg hinv _ _ (fun b hb => ⟨regenerated_inv hcfg hb, rfl, rfl⟩)
    (fun b hb => ⟨regenerated_inv (b := b) hcfg hb, rfl, rfl, rfl⟩) lazy

end Pearl.E2E.MC
