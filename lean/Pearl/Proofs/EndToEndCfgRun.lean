import Pearl.Proofs.EndToEndCfgRestart
/-
Sessions with different bloom configurations, lemmas, part 4: every operation of a session, the start-up under a new
configuration (`restartWith`), and histories of several sessions (`XState.run`).
-/
namespace Pearl.E2E.MC
open Pearl Pearl.BPTree Pearl.Container Pearl.E2E

/-! ### every operation of a session -/

theorem step_ref0 {cfg : Cfg} {c : CState} (hcfg : cfg.OK) (hinv : CInvC cfg c) (op : COp) (hop : op.OK cfg) :
    (c.step cfg op).abs cfg = (c.abs cfg).apply op.abs ∧ CInvC0 cfg (c.step cfg op) := by
  cases op with
  | write k ts d => exact write_ref0 hcfg hinv k ts d hop.1 hop.2
  | delete k ts oip => exact delete_ref0 hcfg hinv k ts oip hop.1 hop.2
  | closeActive => exact ⟨(closeActive_ref hinv).1, (closeActive_ref hinv).2.toCInvC0⟩
  | createActive => exact ⟨(createActive_step_ref hcfg hinv).1, (createActive_step_ref hcfg hinv).2.toCInvC0⟩
  | restoreActive => exact ⟨(restoreActive_ref hcfg hinv).1, (restoreActive_ref hcfg hinv).2.toCInvC0⟩
  | replaceActive => exact ⟨(replaceActive_ref hcfg hinv).1, (replaceActive_ref hcfg hinv).2.toCInvC0⟩
  | settle => exact ⟨(settle_ref hinv).1, (settle_ref hinv).2.toCInvC0⟩
  | restart lazy => exact ⟨(restart_ref hcfg hinv lazy).1, (restart_ref hcfg hinv lazy).2.toCInvC0⟩

theorem step_ref {cfg : Cfg} {c : CState} (hcfg : cfg.OK) (hinv : CInvC cfg c) (op : COp) (hop : op.OK cfg)
    (hsz : StoreSized cfg.klen ((c.abs cfg).apply op.abs)) :
    (c.step cfg op).abs cfg = (c.abs cfg).apply op.abs ∧ CInvC cfg (c.step cfg op) := by
  obtain ⟨h1, h2⟩ := step_ref0 hcfg hinv op hop
  exact ⟨h1, h2.toCInvC (by rw [h1]; exact hsz)⟩

/-- the single-configuration invariant is an instance -/
theorem CInvC.ofCInv {cfg : Cfg} {c : CState} (hcfg : cfg.OK) (h : CInv cfg c) : CInvC cfg c :=
  ⟨h.wf, fun a ha => ⟨BlobInvC.ofBlobInv hcfg (h.active a ha).1, (h.active a ha).2⟩,
    fun b hb => BlobInvC.ofBlobInv hcfg (h.closed b hb), h.cont⟩

theorem init_inv {cfg : Cfg} (hcfg : cfg.OK) : CInvC cfg (CState.init cfg) :=
  CInvC.ofCInv hcfg (Pearl.E2E.init_inv hcfg)

/-! ### the configuration of the session changes -/

/-- the invariant does not depend on the bloom configuration of the session -/
theorem CInvC.withBloom {cfg : Cfg} {c : CState} (h : CInvC cfg c) (bl : Option (BloomConfig × Nat)) :
    CInvC (cfg.withBloom bl) c :=
  ⟨h.wf, fun a ha => ⟨(h.active a ha).1.withBloom bl, (h.active a ha).2⟩,
    fun b hb => (h.closed b hb).withBloom bl, h.cont⟩

theorem abs_withBloom (cfg : Cfg) (bl : Option (BloomConfig × Nat)) (c : CState) :
    c.abs (cfg.withBloom bl) = c.abs cfg := rfl

end Pearl.E2E.MC
namespace Pearl.E2E

/-- the new configuration is admissible: its bloom parameters fit their wire fields -/
def BloomOK (bl : Option (BloomConfig × Nat)) : Prop := ∀ p, bl = some p → (Bloom.new p.1 p.2).Bounded

theorem Cfg.OK.withBloom {cfg : Cfg} (hcfg : cfg.OK) {bl : Option (BloomConfig × Nat)} (hbl : BloomOK bl) :
    (cfg.withBloom bl).OK :=
  ⟨hcfg.klen, hcfg.group, hbl⟩

/-- range side-conditions on the inputs: those of the session operations, and bloom parameters that fit their wire
    fields for every new configuration -/
def XOp.OK (cfg : Cfg) : XOp → Prop
  | .op o => o.OK cfg
  | .restartWith bl _ => BloomOK bl

instance instDecidableBloomBoundedX (b : Bloom) : Decidable b.Bounded := by unfold Bloom.Bounded; infer_instance

instance instDecidableBloomOKX (bl : Option (BloomConfig × Nat)) : Decidable (BloomOK bl) :=
  match bl with
  | none => isTrue (fun _ h => by cases h)
  | some p =>
    if h : (Bloom.new p.1 p.2).Bounded then isTrue (fun q hq => by cases hq; exact h)
    else isFalse (fun hh => h (hh p rfl))

instance instDecidableXOpOK (cfg : Cfg) (o : XOp) : Decidable (o.OK cfg) := by
  cases o <;> unfold XOp.OK <;> infer_instance

/-- the L2 state of a multi-session storage -/
def XState.abs (x : XState) : Store := x.st.abs x.cfg

end Pearl.E2E
namespace Pearl.E2E.MC
open Pearl Pearl.BPTree Pearl.Container Pearl.E2E

theorem reopenAll_eq {cfg : Cfg} (hcfg : cfg.OK) : ∀ (l : List CBlob), (∀ b ∈ l, BlobInvC cfg b) →
    reopenAll cfg l = some (l.map (reopened cfg))
  | [], _ => rfl
  | b :: l, h => by
    simp only [reopenAll, (reopen_eq hcfg (h b (by simp))).1, reopenAll_eq hcfg l (fun x hx => h x (by simp [hx])),
      List.map_cons]

theorem restartWith_eq {cfg : Cfg} {c : CState} (hcfg : cfg.OK) (hinv : CInvC cfg c) (lazy : Bool) :
    c.restartWith cfg lazy = restartG (reopened cfg) (CBlob.loadIndex cfg) cfg c lazy := by
  have hL : ∀ b ∈ sortById c.blobs, BlobInvC cfg b := fun b hb => CInvG.blobInv hinv (mem_sortById.mp hb)
  unfold CState.restartWith CState.restartWithOps restartG
  rw [reopenAll_eq hcfg _ hL]
  rfl

/-- **start-up under the configuration `cfg`** of a storage that satisfies the (configuration-independent) invariant:
    the L2 restart, and the invariant again -/
theorem restartWith_ref {cfg : Cfg} {c : CState} (hcfg : cfg.OK) (hinv : CInvC cfg c) (lazy : Bool) :
    (c.restartWith cfg lazy).abs cfg = (c.abs cfg).restart lazy ∧ CInvC cfg (c.restartWith cfg lazy) := by
  rw [restartWith_eq hcfg hinv]
  refine restartG_ref hcfg hinv _ _ ?_ ?_ lazy
  · intro b hb
    exact ⟨(reopen_eq hcfg hb).2, reopened_id cfg b, reopened_ghost cfg b⟩
  · intro b hb
    obtain ⟨h1, h2, h3, h4, _⟩ := loadIndex_inv (reopen_eq hcfg hb).2
    exact ⟨h1, by rw [h2, reopened_id], by rw [h3, reopened_ghost], h4⟩

/-! ### histories of several sessions -/

theorem COp.OK_withBloom {cfg : Cfg} {bl : Option (BloomConfig × Nat)} {o : COp} (h : o.OK cfg) :
    o.OK (cfg.withBloom bl) := by
  cases o <;> exact h

/-- the invariant of a storage with its running configuration, relative to the configuration it was created with -/
structure XInv (cfg0 : Cfg) (x : XState) : Prop where
  same : ∃ bl, x.cfg = cfg0.withBloom bl
  ok : x.cfg.OK
  inv : CInvC x.cfg x.st

theorem XState.step_eq (x : XState) (o : XOp) :
    x.step o = match o with
      | .op o => { x with st := x.st.step x.cfg o }
      | .restartWith bl lazy => { cfg := x.cfg.withBloom bl, st := x.st.restartWith (x.cfg.withBloom bl) lazy } := by
  cases o <;> rfl

theorem xstep_ref {cfg0 : Cfg} {x : XState} (hx : XInv cfg0 x) (o : XOp) (ho : o.OK cfg0)
    (hsz : StoreSized cfg0.klen (x.abs.apply o.abs)) :
    (x.step o).abs = x.abs.apply o.abs ∧ XInv cfg0 (x.step o) := by
  obtain ⟨bl0, hsame⟩ := hx.same
  have hklen : x.cfg.klen = cfg0.klen := by rw [hsame]; rfl
  cases o with
  | op o =>
    have ho' : o.OK x.cfg := by rw [hsame]; exact COp.OK_withBloom ho
    obtain ⟨h1, h2⟩ := step_ref hx.ok hx.inv o ho' (by rw [hklen]; exact hsz)
    exact ⟨h1, ⟨⟨bl0, hsame⟩, hx.ok, h2⟩⟩
  | restartWith bl lazy =>
    have hok' : (x.cfg.withBloom bl).OK := hx.ok.withBloom ho
    obtain ⟨h1, h2⟩ := restartWith_ref hok' (hx.inv.withBloom bl) lazy
    refine ⟨h1, ⟨⟨bl, ?_⟩, hok', h2⟩⟩
    show x.cfg.withBloom bl = cfg0.withBloom bl
    rw [hsame]; rfl

theorem xinit_inv {cfg : Cfg} (hcfg : cfg.OK) : XInv cfg (XState.init cfg) :=
  ⟨⟨cfg.bloom, rfl⟩, hcfg, init_inv hcfg⟩

theorem xinit_abs (cfg : Cfg) : (XState.init cfg).abs = Store.init cfg.allowDup := rfl

theorem xrun_cons (x : XState) (o : XOp) (os : List XOp) : x.run (o :: os) = (x.step o).run os := rfl

theorem xrun_ref_from {cfg0 : Cfg} : ∀ (ops : List XOp) (x : XState), XInv cfg0 x →
    (∀ op ∈ ops, op.OK cfg0) →
    (∀ n, n ≤ ops.length → StoreSized cfg0.klen (x.abs.run ((ops.take n).map XOp.abs))) →
    (x.run ops).abs = x.abs.run (ops.map XOp.abs) ∧ XInv cfg0 (x.run ops)
  | [], x, hinv, _, _ => ⟨rfl, hinv⟩
  | op :: ops, x, hinv, hops, hsz => by
    have h1 := hsz 1 (by simp)
    simp only [List.take_succ_cons, List.take_zero, List.map_cons, List.map_nil, Store.run_cons, Store.run_nil] at h1
    obtain ⟨ha, hi⟩ := xstep_ref hinv op (hops op (by simp)) h1
    have := xrun_ref_from ops (x.step op) hi (fun o ho => hops o (by simp [ho]))
      (by
        intro n hn
        have := hsz (n + 1) (by simp; omega)
        simp only [List.take_succ_cons, List.map_cons, Store.run_cons] at this
        rw [ha]; exact this)
    rw [xrun_cons, List.map_cons, Store.run_cons, ← ha]
    exact this

/-- **refinement along every history of sessions from the empty storage**: the L2 history (every `restartWith` is
    the L2 `restart`), and the invariant, under the configuration that is running at the end -/
theorem xrun_ref {cfg : Cfg} (hcfg : cfg.OK) (ops : List XOp) (hops : ∀ op ∈ ops, op.OK cfg)
    (hsz : StoreSized cfg.klen ((Store.init cfg.allowDup).run (ops.map XOp.abs))) :
    ((XState.init cfg).run ops).abs = (Store.init cfg.allowDup).run (ops.map XOp.abs) ∧
      XInv cfg ((XState.init cfg).run ops) := by
  have := xrun_ref_from ops (XState.init cfg) (xinit_inv hcfg) hops (by
    intro n _
    rw [xinit_abs, List.map_take]
    exact storeSized_prefix cfg.klen (init_WF _) _ hsz n)
  rw [xinit_abs] at this
  exact this

/-- the configuration running after a history: the last `restartWith` decides -/
theorem xrun_cfg (cfg : Cfg) : ∀ (ops : List XOp) (x : XState), (∃ bl, x.cfg = cfg.withBloom bl) →
    (x.run ops).cfg = cfg.withBloom (((XOp.blooms ops).getLast?).getD x.cfg.bloom)
  | [], x, ⟨bl, h⟩ => by
    show x.cfg = _
    rw [h]; rfl
  | .op o :: ops, x, h => by
    rw [xrun_cons]
    have := xrun_cfg cfg ops (x.step (.op o)) h
    rw [this]; rfl
  | .restartWith b lazy :: ops, x, ⟨bl, h⟩ => by
    rw [xrun_cons]
    have := xrun_cfg cfg ops (x.step (.restartWith b lazy)) ⟨b, by
      show x.cfg.withBloom b = cfg.withBloom b
      rw [h]; rfl⟩
    rw [this]
    show cfg.withBloom (((XOp.blooms ops).getLast?).getD b) = cfg.withBloom (((b :: XOp.blooms ops).getLast?).getD _)
    cases hb : XOp.blooms ops with
    | nil => rfl
    | cons y ys =>
      rw [List.getLast?_cons_cons]
      cases hz : (y :: ys).getLast? with
      | none => simp at hz
      | some z => rfl

end Pearl.E2E.MC
