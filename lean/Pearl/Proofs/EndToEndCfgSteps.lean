import Pearl.Proofs.EndToEndCfgBlob
import Pearl.Proofs.EndToEndSteps
/-
Sessions with different bloom configurations, lemmas, part 2: the storage invariant over `BlobInvC` (`CInvC`), the read
path under it, and every operation of a session (`COp`) refining its L2 operation and keeping `CInvC`.  The proofs are
those of `EndToEndLemmas.lean` / `EndToEndSteps.lean` with the blob lemmas of `EndToEndCfgBlob.lean`.
-/
namespace Pearl.E2E.MC
open Pearl Pearl.BPTree Pearl.Container Pearl.E2E

/-- the invariant of the storage, for blobs with filters of any geometry -/
abbrev CInvC (cfg : Cfg) (c : CState) : Prop := CInvG (BlobInvC cfg) cfg c

/-- … without the size conditions on the blob files -/
abbrev CInvC0 (cfg : Cfg) (c : CState) : Prop := CInvG (BlobInvC0 cfg) cfg c

theorem CInvC.toCInvC0 {cfg : Cfg} {c : CState} (h : CInvC cfg c) : CInvC0 cfg c :=
  ⟨h.wf, fun a ha => ⟨(h.active a ha).1.toBlobInvC0, (h.active a ha).2⟩, fun b hb => (h.closed b hb).toBlobInvC0, h.cont⟩

/-- the size conditions follow from the L2 state: every blob of the abstraction has an L5 image shorter than
    `2^64` bytes -/
theorem CInvC0.toCInvC {cfg : Cfg} {c : CState} (h : CInvC0 cfg c)
    (hsz : ∀ ab ∈ (c.abs cfg).blobs, (blobBytes cfg.klen (full ab.recs)).length < 2 ^ 64) : CInvC cfg c := by
  have hb : ∀ b ∈ c.blobs, BlobInvC cfg b := by
    intro b hb
    have h0 : BlobInvC0 cfg b := CInvG.blobInv h hb
    refine ⟨h0, ?_⟩
    rw [h0.file]
    exact hsz b.abs (by rw [abs_blobs]; exact List.mem_map.mpr ⟨b, hb, rfl⟩)
  refine ⟨h.wf, fun a ha => ⟨hb a ?_, (h.active a ha).2⟩, fun b hbs => hb b ?_, h.cont⟩
  · unfold CState.blobs; rw [ha]; simp
  · unfold CState.blobs
    exact List.mem_append_left _ (mem_closedBlobs.mpr hbs)


/-- **the read path, composed**: under the invariant the concrete `get_latest_entry` does not fail and its
    answer represents the L2 answer.  Layers used: C10 (`possible_rev_complete_stack`, blob `check_filter`) to
    turn the filter pruning into a predicate that never prunes a blob holding the key; C01 `prune_transparent`
    to remove it; C09 / C05 inside `BlobInvC.indexLatest_rr`. -/
theorem getLatestEntry_rr {cfg : Cfg} {c : CState} (hcfg : cfg.OK) (hinv : CInvC cfg c) (k : Key) :
    ∃ x, c.getLatestEntry cfg k = .ok x ∧ RR ((c.abs cfg).getLatestEntry k none) x := by
  obtain ⟨g, hci, hcov⟩ := hinv.cont
  have hspec := C10.possible_rev_complete_stack c.cont g k hci
  -- the blobs in visiting order, and the consulted ones among them
  have hsub := consulted_sublist cfg c g hci k
  have hfull : ∀ b ∈ c.active.toList ++ (closedBlobs c.cont).reverse, BlobInvC cfg b := by
    intro b hb
    apply CInvG.blobInv hinv
    unfold CState.blobs
    rcases List.mem_append.mp hb with h | h
    · exact List.mem_append_right _ h
    · exact List.mem_append_left _ (List.mem_reverse.mp h)
  have hcons : ∀ b ∈ c.consulted cfg k, BlobInvC cfg b := fun b hb => hfull b (hsub.subset hb)
  -- concrete fold against the L2 fold with explicit pruning
  let pass : CBlob → Bool := fun b => !(b.checkFilter cfg k == .notContains)
  obtain ⟨y, hy, hrr⟩ := fold_sim (fun b => b.getLatestEntry cfg k)
    (fun b => if pass b then b.abs.getLatest k else .notFound) (c.consulted cfg k) .notFound .notFound trivial
    (by
      intro b hb
      obtain ⟨x, hx, hxr⟩ := (hcons b hb).indexLatest_rr hcfg k
      unfold CBlob.getLatestEntry
      by_cases hp : (b.checkFilter cfg k == .notContains) = true
      · rw [if_pos hp]
        refine ⟨_, rfl, ?_⟩
        simp only [pass, hp, Bool.not_true, Bool.false_eq_true, if_false]
        trivial
      · rw [if_neg hp]
        refine ⟨x, hx, ?_⟩
        have : pass b = true := by simp only [pass]; simpa using hp
        rw [if_pos this]; exact hxr)
  refine ⟨y, hy, ?_⟩
  rw [foldl_pruned] at hrr
  -- the surviving blobs are a filter of the L2 visiting order
  let P := (c.consulted cfg k).filter pass
  have hPsub : (P.map CBlob.abs).Sublist (c.abs cfg).visit := by
    rw [abs_visit]
    exact ((List.filter_sublist (l := c.consulted cfg k)).trans hsub).map _
  have hPeq := sublist_eq_filter hPsub (visit_nodup hinv.wf)
  let prune : Blob → Key → Bool := fun ab _ => !(P.map CBlob.abs).contains ab
  have hP : (c.abs cfg).getLatestEntryP prune k none =
      P.foldl (fun acc b => acc.latest (b.abs.getLatest k)) .notFound := by
    unfold Store.getLatestEntryP
    have : (fun b => !prune b k) = fun x => (P.map CBlob.abs).contains x := by
      funext x; simp [prune]
    rw [this, ← hPeq, List.foldl_map]
    rfl
  rw [← hP, Pearl.prune_transparent] at hrr
  · exact hrr
  -- C10: a pruned blob does not hold the key
  intro ab hab hpr r hr hk
  have habv : ab ∈ (c.abs cfg).visit := Store.mem_visit.mpr hab
  rw [abs_visit] at habv
  obtain ⟨b, hbfull, rfl⟩ := List.mem_map.mp habv
  have hbinv := hfull b hbfull
  have hnotP : b ∉ P := by
    intro hbP
    simp [prune] at hpr
    exact hpr b hbP rfl
  apply hnotP
  have hr' : r ∈ b.ghost := hr
  rw [List.mem_filter]
  refine ⟨?_, ?_⟩
  · -- the blob is consulted
    unfold CState.consulted
    rcases List.mem_append.mp hbfull with h | h
    · exact List.mem_append_left _ h
    · apply List.mem_append_right
      have hsl := mem_closedBlobs.mp (List.mem_reverse.mp h)
      obtain ⟨j, hj⟩ := List.mem_iff_getElem?.mp hsl
      obtain ⟨lf, hlf, hdata⟩ := slots_some_getChild hj
      have hc := hcov j b hj r hr'
      rw [hk] at hc
      have hjit := hspec.2.2.2 j lf hlf hc
      exact List.mem_filterMap.mpr ⟨j, hjit, by rw [hlf]; simp [hdata]⟩
  · -- and passes its own filter check
    have := hbinv.checkFilter_no_fn k ⟨r, hr', hk⟩
    simp only [pass]
    cases hcf : b.checkFilter cfg k with
    | notContains => exact absurd hcf this
    | needAdditionalCheck => rfl

theorem contains_eq {cfg : Cfg} {c : CState} (hcfg : cfg.OK) (hinv : CInvC cfg c) (k : Key) :
    c.contains cfg k = .ok ((c.abs cfg).contains k) := by
  obtain ⟨x, hx, hrr⟩ := getLatestEntry_rr hcfg hinv k
  unfold CState.contains Store.contains
  rw [hx]
  simp only [hrr.map_ts]

theorem read_eq {cfg : Cfg} {c : CState} (hcfg : cfg.OK) (hinv : CInvC cfg c) (k : Key) :
    c.read cfg k = .ok (((c.abs cfg).read k none).map (fun r => dataOf r.data)) := by
  obtain ⟨x, hx, hrr⟩ := getLatestEntry_rr hcfg hinv k
  unfold CState.read Store.read
  rw [hx]
  cases ha : (c.abs cfg).getLatestEntry k none with
  | notFound =>
    rw [ha] at hrr
    cases x <;> simp_all [RR, ReadResult.map]
  | deleted t =>
    rw [ha] at hrr
    cases x <;> simp_all [RR, ReadResult.map]
  | found r =>
    rw [ha] at hrr
    cases x with
    | found e =>
      obtain ⟨_, _, hload⟩ := hrr
      simp only [hload, ReadResult.map]
    | deleted t => exact absurd hrr (by simp [RR])
    | notFound => exact absurd hrr (by simp [RR])


/-! ### `createActive`, `ensureActive` -/

theorem createActive_ref {cfg : Cfg} {c : CState} (hcfg : cfg.OK) (hinv : CInvC cfg c) (hnone : c.active = none) :
    CInvC cfg (c.createActive cfg) := by
  refine ⟨?_, ?_, hinv.closed, hinv.cont⟩
  · rw [createActive_abs, ← apply_createActive_of_none (by rw [abs_active, hnone]; rfl)]
    exact apply_WF hinv.wf _
  · intro a ha
    simp only [CState.createActive, Option.some.injEq] at ha
    subst ha
    exact ⟨openNew_inv hcfg _, rfl⟩

theorem ensureActive_inv {cfg : Cfg} {c : CState} (hcfg : cfg.OK) (hinv : CInvC cfg c) : CInvC cfg (c.ensureActive cfg) := by
  unfold CState.ensureActive
  cases ha : c.active with
  | none => exact createActive_ref hcfg hinv ha
  | some a => exact hinv

/-! ### `write` -/

theorem write_ref0 {cfg : Cfg} {c : CState} (hcfg : cfg.OK) (hinv : CInvC cfg c) (k : Key) (ts : Nat) (d : Data)
    (hk : k < 256 ^ cfg.klen) (hts : ts < 2 ^ 64) :
    (c.write cfg k ts d).abs cfg = (c.abs cfg).write k ts none d ∧ CInvC0 cfg (c.write cfg k ts d) := by
  suffices h : (c.write cfg k ts d).abs cfg = (c.abs cfg).write k ts none d ∧
      (∀ a, (c.write cfg k ts d).active = some a → BlobInvC0 cfg a ∧ a.index.onDisk = false) ∧
      (c.write cfg k ts d).cont = c.cont by
    obtain ⟨h1, h2, h3⟩ := h
    refine ⟨h1, ?_, h2, ?_, ?_⟩
    · rw [h1]; exact apply_WF hinv.wf (.write k ts none d)
    · rw [h3]; exact hinv.toCInvC0.closed
    · rw [h3]; exact hinv.cont
  have hinv1 := ensureActive_inv hcfg hinv
  have habs1 := ensureActive_abs cfg c
  have hcont1 := ensureActive_blobs_sub cfg c
  obtain ⟨a, ha⟩ := ensureActive_active cfg c
  have hcont := contains_eq hcfg hinv1 k
  have hfound : (((c.ensureActive cfg).abs cfg).contains k).isFound
      = (((c.ensureActive cfg).abs cfg).getLatestEntry k none).isFound := by
    unfold Store.contains
    cases ((c.ensureActive cfg).abs cfg).getLatestEntry k none <;> rfl
  have hdupE : (if cfg.allowDup = true then (Except.ok false : Except CErr Bool)
        else .ok (((c.ensureActive cfg).abs cfg).contains k).isFound)
      = .ok (!((c.ensureActive cfg).abs cfg).allowDup &&
          (((c.ensureActive cfg).abs cfg).getLatestEntry k none).isFound) := by
    have : ((c.ensureActive cfg).abs cfg).allowDup = cfg.allowDup := rfl
    rw [this, hfound]; cases cfg.allowDup <;> rfl
  unfold CState.write
  unfold Store.write
  simp only [hcont]
  rw [hdupE]
  rw [← habs1]
  cases hB : (!((c.ensureActive cfg).abs cfg).allowDup &&
      (((c.ensureActive cfg).abs cfg).getLatestEntry k none).isFound) with
  | true =>
    simp only [if_true]
    exact ⟨trivial, hinv1.toCInvC0.active, hcont1⟩
  | false =>
    have hs1a : ((c.ensureActive cfg).abs cfg).active = some a.abs := by rw [abs_active, ha]; rfl
    simp only [ha, hs1a, Bool.false_eq_true, if_false]
    obtain ⟨hba, hmem⟩ := hinv1.active a ha
    obtain ⟨hw, hwid, hwg, hwm, _⟩ := writeRec_inv0 hba.toBlobInvC0 hmem ⟨k, ts, false, none, d⟩ hk hts
    have hab : (a.writeRec cfg ⟨k, ts, false, none, d⟩).abs
        = a.abs.append ⟨k, ts, false, (none : Option Meta).getD none, d⟩ := by
      simp only [CBlob.abs, hwid, hwg, hwm, Blob.append]
      have : a.index.onDisk = false := hmem
      rw [this]
      rfl
    refine ⟨?_, ?_, hcont1⟩
    · simp only [CState.abs, Option.map_some, hab]
    · intro a' ha'
      simp only [Option.some.injEq] at ha'
      subst ha'
      exact ⟨hw, hwm⟩

/-! ### `delete` -/

theorem delete_ref0 {cfg : Cfg} {c : CState} (hcfg : cfg.OK) (hinv : CInvC cfg c) (k : Key) (ts : Nat) (oip : Bool)
    (hk : k < 256 ^ cfg.klen) (hts : ts < 2 ^ 64) :
    (c.delete cfg k ts oip).1.abs cfg = ((c.abs cfg).delete k ts none oip).1 ∧
      CInvC0 cfg (c.delete cfg k ts oip).1 := by
  -- the state the deletion starts from
  obtain ⟨c0, hc0, hinv0, habs0⟩ : ∃ c0, c0 = (if oip then c else c.ensureActive cfg) ∧ CInvC cfg c0 ∧
      c0.abs cfg = (c.abs cfg).deleteBase oip := by
    refine ⟨_, rfl, ?_, ?_⟩
    · cases oip
      · exact ensureActive_inv hcfg hinv
      · exact hinv
    · unfold Store.deleteBase
      cases oip
      · exact ensureActive_abs cfg c
      · rfl
  have hres : (c.delete cfg k ts oip).1 =
      { c0 with
        active := c0.active.map (fun a => (a.delete cfg k ts oip).1)
        cont := mapChildren c0.cont (fun b => (b.delete cfg k ts true).1) } := by
    rw [hc0]; rfl
  rw [hres]
  -- closed blobs
  have hclosed : ∀ b, some b ∈ slotsOf c0.cont →
      BlobInvC0 cfg (b.delete cfg k ts true).1 ∧
        (b.delete cfg k ts true).1.abs = (Store.blobDelete b.abs k ts none true).1 := by
    intro b hb
    have := delete_spec0 hcfg (hinv0.closed b hb) k ts true hk hts
    exact ⟨this.1, this.2.1⟩
  -- the active blob
  have hactive : ∀ a, c0.active = some a →
      BlobInvC0 cfg (a.delete cfg k ts oip).1 ∧
        (a.delete cfg k ts oip).1.abs = (Store.blobDelete a.abs k ts none oip).1 := by
    intro a ha
    have := delete_spec0 hcfg (hinv0.active a ha).1 k ts oip hk hts
    exact ⟨this.1, this.2.1⟩
  have habs : CState.abs cfg
        { c0 with
          active := c0.active.map (fun a => (a.delete cfg k ts oip).1)
          cont := mapChildren c0.cont (fun b => (b.delete cfg k ts true).1) }
      = ((c.abs cfg).delete k ts none oip).1 := by
    rw [Store.delete_fst_eq, ← habs0]
    have h1 : (c0.active.map (fun a => (a.delete cfg k ts oip).1)).map CBlob.abs
        = (c0.abs cfg).active.map (fun a => (Store.blobDelete a k ts none oip).1) := by
      rw [abs_active]
      cases ha : c0.active with
      | none => rfl
      | some a => simp only [Option.map_some]; rw [(hactive a ha).2]
    have h2 := abs_mapChildren c0.cont (fun b => (b.delete cfg k ts true).1)
      (fun ab => (Store.blobDelete ab k ts none true).1) (fun b hb => (hclosed b hb).2)
    apply Store.ext'
    · exact h1
    · rw [abs_slots, abs_slots]; exact h2
    · rfl
    · rfl
  refine ⟨habs, ?_⟩
  apply CInvG.mapChildren hinv0
  · rw [habs]; exact apply_WF hinv.wf (.delete k ts none oip)
  · intro a' ha'
    cases ha : c0.active with
    | none => rw [ha] at ha'; cases ha'
    | some a =>
      rw [ha] at ha'
      simp only [Option.map_some, Option.some.injEq] at ha'
      subst ha'
      refine ⟨(hactive a ha).1, ?_⟩
      have := congrArg Blob.onDisk (hactive a ha).2
      simp only [CBlob.abs] at this
      rw [this, Store.blobDelete_fst]
      split
      · rfl
      · exact (hinv0.active a ha).2
  · intro b hb
    refine ⟨(hclosed b hb).1, ?_⟩
    intro r hr
    have hr' : r ∈ (b.delete cfg k ts true).1.abs.recs := hr
    rw [(hclosed b hb).2] at hr'
    exact blobDelete_keys b.abs k ts true rfl r hr'

/-- the number of blobs marked is the number the L2 operation reports -/
theorem delete_count {cfg : Cfg} {c : CState} (hcfg : cfg.OK) (hinv : CInvC cfg c) (k : Key) (ts : Nat) (oip : Bool)
    (hk : k < 256 ^ cfg.klen) (hts : ts < 2 ^ 64) :
    (c.delete cfg k ts oip).2 = ((c.abs cfg).delete k ts none oip).2 := by
  obtain ⟨c0, hc0, hinv0, habs0⟩ : ∃ c0, c0 = (if oip then c else c.ensureActive cfg) ∧ CInvC cfg c0 ∧
      c0.abs cfg = (c.abs cfg).deleteBase oip := by
    refine ⟨_, rfl, ?_, ?_⟩
    · cases oip
      · exact ensureActive_inv hcfg hinv
      · exact hinv
    · unfold Store.deleteBase
      cases oip
      · exact ensureActive_abs cfg c
      · rfl
  have hres : (c.delete cfg k ts oip).2 =
      (match c0.active with
        | some a => if (a.delete cfg k ts oip).2 then 1 else 0
        | none => 0) +
      ((closedBlobs c0.cont).filter (fun b => (b.delete cfg k ts true).2)).length := by
    rw [hc0]; rfl
  rw [hres, Store.delete_snd_eq, ← habs0, abs_closed, abs_active]
  congr 1
  · cases ha : c0.active with
    | none => rfl
    | some a =>
      simp only [Option.map_some]
      rw [(delete_spec0 hcfg (hinv0.active a ha).1 k ts oip hk hts).2.2]
  · rw [List.filter_map, List.length_map]
    congr 1
    apply List.filter_congr
    intro b hb
    simp only [Function.comp_apply]
    exact (delete_spec0 hcfg (hinv0.closed b (mem_closedBlobs.mp hb)) k ts true hk hts).2.2

/-! ### `push` into the container: `closeActive`, `replaceActive` -/

theorem push_facts {cfg : Cfg} {c : CState} (hinv : CInvC cfg c) (a : CBlob) (ha : BlobInvC cfg a) :
    slotsOf (c.cont.push (fops cfg) (childOps cfg) a).1 = slotsOf c.cont ++ [some a] ∧
    (∀ b, some b ∈ slotsOf (c.cont.push (fops cfg) (childOps cfg) a).1 → BlobInvC cfg b) ∧
    ∃ g, Container.Inv (fops cfg) Combined.WF (c.cont.push (fops cfg) (childOps cfg) a).1 g ∧
      ∀ j b, (slotsOf (c.cont.push (fops cfg) (childOps cfg) a).1)[j]? = some (some b) →
        ∀ r ∈ b.ghost, (fops cfg).coversOpt (g.getD j none) r.key := by
  obtain ⟨g, hci, hcov⟩ := hinv.cont
  have hslots := push_slots (fops cfg) (childOps cfg) c.cont a (pushPanics_false c.cont g hci)
  have hinv' := C10.node_filter_sup_push (C10.combined_laws cfg.h) (childOps cfg) c.cont g a hci
    (fun f hf => by cases hf; exact ha.filter.wf)
  refine ⟨hslots, ?_, _, hinv', ?_⟩
  · intro b hb
    rw [hslots] at hb
    rcases List.mem_append.mp hb with h | h
    · exact hinv.closed b h
    · simp only [List.mem_singleton, Option.some.injEq] at h
      subst h; exact ha
  · intro j b hj r hr
    rw [hslots] at hj
    have hlen : g.length = (slotsOf c.cont).length := by rw [slotsOf_length]; exact hci.glen
    by_cases hlt : j < (slotsOf c.cont).length
    · rw [List.getElem?_append_left hlt] at hj
      rw [Container.getD_append_left g _ j (by omega)]
      exact hcov j b hj r hr
    · rw [List.getElem?_append_right (by omega)] at hj
      have hj0 : j - (slotsOf c.cont).length = 0 := by
        cases hjj : j - (slotsOf c.cont).length with
        | zero => rfl
        | succ n => rw [hjj] at hj; simp at hj
      rw [hj0] at hj
      simp only [List.getElem?_cons_zero, Option.some.injEq] at hj
      subst hj
      have : j = g.length := by omega
      subst this
      rw [Container.getD_append_self]
      exact ha.filter.covers r hr

theorem closeActive_ref {cfg : Cfg} {c : CState} (hinv : CInvC cfg c) :
    (c.step cfg .closeActive).abs cfg = (c.abs cfg).apply .closeActive ∧ CInvC cfg (c.step cfg .closeActive) := by
  cases ha : c.active with
  | none =>
    have h1 : c.step cfg .closeActive = c := by simp [CState.step, CState.closeActive, ha]
    have h2 : (c.abs cfg).apply .closeActive = c.abs cfg := by
      simp [Store.apply, Store.closeActive, abs_active, ha]
    rw [h1, h2]; exact ⟨rfl, hinv⟩
  | some a =>
    have h1 : c.step cfg .closeActive =
        { c with active := none, cont := (c.cont.push (fops cfg) (childOps cfg) a).1 } := by
      simp [CState.step, CState.closeActive, ha]
    have h2 : (c.abs cfg).apply .closeActive =
        { c.abs cfg with active := none, slots := (c.abs cfg).slots ++ [some a.abs] } := by
      simp [Store.apply, Store.closeActive, abs_active, ha]
    obtain ⟨hs, hcl, hct⟩ := push_facts hinv a (hinv.active a ha).1
    have habs : (c.step cfg .closeActive).abs cfg = (c.abs cfg).apply .closeActive := by
      rw [h1, h2]
      apply Store.ext'
      · rfl
      · rw [abs_slots, hs, abs_slots]; simp
      · rfl
      · rfl
    refine ⟨habs, ?_, ?_, ?_, ?_⟩
    · rw [habs]; exact apply_WF hinv.wf .closeActive
    · rw [h1]; intro a' h; cases h
    · rw [h1]; exact hcl
    · rw [h1]; exact hct

theorem createActive_step_ref {cfg : Cfg} {c : CState} (hcfg : cfg.OK) (hinv : CInvC cfg c) :
    (c.step cfg .createActive).abs cfg = (c.abs cfg).apply .createActive ∧ CInvC cfg (c.step cfg .createActive) := by
  cases ha : c.active with
  | some a =>
    have h1 : c.step cfg .createActive = c := by simp [CState.step, CState.tryCreateActive, ha]
    have h2 : (c.abs cfg).apply .createActive = c.abs cfg := by
      simp [Store.apply, Store.tryCreateActive, abs_active, ha]
    rw [h1, h2]; exact ⟨rfl, hinv⟩
  | none =>
    have h1 : c.step cfg .createActive = c.createActive cfg := by
      simp [CState.step, CState.tryCreateActive, ha]
    have h2 : (c.abs cfg).apply .createActive = (c.abs cfg).createActive :=
      apply_createActive_of_none (by rw [abs_active, ha]; rfl)
    rw [h1, h2]
    exact ⟨createActive_abs cfg c, createActive_ref hcfg hinv ha⟩

theorem replaceActive_ref {cfg : Cfg} {c : CState} (hcfg : cfg.OK) (hinv : CInvC cfg c) :
    (c.step cfg .replaceActive).abs cfg = (c.abs cfg).apply .replaceActive ∧
      CInvC cfg (c.step cfg .replaceActive) := by
  cases ha : c.active with
  | none =>
    have h1 : c.step cfg .replaceActive = c.createActive cfg := by
      simp [CState.step, CState.replaceActive, ha]
    have h2 : (c.abs cfg).apply .replaceActive = (c.abs cfg).createActive := by
      simp [Store.apply, Store.replaceActive, abs_active, ha]
    rw [h1, h2]
    exact ⟨createActive_abs cfg c, createActive_ref hcfg hinv ha⟩
  | some a =>
    have h1 : c.step cfg .replaceActive =
        { c.createActive cfg with cont := (c.cont.push (fops cfg) (childOps cfg) a).1 } := by
      simp [CState.step, CState.replaceActive, ha, CState.createActive]
    have h2 : (c.abs cfg).apply .replaceActive =
        { (c.abs cfg).createActive with slots := (c.abs cfg).slots ++ [some a.abs] } := by
      simp [Store.apply, Store.replaceActive, abs_active, ha, Store.createActive]
    obtain ⟨hs, hcl, hct⟩ := push_facts hinv a (hinv.active a ha).1
    have habs : (c.step cfg .replaceActive).abs cfg = (c.abs cfg).apply .replaceActive := by
      rw [h1, h2]
      apply Store.ext'
      · rfl
      · rw [abs_slots]
        show List.map (Option.map CBlob.abs) (slotsOf (c.cont.push (fops cfg) (childOps cfg) a).1) = _
        rw [hs, abs_slots]; simp
      · rfl
      · rfl
    refine ⟨habs, ?_, ?_, ?_, ?_⟩
    · rw [habs]; exact apply_WF hinv.wf .replaceActive
    · rw [h1]
      intro a' h
      simp only [CState.createActive, Option.some.injEq] at h
      subst h
      exact ⟨openNew_inv hcfg _, rfl⟩
    · rw [h1]; exact hcl
    · rw [h1]; exact hct

/-! ### `settle` -/

theorem settle_ref {cfg : Cfg} {c : CState} (hinv : CInvC cfg c) :
    (c.step cfg .settle).abs cfg = (c.abs cfg).apply .settle ∧ CInvC cfg (c.step cfg .settle) := by
  have h1 : c.step cfg .settle = { c with active := c.active, cont := mapChildren c.cont (CBlob.dump cfg) } := rfl
  have habs : (c.step cfg .settle).abs cfg = (c.abs cfg).apply .settle := by
    rw [h1]
    apply Store.ext'
    · rfl
    · rw [abs_slots]
      show List.map (Option.map CBlob.abs) (slotsOf (mapChildren c.cont (CBlob.dump cfg))) = _
      rw [abs_mapChildren c.cont (CBlob.dump cfg)
        (fun ab => if ab.recs.isEmpty then ab else { ab with onDisk := true })
        (fun b hb => dump_abs (hinv.closed b hb)), ← abs_slots]
      rfl
    · rfl
    · rfl
  refine ⟨habs, ?_⟩
  rw [h1]
  apply CInvG.mapChildren hinv
  · rw [← h1, habs]; exact apply_WF hinv.wf .settle
  · exact hinv.active
  · intro b hb
    obtain ⟨hd, _, hg, _⟩ := dump_inv (hinv.closed b hb)
    refine ⟨hd, ?_⟩
    intro r hr
    rw [hg] at hr
    exact ⟨r, hr, rfl⟩

/-! ### `restoreActive` -/

theorem restoreActive_ref {cfg : Cfg} {c : CState} (_hcfg : cfg.OK) (hinv : CInvC cfg c) :
    (c.step cfg .restoreActive).abs cfg = (c.abs cfg).apply .restoreActive ∧
      CInvC cfg (c.step cfg .restoreActive) := by
  cases ha : c.active with
  | some a =>
    have h1 : c.step cfg .restoreActive = c := by simp [CState.step, CState.restoreActive, ha]
    have h2 : (c.abs cfg).apply .restoreActive = c.abs cfg := by
      simp [Store.apply, Store.restoreActive, abs_active, ha]
    rw [h1, h2]; exact ⟨rfl, hinv⟩
  | none =>
    have hlp := lastPresent_map CBlob.abs (slotsOf c.cont)
    rw [← abs_slots cfg c] at hlp
    have hlid := lastId_eq c.cont
    cases hls : lastSomeIdx (slotsOf c.cont) with
    | none =>
      rw [hls] at hlp hlid
      have h1 : c.step cfg .restoreActive = c := by simp [CState.step, CState.restoreActive, ha, hlid]
      have h2 : (c.abs cfg).apply .restoreActive = c.abs cfg := by
        simp only [Store.apply, Store.restoreActive, abs_active, ha, Option.map_none, hlp]
        rfl
      rw [h1, h2]; exact ⟨rfl, hinv⟩
    | some i =>
      rw [hls] at hlp hlid
      obtain ⟨b, hb⟩ := lastSomeIdx_some hls
      simp only [Option.bind_some, hb, Option.join_some, Option.map_some] at hlp
      have hbinv := hinv.closed b (List.mem_of_getElem? hb)
      -- the concrete pop
      have hs1 : slotsOf (modifyChild c.cont i (CBlob.loadIndex cfg))
          = (slotsOf c.cont).modify i (Option.map (CBlob.loadIndex cfg)) := slotsOf_modifyChild _ _ _
      have hlid1 : (modifyChild c.cont i (CBlob.loadIndex cfg)).lastId = some i := by
        rw [lastId_eq, hs1, lastSomeIdx_congr _ (slotsOf c.cont) (modify_map_isSome _ _ _), hls]
      have hsl1 : (slotsOf (modifyChild c.cont i (CBlob.loadIndex cfg)))[i]? = some (some (b.loadIndex cfg)) := by
        rw [hs1, List.getElem?_modify, hb]; simp
      obtain ⟨lf, hlf, hdata⟩ := slots_some_getChild hsl1
      have hpop : (modifyChild c.cont i (CBlob.loadIndex cfg)).pop =
          ({ modifyChild c.cont i (CBlob.loadIndex cfg) with
              children := (modifyChild c.cont i (CBlob.loadIndex cfg)).children.set i none },
            some (b.loadIndex cfg)) := by
        unfold Container.pop
        rw [hlid1]
        simp only []
        rw [remove_of_getChild _ i lf hlf, hdata]
      have h1 : c.step cfg .restoreActive =
          { c with active := some (b.loadIndex cfg)
                   cont := { modifyChild c.cont i (CBlob.loadIndex cfg) with
                     children := (modifyChild c.cont i (CBlob.loadIndex cfg)).children.set i none } } := by
        simp only [CState.step, CState.restoreActive, ha, hlid, hpop]
      have h2 : (c.abs cfg).apply .restoreActive =
          { c.abs cfg with active := some { b.abs with onDisk := false }, slots := (c.abs cfg).slots.set i none } := by
        simp only [Store.apply, Store.restoreActive, abs_active, ha, Option.map_none, hlp]
      have hslots : slotsOf ({ modifyChild c.cont i (CBlob.loadIndex cfg) with
            children := (modifyChild c.cont i (CBlob.loadIndex cfg)).children.set i none } : Container Combined CBlob)
          = (slotsOf c.cont).set i none := by
        rw [slotsOf_set_none, hs1, set_modify]
      obtain ⟨hl, hlid', hlg, hlm, _⟩ := loadIndex_inv hbinv
      have habs : (c.step cfg .restoreActive).abs cfg = (c.abs cfg).apply .restoreActive := by
        rw [h1, h2]
        apply Store.ext'
        · show some (b.loadIndex cfg).abs = some _
          simp only [CBlob.abs, hlid', hlg, hlm]
        · rw [abs_slots]
          show List.map (Option.map CBlob.abs) (slotsOf _) = _
          rw [hslots, abs_slots, List.map_set]
          rfl
        · rfl
        · rfl
      obtain ⟨g, hci, hcov⟩ := hinv.cont
      refine ⟨habs, ?_, ?_, ?_, ?_⟩
      · rw [habs]; exact apply_WF hinv.wf .restoreActive
      · rw [h1]
        intro a' h
        simp only [Option.some.injEq] at h
        subst h
        exact ⟨hl, hlm⟩
      · rw [h1]
        intro b' hb'
        simp only [hslots] at hb'
        rcases List.mem_or_eq_of_mem_set hb' with h | h
        · exact hinv.closed b' h
        · cases h
      · rw [h1]
        refine ⟨g, ?_, ?_⟩
        · exact setChildren_inv hci _ (by simp [modifyChild])
        · intro j b' hj r hr
          simp only [hslots, List.getElem?_set] at hj
          split at hj
          · split at hj <;> cases hj
          · exact hcov j b' hj r hr


end Pearl.E2E.MC
