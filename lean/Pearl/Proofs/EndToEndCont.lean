import Pearl.Proofs.ContainerLemmas
import Pearl.Proofs.ContainerStack
import Pearl.Proofs.StoreLemmas
/-
End-to-end composition, part 4: what the container operations do to the `children` vector, read as the list of
slots `slotsOf c : List (Option C)` (the data of each child, `none` = a slot emptied by `pop`).  This is the
interface between the arena container (L3) and the `slots` list of the L2 store: `push` appends a slot,
`pop` empties the last occupied one (`Store.lastPresent`), in-place modification maps the slots.
-/
namespace Pearl.Container
open Pearl

variable {F C : Type}

/-- the data of the children, slot by slot -/
def slotsOf (c : Container F C) : List (Option C) := c.children.map (fun o => o.map (·.data))

theorem slotsOf_length (c : Container F C) : (slotsOf c).length = c.children.length := by simp [slotsOf]

theorem getChild_data (c : Container F C) (j : Nat) :
    (c.getChild j).map (·.data) = ((slotsOf c)[j]?).join := by
  unfold getChild slotsOf
  rw [List.getElem?_map]
  cases c.children[j]? with
  | none => rfl
  | some o => cases o <;> rfl

theorem getChild_some_slots {c : Container F C} {j : Nat} {lf : FLeaf C} (h : c.getChild j = some lf) :
    (slotsOf c)[j]? = some (some lf.data) := by
  unfold getChild at h
  unfold slotsOf
  rw [List.getElem?_map]
  cases hc : c.children[j]? with
  | none => rw [hc] at h; cases h
  | some o =>
    rw [hc] at h
    simp only [Option.join_some] at h
    subst h
    rfl

theorem slots_some_getChild {c : Container F C} {j : Nat} {b : C} (h : (slotsOf c)[j]? = some (some b)) :
    ∃ lf, c.getChild j = some lf ∧ lf.data = b := by
  unfold slotsOf at h
  rw [List.getElem?_map] at h
  unfold getChild
  cases hc : c.children[j]? with
  | none => rw [hc] at h; cases h
  | some o =>
    rw [hc] at h
    cases o with
    | none => simp at h
    | some lf =>
      simp only [Option.map_some, Option.some.injEq] at h
      exact ⟨lf, rfl, h⟩

theorem slotsOf_new (g l : Nat) : slotsOf (Container.new g l : Container F C) = [] := rfl

theorem mergeUp_children (ops : FilterOps F) (item : Option F) : ∀ (fuel : Nat) (c : Container F C) (p : Option Nat),
    (mergeUp ops item fuel c p).children = c.children
  | 0, _, _ => rfl
  | _ + 1, _, none => rfl
  | fuel + 1, c, some id => by
    simp only [mergeUp]
    rw [mergeUp_children ops item fuel]
    rfl

theorem addChild_slots (ops : FilterOps F) (cops : ChildOps F C) (c : Container F C) (node : Nat) (child : C) :
    slotsOf (addChild ops cops c node child).1 = slotsOf c ++ [some child] := by
  rw [addChild_eq]
  simp only [slotsOf, appendChild, mergeUp_children, modifyNode_children, appendInner_children, List.map_append,
    List.map_cons, List.map_nil, Option.map_some]

theorem addChild_groupSize (ops : FilterOps F) (cops : ChildOps F C) (c : Container F C) (node : Nat) (child : C) :
    (addChild ops cops c node child).1.groupSize = c.groupSize := by
  rw [addChild_eq]
  have : ∀ (fuel : Nat) (c : Container F C) (p : Option Nat),
      (mergeUp ops (cops.filterOf child) fuel c p).groupSize = c.groupSize := by
    intro fuel
    induction fuel with
    | zero => intro c p; rfl
    | succ f ih =>
      intro c p
      cases p with
      | none => rfl
      | some id => simp only [mergeUp]; rw [ih]; rfl
  simp only [appendChild_groupSize, this, modifyNode_groupSize, appendInner_groupSize]

theorem push_slots (ops : FilterOps F) (cops : ChildOps F C) (c : Container F C) (child : C)
    (hp : c.pushPanics = false) : slotsOf (push ops cops c child).1 = slotsOf c ++ [some child] := by
  unfold push
  split
  · simp only []
    split
    · show slotsOf _ = _
      simp only [slotsOf, modifyNode_children]
      exact addChild_slots ops cops c c.root child
    · exact addChild_slots ops cops c c.root child
  · rename_i hlt
    cases hl : c.lastInnerNode with
    | none =>
      unfold pushPanics at hp
      simp [hlt, hl] at hp
    | some id =>
      simp only []
      split
      · rw [addChild_slots]
        rfl
      · exact addChild_slots ops cops c id child

theorem extend_slots {ops : FilterOps F} {ok : F → Prop} (laws : FilterLaws ops ok) (cops : ChildOps F C) :
    ∀ (xs : List C) (c : Container F C) (g : List (Option F)), Inv ops ok c g →
      (∀ x ∈ xs, okOpt ok (cops.filterOf x)) →
      slotsOf (extend ops cops c xs) = slotsOf c ++ xs.map some
  | [], c, _, _, _ => by simp [extend]
  | x :: xs, c, g, hinv, hx => by
    have h1 := push_inv laws cops c g x hinv (hx x (by simp))
    have := extend_slots laws cops xs _ _ h1 (fun y hy => hx y (by simp [hy]))
    simp only [extend, List.foldl_cons] at this ⊢
    rw [this, push_slots ops cops c x (pushPanics_false c g hinv)]
    simp

/-! ### `pop` and `Store.lastPresent` -/

theorem lastSomeIdx_some {α : Type} : ∀ {l : List (Option α)} {i : Nat}, lastSomeIdx l = some i →
    ∃ a, l[i]? = some (some a)
  | [], _, h => by simp [lastSomeIdx] at h
  | o :: rest, i, h => by
    simp only [lastSomeIdx] at h
    cases hr : lastSomeIdx rest with
    | some j =>
      rw [hr] at h
      simp only [Option.some.injEq] at h
      subst h
      obtain ⟨a, ha⟩ := lastSomeIdx_some hr
      exact ⟨a, by simpa using ha⟩
    | none =>
      rw [hr] at h
      simp only at h
      cases o with
      | none => simp at h
      | some a =>
        simp only [Option.isSome_some, if_true, Option.some.injEq] at h
        subst h
        exact ⟨a, rfl⟩

theorem lastSomeIdx_congr {α β : Type} : ∀ (l : List (Option α)) (l' : List (Option β)),
    l.map Option.isSome = l'.map Option.isSome → lastSomeIdx l = lastSomeIdx l'
  | [], [], _ => rfl
  | [], _ :: _, h => by simp at h
  | _ :: _, [], h => by simp at h
  | o :: rest, o' :: rest', h => by
    simp only [List.map_cons, List.cons.injEq] at h
    simp only [lastSomeIdx]
    rw [lastSomeIdx_congr rest rest' h.2, h.1]

theorem lastSomeIdx_map {α β : Type} (f : α → β) (l : List (Option α)) :
    lastSomeIdx (l.map (Option.map f)) = lastSomeIdx l := by
  apply lastSomeIdx_congr
  rw [List.map_map]
  apply List.map_congr_left
  intro o _
  cases o <;> rfl

/-- `Store.lastPresent` (L2) is `last_id` + the child found there -/
theorem lastPresent_map {α : Type} (f : α → Blob) : ∀ (l : List (Option α)),
    Store.lastPresent (l.map (Option.map f)) =
      (lastSomeIdx l).bind (fun i => ((l[i]?).join).map (fun a => (i, f a)))
  | [] => rfl
  | o :: rest => by
    simp only [List.map_cons, Store.lastPresent, lastSomeIdx]
    rw [lastPresent_map f rest]
    cases hr : lastSomeIdx rest with
    | some j =>
      obtain ⟨a, ha⟩ := lastSomeIdx_some hr
      simp [ha]
    | none =>
      cases o <;> simp

theorem lastId_eq (c : Container F C) : c.lastId = lastSomeIdx (slotsOf c) := by
  unfold lastId slotsOf
  exact (lastSomeIdx_map _ _).symm

theorem remove_of_getChild (c : Container F C) (i : Nat) (lf : FLeaf C) (h : c.getChild i = some lf) :
    c.remove i = ({ c with children := c.children.set i none }, some lf.data) := by
  unfold remove; rw [h]

theorem slotsOf_set_none (c : Container F C) (i : Nat) :
    slotsOf ({ c with children := c.children.set i none } : Container F C) = (slotsOf c).set i none := by
  simp [slotsOf, List.map_set]

/-! ### a sublist of a duplicate-free list is a filter of it -/

theorem sublist_eq_filter {α : Type} [DecidableEq α] : ∀ {l L : List α}, l.Sublist L → L.Nodup →
    l = L.filter (fun x => l.contains x)
  | _, _, .slnil, _ => rfl
  | l, _, .cons a (l₂ := L) hs, hn => by
    rw [List.nodup_cons] at hn
    have ha : a ∉ l := fun h => hn.1 (hs.subset h)
    rw [List.filter_cons_of_neg (by simpa using ha)]
    exact sublist_eq_filter hs hn.2
  | _, _, .cons_cons a (l₁ := l) (l₂ := L) hs, hn => by
    rw [List.nodup_cons] at hn
    rw [List.filter_cons_of_pos (by simp)]
    congr 1
    have ih := sublist_eq_filter hs hn.2
    conv => lhs; rw [ih]
    apply List.filter_congr
    intro x hx
    have hxa : x ≠ a := fun e => hn.1 (e ▸ hx)
    simp [hxa]

theorem filterMap_range {α β : Type} (g : α → Option β) : ∀ (l : List α),
    (List.range l.length).filterMap (fun j => (l[j]?).bind g) = l.filterMap g
  | [] => rfl
  | a :: l => by
    rw [List.length_cons, List.range_succ_eq_map, List.filterMap_cons, List.filterMap_map]
    simp only [List.getElem?_cons_zero, Option.bind_some, Function.comp_def, List.getElem?_cons_succ]
    rw [filterMap_range g l]
    simp [List.filterMap_cons]

end Pearl.Container
