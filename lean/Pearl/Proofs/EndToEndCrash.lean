import Pearl.Model.EndToEndCrash
import Pearl.Proofs.EndToEndSteps
import Pearl.Proofs.FsLemmas
import Pearl.Props.C06
/-
End-to-end crash recovery, part 1: one blob.

* the arithmetic of `complete` / `cutKind` (which records lie inside the first `t` bytes of a blob file);
* the bridge to the byte-level theorems of C06 (`IsBoundary`, `CutIn`, `scan_prefix_*`);
* what `Blob::from_file` (`openBlob`, `regen`) does with the cut file of a blob that satisfied `BlobInv`
  (`openBlob_crash`, `regen_crash`): exactly what `fate` says.
-/
namespace Pearl.E2E
open Pearl Pearl.BPTree

/-! ### lengths -/

theorem file_length (klen : Nat) (recs : List Rec) :
    (blobBytes klen (full recs)).length = Fs.contentLen klen recs :=
  Fs.content_length klen ⟨0, recs, false⟩

theorem full_take (recs : List Rec) (n : Nat) : full (recs.take n) = (full recs).take n := by
  simp [full, List.map_take]

theorem full_length (recs : List Rec) : (full recs).length = recs.length := by simp [full]

theorem serMeta_len_ge8 (m : Meta) : 8 ≤ (serMeta m).length := by
  cases m with
  | none => simp [serMeta]
  | some v => simp [serMeta]

theorem recLen_ge (klen : Nat) (r : Rec) : headerSize klen + 8 ≤ Fs.recLen klen r := by
  unfold Fs.recLen Fs.recHead
  have := serMeta_len_ge8 r.mt
  omega

theorem contentLen_cons (klen : Nat) (r : Rec) (rs : List Rec) :
    Fs.contentLen klen (r :: rs) = Fs.recLen klen r + Fs.contentLen klen rs := by
  simp only [Fs.contentLen, List.map_cons, List.sum_cons]; omega

theorem contentLen_ge (klen : Nat) (recs : List Rec) : blobHeaderSize ≤ Fs.contentLen klen recs := by
  unfold Fs.contentLen; omega

theorem contentLen_take_succ (klen : Nat) (recs : List Rec) (n : Nat) (h : n < recs.length) :
    Fs.contentLen klen (recs.take (n + 1)) = Fs.contentLen klen (recs.take n) + Fs.recLen klen recs[n] := by
  rw [List.take_succ_eq_append_getElem h, Fs.contentLen_append]

theorem contentLen_take_mono (klen : Nat) (recs : List Rec) {i j : Nat} (h : i ≤ j) :
    Fs.contentLen klen (recs.take i) ≤ Fs.contentLen klen (recs.take j) := by
  have := blobBytes_length_mono klen (recs := recs.take i) (recs' := recs.take j)
    (List.take_prefix_take_left h)
  rwa [file_length, file_length] at this

theorem contentLen_take_le (klen : Nat) (recs : List Rec) (i : Nat) :
    Fs.contentLen klen (recs.take i) ≤ Fs.contentLen klen recs := by
  have := contentLen_take_mono klen recs (i := i) (j := max i recs.length) (by omega)
  rwa [List.take_of_length_le (l := recs) (i := max i recs.length) (by omega)] at this

/-! ### `complete` -/

theorem completeFrom_le (klen : Nat) : ∀ (recs : List Rec) (off t : Nat), completeFrom klen off recs t ≤ recs.length
  | [], _, _ => by simp [completeFrom]
  | r :: rs, off, t => by
    simp only [completeFrom]
    split
    · have := completeFrom_le klen rs (off + Fs.recLen klen r) t
      simp only [List.length_cons]; omega
    · omega

/-- the records counted end at or before `t`; the next one does not -/
theorem completeFrom_spec (klen : Nat) : ∀ (recs : List Rec) (off t : Nat), off ≤ t →
    off + ((recs.take (completeFrom klen off recs t)).map (Fs.recLen klen)).sum ≤ t ∧
    (completeFrom klen off recs t < recs.length →
      t < off + ((recs.take (completeFrom klen off recs t + 1)).map (Fs.recLen klen)).sum)
  | [], off, t, h => by simp [completeFrom, h]
  | r :: rs, off, t, h => by
    simp only [completeFrom]
    split
    · next hle =>
      obtain ⟨h1, h2⟩ := completeFrom_spec klen rs (off + Fs.recLen klen r) t hle
      simp only [List.take_succ_cons, List.map_cons, List.sum_cons, List.length_cons]
      refine ⟨by omega, fun hlt => ?_⟩
      have := h2 (by omega)
      omega
    · next hgt =>
      simp only [List.take_zero, List.map_nil, List.sum_nil, Nat.add_zero, Nat.zero_add, List.take_succ_cons,
        List.map_cons, List.sum_cons, List.length_cons]
      exact ⟨h, fun _ => by omega⟩

theorem complete_le (klen : Nat) (recs : List Rec) (t : Nat) : complete klen recs t ≤ recs.length :=
  completeFrom_le klen recs _ t

theorem complete_spec (klen : Nat) (recs : List Rec) (t : Nat) (h : blobHeaderSize ≤ t) :
    Fs.contentLen klen (recs.take (complete klen recs t)) ≤ t ∧
    (complete klen recs t < recs.length → t < Fs.contentLen klen (recs.take (complete klen recs t + 1))) :=
  completeFrom_spec klen recs blobHeaderSize t h

/-- `complete` is the only number with these two properties -/
theorem complete_unique (klen : Nat) (recs : List Rec) (t m : Nat) (hm : m ≤ recs.length)
    (h1 : Fs.contentLen klen (recs.take m) ≤ t)
    (h2 : m < recs.length → t < Fs.contentLen klen (recs.take (m + 1))) : complete klen recs t = m := by
  have h20 : blobHeaderSize ≤ t := Nat.le_trans (contentLen_ge klen _) h1
  obtain ⟨c1, c2⟩ := complete_spec klen recs t h20
  have cle := complete_le klen recs t
  rcases Nat.lt_trichotomy (complete klen recs t) m with h | h | h
  · have := c2 (by omega)
    have := contentLen_take_mono klen recs (i := complete klen recs t + 1) (j := m) (by omega)
    omega
  · exact h
  · have := h2 (by omega)
    have := contentLen_take_mono klen recs (i := m + 1) (j := complete klen recs t) (by omega)
    omega

theorem complete_of_short (klen : Nat) (recs : List Rec) (t : Nat) (h : t < blobHeaderSize) :
    complete klen recs t = 0 := by
  unfold complete
  cases recs with
  | nil => rfl
  | cons r rs =>
    simp only [completeFrom]
    rw [if_neg (by omega)]

theorem complete_of_ge (klen : Nat) (recs : List Rec) (t : Nat) (h : Fs.contentLen klen recs ≤ t) :
    complete klen recs t = recs.length :=
  complete_unique klen recs t recs.length (Nat.le_refl _) (by rw [List.take_length]; exact h) (fun h => by omega)

theorem complete_boundary (klen : Nat) (recs : List Rec) (n : Nat) (hn : n ≤ recs.length) :
    complete klen recs (Fs.contentLen klen (recs.take n)) = n := by
  apply complete_unique klen recs _ n hn (Nat.le_refl _)
  intro hlt
  rw [contentLen_take_succ klen recs n hlt]
  have := recLen_ge klen recs[n]
  omega

/-- a record that ends at or before `t` is counted -/
theorem lt_complete_of_end_le (klen : Nat) (recs : List Rec) (t j : Nat) (hj : j < recs.length)
    (h : Fs.contentLen klen (recs.take (j + 1)) ≤ t) : j < complete klen recs t := by
  have h20 : blobHeaderSize ≤ t := Nat.le_trans (contentLen_ge klen _) h
  obtain ⟨_, c2⟩ := complete_spec klen recs t h20
  have cle := complete_le klen recs t
  rcases Nat.lt_or_ge j (complete klen recs t) with hlt | hge
  · exact hlt
  · have := c2 (by omega)
    have := contentLen_take_mono klen recs (i := complete klen recs t + 1) (j := j + 1) (by omega)
    omega

/-- `complete` is monotone in the cut -/
theorem complete_mono (klen : Nat) (recs : List Rec) {t t' : Nat} (h : t ≤ t') :
    complete klen recs t ≤ complete klen recs t' := by
  by_cases h20 : blobHeaderSize ≤ t
  · obtain ⟨c1, _⟩ := complete_spec klen recs t h20
    have cle := complete_le klen recs t
    cases hn : complete klen recs t with
    | zero => omega
    | succ n =>
      rw [hn] at c1 cle
      have := lt_complete_of_end_le klen recs t' n (by omega) (by omega)
      omega
  · rw [complete_of_short klen recs t (by omega)]; omega

/-! ### `cutKind`: the four cases, in arithmetic form -/

theorem cutKind_blobHeader {klen : Nat} {recs : List Rec} {t : Nat} (h : cutKind klen recs t = .blobHeader) :
    t < blobHeaderSize := by
  unfold cutKind at h
  split at h
  · assumption
  · simp only at h
    split at h
    · cases h
    · split at h <;> cases h

theorem cutKind_clean {klen : Nat} {recs : List Rec} {t n : Nat} (h : cutKind klen recs t = .clean n) :
    blobHeaderSize ≤ t ∧ n = complete klen recs t ∧
      (n = recs.length ∨ t = Fs.contentLen klen (recs.take n)) := by
  unfold cutKind at h
  split at h
  · cases h
  · simp only at h
    split at h
    · next hc =>
      cases h
      exact ⟨by omega, rfl, hc⟩
    · split at h <;> cases h

theorem cutKind_recHeader {klen : Nat} {recs : List Rec} {t n : Nat} (h : cutKind klen recs t = .recHeader n) :
    n = complete klen recs t ∧ n < recs.length ∧ Fs.contentLen klen (recs.take n) < t ∧
      t < Fs.contentLen klen (recs.take n) + headerSize klen := by
  unfold cutKind at h
  split at h
  · cases h
  · next h20 =>
    simp only at h
    split at h
    · cases h
    · next hc =>
      split at h
      · next hlt =>
        cases h
        have := complete_spec klen recs t (by omega)
        have := complete_le klen recs t
        refine ⟨rfl, by omega, by omega, hlt⟩
      · cases h

theorem cutKind_body {klen : Nat} {recs : List Rec} {t n : Nat} (h : cutKind klen recs t = .body n) :
    n = complete klen recs t ∧ n < recs.length ∧ Fs.contentLen klen (recs.take n) + headerSize klen ≤ t ∧
      t < Fs.contentLen klen (recs.take (n + 1)) := by
  unfold cutKind at h
  split at h
  · cases h
  · next h20 =>
    simp only at h
    split at h
    · cases h
    · next hc =>
      split at h
      · cases h
      · next hge =>
        cases h
        have hs := complete_spec klen recs t (by omega)
        have := complete_le klen recs t
        have hlt : complete klen recs t < recs.length := by omega
        exact ⟨rfl, hlt, by omega, hs.2 hlt⟩

/-- a cut at a record boundary is clean -/
theorem cutKind_boundary (klen : Nat) (recs : List Rec) (n : Nat) (hn : n ≤ recs.length) :
    cutKind klen recs (Fs.contentLen klen (recs.take n)) = .clean n := by
  unfold cutKind
  rw [if_neg (by have := contentLen_ge klen (recs.take n); omega)]
  simp only [complete_boundary klen recs n hn]
  simp

/-- a cut at or after the end of the file (process kill: every issued write survived) is clean -/
theorem cutKind_of_ge (klen : Nat) (recs : List Rec) (t : Nat) (h : Fs.contentLen klen recs ≤ t) :
    cutKind klen recs t = .clean recs.length := by
  unfold cutKind
  rw [if_neg (by have := contentLen_ge klen recs; omega)]
  simp only [complete_of_ge klen recs t h]
  simp

/-- the fate of a blob in terms of the kind of the cut -/
theorem fate_opened_false {klen : Nat} {v : Bool} {recs : List Rec} {t n : Nat}
    (h : fate klen v recs t = .opened n false) : cutKind klen recs t = .clean n := by
  unfold fate at h
  split at h
  · cases h
  · cases h; assumption
  · cases h
  · split at h
    · split at h <;> cases h
    · cases h

theorem fate_opened_true {klen : Nat} {v : Bool} {recs : List Rec} {t n : Nat}
    (h : fate klen v recs t = .opened n true) :
    cutKind klen recs t = .body n ∧ ∃ r, recs[n]? = some r ∧ (v && hasData r) = false := by
  unfold fate at h
  split at h
  · cases h
  · cases h
  · cases h
  · next m hk =>
    split at h
    · next r hr =>
      split at h
      · cases h
      · next hv =>
        cases h
        exact ⟨hk, r, hr, by simpa using hv⟩
    · cases h

theorem fate_complete {klen : Nat} {v : Bool} {recs : List Rec} {t n : Nat} {torn : Bool}
    (h : fate klen v recs t = .opened n torn) : n = complete klen recs t := by
  cases torn with
  | false => exact (cutKind_clean (fate_opened_false h)).2.1
  | true => exact (cutKind_body (fate_opened_true h).1).1

end Pearl.E2E
