import Pearl.Proofs.EndToEndCrash
/-
End-to-end crash recovery, part 2: `Blob::from_file` on the cut file of a blob that satisfied `BlobInv`.
The byte-level facts are the theorems of C06 (`scan_prefix_*`); here they are brought into the vocabulary of the
composed storage (`fate`, `hdrsOf`, `regen`).
-/
namespace Pearl.E2E
open Pearl Pearl.BPTree

/-! ### bridge to the byte-level vocabulary of C06 -/

theorem boundary_length (klen : Nat) (recs : List Rec) (n : Nat) :
    (blobBytes klen ((full recs).take n)).length = Fs.contentLen klen (recs.take n) := by
  rw [← full_take, file_length]

theorem full_getElem? (recs : List Rec) (n : Nat) (r : Rec) (h : recs[n]? = some r) :
    (full recs)[n]? = some (r, dataOf r.data) := by
  simp [full, List.getElem?_map, h]

theorem hdrsOf_take (cfg : Cfg) (recs : List Rec) (m : Nat) :
    hdrsOf cfg (recs.take m) = (hdrsOf cfg recs).take m := by
  unfold hdrsOf
  rw [full_take, blobHeaders_take]

theorem dataOf_length (d : Data) : (dataOf d).length = d.len := Fs.genData_length d.len d.seed

theorem hasData_iff (r : Rec) : (if r.del then [] else dataOf r.data) ≠ [] ↔ hasData r = true := by
  unfold hasData
  cases hd : r.del with
  | true => simp
  | false =>
    simp only [Bool.false_eq_true, if_false, Bool.not_false, Bool.true_and, bne_iff_ne, ne_eq]
    rw [← List.length_eq_zero_iff, dataOf_length]

theorem cutIn_of_recHeader {klen : Nat} {recs : List Rec} {t n : Nat} (h : cutKind klen recs t = .recHeader n) :
    CutIn klen (full recs) n t ∧ t - (blobBytes klen ((full recs).take n)).length < headerSize klen := by
  obtain ⟨_, hn, h1, h2⟩ := cutKind_recHeader h
  unfold CutIn
  rw [boundary_length, boundary_length, full_length, contentLen_take_succ klen recs n hn]
  have := recLen_ge klen recs[n]
  exact ⟨⟨hn, h1, by omega⟩, by omega⟩

theorem cutIn_of_body {klen : Nat} {recs : List Rec} {t n : Nat} (h : cutKind klen recs t = .body n) :
    CutIn klen (full recs) n t ∧ headerSize klen ≤ t - (blobBytes klen ((full recs).take n)).length := by
  obtain ⟨_, hn, h1, h2⟩ := cutKind_body h
  unfold CutIn
  rw [boundary_length, boundary_length, full_length]
  have : 0 < headerSize klen := by unfold headerSize; omega
  exact ⟨⟨hn, by omega, h2⟩, by omega⟩

/-! ### the cut file -/

/-- after a clean cut the file is the blob file of the surviving records -/
theorem crash_file_clean {cfg : Cfg} {b : CBlob} (hb : BlobInv0 cfg b) {t n : Nat}
    (h : cutKind cfg.klen b.ghost t = .clean n) :
    b.file.take t = blobBytes cfg.klen (full (b.ghost.take n)) := by
  obtain ⟨h20, hn, hc⟩ := cutKind_clean h
  rcases hc with hc | hc
  · have hs := (complete_spec cfg.klen b.ghost t h20).1
    rw [← hn, hc, List.take_length] at hs
    rw [hc, List.take_length, List.take_of_length_le (by rw [hb.file, file_length]; exact hs), hb.file]
  · rw [hb.file, hc, ← boundary_length, full_take]
    exact blobBytes_take_boundary cfg.klen (full b.ghost) n

theorem mem_full {recs : List Rec} {x : Rec × List UInt8} (hx : x ∈ full recs) : x.1 ∈ recs := by
  simp only [full, List.mem_map] at hx
  obtain ⟨r, hr, rfl⟩ := hx
  exact hr

/-- `Blob::from_file` on the unharmed file of a blob -/
theorem openBlob_inv {cfg : Cfg} {b : CBlob} (hb : BlobInv cfg b) (v : Bool) :
    openBlob cfg.klen v b.file = .ok (hdrsOf cfg b.ghost) := by
  unfold openBlob
  rw [hb.file, blobHeader_blob]
  simp only []
  by_cases he : b.ghost = []
  · rw [he, blobBytes_nil, if_neg (by rw [serBlobHeader_length]; omega)]
    rfl
  · rw [if_pos (blobBytes_length_gt _ _ he),
      scan_blob cfg.klen v b.ghost he (by rw [← hb.file]; exact hb.size) hb.ts]
    rfl

/-! ### the blob start-up makes of a cut file -/

/-- the blob `Blob::from_file` returns for the file of `b` cut at `t`, when it accepts the headers of the first `m`
    records, `n` of which are complete -/
def recovered (cfg : Cfg) (b : CBlob) (t n m : Nat) : CBlob :=
  { id := b.id, file := b.file.take t, index := .mem (indexOf ((hdrsOf cfg b.ghost).take m)),
    filter := filterOf cfg (b.ghost.take m), ghost := b.ghost.take n }

/-- after a clean cut that blob satisfies the blob invariant -/
theorem recovered_inv {cfg : Cfg} {b : CBlob} (hb : BlobInv cfg b) {t n : Nat}
    (h : cutKind cfg.klen b.ghost t = .clean n) : BlobInv cfg (recovered cfg b t n n) := by
  refine ⟨⟨fun r hr => hb.key r (List.mem_of_mem_take hr), fun r hr => hb.ts r (List.mem_of_mem_take hr),
    crash_file_clean hb.toBlobInv0 h, rfl, ?_⟩, ?_⟩
  · show IndexInv cfg _
    unfold IndexInv recovered
    simp only []
    rw [hdrsOf_take]
  · show (b.file.take t).length < 2 ^ 64
    have := hb.size
    rw [List.length_take]
    omega

theorem recovered_abs (cfg : Cfg) (b : CBlob) (t n m : Nat) :
    (recovered cfg b t n m).abs = { id := b.id, recs := b.ghost.take n, onDisk := false } := rfl

/-- what `Blob::from_file` answers on the cut file: quarantine … -/
theorem openBlob_quarantined {cfg : Cfg} {b : CBlob} (hb : BlobInv cfg b) {t : Nat}
    (h : fate cfg.klen cfg.validateData b.ghost t = .quarantined) :
    openBlob cfg.klen cfg.validateData (b.file.take t) = .quarantine := by
  have hlen : (blobBytes cfg.klen (full b.ghost)).length < 2 ^ 64 := by rw [← hb.file]; exact hb.size
  have hts : ∀ x ∈ full b.ghost, x.1.ts < 2 ^ 64 := fun x hx => hb.ts _ (mem_full hx)
  rw [hb.file]
  unfold fate at h
  split at h
  · next hk => exact (C06.scan_prefix_blob_header _ _ _ t (cutKind_blobHeader hk)).2
  · cases h
  · next n hk =>
    obtain ⟨hc, hlt⟩ := cutIn_of_recHeader hk
    have hn := (cutKind_recHeader hk).2.1
    exact (C06.scan_prefix_in_header _ _ _ n t _ _
      (full_getElem? b.ghost n _ (List.getElem?_eq_getElem hn)) hlen hts hc hlt).2
  · next n hk =>
    obtain ⟨hc, hge⟩ := cutIn_of_body hk
    have hn := (cutKind_body hk).2.1
    rw [List.getElem?_eq_getElem hn] at h
    simp only [] at h
    split at h
    · next hv =>
      simp only [Bool.and_eq_true] at hv
      have := (C06.scan_prefix_cut _ cfg.validateData _ n t _ _
        (full_getElem? b.ghost n _ (List.getElem?_eq_getElem hn)) hlen hts hc).2
      rw [this, if_neg (by omega), if_pos ⟨hv.1, (hasData_iff _).mpr hv.2⟩]
    · cases h

/-- … or the headers of the complete records, and the header of the torn record when it is accepted -/
theorem openBlob_opened {cfg : Cfg} {b : CBlob} (hb : BlobInv cfg b) {t n : Nat} {torn : Bool}
    (h : fate cfg.klen cfg.validateData b.ghost t = .opened n torn) :
    openBlob cfg.klen cfg.validateData (b.file.take t) =
      .ok ((hdrsOf cfg b.ghost).take (if torn then n + 1 else n)) := by
  cases torn with
  | false =>
    have hk := fate_opened_false h
    have := openBlob_inv (recovered_inv hb hk) cfg.validateData
    simp only [Bool.false_eq_true, if_false]
    rw [← hdrsOf_take]
    exact this
  | true =>
    obtain ⟨hk, r, hr, hv⟩ := fate_opened_true h
    have hlen : (blobBytes cfg.klen (full b.ghost)).length < 2 ^ 64 := by rw [← hb.file]; exact hb.size
    have hts : ∀ x ∈ full b.ghost, x.1.ts < 2 ^ 64 := fun x hx => hb.ts _ (mem_full hx)
    obtain ⟨hc, hge⟩ := cutIn_of_body hk
    have := (C06.scan_prefix_cut _ cfg.validateData _ n t _ _ (full_getElem? b.ghost n r hr) hlen hts hc).2
    rw [hb.file, this, if_neg (by omega), if_neg]
    · rfl
    · rintro ⟨h1, h2⟩
      rw [hasData_iff] at h2
      rw [h1, h2] at hv
      cases hv

/-- `Blob::from_file` without an index file in terms of `openBlob` -/
theorem regen_of_openBlob (cfg : Cfg) (x : CBlob) :
    regen cfg x =
      match openBlob cfg.klen cfg.validateData x.file with
      | .ok hs =>
        some { x with index := .mem (indexOf hs), filter := (hs.map hdrKey).foldl (Combined.add cfg.h) (newFilter cfg) }
      | _ => none := by
  unfold regen openBlob
  cases hh : blobHeaderFromFile x.file with
  | error e =>
    simp only []
    unfold classifyHeaderErr classifyClass
    split
    · next heq => split at heq <;> cases heq
    · rfl
  | ok _ =>
    simp only []
    by_cases hl : x.file.length > blobHeaderSize
    · have hl' : blobHeaderSize < x.file.length := hl
      rw [if_pos hl, if_pos hl']
      cases hload : rawRecordsLoad cfg.klen cfg.validateData x.file with
      | error e =>
        simp only []
        unfold classifyScanErr classifyClass
        split
        · next heq => split at heq <;> cases heq
        · rfl
      | ok hs =>
        simp only []
        rw [foldl_indexPush cfg hs _ [] rfl]
        rfl
    · have hl' : ¬ blobHeaderSize < x.file.length := hl
      rw [if_neg hl, if_neg hl']
      rfl

theorem filterOf_take (cfg : Cfg) (b : CBlob) (hb : BlobInv0 cfg b) (m : Nat) :
    (((hdrsOf cfg b.ghost).take m).map hdrKey).foldl (Combined.add cfg.h) (newFilter cfg) =
      filterOf cfg (b.ghost.take m) := by
  unfold filterOf
  rw [List.map_take, List.map_take, hdrsOf_keys cfg b.ghost hb.key]

/-- **the regenerated blob**: `Blob::from_file` on the file of `b` cut at `t` fails when `fate` says quarantine … -/
theorem regen_crash_quarantined {cfg : Cfg} {b : CBlob} (hb : BlobInv cfg b) {t : Nat}
    (h : fate cfg.klen cfg.validateData b.ghost t = .quarantined) : regen cfg (b.crash cfg t) = none := by
  have hf : (b.crash cfg t).file = b.file.take t := rfl
  rw [regen_of_openBlob, hf, openBlob_quarantined hb h]

/-- … and otherwise returns `recovered` -/
theorem regen_crash_opened {cfg : Cfg} {b : CBlob} (hb : BlobInv cfg b) {t n : Nat} {torn : Bool}
    (h : fate cfg.klen cfg.validateData b.ghost t = .opened n torn) :
    regen cfg (b.crash cfg t) = some (recovered cfg b t n (if torn then n + 1 else n)) := by
  have hf : (b.crash cfg t).file = b.file.take t := rfl
  rw [regen_of_openBlob, hf, openBlob_opened hb h]
  simp only []
  rw [filterOf_take cfg b hb.toBlobInv0]
  unfold recovered CBlob.crash
  rw [← fate_complete h]

end Pearl.E2E
