import Pearl.Proofs.EndToEndCrashTorn
/-
End-to-end crash recovery, part 7: finding E8 on the composed storage.

The tail record `n` of the active blob is cut inside its meta / data, its header is complete, and start-up accepts
it (`fate … = .opened n true`: the scan does not validate data, or the record has no data).  The recovered storage
`c₁` is compared with `c₂`, the storage recovered from the crash in which that record had been written completely
(`cutPlus`): `c₂` satisfies `CInv` (so it answers per `Spec` on the history that contains the torn record), and
`c₁` is `c₂` with the cut file in its active blob.  Hence (`torn_recover`): `contains` answers alike, and `read`
answers alike or fails with `Bincode` — it never returns other bytes.
-/
namespace Pearl.E2E
open Pearl Pearl.BPTree Pearl.Container

/-- the cut at which record `n` of blob `a` is complete and nothing after it is -/
def cutPlus (cfg : Cfg) (a : CBlob) (n : Nat) (cut : Nat → Nat) : Nat → Nat :=
  fun id => if id = a.id then Fs.contentLen cfg.klen (a.ghost.take (n + 1)) else cut id

theorem blobs_of_active {c : CState} {a : CBlob} (ha : c.active = some a) :
    c.blobs = closedBlobs c.cont ++ [a] := by
  unfold CState.blobs; rw [ha]; rfl

theorem closed_id_ne {I : CBlob → Prop} {cfg : Cfg} {c : CState} (hinv : CInvG I cfg c) {a : CBlob}
    (ha : c.active = some a) {b : CBlob} (hb : b ∈ closedBlobs c.cont) : b.id ≠ a.id := by
  have hs := blobs_sorted hinv
  rw [blobs_of_active ha, List.map_append, List.pairwise_append] at hs
  have := hs.2.2 b.id (List.mem_map.mpr ⟨b, hb, rfl⟩) a.id (by simp)
  omega

theorem surv_cutPlus_of_ne (cfg : Cfg) (a : CBlob) (n : Nat) (cut : Nat → Nat) (b : CBlob) (h : b.id ≠ a.id) :
    surv cfg (cutPlus cfg a n cut) b = surv cfg cut b := by
  unfold surv cutPlus
  rw [if_neg h]

theorem fate_boundary (klen : Nat) (v : Bool) (recs : List Rec) (m : Nat) (hm : m ≤ recs.length) :
    fate klen v recs (Fs.contentLen klen (recs.take m)) = .opened m false := by
  unfold fate
  rw [cutKind_boundary klen recs m hm]

theorem surv_cutPlus_self (cfg : Cfg) (a : CBlob) (n : Nat) (cut : Nat → Nat) (hn : n < a.ghost.length) :
    surv cfg (cutPlus cfg a n cut) a =
      some (recovered cfg a (Fs.contentLen cfg.klen (a.ghost.take (n + 1))) (n + 1) (n + 1)) := by
  unfold surv cutPlus
  rw [if_pos rfl, fate_boundary cfg.klen cfg.validateData a.ghost (n + 1) (by omega)]
  rfl

theorem filterMap_surv_cutPlus {I : CBlob → Prop} {cfg : Cfg} {c : CState} (hinv : CInvG I cfg c) {a : CBlob}
    (ha : c.active = some a) (n : Nat) (cut : Nat → Nat) :
    (closedBlobs c.cont).filterMap (surv cfg (cutPlus cfg a n cut)) = (closedBlobs c.cont).filterMap (surv cfg cut) :=
  filterMap_congr' (fun b hb => surv_cutPlus_of_ne cfg a n cut b (closed_id_ne hinv ha hb))

/-- the recovered blob with the torn tail is the blob recovered from the complete record, with the cut file -/
theorem recovered_torn_eq (cfg : Cfg) (a : CBlob) (t n : Nat) :
    recovered cfg a t n (n + 1) =
      refile (recovered cfg a (Fs.contentLen cfg.klen (a.ghost.take (n + 1))) (n + 1) (n + 1))
        (a.file.take t) (a.ghost.take n) := rfl

/-- **E8 on the composed storage.**  `c` satisfies the invariant, the tail record `n` of its active blob `a` is cut
    inside meta / data and accepted by start-up, no closed blob has an accepted torn tail.  Then start-up
    (`lazy = false`) yields `c₁`, whose active blob holds the cut file and an index with the header of the torn
    record; and with `c₂` the storage recovered had record `n` been written completely:
    * `c₂` satisfies `CInv` and abstracts to the L2 recovery at `cutPlus`;
    * `c₁` is `c₂` with the cut file (and the shorter history variable) in the active blob;
    * `contains` answers alike: the torn record is reported as present;
    * `read` answers alike, or fails with the load error `Bincode`: it never returns other bytes. -/
theorem torn_recover {cfg : Cfg} (hcfg : cfg.OK) {c : CState} (hinv : CInv cfg c) {a : CBlob}
    (ha : c.active = some a) (cut : Nat → Nat) {n : Nat}
    (hf : fate cfg.klen cfg.validateData a.ghost (cut a.id) = .opened n true)
    (hclosed : ∀ b ∈ closedBlobs c.cont, ∀ m, fate cfg.klen cfg.validateData b.ghost (cut b.id) ≠ .opened m true) :
    ∃ c₁ c₂, c.crashRecover cfg cut false = some c₁ ∧
      c.crashRecover cfg (cutPlus cfg a n cut) false = some c₂ ∧
      CInv cfg c₂ ∧
      c₂.abs cfg = (c.abs cfg).crashRecover cfg.klen cfg.validateData (cutPlus cfg a n cut) false ∧
      c₂.active = some (recovered cfg a (Fs.contentLen cfg.klen (a.ghost.take (n + 1))) (n + 1) (n + 1)) ∧
      c₁ = { c₂ with active := some (recovered cfg a (cut a.id) n (n + 1)) } ∧
      closedBlobs c₂.cont = ((closedBlobs c.cont).filterMap (surv cfg cut)).map (CBlob.dump cfg) ∧
      (∀ k, c₁.contains cfg k = c₂.contains cfg k) ∧
      (∀ k, c₁.read cfg k = c₂.read cfg k ∨ c₁.read cfg k = .error (.load .bincode)) := by
  obtain ⟨hkind, r, hr, _⟩ := fate_opened_true hf
  have hn : n < a.ghost.length := (cutKind_body hkind).2.1
  have hba : BlobInv cfg a := (hinv.active a ha).1
  -- no torn tail at `cutPlus`
  have hnt : NoTorn cfg c (cutPlus cfg a n cut) := by
    intro b hb m
    rw [blobs_of_active ha] at hb
    rcases List.mem_append.mp hb with hb | hb
    · have hne := closed_id_ne hinv ha hb
      unfold cutPlus; rw [if_neg hne]
      exact hclosed b hb m
    · simp only [List.mem_singleton] at hb
      subst hb
      unfold cutPlus; rw [if_pos rfl, fate_boundary cfg.klen cfg.validateData b.ghost (n + 1) (by omega)]
      intro h; cases h
  obtain ⟨c₂, hc₂, hinv₂, habs₂⟩ := crash_recover_ref hcfg hinv (cutPlus cfg a n cut) false hnt
  have hc₁ := crashRecover_eq hinv cut false
  have hc₂' := crashRecover_eq hinv (cutPlus cfg a n cut) false
  rw [hc₂] at hc₂'
  have e₂ : c₂ = CState.ofBlobs cfg ((closedBlobs c.cont).filterMap (surv cfg cut) ++
      [recovered cfg a (Fs.contentLen cfg.klen (a.ghost.take (n + 1))) (n + 1) (n + 1)]) (maxNextId c.blobs) false := by
    have := Option.some.inj hc₂'
    rw [this, blobs_of_active ha, List.filterMap_append, filterMap_surv_cutPlus hinv ha]
    simp only [List.filterMap_cons, List.filterMap_nil, surv_cutPlus_self cfg a n cut hn]
  have hsa : surv cfg cut a = some (recovered cfg a (cut a.id) n (n + 1)) := by
    unfold surv; rw [hf]; rfl
  have e₁ : CState.ofBlobs cfg (c.blobs.filterMap (surv cfg cut)) (maxNextId c.blobs) false =
      CState.ofBlobs cfg ((closedBlobs c.cont).filterMap (surv cfg cut) ++ [recovered cfg a (cut a.id) n (n + 1)])
        (maxNextId c.blobs) false := by
    rw [blobs_of_active ha, List.filterMap_append]
    simp only [List.filterMap_cons, List.filterMap_nil, hsa]
  rw [ofBlobs_snoc] at e₁ e₂
  have hact₂ : c₂.active = some (recovered cfg a (Fs.contentLen cfg.klen (a.ghost.take (n + 1))) (n + 1) (n + 1)) := by
    rw [e₂]
  have hrel : CState.ofBlobs cfg (c.blobs.filterMap (surv cfg cut)) (maxNextId c.blobs) false =
      { c₂ with active := some (recovered cfg a (cut a.id) n (n + 1)) } := by
    rw [e₁, e₂]
  have hcl : closedBlobs c₂.cont = ((closedBlobs c.cont).filterMap (surv cfg cut)).map (CBlob.dump cfg) := by
    rw [e₂]
    apply closedBlobs_extend hcfg
    intro x hx
    obtain ⟨y, hy, rfl⟩ := List.mem_map.mp hx
    rw [(dump_fields cfg y).2.2.2]
    exact survivors_filter_WF cfg cut _ y hy
  refine ⟨_, c₂, hc₁, hc₂, hinv₂, habs₂, hact₂, hrel, hcl, ?_, ?_⟩
  · intro k
    rw [hrel, recovered_torn_eq]
    unfold CState.contains
    rcases getLatestEntry_swap cfg c₂ _ hact₂ (a.file.take (cut a.id)) (a.ghost.take n) k with h | ⟨h, h1, h2, _⟩
    · rw [h]
    · rw [h1, h2]; rfl
  · intro k
    rw [hrel, recovered_torn_eq]
    rcases read_swap cfg c₂ _ hact₂ (a.file.take (cut a.id)) (a.ghost.take n) k with h | ⟨h, hidx, h2, h1⟩
    · exact Or.inl h
    · have hmem : h ∈ (hdrsOf cfg a.ghost).take (n + 1) := by
        have : memLatest (indexOf ((hdrsOf cfg a.ghost).take (n + 1))) k = some h := by
          have := hidx
          simp only [recovered, CIndex.getLatest, Option.some.injEq] at this
          exact this
        exact mem_of_memLatest_indexOf this
      rcases torn_index_loads hba hkind h hmem with ⟨j, r', hj, hr', hh', hload⟩ | ⟨_, hfail⟩
      · left
        rw [h1, h2]
        have l1 := hload (cut a.id) (by have := (cutKind_body hkind).2.2.1; omega)
        have l2 := hload (Fs.contentLen cfg.klen (a.ghost.take (n + 1)))
          (contentLen_take_mono cfg.klen a.ghost (by omega))
        have hfile : (recovered cfg a (Fs.contentLen cfg.klen (a.ghost.take (n + 1))) (n + 1) (n + 1)).file =
            a.file.take (Fs.contentLen cfg.klen (a.ghost.take (n + 1))) := rfl
        rw [hfile, l1, l2]
      · right
        rw [h1, hfail]

end Pearl.E2E
