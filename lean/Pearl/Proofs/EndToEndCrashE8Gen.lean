import Pearl.Proofs.EndToEndCrashWins
import Pearl.Proofs.EndToEndCrashGhost
/-
End-to-end crash recovery, part 11: finding E8 for ANY blob and both start-up modes.

`torn_recover` (part 7) is about the active blob and `lazy = false`.  A torn tail can also be left in a closed blob (a
deletion marker appended by `delete`), and with `init_lazy` every blob ends up in the container.  Here: the blob `b₀`
whose tail record is cut inside meta / data and accepted may be any blob, `lazy` is arbitrary; the recovered storage
`c₁` is `c₂` — the storage recovered had the record been written completely — with the cut file in the blob of that
id (`CState.mapBlobs (refileId …)`), wherever that blob sits (active, or a child of the container, dumped or not).
-/
namespace Pearl.E2E
open Pearl Pearl.BPTree Pearl.Container

/-- apply `g` to every blob of the storage (the container's nodes are not touched) -/
def CState.mapBlobs (c : CState) (g : CBlob → CBlob) : CState :=
  { c with active := c.active.map g, cont := mapChildren c.cont g }

/-- give the blob with id `i` another file and another history variable -/
def refileId (i : Nat) (f : List UInt8) (gh : List Rec) (x : CBlob) : CBlob := if x.id = i then refile x f gh else x

theorem refileId_of_ne {i : Nat} {f : List UInt8} {gh : List Rec} {x : CBlob} (h : x.id ≠ i) :
    refileId i f gh x = x := by unfold refileId; rw [if_neg h]

theorem refileId_of_eq {i : Nat} {f : List UInt8} {gh : List Rec} {x : CBlob} (h : x.id = i) :
    refileId i f gh x = refile x f gh := by unfold refileId; rw [if_pos h]

theorem refileId_dump (cfg : Cfg) (i : Nat) (f : List UInt8) (gh : List Rec) (x : CBlob) :
    (refileId i f gh x).dump cfg = refileId i f gh (x.dump cfg) := by
  have hid : (x.dump cfg).id = x.id := (dump_fields cfg x).1
  unfold refileId
  rw [hid]
  by_cases h : x.id = i
  · rw [if_pos h, if_pos h]
    cases x with
    | mk xid xfile xindex xfilter xghost =>
      cases xindex with
      | disk _ _ _ => rfl
      | mem m =>
        simp only [CBlob.dump, refile]
        split
        · rfl
        · split <;> rfl
  · rw [if_neg h, if_neg h]

theorem refileId_filterOf (cfg : Cfg) (i : Nat) (f : List UInt8) (gh : List Rec) (x : CBlob) :
    (childOps cfg).filterOf (refileId i f gh x) = (childOps cfg).filterOf x := by
  unfold refileId
  split <;> rfl

theorem refileId_id (i : Nat) (f : List UInt8) (gh : List Rec) (x : CBlob) : (refileId i f gh x).id = x.id := by
  unfold refileId
  split <;> rfl

/-! ### the read path under `mapBlobs` -/

theorem consulted_mapBlobs (cfg : Cfg) (c : CState) (g : CBlob → CBlob) (k : Key) :
    (c.mapBlobs g).consulted cfg k = (c.consulted cfg k).map g := by
  unfold CState.consulted CState.mapBlobs
  simp only [iterPossibleStack_mapChildren, List.map_append, List.map_filterMap, getChild_mapChildren]
  congr 1
  · cases c.active <;> rfl
  · congr 1
    funext j
    cases c.cont.getChild j <;> rfl

theorem getLatestEntry_refileId (cfg : Cfg) (i : Nat) (f : List UInt8) (gh : List Rec) (x : CBlob) (k : Key) :
    (refileId i f gh x).getLatestEntry cfg k = x.getLatestEntry cfg k ∨
    (x.id = i ∧ ∃ h, x.getLatestEntry cfg k = .ok (.found ⟨h, x.file⟩) ∧
      (refileId i f gh x).getLatestEntry cfg k = .ok (.found ⟨h, f⟩) ∧ x.index.getLatest k = some (some h)) := by
  by_cases h : x.id = i
  · rw [refileId_of_eq h]
    rcases getLatestEntry_refile cfg x f gh k with h1 | h1
    · exact Or.inl h1
    · exact Or.inr ⟨h, h1⟩
  · rw [refileId_of_ne h]; exact Or.inl rfl

/-- two answers of the read path that are equal, or entries with the same header: of the blob with id `i` in one
    storage, with the file `f` in the other -/
def SimFile (i : Nat) (f : List UInt8) (k : Key) (l : List CBlob) (x₁ x₂ : ReadResult CEntry) : Prop :=
  x₁ = x₂ ∨ ∃ h b, b ∈ l ∧ b.id = i ∧ b.index.getLatest k = some (some h) ∧
    x₂ = .found ⟨h, b.file⟩ ∧ x₁ = .found ⟨h, f⟩

theorem SimFile.ts {i : Nat} {f : List UInt8} {k : Key} {l : List CBlob} {x₁ x₂ : ReadResult CEntry}
    (h : SimFile i f k l x₁ x₂) : entryTs? x₁ = entryTs? x₂ := by
  rcases h with rfl | ⟨h, b, _, _, _, rfl, rfl⟩
  · rfl
  · rfl

theorem SimFile.latest {i : Nat} {f : List UInt8} {k : Key} {l : List CBlob} {a₁ a₂ r₁ r₂ : ReadResult CEntry}
    (ha : SimFile i f k l a₁ a₂) (hr : SimFile i f k l r₁ r₂) : SimFile i f k l (entryLatest a₁ r₁) (entryLatest a₂ r₂) := by
  unfold entryLatest
  rw [ha.ts, hr.ts]
  split
  · exact hr
  · exact ha

theorem foldEntries_sim (cfg : Cfg) (i : Nat) (f : List UInt8) (gh : List Rec) (k : Key) (L : List CBlob) :
    ∀ (l : List CBlob), (∀ b ∈ l, b ∈ L) → ∀ (a₁ a₂ : ReadResult CEntry), SimFile i f k L a₁ a₂ →
      (∃ e, foldEntries (fun b => b.getLatestEntry cfg k) (l.map (refileId i f gh)) a₁ = .error e ∧
        foldEntries (fun b => b.getLatestEntry cfg k) l a₂ = .error e) ∨
      (∃ y₁ y₂, foldEntries (fun b => b.getLatestEntry cfg k) (l.map (refileId i f gh)) a₁ = .ok y₁ ∧
        foldEntries (fun b => b.getLatestEntry cfg k) l a₂ = .ok y₂ ∧ SimFile i f k L y₁ y₂)
  | [], _, a₁, a₂, ha => Or.inr ⟨a₁, a₂, rfl, rfl, ha⟩
  | b :: l, hl, a₁, a₂, ha => by
    simp only [List.map_cons, foldEntries]
    rcases getLatestEntry_refileId cfg i f gh b k with h1 | ⟨hid, h, h1, h2, h3⟩
    · rw [h1]
      cases hb : b.getLatestEntry cfg k with
      | error e => exact Or.inl ⟨e, rfl, rfl⟩
      | ok r =>
        simp only []
        exact foldEntries_sim cfg i f gh k L l (fun x hx => hl x (by simp [hx])) _ _ (ha.latest (Or.inl rfl))
    · rw [h1, h2]
      simp only []
      exact foldEntries_sim cfg i f gh k L l (fun x hx => hl x (by simp [hx])) _ _
        (ha.latest (Or.inr ⟨h, b, hl b (by simp), hid, h3, rfl, rfl⟩))

/-- replacing the file (and the history variable) of the blobs with id `i`, wherever they sit: the latest entry is
    the same, or it is an entry of such a blob in both storages, with the same header -/
theorem getLatestEntry_mapBlobs (cfg : Cfg) (c : CState) (i : Nat) (f : List UInt8) (gh : List Rec) (k : Key) :
    (c.mapBlobs (refileId i f gh)).getLatestEntry cfg k = c.getLatestEntry cfg k ∨
    ∃ h b, b ∈ c.consulted cfg k ∧ b.id = i ∧ b.index.getLatest k = some (some h) ∧
      c.getLatestEntry cfg k = .ok (.found ⟨h, b.file⟩) ∧
      (c.mapBlobs (refileId i f gh)).getLatestEntry cfg k = .ok (.found ⟨h, f⟩) := by
  unfold CState.getLatestEntry
  rw [consulted_mapBlobs]
  rcases foldEntries_sim cfg i f gh k (c.consulted cfg k) (c.consulted cfg k) (fun _ h => h) .notFound .notFound
    (Or.inl rfl) with ⟨e, h1, h2⟩ | ⟨y₁, y₂, h1, h2, hs⟩
  · rw [h1, h2]; exact Or.inl rfl
  · rw [h1, h2]
    rcases hs with rfl | ⟨h, b, hb, hid, hidx, rfl, rfl⟩
    · exact Or.inl rfl
    · exact Or.inr ⟨h, b, hb, hid, hidx, rfl, rfl⟩

theorem consulted_sub_blobs {cfg : Cfg} {c : CState} {k : Key} {b : CBlob} (hb : b ∈ c.consulted cfg k) :
    b ∈ c.blobs := by
  unfold CState.consulted at hb
  unfold CState.blobs
  rcases List.mem_append.mp hb with h | h
  · exact List.mem_append_right _ h
  · exact List.mem_append_left _ (mem_consulted_closed h)

/-! ### `init` commutes with `mapBlobs` -/

theorem ofBlobs_map (cfg : Cfg) (bs : List CBlob) (m : Nat) (lazy : Bool) (g : CBlob → CBlob)
    (hd : ∀ x, (g x).dump cfg = g (x.dump cfg)) (hf : ∀ x, (childOps cfg).filterOf (g x) = (childOps cfg).filterOf x)
    (hne : bs ≠ [] ∨ lazy = true) :
    CState.ofBlobs cfg (bs.map g) m lazy = (CState.ofBlobs cfg bs m lazy).mapBlobs g := by
  have hdump : ∀ (l : List CBlob), (l.map g).map (CBlob.dump cfg) = (l.map (CBlob.dump cfg)).map g := by
    intro l
    simp only [List.map_map]
    apply List.map_congr_left
    intro b _
    exact hd b
  have hext : ∀ (l : List CBlob),
      Container.extend (fops cfg) (childOps cfg) (CState.emptyCont cfg) (l.map g)
        = mapChildren (Container.extend (fops cfg) (childOps cfg) (CState.emptyCont cfg) l) g :=
    fun l => extend_mapChildren g (fops cfg) (childOps cfg) hf l (CState.emptyCont cfg)
  unfold CState.ofBlobs CState.mapBlobs
  cases lazy with
  | true =>
    simp only [if_true]
    rw [hdump, hext]
    rfl
  | false =>
    simp only [Bool.false_eq_true, if_false]
    rw [List.getLast?_map]
    cases hl : bs.getLast? with
    | none =>
      rcases hne with h | h
      · exact absurd (List.getLast?_eq_none_iff.mp hl) h
      · cases h
    | some a =>
      simp only [Option.map_some]
      rw [← List.map_dropLast, hdump, hext]

/-! ### the survivors at `cut` and at `cutPlus` -/

theorem survivors_cutPlus (cfg : Cfg) (b₀ : CBlob) (n : Nat) (cut : Nat → Nat)
    (hf : fate cfg.klen cfg.validateData b₀.ghost (cut b₀.id) = .opened n true) (hn : n < b₀.ghost.length) :
    ∀ (l : List CBlob), (∀ b ∈ l, b.id = b₀.id → b = b₀) →
      l.filterMap (surv cfg cut) =
        (l.filterMap (surv cfg (cutPlus cfg b₀ n cut))).map
          (refileId b₀.id (b₀.file.take (cut b₀.id)) (b₀.ghost.take n))
  | [], _ => rfl
  | b :: l, h => by
    have ih := survivors_cutPlus cfg b₀ n cut hf hn l (fun x hx => h x (by simp [hx]))
    rw [List.filterMap_cons, List.filterMap_cons, ih]
    by_cases hb : b.id = b₀.id
    · have := h b (by simp) hb
      subst this
      have hs : surv cfg cut b = some (recovered cfg b (cut b.id) n (n + 1)) := by unfold surv; rw [hf]; rfl
      rw [hs, surv_cutPlus_self cfg b n cut hn]
      simp only [List.map_cons]
      rw [refileId_of_eq (by rfl)]
      rfl
    · rw [surv_cutPlus_of_ne cfg b₀ n cut b hb]
      cases hs : surv cfg cut b with
      | none => rfl
      | some x =>
        simp only [List.map_cons]
        rw [refileId_of_ne (by rw [surv_id hs]; exact hb)]

/-- **E8 for any blob, both start-up modes.**  `b₀` is a blob of a state satisfying the invariant, its tail record
    `n` is cut inside meta / data and accepted, no other blob has an accepted torn tail.  With `c₂` the storage
    recovered had that record been written completely (`CInv`, abstracts to the L2 recovery at `cutPlus`):
    the recovered storage `c₁` is `c₂` with the cut file in the blob with the id of `b₀`; `contains` answers
    alike; `read` answers alike or fails with the load error `Bincode` -/
theorem torn_recover_any {cfg : Cfg} (hcfg : cfg.OK) {c : CState} (hinv : CInv cfg c) {b₀ : CBlob}
    (hb₀ : b₀ ∈ c.blobs) (cut : Nat → Nat) (lazy : Bool) {n : Nat}
    (hf : fate cfg.klen cfg.validateData b₀.ghost (cut b₀.id) = .opened n true)
    (hothers : ∀ b ∈ c.blobs, b ≠ b₀ → ∀ m, fate cfg.klen cfg.validateData b.ghost (cut b.id) ≠ .opened m true) :
    ∃ c₁ c₂, c.crashRecover cfg cut lazy = some c₁ ∧
      c.crashRecover cfg (cutPlus cfg b₀ n cut) lazy = some c₂ ∧
      CInv cfg c₂ ∧
      c₂.abs cfg = (c.abs cfg).crashRecover cfg.klen cfg.validateData (cutPlus cfg b₀ n cut) lazy ∧
      c₁ = c₂.mapBlobs (refileId b₀.id (b₀.file.take (cut b₀.id)) (b₀.ghost.take n)) ∧
      (∀ k, c₁.contains cfg k = c₂.contains cfg k) ∧
      (∀ k, c₁.read cfg k = c₂.read cfg k ∨ c₁.read cfg k = .error (.load .bincode)) := by
  obtain ⟨hkind, r, hr, _⟩ := fate_opened_true hf
  have hn : n < b₀.ghost.length := (cutKind_body hkind).2.1
  have hbi : BlobInv cfg b₀ := CInvG.blobInv hinv hb₀
  have huniq : ∀ b ∈ c.blobs, b.id = b₀.id → b = b₀ := fun b hb h => eq_of_id_eq (blobs_sorted hinv) hb hb₀ h
  have hnt : NoTorn cfg c (cutPlus cfg b₀ n cut) := by
    intro b hb m
    by_cases hbb : b = b₀
    · subst hbb
      unfold cutPlus; rw [if_pos rfl, fate_boundary cfg.klen cfg.validateData b.ghost (n + 1) (by omega)]
      intro h; cases h
    · have hne : b.id ≠ b₀.id := fun h => hbb (huniq b hb h)
      unfold cutPlus; rw [if_neg hne]
      exact hothers b hb hbb m
  obtain ⟨c₂, hc₂, hinv₂, habs₂⟩ := crash_recover_ref hcfg hinv (cutPlus cfg b₀ n cut) lazy hnt
  have hc₁ := crashRecover_eq hinv cut lazy
  have hc₂' := crashRecover_eq hinv (cutPlus cfg b₀ n cut) lazy
  rw [hc₂] at hc₂'
  have e₂ := Option.some.inj hc₂'
  have hsurv₀ : recovered cfg b₀ (Fs.contentLen cfg.klen (b₀.ghost.take (n + 1))) (n + 1) (n + 1) ∈
      c.blobs.filterMap (surv cfg (cutPlus cfg b₀ n cut)) :=
    List.mem_filterMap.mpr ⟨b₀, hb₀, surv_cutPlus_self cfg b₀ n cut hn⟩
  have hrel : CState.ofBlobs cfg (c.blobs.filterMap (surv cfg cut)) (maxNextId c.blobs) lazy =
      c₂.mapBlobs (refileId b₀.id (b₀.file.take (cut b₀.id)) (b₀.ghost.take n)) := by
    rw [survivors_cutPlus cfg b₀ n cut hf hn c.blobs huniq, e₂]
    apply ofBlobs_map
    · exact refileId_dump cfg _ _ _
    · exact refileId_filterOf cfg _ _ _
    · left
      intro h0
      rw [h0] at hsurv₀
      cases hsurv₀
  -- the blob with the id of `b₀` in `c₂`
  have hblob : ∀ b ∈ c₂.blobs, b.id = b₀.id →
      BlobInv cfg b ∧ b.ghost = b₀.ghost.take (n + 1) ∧
        b.file = b₀.file.take (Fs.contentLen cfg.klen (b₀.ghost.take (n + 1))) := by
    intro b hb hid
    refine ⟨CInvG.blobInv hinv₂ hb, ?_⟩
    rw [e₂] at hb
    rcases mem_ofBlobs hcfg _ (maxNextId c.blobs) lazy (survivors_filter_WF cfg _ _) b hb with
      ⟨x, hx, hxe⟩ | ⟨h0, _⟩
    · obtain ⟨b', hb', hs'⟩ := List.mem_filterMap.mp hx
      have hxid : x.id = b₀.id := by
        rcases hxe with rfl | rfl
        · exact hid
        · rw [← (dump_fields cfg x).1]; exact hid
      have : b' = b₀ := huniq b' hb' (by rw [← surv_id hs']; exact hxid)
      subst this
      rw [surv_cutPlus_self cfg b' n cut hn] at hs'
      cases hs'
      rcases hxe with rfl | rfl
      · exact ⟨rfl, rfl⟩
      · exact ⟨(dump_fields cfg _).2.2.1, (dump_fields cfg _).2.1⟩
    · rw [h0] at hsurv₀; cases hsurv₀
  refine ⟨_, c₂, hc₁, hc₂, hinv₂, habs₂, hrel, ?_, ?_⟩
  · intro k
    rw [hrel]
    unfold CState.contains
    rcases getLatestEntry_mapBlobs cfg c₂ b₀.id (b₀.file.take (cut b₀.id)) (b₀.ghost.take n) k with
      h | ⟨h, b, _, _, _, h1, h2⟩
    · rw [h]
    · rw [h1, h2]; rfl
  · intro k
    rw [hrel]
    unfold CState.read
    rcases getLatestEntry_mapBlobs cfg c₂ b₀.id (b₀.file.take (cut b₀.id)) (b₀.ghost.take n) k with
      h | ⟨h, b, hb, hid, hidx, h1, h2⟩
    · rw [h]; exact Or.inl rfl
    · obtain ⟨hbinv, hgh, hfile⟩ := hblob b (consulted_sub_blobs hb) hid
      have hmem : h ∈ (hdrsOf cfg b₀.ghost).take (n + 1) := by
        have := hbinv.index_getLatest hcfg k
        rw [hidx, hgh, hdrsOf_take] at this
        have hl : (hvecOf ((hdrsOf cfg b₀.ghost).take (n + 1)) k).getLast? = some h := by
          simp only [Option.some.injEq] at this
          exact this.symm
        exact (mem_hvecOf (List.mem_of_getLast? hl)).1
      rw [h1, h2]
      simp only []
      rcases torn_index_loads hbi hkind h hmem with ⟨j, r', hj, hr', hh', hload⟩ | ⟨_, hfail⟩
      · left
        have l1 := hload (cut b₀.id) (by have := (cutKind_body hkind).2.2.1; omega)
        have l2 := hload (Fs.contentLen cfg.klen (b₀.ghost.take (n + 1)))
          (contentLen_take_mono cfg.klen b₀.ghost (by omega))
        rw [hfile, l1, l2]
      · right
        rw [hfail]

end Pearl.E2E
