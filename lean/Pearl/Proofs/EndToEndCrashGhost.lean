import Pearl.Proofs.EndToEndCrashStore
import Pearl.Proofs.EndToEndGhost
/-
End-to-end crash recovery, part 10: the history variable `ghost` is pure instrumentation for crash + start-up too.
For ANY state (no invariant): the physical part (files, indexes, filters, container, `next_blob_id`) of the crashed
directory and of the recovered storage is a function of the physical part of the state before the crash
(`crashRecover_ghost_irrelevant`).
-/
namespace Pearl.E2E
open Pearl Pearl.BPTree Pearl.Container

theorem crashBlob_eraseGhost (cfg : Cfg) (b : CBlob) (t : Nat) :
    (b.eraseGhost.crash cfg t).eraseGhost = (b.crash cfg t).eraseGhost := rfl

theorem crash_eraseGhost (cfg : Cfg) (c : CState) (cut : Nat → Nat) :
    (c.eraseGhost.crash cfg cut).eraseGhost = (c.crash cfg cut).eraseGhost := by
  apply CState.ext'
  · show ((c.active.map CBlob.eraseGhost).map _).map CBlob.eraseGhost = (c.active.map _).map CBlob.eraseGhost
    cases c.active <;> rfl
  · show mapChildren (mapChildren (mapChildren c.cont CBlob.eraseGhost) _) CBlob.eraseGhost =
      mapChildren (mapChildren c.cont _) CBlob.eraseGhost
    rw [mapChildren_mapChildren, mapChildren_mapChildren, mapChildren_mapChildren]
    rfl
  · rfl

theorem readBlobs_eraseGhost (cfg : Cfg) : ∀ (l : List CBlob),
    readBlobs cfg (l.map CBlob.eraseGhost) = (readBlobs cfg l).map (List.map CBlob.eraseGhost)
  | [] => rfl
  | b :: l => by
    have hf : b.eraseGhost.file = b.file := rfl
    simp only [List.map_cons, readBlobs, hf, regen_eraseGhost, readBlobs_eraseGhost cfg l]
    cases openBlob cfg.klen cfg.validateData b.file with
    | fail => rfl
    | quarantine => rfl
    | ok hs =>
      simp only []
      cases regen cfg b with
      | none => rfl
      | some b' =>
        cases readBlobs cfg l with
        | none => rfl
        | some bs => rfl

theorem maxNextId_eraseGhost (l : List CBlob) : maxNextId (l.map CBlob.eraseGhost) = maxNextId l := by
  unfold maxNextId
  rw [List.foldl_map]
  rfl

theorem ofBlobs_eraseGhost (cfg : Cfg) (bs : List CBlob) (m : Nat) (lazy : Bool) :
    (CState.ofBlobs cfg (bs.map CBlob.eraseGhost) m lazy).eraseGhost = (CState.ofBlobs cfg bs m lazy).eraseGhost := by
  have hdump : ∀ (l : List CBlob), (l.map CBlob.eraseGhost).map (CBlob.dump cfg)
      = (l.map (CBlob.dump cfg)).map CBlob.eraseGhost := by
    intro l
    simp only [List.map_map]
    apply List.map_congr_left
    intro b _
    exact dump_eraseGhost cfg b
  have hext : ∀ (l : List CBlob),
      Container.extend (fops cfg) (childOps cfg) (CState.emptyCont cfg) (l.map CBlob.eraseGhost)
        = mapChildren (Container.extend (fops cfg) (childOps cfg) (CState.emptyCont cfg) l) CBlob.eraseGhost :=
    fun l => extend_mapChildren CBlob.eraseGhost (fops cfg) (childOps cfg) (childOps_filterOf_eraseGhost cfg) l
      (CState.emptyCont cfg)
  unfold CState.ofBlobs
  cases lazy with
  | true =>
    simp only [if_true]
    rw [hdump, hext]
    apply CState.ext'
    · rfl
    · simp only [eraseGhost_cont, mapChildren_eraseGhost_idem]
    · rfl
  | false =>
    simp only [Bool.false_eq_true, if_false]
    rw [List.getLast?_map]
    cases bs.getLast? with
    | none => simp only [Option.map_none]
    | some a =>
      simp only [Option.map_some]
      rw [← List.map_dropLast, hdump, hext]
      apply CState.ext'
      · rfl
      · simp only [eraseGhost_cont, mapChildren_eraseGhost_idem]
      · rfl

theorem blobs_eraseGhost (c : CState) : c.eraseGhost.blobs = c.blobs.map CBlob.eraseGhost := by
  unfold CState.blobs
  rw [eraseGhost_cont, closedBlobs_mapChildren, eraseGhost_active, List.map_append]
  cases c.active <;> rfl

/-- start-up does not read the history variable -/
theorem recover_eraseGhost (cfg : Cfg) (c : CState) (lazy : Bool) :
    (c.eraseGhost.recover cfg lazy).map CState.eraseGhost = (c.recover cfg lazy).map CState.eraseGhost := by
  unfold CState.recover
  rw [blobs_eraseGhost, sortById_eraseGhost, readBlobs_eraseGhost, maxNextId_eraseGhost]
  cases readBlobs cfg (sortById c.blobs) with
  | none => rfl
  | some bs =>
    simp only [Option.map_some]
    rw [ofBlobs_eraseGhost]

theorem recover_phys_congr (cfg : Cfg) (c c' : CState) (h : c.eraseGhost = c'.eraseGhost) (lazy : Bool) :
    (c.recover cfg lazy).map CState.eraseGhost = (c'.recover cfg lazy).map CState.eraseGhost := by
  rw [← recover_eraseGhost cfg c, ← recover_eraseGhost cfg c', h]

/-- **crash + start-up do not read the history variable**: for ANY state, erasing every `ghost` before the crash
    changes nothing of the physical part of the recovered storage -/
theorem crashRecover_ghost_irrelevant (cfg : Cfg) (c : CState) (cut : Nat → Nat) (lazy : Bool) :
    (c.eraseGhost.crashRecover cfg cut lazy).map CState.eraseGhost =
      (c.crashRecover cfg cut lazy).map CState.eraseGhost := by
  unfold CState.crashRecover
  exact recover_phys_congr cfg _ _ (crash_eraseGhost cfg c cut) lazy

end Pearl.E2E
