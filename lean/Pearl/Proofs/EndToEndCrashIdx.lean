import Pearl.Model.EndToEndCrashIdx
import Pearl.Proofs.EndToEndStartStore
import Pearl.Proofs.EndToEndCrashStore
/-
Crash recovery with index files, lemmas, part 1: the index file at every written length.
Every content the two-phase dump of `from_records` can leave on disk (`DumpStage.bytes`) and every proper prefix of a
finished image is REJECTED by `IndexStruct::from_file` (`openIndex`) — for every blob size, never `accepted`, never
`panic` — except the finished image itself.
-/
namespace Pearl.E2E
open Pearl Pearl.BPTree Pearl.Container

section
variable {cfg : Cfg} {sha : List Nat → List Nat}

/-! ### list surgery: a header rewritten in place -/

/-- `write_all_at(0, A)` interrupted after `j` bytes over a file `B ++ R` whose first part has the length of `A` -/
theorem overwrite_prefix : ∀ (A B R : List Nat) (j : Nat), A.length = B.length →
    A.take j ++ (B ++ R).drop (A.take j).length = (A.take j ++ B.drop j) ++ R
  | [], [], R, j, _ => by simp
  | [], _ :: _, _, _, h => by simp at h
  | _ :: _, [], _, _, h => by simp at h
  | a :: A, b :: B, R, 0, _ => by simp
  | a :: A, b :: B, R, j + 1, h => by
    have ih := overwrite_prefix A B R j (by simpa using h)
    simp only [List.take_succ_cons, List.length_cons, List.cons_append, List.drop_succ_cons] at ih ⊢
    rw [ih]

/-- two headers that differ in one byte: a partial rewrite leaves the old one or the new one -/
theorem take_drop_one_byte (a b : Nat) (S : List Nat) : ∀ (P : List Nat) (j : Nat),
    (P ++ a :: S).take j ++ (P ++ b :: S).drop j = if j ≤ P.length then P ++ b :: S else P ++ a :: S
  | [], 0 => by simp
  | [], j + 1 => by simp
  | p :: P, 0 => by simp
  | p :: P, j + 1 => by
    have ih := take_drop_one_byte a b S P j
    simp only [List.cons_append, List.take_succ_cons, List.drop_succ_cons, List.length_cons,
      Nat.add_le_add_iff_right] at ih ⊢
    rw [ih]
    split <;> rfl

/-! ### the images, as header ++ body -/

/-- the structured file of the records `p` in the form of `Pearl/Proofs/EndToEndMetaBytesImage.lean` -/
theorem fileRecs_built (cfg : Cfg) (p : List Rec) (mb : List Nat) :
    fileRecs cfg p mb = builtFile cfg.klen mb (indexOf (hdrsOf cfg p)) := rfl

theorem imageOf_eq_V (sha : List Nat → List Nat) (f : IndexFile RecHeader) (mb : List Nat) (bs : Nat) :
    imageOf sha f mb bs = indexHeaderBytesV (rawFile f) (imageHash sha f mb bs) 13 bs ++ indexBodyBytes (rawFile f) mb :=
  indexFileBytes_eq_V _ _ _ _

theorem imageOfUnwritten_eq_V (sha : List Nat → List Nat) (f : IndexFile RecHeader) (mb : List Nat) (bs : Nat) :
    imageOfUnwritten sha f mb bs =
      indexHeaderBytesV (rawFile f) (imageHash sha f mb bs) 12 bs ++ indexBodyBytes (rawFile f) mb := rfl

theorem headerWritten_eq_V (sha : List Nat → List Nat) (f : IndexFile RecHeader) (mb : List Nat) (bs : Nat) :
    headerWritten sha f mb bs = indexHeaderBytesV (rawFile f) (imageHash sha f mb bs) 13 bs := rfl

/-- the header is 72 bytes, the `version << 1 | written` byte, 10 bytes -/
theorem indexHeaderBytesV_split (f : IndexFile RawHeader) (hash : List Nat) (b : Nat) (hh : hash.length = 32) :
    ∃ P S, P.length = 72 ∧ ∀ vb, indexHeaderBytesV f hash vb b = P ++ vb :: S := by
  refine ⟨BPTree.leBytes 8 magicByte ++ BPTree.leBytes 8 f.recordsCount ++ BPTree.leBytes 8 f.p.rhs
    ++ BPTree.leBytes 8 f.metaLen ++ (BPTree.leBytes 8 hash.length ++ hash),
    BPTree.leBytes 2 f.p.K ++ BPTree.leBytes 8 b, ?_, ?_⟩
  · simp only [List.length_append, BPTree.leBytes_length, hh]
  · intro vb
    simp only [indexHeaderBytesV, List.append_assoc, List.cons_append, List.nil_append]

/-- **phase 2 is atomic**: the file with the first `j` bytes of the header rewritten is the phase-1 buffer (the
    `written` byte, offset 72, not reached) or the finished image -/
theorem rewriting_bytes (sha : List Nat → List Nat) (f : IndexFile RecHeader) (mb : List Nat) (bs j : Nat)
    (hh : (imageHash sha f mb bs).length = 32) :
    (DumpStage.rewriting j).bytes sha f mb bs =
      if j ≤ 72 then imageOfUnwritten sha f mb bs else imageOf sha f mb bs := by
  obtain ⟨P, S, hP, hV⟩ := indexHeaderBytesV_split (rawFile f) (imageHash sha f mb bs) bs hh
  simp only [DumpStage.bytes, headerWritten_eq_V, imageOfUnwritten_eq_V, imageOf_eq_V]
  rw [overwrite_prefix _ _ _ _ (by
    rw [indexHeaderBytesV_length _ _ _ _ hh, indexHeaderBytesV_length _ _ _ _ hh]), hV 13, hV 12,
    take_drop_one_byte, hP]
  split <;> rfl

/-! ### `openIndex` on every prefix of every image of the family -/

/-- the images of a built file with ANY version byte and `blob_size` field, cut anywhere: rejected unless complete
    and written -/
theorem openIndex_family_rejected (hB : BytesOK cfg sha) (mb : List Nat) (m : InMem RecHeader) (hash : List Nat)
    (hhash : hash.length = 32) (hsize : (builtFile cfg.klen mb m).fileSize < 2 ^ 64) (vb b actual t : Nat)
    (h : t < (indexHeaderBytesV (rawFile (builtFile cfg.klen mb m)) hash vb b
        ++ indexBodyBytes (rawFile (builtFile cfg.klen mb m)) mb).length ∨ vb ≠ 13) :
    openIndex cfg actual ((indexHeaderBytesV (rawFile (builtFile cfg.klen mb m)) hash vb b
        ++ indexBodyBytes (rawFile (builtFile cfg.klen mb m)) mb).take t) = .rejected := by
  have ok := rawFile_imageOK cfg.klen mb m hB.ok.klen hash hhash hsize
  apply openIndex_of_not_accept
  rw [Bool.eq_false_iff]
  intro hacc
  obtain ⟨h1, h2, _, _⟩ := (accept_image_iff _ mb hash ok vb b cfg.klen actual t).1 hacc
  rw [List.length_append, indexHeaderBytesV_length _ _ _ _ hhash] at h
  rcases h with h | h
  · omega
  · exact h h2

/-! ### `dumpedParts` -/

theorem dumpedParts_eq {recs : List Rec} (h : RecsOK cfg recs) :
    dumpedParts cfg recs =
      if recs = [] then none
      else (serializeFilters cfg.klen (filterOf cfg recs)).map (fun p => (fileRecs cfg recs p.1, p.1)) := by
  obtain ⟨hb, hg, hd, _⟩ := writtenC_inv recs h
  unfold dumpedParts
  rw [writtenB_eq (fun _ => []) recs h]
  have hidx := hb.index
  unfold IndexInv at hidx
  cases hi : (writtenC cfg recs).index with
  | disk f mb off => rw [hi] at hd; cases hd
  | mem m =>
    rw [hi] at hidx
    subst hidx
    simp only [CBlob.toB, hi, CIndex.toB]
    rw [isEmpty_indexOf, hg, hb.filter, hg]
    by_cases hne : recs = []
    · subst hne; rfl
    · rw [if_neg hne]
      have : (hdrsOf cfg recs).isEmpty = false := by
        cases hh : hdrsOf cfg recs with
        | nil => exact absurd ((hdrsOf_eq_nil_iff cfg recs).mp hh) hne
        | cons _ _ => rfl
      rw [this]
      rfl

/-- `dumpedImage` is the finished stage of the dump of `dumpedParts` -/
theorem dumpedImage_eq_parts (sha : List Nat → List Nat) {recs : List Rec} (h : RecsOK cfg recs) :
    dumpedImage cfg sha recs =
      (dumpedParts cfg recs).map (fun p => DumpStage.done.bytes sha p.1 p.2 (blobFileLen cfg recs)) := by
  rw [dumpedImage_eq sha h, dumpedParts_eq h, blobFileLen_eq h]
  by_cases hne : recs = []
  · rw [if_pos hne, if_pos hne]; rfl
  · rw [if_neg hne, if_neg hne]
    cases serializeFilters cfg.klen (filterOf cfg recs) <;> rfl

/-- what `dumpedParts` returns, spelled out -/
theorem dumpedParts_some {recs : List Rec} (h : RecsOK cfg recs) {f : IndexFile RecHeader} {mb : List Nat}
    (hp : dumpedParts cfg recs = some (f, mb)) :
    recs ≠ [] ∧ f = fileRecs cfg recs mb ∧ ∃ off, serializeFilters cfg.klen (filterOf cfg recs) = some (mb, off) := by
  rw [dumpedParts_eq h] at hp
  by_cases hne : recs = []
  · rw [if_pos hne] at hp; cases hp
  · rw [if_neg hne] at hp
    cases hs : serializeFilters cfg.klen (filterOf cfg recs) with
    | none => rw [hs] at hp; cases hp
    | some q =>
      obtain ⟨mb', off⟩ := q
      rw [hs] at hp
      simp only [Option.map_some, Option.some.injEq, Prod.mk.injEq] at hp
      obtain ⟨h1, h2⟩ := hp
      subst h2
      exact ⟨hne, h1.symm, off, rfl⟩

theorem dumpedImage_some {recs : List Rec} (h : RecsOK cfg recs) {img : List Nat}
    (hi : dumpedImage cfg sha recs = some img) :
    recs ≠ [] ∧ ∃ mb off, serializeFilters cfg.klen (filterOf cfg recs) = some (mb, off) ∧
      img = imageRecs cfg sha recs mb := by
  rw [dumpedImage_eq sha h] at hi
  by_cases hne : recs = []
  · rw [if_pos hne] at hi; cases hi
  · rw [if_neg hne] at hi
    cases hs : serializeFilters cfg.klen (filterOf cfg recs) with
    | none => rw [hs] at hi; cases hi
    | some q =>
      obtain ⟨mb, off⟩ := q
      rw [hs] at hi
      simp only [Option.map_some, Option.some.injEq] at hi
      exact ⟨hne, mb, off, rfl, hi.symm⟩

/-! ### (1) every written length -/

/-- every PROPER PREFIX of an image the storage dumped — the empty file, a cut inside the header, the header only, a
    cut inside the filters, the tree meta, the tree, the record headers — is rejected, for every blob size -/
theorem dumped_prefix_rejected (hB : BytesOK cfg sha) {recs : List Rec} (hok : RecsOK cfg recs)
    (h3 : Sized3 cfg recs) {img : List Nat} (hi : dumpedImage cfg sha recs = some img) (blobSize t : Nat)
    (ht : t < img.length) : openIndex cfg blobSize (img.take t) = .rejected := by
  obtain ⟨_, mb, off, hs, rfl⟩ := dumpedImage_some hok hi
  have hsize := fileRecs_size hB.ok h3 hs
  unfold imageRecs at ht ⊢
  rw [imageOf_eq_V, fileRecs_built] at ht ⊢
  exact openIndex_family_rejected hB mb _ _ (hB.shaLen _) hsize 13 _ blobSize t (Or.inl ht)

/-- every prefix of the phase-1 buffer, the complete buffer included (the `written` bit is clear), is rejected -/
theorem unwritten_prefix_rejected (hB : BytesOK cfg sha) {recs : List Rec} (hok : RecsOK cfg recs)
    (h3 : Sized3 cfg recs) {f : IndexFile RecHeader} {mb : List Nat} (hp : dumpedParts cfg recs = some (f, mb))
    (bs blobSize t : Nat) : openIndex cfg blobSize ((imageOfUnwritten sha f mb bs).take t) = .rejected := by
  obtain ⟨_, rfl, off, hs⟩ := dumpedParts_some hok hp
  have hsize := fileRecs_size hB.ok h3 hs
  rw [imageOfUnwritten_eq_V, fileRecs_built]
  exact openIndex_family_rejected hB mb _ _ (hB.shaLen _) hsize 12 _ blobSize t (Or.inr (by decide))

/-- **every stage of the two-phase dump**: the content of the index file is the finished image, or it is rejected
    whatever the size of the blob file -/
theorem dump_stage_cases (hB : BytesOK cfg sha) {recs : List Rec} (hok : RecsOK cfg recs) (h3 : Sized3 cfg recs)
    {f : IndexFile RecHeader} {mb : List Nat} (hp : dumpedParts cfg recs = some (f, mb)) (st : DumpStage) :
    dumpedImage cfg sha recs = some (st.bytes sha f mb (blobFileLen cfg recs)) ∨
    ∀ blobSize, openIndex cfg blobSize (st.bytes sha f mb (blobFileLen cfg recs)) = .rejected := by
  have hdone : dumpedImage cfg sha recs = some (DumpStage.done.bytes sha f mb (blobFileLen cfg recs)) := by
    rw [dumpedImage_eq_parts sha hok, hp]; rfl
  have hunw : ∀ blobSize, openIndex cfg blobSize (imageOfUnwritten sha f mb (blobFileLen cfg recs)) = .rejected := by
    intro blobSize
    have := unwritten_prefix_rejected hB hok h3 hp (blobFileLen cfg recs) blobSize
      (imageOfUnwritten sha f mb (blobFileLen cfg recs)).length
    rwa [List.take_length] at this
  cases st with
  | appending t => exact Or.inr fun blobSize => unwritten_prefix_rejected hB hok h3 hp _ blobSize t
  | rewriting j =>
    rw [rewriting_bytes sha f mb _ j (hB.shaLen _)]
    by_cases hj : j ≤ 72
    · rw [if_pos hj]; exact Or.inr hunw
    · rw [if_neg hj]; exact Or.inl hdone
  | done => exact Or.inl hdone

end
end Pearl.E2E
