import Pearl.Proofs.EndToEndCrashIdx
/-
Crash recovery with index files, lemmas, part 2: `Blob::from_file` (with the quarantine decision of `read_blobs`) on
the CUT file of a blob of a reachable state, for every index-file content a crash can leave next to it.
-/
namespace Pearl.E2E
open Pearl Pearl.BPTree Pearl.Container

section
variable {cfg : Cfg} {sha : List Nat → List Nat}

/-! ### `fromFileQ` against `fromFileB` and `openBlob` -/

theorem ofInit_ne_ok (o : InitOutcome) (y : BBlob) : StartOutcome.ofInit o ≠ .ok y := by
  cases o <;> intro h <;> cases h

/-- the `ok` arm of `fromFileQ` IS `fromFileB` (`Blob::from_file` of `Pearl/Model/EndToEndStart.lean`) -/
theorem fromFileQ_ok_iff (cfg : Cfg) (x : BBlob) (idx : Option (List Nat)) (y : BBlob) :
    fromFileQ cfg x idx = .ok y ↔ fromFileB cfg x idx = some y := by
  have key : ∀ (b : BBlob) (c : Bool),
      ((if (c || decide (x.file.length > blobHeaderSize)) = true then
          match b.index with
          | .disk .. => StartOutcome.ok b
          | .mem _ =>
            match rawRecordsLoad cfg.klen cfg.validateData b.file with
            | .error e => .ofInit (classifyScanErr e)
            | .ok hs => .ok (hs.foldl (fun b h => (b.indexPush cfg (hdrKey h) h).getD b) b)
        else .ok b) = .ok y) ↔
      ((if (c || decide (x.file.length > blobHeaderSize)) = true then tryRegenerateB cfg b else some b) = some y) := by
    intro b c
    unfold tryRegenerateB
    split
    · cases hi : b.index with
      | disk img off =>
        simp only []
        constructor <;> (intro h; cases h; rfl)
      | mem m =>
        simp only []
        cases rawRecordsLoad cfg.klen cfg.validateData b.file with
        | error e =>
          simp only []
          constructor
          · intro h; exact absurd h (ofInit_ne_ok _ _)
          · intro h; cases h
        | ok hs =>
          simp only []
          constructor <;> (intro h; cases h; rfl)
    · constructor <;> (intro h; cases h; rfl)
  unfold fromFileQ fromFileB
  cases blobHeaderFromFile x.file with
  | error e =>
    simp only []
    constructor
    · intro h; exact absurd h (ofInit_ne_ok _ _)
    · intro h; cases h
  | ok _ =>
    simp only []
    cases idx with
    | none => exact key _ false
    | some img =>
      simp only []
      cases openIndex cfg x.file.length img with
      | accepted flt off => exact key _ false
      | rejected => exact key { x with index := .mem [], filter := newFilter cfg } true
      | panic =>
        simp only []
        constructor <;> (intro h; cases h)

/-- an unreadable blob header: the index file is not even looked at -/
theorem fromFileQ_header_err (cfg : Cfg) (x : BBlob) (idx : Option (List Nat)) {e : BlobHeaderErr}
    (h : blobHeaderFromFile x.file = .error e) : fromFileQ cfg x idx = .ofInit (classifyHeaderErr e) := by
  unfold fromFileQ
  rw [h]

/-- a rejected index file next to a blob file that is longer than its header: as without an index file -/
theorem fromFileQ_rejected (cfg : Cfg) (x : BBlob) (img : List Nat)
    (hr : openIndex cfg x.file.length img = .rejected) (hlen : x.file.length > blobHeaderSize) :
    fromFileQ cfg x (some img) = fromFileQ cfg x none := by
  unfold fromFileQ
  cases blobHeaderFromFile x.file with
  | error e => rfl
  | ok _ => simp only [hr, hlen, Bool.true_or, Bool.false_or, decide_true, if_true]

/-- without an index file: the quarantine of `openBlob` (`Pearl/Model/Crash.lean`) -/
theorem fromFileQ_none_quarantine (cfg : Cfg) (x : BBlob)
    (h : openBlob cfg.klen cfg.validateData x.file = .quarantine) : fromFileQ cfg x none = .quarantine := by
  unfold openBlob at h
  unfold fromFileQ
  cases hh : blobHeaderFromFile x.file with
  | error e =>
    rw [hh] at h
    simp only [] at h ⊢
    rw [h]; rfl
  | ok _ =>
    rw [hh] at h
    simp only [Bool.false_or] at h ⊢
    by_cases hl : blobHeaderSize < x.file.length
    · have hl' : x.file.length > blobHeaderSize := hl
      rw [if_pos hl] at h
      simp only [hl', decide_true, if_true]
      cases hs : rawRecordsLoad cfg.klen cfg.validateData x.file with
      | error e =>
        rw [hs] at h
        simp only [] at h ⊢
        rw [h]; rfl
      | ok hs' => rw [hs] at h; cases h
    · rw [if_neg hl] at h; cases h

/-- an accepted index file: used as it is -/
theorem fromFileQ_accepted (cfg : Cfg) (x : BBlob) (img : List Nat) (flt : Combined) (off : Nat)
    (ha : openIndex cfg x.file.length img = .accepted flt off) (hh : ∃ h, blobHeaderFromFile x.file = .ok h) :
    fromFileQ cfg x (some img) = .ok { x with index := .disk img off, filter := flt } :=
  (fromFileQ_ok_iff cfg x _ _).2 (fromFileB_accepted cfg x img flt off ha hh)

/-! ### the index file against the cut blob file -/

/-- a complete dumped image against a blob file of `L` bytes: rejected, or `L` is the size it was dumped for -/
theorem openIndex_dumped (hB : BytesOK cfg sha) {p : List Rec} (hp : RecsOK cfg p) (h3 : Sized3 cfg p)
    {img : List Nat} (hi : dumpedImage cfg sha p = some img) (L : Nat) :
    openIndex cfg L img = .rejected ∨
    ∃ mb off, p ≠ [] ∧ serializeFilters cfg.klen (filterOf cfg p) = some (mb, off) ∧
      img = imageRecs cfg sha p mb ∧ L = Fs.contentLen cfg.klen p := by
  obtain ⟨hne, mb, off, hs, rfl⟩ := dumpedImage_some hp hi
  by_cases hL : L = (blobBytes cfg.klen (full p)).length
  · right
    exact ⟨mb, off, hne, hs, rfl, by rw [hL, file_length]⟩
  · left
    exact openIndex_stale hB hp h3 hs L hL

/-- **every index-file content a crash can leave, against a blob file of ANY length `L`**: it is rejected — never
    a panic — unless it is the complete image of a dump made when the blob held `recs.take m` AND `L` is exactly the
    length of the blob file of those records.  In particular (`blob_size` check, both directions): an index that
    describes more records than the cut blob file holds, or fewer, is rejected. -/
theorem openIndex_at_crash (hB : BytesOK cfg sha) {recs : List Rec} (hok : RecsOK cfg recs) (h3 : Sized3 cfg recs)
    {img : List Nat} (hc : IdxAtCrash cfg sha recs (some img)) (L : Nat) :
    openIndex cfg L img = .rejected ∨
    ∃ m mb off, m ≤ recs.length ∧ recs.take m ≠ [] ∧
      serializeFilters cfg.klen (filterOf cfg (recs.take m)) = some (mb, off) ∧
      img = imageRecs cfg sha (recs.take m) mb ∧ L = Fs.contentLen cfg.klen (recs.take m) := by
  have hpre : ∀ m, recs.take m <+: recs := fun m => List.take_prefix m recs
  cases hc with
  | dumped m _ hm h =>
    rcases openIndex_dumped hB (hok.prefix (hpre m)) (h3.prefix (hpre m)) h L with hr | ⟨mb, off, h1, h2, h4, h5⟩
    · exact Or.inl hr
    · exact Or.inr ⟨m, mb, off, hm, h1, h2, h4, h5⟩
  | truncated m img' t hm h ht =>
    exact Or.inl (dumped_prefix_rejected hB (hok.prefix (hpre m)) (h3.prefix (hpre m)) h L t ht)
  | interrupted m f mb st hm h =>
    rcases dump_stage_cases hB (hok.prefix (hpre m)) (h3.prefix (hpre m)) h st with hd | hr
    · rcases openIndex_dumped hB (hok.prefix (hpre m)) (h3.prefix (hpre m)) hd L with hr | ⟨mb', off, h1, h2, h4, h5⟩
      · exact Or.inl hr
      · exact Or.inr ⟨m, mb', off, hm, h1, h2, h4, h5⟩
    · exact Or.inl (hr L)

/-! ### per blob -/

/-- the blob `x` that `Blob::from_file` returned WITH the index file starts as the blob `y` it returns WITHOUT:
    the same blob after `dump`, `y` after `load_index`, the same id -/
def StartsAsB (cfg : Cfg) (sha : List Nat → List Nat) (x y : BBlob) : Prop :=
  x.dump cfg sha = y.dump cfg sha ∧ loadIndexOrRegenB cfg x = some y ∧ x.id = y.id

theorem startsAsB_refl_mem (cfg : Cfg) (sha : List Nat → List Nat) (y : BBlob) (m : InMem RecHeader)
    (h : y.index = .mem m) : StartsAsB cfg sha y y := by
  refine ⟨rfl, ?_, rfl⟩
  unfold loadIndexOrRegenB
  rw [h]

theorem reidx_recovered (cfg : Cfg) (b : CBlob) (t n : Nat) : reidx cfg (recovered cfg b t n n) = recovered cfg b t n n := by
  unfold reidx recovered
  simp only []
  rw [hdrsOf_take]

theorem crash_file_length_lt {b : CBlob} {t : Nat} (ht : t < b.file.length) :
    (b.file.take t).length = t := by
  rw [List.length_take]; omega

/-- the cut of a blob file whose length is a record boundary is clean -/
theorem cutKind_of_length_boundary {b : CBlob} (hb : BlobInv cfg b) {t m : Nat} (hm : m ≤ b.ghost.length)
    (hL : (b.file.take t).length = Fs.contentLen cfg.klen (b.ghost.take m)) :
    ∃ n, cutKind cfg.klen b.ghost t = .clean n := by
  have hfl : b.file.length = Fs.contentLen cfg.klen b.ghost := by rw [hb.file, file_length]
  by_cases ht : t < b.file.length
  · rw [crash_file_length_lt ht] at hL
    exact ⟨m, by rw [hL]; exact cutKind_boundary cfg.klen b.ghost m hm⟩
  · exact ⟨_, cutKind_of_ge cfg.klen b.ghost t (by omega)⟩

/-- **`Blob::from_file` on the cut file of a blob, with every index-file content a crash can leave next to it**
    (`IdxAtCrash`; `hho`: no index file lies next to a file that is cut back to the bare blob header — see
    `crash_index_beside_header_only`): the blob is quarantined exactly when it is without the index file, and
    otherwise the blob returned starts as the one returned without the index file -/
theorem fromFileQ_crash (hB : BytesOK cfg sha) {b : CBlob} (hb : BlobInv cfg b) (h3 : Sized3 cfg b.ghost) (t : Nat)
    {idx : Option (List Nat)} (hc : IdxAtCrash cfg sha b.ghost idx)
    (hho : (b.file.take t).length = blobHeaderSize → idx = none) :
    (fate cfg.klen cfg.validateData b.ghost t = .quarantined →
      fromFileQ cfg ((b.crash cfg t).toB sha) idx = .quarantine) ∧
    (∀ n torn, fate cfg.klen cfg.validateData b.ghost t = .opened n torn →
      ∃ x, fromFileQ cfg ((b.crash cfg t).toB sha) idx = .ok x ∧
        StartsAsB cfg sha x ((recovered cfg b t n (if torn then n + 1 else n)).toB sha)) := by
  have hXf : ((b.crash cfg t).toB sha).file = b.file.take t := rfl
  have hfl : b.file.length = Fs.contentLen cfg.klen b.ghost := by rw [hb.file, file_length]
  -- without the index file
  have hq : fate cfg.klen cfg.validateData b.ghost t = .quarantined →
      fromFileQ cfg ((b.crash cfg t).toB sha) none = .quarantine := fun h =>
    fromFileQ_none_quarantine cfg _ (by rw [hXf]; exact openBlob_quarantined hb h)
  have ho : ∀ n torn, fate cfg.klen cfg.validateData b.ghost t = .opened n torn →
      ∃ x, fromFileQ cfg ((b.crash cfg t).toB sha) none = .ok x ∧
        StartsAsB cfg sha x ((recovered cfg b t n (if torn then n + 1 else n)).toB sha) := by
    intro n torn h
    refine ⟨_, (fromFileQ_ok_iff cfg _ _ _).2 ?_, startsAsB_refl_mem cfg sha _ _ rfl⟩
    rw [fromFileB_none, regen_toB, regen_crash_opened hb h]
    rfl
  cases idx with
  | none => exact ⟨hq, ho⟩
  | some img =>
    by_cases h20 : t < blobHeaderSize
    · -- the blob header is cut: the index file is not looked at
      have hshort : (b.file.take t).length < 20 := by
        rw [List.length_take]; have : blobHeaderSize = 20 := rfl; omega
      have he := blobHeaderFromFile_short _ hshort
      have heq : fromFileQ cfg ((b.crash cfg t).toB sha) (some img) = fromFileQ cfg ((b.crash cfg t).toB sha) none := by
        rw [fromFileQ_header_err cfg _ _ (by rw [hXf]; exact he),
          fromFileQ_header_err cfg _ _ (by rw [hXf]; exact he)]
      rw [heq]
      exact ⟨hq, ho⟩
    · have h20' : blobHeaderSize ≤ t := by omega
      have hge : blobHeaderSize ≤ (b.file.take t).length := by
        rw [List.length_take, hfl]
        have := contentLen_ge cfg.klen b.ghost
        omega
      have hgt : (b.file.take t).length > blobHeaderSize := by
        rcases Nat.lt_or_ge blobHeaderSize (b.file.take t).length with h | h
        · exact h
        · have := hho (by omega)
          cases this
      rcases openIndex_at_crash hB hb.recsOK h3 hc (b.file.take t).length with
        hrej | ⟨m, mb, off, hm, hne, hs, himg, hL⟩
      · -- rejected: as without the index file
        rw [fromFileQ_rejected cfg _ img (by rw [hXf]; exact hrej) (by rw [hXf]; exact hgt)]
        exact ⟨hq, ho⟩
      · -- the image of the dump of `ghost.take m`, and the cut file has exactly the length of that blob file
        obtain ⟨n, hk⟩ := cutKind_of_length_boundary hb hm hL
        obtain ⟨_, hn, _⟩ := cutKind_clean hk
        have hfile := crash_file_clean hb.toBlobInv0 hk
        have hnle : n ≤ b.ghost.length := by rw [hn]; exact complete_le _ _ _
        have hmn : m = n := by
          have h1 := complete_boundary cfg.klen b.ghost m hm
          have h2 := complete_boundary cfg.klen b.ghost n hnle
          have : Fs.contentLen cfg.klen (b.ghost.take m) = Fs.contentLen cfg.klen (b.ghost.take n) := by
            rw [← hL, hfile, file_length]
          rw [this] at h1
          omega
        subst hmn
        have hfate : fate cfg.klen cfg.validateData b.ghost t = .opened m false := by
          unfold fate; rw [hk]
        have hb' := recovered_inv hb hk
        have hg' : (recovered cfg b t m m).ghost = b.ghost.take m := rfl
        have h3' : Sized3 cfg (recovered cfg b t m m).ghost := h3.prefix (List.take_prefix m b.ghost)
        have hacc := openIndex_current hB hb' (by rw [hg']; exact hne) h3' (by rw [hg']; exact hs)
        have hsd := startsAs_dumped hB hb' (by rw [hg']; exact hne) h3' (by rw [hg']; exact hs)
        unfold StartsAs at hsd
        rw [reidx_recovered] at hsd
        refine ⟨fun h => (by rw [hfate] at h; cases h), fun n' torn' h => ?_⟩
        rw [hfate] at h
        cases h
        subst himg
        refine ⟨_, fromFileQ_accepted cfg _ _ _ off hacc ⟨_, by rw [hXf, hfile]; exact blobHeader_blob _ _⟩, ?_⟩
        exact hsd

end
end Pearl.E2E
