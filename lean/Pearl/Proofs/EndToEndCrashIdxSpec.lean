import Pearl.Proofs.EndToEndCrashIdxStore
import Pearl.Proofs.EndToEndCrashServed
/-
Crash recovery with index files, lemmas, part 4: side conditions of the recovered storage (the index files it
writes are shorter than `2^64` bytes), the header-only condition in terms of the cut, the `blob_size` check in both
directions, and `recoverWithIndexes` against the existing `restartWithIndexes`.
-/
namespace Pearl.E2E
open Pearl Pearl.BPTree Pearl.Container

section
variable {cfg : Cfg} {sha : List Nat → List Nat}

/-! ### an index file implies a record -/

/-- every index-file content of `IdxAtCrash` stems from a dump, and nothing is dumped for a blob without records -/
theorem idxAtCrash_ne_nil {recs : List Rec} (hok : RecsOK cfg recs) {img : List Nat}
    (hc : IdxAtCrash cfg sha recs (some img)) : recs ≠ [] := by
  have hpre : ∀ m, recs.take m <+: recs := fun m => List.take_prefix m recs
  have key : ∀ m, recs.take m ≠ [] → recs ≠ [] := by
    intro m h h0; rw [h0] at h; simp at h
  cases hc with
  | dumped m _ hm h => exact key m (dumpedImage_some (hok.prefix (hpre m)) h).1
  | truncated m img' t hm h ht => exact key m (dumpedImage_some (hok.prefix (hpre m)) h).1
  | interrupted m f mb st hm h => exact key m (dumpedParts_some (hok.prefix (hpre m)) h).1

/-- the condition "no index file next to a blob file cut back to the bare header" in terms of the cut alone: the
    only such cut is `cut id = 20` (a blob that HAS an index file has records) -/
theorem dirAtCrash_of_cut {c : CState} (hinv : CInv cfg c) (cut : Nat → Nat) (dir : Nat → Option (List Nat))
    (hchoice : ∀ b ∈ c.blobs, IdxAtCrash cfg sha b.ghost (dir b.id))
    (h20 : ∀ b ∈ c.blobs, cut b.id = blobHeaderSize → dir b.id = none) : DirAtCrash cfg sha c cut dir := by
  refine ⟨hchoice, fun b hb hlen => ?_⟩
  cases hd : dir b.id with
  | none => rfl
  | some img =>
    exfalso
    have hbi : BlobInv cfg b := CInvG.blobInv hinv hb
    have hc := hchoice b hb
    rw [hd] at hc
    have hne := idxAtCrash_ne_nil hbi.recsOK hc
    have hgt := file_length_gt hbi hne
    rw [List.length_take] at hlen
    have : cut b.id = blobHeaderSize := by omega
    rw [h20 b hb this] at hd
    cases hd

/-- … in particular when the blob file was synced before the dump that wrote (or began to write) the index file
    (`Blob::dump`: `fsyncdata` of the blob, then `index.dump`): the cut is beyond the first record -/
theorem dirAtCrash_of_synced {c : CState} (hinv : CInv cfg c) (cut : Nat → Nat) (dir : Nat → Option (List Nat))
    (hchoice : ∀ b ∈ c.blobs, IdxAtCrash cfg sha b.ghost (dir b.id))
    (hsync : ∀ b ∈ c.blobs, (dir b.id).isSome = true → Fs.contentLen cfg.klen (b.ghost.take 1) ≤ cut b.id) :
    DirAtCrash cfg sha c cut dir := by
  apply dirAtCrash_of_cut hinv cut dir hchoice
  intro b hb h20
  cases hd : dir b.id with
  | none => rfl
  | some img =>
    exfalso
    have hbi : BlobInv cfg b := CInvG.blobInv hinv hb
    have hc := hchoice b hb
    rw [hd] at hc
    have hne := idxAtCrash_ne_nil hbi.recsOK hc
    have hs := hsync b hb (by rw [hd]; rfl)
    have hpos : 0 < b.ghost.length := List.length_pos_iff.mpr hne
    rw [contentLen_take_succ cfg.klen b.ghost 0 hpos] at hs
    have := recLen_ge cfg.klen b.ghost[0]
    have := contentLen_ge cfg.klen (b.ghost.take 0)
    omega

/-! ### the choices, in the form a directory is written down -/

/-- whatever the dump of `recs.take m` left (nothing, for `m = 0`) -/
theorem IdxAtCrash.of_dumped_take (cfg : Cfg) (sha : List Nat → List Nat) (recs : List Rec) (m : Nat)
    (hm : m ≤ recs.length) : IdxAtCrash cfg sha recs (dumpedImage cfg sha (recs.take m)) := by
  cases hd : dumpedImage cfg sha (recs.take m) with
  | none => exact .absent
  | some img => exact .dumped m img hm hd

/-- … cut at `t`, short of its length -/
theorem IdxAtCrash.of_truncated_take (cfg : Cfg) (sha : List Nat → List Nat) (recs : List Rec) (m t : Nat)
    (hm : m ≤ recs.length) (ht : ∀ img, dumpedImage cfg sha (recs.take m) = some img → t < img.length) :
    IdxAtCrash cfg sha recs ((dumpedImage cfg sha (recs.take m)).map (·.take t)) := by
  cases hd : dumpedImage cfg sha (recs.take m) with
  | none => exact .absent
  | some img => exact .truncated m img t hm hd (ht img hd)

/-- … interrupted at the stage `st` -/
theorem IdxAtCrash.of_interrupted_take (cfg : Cfg) (sha : List Nat → List Nat) (recs : List Rec) (m : Nat)
    (st : DumpStage) (hm : m ≤ recs.length) :
    IdxAtCrash cfg sha recs ((dumpedParts cfg (recs.take m)).map
      (fun p => st.bytes sha p.1 p.2 (blobFileLen cfg (recs.take m)))) := by
  cases hd : dumpedParts cfg (recs.take m) with
  | none => exact .absent
  | some p => exact .interrupted m p.1 p.2 st hm hd

/-! ### the `blob_size` check, both directions -/

/-- the complete image of the dump made when the blob held `ghost.take m`, next to the blob file cut at `t`: rejected
    whenever the surviving file is shorter (the index describes records the cut has removed) or longer (stale) than
    the blob file the index was dumped for -/
theorem index_blob_size_rejected (hB : BytesOK cfg sha) {b : CBlob} (hb : BlobInv cfg b) (h3 : Sized3 cfg b.ghost)
    {m : Nat} {img : List Nat} (hi : dumpedImage cfg sha (b.ghost.take m) = some img) (t : Nat)
    (hne : (b.file.take t).length ≠ Fs.contentLen cfg.klen (b.ghost.take m)) :
    openIndex cfg (b.file.take t).length img = .rejected := by
  have hpre : b.ghost.take m <+: b.ghost := List.take_prefix m b.ghost
  rcases openIndex_dumped hB (hb.recsOK.prefix hpre) (h3.prefix hpre) hi (b.file.take t).length with h | ⟨_, _, _, _, _, h⟩
  · exact h
  · exact absurd h hne

/-! ### the recovered storage: its index files are short enough -/

theorem recovered_sized3 (hcfg : cfg.OK) {c : CState} (hinv : CInv cfg c) (h3 : ∀ b ∈ c.blobs, Sized3 cfg b.ghost)
    (hne : c.blobs ≠ []) (cut : Nat → Nat) (lazy : Bool) {c₁ : CState}
    (hc₁ : c.crashRecover cfg cut lazy = some c₁) : ∀ b₁ ∈ c₁.blobs, Sized3 cfg b₁.ghost := by
  rw [crashRecover_eq hinv cut lazy] at hc₁
  cases hc₁
  have hnil : Sized3 cfg [] := by
    obtain ⟨b0, hb0⟩ := List.exists_mem_of_ne_nil _ hne
    exact (h3 b0 hb0).prefix (List.nil_prefix)
  intro b₁ hb₁
  rcases mem_ofBlobs hcfg _ (maxNextId c.blobs) lazy (survivors_filter_WF cfg cut _) b₁ hb₁ with
    ⟨x, hx, hxe⟩ | ⟨_, rfl⟩
  · obtain ⟨b0, hb0, hs0⟩ := List.mem_filterMap.mp hx
    have hxg : x.ghost <+: b0.ghost := by
      unfold surv at hs0
      split at hs0
      · cases hs0
      · cases hs0; exact List.take_prefix _ _
    have hg : b₁.ghost = x.ghost := by
      rcases hxe with rfl | rfl
      · rfl
      · exact (dump_fields cfg x).2.2.1
    rw [hg]
    exact (h3 b0 hb0).prefix hxg
  · exact hnil

theorem storeIdxSized_of_sized3 {c : CState} (h : ∀ b ∈ c.blobs, Sized3 cfg b.ghost) :
    StoreIdxSized cfg (c.abs cfg) := by
  intro x hx
  rw [abs_blobs] at hx
  obtain ⟨b, hb, rfl⟩ := List.mem_map.mp hx
  exact h b hb

/-! ### `recoverWithIndexes` extends `restartWithIndexes` -/

theorem foldl_indexPushB_id (cfg : Cfg) : ∀ (hs : List RecHeader) (b : BBlob),
    (hs.foldl (fun b h => (b.indexPush cfg (hdrKey h) h).getD b) b).id = b.id
  | [], _ => rfl
  | h :: hs, b => by
    simp only [List.foldl_cons]
    rw [foldl_indexPushB_id cfg hs]
    unfold BBlob.indexPush
    cases b.index <;> rfl

theorem fromFileB_id {x y : BBlob} {idx : Option (List Nat)} (h : fromFileB cfg x idx = some y) : y.id = x.id := by
  have key : ∀ (b : BBlob), tryRegenerateB cfg b = some y → y.id = b.id := by
    intro b hb
    unfold tryRegenerateB at hb
    cases hi : b.index with
    | disk img off => rw [hi] at hb; cases hb; rfl
    | mem m =>
      rw [hi] at hb
      simp only [] at hb
      cases hl : rawRecordsLoad cfg.klen cfg.validateData b.file with
      | error e => rw [hl] at hb; cases hb
      | ok hs => rw [hl] at hb; cases hb; exact foldl_indexPushB_id cfg hs b
  have key2 : ∀ (b : BBlob) (cnd : Bool), (if cnd = true then tryRegenerateB cfg b else some b) = some y →
      y.id = b.id := by
    intro b cnd hb
    cases cnd with
    | true => exact key b hb
    | false => cases hb; rfl
  unfold fromFileB at h
  cases hh : blobHeaderFromFile x.file with
  | error e => rw [hh] at h; cases h
  | ok _ =>
    rw [hh] at h
    simp only [] at h
    cases idx with
    | none => exact key2 { x with index := .mem [], filter := newFilter cfg } _ h
    | some img =>
      simp only [] at h
      cases ho : openIndex cfg x.file.length img with
      | accepted flt off => rw [ho] at h; exact key2 { x with index := .disk img off, filter := flt } _ h
      | rejected => rw [ho] at h; exact key2 { x with index := .mem [], filter := newFilter cfg } _ h
      | panic => rw [ho] at h; cases h

/-- when every `Blob::from_file` succeeds (`read_blobs` of `restartWithIndexes`), nothing is quarantined -/
theorem readBlobsIdx_of_startAllB (dir : Nat → Option (List Nat)) : ∀ (l bs : List BBlob),
    startAllB cfg dir l = some bs → readBlobsIdx cfg dir l = some bs ∧ bs.map (·.id) = l.map (·.id)
  | [], bs, h => by
    simp only [startAllB, Option.some.injEq] at h
    subst h
    exact ⟨rfl, rfl⟩
  | b :: l, bs, h => by
    simp only [startAllB] at h
    cases hf : fromFileB cfg b (dir b.id) with
    | none => rw [hf] at h; cases h
    | some b' =>
      cases hl : startAllB cfg dir l with
      | none => rw [hf, hl] at h; cases h
      | some bs' =>
        rw [hf, hl] at h
        cases h
        obtain ⟨ih1, ih2⟩ := readBlobsIdx_of_startAllB dir l bs' hl
        simp only [readBlobsIdx, (fromFileQ_ok_iff cfg b _ b').2 hf, ih1, List.map_cons, ih2, fromFileB_id hf]
        exact ⟨trivial, trivial⟩

/-- **the start-up with quarantine extends the existing `restartWithIndexes`**: whenever that one succeeds, the
    two return the same storage -/
theorem recoverWithIndexes_of_restart (c : BState) (dir : Nat → Option (List Nat)) (lazy : Bool) {b' : BState}
    (h : c.restartWithIndexes cfg sha dir lazy = some b') : c.recoverWithIndexes cfg sha dir lazy = some b' := by
  unfold BState.restartWithIndexes at h
  unfold BState.recoverWithIndexes BState.ofBlobsIdx
  cases hs : startAllB cfg dir (sortByIdB c.blobs) with
  | none => rw [hs] at h; cases h
  | some bs =>
    rw [hs] at h
    obtain ⟨h1, h2⟩ := readBlobsIdx_of_startAllB dir _ bs hs
    have hmax : (sortByIdB c.blobs).foldl (fun m b => max m (b.id + 1)) 0
        = bs.foldl (fun m b => max m (b.id + 1)) 0 :=
      foldl_maxId_eq BBlob.id BBlob.id _ _ 0 h2.symm
    rw [h1]
    simp only [] at h ⊢
    rw [hmax]
    cases lazy with
    | true => exact h
    | false =>
      simp only [Bool.false_eq_true, if_false] at h ⊢
      cases hl : bs.getLast? with
      | none =>
        rw [hl] at h
        rw [List.getLast?_eq_none_iff.mp hl]
        exact h
      | some a => rw [hl] at h; exact h

end
end Pearl.E2E
