import Pearl.Proofs.EndToEndCrashIdxBlob
/-
Crash recovery with index files, lemmas, part 3: the storage.  `Storage::init` with quarantine on the crashed
directory WITH index files (`BState.crashRecoverWithIndexes`), for every index-file content a crash can leave
(`IdxAtCrash`), returns the very storage the start-up with the index files REMOVED returns (`CState.crashRecover`,
translated to bytes).
-/
namespace Pearl.E2E
open Pearl Pearl.BPTree Pearl.Container

section
variable {cfg : Cfg} {sha : List Nat → List Nat}

/-! ### the crash commutes with the translation to bytes -/

theorem crashBlob_toB (cfg : Cfg) (sha : List Nat → List Nat) (b : CBlob) (t : Nat) :
    (b.crash cfg t).toB sha = (b.toB sha).crash cfg t := rfl

theorem crash_toB (cfg : Cfg) (sha : List Nat → List Nat) (c : CState) (cut : Nat → Nat) :
    (c.crash cfg cut).toB sha = (c.toB sha).crash cfg cut := by
  unfold CState.crash BState.crash CState.toB
  simp only []
  rw [mapChildrenB_mapData sha c.cont (fun b => b.crash cfg (cut b.id)) (fun b => b.crash cfg (cut b.id))
    (fun b _ => rfl)]
  congr 1
  cases c.active <;> rfl

/-! ### the blobs `read_blobs` returns, pairwise -/

inductive AllStartB (cfg : Cfg) (sha : List Nat → List Nat) : List BBlob → List BBlob → Prop where
  | nil : AllStartB cfg sha [] []
  | cons {x y : BBlob} {xs ys : List BBlob} (h : StartsAsB cfg sha x y) (t : AllStartB cfg sha xs ys) :
      AllStartB cfg sha (x :: xs) (y :: ys)

theorem AllStartB.map_dump {xs ys : List BBlob} (h : AllStartB cfg sha xs ys) :
    xs.map (BBlob.dump cfg sha) = ys.map (BBlob.dump cfg sha) := by
  induction h with
  | nil => rfl
  | cons h _ ih => simp only [List.map_cons]; rw [h.1, ih]

theorem AllStartB.dropLast {xs ys : List BBlob} (h : AllStartB cfg sha xs ys) :
    AllStartB cfg sha xs.dropLast ys.dropLast := by
  induction h with
  | nil => exact .nil
  | @cons x y xs ys hx t ih =>
    cases t with
    | nil => exact .nil
    | cons hy t' =>
      simp only [List.dropLast_cons_cons]
      exact .cons hx ih

theorem AllStartB.getLast {xs ys : List BBlob} (h : AllStartB cfg sha xs ys) :
    (xs.getLast? = none ∧ ys.getLast? = none) ∨
      ∃ a y, xs.getLast? = some a ∧ ys.getLast? = some y ∧ StartsAsB cfg sha a y := by
  induction h with
  | nil => exact Or.inl ⟨rfl, rfl⟩
  | @cons x y xs ys hx t ih =>
    right
    cases t with
    | nil => exact ⟨x, y, rfl, rfl, hx⟩
    | cons hy t' =>
      rcases ih with ⟨h1, _⟩ | ⟨a, y', h1, h2, h3⟩
      · simp at h1
      · refine ⟨a, y', ?_, ?_, h3⟩
        · rw [List.getLast?_cons_cons]; exact h1
        · rw [List.getLast?_cons_cons]; exact h2

/-- `read_blobs` with index files on the crashed directory: blob by blob what `fate` says, as without index files -/
theorem readBlobsIdx_crash (hB : BytesOK cfg sha) (cut : Nat → Nat) (dir : Nat → Option (List Nat)) :
    ∀ (l : List CBlob),
    (∀ b ∈ l, BlobInv cfg b ∧ Sized3 cfg b.ghost ∧ IdxAtCrash cfg sha b.ghost (dir b.id) ∧
      ((b.file.take (cut b.id)).length = blobHeaderSize → dir b.id = none)) →
    ∃ xs, readBlobsIdx cfg dir (l.map (fun b => (b.crash cfg (cut b.id)).toB sha)) = some xs ∧
      AllStartB cfg sha xs ((l.filterMap (surv cfg cut)).map (CBlob.toB sha))
  | [], _ => ⟨[], rfl, .nil⟩
  | b :: l, h => by
    obtain ⟨hb, h3, hc, hho⟩ := h b (by simp)
    obtain ⟨xs, hxs, hall⟩ := readBlobsIdx_crash hB cut dir l (fun x hx => h x (by simp [hx]))
    obtain ⟨hq, ho⟩ := fromFileQ_crash hB hb h3 (cut b.id) hc hho
    have hid : ((b.crash cfg (cut b.id)).toB sha).id = b.id := rfl
    simp only [List.map_cons, readBlobsIdx, hid, List.filterMap_cons]
    cases hf : fate cfg.klen cfg.validateData b.ghost (cut b.id) with
    | quarantined =>
      rw [hq hf]
      simp only [surv, hf]
      exact ⟨xs, hxs, hall⟩
    | opened n torn =>
      obtain ⟨x, hx, hs⟩ := ho n torn hf
      rw [hx]
      simp only [surv, hf, hxs, List.map_cons]
      exact ⟨x :: xs, rfl, .cons hs hall⟩

/-! ### the storage built from them -/

theorem ofBlobsIdx_of_allStart {xs : List BBlob} {bs : List CBlob}
    (hall : AllStartB cfg sha xs (bs.map (CBlob.toB sha))) (maxNext : Nat) (lazy : Bool) :
    BState.ofBlobsIdx cfg sha xs maxNext lazy = some ((CState.ofBlobs cfg bs maxNext lazy).toB sha) := by
  have hdump : ∀ (l : List CBlob), (l.map (CBlob.toB sha)).map (BBlob.dump cfg sha)
      = (l.map (CBlob.dump cfg)).map (CBlob.toB sha) := by
    intro l
    simp only [List.map_map]
    apply List.map_congr_left
    intro b _
    exact dump_toB cfg sha b
  have hext : ∀ (l : List CBlob),
      Container.extend (fops cfg) (childOpsB cfg) (BState.emptyCont cfg) (l.map (CBlob.toB sha))
        = mapData (CBlob.toB sha) (Container.extend (fops cfg) (childOps cfg) (CState.emptyCont cfg) l) := by
    intro l
    have := extend_mapData (CBlob.toB sha) (fops cfg) (childOps cfg) (childOpsB cfg)
      (childOps_filterOf_toB cfg sha) l (CState.emptyCont cfg)
    rw [← this]
    rfl
  unfold BState.ofBlobsIdx CState.ofBlobs
  cases lazy with
  | true =>
    simp only [if_true]
    rw [hall.map_dump, hdump, hext]
    rfl
  | false =>
    simp only [Bool.false_eq_true, if_false]
    rcases hall.getLast with ⟨h1, h2⟩ | ⟨a, y, h1, h2, h3⟩
    · rw [List.getLast?_map] at h2
      cases hl : bs.getLast? with
      | none => rw [h1]; rfl
      | some a => rw [hl] at h2; cases h2
    · rw [List.getLast?_map] at h2
      cases hl : bs.getLast? with
      | none => rw [hl] at h2; cases h2
      | some b =>
        rw [hl] at h2
        simp only [Option.map_some, Option.some.injEq] at h2
        subst h2
        rw [h1]
        simp only [h3.2.1]
        have hd := hall.dropLast.map_dump
        rw [← List.map_dropLast, hdump, ] at hd
        rw [hd, hext]
        rfl

/-! ### crash + start-up with index files = crash + start-up without -/

/-- the hypotheses on the directory of index files after the crash -/
structure DirAtCrash (cfg : Cfg) (sha : List Nat → List Nat) (c : CState) (cut : Nat → Nat)
    (dir : Nat → Option (List Nat)) : Prop where
  /-- next to every blob file: nothing, a complete image of an earlier (or the latest) dump, a proper prefix of one,
      or any stage of an interrupted dump -/
  choice : ∀ b ∈ c.blobs, IdxAtCrash cfg sha b.ghost (dir b.id)
  /-- no index file lies next to a blob file that the crash cut back to the bare blob header -/
  headerOnly : ∀ b ∈ c.blobs, (b.file.take (cut b.id)).length = blobHeaderSize → dir b.id = none

theorem crashRecoverWithIndexes_toB (hB : BytesOK cfg sha) {c : CState} (hinv : CInv cfg c)
    (h3 : ∀ b ∈ c.blobs, Sized3 cfg b.ghost) (cut : Nat → Nat) (dir : Nat → Option (List Nat))
    (hdir : DirAtCrash cfg sha c cut dir) (lazy : Bool) :
    (c.toB sha).crashRecoverWithIndexes cfg sha cut dir lazy =
      (c.crashRecover cfg cut lazy).map (CState.toB sha) := by
  have hs : sortById (c.crash cfg cut).blobs = c.blobs.map (fun b => b.crash cfg (cut b.id)) := by
    rw [crash_blobs]
    apply sortById_of_sorted
    rw [List.map_map]
    exact blobs_sorted hinv
  obtain ⟨xs, hxs, hall⟩ := readBlobsIdx_crash hB cut dir c.blobs (fun b hb =>
    ⟨CInvG.blobInv hinv hb, h3 b hb, hdir.choice b hb, hdir.headerOnly b hb⟩)
  have hmax : (List.map (CBlob.toB sha) (c.blobs.map (fun b => b.crash cfg (cut b.id)))).foldl
      (fun m b => max m (b.id + 1)) 0 = maxNextId c.blobs := by
    unfold maxNextId
    apply foldl_maxId_eq BBlob.id CBlob.id
    rw [List.map_map, List.map_map]
    rfl
  unfold BState.crashRecoverWithIndexes BState.recoverWithIndexes
  rw [← crash_toB, blobs_toB, sortByIdB_map, hs, List.map_map]
  have hcomp : (CBlob.toB sha ∘ fun (b : CBlob) => b.crash cfg (cut b.id)) =
      fun (b : CBlob) => (b.crash cfg (cut b.id)).toB sha := rfl
  rw [hcomp, hxs]
  simp only []
  rw [← hcomp, ← List.map_map, hmax, ofBlobsIdx_of_allStart hall, crashRecover_eq hinv cut lazy]
  rfl

end
end Pearl.E2E
