import Pearl.Proofs.EndToEndCrashStore
/-
End-to-end crash recovery, part 4: crash + start-up refines the L2 crash + start-up.

* `crash_abs`            : the crashed directory abstracts to `Store.crash`;
* `crash_recover_ref`    : when no blob is opened with a torn tail record, the recovered storage satisfies `CInv` and
                           abstracts to `Store.crashRecover` (quarantined blobs left out);
* `crashRecover_eq_restart` : when no blob is quarantined, `recover` is the existing `restart`;
* `Store.crashRecover_clean` : at L2, when every cut is clean, crash + start-up is `Store.crash` then
                           `Store.restart`.
-/
namespace Pearl
open Pearl.E2E

/-! ### L2 -/

theorem Store.crash_blobs (klen : Nat) (s : Store) (cut : Nat → Nat) :
    (s.crash klen cut).blobs = s.blobs.map (fun b => b.crash klen (cut b.id)) := by
  unfold Store.blobs Store.closed Store.crash
  simp only [List.map_append]
  rw [filterMap_id_map]
  cases s.active <;> rfl

theorem Store.crash_ids (klen : Nat) (s : Store) (cut : Nat → Nat) :
    (s.crash klen cut).blobs.map (·.id) = s.blobs.map (·.id) := by
  rw [Store.crash_blobs, List.map_map]
  rfl

theorem Store.crash_WF {klen : Nat} {s : Store} (hwf : s.WF) (cut : Nat → Nat) : (s.crash klen cut).WF := by
  refine ⟨by rw [Store.crash_ids]; exact hwf.1, ?_⟩
  intro b hb
  rw [Store.crash_blobs] at hb
  obtain ⟨b0, hb0, rfl⟩ := List.mem_map.mp hb
  exact hwf.2 b0 hb0

theorem foldl_max_ids (l l' : List Blob) (h : l.map (·.id) = l'.map (·.id)) :
    l.foldl (fun m b => max m (b.id + 1)) 0 = l'.foldl (fun m b => max m (b.id + 1)) 0 := by
  have e : ∀ (l : List Blob), l.foldl (fun m b => max m (b.id + 1)) 0
      = (l.map (·.id)).foldl (fun m i => max m (i + 1)) 0 := by
    intro l; rw [List.foldl_map]
  rw [e l, e l', h]

/-- when every cut is clean, crash + start-up with quarantine is the crash followed by the plain restart -/
theorem Store.crashRecover_clean {klen : Nat} {v : Bool} {s : Store} (hwf : s.WF) (cut : Nat → Nat) (lazy : Bool)
    (hclean : ∀ b ∈ s.blobs, ∃ n, cutKind klen b.recs (cut b.id) = .clean n) :
    s.crashRecover klen v cut lazy = (s.crash klen cut).restart lazy := by
  have hsort : Store.sortById s.blobs = s.blobs := Store.sortById_of_sorted _ hwf.1
  have hsort' : Store.sortById (s.crash klen cut).blobs = (s.crash klen cut).blobs :=
    Store.sortById_of_sorted _ (Store.crash_WF hwf cut).1
  rw [Store.restart_eq_ofBlobs, hsort']
  unfold Store.crashRecover Store.survivors
  rw [hsort]
  congr 1
  · rw [Store.crash_blobs]
    have : ∀ (l : List Blob), (∀ b ∈ l, ∃ n, cutKind klen b.recs (cut b.id) = .clean n) →
        l.filterMap (fun b =>
          match fate klen v b.recs (cut b.id) with
          | .quarantined => none
          | .opened n _ => some { id := b.id, recs := b.recs.take n, onDisk := false })
          = l.map (fun b => b.crash klen (cut b.id)) := by
      intro l
      induction l with
      | nil => intro _; rfl
      | cons b l ih =>
        intro h
        obtain ⟨n, hn⟩ := h b (by simp)
        rw [List.filterMap_cons, List.map_cons, ih (fun x hx => h x (by simp [hx]))]
        have hf : fate klen v b.recs (cut b.id) = .opened n false := by unfold fate; rw [hn]
        simp only [hf]
        unfold Blob.crash
        rw [← (cutKind_clean hn).2.1]
    exact this s.blobs hclean
  · exact foldl_max_ids _ _ (Store.crash_ids klen s cut).symm

/-- a crash that loses nothing (every cut at or after the end of its file) followed by a restart answers like the
    storage before it: at L2 the records are the same -/
theorem Store.crash_of_ge {klen : Nat} (s : Store) (cut : Nat → Nat)
    (h : ∀ b ∈ s.blobs, Fs.contentLen klen b.recs ≤ cut b.id) :
    (s.crash klen cut).blobs.map (fun b => (b.id, b.recs)) = s.blobs.map (fun b => (b.id, b.recs)) := by
  rw [Store.crash_blobs, List.map_map]
  apply List.map_congr_left
  intro b hb
  simp only [Function.comp_apply, Blob.crash, complete_of_ge klen b.recs _ (h b hb), List.take_length]

end Pearl

namespace Pearl.E2E
open Pearl Pearl.BPTree Pearl.Container

/-! ### the crashed directory -/

theorem crashBlob_abs (cfg : Cfg) (b : CBlob) (t : Nat) : (b.crash cfg t).abs = b.abs.crash cfg.klen t := rfl

/-- the crashed directory abstracts to the L2 crash -/
theorem crash_abs (cfg : Cfg) (c : CState) (cut : Nat → Nat) :
    (c.crash cfg cut).abs cfg = (c.abs cfg).crash cfg.klen cut := by
  apply Store.ext'
  · show (c.active.map _).map CBlob.abs = (c.active.map CBlob.abs).map _
    cases c.active <;> rfl
  · rw [abs_slots]
    show (slotsOf (mapChildren c.cont _)).map _ = ((c.abs cfg).slots).map _
    rw [abs_slots, slotsOf_mapChildren, List.map_map, List.map_map]
    apply List.map_congr_left
    intro o _
    cases o <;> rfl
  · rfl
  · rfl

/-! ### the survivors -/

theorem survivors_abs {cfg : Cfg} {c : CState} (hinv : CInv cfg c) (cut : Nat → Nat) :
    (c.blobs.filterMap (surv cfg cut)).map CBlob.abs =
      (c.abs cfg).survivors cfg.klen cfg.validateData cut := by
  unfold Store.survivors
  rw [Store.sortById_of_sorted _ hinv.wf.1, abs_blobs, List.filterMap_map, List.map_filterMap]
  apply filterMap_congr'
  intro b _
  simp only [Function.comp_apply, surv]
  show _ = match fate cfg.klen cfg.validateData b.ghost (cut b.id) with
    | .quarantined => none
    | .opened n _ => some ({ id := b.id, recs := b.ghost.take n, onDisk := false } : Blob)
  cases fate cfg.klen cfg.validateData b.ghost (cut b.id) with
  | quarantined => rfl
  | opened n torn => rfl

theorem maxNextId_abs {cfg : Cfg} {c : CState} (hinv : CInv cfg c) :
    (Store.sortById (c.abs cfg).blobs).foldl (fun m b => max m (b.id + 1)) 0 = maxNextId c.blobs := by
  rw [Store.sortById_of_sorted _ hinv.wf.1, abs_blobs, List.foldl_map]
  rfl

/-- no blob is opened with a torn tail record (finding E8 does not occur at this cut) -/
def NoTorn (cfg : Cfg) (c : CState) (cut : Nat → Nat) : Prop :=
  ∀ b ∈ c.blobs, ∀ n, fate cfg.klen cfg.validateData b.ghost (cut b.id) ≠ .opened n true

theorem surv_noTorn {cfg : Cfg} {c : CState} {cut : Nat → Nat} (hinv : CInv cfg c) (hnt : NoTorn cfg c cut)
    {b b' : CBlob} (hb : b ∈ c.blobs) (h : surv cfg cut b = some b') :
    BlobInv cfg b' ∧ b'.index.onDisk = false := by
  unfold surv at h
  split at h
  · cases h
  · next n torn hf =>
    cases torn with
    | true => exact absurd hf (hnt b hb n)
    | false =>
      cases h
      exact ⟨recovered_inv (CInvG.blobInv hinv hb) (fate_opened_false hf), rfl⟩

/-- **crash + start-up refines the L2 crash + start-up**: for every state satisfying the invariant and every cut
    at which no blob is opened with a torn tail, start-up succeeds, the recovered storage satisfies the invariant and
    abstracts to the L2 store holding, of every blob that was not quarantined, exactly the records that are
    complete in the surviving prefix of its file -/
theorem crash_recover_ref {cfg : Cfg} (hcfg : cfg.OK) {c : CState} (hinv : CInv cfg c) (cut : Nat → Nat)
    (lazy : Bool) (hnt : NoTorn cfg c cut) :
    ∃ c₁, c.crashRecover cfg cut lazy = some c₁ ∧ CInv cfg c₁ ∧
      c₁.abs cfg = (c.abs cfg).crashRecover cfg.klen cfg.validateData cut lazy := by
  refine ⟨_, crashRecover_eq hinv cut lazy, ?_⟩
  have href := ofBlobs_ref hcfg (c.blobs.filterMap (surv cfg cut)) (maxNextId c.blobs) lazy
    (by
      intro b' hb'
      obtain ⟨b, hb, hs⟩ := List.mem_filterMap.mp hb'
      exact surv_noTorn hinv hnt hb hs)
    (filterMap_sorted (fun b b' h => surv_id h) _ (blobs_sorted hinv))
    (by
      intro b' hb'
      obtain ⟨b, hb, hs⟩ := List.mem_filterMap.mp hb'
      rw [surv_id hs]
      exact lt_maxNextId _ b hb)
  refine ⟨href.2, ?_⟩
  rw [href.1, survivors_abs hinv cut]
  unfold Store.crashRecover
  rw [maxNextId_abs hinv]
  rfl

/-! ### without quarantine: the existing `restart` -/

theorem regenAll_crash {cfg : Cfg} (cut : Nat → Nat) : ∀ (l : List CBlob), (∀ b ∈ l, BlobInv cfg b) →
    (∀ b ∈ l, fate cfg.klen cfg.validateData b.ghost (cut b.id) ≠ .quarantined) →
    regenAll cfg (l.map (fun b => b.crash cfg (cut b.id))) = some (l.filterMap (surv cfg cut))
  | [], _, _ => rfl
  | b :: l, h, hq => by
    have hb := h b (by simp)
    have ih := regenAll_crash cut l (fun x hx => h x (by simp [hx])) (fun x hx => hq x (by simp [hx]))
    simp only [List.map_cons, regenAll]
    cases hfate : fate cfg.klen cfg.validateData b.ghost (cut b.id) with
    | quarantined => exact absurd hfate (hq b (by simp))
    | opened n torn =>
      rw [regen_crash_opened hb hfate, ih, List.filterMap_cons]
      simp only [surv, hfate]

/-- when no blob file is rejected, start-up on the crashed directory is the existing `restart` of it -/
theorem crashRecover_eq_restart {cfg : Cfg} {c : CState} (hinv : CInv cfg c) (cut : Nat → Nat) (lazy : Bool)
    (hq : ∀ b ∈ c.blobs, fate cfg.klen cfg.validateData b.ghost (cut b.id) ≠ .quarantined) :
    c.crashRecover cfg cut lazy = some ((c.crash cfg cut).restart cfg lazy) := by
  unfold CState.crashRecover
  apply recover_eq_restart cfg _ lazy (c.blobs.filterMap (surv cfg cut))
  have hs : sortById (c.crash cfg cut).blobs = c.blobs.map (fun b => b.crash cfg (cut b.id)) := by
    rw [crash_blobs]
    apply sortById_of_sorted
    rw [List.map_map]
    exact blobs_sorted hinv
  rw [hs]
  exact regenAll_crash cut c.blobs (fun b hb => CInvG.blobInv hinv hb) hq

end Pearl.E2E
