import Pearl.Proofs.EndToEndCrashRef
/-
End-to-end crash recovery, part 5: what is left of a record that ended before the cut.

* `entryLoad_of_end_le` : a record that ends at or before the cut loads from the cut file with its original bytes
                          (C06 `entryLoad_prefix`), whatever start-up makes of the file;
* `ofBlobs_blobs`       : the blobs of the storage `init` builds, for ANY list of opened blobs with well-formed
                          filters (no blob invariant needed — used for blobs with a torn tail);
* `survivor_in_recovered`, `quarantined_not_in_recovered` : where a blob of the crashed storage ends up.
-/
namespace Pearl.E2E
open Pearl Pearl.BPTree Pearl.Container

/-! ### the bytes of a complete record -/

/-- a record that ends at or before `t` is read back from the first `t` bytes of the blob file with the bytes that
    were written, by the header that was pushed for it -/
theorem entryLoad_of_end_le {cfg : Cfg} {b : CBlob} (hb : BlobInv cfg b) (t j : Nat) (r : Rec) (h : RecHeader)
    (hr : b.ghost[j]? = some r) (hh : (hdrsOf cfg b.ghost)[j]? = some h)
    (hend : Fs.contentLen cfg.klen (b.ghost.take (j + 1)) ≤ t) :
    entryLoad (b.file.take t) h = .ok (serMeta r.mt, if r.del then [] else dataOf r.data) := by
  have hlen : (blobBytes cfg.klen (full b.ghost)).length < 2 ^ 64 := by rw [← hb.file]; exact hb.size
  have hB : (blobBytes cfg.klen ((full b.ghost).take (j + 1))).length ≤ t := by rw [boundary_length]; exact hend
  have hsplit : b.file.take t = blobBytes cfg.klen ((full b.ghost).take (j + 1)) ++
      (b.file.take t).drop (blobBytes cfg.klen ((full b.ghost).take (j + 1))).length := by
    conv => lhs; rw [← List.take_append_drop (blobBytes cfg.klen ((full b.ghost).take (j + 1))).length (b.file.take t)]
    rw [List.take_take, Nat.min_eq_left hB, hb.file, blobBytes_take_boundary]
  rw [hsplit]
  exact entryLoad_prefix cfg.klen (full b.ghost) hlen (j + 1) j (by omega) _ h r (dataOf r.data) hh
    (full_getElem? b.ghost j r hr)

/-! ### `dump` touches the index only -/

theorem dump_fields (cfg : Cfg) (b : CBlob) :
    (b.dump cfg).id = b.id ∧ (b.dump cfg).file = b.file ∧ (b.dump cfg).ghost = b.ghost ∧
      (b.dump cfg).filter = b.filter := by
  unfold CBlob.dump
  split
  · exact ⟨rfl, rfl, rfl, rfl⟩
  · split
    · exact ⟨rfl, rfl, rfl, rfl⟩
    · split <;> exact ⟨rfl, rfl, rfl, rfl⟩

/-! ### the blobs of the storage `init` builds -/

theorem closedBlobs_extend {cfg : Cfg} (hcfg : cfg.OK) (xs : List CBlob) (hwf : ∀ x ∈ xs, x.filter.WF) :
    closedBlobs (Container.extend (fops cfg) (childOps cfg) (CState.emptyCont cfg) xs) = xs := by
  have hnew : Container.Inv (fops cfg) Combined.WF (CState.emptyCont cfg) [] :=
    C10.node_filter_sup_new cfg.group 1 hcfg.group
  have hok : ∀ x ∈ xs, okOpt Combined.WF ((childOps cfg).filterOf x) := by
    intro x hx f hf
    cases hf
    exact hwf x hx
  rw [closedBlobs_eq, extend_slots (C10.combined_laws cfg.h) (childOps cfg) xs _ _ hnew hok]
  show (slotsOf (CState.emptyCont cfg) ++ xs.map some).filterMap id = xs
  rw [show slotsOf (CState.emptyCont cfg) = [] from slotsOf_new _ _, List.nil_append, filterMap_id_map_some]

theorem ofBlobs_blobs {cfg : Cfg} (hcfg : cfg.OK) (bs : List CBlob) (m : Nat) (lazy : Bool)
    (hwf : ∀ b ∈ bs, b.filter.WF) :
    (CState.ofBlobs cfg bs m lazy).blobs =
      if lazy then bs.map (CBlob.dump cfg)
      else match bs.getLast? with
        | none => [CBlob.openNew cfg m]
        | some a => bs.dropLast.map (CBlob.dump cfg) ++ [a] := by
  have hd : ∀ (l : List CBlob), (∀ b ∈ l, b.filter.WF) → ∀ x ∈ l.map (CBlob.dump cfg), x.filter.WF := by
    intro l hl x hx
    obtain ⟨b, hb, rfl⟩ := List.mem_map.mp hx
    rw [(dump_fields cfg b).2.2.2]
    exact hl b hb
  unfold CState.ofBlobs CState.blobs
  cases lazy with
  | true =>
    simp only [if_true, Option.toList_none, List.append_nil]
    exact closedBlobs_extend hcfg _ (hd bs hwf)
  | false =>
    simp only [Bool.false_eq_true, if_false]
    cases hl : bs.getLast? with
    | none =>
      simp only [CState.createActive, Option.toList_some]
      rw [closedBlobs_eq, show slotsOf (CState.emptyCont cfg) = [] from slotsOf_new _ _]
      rfl
    | some a =>
      simp only [Option.toList_some]
      rw [closedBlobs_extend hcfg _ (hd _ (fun b hb => hwf b (List.dropLast_subset _ hb)))]

/-- every opened blob is in the storage, as it is (the active one) or dumped -/
theorem mem_ofBlobs_of_mem {cfg : Cfg} (hcfg : cfg.OK) (bs : List CBlob) (m : Nat) (lazy : Bool)
    (hwf : ∀ b ∈ bs, b.filter.WF) (x : CBlob) (hx : x ∈ bs) :
    x ∈ (CState.ofBlobs cfg bs m lazy).blobs ∨ x.dump cfg ∈ (CState.ofBlobs cfg bs m lazy).blobs := by
  rw [ofBlobs_blobs hcfg bs m lazy hwf]
  cases lazy with
  | true =>
    simp only [if_true]
    exact Or.inr (List.mem_map.mpr ⟨x, hx, rfl⟩)
  | false =>
    simp only [Bool.false_eq_true, if_false]
    cases hl : bs.getLast? with
    | none => rw [List.getLast?_eq_none_iff.mp hl] at hx; cases hx
    | some a =>
      simp only []
      rw [← dropLast_append_of_getLast? hl] at hx
      rcases List.mem_append.mp hx with h | h
      · exact Or.inr (List.mem_append_left _ (List.mem_map.mpr ⟨x, h, rfl⟩))
      · exact Or.inl (List.mem_append_right _ h)

/-- every blob of the storage is an opened blob, as it is or dumped, or the fresh blob created because none was
    opened -/
theorem mem_ofBlobs {cfg : Cfg} (hcfg : cfg.OK) (bs : List CBlob) (m : Nat) (lazy : Bool)
    (hwf : ∀ b ∈ bs, b.filter.WF) (y : CBlob) (hy : y ∈ (CState.ofBlobs cfg bs m lazy).blobs) :
    (∃ x ∈ bs, y = x ∨ y = x.dump cfg) ∨ (bs = [] ∧ y = CBlob.openNew cfg m) := by
  rw [ofBlobs_blobs hcfg bs m lazy hwf] at hy
  cases lazy with
  | true =>
    simp only [if_true] at hy
    obtain ⟨x, hx, rfl⟩ := List.mem_map.mp hy
    exact Or.inl ⟨x, hx, Or.inr rfl⟩
  | false =>
    simp only [Bool.false_eq_true, if_false] at hy
    cases hl : bs.getLast? with
    | none =>
      rw [hl] at hy
      simp only [List.mem_singleton] at hy
      exact Or.inr ⟨List.getLast?_eq_none_iff.mp hl, hy⟩
    | some a =>
      rw [hl] at hy
      simp only [] at hy
      rcases List.mem_append.mp hy with h | h
      · obtain ⟨x, hx, rfl⟩ := List.mem_map.mp h
        exact Or.inl ⟨x, List.dropLast_subset _ hx, Or.inr rfl⟩
      · simp only [List.mem_singleton] at h
        exact Or.inl ⟨a, List.mem_of_getLast? hl, Or.inl h⟩

/-! ### where a blob of the crashed storage ends up -/

theorem surv_filter_WF {cfg : Cfg} {cut : Nat → Nat} {b b' : CBlob} (h : surv cfg cut b = some b') :
    b'.filter.WF := by
  unfold surv at h
  split at h
  · cases h
  · cases h; exact (filterOf_facts cfg _).1

theorem survivors_filter_WF (cfg : Cfg) (cut : Nat → Nat) (l : List CBlob) :
    ∀ x ∈ l.filterMap (surv cfg cut), x.filter.WF := by
  intro x hx
  obtain ⟨b, _, hs⟩ := List.mem_filterMap.mp hx
  exact surv_filter_WF hs

theorem eq_of_id_eq {l : List CBlob} (hs : (l.map (·.id)).Pairwise (· < ·)) {x y : CBlob} (hx : x ∈ l) (hy : y ∈ l)
    (h : x.id = y.id) : x = y := by
  induction l with
  | nil => cases hx
  | cons a l ih =>
    simp only [List.map_cons, List.pairwise_cons] at hs
    rcases List.mem_cons.mp hx with rfl | hx' <;> rcases List.mem_cons.mp hy with rfl | hy'
    · rfl
    · have := hs.1 y.id (List.mem_map.mpr ⟨y, hy', rfl⟩); omega
    · have := hs.1 x.id (List.mem_map.mpr ⟨x, hx', rfl⟩); omega
    · exact ih hs.2 hx' hy'

/-- an opened blob is in the recovered storage: same id, the cut file, the complete records as its history -/
theorem survivor_in_recovered {cfg : Cfg} (hcfg : cfg.OK) {c : CState} (hinv : CInv cfg c) (cut : Nat → Nat)
    (lazy : Bool) {c₁ : CState} (hc₁ : c.crashRecover cfg cut lazy = some c₁) {b : CBlob} (hb : b ∈ c.blobs)
    {n : Nat} {torn : Bool} (hf : fate cfg.klen cfg.validateData b.ghost (cut b.id) = .opened n torn) :
    ∃ b₁ ∈ c₁.blobs, b₁.id = b.id ∧ b₁.file = b.file.take (cut b.id) ∧ b₁.ghost = b.ghost.take n ∧
      b₁.filter = filterOf cfg (b.ghost.take (if torn then n + 1 else n)) := by
  rw [crashRecover_eq hinv cut lazy] at hc₁
  cases hc₁
  have hs : surv cfg cut b = some (recovered cfg b (cut b.id) n (if torn then n + 1 else n)) := by
    unfold surv; rw [hf]
  have hmem : recovered cfg b (cut b.id) n (if torn then n + 1 else n) ∈ c.blobs.filterMap (surv cfg cut) :=
    List.mem_filterMap.mpr ⟨b, hb, hs⟩
  rcases mem_ofBlobs_of_mem hcfg _ (maxNextId c.blobs) lazy (survivors_filter_WF cfg cut _) _ hmem with h | h
  · exact ⟨_, h, rfl, rfl, rfl, rfl⟩
  · obtain ⟨h1, h2, h3, h4⟩ := dump_fields cfg (recovered cfg b (cut b.id) n (if torn then n + 1 else n))
    exact ⟨_, h, h1, h2, h3, h4⟩

/-- a quarantined blob is not in the recovered storage (its file is in the corrupted directory, as the crash left
    it) -/
theorem quarantined_not_in_recovered {cfg : Cfg} (hcfg : cfg.OK) {c : CState} (hinv : CInv cfg c)
    (cut : Nat → Nat) (lazy : Bool) {c₁ : CState} (hc₁ : c.crashRecover cfg cut lazy = some c₁) {b : CBlob}
    (hb : b ∈ c.blobs) (hf : fate cfg.klen cfg.validateData b.ghost (cut b.id) = .quarantined) :
    ∀ b₁ ∈ c₁.blobs, b₁.id ≠ b.id := by
  rw [crashRecover_eq hinv cut lazy] at hc₁
  cases hc₁
  intro b₁ hb₁ hid
  rcases mem_ofBlobs hcfg _ (maxNextId c.blobs) lazy (survivors_filter_WF cfg cut _) b₁ hb₁ with
    ⟨x, hx, hxe⟩ | ⟨_, rfl⟩
  · obtain ⟨b0, hb0, hs0⟩ := List.mem_filterMap.mp hx
    have hxid : b₁.id = b0.id := by
      rcases hxe with rfl | rfl
      · exact surv_id hs0
      · rw [(dump_fields cfg x).1]; exact surv_id hs0
    have : b0 = b := eq_of_id_eq (blobs_sorted hinv) hb0 hb (by rw [← hxid, hid])
    subst this
    unfold surv at hs0
    rw [hf] at hs0
    cases hs0
  · have := lt_maxNextId c.blobs b hb
    have hid' : maxNextId c.blobs = b.id := hid
    omega

end Pearl.E2E
