import Pearl.Proofs.EndToEndCrashE8
import Pearl.Proofs.EndToEndMetaRun
import Pearl.Props.C03
/-
End-to-end crash recovery, part 8: the history after the crash, the meta range invariant, the synced sizes of the
file layer.
-/
namespace Pearl
open Pearl.E2E

/-! ### histories -/

theorem Store.history_eq_map (s : Store) : s.history = s.blobs.map (fun b => (b.id, b.recs)) := rfl

/-- the history after the crash: every blob keeps the records that are complete in the surviving prefix -/
theorem Store.crash_history (klen : Nat) (s : Store) (cut : Nat → Nat) :
    (s.crash klen cut).history = s.history.map (fun p => (p.1, p.2.take (complete klen p.2 (cut p.1)))) := by
  rw [Store.history_eq_map, Store.history_eq_map, Store.crash_blobs, List.map_map, List.map_map]
  rfl

/-- a crash that loses nothing leaves the history as it is -/
theorem Store.crash_history_of_ge {klen : Nat} (s : Store) (cut : Nat → Nat)
    (h : ∀ b ∈ s.blobs, Fs.contentLen klen b.recs ≤ cut b.id) : (s.crash klen cut).history = s.history := by
  rw [Store.history_eq_map, Store.history_eq_map]
  exact Store.crash_of_ge s cut h

/-- the positioned records — hence every answer of the specification — after crash + restart are those of the
    crashed history -/
theorem Store.crash_restart_latest {klen : Nat} {s : Store} (hwf : s.WF) (cut : Nat → Nat) (lazy : Bool) (k : Key) :
    Spec.latest ((s.crash klen cut).restart lazy).history k = Spec.latest (s.crash klen cut).history k :=
  Spec.latest_congr (restart_records (Store.crash_WF hwf cut) lazy).1 k

/-! ### every record of the recovered store is a record of the store before the crash -/

theorem Store.ofBlobs_recs (d : Bool) (bs : List Blob) (m : Nat) (lazy : Bool) :
    ∀ b ∈ (Store.ofBlobs d bs m lazy).blobs, b.recs = [] ∨ ∃ b0 ∈ bs, b.recs = b0.recs := by
  intro b hb
  by_cases h : bs ≠ [] ∨ lazy = true
  · have hv := Store.ofBlobs_blobs d bs m lazy h
    have : (b.id, b.recs) ∈ bs.map (fun b => (b.id, b.recs)) := by
      rw [← hv]; exact List.mem_map.mpr ⟨b, hb, rfl⟩
    obtain ⟨b0, hb0, he⟩ := List.mem_map.mp this
    exact Or.inr ⟨b0, hb0, (congrArg Prod.snd he).symm⟩
  · have h1 : bs = [] := by
      by_cases h0 : bs = []
      · exact h0
      · exact absurd (Or.inl h0) h
    have h2 : lazy = false := by
      cases lazy with
      | false => rfl
      | true => exact absurd (Or.inr rfl) h
    subst h1; subst h2
    rw [Store.ofBlobs_blobs_nil] at hb
    simp only [List.mem_singleton] at hb
    subst hb
    exact Or.inl rfl

theorem Store.crashRecover_recs {klen : Nat} {v : Bool} {s : Store} (hwf : s.WF) (cut : Nat → Nat) (lazy : Bool) :
    ∀ b ∈ (s.crashRecover klen v cut lazy).blobs, ∀ r ∈ b.recs, ∃ b0 ∈ s.blobs, r ∈ b0.recs := by
  intro b hb r hr
  rcases Store.ofBlobs_recs _ _ _ _ b hb with h | ⟨b1, hb1, he⟩
  · rw [h] at hr; cases hr
  · unfold Store.survivors at hb1
    rw [Store.sortById_of_sorted _ hwf.1] at hb1
    obtain ⟨b0, hb0, hs⟩ := List.mem_filterMap.mp hb1
    refine ⟨b0, hb0, ?_⟩
    split at hs
    · cases hs
    · cases hs
      rw [he] at hr
      exact List.mem_of_mem_take hr

end Pearl

namespace Pearl.E2E
open Pearl Pearl.BPTree Pearl.Container

/-- the meta range invariant survives crash + start-up -/
theorem crashRecover_metaOK {klen : Nat} {v : Bool} {s : Store} (hwf : s.WF) (hmeta : StoreMetaOK s)
    (cut : Nat → Nat) (lazy : Bool) : StoreMetaOK (s.crashRecover klen v cut lazy) := by
  intro b hb r hr
  obtain ⟨b0, hb0, hr0⟩ := Store.crashRecover_recs hwf cut lazy b hb r hr
  exact hmeta b0 hb0 r hr0

/-! ### clean cuts -/

/-- every cut is at the end of a record (or of the blob header), or at / after the end of its file -/
def CleanCuts (cfg : Cfg) (c : CState) (cut : Nat → Nat) : Prop :=
  ∀ b ∈ c.blobs, ∃ n, cutKind cfg.klen b.ghost (cut b.id) = .clean n

/-- every cut is at a record boundary of its file -/
theorem cleanCuts_of_boundary {cfg : Cfg} {c : CState} {cut : Nat → Nat}
    (h : ∀ b ∈ c.blobs, ∃ n, n ≤ b.ghost.length ∧ cut b.id = Fs.contentLen cfg.klen (b.ghost.take n)) :
    CleanCuts cfg c cut := by
  intro b hb
  obtain ⟨n, hn, he⟩ := h b hb
  exact ⟨n, by rw [he]; exact cutKind_boundary cfg.klen b.ghost n hn⟩

/-- process kill: every issued write survives -/
theorem cleanCuts_of_ge {cfg : Cfg} {c : CState} (hinv : CInv cfg c) {cut : Nat → Nat}
    (h : ∀ b ∈ c.blobs, b.file.length ≤ cut b.id) : CleanCuts cfg c cut := by
  intro b hb
  have hbi : BlobInv cfg b := CInvG.blobInv hinv hb
  refine ⟨b.ghost.length, cutKind_of_ge cfg.klen b.ghost _ ?_⟩
  rw [← file_length, ← hbi.file]
  exact h b hb

theorem CleanCuts.noTorn {cfg : Cfg} {c : CState} {cut : Nat → Nat} (h : CleanCuts cfg c cut) :
    NoTorn cfg c cut := by
  intro b hb n hf
  obtain ⟨m, hm⟩ := h b hb
  have := (fate_opened_true hf).1
  rw [hm] at this
  cases this

theorem CleanCuts.noQuarantine {cfg : Cfg} {c : CState} {cut : Nat → Nat} (h : CleanCuts cfg c cut) :
    ∀ b ∈ c.blobs, fate cfg.klen cfg.validateData b.ghost (cut b.id) ≠ .quarantined := by
  intro b hb hf
  obtain ⟨m, hm⟩ := h b hb
  unfold fate at hf
  rw [hm] at hf
  cases hf

theorem CleanCuts.abs {cfg : Cfg} {c : CState} {cut : Nat → Nat} (h : CleanCuts cfg c cut) :
    ∀ b ∈ (c.abs cfg).blobs, ∃ n, cutKind cfg.klen b.recs (cut b.id) = .clean n := by
  intro b hb
  rw [abs_blobs] at hb
  obtain ⟨b0, hb0, rfl⟩ := List.mem_map.mp hb
  exact h b0 hb0

/-! ### the synced sizes of the file layer -/

/-- in a state of the file layer in which every blob has its file (`Fs.Full`, which holds on every run:
    `Fs.run_full`) and the counters are ordered (`Fs.CountersOK`, `Fs.run_diskInv`), the synced size of a blob of
    the storage lies between the blob header size — the header is synced when the blob is created — and the
    length of the blob file -/
theorem syncedOf_bounds {cfg : Cfg} {c : CState} (hinv : CInv cfg c) (s : Fs.FsState) (hs : s.store = c.abs cfg)
    (hk : s.klen = cfg.klen) (hfull : Fs.Full s) (hcnt : Fs.CountersOK s.disk) (b : CBlob) (hb : b ∈ c.blobs) :
    blobHeaderSize ≤ syncedOf s b.id ∧ syncedOf s b.id ≤ b.file.length := by
  have hmem : (b.id, b.ghost) ∈ s.store.history := by
    rw [hs, Store.history_eq_map, abs_blobs, List.map_map]
    exact List.mem_map.mpr ⟨b, hb, rfl⟩
  have hsz := hfull _ hmem
  unfold Fs.szOf at hsz
  simp only [] at hsz
  unfold syncedOf
  cases hf : s.disk.files b.id with
  | none => rw [hf] at hsz; cases hsz
  | some f =>
    rw [hf] at hsz
    simp only [Option.map_some, Option.some.injEq] at hsz
    obtain ⟨h1, h2⟩ := hcnt b.id f hf
    have hbi : BlobInv cfg b := CInvG.blobInv hinv hb
    simp only []
    rw [hbi.file, file_length, ← hk, ← hsz]
    exact ⟨h2, h1⟩

end Pearl.E2E
