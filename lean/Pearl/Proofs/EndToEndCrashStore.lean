import Pearl.Proofs.EndToEndCrashBlob
/-
End-to-end crash recovery, part 3: the storage.

* `Store.ofBlobs` / `CState.ofBlobs`: what `init_from_existing` builds from a list of opened blobs — the L2
  store is well formed, the concrete state satisfies `CInv` and abstracts to it (`ofBlobs_ref`; the proof is the
  one of `restart_ref`, for an arbitrary sorted list of blobs and an arbitrary `next_blob_id` above their ids);
* `recover` = `restart` when no file is rejected (`recover_eq_restart`);
* start-up on the crashed directory (`crashRecover_eq`): the surviving blobs are `recovered`, blob by blob as
  `fate` says.
-/
namespace Pearl
open Pearl.E2E

/-! ### L2: `Store.ofBlobs` -/

def Store.dumpFlag (b : Blob) : Blob := if b.recs.isEmpty then b else { b with onDisk := true }

theorem Store.dumpFlag_id (b : Blob) : (Store.dumpFlag b).id = b.id := by
  unfold Store.dumpFlag; split <;> rfl

theorem Store.dumpFlag_recs (b : Blob) : (Store.dumpFlag b).recs = b.recs := by
  unfold Store.dumpFlag; split <;> rfl

theorem filterMap_id_map_some {α : Type} (l : List α) : (l.map some).filterMap id = l := by
  induction l with
  | nil => rfl
  | cons x xs ih => simp [ih]

theorem dropLast_append_of_getLast? {α : Type} {l : List α} {a : α} (h : l.getLast? = some a) :
    l.dropLast ++ [a] = l := by
  have hne : l ≠ [] := by intro h0; rw [h0] at h; cases h
  rw [List.getLast?_eq_some_getLast hne] at h
  cases h
  exact List.dropLast_concat_getLast hne

theorem Store.blobs_mk (act : Option Blob) (l : List Blob) (n : Nat) (d : Bool) :
    ({ active := act, slots := l.map (fun b => some (if b.recs.isEmpty then b else { b with onDisk := true })),
       nextId := n, allowDup := d } : Store).blobs = l.map Store.dumpFlag ++ act.toList := by
  unfold Store.blobs Store.closed
  simp only []
  rw [show (l.map fun b => some (if b.recs.isEmpty then b else { b with onDisk := true }))
    = (l.map Store.dumpFlag).map some from by simp [Store.dumpFlag, List.map_map, Function.comp_def]]
  rw [filterMap_id_map_some]
  try simp

theorem Store.map_dumpFlag_view (l : List Blob) :
    (l.map Store.dumpFlag).map (fun b => (b.id, b.recs)) = l.map (fun b => (b.id, b.recs)) := by
  rw [List.map_map]
  apply List.map_congr_left
  intro b _
  simp [Store.dumpFlag_id, Store.dumpFlag_recs]

/-- the blobs of the store `init` builds: the opened blobs (with their index flags set), or one fresh blob -/
theorem Store.ofBlobs_blobs (d : Bool) (bs : List Blob) (m : Nat) (lazy : Bool) :
    (bs ≠ [] ∨ lazy = true) →
    ((Store.ofBlobs d bs m lazy).blobs.map (fun b => (b.id, b.recs))) = bs.map (fun b => (b.id, b.recs)) := by
  intro h
  unfold Store.ofBlobs
  cases lazy with
  | true =>
    simp only [if_true]
    rw [Store.blobs_mk, List.map_append, Store.map_dumpFlag_view]
    simp
  | false =>
    have hne : bs ≠ [] := by rcases h with h | h; exact h; cases h
    simp only [Bool.false_eq_true, if_false]
    cases hl : bs.getLast? with
    | none => exact absurd (List.getLast?_eq_none_iff.mp hl) hne
    | some a =>
      simp only []
      rw [Store.blobs_mk, List.map_append, Store.map_dumpFlag_view]
      conv => rhs; rw [← dropLast_append_of_getLast? hl]
      simp

theorem Store.ofBlobs_blobs_nil (d : Bool) (m : Nat) :
    (Store.ofBlobs d [] m false).blobs = [{ id := m, recs := [] }] := rfl

theorem Store.ofBlobs_nextId (d : Bool) (bs : List Blob) (m : Nat) (lazy : Bool) :
    (Store.ofBlobs d bs m lazy).nextId = if bs = [] ∧ lazy = false then m + 1 else m := by
  unfold Store.ofBlobs
  cases lazy with
  | true => simp
  | false =>
    simp only [Bool.false_eq_true, if_false, and_true]
    cases hl : bs.getLast? with
    | none => rw [if_pos (List.getLast?_eq_none_iff.mp hl)]; rfl
    | some a =>
      rw [if_neg]
      intro h0; rw [h0] at hl; cases hl

theorem Store.ofBlobs_WF (d : Bool) (bs : List Blob) (m : Nat) (lazy : Bool)
    (hs : (bs.map (·.id)).Pairwise (· < ·)) (hlt : ∀ b ∈ bs, b.id < m) : (Store.ofBlobs d bs m lazy).WF := by
  by_cases h : bs ≠ [] ∨ lazy = true
  · have hb := Store.ofBlobs_blobs d bs m lazy h
    have hids : (Store.ofBlobs d bs m lazy).blobs.map (·.id) = bs.map (·.id) := by
      have := congrArg (List.map Prod.fst) hb
      simpa [List.map_map, Function.comp_def] using this
    refine ⟨by rw [hids]; exact hs, ?_⟩
    intro b hb'
    have hmem : b.id ∈ bs.map (·.id) := by rw [← hids]; exact List.mem_map.mpr ⟨b, hb', rfl⟩
    obtain ⟨b0, hb0, he⟩ := List.mem_map.mp hmem
    rw [Store.ofBlobs_nextId, if_neg (by
      intro hh
      rcases h with h | h
      · exact h hh.1
      · rw [h] at hh; cases hh.2)]
    rw [← he]; exact hlt b0 hb0
  · have h1 : bs = [] := by
      by_cases h0 : bs = []
      · exact h0
      · exact absurd (Or.inl h0) h
    have h2 : lazy = false := by
      cases lazy with
      | false => rfl
      | true => exact absurd (Or.inr rfl) h
    subst h1; subst h2
    refine ⟨by simp [Store.ofBlobs_blobs_nil], ?_⟩
    intro b hb
    rw [Store.ofBlobs_blobs_nil] at hb
    simp only [List.mem_singleton] at hb
    subst hb
    show m < m + 1
    omega

/-- `restart` is `ofBlobs` of the blobs sorted by id -/
theorem Store.restart_eq_ofBlobs (s : Store) (lazy : Bool) :
    s.restart lazy = Store.ofBlobs s.allowDup (Store.sortById s.blobs)
      ((Store.sortById s.blobs).foldl (fun m b => max m (b.id + 1)) 0) lazy := by
  unfold Store.restart Store.ofBlobs
  simp only []
  cases lazy with
  | true => simp only [if_true]
  | false =>
    simp only [Bool.false_eq_true, if_false]
    cases hl : (Store.sortById s.blobs).getLast? with
    | none =>
      rw [List.getLast?_eq_none_iff.mp hl]
      rfl
    | some a => rfl

end Pearl

namespace Pearl.E2E
open Pearl Pearl.BPTree Pearl.Container

/-! ### the concrete `ofBlobs` -/

theorem ofBlobs_snoc (cfg : Cfg) (bs : List CBlob) (a : CBlob) (m : Nat) :
    CState.ofBlobs cfg (bs ++ [a]) m false =
      { active := some a
        cont := Container.extend (fops cfg) (childOps cfg) (CState.emptyCont cfg) (bs.map (CBlob.dump cfg))
        nextId := m } := by
  unfold CState.ofBlobs
  simp only [Bool.false_eq_true, if_false, List.getLast?_append, List.getLast?_singleton, Option.some_or,
    List.dropLast_concat]

/-- **what `init` builds satisfies the invariant** and abstracts to the L2 store built from the abstractions of
    the blobs: for every list of blobs that satisfy the blob invariant with their index in memory, in strictly
    increasing id order, and every `next_blob_id` above their ids -/
theorem ofBlobs_ref {cfg : Cfg} (hcfg : cfg.OK) (bs : List CBlob) (maxNext : Nat) (lazy : Bool)
    (hbs : ∀ b ∈ bs, BlobInv cfg b ∧ b.index.onDisk = false)
    (hsorted : (bs.map (·.id)).Pairwise (· < ·)) (hlt : ∀ b ∈ bs, b.id < maxNext) :
    (CState.ofBlobs cfg bs maxNext lazy).abs cfg = Store.ofBlobs cfg.allowDup (bs.map CBlob.abs) maxNext lazy ∧
      CInv cfg (CState.ofBlobs cfg bs maxNext lazy) := by
  have hdumpabs : ∀ (l : List CBlob), (∀ b ∈ l, BlobInv cfg b) →
      ((l.map (CBlob.dump cfg)).map some).map (Option.map CBlob.abs)
        = (l.map CBlob.abs).map (fun b => some (if b.recs.isEmpty then b else { b with onDisk := true })) := by
    intro l hl
    simp only [List.map_map]
    apply List.map_congr_left
    intro b hb
    simp only [Function.comp_apply, Option.map_some]
    rw [dump_abs (hl b hb)]
  have hdumpinv : ∀ (l : List CBlob), (∀ b ∈ l, BlobInv cfg b) →
      ∀ x ∈ l.map (CBlob.dump cfg), BlobInv cfg x := by
    intro l hl x hx
    obtain ⟨b, hb, rfl⟩ := List.mem_map.mp hx
    exact (dump_inv (hl b hb)).1
  suffices h : (CState.ofBlobs cfg bs maxNext lazy).abs cfg
        = Store.ofBlobs cfg.allowDup (bs.map CBlob.abs) maxNext lazy ∧
      (∀ a, (CState.ofBlobs cfg bs maxNext lazy).active = some a → BlobInv cfg a ∧ a.index.onDisk = false) ∧
      (∀ b, some b ∈ slotsOf (CState.ofBlobs cfg bs maxNext lazy).cont → BlobInv cfg b) ∧
      (∃ g, Container.Inv (fops cfg) Combined.WF (CState.ofBlobs cfg bs maxNext lazy).cont g ∧
        ∀ j b, (slotsOf (CState.ofBlobs cfg bs maxNext lazy).cont)[j]? = some (some b) →
          ∀ r ∈ b.ghost, (fops cfg).coversOpt (g.getD j none) r.key) by
    obtain ⟨h1, h2, h3, h4⟩ := h
    refine ⟨h1, ?_, h2, h3, h4⟩
    rw [h1]
    apply Store.ofBlobs_WF
    · rw [List.map_map]; exact hsorted
    · intro b hb
      obtain ⟨b0, hb0, rfl⟩ := List.mem_map.mp hb
      exact hlt b0 hb0
  have hL : ∀ b ∈ bs, BlobInv cfg b := fun b hb => (hbs b hb).1
  unfold CState.ofBlobs Store.ofBlobs
  cases lazy with
  | true =>
    simp only [if_true]
    obtain ⟨hs, hg⟩ := extend_facts hcfg _ (hdumpinv _ hL)
    refine ⟨?_, ?_, ?_, hg⟩
    · apply Store.ext'
      · rfl
      · rw [abs_slots]
        show List.map (Option.map CBlob.abs) (slotsOf (Container.extend _ _ _ _)) = _
        rw [hs, hdumpabs _ hL]
      · rfl
      · rfl
    · intro a h; cases h
    · intro b hb
      rw [hs] at hb
      obtain ⟨x, hx, hxe⟩ := List.mem_map.mp hb
      cases hxe
      exact hdumpinv _ hL _ hx
  | false =>
    simp only [Bool.false_eq_true, if_false]
    rw [List.getLast?_map]
    cases hlast : bs.getLast? with
    | none =>
      simp only [Option.map_none]
      refine ⟨rfl, ?_, ?_, ?_⟩
      · intro a h
        simp only [CState.createActive, Option.some.injEq] at h
        subst h
        exact ⟨openNew_inv cfg _, rfl⟩
      · intro b hb
        simp [CState.createActive, CState.emptyCont, slotsOf_new] at hb
      · refine ⟨[], C10.node_filter_sup_new cfg.group 1 hcfg.group, ?_⟩
        intro j b hj
        simp [CState.createActive, CState.emptyCont, slotsOf_new] at hj
    | some a =>
      simp only [Option.map_some]
      have hLd : ∀ b ∈ bs.dropLast, BlobInv cfg b := fun b hb => hL b (List.dropLast_subset _ hb)
      obtain ⟨hs, hg⟩ := extend_facts hcfg _ (hdumpinv _ hLd)
      have ha := hbs a (List.mem_of_getLast? hlast)
      refine ⟨?_, ?_, ?_, hg⟩
      · apply Store.ext'
        · show some a.abs = some { a.abs with onDisk := false }
          have : a.abs.onDisk = false := ha.2
          cases hab : a.abs with
          | mk i r o => rw [hab] at this; simp only at this; subst this; rfl
        · rw [abs_slots]
          show List.map (Option.map CBlob.abs) (slotsOf (Container.extend _ _ _ _)) = _
          rw [hs, hdumpabs _ hLd, List.map_dropLast]
        · rfl
        · rfl
      · intro a' h
        simp only [Option.some.injEq] at h
        subst h
        exact ha
      · intro b hb
        rw [hs] at hb
        obtain ⟨x, hx, hxe⟩ := List.mem_map.mp hb
        cases hxe
        exact hdumpinv _ hLd _ hx

/-! ### `recover` and `restart` -/

theorem regen_id {cfg : Cfg} {b b' : CBlob} (h : regen cfg b = some b') : b'.id = b.id := by
  rw [regen_of_openBlob] at h
  split at h
  · cases h; rfl
  · cases h

theorem regen_some_openBlob {cfg : Cfg} {b b' : CBlob} (h : regen cfg b = some b') :
    ∃ hs, openBlob cfg.klen cfg.validateData b.file = .ok hs := by
  rw [regen_of_openBlob] at h
  split at h
  · next hs heq => exact ⟨hs, heq⟩
  · cases h

theorem readBlobs_of_regenAll {cfg : Cfg} : ∀ (l bs : List CBlob), regenAll cfg l = some bs →
    readBlobs cfg l = some bs
  | [], bs, h => by simpa [regenAll, readBlobs] using h
  | b :: l, bs, h => by
    simp only [regenAll] at h
    cases hr : regen cfg b with
    | none => rw [hr] at h; simp at h
    | some b' =>
      cases hra : regenAll cfg l with
      | none => rw [hr, hra] at h; simp at h
      | some bs' =>
        rw [hr, hra] at h
        obtain ⟨hs, ho⟩ := regen_some_openBlob hr
        simp only [readBlobs, ho, hr, readBlobs_of_regenAll l bs' hra]
        exact h

theorem regenAll_ids {cfg : Cfg} : ∀ (l bs : List CBlob), regenAll cfg l = some bs →
    bs.map (·.id) = l.map (·.id)
  | [], bs, h => by simp [regenAll] at h; subst h; rfl
  | b :: l, bs, h => by
    simp only [regenAll] at h
    cases hr : regen cfg b with
    | none => rw [hr] at h; simp at h
    | some b' =>
      cases hra : regenAll cfg l with
      | none => rw [hr, hra] at h; simp at h
      | some bs' =>
        rw [hr, hra] at h
        simp only [Option.some.injEq] at h
        subst h
        simp only [List.map_cons, regen_id hr, regenAll_ids l bs' hra]

theorem maxNextId_eq (l : List CBlob) : maxNextId l = (l.map (·.id)).foldl (fun m i => max m (i + 1)) 0 := by
  unfold maxNextId
  rw [List.foldl_map]

theorem restart_eq_ofBlobs (cfg : Cfg) (c : CState) (lazy : Bool) (bs : List CBlob)
    (h : regenAll cfg (sortById c.blobs) = some bs) :
    c.restart cfg lazy = CState.ofBlobs cfg bs (maxNextId bs) lazy := by
  unfold CState.restart CState.ofBlobs
  rw [h]
  simp only []
  cases lazy with
  | true => rfl
  | false =>
    simp only [Bool.false_eq_true, if_false]
    cases hl : bs.getLast? with
    | none => rw [List.getLast?_eq_none_iff.mp hl]; rfl
    | some a => rfl

/-- `recover` is `restart` whenever `restart` does not fail (no blob file is rejected) -/
theorem recover_eq_restart (cfg : Cfg) (c : CState) (lazy : Bool) (bs : List CBlob)
    (h : regenAll cfg (sortById c.blobs) = some bs) : c.recover cfg lazy = some (c.restart cfg lazy) := by
  unfold CState.recover
  rw [readBlobs_of_regenAll _ _ h, restart_eq_ofBlobs cfg c lazy bs h]
  simp only []
  rw [maxNextId_eq bs, regenAll_ids _ _ h, ← maxNextId_eq]

/-! ### the blobs of the crashed directory -/

theorem closedBlobs_mapCh (c : Container Combined CBlob) (f : CBlob → CBlob) :
    closedBlobs (mapChildren c f) = (closedBlobs c).map f := by
  rw [closedBlobs_eq, closedBlobs_eq, slotsOf_mapChildren, filterMap_id_map]

theorem crash_blobs (cfg : Cfg) (c : CState) (cut : Nat → Nat) :
    (c.crash cfg cut).blobs = c.blobs.map (fun b => b.crash cfg (cut b.id)) := by
  unfold CState.blobs CState.crash
  simp only [closedBlobs_mapCh, List.map_append]
  cases c.active <;> rfl

theorem insertById_of_lt (b : CBlob) : ∀ (l : List CBlob), (∀ x ∈ l, b.id < x.id) → insertById b l = b :: l
  | [], _ => rfl
  | c :: cs, h => by
    simp only [insertById]
    rw [if_pos (h c (by simp))]

theorem sortById_of_sorted : ∀ (l : List CBlob), (l.map (·.id)).Pairwise (· < ·) → sortById l = l
  | [], _ => rfl
  | b :: l, h => by
    simp only [List.map_cons, List.pairwise_cons] at h
    have ih := sortById_of_sorted l h.2
    simp only [sortById, List.foldr_cons] at ih ⊢
    rw [ih]
    apply insertById_of_lt
    intro x hx
    exact h.1 x.id (List.mem_map.mpr ⟨x, hx, rfl⟩)

theorem blobs_sorted {I : CBlob → Prop} {cfg : Cfg} {c : CState} (hinv : CInvG I cfg c) :
    (c.blobs.map (·.id)).Pairwise (· < ·) := by
  have := hinv.wf.1
  rw [abs_blobs, List.map_map] at this
  exact this

theorem blobs_lt_nextId {I : CBlob → Prop} {cfg : Cfg} {c : CState} (hinv : CInvG I cfg c) :
    ∀ b ∈ c.blobs, b.id < c.nextId := by
  intro b hb
  have := hinv.wf.2 b.abs (by rw [abs_blobs]; exact List.mem_map.mpr ⟨b, hb, rfl⟩)
  exact this

/-- the blob start-up keeps of `b`, if any -/
def surv (cfg : Cfg) (cut : Nat → Nat) (b : CBlob) : Option CBlob :=
  match fate cfg.klen cfg.validateData b.ghost (cut b.id) with
  | .quarantined => none
  | .opened n torn => some (recovered cfg b (cut b.id) n (if torn then n + 1 else n))

theorem surv_id {cfg : Cfg} {cut : Nat → Nat} {b b' : CBlob} (h : surv cfg cut b = some b') : b'.id = b.id := by
  unfold surv at h
  split at h
  · cases h
  · cases h; rfl

/-- `read_blobs` on the crashed directory: blob by blob what `fate` says; it never fails -/
theorem readBlobs_crash {cfg : Cfg} (cut : Nat → Nat) : ∀ (l : List CBlob), (∀ b ∈ l, BlobInv cfg b) →
    readBlobs cfg (l.map (fun b => b.crash cfg (cut b.id))) = some (l.filterMap (surv cfg cut))
  | [], _ => rfl
  | b :: l, h => by
    have hb := h b (by simp)
    have ih := readBlobs_crash cut l (fun x hx => h x (by simp [hx]))
    have hf : (b.crash cfg (cut b.id)).file = b.file.take (cut b.id) := rfl
    simp only [List.map_cons, readBlobs, hf]
    cases hfate : fate cfg.klen cfg.validateData b.ghost (cut b.id) with
    | quarantined =>
      rw [openBlob_quarantined hb hfate]
      simp only []
      rw [ih, List.filterMap_cons]
      simp only [surv, hfate]
    | opened n torn =>
      rw [openBlob_opened hb hfate]
      simp only []
      rw [regen_crash_opened hb hfate, ih, List.filterMap_cons]
      simp only [surv, hfate]

theorem filterMap_sorted {f : CBlob → Option CBlob} (hf : ∀ b b', f b = some b' → b'.id = b.id) :
    ∀ (l : List CBlob), (l.map (·.id)).Pairwise (· < ·) → ((l.filterMap f).map (·.id)).Pairwise (· < ·)
  | [], _ => by simp
  | b :: l, h => by
    simp only [List.map_cons, List.pairwise_cons] at h
    have ih := filterMap_sorted hf l h.2
    rw [List.filterMap_cons]
    cases hb : f b with
    | none => exact ih
    | some b' =>
      simp only [List.map_cons, List.pairwise_cons]
      refine ⟨?_, ih⟩
      intro i hi
      obtain ⟨x, hx, rfl⟩ := List.mem_map.mp hi
      obtain ⟨x0, hx0, hfx⟩ := List.mem_filterMap.mp hx
      rw [hf b b' hb, hf x0 x hfx]
      exact h.1 x0.id (List.mem_map.mpr ⟨x0, hx0, rfl⟩)

theorem lt_maxNextId : ∀ (l : List CBlob) (b : CBlob), b ∈ l → b.id < maxNextId l := by
  intro l b hb
  unfold maxNextId
  have key : ∀ (l : List CBlob) (m : Nat), m ≤ l.foldl (fun m b => max m (b.id + 1)) m ∧
      ∀ b ∈ l, b.id < l.foldl (fun m b => max m (b.id + 1)) m := by
    intro l
    induction l with
    | nil => intro m; exact ⟨Nat.le_refl _, fun b hb => by cases hb⟩
    | cons x xs ih =>
      intro m
      simp only [List.foldl_cons]
      obtain ⟨h1, h2⟩ := ih (max m (x.id + 1))
      refine ⟨by omega, ?_⟩
      intro b hb
      rcases List.mem_cons.mp hb with rfl | hb
      · omega
      · exact h2 b hb
  exact (key l 0).2 b hb

theorem crash_maxNextId (cfg : Cfg) (cut : Nat → Nat) (l : List CBlob) :
    maxNextId (l.map (fun b => b.crash cfg (cut b.id))) = maxNextId l := by
  rw [maxNextId_eq, maxNextId_eq, List.map_map]
  rfl

/-- **start-up on the crashed directory**: it does not fail, and builds the storage from the surviving blobs -/
theorem crashRecover_eq {cfg : Cfg} {c : CState} (hinv : CInv cfg c) (cut : Nat → Nat) (lazy : Bool) :
    c.crashRecover cfg cut lazy =
      some (CState.ofBlobs cfg (c.blobs.filterMap (surv cfg cut)) (maxNextId c.blobs) lazy) := by
  unfold CState.crashRecover CState.recover
  have hs : sortById (c.crash cfg cut).blobs = c.blobs.map (fun b => b.crash cfg (cut b.id)) := by
    rw [crash_blobs]
    apply sortById_of_sorted
    rw [List.map_map]
    exact blobs_sorted hinv
  rw [hs, readBlobs_crash cut c.blobs (fun b hb => CInvG.blobInv hinv hb), crash_maxNextId]

end Pearl.E2E
