import Pearl.Proofs.EndToEndCrashServed
/-
End-to-end crash recovery, part 6: the accepted torn tail (finding E8) on the composed storage.

* the read path does not look at the file of a blob before `Entry::load` of the winner: replacing the file (and
  the history variable) of the active blob changes the latest entry only in its `file` component
  (`getLatestEntry_swap`); no invariant is needed for this;
* the cut file of a blob whose tail record is cut inside meta / data is `C05.tornFile` (`crash_file_torn`), so
  `C05.torn_tail_general` applies to it;
* the headers of the index of the blob start-up opens: every one but the torn one loads with its original bytes,
  the torn one fails with `Bincode` (`torn_index_loads`).
-/
namespace Pearl.E2E
open Pearl Pearl.BPTree Pearl.Container

/-! ### `ReadResult::latest` is associative -/

theorem optGt_trans {a b c : Option Nat} (h1 : optGt c b = true) (h2 : optGt b a = true) : optGt c a = true := by
  cases a <;> cases b <;> cases c <;> simp_all [optGt] <;> omega

theorem optGt_neg_trans {a b c : Option Nat} (h1 : optGt c b = false) (h2 : optGt b a = false) :
    optGt c a = false := by
  cases a <;> cases b <;> cases c <;> simp_all [optGt] <;> omega

theorem entryLatest_assoc (x y z : ReadResult CEntry) :
    entryLatest (entryLatest x y) z = entryLatest x (entryLatest y z) := by
  unfold entryLatest
  by_cases h1 : optGt (entryTs? y) (entryTs? x) = true
  · rw [if_pos h1]
    by_cases h2 : optGt (entryTs? z) (entryTs? y) = true
    · rw [if_pos h2, if_pos (optGt_trans h2 h1)]
    · rw [if_neg h2, if_pos h1]
  · rw [if_neg h1]
    by_cases h2 : optGt (entryTs? z) (entryTs? y) = true
    · rw [if_pos h2]
    · rw [if_neg h2, if_neg h1]
      have h1' : optGt (entryTs? y) (entryTs? x) = false := by simpa using h1
      have h2' : optGt (entryTs? z) (entryTs? y) = false := by simpa using h2
      rw [if_neg (by rw [optGt_neg_trans h2' h1']; simp)]

theorem entryLatest_notFound_left (r : ReadResult CEntry) : entryLatest .notFound r = r := by
  unfold entryLatest
  cases r <;> simp [entryTs?, optGt]

theorem entryLatest_notFound_right (r : ReadResult CEntry) : entryLatest r .notFound = r := by
  unfold entryLatest
  cases r <;> simp [entryTs?, optGt]

/-- the fold over the blobs from an accumulator is the fold from `NotFound`, merged into the accumulator -/
theorem foldEntries_acc (f : CBlob → Except CErr (ReadResult CEntry)) : ∀ (l : List CBlob) (acc : ReadResult CEntry),
    foldEntries f l acc =
      match foldEntries f l .notFound with
      | .error e => .error e
      | .ok y => .ok (entryLatest acc y)
  | [], acc => by simp [foldEntries, entryLatest_notFound_right]
  | b :: l, acc => by
    simp only [foldEntries]
    cases hb : f b with
    | error e => rfl
    | ok r =>
      simp only []
      rw [foldEntries_acc f l (entryLatest acc r), foldEntries_acc f l (entryLatest .notFound r),
        entryLatest_notFound_left]
      cases foldEntries f l .notFound with
      | error e => rfl
      | ok y => simp only [entryLatest_assoc]

/-! ### the read path looks at the file only in `Entry::load` of the winner -/

/-- a blob with another file and another history variable -/
def refile (a : CBlob) (f : List UInt8) (g : List Rec) : CBlob := { a with file := f, ghost := g }

theorem getLatestEntry_refile (cfg : Cfg) (a : CBlob) (f : List UInt8) (g : List Rec) (k : Key) :
    (refile a f g).getLatestEntry cfg k = a.getLatestEntry cfg k ∨
    ∃ h, a.getLatestEntry cfg k = .ok (.found ⟨h, a.file⟩) ∧
      (refile a f g).getLatestEntry cfg k = .ok (.found ⟨h, f⟩) ∧ a.index.getLatest k = some (some h) := by
  have hc : (refile a f g).checkFilter cfg k = a.checkFilter cfg k := rfl
  have hl : ∀ (x : CBlob), x.getLatestEntry cfg k =
      if x.checkFilter cfg k == .notContains then .ok .notFound else x.indexLatest k := fun _ => rfl
  by_cases hn : (a.checkFilter cfg k == .notContains) = true
  · left; rw [hl, hl, hc, if_pos hn, if_pos hn]
  · have e1 : a.getLatestEntry cfg k = a.indexLatest k := by rw [hl, if_neg hn]
    have e2 : (refile a f g).getLatestEntry cfg k = (refile a f g).indexLatest k := by rw [hl, hc, if_neg hn]
    rw [e1, e2]
    have hi : (refile a f g).index.getLatest k = a.index.getLatest k := rfl
    unfold CBlob.indexLatest
    rw [hi]
    cases hg : a.index.getLatest k with
    | none => exact Or.inl rfl
    | some o =>
      cases o with
      | none => exact Or.inl rfl
      | some h =>
        simp only []
        by_cases hd : h.isDeleted = true
        · rw [if_pos hd, if_pos hd]; exact Or.inl rfl
        · rw [if_neg hd, if_neg hd]
          exact Or.inr ⟨h, rfl, rfl, rfl⟩

/-- replacing the file and the history variable of the active blob: the latest entry is the same, or it is an
    entry of the active blob in both storages, with the same header -/
theorem getLatestEntry_swap (cfg : Cfg) (c : CState) (a : CBlob) (ha : c.active = some a) (f : List UInt8)
    (g : List Rec) (k : Key) :
    ({ c with active := some (refile a f g) } : CState).getLatestEntry cfg k = c.getLatestEntry cfg k ∨
    ∃ h, c.getLatestEntry cfg k = .ok (.found ⟨h, a.file⟩) ∧
      ({ c with active := some (refile a f g) } : CState).getLatestEntry cfg k = .ok (.found ⟨h, f⟩) ∧
      a.index.getLatest k = some (some h) := by
  unfold CState.getLatestEntry CState.consulted
  simp only [ha, Option.toList_some, List.singleton_append, foldEntries]
  rcases getLatestEntry_refile cfg a f g k with h | ⟨h, h1, h2, h3⟩
  · rw [h]; exact Or.inl rfl
  · rw [h1, h2]
    simp only [entryLatest_notFound_left]
    rw [foldEntries_acc _ _ (.found ⟨h, f⟩), foldEntries_acc _ _ (.found ⟨h, a.file⟩)]
    cases foldEntries (fun b => b.getLatestEntry cfg k) _ ReadResult.notFound with
    | error e => exact Or.inl rfl
    | ok y =>
      simp only []
      have e : ∀ fl, entryLatest (.found ⟨h, fl⟩) y =
          if optGt (entryTs? y) (some h.timestamp) = true then y else .found ⟨h, fl⟩ := fun _ => rfl
      rw [e, e]
      by_cases hy : optGt (entryTs? y) (some h.timestamp) = true
      · rw [if_pos hy, if_pos hy]; exact Or.inl rfl
      · rw [if_neg hy, if_neg hy]
        exact Or.inr ⟨h, rfl, rfl, h3⟩

/-- … hence `read` is the same, or both reads are `Entry::load` of the same header, from the two files -/
theorem read_swap (cfg : Cfg) (c : CState) (a : CBlob) (ha : c.active = some a) (f : List UInt8)
    (g : List Rec) (k : Key) :
    ({ c with active := some (refile a f g) } : CState).read cfg k = c.read cfg k ∨
    ∃ h, a.index.getLatest k = some (some h) ∧
      c.read cfg k = (match entryLoad a.file h with
        | .error le => .error (.load le) | .ok (_, data) => .ok (.found data)) ∧
      ({ c with active := some (refile a f g) } : CState).read cfg k = (match entryLoad f h with
        | .error le => .error (.load le) | .ok (_, data) => .ok (.found data)) := by
  unfold CState.read
  rcases getLatestEntry_swap cfg c a ha f g k with h | ⟨h, h1, h2, h3⟩
  · rw [h]; exact Or.inl rfl
  · rw [h1, h2]
    exact Or.inr ⟨h, h3, rfl, rfl⟩

/-! ### the torn file -/

/-- the cut file of a blob whose record `n` is cut inside meta / data is the torn file of C05 -/
theorem crash_file_torn {cfg : Cfg} {b : CBlob} (hb : BlobInv cfg b) {t n : Nat} (r : Rec)
    (hk : cutKind cfg.klen b.ghost t = .body n) (hr : b.ghost[n]? = some r) :
    ∃ cutBytes, b.file.take t =
        C05.tornFile (recordsOf cfg.klen (full (b.ghost.take n))) (recOf cfg.klen r) cutBytes ∧
      cutBytes <+: serMeta (recOf cfg.klen r).mt ++ (recOf cfg.klen r).data ∧
      cutBytes ≠ serMeta (recOf cfg.klen r).mt ++ (recOf cfg.klen r).data := by
  obtain ⟨hc, hge⟩ := cutIn_of_body hk
  obtain ⟨hi, htake, hlt⟩ := blobBytes_take_cut cfg.klen (full b.ghost) n t hc
  have hR : (recordsOf cfg.klen (full b.ghost))[n] = recOf cfg.klen r :=
    recordsOf_getElem cfg.klen (full b.ghost) n hi r (dataOf r.data) (full_getElem? b.ghost n r hr)
  have hwf : (recOf cfg.klen r).WF cfg.klen := recordOf_WF cfg.klen r _
  rw [hR] at htake hlt
  generalize hoff : (blobBytes cfg.klen ((full b.ghost).take n)).length = off at htake hlt hge
  have him := (recOf cfg.klen r).image_length off
  rw [hwf.key] at him
  have hkl : ((recOf cfg.klen r).header.final off).key.length = cfg.klen := hwf.key
  have hX : ((recOf cfg.klen r).image off).take (t - off) =
      serHeader ((recOf cfg.klen r).header.final off) ++
        (serMeta (recOf cfg.klen r).mt ++ (recOf cfg.klen r).data).take (t - off - (57 + cfg.klen)) := by
    rw [image_eq, List.take_append, serHeader_length, hkl,
      List.take_of_length_le (by rw [serHeader_length, hkl]; unfold headerSize at hge; omega)]
  refine ⟨(serMeta (recOf cfg.klen r).mt ++ (recOf cfg.klen r).data).take (t - off - (57 + cfg.klen)), ?_,
    List.take_prefix _ _, ?_⟩
  · unfold C05.tornFile
    rw [hb.file, htake, hX, full_take]
    rw [show appendRecords serBlobHeader (recordsOf cfg.klen ((full b.ghost).take n))
      = blobBytes cfg.klen ((full b.ghost).take n) from rfl, hoff, List.append_assoc]
  · intro he
    have := congrArg List.length he
    rw [List.length_take, List.length_append] at this
    unfold headerSize at hge
    omega

/-! ### what the index of the opened blob points to -/

theorem mem_of_memLatest_indexOf {hs : List RecHeader} {k : Nat} {h : RecHeader}
    (hm : memLatest (indexOf hs) k = some h) : h ∈ hs := by
  rw [memLatest_indexOf] at hm
  have hmem : h ∈ hvecOf hs k := List.mem_of_getLast? hm
  unfold hvecOf at hmem
  have := (foldl_ins_perm RecHeader.timestamp (hs.filter (fun h => hdrKey h == k)) []).mem_iff.mp hmem
  rw [List.nil_append, List.mem_filter] at this
  exact this.1

/-- every header of the index the non-validating start-up builds for the cut blob loads from the cut file with the
    original bytes of its record — except the header of the torn record, whose load fails with `Bincode` -/
theorem torn_index_loads {cfg : Cfg} {b : CBlob} (hb : BlobInv cfg b) {t n : Nat}
    (hk : cutKind cfg.klen b.ghost t = .body n) (h : RecHeader)
    (hh : h ∈ (hdrsOf cfg b.ghost).take (n + 1)) :
    (∃ j r, j < n ∧ b.ghost[j]? = some r ∧ (hdrsOf cfg b.ghost)[j]? = some h ∧
      ∀ t', Fs.contentLen cfg.klen (b.ghost.take n) ≤ t' →
        entryLoad (b.file.take t') h = .ok (serMeta r.mt, if r.del then [] else dataOf r.data)) ∨
    ((hdrsOf cfg b.ghost)[n]? = some h ∧ entryLoad (b.file.take t) h = .error .bincode) := by
  obtain ⟨j, hj0, hjh⟩ := List.getElem_of_mem hh
  have hj := hj0
  rw [List.length_take] at hj
  have hjh' : (hdrsOf cfg b.ghost)[j]? = some h := by
    have : ((hdrsOf cfg b.ghost).take (n + 1))[j]? = some h := by rw [List.getElem?_eq_getElem hj0, hjh]
    rw [List.getElem?_take, if_pos (by omega)] at this
    exact this
  have hn := (cutKind_body hk).2.1
  rcases Nat.lt_or_ge j n with hlt | hge
  · left
    have hjl : j < b.ghost.length := by omega
    refine ⟨j, b.ghost[j], hlt, List.getElem?_eq_getElem hjl, hjh', ?_⟩
    intro t' ht'
    apply entryLoad_of_end_le hb t' j _ h (List.getElem?_eq_getElem hjl) hjh'
    have := contentLen_take_mono cfg.klen b.ghost (i := j + 1) (j := n) (by omega)
    omega
  · right
    have hjn : j = n := by omega
    subst hjn
    refine ⟨hjh', ?_⟩
    rw [hb.file]
    exact C06.torn_record_unreadable cfg.klen (full b.ghost) j t h (fun x hx => hb.ts _ (mem_full hx))
      (cutIn_of_body hk).1 hjh'

end Pearl.E2E
