import Pearl.Proofs.EndToEndCrashTorn
/-
End-to-end crash recovery, part 12: the second start-up after an accepted torn tail (finding E8), the SILENT case.

After the non-validating start-up accepted a tail record cut inside meta / data, the next record is appended at the
end of the (short) file, i.e. inside the region the torn header claims.  When the appended bytes do not reach the
claimed end of the torn record, the next non-validating index-less scan reads the torn header, jumps to its claimed
end — at or beyond the end of the file — and stops: the blob is opened with the same headers as before, the
appended record (an acknowledged write) is not among them (`scan_after_torn_append_small`).  When they reach beyond
it, the scan reads a header in the middle of the appended record (the witness `two_crash_witness`: quarantine).
-/
namespace Pearl

/-- the non-validating scan at a torn record followed by bytes that end before the claimed end of the record -/
theorem rawLoop_torn_body_then {klen : Nat} (P X : List UInt8) (R : Record) (hwf : R.WF klen)
    (off k fuel : Nat) (hoff : P.length = off) (hr : (R.header.final off).InRange)
    (hk1 : 57 + klen ≤ k) (hk : k ≤ (R.image off).length) (hX : k + X.length ≤ (R.image off).length) :
    rawLoop false (P ++ ((R.image off).take k ++ X)) (57 + klen) (fuel + 1) off =
      .ok [(off, R.header.final off)] := by
  have hkl : (R.header.final off).key.length = klen := hwf.key
  have hms : (R.header.final off).metaSize = (serMeta R.mt).length := hwf.msize
  have hds : (R.header.final off).dataSize = R.data.length := hwf.dsize
  have him := R.image_length off
  rw [hwf.key] at him
  have hl : (P ++ ((R.image off).take k ++ X)).length = off + k + X.length := by
    simp only [List.length_append, List.length_take, hoff]; omega
  have hT : (R.image off).take k =
      serHeader (R.header.final off) ++ (serMeta R.mt ++ R.data).take (k - (57 + klen)) := by
    rw [image_eq, List.take_append, serHeader_length, hkl,
      List.take_of_length_le (by rw [serHeader_length, hkl]; omega)]
  have hhdr : readExactAt (P ++ ((R.image off).take k ++ X)) (57 + klen) off =
      some (serHeader (R.header.final off)) := by
    rw [hT, List.append_assoc]
    exact readExactAt_append hoff (by rw [serHeader_length, hkl])
  have hd := deserHeader_serHeader (R.header.final off) [] hr
  rw [List.append_nil] at hd
  have hend : ∀ f, rawLoop false (P ++ ((R.image off).take k ++ X)) (57 + klen) f
      (off + (57 + klen) + (serMeta R.mt).length + R.data.length) = .ok [] := by
    intro f
    apply Fault.rawLoop_end
    rw [hl]; omega
  rw [rawLoop, if_pos (by rw [hl]; omega)]
  unfold readCurrentRecord
  rw [hhdr]
  simp only [hd, headerValidate_final _ _ hwf.magic, hms, hds, Bool.false_eq_true, ↓reduceIte, hend]

/-- **the silent case of the second start-up**: the blob of `recs` cut at `t` inside meta / data of record `i`,
    followed by any bytes `X` (the records appended after the first recovery) that end at or before the claimed end
    of record `i`: the non-validating scan returns the headers of the first `i + 1` records and nothing for `X` -/
theorem rawRecordsLoad_torn_then (klen : Nat) (recs : List (Rec × List UInt8)) (i t : Nat) (X : List UInt8)
    (hlen : (blobBytes klen recs).length < 2 ^ 64) (hts : ∀ x ∈ recs, x.1.ts < 2 ^ 64)
    (hc : CutIn klen recs i t) (hk1 : 57 + klen ≤ t - (blobBytes klen (recs.take i)).length)
    (hX : t + X.length ≤ (blobBytes klen (recs.take (i + 1))).length) :
    rawRecordsLoad klen false ((blobBytes klen recs).take t ++ X) = .ok ((blobHeaders klen recs).take (i + 1)) := by
  obtain ⟨hi, htake, hk⟩ := blobBytes_take_cut klen recs i t hc
  have hgood := goodRecs_recordsOf klen recs hts
  have hwf := (hgood _ (List.getElem_mem hi)).1
  have htsR := (hgood _ (List.getElem_mem hi)).2
  have hpre : blobBytes klen (recs.take i) = serBlobHeader ++ tailOf 20 ((recordsOf klen recs).take i) := by
    rw [blobBytes_eq, recordsOf_take]
  have hpl : (blobBytes klen (recs.take i)).length = 20 + (tailOf 20 ((recordsOf klen recs).take i)).length := by
    rw [hpre, List.length_append, serBlobHeader_length]
  have hle := blobBytes_take_succ_length klen recs i hi
  have hle2 := blobBytes_take_length_le klen recs (i + 1)
  have hsucc := scanOf_take_succ (recordsOf klen recs) i hi
  rw [show writtenHeaders serBlobHeader (recordsOf klen recs) = blobHeaders klen recs from rfl, ← hpl] at hsucc
  have hc1 := hc.2.1
  have htl : t ≤ (blobBytes klen recs).length := by have := hc.2.2; omega
  generalize hR : (recordsOf klen recs)[i] = R at htake hk hwf htsR hle hsucc
  generalize hoff : (blobBytes klen (recs.take i)).length = off at htake hk hpl hle hsucc hc1 hk1
  have him := R.image_length off
  have hsz : off + R.size ≤ (blobBytes klen recs).length := by omega
  unfold Record.size at hsz hle
  rw [hwf.key] at him hsz hle
  have hr : (R.header.final off).InRange := final_inRange hwf off htsR (by rw [him]; omega)
  have hfl : ((blobBytes klen recs).take t ++ X).length = t + X.length := by
    rw [List.length_append, List.length_take]; omega
  have hne : recs ≠ [] := by
    intro h0; have := hc.1; rw [h0] at this; simp at this
  have hge := tailOf_length_ge 20 ((recordsOf klen recs).take i)
  -- `RawRecords::start` looks at bytes 20 .. 36 only
  have hstart : rawStart klen ((blobBytes klen recs).take t ++ X) = .ok (57 + klen) := by
    have h36 : 36 ≤ t := by omega
    have e1 : ((blobBytes klen recs).take t ++ X).take t = (blobBytes klen recs).take t := by
      rw [List.take_append_of_le_length (by rw [List.length_take]; omega), List.take_take, Nat.min_self]
    rw [← rawStart_take ((blobBytes klen recs).take t ++ X) t h36, e1, rawStart_take _ t h36,
      rawStart_produced klen recs hne hlen]
  unfold rawRecordsLoad rawRecordsScan
  rw [hstart]
  simp only
  obtain ⟨k', hk'⟩ : ∃ k', t + X.length = ((recordsOf klen recs).take i).length + (k' + 1) :=
    ⟨t + X.length - ((recordsOf klen recs).take i).length - 1, by omega⟩
  have hfile : (blobBytes klen recs).take t ++ X = serBlobHeader ++
      (tailOf (serBlobHeader).length ((recordsOf klen recs).take i) ++ ((R.image off).take (t - off) ++ X)) := by
    rw [htake, hpre, serBlobHeader_length]
    simp only [List.append_assoc]
  have hloop := rawLoop_tail false (klen := klen) ((blobBytes klen recs).take t ++ X)
    ((recordsOf klen recs).take i) serBlobHeader ((R.image off).take (t - off) ++ X) (k' + 1) hfile
    (by rw [hfl]; omega) (hgood.take i)
  rw [serBlobHeader_length, ← hpl, ← hk'] at hloop
  rw [hfl, show blobHeaderSize = 20 from rfl, hloop]
  have hfile2 : (blobBytes klen recs).take t ++ X =
      blobBytes klen (recs.take i) ++ ((R.image off).take (t - off) ++ X) := by
    rw [htake, List.append_assoc]
  rw [hfile2, rawLoop_torn_body_then _ X R hwf off (t - off) k' hoff hr hk1 (by omega) (by rw [him]; omega)]
  simp only
  rw [hsucc]

end Pearl

namespace Pearl.E2E
open Pearl Pearl.BPTree

/-- **the second start-up after an accepted torn tail, the silent case** — on a blob of the composed storage:
    `b` satisfied the blob invariant, its record `n` is cut at `t` inside meta / data, the first start-up accepted
    it, and afterwards the record `R'` was appended (an acknowledged write) without reaching the claimed end of the
    torn record.  The next non-validating index-less start-up opens the blob with the headers of the first `n + 1`
    records: the header of `R'` is not among them — the acknowledged write is silently lost -/
theorem scan_after_torn_append_small {cfg : Cfg} {b : CBlob} (hb : BlobInv cfg b) {t n : Nat}
    (hk : cutKind cfg.klen b.ghost t = .body n) (R' : Record)
    (hsmall : t + (R'.image t).length ≤ Fs.contentLen cfg.klen (b.ghost.take (n + 1))) :
    rawRecordsLoad cfg.klen false (appendRecord (b.file.take t) R') = .ok ((hdrsOf cfg b.ghost).take (n + 1)) ∧
    openBlob cfg.klen false (appendRecord (b.file.take t) R') = .ok ((hdrsOf cfg b.ghost).take (n + 1)) := by
  obtain ⟨hc, hge⟩ := cutIn_of_body hk
  have hlen : (blobBytes cfg.klen (full b.ghost)).length < 2 ^ 64 := by rw [← hb.file]; exact hb.size
  have hts : ∀ x ∈ full b.ghost, x.1.ts < 2 ^ 64 := fun x hx => hb.ts _ (mem_full hx)
  have htl : (b.file.take t).length = t := by
    rw [List.length_take, hb.file]
    have := hc.2.2
    have := blobBytes_take_length_le cfg.klen (full b.ghost) (n + 1)
    omega
  have hload : rawRecordsLoad cfg.klen false (appendRecord (b.file.take t) R') =
      .ok ((hdrsOf cfg b.ghost).take (n + 1)) := by
    rw [appendRecord_eq, htl, hb.file]
    apply rawRecordsLoad_torn_then cfg.klen (full b.ghost) n t _ hlen hts hc
    · unfold headerSize at hge; exact hge
    · rw [boundary_length]; exact hsmall
  refine ⟨hload, ?_⟩
  have h20 : (b.file.take t) = serBlobHeader ++ (tailOf 20 (recordsOf cfg.klen (full b.ghost))).take (t - 20) := by
    rw [hb.file]
    apply blobBytes_take_ge20
    have := hc.2.1
    have := blobBytes_length_ge cfg.klen ((full b.ghost).take n)
    omega
  have hform : appendRecord (b.file.take t) R' =
      serBlobHeader ++ ((tailOf 20 (recordsOf cfg.klen (full b.ghost))).take (t - 20) ++ R'.image t) := by
    rw [appendRecord_eq, htl, h20, List.append_assoc]
  rw [hform] at hload ⊢
  rw [openBlob_of_load, hload]
  intro h0
  have := congrArg List.length h0
  rw [List.length_append, Record.image_length] at this
  simp at this

end Pearl.E2E
