import Pearl.Proofs.EndToEndCrashSpec
/-
End-to-end crash recovery, part 9: when the read of the torn record's key fails.

In the setting of `torn_recover` (finding E8), if the torn record is not a deletion marker, no earlier record of its
key in the active blob has a greater timestamp, and no record of its key in a closed blob has a greater timestamp
(so that the read path ranks it first), then `read` of that key fails with the load error `Bincode`
(`torn_read_fails`).
-/
namespace Pearl.E2E
open Pearl Pearl.BPTree Pearl.Container

/-! ### the vector of a key when the last pushed header has the greatest timestamp -/

theorem takeWhile_of_all {α : Type} (p : α → Bool) : ∀ (v : List α), (∀ a ∈ v, p a = true) →
    v.takeWhile p = v ∧ v.dropWhile p = []
  | [], _ => ⟨rfl, rfl⟩
  | x :: xs, h => by
    have hx := h x (by simp)
    have ih := takeWhile_of_all p xs (fun a ha => h a (by simp [ha]))
    rw [List.takeWhile_cons_of_pos hx, List.dropWhile_cons_of_pos hx, ih.1, ih.2]
    exact ⟨rfl, rfl⟩

theorem ins_of_all_le {α : Type} {f : α → Nat} {v : List α} {h : α} (hle : ∀ a ∈ v, f a ≤ f h) :
    ins f v h = v ++ [h] := by
  unfold ins
  obtain ⟨h1, h2⟩ := takeWhile_of_all (fun a => decide (f a ≤ f h)) v (fun a ha => by simpa using hle a ha)
  rw [h1, h2]

theorem hvecOf_snoc_self (hs : List RecHeader) (h : RecHeader) :
    hvecOf (hs ++ [h]) (hdrKey h) = ins RecHeader.timestamp (hvecOf hs (hdrKey h)) h := by
  unfold hvecOf
  rw [List.filter_append, List.foldl_append]
  simp

theorem mem_hvecOf {hs : List RecHeader} {k : Nat} {x : RecHeader} (hx : x ∈ hvecOf hs k) :
    x ∈ hs ∧ hdrKey x = k := by
  unfold hvecOf at hx
  have := (foldl_ins_perm RecHeader.timestamp (hs.filter (fun h => hdrKey h == k)) []).mem_iff.mp hx
  rw [List.nil_append, List.mem_filter, beq_iff_eq] at this
  exact this

theorem memLatest_snoc_of_le (hs : List RecHeader) (h : RecHeader)
    (hle : ∀ x ∈ hs, hdrKey x = hdrKey h → x.timestamp ≤ h.timestamp) :
    memLatest (indexOf (hs ++ [h])) (hdrKey h) = some h := by
  rw [memLatest_indexOf, hvecOf_snoc_self, ins_of_all_le]
  · simp
  · intro a ha
    obtain ⟨h1, h2⟩ := mem_hvecOf ha
    exact hle a h1 h2

/-! ### the headers of a blob, position by position -/

theorem hdrsOf_getElem? (cfg : Cfg) (recs : List Rec) (j : Nat) (h : RecHeader)
    (hh : (hdrsOf cfg recs)[j]? = some h) : ∃ r off, recs[j]? = some r ∧ h = hdrOf cfg.klen r off := by
  unfold hdrsOf at hh
  rw [blobHeaders_full, List.getElem?_map] at hh
  cases hp : (withOff cfg.klen blobHeaderSize recs)[j]? with
  | none => rw [hp] at hh; cases hh
  | some p =>
    rw [hp] at hh
    simp only [Option.map_some, Option.some.injEq] at hh
    refine ⟨p.1, p.2, ?_, hh.symm⟩
    have : ((withOff cfg.klen blobHeaderSize recs).map (·.1))[j]? = some p.1 := by
      rw [List.getElem?_map, hp]; rfl
    rwa [withOff_fst] at this

/-! ### the answer of the active blob with the torn tail -/

theorem torn_active_answer {cfg : Cfg} {a : CBlob} (hb : BlobInv cfg a) (t n : Nat) (r : Rec)
    (hr : a.ghost[n]? = some r) (hdel : r.del = false)
    (hA : ∀ j r', j < n → a.ghost[j]? = some r' → r'.key = r.key → r'.ts ≤ r.ts) :
    ∃ h, (hdrsOf cfg a.ghost)[n]? = some h ∧ h.timestamp = r.ts ∧
      (recovered cfg a t n (n + 1)).getLatestEntry cfg r.key = .ok (.found ⟨h, a.file.take t⟩) := by
  have hn : n < a.ghost.length := by
    rcases Nat.lt_or_ge n a.ghost.length with h | h
    · exact h
    · rw [List.getElem?_eq_none h] at hr; cases hr
  have hnh : n < (hdrsOf cfg a.ghost).length := by rw [hdrsOf_length]; exact hn
  have hrk : r.key < 256 ^ cfg.klen := hb.key r (List.mem_of_getElem? hr)
  obtain ⟨r0, off, hr0, hh⟩ := hdrsOf_getElem? cfg a.ghost n _ (List.getElem?_eq_getElem hnh)
  rw [hr] at hr0
  cases hr0
  have hkey : hdrKey (hdrsOf cfg a.ghost)[n] = r.key := by rw [hh]; exact hdrOf_key_of_lt _ _ _ hrk
  have hts : (hdrsOf cfg a.ghost)[n].timestamp = r.ts := by rw [hh]; exact hdrOf_timestamp _ _ _
  have hdl : (hdrsOf cfg a.ghost)[n].isDeleted = false := by rw [hh, hdrOf_isDeleted]; exact hdel
  have hsplit : (hdrsOf cfg a.ghost).take (n + 1) = (hdrsOf cfg a.ghost).take n ++ [(hdrsOf cfg a.ghost)[n]] :=
    List.take_succ_eq_append_getElem hnh
  have hlatest : memLatest (indexOf ((hdrsOf cfg a.ghost).take (n + 1))) r.key = some (hdrsOf cfg a.ghost)[n] := by
    rw [hsplit, ← hkey]
    apply memLatest_snoc_of_le
    intro x hx hxk
    obtain ⟨j, hj, hxj⟩ := List.getElem_of_mem hx
    rw [List.length_take] at hj
    have hxj' : (hdrsOf cfg a.ghost)[j]? = some x := by
      have : ((hdrsOf cfg a.ghost).take n)[j]? = some x := by
        rw [List.getElem?_eq_getElem (by rw [List.length_take]; exact hj), hxj]
      rw [List.getElem?_take, if_pos (by omega)] at this
      exact this
    obtain ⟨r', off', hr', hx'⟩ := hdrsOf_getElem? cfg a.ghost j x hxj'
    have hr'k : r'.key < 256 ^ cfg.klen := hb.key r' (List.mem_of_getElem? hr')
    rw [hx', hdrOf_key_of_lt _ _ _ hr'k, hkey] at hxk
    rw [hx', hdrOf_timestamp, hts]
    exact hA j r' (by omega) hr' hxk
  refine ⟨_, List.getElem?_eq_getElem hnh, hts, ?_⟩
  unfold CBlob.getLatestEntry
  have hcf : (recovered cfg a t n (n + 1)).checkFilter cfg r.key = .needAdditionalCheck := by
    unfold CBlob.checkFilter recovered
    simp only []
    rw [indexOf_lookup_isSome, if_pos]
    rw [List.any_eq_true]
    exact ⟨(hdrsOf cfg a.ghost)[n], hsplit ▸ List.mem_append_right _ (List.Mem.head _), by simp [hkey]⟩
  rw [hcf]
  simp only [show (FilterResult.needAdditionalCheck == FilterResult.notContains) = false from rfl,
    Bool.false_eq_true, if_false]
  unfold CBlob.indexLatest
  have hgl : (recovered cfg a t n (n + 1)).index.getLatest r.key = some (some (hdrsOf cfg a.ghost)[n]) := by
    unfold recovered
    simp only [CIndex.getLatest, hlatest]
  rw [hgl]
  simp only [hdl, Bool.false_eq_true, if_false]
  rfl

/-! ### the answer of a closed blob -/

theorem getLatest_ts {b : Blob} {k : Key} {t : Nat} (h : (b.getLatest k).ts? = some t) :
    ∃ r ∈ b.recs, r.key = k ∧ r.ts = t := by
  unfold Blob.getLatest latestOfVec Blob.vec at h
  cases hl : (vecOf b.recs k).getLast? with
  | none => rw [hl] at h; cases h
  | some r =>
    rw [hl] at h
    have hmem : r ∈ vecOf b.recs k := List.mem_of_getLast? hl
    have := (vecOf_perm b.recs k).mem_iff.mp hmem
    rw [List.mem_filter, beq_iff_eq] at this
    refine ⟨r, this.1, this.2, ?_⟩
    simp only [] at h
    split at h <;> (simp only [ReadResult.ts?, Option.some.injEq] at h; exact h)

/-- the answer of a blob that satisfies the invariant carries no timestamp, or the timestamp of one of its records
    of that key -/
theorem getLatestEntry_ts {cfg : Cfg} {b : CBlob} (hcfg : cfg.OK) (hb : BlobInv cfg b) (k : Key) :
    ∃ x, b.getLatestEntry cfg k = .ok x ∧
      (entryTs? x = none ∨ ∃ r ∈ b.ghost, r.key = k ∧ entryTs? x = some r.ts) := by
  unfold CBlob.getLatestEntry
  by_cases hn : (b.checkFilter cfg k == .notContains) = true
  · rw [if_pos hn]; exact ⟨_, rfl, Or.inl rfl⟩
  · rw [if_neg hn]
    obtain ⟨x, hx, hrr⟩ := hb.indexLatest_rr hcfg k
    refine ⟨x, hx, ?_⟩
    rw [hrr.ts]
    cases hts : (b.abs.getLatest k).ts? with
    | none => exact Or.inl rfl
    | some t =>
      obtain ⟨r, hr, hk, ht⟩ := getLatest_ts hts
      exact Or.inr ⟨r, hr, hk, by rw [ht]⟩

/-! ### the fold keeps a bound on the timestamp -/

theorem foldEntries_bound (f : CBlob → Except CErr (ReadResult CEntry)) (T : Nat) :
    ∀ (l : List CBlob) (acc : ReadResult CEntry),
      (∀ b ∈ l, ∃ x, f b = .ok x ∧ (entryTs? x = none ∨ ∃ t, entryTs? x = some t ∧ t ≤ T)) →
      (entryTs? acc = none ∨ ∃ t, entryTs? acc = some t ∧ t ≤ T) →
      ∃ y, foldEntries f l acc = .ok y ∧ (entryTs? y = none ∨ ∃ t, entryTs? y = some t ∧ t ≤ T)
  | [], acc, _, hacc => ⟨acc, rfl, hacc⟩
  | b :: l, acc, hl, hacc => by
    obtain ⟨x, hx, hxb⟩ := hl b (by simp)
    simp only [foldEntries, hx]
    apply foldEntries_bound f T l _ (fun b' hb' => hl b' (by simp [hb']))
    unfold entryLatest
    split
    · exact hxb
    · exact hacc

theorem mem_consulted_closed {cfg : Cfg} {c : CState} {k : Key} {b : CBlob}
    (hb : b ∈ (Container.iterPossibleStack (fops cfg) c.cont true k).filterMap
      (fun j => (c.cont.getChild j).map (·.data))) : b ∈ closedBlobs c.cont := by
  obtain ⟨j, _, hj⟩ := List.mem_filterMap.mp hb
  cases hg : c.cont.getChild j with
  | none => rw [hg] at hj; cases hj
  | some lf =>
    rw [hg] at hj
    simp only [Option.map_some, Option.some.injEq] at hj
    subst hj
    exact mem_closedBlobs.mpr (List.mem_of_getElem? (getChild_some_slots hg))

/-- **the read of the torn record's key fails** (finding E8): in the setting of `torn_recover`, when the torn
    record `r` is not a deletion marker and the read path ranks it first — no earlier record of its key in the
    active blob and no record of its key in a closed blob has a greater timestamp —, `read` fails with the load
    error `Bincode`, while `contains` reports the key as present with the timestamp of the torn record -/
theorem torn_read_fails {cfg : Cfg} (hcfg : cfg.OK) {c : CState} (hinv : CInv cfg c) {a : CBlob}
    (ha : c.active = some a) (cut : Nat → Nat) {n : Nat}
    (hf : fate cfg.klen cfg.validateData a.ghost (cut a.id) = .opened n true)
    (hclosed : ∀ b ∈ closedBlobs c.cont, ∀ m, fate cfg.klen cfg.validateData b.ghost (cut b.id) ≠ .opened m true)
    (r : Rec) (hr : a.ghost[n]? = some r) (hdel : r.del = false)
    (hA : ∀ j r', j < n → a.ghost[j]? = some r' → r'.key = r.key → r'.ts ≤ r.ts)
    (hB : ∀ b ∈ closedBlobs c.cont, ∀ r' ∈ b.ghost, r'.key = r.key → r'.ts ≤ r.ts) :
    ∃ c₁, c.crashRecover cfg cut false = some c₁ ∧ c₁.read cfg r.key = .error (.load .bincode) ∧
      c₁.contains cfg r.key = .ok (.found r.ts) := by
  obtain ⟨c₁, c₂, hc₁, _, hinv₂, _, hact₂, hrel, hcl, _, _⟩ := torn_recover hcfg hinv ha cut hf hclosed
  refine ⟨c₁, hc₁, ?_⟩
  have hba : BlobInv cfg a := (hinv.active a ha).1
  obtain ⟨hkind, _, _, _⟩ := fate_opened_true hf
  obtain ⟨h, hh, hts, hans⟩ := torn_active_answer hba (cut a.id) n r hr hdel hA
  -- the closed blobs answer with timestamps `≤ r.ts`
  have hrest : ∀ b ∈ (Container.iterPossibleStack (fops cfg) c₂.cont true r.key).filterMap
      (fun j => (c₂.cont.getChild j).map (·.data)),
      ∃ x, b.getLatestEntry cfg r.key = .ok x ∧ (entryTs? x = none ∨ ∃ t, entryTs? x = some t ∧ t ≤ r.ts) := by
    intro b hb
    have hbc : b ∈ closedBlobs c₂.cont := mem_consulted_closed hb
    have hbi : BlobInv cfg b := hinv₂.closed b (mem_closedBlobs.mp hbc)
    obtain ⟨x, hx, hxt⟩ := getLatestEntry_ts hcfg hbi r.key
    refine ⟨x, hx, ?_⟩
    rcases hxt with h0 | ⟨r', hr', hk', ht'⟩
    · exact Or.inl h0
    · right
      refine ⟨r'.ts, ht', ?_⟩
      rw [hcl] at hbc
      obtain ⟨y, hy, rfl⟩ := List.mem_map.mp hbc
      obtain ⟨b0, hb0, hs0⟩ := List.mem_filterMap.mp hy
      rw [(dump_fields cfg y).2.2.1] at hr'
      unfold surv at hs0
      split at hs0
      · cases hs0
      · cases hs0
        exact hB b0 hb0 r' (List.mem_of_mem_take hr') hk'
  have hget : c₁.getLatestEntry cfg r.key = .ok (.found ⟨h, a.file.take (cut a.id)⟩) := by
    rw [hrel]
    unfold CState.getLatestEntry CState.consulted
    simp only [Option.toList_some, List.singleton_append, foldEntries, hans, entryLatest_notFound_left]
    obtain ⟨y, hy, hyt⟩ := foldEntries_bound (fun b => b.getLatestEntry cfg r.key) r.ts _ .notFound hrest
      (Or.inl rfl)
    rw [foldEntries_acc, hy]
    simp only []
    unfold entryLatest
    rw [if_neg]
    have hts' : entryTs? (.found ⟨h, a.file.take (cut a.id)⟩ : ReadResult CEntry) = some r.ts := by
      simp [entryTs?, hts]
    rw [hts']
    rcases hyt with h0 | ⟨t, ht, hle⟩
    · rw [h0]; simp [optGt]
    · rw [ht]; simp [optGt]; omega
  refine ⟨?_, ?_⟩
  · unfold CState.read
    rw [hget]
    simp only []
    have hfail := C06.torn_record_unreadable cfg.klen (full a.ghost) n (cut a.id) h
      (fun x hx => hba.ts _ (mem_full hx)) (cutIn_of_body hkind).1 hh
    rw [← hba.file] at hfail
    rw [hfail]
  · unfold CState.contains
    rw [hget]
    simp only [ReadResult.map, hts]

end Pearl.E2E
