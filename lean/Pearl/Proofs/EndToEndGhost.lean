import Pearl.Model.EndToEnd
import Pearl.Proofs.ContainerLemmas
/-
End-to-end composition, part 7: the history variable `CBlob.ghost` is pure instrumentation.  For ANY concrete
state (no invariant needed):
* `read_ghost_irrelevant`: replacing every `ghost` by the empty list changes no answer of `read` / `contains`;
* `step_eraseGhost`: the physical part of the next state depends on the physical part of the current state only
  (`(c.step op).eraseGhost = (c.eraseGhost.step op).eraseGhost`), for every operation.
-/
namespace Pearl.E2E
open Pearl Pearl.Container

/-- forget the history variable of a blob -/
def CBlob.eraseGhost (b : CBlob) : CBlob := { b with ghost := [] }

/-- forget every history variable of the state -/
def CState.eraseGhost (c : CState) : CState :=
  { c with active := c.active.map CBlob.eraseGhost, cont := mapChildren c.cont CBlob.eraseGhost }

theorem getChild_mapChildren (c : Container Combined CBlob) (f : CBlob → CBlob) (j : Nat) :
    (mapChildren c f).getChild j = (c.getChild j).map (fun lf => { lf with data := f lf.data }) := by
  unfold Container.getChild mapChildren
  simp only [List.getElem?_map]
  cases c.children[j]? with
  | none => rfl
  | some o => cases o <;> rfl

theorem getInner_mapChildren (c : Container Combined CBlob) (f : CBlob → CBlob) (id : Nat) :
    (mapChildren c f).getInner id = c.getInner id := rfl

theorem iterNext_mapChildren (ops : FilterOps Combined) (c : Container Combined CBlob) (f : CBlob → CBlob)
    (rev : Bool) (k : Key) : ∀ (fuel : Nat) (st : List (Nat × Nat)),
    Container.iterNext ops (mapChildren c f) rev k fuel st = Container.iterNext ops c rev k fuel st
  | 0, _ => rfl
  | fuel + 1, [] => rfl
  | fuel + 1, (index, id) :: rest => by
    simp only [Container.iterNext, getInner_mapChildren, getChild_mapChildren, Option.isNone_map,
      iterNext_mapChildren ops c f rev k fuel]
    cases c.getInner id with
    | none => rfl
    | some x =>
      cases x with
      | node n => rfl
      | leaf p j =>
        simp only []
        cases c.getChild j <;> rfl

theorem iterStackCollect_mapChildren (ops : FilterOps Combined) (c : Container Combined CBlob) (f : CBlob → CBlob)
    (rev : Bool) (k : Key) : ∀ (fuel : Nat) (st : List (Nat × Nat)),
    Container.iterStackCollect ops (mapChildren c f) rev k fuel st = Container.iterStackCollect ops c rev k fuel st
  | 0, _ => rfl
  | fuel + 1, st => by
    simp only [Container.iterStackCollect, iterNext_mapChildren]
    have : (mapChildren c f).inner.length = c.inner.length := rfl
    rw [this]
    cases Container.iterNext ops c rev k (4 * (c.inner.length + 2)) st with
    | none => rfl
    | some x => simp only [iterStackCollect_mapChildren ops c f rev k fuel]

theorem iterPossibleStack_mapChildren (ops : FilterOps Combined) (c : Container Combined CBlob) (f : CBlob → CBlob)
    (rev : Bool) (k : Key) :
    Container.iterPossibleStack ops (mapChildren c f) rev k = Container.iterPossibleStack ops c rev k := by
  unfold Container.iterPossibleStack
  rw [iterStackCollect_mapChildren]
  simp [mapChildren]

theorem consulted_eraseGhost (cfg : Cfg) (c : CState) (k : Key) :
    c.eraseGhost.consulted cfg k = (c.consulted cfg k).map CBlob.eraseGhost := by
  unfold CState.consulted CState.eraseGhost
  simp only [iterPossibleStack_mapChildren, List.map_append, List.map_filterMap, getChild_mapChildren]
  congr 1
  · cases c.active <;> rfl
  · congr 1
    funext j
    cases c.cont.getChild j <;> rfl

theorem foldEntries_map (f : CBlob → Except CErr (ReadResult CEntry)) (g : CBlob → CBlob) :
    ∀ (l : List CBlob) (acc : ReadResult CEntry), foldEntries f (l.map g) acc = foldEntries (fun b => f (g b)) l acc
  | [], _ => rfl
  | b :: l, acc => by
    simp only [List.map_cons, foldEntries]
    cases f (g b) with
    | error e => rfl
    | ok r => exact foldEntries_map f g l _

theorem getLatestEntry_eraseGhost (cfg : Cfg) (c : CState) (k : Key) :
    c.eraseGhost.getLatestEntry cfg k = c.getLatestEntry cfg k := by
  unfold CState.getLatestEntry
  rw [consulted_eraseGhost, foldEntries_map]
  rfl

/-- the read path does not read the history variable -/
theorem read_ghost_irrelevant (cfg : Cfg) (c : CState) (k : Key) :
    c.eraseGhost.read cfg k = c.read cfg k ∧ c.eraseGhost.contains cfg k = c.contains cfg k := by
  unfold CState.read CState.contains
  rw [getLatestEntry_eraseGhost]
  exact ⟨rfl, rfl⟩

/-! ### the operations do not read the history variable either -/

section Ops
variable (f : CBlob → CBlob)

theorem mergeUp_mapChildren (ops : FilterOps Combined) (item : Option Combined) :
    ∀ (fuel : Nat) (c : Container Combined CBlob) (p : Option Nat),
      mergeUp ops item fuel (mapChildren c f) p = mapChildren (mergeUp ops item fuel c p) f
  | 0, _, _ => rfl
  | _ + 1, _, none => rfl
  | fuel + 1, c, some id => by
    simp only [mergeUp]
    exact mergeUp_mapChildren ops item fuel (c.modifyNode id _) _

theorem children_length_mapChildren (c : Container Combined CBlob) :
    (mapChildren c f).children.length = c.children.length := by simp [mapChildren]

theorem addChild_mapChildren (ops : FilterOps Combined) (cops : ChildOps Combined CBlob)
    (hf : ∀ b, cops.filterOf (f b) = cops.filterOf b) (c : Container Combined CBlob) (node : Nat) (child : CBlob) :
    addChild ops cops (mapChildren c f) node (f child) =
      (mapChildren (addChild ops cops c node child).1 f, (addChild ops cops c node child).2) := by
  rw [addChild_eq, addChild_eq, hf, children_length_mapChildren]
  have hX : ((mapChildren c f).appendInner (.leaf node c.children.length)).modifyNode node
        (addUpd ops (cops.filterOf child) (mapChildren c f).inner.length)
      = mapChildren ((c.appendInner (.leaf node c.children.length)).modifyNode node
        (addUpd ops (cops.filterOf child) c.inner.length)) f := rfl
  rw [hX]
  have hP : ((mapChildren c f).appendInner (.leaf node c.children.length)).getNode node
      = (c.appendInner (.leaf node c.children.length)).getNode node := rfl
  rw [hP, mergeUp_mapChildren]
  simp [mapChildren, appendChild]

theorem push_mapChildren (ops : FilterOps Combined) (cops : ChildOps Combined CBlob)
    (hf : ∀ b, cops.filterOf (f b) = cops.filterOf b) (c : Container Combined CBlob) (child : CBlob) :
    Container.push ops cops (mapChildren c f) (f child) =
      (mapChildren (Container.push ops cops c child).1 f, (Container.push ops cops c child).2) := by
  unfold Container.push
  rw [children_length_mapChildren]
  have hg : (mapChildren c f).groupSize = c.groupSize := rfl
  have hr : (mapChildren c f).root = c.root := rfl
  rw [hg, hr]
  by_cases h1 : c.children.length < c.groupSize
  · rw [if_pos h1, if_pos h1, addChild_mapChildren f ops cops hf]
    simp only []
    rw [children_length_mapChildren]
    have hg2 : (mapChildren (addChild ops cops c c.root child).1 f).groupSize
        = (addChild ops cops c c.root child).1.groupSize := rfl
    rw [hg2]
    by_cases h2 : (addChild ops cops c c.root child).1.children.length ≥ (addChild ops cops c c.root child).1.groupSize
    · rw [if_pos h2, if_pos h2]
      rfl
    · rw [if_neg h2, if_neg h2]
  · rw [if_neg h1, if_neg h1]
    have hl : (mapChildren c f).lastInnerNode = c.lastInnerNode := rfl
    rw [hl]
    cases c.lastInnerNode with
    | none => rfl
    | some id =>
      simp only []
      have hn : (mapChildren c f).getNode id = c.getNode id := rfl
      rw [hn]
      by_cases h3 : ((c.getNode id).getD {}).children.length ≥ c.groupSize
      · rw [if_pos h3, if_pos h3]
        have : (mapChildren c f).newInnerNode = (mapChildren c.newInnerNode.1 f, c.newInnerNode.2) := rfl
        rw [this]
        exact addChild_mapChildren f ops cops hf _ _ _
      · rw [if_neg h3, if_neg h3]
        exact addChild_mapChildren f ops cops hf _ _ _

theorem extend_mapChildren (ops : FilterOps Combined) (cops : ChildOps Combined CBlob)
    (hf : ∀ b, cops.filterOf (f b) = cops.filterOf b) : ∀ (xs : List CBlob) (c : Container Combined CBlob),
    Container.extend ops cops (mapChildren c f) (xs.map f) = mapChildren (Container.extend ops cops c xs) f
  | [], _ => rfl
  | x :: xs, c => by
    simp only [Container.extend, List.map_cons, List.foldl_cons]
    rw [push_mapChildren f ops cops hf]
    exact extend_mapChildren ops cops hf xs _

theorem mapChildren_mapChildren (c : Container Combined CBlob) (g : CBlob → CBlob) :
    mapChildren (mapChildren c f) g = mapChildren c (fun b => g (f b)) := by
  simp only [mapChildren, List.map_map]
  congr 1
  apply List.map_congr_left
  intro o _
  cases o <;> rfl

theorem mapChildren_congr (c : Container Combined CBlob) (g : CBlob → CBlob) (h : ∀ b, f b = g b) :
    mapChildren c f = mapChildren c g := by
  have : f = g := funext h
  rw [this]

theorem closedBlobs_mapChildren (c : Container Combined CBlob) :
    closedBlobs (mapChildren c f) = (closedBlobs c).map f := by
  simp only [closedBlobs, mapChildren, List.filterMap_map, List.map_filterMap]
  congr 1
  funext o
  cases o <;> rfl

theorem lastSomeIdx_map' {α β : Type} (g : α → β) : ∀ (l : List (Option α)),
    lastSomeIdx (l.map (Option.map g)) = lastSomeIdx l
  | [] => rfl
  | o :: rest => by
    simp only [List.map_cons, lastSomeIdx, lastSomeIdx_map' g rest]
    cases o <;> rfl

theorem lastId_mapChildren (c : Container Combined CBlob) : (mapChildren c f).lastId = c.lastId := by
  unfold Container.lastId mapChildren
  exact lastSomeIdx_map' _ _

theorem pop_mapChildren (c : Container Combined CBlob) :
    (mapChildren c f).pop = (mapChildren c.pop.1 f, c.pop.2.map f) := by
  unfold Container.pop
  rw [lastId_mapChildren]
  cases c.lastId with
  | none => rfl
  | some i =>
    simp only []
    unfold Container.remove
    rw [getChild_mapChildren]
    cases c.getChild i with
    | none => rfl
    | some lf =>
      simp only [Option.map_some]
      congr 1
      simp [mapChildren, List.map_set]

theorem modifyChild_mapChildren (c : Container Combined CBlob) (i : Nat) (g g' : CBlob → CBlob)
    (h : ∀ b, g (f b) = f (g' b)) :
    modifyChild (mapChildren c f) i g = mapChildren (modifyChild c i g') f := by
  simp only [modifyChild, mapChildren]
  congr 1
  apply List.ext_getElem?
  intro j
  simp only [List.getElem?_map, List.getElem?_modify]
  by_cases hij : i = j
  · subst hij
    cases c.children[i]? with
    | none => rfl
    | some o => cases o <;> simp [h]
  · simp [hij]

end Ops

/-! #### blobs -/

theorem eraseGhost_idem (b : CBlob) : b.eraseGhost.eraseGhost = b.eraseGhost := rfl

theorem writeRec_eraseGhost (cfg : Cfg) (b : CBlob) (r : Rec) :
    (b.eraseGhost.writeRec cfg r).eraseGhost = (b.writeRec cfg r).eraseGhost := by
  obtain ⟨id, file, index, filter, ghost⟩ := b
  unfold CBlob.writeRec CBlob.indexPush CBlob.eraseGhost
  cases index <;> rfl

theorem loadIndex_eraseGhost (cfg : Cfg) (b : CBlob) : b.eraseGhost.loadIndex cfg = (b.loadIndex cfg).eraseGhost := by
  obtain ⟨id, file, index, filter, ghost⟩ := b
  unfold CBlob.loadIndex CBlob.eraseGhost
  cases index with
  | mem m => rfl
  | disk fl mb off =>
    simp only []
    cases fl.load <;> cases combinedOfFile cfg.bloomIsOn mb <;> rfl

theorem dump_eraseGhost (cfg : Cfg) (b : CBlob) : b.eraseGhost.dump cfg = (b.dump cfg).eraseGhost := by
  obtain ⟨id, file, index, filter, ghost⟩ := b
  unfold CBlob.dump CBlob.eraseGhost
  cases index with
  | disk fl mb off => rfl
  | mem m =>
    simp only []
    split
    · rfl
    · cases serializeFilters cfg.klen filter <;> rfl

theorem delete_eraseGhost (cfg : Cfg) (b : CBlob) (k : Key) (ts : Nat) (oip : Bool) :
    (b.eraseGhost.delete cfg k ts oip).1.eraseGhost = (b.delete cfg k ts oip).1.eraseGhost ∧
      (b.eraseGhost.delete cfg k ts oip).2 = (b.delete cfg k ts oip).2 := by
  unfold CBlob.delete
  have h1 : b.eraseGhost.indexLatest k = b.indexLatest k := rfl
  rw [h1]
  have key : ∀ present : Bool,
      ((if (!oip || present) = true then
          ((b.eraseGhost.loadIndex cfg).writeRec cfg ⟨k, ts, true, none, ⟨0, 0⟩⟩, true)
        else (b.eraseGhost, false)).1.eraseGhost
        = (if (!oip || present) = true then
          ((b.loadIndex cfg).writeRec cfg ⟨k, ts, true, none, ⟨0, 0⟩⟩, true)
        else (b, false)).1.eraseGhost) ∧
      ((if (!oip || present) = true then
          ((b.eraseGhost.loadIndex cfg).writeRec cfg ⟨k, ts, true, none, ⟨0, 0⟩⟩, true)
        else (b.eraseGhost, false)).2
        = (if (!oip || present) = true then
          ((b.loadIndex cfg).writeRec cfg ⟨k, ts, true, none, ⟨0, 0⟩⟩, true)
        else (b, false)).2) := by
    intro present
    by_cases hgo : (!oip || present) = true
    · rw [if_pos hgo, if_pos hgo]
      refine ⟨?_, rfl⟩
      simp only []
      rw [loadIndex_eraseGhost, writeRec_eraseGhost]
    · rw [if_neg hgo, if_neg hgo]
      exact ⟨rfl, rfl⟩
  exact key _

theorem indexPush_eraseGhost (cfg : Cfg) (b : CBlob) (k : Key) (h : RecHeader) :
    b.eraseGhost.indexPush cfg k h = (b.indexPush cfg k h).map CBlob.eraseGhost := by
  obtain ⟨id, file, index, filter, ghost⟩ := b
  unfold CBlob.indexPush CBlob.eraseGhost
  cases index <;> rfl

theorem foldl_indexPush_eraseGhost (cfg : Cfg) : ∀ (hs : List RecHeader) (b : CBlob),
    hs.foldl (fun b h => (b.indexPush cfg (hdrKey h) h).getD b) b.eraseGhost
      = (hs.foldl (fun b h => (b.indexPush cfg (hdrKey h) h).getD b) b).eraseGhost
  | [], _ => rfl
  | h :: hs, b => by
    simp only [List.foldl_cons]
    have : (b.eraseGhost.indexPush cfg (hdrKey h) h).getD b.eraseGhost
        = ((b.indexPush cfg (hdrKey h) h).getD b).eraseGhost := by
      rw [indexPush_eraseGhost]
      cases b.indexPush cfg (hdrKey h) h <;> rfl
    rw [this]
    exact foldl_indexPush_eraseGhost cfg hs _

theorem regen_eraseGhost (cfg : Cfg) (b : CBlob) : regen cfg b.eraseGhost = (regen cfg b).map CBlob.eraseGhost := by
  unfold regen
  have hfile : b.eraseGhost.file = b.file := rfl
  rw [hfile]
  cases blobHeaderFromFile b.file with
  | error e => rfl
  | ok _ =>
    simp only []
    split
    · cases rawRecordsLoad cfg.klen cfg.validateData b.file with
      | error e => rfl
      | ok hs =>
        simp only [Option.map_some]
        exact congrArg some (foldl_indexPush_eraseGhost cfg hs { b with index := .mem [], filter := newFilter cfg })
    · rfl

theorem regenAll_eraseGhost (cfg : Cfg) : ∀ (l : List CBlob),
    regenAll cfg (l.map CBlob.eraseGhost) = (regenAll cfg l).map (List.map CBlob.eraseGhost)
  | [] => rfl
  | b :: l => by
    simp only [List.map_cons, regenAll, regen_eraseGhost, regenAll_eraseGhost cfg l]
    cases regen cfg b <;> cases regenAll cfg l <;> rfl

theorem insertById_eraseGhost (b : CBlob) : ∀ (l : List CBlob),
    insertById b.eraseGhost (l.map CBlob.eraseGhost) = (insertById b l).map CBlob.eraseGhost
  | [] => rfl
  | c :: cs => by
    simp only [List.map_cons, insertById]
    have : (b.eraseGhost.id < c.eraseGhost.id) = (b.id < c.id) := rfl
    by_cases h : b.id < c.id
    · have h' : b.eraseGhost.id < c.eraseGhost.id := h
      rw [if_pos h, if_pos h']; rfl
    · have h' : ¬ b.eraseGhost.id < c.eraseGhost.id := h
      rw [if_neg h, if_neg h']
      simp only [List.map_cons, insertById_eraseGhost b cs]

theorem sortById_eraseGhost : ∀ (l : List CBlob),
    sortById (l.map CBlob.eraseGhost) = (sortById l).map CBlob.eraseGhost
  | [] => rfl
  | b :: l => by
    have ih := sortById_eraseGhost l
    simp only [sortById, List.map_cons, List.foldr_cons] at ih ⊢
    rw [ih, insertById_eraseGhost]

/-! #### the storage -/

theorem childOps_filterOf_eraseGhost (cfg : Cfg) (b : CBlob) :
    (childOps cfg).filterOf b.eraseGhost = (childOps cfg).filterOf b := rfl

theorem eraseGhost_active (c : CState) : c.eraseGhost.active = c.active.map CBlob.eraseGhost := rfl
theorem eraseGhost_cont (c : CState) : c.eraseGhost.cont = mapChildren c.cont CBlob.eraseGhost := rfl
theorem eraseGhost_nextId (c : CState) : c.eraseGhost.nextId = c.nextId := rfl

theorem CState.ext' {a b : CState} (h1 : a.active = b.active) (h2 : a.cont = b.cont) (h3 : a.nextId = b.nextId) :
    a = b := by
  cases a; cases b; simp_all

theorem mapChildren_eraseGhost_idem (c : Container Combined CBlob) :
    mapChildren (mapChildren c CBlob.eraseGhost) CBlob.eraseGhost = mapChildren c CBlob.eraseGhost := by
  rw [mapChildren_mapChildren]
  rfl

theorem eraseGhost_eraseGhost (c : CState) : c.eraseGhost.eraseGhost = c.eraseGhost := by
  apply CState.ext'
  · simp only [eraseGhost_active, Option.map_map]
    cases c.active <;> rfl
  · simp only [eraseGhost_cont, mapChildren_eraseGhost_idem]
  · rfl

theorem createActive_eraseGhost (cfg : Cfg) (c : CState) :
    (c.createActive cfg).eraseGhost = c.eraseGhost.createActive cfg := rfl

theorem ensureActive_eraseGhost (cfg : Cfg) (c : CState) :
    (c.ensureActive cfg).eraseGhost = c.eraseGhost.ensureActive cfg := by
  unfold CState.ensureActive
  rw [eraseGhost_active]
  cases c.active <;> rfl

theorem write_eraseGhost (cfg : Cfg) (c : CState) (k : Key) (ts : Nat) (d : Data) :
    (c.write cfg k ts d).eraseGhost = (c.eraseGhost.write cfg k ts d).eraseGhost := by
  unfold CState.write
  simp only []
  rw [← ensureActive_eraseGhost, (read_ghost_irrelevant cfg (c.ensureActive cfg) k).2]
  generalize (if cfg.allowDup = true then (Except.ok false : Except CErr Bool)
    else match (c.ensureActive cfg).contains cfg k with
      | .error e => .error e
      | .ok r => .ok r.isFound) = dup
  cases dup with
  | error e => simp only [eraseGhost_eraseGhost]
  | ok b =>
    cases b with
    | true => simp only [eraseGhost_eraseGhost]
    | false =>
      simp only [eraseGhost_active]
      cases ha : (c.ensureActive cfg).active with
      | none => simp only [Option.map_none, eraseGhost_eraseGhost]
      | some a =>
        simp only [Option.map_some]
        apply CState.ext'
        · simp only [eraseGhost_active, Option.map_some, writeRec_eraseGhost]
        · simp only [eraseGhost_cont, mapChildren_eraseGhost_idem]
        · rfl

theorem delete_eraseGhost_state (cfg : Cfg) (c : CState) (k : Key) (ts : Nat) (oip : Bool) :
    (c.delete cfg k ts oip).1.eraseGhost = (c.eraseGhost.delete cfg k ts oip).1.eraseGhost := by
  have hbase : (if oip = true then c else c.ensureActive cfg).eraseGhost
      = (if oip = true then c.eraseGhost else c.eraseGhost.ensureActive cfg) := by
    cases oip
    · exact ensureActive_eraseGhost cfg c
    · rfl
  unfold CState.delete
  simp only []
  rw [← hbase]
  generalize (if oip = true then c else c.ensureActive cfg) = c0
  apply CState.ext'
  · simp only [eraseGhost_active, Option.map_map]
    cases c0.active with
    | none => rfl
    | some a =>
      simp only [Option.map_some, Function.comp_apply]
      rw [(delete_eraseGhost cfg a k ts oip).1]
  · simp only [eraseGhost_cont, mapChildren_mapChildren]
    apply mapChildren_congr
    intro b
    exact ((delete_eraseGhost cfg b k ts true).1).symm
  · rfl

theorem step_eraseGhost (cfg : Cfg) (c : CState) (op : COp) :
    (c.step cfg op).eraseGhost = (c.eraseGhost.step cfg op).eraseGhost := by
  cases op with
  | write k ts d => exact write_eraseGhost cfg c k ts d
  | delete k ts oip => exact delete_eraseGhost_state cfg c k ts oip
  | closeActive =>
    simp only [CState.step, CState.closeActive, eraseGhost_active]
    cases c.active with
    | none => simp only [Option.map_none, eraseGhost_eraseGhost]
    | some a =>
      simp only [Option.map_some, eraseGhost_cont]
      rw [push_mapChildren CBlob.eraseGhost (fops cfg) (childOps cfg) (childOps_filterOf_eraseGhost cfg)]
      apply CState.ext'
      · rfl
      · simp only [eraseGhost_cont, mapChildren_eraseGhost_idem]
      · rfl
  | createActive =>
    simp only [CState.step, CState.tryCreateActive, eraseGhost_active]
    cases c.active with
    | none => simp only [Option.map_none, ← createActive_eraseGhost, eraseGhost_eraseGhost]
    | some a => simp only [Option.map_some, eraseGhost_eraseGhost]
  | restoreActive =>
    simp only [CState.step, CState.restoreActive, eraseGhost_active]
    cases c.active with
    | some a => simp only [Option.map_some, eraseGhost_eraseGhost]
    | none =>
      simp only [Option.map_none, eraseGhost_cont, lastId_mapChildren]
      cases c.cont.lastId with
      | none => simp only [eraseGhost_eraseGhost]
      | some i =>
        simp only []
        rw [modifyChild_mapChildren CBlob.eraseGhost c.cont i (CBlob.loadIndex cfg) (CBlob.loadIndex cfg)
          (fun b => loadIndex_eraseGhost cfg b), pop_mapChildren]
        cases hp : (modifyChild c.cont i (CBlob.loadIndex cfg)).pop with
        | mk cont' ob =>
          cases ob with
          | none => simp only [Option.map_none, eraseGhost_eraseGhost]
          | some b =>
            simp only [Option.map_some]
            apply CState.ext'
            · rfl
            · simp only [eraseGhost_cont, mapChildren_eraseGhost_idem]
            · rfl
  | replaceActive =>
    simp only [CState.step, CState.replaceActive, eraseGhost_active]
    cases c.active with
    | none => simp only [Option.map_none, ← createActive_eraseGhost, eraseGhost_eraseGhost]
    | some a =>
      simp only [Option.map_some]
      have h1 : (c.eraseGhost.createActive cfg).cont = mapChildren (c.createActive cfg).cont CBlob.eraseGhost := rfl
      rw [h1, push_mapChildren CBlob.eraseGhost (fops cfg) (childOps cfg) (childOps_filterOf_eraseGhost cfg)]
      apply CState.ext'
      · rfl
      · simp only [eraseGhost_cont, mapChildren_eraseGhost_idem]
      · rfl
  | settle =>
    simp only [CState.step, CState.settle]
    apply CState.ext'
    · simp only [eraseGhost_active, Option.map_map]
      cases c.active <;> rfl
    · simp only [eraseGhost_cont, mapChildren_mapChildren]
      apply mapChildren_congr
      intro b
      show (b.dump cfg).eraseGhost = (b.eraseGhost.dump cfg).eraseGhost
      rw [dump_eraseGhost]; rfl
    · rfl
  | restart lazy =>
    simp only [CState.step, CState.restart]
    have hblobs : c.eraseGhost.blobs = c.blobs.map CBlob.eraseGhost := by
      unfold CState.blobs
      rw [eraseGhost_cont, closedBlobs_mapChildren, eraseGhost_active, List.map_append]
      cases c.active <;> rfl
    rw [hblobs, sortById_eraseGhost, regenAll_eraseGhost]
    cases regenAll cfg (sortById c.blobs) with
    | none => simp only [Option.map_none, eraseGhost_eraseGhost]
    | some bs =>
      simp only [Option.map_some]
      have hmax : (bs.map CBlob.eraseGhost).foldl (fun m b => max m (b.id + 1)) 0
          = bs.foldl (fun m b => max m (b.id + 1)) 0 := by
        rw [List.foldl_map]; rfl
      have hdump : ∀ (l : List CBlob), (l.map CBlob.eraseGhost).map (CBlob.dump cfg)
          = (l.map (CBlob.dump cfg)).map CBlob.eraseGhost := by
        intro l
        simp only [List.map_map]
        apply List.map_congr_left
        intro b _
        exact dump_eraseGhost cfg b
      have hext : ∀ (l : List CBlob),
          Container.extend (fops cfg) (childOps cfg) (CState.emptyCont cfg) (l.map CBlob.eraseGhost)
            = mapChildren (Container.extend (fops cfg) (childOps cfg) (CState.emptyCont cfg) l) CBlob.eraseGhost :=
        fun l => extend_mapChildren CBlob.eraseGhost (fops cfg) (childOps cfg) (childOps_filterOf_eraseGhost cfg) l
          (CState.emptyCont cfg)
      rw [hmax]
      cases lazy with
      | true =>
        simp only [if_true]
        rw [hdump, hext]
        apply CState.ext'
        · rfl
        · simp only [eraseGhost_cont, mapChildren_eraseGhost_idem]
        · rfl
      | false =>
        simp only [Bool.false_eq_true, if_false]
        rw [List.getLast?_map]
        cases bs.getLast? with
        | none => simp only [Option.map_none]
        | some a =>
          simp only [Option.map_some]
          rw [← List.map_dropLast, hdump, hext]
          apply CState.ext'
          · rfl
          · simp only [eraseGhost_cont, mapChildren_eraseGhost_idem]
          · rfl

/-- two states with the same physical part stay so: the history variable never influences the files, indexes,
    filters or the container -/
theorem step_phys_congr (cfg : Cfg) (c c' : CState) (h : c.eraseGhost = c'.eraseGhost) (op : COp) :
    (c.step cfg op).eraseGhost = (c'.step cfg op).eraseGhost := by
  rw [step_eraseGhost, h, ← step_eraseGhost]

theorem run_eraseGhost (cfg : Cfg) : ∀ (ops : List COp) (c : CState),
    (c.run cfg ops).eraseGhost = (c.eraseGhost.run cfg ops).eraseGhost
  | [], c => (eraseGhost_eraseGhost c).symm
  | op :: ops, c => by
    show ((c.step cfg op).run cfg ops).eraseGhost = ((c.eraseGhost.step cfg op).run cfg ops).eraseGhost
    rw [run_eraseGhost cfg ops (c.step cfg op), step_eraseGhost,
      ← run_eraseGhost cfg ops (c.eraseGhost.step cfg op)]

/-- the answers after any history depend on the physical part of the starting state only -/
theorem run_read_phys (cfg : Cfg) (c c' : CState) (h : c.eraseGhost = c'.eraseGhost) (ops : List COp) (k : Key) :
    (c.run cfg ops).read cfg k = (c'.run cfg ops).read cfg k ∧
      (c.run cfg ops).contains cfg k = (c'.run cfg ops).contains cfg k := by
  have h1 := read_ghost_irrelevant cfg (c.run cfg ops) k
  have h2 := read_ghost_irrelevant cfg (c'.run cfg ops) k
  have he : (c.run cfg ops).eraseGhost = (c'.run cfg ops).eraseGhost := by
    rw [run_eraseGhost, h, ← run_eraseGhost]
  rw [← h1.1, ← h1.2, ← h2.1, ← h2.2, he]
  exact ⟨rfl, rfl⟩

end Pearl.E2E
