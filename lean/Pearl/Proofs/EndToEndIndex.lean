import Pearl.Model.EndToEnd
import Pearl.Proofs.IndexLemmas
import Pearl.Proofs.BPTreeLemmas
/-
End-to-end composition, part 1: the in-memory index of the concrete storage (`vecPush`, `memPush`) —
the per-key vector is plain stable insertion (`ins`), the map stays a well-formed `BTreeMap` iteration
(`BPTree.WF`), and the vector filed under a key is the stable sort of the headers of that key.
-/
namespace Pearl.E2E
open Pearl Pearl.BPTree

/-! ### `vecPush` is stable insertion -/

theorem skipAux_eq {α : Type} (ts : α → Nat) (t : Nat) (l : List α) (pos : Nat) :
    skipAux ts t l pos = pos + (l.takeWhile (fun r => decide (ts r ≤ t))).length := by
  induction l generalizing pos with
  | nil => simp [skipAux]
  | cons r rs ih =>
    simp only [skipAux]
    split
    · rename_i h; rw [ih, List.takeWhile_cons_of_pos (by simpa using h)]; simp; omega
    · rename_i h; rw [List.takeWhile_cons_of_neg (by simpa using h)]; simp

theorem vecPush_eq_ins {α : Type} (ts : α → Nat) (v : List α) (h : α) : vecPush ts v h = ins ts v h := by
  unfold vecPush ins
  simp only []
  generalize hst : (if v.length > 4 then (v.takeWhile (fun r => decide (ts r < ts h))).length else 0) = st
  have hle : st ≤ v.length := by
    subst hst; split
    · exact (List.takeWhile_prefix _).length_le
    · omega
  have hall : ∀ a ∈ v.take st, (fun r => decide (ts r ≤ ts h)) a = true := by
    subst hst
    split
    · intro a ha
      have hpre : (v.takeWhile fun r => decide (ts r < ts h)) <+: v := List.takeWhile_prefix _
      rw [(List.prefix_iff_eq_take.1 hpre).symm] at ha
      have := of_mem_takeWhile a ha
      simp only [decide_eq_true_eq] at this ⊢
      omega
    · intro a ha; simp at ha
  rw [skipAux_eq]
  have e := takeWhile_eq_take_append (fun r => decide (ts r ≤ ts h)) st v hle hall
  have : st + ((v.drop st).takeWhile (fun r => decide (ts r ≤ ts h))).length
      = (v.takeWhile (fun r => decide (ts r ≤ ts h))).length := by
    rw [e, List.length_append, List.length_take, Nat.min_eq_left hle]
  rw [this, insertIdx_takeWhile_length]

theorem ins_ne_nil {α : Type} (f : α → Nat) (v : List α) (h : α) : ins f v h ≠ [] := by
  unfold ins; simp

/-! ### `memPush` -/

theorem lookup_none_of_lt {β : Type} (k : Nat) : ∀ (m : List (Nat × β)), (∀ x ∈ m, k < x.1) → m.lookup k = none
  | [], _ => rfl
  | (k', v) :: rest, h => by
    have h1 : k < k' := h (k', v) (by simp)
    have : (k == k') = false := by simp; omega
    rw [List.lookup_cons, this]
    exact lookup_none_of_lt k rest (fun x hx => h x (by simp [hx]))

theorem mem_of_lookup_eq_some {β : Type} {k : Nat} {v : β} : ∀ (m : List (Nat × β)), m.lookup k = some v → (k, v) ∈ m
  | [], h => by simp at h
  | (k', v') :: rest, h => by
    rw [List.lookup_cons] at h
    by_cases hk : k = k'
    · subst hk
      simp at h
      subst h
      simp
    · have : (k == k') = false := by simpa using hk
      rw [this] at h
      exact List.mem_cons_of_mem _ (mem_of_lookup_eq_some rest h)

theorem memPush_lookup (k : Nat) (h : RecHeader) :
    ∀ (m : InMem RecHeader), m.Pairwise (fun a b => a.1 < b.1) → ∀ k',
      (memPush k h m).lookup k' =
        if k' = k then some (ins RecHeader.timestamp ((m.lookup k).getD []) h) else m.lookup k'
  | [], _, k' => by
    simp only [memPush, List.lookup_cons, List.lookup_nil, Option.getD_none]
    by_cases hk : k' = k
    · subst hk; simp [ins]
    · have : (k' == k) = false := by simpa using hk
      simp [this, hk]
  | (k1, v) :: rest, hs, k' => by
    rw [List.pairwise_cons] at hs
    obtain ⟨hhd, htl⟩ := hs
    simp only [memPush]
    by_cases h1 : k < k1
    · rw [if_pos h1]
      have hnone : ((k1, v) :: rest).lookup k = none :=
        lookup_none_of_lt k _ (fun x hx => by
          rcases List.mem_cons.mp hx with rfl | hx
          · exact h1
          · have := hhd x hx; omega)
      rw [hnone]
      by_cases hk : k' = k
      · subst hk; simp [ins]
      · have : (k' == k) = false := by simpa using hk
        rw [List.lookup_cons, this, if_neg hk]
    · rw [if_neg h1]
      by_cases h2 : k = k1
      · subst h2
        rw [if_pos rfl]
        by_cases hk : k' = k
        · subst hk
          simp [vecPush_eq_ins]
        · have : (k' == k) = false := by simpa using hk
          simp [List.lookup_cons, this, hk]
      · rw [if_neg h2]
        have ih := memPush_lookup k h rest htl k'
        have hkk1 : (k == k1) = false := by simpa using h2
        by_cases hk1 : k' = k1
        · subst hk1
          have hne : ¬ k' = k := fun e => h2 e.symm
          simp [hne]
        · have : (k' == k1) = false := by simpa using hk1
          rw [List.lookup_cons, this, ih, List.lookup_cons (a := k), hkk1]
          by_cases hk : k' = k
          · simp [hk]
          · simp [hk, List.lookup_cons, this]

theorem mem_memPush (k : Nat) (h : RecHeader) : ∀ (m : InMem RecHeader) (x : Nat × List RecHeader),
    x ∈ memPush k h m → x.1 = k ∨ x ∈ m
  | [], x, hx => by simp [memPush] at hx; left; rw [hx]
  | (k1, v) :: rest, x, hx => by
    simp only [memPush] at hx
    split at hx
    · rcases List.mem_cons.mp hx with rfl | hx
      · left; rfl
      · right; exact hx
    · split at hx
      · rename_i h2
        rcases List.mem_cons.mp hx with rfl | hx
        · left; exact h2.symm
        · right; simp [hx]
      · rcases List.mem_cons.mp hx with rfl | hx
        · right; simp
        · rcases mem_memPush k h rest x hx with e | e
          · left; exact e
          · right; simp [e]

theorem memPush_sorted (k : Nat) (h : RecHeader) : ∀ (m : InMem RecHeader),
    m.Pairwise (fun a b => a.1 < b.1) → (memPush k h m).Pairwise (fun a b => a.1 < b.1)
  | [], _ => by simp [memPush]
  | (k1, v) :: rest, hs => by
    have hs' := hs
    rw [List.pairwise_cons] at hs'
    obtain ⟨hhd, htl⟩ := hs'
    simp only [memPush]
    split
    · rename_i h1
      rw [List.pairwise_cons]
      refine ⟨?_, hs⟩
      intro x hx
      rcases List.mem_cons.mp hx with rfl | hx
      · exact h1
      · have := hhd x hx; simp only at this ⊢; omega
    · split
      · rw [List.pairwise_cons]
        exact ⟨hhd, htl⟩
      · rename_i h1 h2
        rw [List.pairwise_cons]
        refine ⟨?_, memPush_sorted k h rest htl⟩
        intro x hx
        rcases mem_memPush k h rest x hx with e | e
        · simp only [e]; omega
        · exact hhd x e

theorem memPush_vecs (k : Nat) (h : RecHeader) (P : Nat → List RecHeader → Prop)
    (hnew : P k [h]) (hupd : ∀ v, P k v → P k (ins RecHeader.timestamp v h)) :
    ∀ (m : InMem RecHeader), (∀ x ∈ m, P x.1 x.2) → ∀ x ∈ memPush k h m, P x.1 x.2
  | [], _, x, hx => by
    simp [memPush] at hx; subst hx; exact hnew
  | (k1, v) :: rest, hm, x, hx => by
    simp only [memPush] at hx
    split at hx
    · rcases List.mem_cons.mp hx with rfl | hx
      · exact hnew
      · exact hm x hx
    · split at hx
      · rename_i h2
        rcases List.mem_cons.mp hx with rfl | hx
        · subst h2
          simp only [vecPush_eq_ins]
          exact hupd v (hm (k, v) (by simp))
        · exact hm x (by simp [hx])
      · rcases List.mem_cons.mp hx with rfl | hx
        · exact hm _ (by simp)
        · exact memPush_vecs k h P hnew hupd rest (fun y hy => hm y (by simp [hy])) x hx

theorem memPush_WF (k : Nat) (h : RecHeader) (hk : hdrKey h = k) (m : InMem RecHeader) (hwf : WF m) :
    WF (memPush k h m) := by
  refine ⟨memPush_sorted k h m hwf.sorted, ?_, ?_⟩
  · exact memPush_vecs k h (fun _ v => v ≠ []) (by simp) (fun v _ => ins_ne_nil _ v h) m hwf.nonempty
  · refine memPush_vecs k h (fun k' v => ∀ x ∈ v, hkey x = k') ?_ ?_ m hwf.keys
    · intro x hx; simp at hx; subst hx; exact hk
    · intro v hv x hx
      rcases mem_ins.mp hx with rfl | hx
      · exact hk
      · exact hv x hx

/-! ### the index of a list of headers pushed in order -/

/-- the map after `index.push(header.key().into(), header)` for every header in order -/
def indexOf (hs : List RecHeader) : InMem RecHeader := hs.foldl (fun m h => memPush (hdrKey h) h m) []

/-- the vector the index files under `k`: stable sort by timestamp of the headers of key `k` -/
def hvecOf (hs : List RecHeader) (k : Nat) : List RecHeader :=
  (hs.filter (fun h => hdrKey h == k)).foldl (ins RecHeader.timestamp) []

theorem indexOf_snoc (hs : List RecHeader) (h : RecHeader) :
    indexOf (hs ++ [h]) = memPush (hdrKey h) h (indexOf hs) := by
  simp [indexOf, List.foldl_append]

theorem foldl_memPush_WF : ∀ (hs : List RecHeader) (acc : InMem RecHeader), WF acc →
    WF (hs.foldl (fun m h => memPush (hdrKey h) h m) acc)
  | [], _, h => h
  | h :: hs, acc, hacc => foldl_memPush_WF hs _ (memPush_WF _ h rfl acc hacc)

theorem indexOf_WF (hs : List RecHeader) : WF (indexOf hs) :=
  foldl_memPush_WF hs [] ⟨List.Pairwise.nil, by simp, by simp⟩

theorem foldl_memPush_lookup (k : Nat) : ∀ (hs : List RecHeader) (acc : InMem RecHeader), WF acc →
    ((hs.foldl (fun m h => memPush (hdrKey h) h m) acc).lookup k).getD [] =
      (hs.filter (fun h => hdrKey h == k)).foldl (ins RecHeader.timestamp) ((acc.lookup k).getD [])
  | [], _, _ => rfl
  | h :: hs, acc, hacc => by
    simp only [List.foldl_cons]
    rw [foldl_memPush_lookup k hs _ (memPush_WF _ h rfl acc hacc), memPush_lookup _ h acc hacc.sorted k]
    by_cases hk : hdrKey h = k
    · subst hk
      simp
    · have h1 : ¬ k = hdrKey h := fun e => hk e.symm
      have h2 : (hdrKey h == k) = false := by simpa using hk
      rw [if_neg h1, List.filter_cons_of_neg (by simp [h2])]

theorem indexOf_lookup (hs : List RecHeader) (k : Nat) : ((indexOf hs).lookup k).getD [] = hvecOf hs k :=
  foldl_memPush_lookup k hs [] ⟨List.Pairwise.nil, by simp, by simp⟩

/-- `headers.get(key).and_then(|h| h.last())` of the index = last element of the sorted vector -/
theorem memLatest_indexOf (hs : List RecHeader) (k : Nat) :
    memLatest (indexOf hs) k = (hvecOf hs k).getLast? := by
  unfold memLatest
  rw [← indexOf_lookup]
  cases (indexOf hs).lookup k <;> rfl

theorem foldl_ins_eq_nil_iff {α : Type} (f : α → Nat) : ∀ (l acc : List α), l.foldl (ins f) acc = [] ↔ l = [] ∧ acc = []
  | [], acc => by simp
  | x :: l, acc => by
    simp only [List.foldl_cons]
    rw [foldl_ins_eq_nil_iff f l]
    simp [ins_ne_nil]

/-- `contains_key`: the map has an entry for `k` iff some header has key `k` -/
theorem indexOf_lookup_isSome (hs : List RecHeader) (k : Nat) :
    ((indexOf hs).lookup k).isSome = hs.any (fun h => hdrKey h == k) := by
  have hwf := indexOf_WF hs
  have hl := indexOf_lookup hs k
  cases hlk : (indexOf hs).lookup k with
  | none =>
    rw [hlk] at hl
    simp only [Option.getD_none] at hl
    have := (foldl_ins_eq_nil_iff _ _ _).mp hl.symm
    have hf : hs.filter (fun h => hdrKey h == k) = [] := this.1
    simp only [Option.isSome_none]
    symm
    rw [List.any_eq_false]
    intro x hx
    rw [List.filter_eq_nil_iff] at hf
    exact hf x hx
  | some v =>
    rw [hlk] at hl
    simp only [Option.getD_some] at hl
    have hne : v ≠ [] := by
      exact hwf.nonempty _ (mem_of_lookup_eq_some _ hlk)
    simp only [Option.isSome_some]
    symm
    rw [List.any_eq_true]
    have hf : hs.filter (fun h => hdrKey h == k) ≠ [] := by
      intro e
      apply hne
      rw [hl, hvecOf, e]; rfl
    obtain ⟨x, hx⟩ := List.exists_mem_of_ne_nil _ hf
    rw [List.mem_filter] at hx
    exact ⟨x, hx.1, hx.2⟩

theorem indexOf_eq_nil_iff (hs : List RecHeader) : indexOf hs = [] ↔ hs = [] := by
  constructor
  · intro h
    cases hs with
    | nil => rfl
    | cons x xs =>
      exfalso
      have := indexOf_lookup_isSome (x :: xs) (hdrKey x)
      rw [h] at this
      simp at this
  · intro h; subst h; rfl

end Pearl.E2E
